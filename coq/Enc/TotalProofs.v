(* C01 - totality of the mirror encoders: on a well-formed request whose line fits the update buffer
   send_rect answers Ok (neither the model's own failure value Err nor "client closed") for Raw, encoding -1,
   RRE, CoRRE, Hextile, Zlib and Ultra.  ZRLE: ZRLETotal.v, Tight: TightTotal.v (fuel of tight_split:
   TightSplitTotal.v), all encodings of send_rect together: SendAll.v. *)
From Coq Require Import ZArith List Lia Bool Arith.
From LV Require Import Enc.EncBase Enc.EncBaseProofs Enc.Subrect Enc.SubrectProofs Enc.Raw Enc.RRE Enc.Hextile
  Enc.RawRREProofs Enc.HextileProofs Enc.Zlib Enc.SplitProofs Enc.ZRLE Enc.Update Enc.UpdateProofs Gen.Consts_C01.
Import ListNotations.

Section Tot.
  Variables (W H bypp : nat) (scr : grid).
  Hypothesis WF : wf_grid W H scr.
  Hypothesis BY : 1 <= bypp.

  Lemma send_raw_total x y w h : x + w <= W -> y + h <= H -> bypp * w <= bufsize ->
    exists rects, send_raw bypp x y w h scr = Ok rects.
  Proof.
    intros HX HY HB. unfold send_raw. destruct ((w =? 0) || (h =? 0)) eqn:Z; [eauto|].
    apply orb_false_iff in Z. destruct Z as [Z1 Z2]. apply Nat.eqb_neq in Z1, Z2.
    destruct (raw_send_ok bufsize bypp (rect_header x y w h c_encRaw) (crop scr x y w h) w h) as (chunks & ->); eauto; try lia.
    apply (wf_crop W H); assumption.
  Qed.

  Lemma send_rre_total fsz enc x y w h : x + w <= W -> y + h <= H -> 1 <= w -> 1 <= h -> bypp * w <= bufsize ->
    exists rects, send_rre fsz enc bypp x y w h scr = Ok rects.
  Proof.
    intros HX HY Hw Hh HB. unfold send_rre.
    pose proof (wf_crop W H scr x y w h WF HX HY) as WC.
    destruct (rre_payload fsz bypp w h (crop scr x y w h)) as [p| |] eqn:RP; [eauto|apply send_raw_total; assumption|].
    exfalso. unfold rre_payload in RP.
    destruct (bg_colour bypp (concat (crop scr x y w h))) as [bg|] eqn:BG.
    - destruct (subrect_encode w h _ bg _ _ _) as [s| |] eqn:SE; try discriminate.
      revert SE. apply subrect_encode_no_err. exact WC.
    - unfold bg_colour in BG. destruct bypp as [|[|b]]; try discriminate; try lia.
      destruct WC as [L F]. destruct (crop scr x y w h) as [|r0 g']; [simpl in L; lia|].
      apply Forall_cons_iff in F. destruct F as [F0 _]. destruct r0; [simpl in F0; lia|]. simpl in BG. discriminate.
  Qed.

  Lemma res_concat_total {A B} (f : A -> res (list B)) : forall l,
    (forall a, In a l -> exists rs, f a = Ok rs) -> exists rects, res_concat (map f l) = Ok rects.
  Proof.
    induction l as [|a t IH]; intros T; cbn [map res_concat]; [eauto|].
    destruct (T a (or_introl eq_refl)) as (ra & ->).
    destruct IH as (rt & ->); [intros; apply T; right; assumption|]. eauto.
  Qed.

  Lemma send_corre_total mw mh x y w h : x + w <= W -> y + h <= H -> 1 <= mw -> 1 <= mh -> bypp * w <= bufsize ->
    exists rects, send_corre mw mh bypp x y w h scr = Ok rects.
  Proof.
    intros HX HY Hmw Hmh HB. unfold send_corre. apply res_concat_total.
    intros [[[tx ty] tw] th] IN. apply tiles_inside in IN. destruct IN as (I1 & I2 & I3 & I4 & I5 & I6).
    apply send_rre_total; try lia. nia.
  Qed.

  Lemma send_hextile_total x y w h : x + w <= W -> y + h <= H ->
    exists rects, send_hextile bypp x y w h scr = Ok rects.
  Proof.
    intros HX HY. unfold send_hextile.
    destruct (hextile_total bypp w h (crop scr x y w h) (wf_crop W H scr x y w h WF HX HY)) as (p & ->). eauto.
  Qed.

  Lemma send_zlib_total sbypp x y w h : x + w <= W -> y + h <= H -> 1 <= w -> bypp * w <= bufsize ->
    exists rects, send_zlib sbypp bypp x y w h scr = Ok rects.
  Proof.
    intros HX HY Hw HB. unfold send_zlib. apply res_concat_total.
    intros [sy sh] IN. rewrite strips_eq in IN by assumption.
    apply in_map_iff in IN. destruct IN as (s & EQ & IS). inversion EQ; subst sy sh. clear EQ.
    apply starts_spec in IS. destruct IS as (IS & _).
    destruct (Z.of_nat _ <? c_ZLIB_MIN_COMP)%Z; [|eauto].
    apply send_raw_total; try lia.
  Qed.
End Tot.

(* C01_send_rect_total *)
Theorem send_rect_total W H scr p x y w h :
  wf_grid W H scr -> x + w <= W -> y + h <= H -> 1 <= w -> 1 <= h -> 1 <= p_bypp p ->
  p_bypp p * w <= bufsize -> 1 <= p_mw p -> 1 <= p_mh p ->
  In (p_enc p) [c_encRaw; (-1)%Z; c_encRRE; c_encCoRRE; c_encHextile; c_encZlib; c_encUltra] ->
  exists rects, send_rect p x y w h scr = Ok rects.
Proof.
  intros WF HX HY Hw Hh BY HB MW MH IN. unfold send_rect. cbv zeta.
  destruct ((p_enc p =? c_encRaw) || (p_enc p =? -1))%Z eqn:B0; [eapply send_raw_total; eauto|].
  destruct (p_enc p =? c_encRRE)%Z eqn:B2; [eapply send_rre_total; eauto|].
  destruct (p_enc p =? c_encCoRRE)%Z eqn:B4; [eapply send_corre_total; eauto|].
  destruct (p_enc p =? c_encHextile)%Z eqn:B5; [eapply send_hextile_total; eauto|].
  destruct (p_enc p =? c_encZlib)%Z eqn:B6; [eapply send_zlib_total; eauto|].
  destruct (p_enc p =? c_encUltra)%Z eqn:B9; [unfold send_ultra; eauto|].
  exfalso. apply orb_false_iff in B0. destruct B0 as [B0 B1].
  apply Z.eqb_neq in B0, B1, B2, B4, B5, B6, B9. simpl in IN. intuition congruence.
Qed.
