(* C01 - the repaired rfbSendRectEncodingRaw (notes/fix_C01_5.diff): a line longer than the update buffer
   is translated and sent in pieces instead of closing the client.  On the stream this is the Raw rectangle
   with all its lines (the flush points are not observable), so the repaired dispatch is send_rect with
   "client closed" replaced by that rectangle.  In send_rect the value Fallback only arises from
   rfbSendRectEncodingRaw (directly, or as the fall-back of RRE / CoRRE / Zlib). *)
From Coq Require Import ZArith List Lia Bool Arith.
From LV Require Import Enc.EncBase Enc.EncBaseProofs Enc.RawRREProofs Enc.HextileProofs Enc.Update Enc.UpdateProofs Enc.BytesProofs
     Dec.SpecBase Dec.SpecRaw Dec.SpecUpdate Gen.Consts_C01.
Import ListNotations.

Definition send_rect_split (p : enc_params) (x y w h : nat) (scr : grid) : res (list wrect) :=
  match send_rect p x y w h scr with
  | Fallback => Ok [mkW x y w h c_encRaw (grid_bytes (p_bypp p) (crop scr x y w h))]
  | r => r
  end.

(* C01_raw_wide_repaired: the repaired server never closes the client for a wide line, and what it sends
   instead decodes to the framebuffer; where send_rect delivers, nothing changes *)
Theorem send_rect_split_ok W H scr p x y w h :
  wf_grid W H scr -> grid_pix_ok (p_bypp p) scr -> x + w <= W -> y + h <= H ->
  send_rect_split p x y w h scr <> Fallback /\
  (forall rects, send_rect p x y w h scr = Ok rects -> send_rect_split p x y w h scr = Ok rects) /\
  (send_rect p x y w h scr = Fallback ->
   exists r, send_rect_split p x y w h scr = Ok [r] /\ rect_ok (p_bypp p) (p_cmode p) scr r /\
             geom r = (x, y, w, h) /\ bytes_ok (wire_bytes r)).
Proof.
  intros WF PIX HX HY. unfold send_rect_split. split; [|split].
  - destruct (send_rect p x y w h scr); discriminate.
  - intros rects E. rewrite E. reflexivity.
  - intros E. rewrite E. eexists. split; [reflexivity|]. split; [|split; [reflexivity|]].
    + unfold rect_ok. cbn [w_enc w_w w_h w_x w_y w_payload]. destruct enc_consts as (K & _). rewrite K.
      unfold dec_rect. change (0 =? 0)%Z with true. cbv iota.
      apply dec_raw_grid_bytes; [apply (wf_crop W H); assumption|apply grid_pix_ok_crop; assumption].
    + apply wire_bytes_ok. unfold pay_ok. cbn [w_payload]. apply grid_bytes_ok.
Qed.

(* ------------------------------------------------------------------ the repaired dispatch as baseline *)
From LV Require Import Enc.Subrect Enc.SubrectProofs Enc.RRE Enc.Raw Enc.Zlib Enc.SplitProofs Enc.TotalProofs Enc.ZRLETotal Enc.ZRLEProofs1 Enc.SendAll.

Lemma res_concat_no_err {A B} (f : A -> res (list B)) : forall l,
  (forall a, In a l -> f a <> Err) -> res_concat (map f l) <> Err.
Proof.
  induction l as [|a t IH]; intros H; cbn [map res_concat]; [discriminate|].
  pose proof (H a (or_introl eq_refl)) as Ha. pose proof (IH (fun b Hb => H b (or_intror Hb))) as Ht.
  destruct (f a); destruct (res_concat (map f t)); congruence.
Qed.

Section NoErr.
  Variables (W H bypp : nat) (scr : grid).
  Hypothesis WF : wf_grid W H scr.
  Hypothesis BY : 1 <= bypp.

  Lemma send_raw_no_err x y w h : x + w <= W -> y + h <= H -> send_raw bypp x y w h scr <> Err.
  Proof.
    intros HX HY. unfold send_raw. destruct ((w =? 0) || (h =? 0)) eqn:Z; [discriminate|].
    apply orb_false_iff in Z. destruct Z as [Z1 Z2]. apply Nat.eqb_neq in Z1, Z2.
    pose proof (wf_crop W H scr x y w h WF HX HY) as WC.
    destruct (le_lt_dec (bypp * w) bufsize) as [FIT|WIDE].
    - destruct (raw_send_ok bufsize bypp (rect_header x y w h c_encRaw) (crop scr x y w h) w h) as (chunks & ->); auto; try lia.
      discriminate.
    - rewrite (raw_send_too_wide bufsize bypp _ _ w h WC ltac:(lia) WIDE). discriminate.
  Qed.

  Lemma send_rre_no_err fsz enc x y w h : x + w <= W -> y + h <= H -> 1 <= w -> 1 <= h ->
    send_rre fsz enc bypp x y w h scr <> Err.
  Proof.
    intros HX HY Hw Hh. unfold send_rre.
    pose proof (wf_crop W H scr x y w h WF HX HY) as WC.
    destruct (rre_payload fsz bypp w h (crop scr x y w h)) as [p| |] eqn:RP; [discriminate|apply send_raw_no_err; assumption|].
    exfalso. unfold rre_payload in RP.
    destruct (bg_colour bypp (concat (crop scr x y w h))) as [bg|] eqn:BG.
    - destruct (subrect_encode w h _ bg _ _ _) as [s| |] eqn:SE; try discriminate.
      revert SE. apply subrect_encode_no_err. exact WC.
    - unfold bg_colour in BG. destruct bypp as [|[|b]]; try discriminate; try lia.
      destruct WC as [L F]. destruct (crop scr x y w h) as [|r0 g']; [simpl in L; lia|].
      apply Forall_cons_iff in F. destruct F as [F0 _]. destruct r0; [simpl in F0; lia|]. simpl in BG. discriminate.
  Qed.
End NoErr.

Lemma send_rect_no_err W H scr p x y w h :
  wf_grid W H scr -> x + w <= W -> y + h <= H -> 1 <= w -> 1 <= h -> 1 <= p_bypp p -> 1 <= p_mw p -> 1 <= p_mh p ->
  In (p_enc p) [c_encRaw; (-1)%Z; c_encRRE; c_encCoRRE; c_encHextile; c_encZlib; c_encUltra; c_encZRLE] ->
  send_rect p x y w h scr <> Err.
Proof.
  intros WF HX HY Hw Hh BY MW MH IN. unfold send_rect. cbv zeta.
  destruct ((p_enc p =? c_encRaw) || (p_enc p =? -1))%Z eqn:B0; [eapply send_raw_no_err; eauto|].
  destruct (p_enc p =? c_encRRE)%Z eqn:B2; [eapply send_rre_no_err; eauto|].
  destruct (p_enc p =? c_encCoRRE)%Z eqn:B4.
  { unfold send_corre. apply res_concat_no_err. intros [[[tx ty] tw] th] INT. apply tiles_inside in INT.
    destruct INT as (I1 & I2 & I3 & I4 & I5 & I6). eapply send_rre_no_err; eauto; lia. }
  destruct (p_enc p =? c_encHextile)%Z eqn:B5.
  { destruct (send_hextile_total W H (p_bypp p) scr WF x y w h HX HY) as (r & ->). discriminate. }
  destruct (p_enc p =? c_encZlib)%Z eqn:B6.
  { unfold send_zlib. apply res_concat_no_err. intros [sy sh] INS. rewrite strips_eq in INS by assumption.
    apply in_map_iff in INS. destruct INS as (s & EQ & IS). inversion EQ; subst sy sh. clear EQ.
    apply starts_spec in IS. destruct IS as (IS & _).
    destruct (Z.of_nat _ <? c_ZLIB_MIN_COMP)%Z; [|discriminate]. eapply send_raw_no_err; eauto; lia. }
  destruct (p_enc p =? c_encUltra)%Z eqn:B9; [unfold send_ultra; discriminate|].
  destruct (p_enc p =? c_encZRLE)%Z eqn:B16.
  { destruct (send_zrle_total W H scr (p_bypp p) (p_cmode p) (p_b15 p) x y w h WF HX HY) as (r & ->). discriminate. }
  exfalso. apply orb_false_iff in B0. destruct B0 as [B0 B1].
  apply Z.eqb_neq in B0, B1, B2, B4, B5, B6, B9, B16. simpl in IN. intuition congruence.
Qed.

(* C01_send_rect_repaired: the dispatch of the repaired server (a3e0ace) - for EVERY well-formed request, however
   wide, rectangles are sent, each decodes to the framebuffer, they lie inside the request and partition it *)
Theorem send_rect_split_full W H scr p x y w h :
  wf_grid W H scr -> grid_pix_ok (p_bypp p) scr -> 1 <= p_bypp p ->
  x + w <= W -> y + h <= H -> 1 <= w -> 1 <= h -> (Z.of_nat w < 65536)%Z -> (Z.of_nat h < 65536)%Z ->
  1 <= p_mw p <= 255 -> 1 <= p_mh p <= 255 ->
  (p_enc p = c_encZRLE -> p_b15 p = false /\ Forall (Forall (cpix_ok (p_bypp p) (p_cmode p))) scr) ->
  In (p_enc p) [c_encRaw; (-1)%Z; c_encRRE; c_encCoRRE; c_encHextile; c_encZlib; c_encUltra; c_encZRLE] ->
  exists rects, send_rect_split p x y w h scr = Ok rects /\
    Forall (UpdateProofs.rect_ok (p_bypp p) (p_cmode p) scr) rects /\
    Forall (fun r => x <= w_x r /\ y <= w_y r) rects /\
    partitions w h (rel_geoms x y rects) /\
    Forall (fun r => bytes_ok (wire_bytes r)) rects.
Proof.
  intros WF PIX BY HX HY HW HH BW BH MW MH ZR IN.
  pose proof (send_rect_no_err W H scr p x y w h WF HX HY HW HH BY ltac:(lia) ltac:(lia) IN) as NE.
  destruct (send_rect_split_ok W H scr p x y w h WF PIX HX HY) as (_ & SAME & WIDE).
  destruct (send_rect p x y w h scr) as [rects| |] eqn:SR; [| |congruence].
  - exists rects. split; [apply SAME; reflexivity|].
    destruct (send_rect_ok W H scr p x y w h rects WF PIX HX HY HW HH BW BH MW MH ZR SR) as (A & B & C).
    split; [exact A|]. split; [exact B|]. split; [exact C|].
    apply (SendAll.send_rect_bytes_all W H scr p x y w h rects WF HX HY SR).
  - destruct (WIDE eq_refl) as (r & E & OK & G & BYT). exists [r]. split; [exact E|].
    unfold geom in G. injection G as Gx Gy Gw Gh.
    split; [constructor; [exact OK|constructor]|]. split; [constructor; [lia|constructor]|].
    split; [|constructor; [exact BYT|constructor]].
    unfold rel_geoms. cbn [map]. rewrite Gx, Gy, Gw, Gh. rewrite !Nat.sub_diag. split; [|split].
    + intros a b c d [Q|[]]. inversion Q; subst. lia.
    + intros i j Hi Hj. exists (0, 0, w, h). split; [left; reflexivity|]. simpl. lia.
    + intros a b i j [<-|[]] [<-|[]] _ _. reflexivity.
Qed.
