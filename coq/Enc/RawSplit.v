(* C01 - the repaired rfbSendRectEncodingRaw (notes/fix_C01_5.diff): a line longer than the update buffer
   is translated and sent in pieces instead of closing the client.  On the stream this is the Raw rectangle
   with all its lines (the flush points are not observable), so the repaired dispatch is send_rect with
   "client closed" replaced by that rectangle.  In send_rect the value Fallback only arises from
   rfbSendRectEncodingRaw (directly, or as the fall-back of RRE / CoRRE / Zlib). *)
From Coq Require Import ZArith List Lia Bool Arith.
From LV Require Import Enc.EncBase Enc.EncBaseProofs Enc.RawRREProofs Enc.HextileProofs Enc.Update Enc.UpdateProofs Enc.BytesProofs
     Dec.SpecBase Dec.SpecRaw Dec.SpecUpdate Gen.Consts_C01.
Import ListNotations.

Definition send_rect_split (p : enc_params) (x y w h : nat) (scr : grid) : res (list wrect) :=
  match send_rect p x y w h scr with
  | Fallback => Ok [mkW x y w h c_encRaw (grid_bytes (p_bypp p) (crop scr x y w h))]
  | r => r
  end.

(* C01_raw_wide_repaired: the repaired server never closes the client for a wide line, and what it sends
   instead decodes to the framebuffer; where send_rect delivers, nothing changes *)
Theorem send_rect_split_ok W H scr p x y w h :
  wf_grid W H scr -> grid_pix_ok (p_bypp p) scr -> x + w <= W -> y + h <= H ->
  send_rect_split p x y w h scr <> Fallback /\
  (forall rects, send_rect p x y w h scr = Ok rects -> send_rect_split p x y w h scr = Ok rects) /\
  (send_rect p x y w h scr = Fallback ->
   exists r, send_rect_split p x y w h scr = Ok [r] /\ rect_ok (p_bypp p) (p_cmode p) scr r /\
             geom r = (x, y, w, h) /\ bytes_ok (wire_bytes r)).
Proof.
  intros WF PIX HX HY. unfold send_rect_split. split; [|split].
  - destruct (send_rect p x y w h scr); discriminate.
  - intros rects E. rewrite E. reflexivity.
  - intros E. rewrite E. eexists. split; [reflexivity|]. split; [|split; [reflexivity|]].
    + unfold rect_ok. cbn [w_enc w_w w_h w_x w_y w_payload]. destruct enc_consts as (K & _). rewrite K.
      unfold dec_rect. change (0 =? 0)%Z with true. cbv iota.
      apply dec_raw_grid_bytes; [apply (wf_crop W H); assumption|apply grid_pix_ok_crop; assumption].
    + apply wire_bytes_ok. unfold pay_ok. cbn [w_payload]. apply grid_bytes_ok.
Qed.
