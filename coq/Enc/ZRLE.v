(* C01 - mirror of zrle.c / zrleencodetemplate.c / zrlepalettehelper.c / zrleoutstream.c
   (everything before the deflate call): choice of the CPIXEL form, 64x64 tiling, per tile the
   palette (first-occurrence order, saturating at ZRLE_PALETTE_MAX_SIZE), the run statistics
   and the choice solid / raw / packed palette / plain RLE / palette RLE by estimated size. *)
From Coq Require Import ZArith List Lia Bool Arith.
From LV Require Import Enc.EncBase Gen.Consts_C01.
Import ListNotations.
Local Open Scope Z_scope.

(* C int arithmetic of  (cl->format.redMax << cl->format.redShift) < (1<<24) :
   uint16_t promoted to int, shifted as a 32-bit signed int (wraps on this platform) *)
Definition sint32 (v : Z) : Z := (v + 2147483648) mod 4294967296 - 2147483648.

(* CPIXEL form: 0 = all bytes of the pixel, 1 = "24A" (bytes 0..2 of the 4-byte pixel as it lies
   in memory), 2 = "24B" (bytes 1..3).  rfbSendRectEncodingZRLE, case 32: no test of depth, and
   the fitsInLS3Bytes test is done in signed 32-bit arithmetic (finding C01-F2: 255<<24 is negative). *)
Definition zrle_cmode_gen (wrap : bool) (bpp be rmax gmax bmax rs gs bs : Z) : nat :=
  if bpp =? 32 then
    let sh := fun m s => if wrap then sint32 (Z.shiftl m s) else Z.shiftl m s in
    let fitsLS := (sh rmax rs <? 16777216) && (sh gmax gs <? 16777216) && (sh bmax bs <? 16777216) in
    let fitsMS := (7 <? rs) && (7 <? gs) && (7 <? bs) in
    let bigEndian := negb (be =? 0) in
    if (fitsLS && negb bigEndian) || (fitsMS && bigEndian) then 1%nat
    else if (fitsLS && bigEndian) || (fitsMS && negb bigEndian) then 2%nat
    else 0%nat
  else 0%nat.

(* the unchanged library computes in int (wrap = true); [wrap = false] is the variant after the
   proposed fix notes/fix_C01_2.diff, selected by props/C01.py from the source text *)
Definition zrle_cmode := zrle_cmode_gen true.

(* case 16: greenMax > 0x1F selects zrleEncode16xx, otherwise zrleEncode15xx (template with BPP = 15) *)
Definition zrle_bpp15 (bpp gmax : Z) : bool := (bpp =? 16) && (gmax <=? 31).

(* zrleOutStreamWriteOpaque{8,16,32,24A,24B} on the little-endian host *)
Definition cpixel_bytes (bypp cmode : nat) (p : Z) : list Z :=
  match cmode with
  | 1%nat => firstn 3 (le_bytes 4 p)
  | 2%nat => skipn 1 (le_bytes 4 p)
  | _ => le_bytes bypp p
  end.

Definition cpixel_size (bypp cmode : nat) : Z :=
  match cmode with O => Z.of_nat bypp | _ => 3 end.

(* maximal runs of the flat tile data, as (pixel, length) *)
Fixpoint group_runs (data : list Z) : list (Z * Z) :=
  match data with
  | [] => []
  | p :: t =>
    match group_runs t with
    | (q, n) :: rest => if p =? q then (q, n + 1) :: rest else (p, 1) :: (q, n) :: rest
    | [] => [(p, 1)]
    end
  end.

Fixpoint pal_index (pal : list Z) (p : Z) : option Z :=
  match pal with
  | [] => None
  | q :: t => if p =? q then Some 0 else match pal_index t p with Some i => Some (i + 1) | None => None end
  end.

(* zrlePaletteHelperInsert: (palette in insertion order, size) *)
Definition ph_insert (st : list Z * Z) (p : Z) : list Z * Z :=
  let '(pal, size) := st in
  if size <? c_zrlePaletteMax then
    match pal_index pal p with
    | Some _ => (pal, size)
    | None => (pal ++ [p], size + 1)
    end
  else (pal, size + 1).

(* while (len >= 255) { write 255; len -= 255; } write len;   called with len-1 *)
Fixpoint run_len_bytes (fuel : nat) (len : Z) : list Z :=
  match fuel with
  | O => [len]
  | S f => if 255 <=? len then 255 :: run_len_bytes f (len - 255) else [len]
  end.

Definition zrle_rle_run (bypp cmode : nat) (usePalette : bool) (pal : list Z) (r : Z * Z) : option (list Z) :=
  let '(pix, len) := r in
  if usePalette then
    match pal_index pal pix with
    | None => None
    | Some idx =>
      if len <=? 2 then Some (if len =? 2 then [idx; idx] else [idx])
      else Some ((idx + 128) :: run_len_bytes (Z.to_nat (len / 255)) (len - 1))
    end
  else Some (cpixel_bytes bypp cmode pix ++ run_len_bytes (Z.to_nat (len / 255)) (len - 1)).

Fixpoint opt_concat {A} (l : list (option (list A))) : option (list A) :=
  match l with
  | [] => Some []
  | Some a :: t => match opt_concat t with Some b => Some (a ++ b) | None => None end
  | None :: _ => None
  end.

(* packed palette row: byte = (byte << bppp) | index; nbits += bppp; flush at 8; pad the last *)
Fixpoint pack_row (bppp : Z) (pal : list Z) (r : row) (byte nbits : Z) : option (list Z) :=
  match r with
  | [] => if 0 <? nbits then Some [(byte * 2 ^ (8 - nbits)) mod 256] else Some []
  | p :: t =>
    match pal_index pal p with
    | None => None
    | Some idx =>
      let byte' := (byte * 2 ^ bppp + idx) mod 256 in      (* zrle_U8 arithmetic; idx < 2^bppp *)
      let nbits' := nbits + bppp in
      if 8 <=? nbits' then
        match pack_row bppp pal t byte' 0 with Some bs => Some (byte' :: bs) | None => None end
      else pack_row bppp pal t byte' nbits'
    end
  end.

Definition nth_z (l : list Z) (i : Z) : option Z := if i <? 0 then None else nth_error l (Z.to_nat i).

(* the estimate-driven choice of ZRLE_ENCODE_TILE: (useRle, usePalette, bits per packed pixel) *)
Definition zrle_choose (bo wh runs singles size : Z) : option (bool * bool * Z) :=
  let est0 := wh * bo in                                         (* start assuming raw *)
  let plainRle := (bo + 1) * (runs + singles) in
  let '(useRle1, est1) := if plainRle <? est0 then (true, plainRle) else (false, est0) in
  if size <? 128 then
    let palRle := bo * size + 2 * runs + singles in
    let '(useRle2, usePal2, est2) :=
        if palRle <? est1 then (true, true, palRle) else (useRle1, false, est1) in
    if size <? 17 then
      match nth_z c_bitsPerPackedPixel (size - 1) with
      | None => None
      | Some bppp =>
        let packed := bo * size + wh * bppp / 8 in
        if packed <? est2 then Some (false, true, bppp) else Some (useRle2, usePal2, bppp)
      end
    else Some (useRle2, usePal2, 0)
  else Some (useRle1, false, 0).

Definition zrle_tile (bypp cmode : nat) (b15 : bool) (tw th : nat) (t : grid) : option (list Z) :=
  let data := concat t in
  let rs := group_runs data in
  let singles := Z.of_nat (length (filter (fun r => snd r =? 1) rs)) in
  let runs := Z.of_nat (length (filter (fun r => negb (snd r =? 1)) rs)) in
  let '(pal, size) := fold_left ph_insert (map fst rs) ([], 0) in
  if size =? 1 then
    match pal with
    | p :: _ => Some (1 :: cpixel_bytes bypp cmode p)
    | [] => None
    end
  else
    match zrle_choose (cpixel_size bypp cmode) (Z.of_nat (tw * th)) runs singles size with
    | None => None
    | Some (useRle, usePal, bppp) =>
      let psize := if usePal then size else 0 in
      let hdr := ((if useRle then 128 else 0) + psize) :: flat_map (cpixel_bytes bypp cmode) (if usePal then pal else []) in
      if useRle then
        match opt_concat (map (zrle_rle_run bypp cmode usePal pal) rs) with
        | Some body => Some (hdr ++ body)
        | None => None
        end
      else if usePal then
        match opt_concat (map (fun r => pack_row bppp pal r 0 0) t) with
        | Some body => Some (hdr ++ body)
        | None => None
        end
      else
        let raw := flat_map (fun r => flat_map (cpixel_bytes bypp cmode) r) t in
        (* zrleOutStreamWriteBytes(os, data, w*h*(BPP/8)) with BPP = 15: only w*h bytes (finding C01-F1) *)
        Some (hdr ++ (if b15 then firstn (tw * th) raw else raw))
    end.

Definition zrle_payload (bypp cmode : nat) (b15 : bool) (w h : nat) (g : grid) : option (list Z) :=
  opt_concat (map (fun '(x, y, tw, th) => zrle_tile bypp cmode b15 tw th (crop g x y tw th))
                  (tiles w h (Z.to_nat c_zrleTileW) (Z.to_nat c_zrleTileH))).
