(* C01 - the Tight wire layer: what the specification's client (four persistent inflate streams) makes of
   what the server puts on the wire is the pre-compression payload's picture, for every history. *)
From Coq Require Import ZArith List Lia Bool Arith Zify.
From LV Require Import Enc.EncBase Enc.EncBaseProofs Enc.RawRREProofs Enc.ZRLE Enc.ZRLEProofs1 Enc.ZRLEProofs4 Enc.HextileProofs
     Enc.Update Enc.UpdateProofs Enc.SplitProofs Enc.TotalProofs Enc.BytesProofs
     Enc.Tight Enc.TightProofs Enc.TightSplit Enc.TightSplitProofs Enc.TightSplitTotal Enc.TightUniform Enc.TightSessionProofs
     Enc.TightSessionFull Enc.TightTotal Enc.TightWire Dec.SpecBase Dec.SpecTight Gen.Consts_C01.
Import ListNotations.
Local Open Scope Z_scope.

Ltac Zify.zify_post_hook ::= Z.div_mod_to_equations.

Lemma compact_len_roundtrip n r : 0 <= n < 4194304 -> take_compact_len (compact_len n ++ r) = Some (n, r).
Proof.
  intros H. unfold compact_len. destruct (n <? 128) eqn:E1; [apply Z.ltb_lt in E1|apply Z.ltb_ge in E1].
  - cbn [app take_compact_len]. replace (n <? 128) with true by (symmetry; apply Z.ltb_lt; lia). reflexivity.
  - destruct (n <? 16384) eqn:E2; [apply Z.ltb_lt in E2|apply Z.ltb_ge in E2]; cbn [app take_compact_len].
    + replace (n mod 128 + 128 <? 128) with false by (symmetry; apply Z.ltb_ge; lia).
      replace (n / 128 <? 128) with true by (symmetry; apply Z.ltb_lt; lia).
      f_equal. f_equal. lia.
    + replace (n mod 128 + 128 <? 128) with false by (symmetry; apply Z.ltb_ge; lia).
      replace ((n / 128) mod 128 + 128 <? 128) with false by (symmetry; apply Z.ltb_ge; lia).
      f_equal. f_equal. lia.
Qed.

Ltac Zify.zify_post_hook ::= idtac.

Lemma tight_min : c_TIGHT_MIN_TO_COMPRESS = 12.
Proof. reflexivity. Qed.

(* ------------------------------------------------------------------ four streams *)
Section Streams.
  Variables cstate dstate : Type.
  Variable sync : cstate -> dstate -> Prop.

  Definition sync4 (cs : st4 cstate) (ds : st4 dstate) : Prop :=
    let '(a, b, c, d) := cs in let '(a', b', c', d') := ds in sync a a' /\ sync b b' /\ sync c c' /\ sync d d'.

  Lemma sync4_get cs ds i : sync4 cs ds -> sync (get4 cs i) (get4 ds i).
  Proof.
    destruct cs as [[[a b] c] d]. destruct ds as [[[a' b'] c'] d']. intros (A & B & C & D). unfold get4.
    destruct (i =? 0); [exact A|]. destruct (i =? 1); [exact B|]. destruct (i =? 2); assumption.
  Qed.

  Lemma sync4_set cs ds i c d : sync4 cs ds -> sync c d -> sync4 (set4 cs i c) (set4 ds i d).
  Proof.
    destruct cs as [[[a1 b1] c1] d1]. destruct ds as [[[a' b'] c'] d']. intros (A & B & C & D) S. unfold set4.
    destruct (i =? 0); [cbn; auto|]. destruct (i =? 1); [cbn; auto|]. destruct (i =? 2); cbn; auto.
  Qed.
End Streams.

Lemma apply_resets_none {D} (dinit : D) ds : apply_resets D dinit ds 0 = ds.
Proof. destruct ds as [[[a b] c] d]. reflexivity. Qed.

(* ------------------------------------------------------------------ shape of a payload *)
Inductive tw_shape (f : tight_fmt) (w h : nat) : list Z -> nat -> Prop :=
| Sh_plain ctl : Z.testbit (ctl / 16) 2 = false -> tw_shape f w h [ctl] (w * h * tsize f)
| Sh_copy ctl : Z.testbit (ctl / 16) 2 = true -> tw_shape f w h [ctl; 0] (w * h * tsize f)
| Sh_pal ctl nc1 pal : Z.testbit (ctl / 16) 2 = true -> length pal = (Z.to_nat (nc1 + 1) * tsize f)%nat ->
    tw_shape f w h (ctl :: 1 :: nc1 :: pal)
             (if nc1 + 1 <=? 2 then (Z.to_nat ((Z.of_nat w * 1 + 7) / 8) * h)%nat else (w * h)%nat).

Lemma tw_header_shape f w h hdr n x : tw_shape f w h hdr n -> tw_header f w h (hdr ++ x) = Some (hdr, x, n).
Proof.
  intros S. destruct S as [ctl T|ctl T|ctl nc1 pal T L]; unfold tw_header; cbn [app]; rewrite T.
  - reflexivity.
  - reflexivity.
  - change (1 =? 1) with true. cbv iota. rewrite <- L. rewrite take_app. reflexivity.
Qed.

Lemma tw_shape_head f w h hdr n : tw_shape f w h hdr n -> exists ctl t, hdr = ctl :: t.
Proof. intros S. destruct S; eauto. Qed.

(* a payload the wire layer can carry: no reset bits; fill, or header ++ data of the announced size *)
Definition tw_good (f : tight_fmt) (w h : nat) (pl : list Z) : Prop :=
  exists ctl tl, pl = ctl :: tl /\ ctl mod 16 = 0 /\
    (8 <= ctl / 16 \/
     (ctl / 16 < 8 /\ exists t' data n, pl = (ctl :: t') ++ data /\ tw_shape f w h (ctl :: t') n /\ length data = n)).

Section WireProofs.
  Variables cstate dstate : Type.
  Variable compress : Z -> cstate -> list Z -> list Z * cstate.
  Variable decompress : dstate -> list Z -> option (list Z * dstate).
  Variable dinit : dstate.
  Variable sync : cstate -> dstate -> Prop.
  (* the oracle hypothesis, per stream, at every level (deflateParams keeps the stream) *)
  Hypothesis round_trip : forall lvl cs ds data, data <> [] -> sync cs ds ->
    exists ds', decompress ds (fst (compress lvl cs data)) = Some (data, ds') /\ sync (snd (compress lvl cs data)) ds'.

  Lemma tight_wire_roundtrip p w h cs ds pl g wire cs' :
    sync4 cstate dstate sync cs ds -> tw_good (tp_fmt p) w h pl -> dec_tight (tp_fmt p) w h pl = Some g ->
    tight_wire cstate compress p w h cs pl = Some (wire, cs') ->
    exists ds', dec_tight_wire dstate decompress dinit (tp_fmt p) w h ds wire = Some (g, ds') /\
                sync4 cstate dstate sync cs' ds' /\ (exists c t, wire = c :: t).
  Proof.
    intros S (ctl & tl & EP & RB & CASES) DEC E. subst pl. unfold tight_wire in E.
    destruct CASES as [FILL|(LT & t' & data & n & EQ & SH & LD)].
    - replace (8 <=? ctl / 16) with true in E by (symmetry; apply Z.leb_le; lia).
      inversion E; subst wire cs'. exists ds. split; [|split; [exact S|eauto]].
      unfold dec_tight_wire. rewrite RB, apply_resets_none.
      replace (8 <=? ctl / 16) with true by (symmetry; apply Z.leb_le; lia). rewrite DEC. reflexivity.
    - replace (8 <=? ctl / 16) with false in E by (symmetry; apply Z.leb_gt; lia).
      cbn [app] in EQ. assert (ET : tl = t' ++ data) by congruence. subst tl. clear EQ.
      change (ctl :: t' ++ data) with ((ctl :: t') ++ data) in E.
      rewrite (tw_header_shape _ _ _ _ _ data SH) in E. rewrite tight_min in E.
      destruct (Z.of_nat (length data) <? 12) eqn:SMALL.
      + assert (EW : wire = (ctl :: t') ++ data) by congruence. assert (EC : cs' = cs) by congruence. subst wire cs'. clear E.
        exists ds. split; [|split; [exact S|cbn [app]; eauto]].
        unfold dec_tight_wire. cbn [app]. rewrite RB, apply_resets_none.
        replace (8 <=? ctl / 16) with false by (symmetry; apply Z.leb_gt; lia).
        change (ctl :: t' ++ data) with ((ctl :: t') ++ data).
        rewrite (tw_header_shape _ _ _ _ _ data SH). rewrite <- LD, SMALL.
        change ((ctl :: t') ++ data) with (ctl :: t' ++ data). rewrite DEC. reflexivity.
      + remember ((ctl / 16) mod 4) as sid eqn:ES.
        remember (compress (stream_level p sid) (get4 cs sid) data) as cr eqn:ECR.
        destruct (Z.of_nat (length (fst cr)) <? 4194304) eqn:FIT; [|discriminate]. apply Z.ltb_lt in FIT.
        assert (EW : wire = (ctl :: t') ++ compact_len (Z.of_nat (length (fst cr))) ++ fst cr) by congruence.
        assert (EC : cs' = set4 cs sid (snd cr)) by congruence. subst wire cs'. clear E.
        assert (NE : data <> []) by (intros Q; rewrite Q in SMALL; simpl in SMALL; discriminate).
        destruct (round_trip (stream_level p sid) (get4 cs sid) (get4 ds sid) data NE (sync4_get _ _ sync cs ds sid S)) as (d' & D & S').
        rewrite <- ECR in D, S'.
        exists (set4 ds sid d'). split; [|split; [apply sync4_set; assumption|cbn [app]; eauto]].
        unfold dec_tight_wire. cbn [app]. rewrite RB, apply_resets_none.
        replace (8 <=? ctl / 16) with false by (symmetry; apply Z.leb_gt; lia).
        change (ctl :: t' ++ compact_len (Z.of_nat (length (fst cr))) ++ fst cr)
          with ((ctl :: t') ++ compact_len (Z.of_nat (length (fst cr))) ++ fst cr).
        rewrite (tw_header_shape _ _ _ _ _ _ SH). rewrite <- LD, SMALL.
        rewrite compact_len_roundtrip by lia. rewrite Z.eqb_refl. cbn [negb]. rewrite <- ES. rewrite D.
        rewrite Nat.eqb_refl. cbn [negb]. change ((ctl :: t') ++ data) with (ctl :: t' ++ data). rewrite DEC. reflexivity.
  Qed.

  Definition crop_of (scr : list (list Z)) (r : wrect) := crop scr (w_x r) (w_y r) (w_w r) (w_h r).

  (* what a rectangle of a Tight update must be for the wire layer *)
  Definition trect_good (p : tight_params) (scr : list (list Z)) (r : wrect) : Prop :=
    tw_good (tp_fmt p) (w_w r) (w_h r) (w_payload r) /\
    dec_tight (tp_fmt p) (w_w r) (w_h r) (w_payload r) = Some (crop_of scr r).

  Lemma tight_wire_rects_roundtrip p scr : forall rects cs ds wire cs',
    Forall (trect_good p scr) rects -> sync4 cstate dstate sync cs ds ->
    tight_wire_rects cstate compress p cs rects = Some (wire, cs') ->
    exists ds', tight_unwire_rects dstate decompress dinit (tp_fmt p) ds wire = Some (map (crop_of scr) rects, ds') /\
                sync4 cstate dstate sync cs' ds' /\ map geom wire = map geom rects.
  Proof.
    induction rects as [|r t IH]; intros cs ds wire cs' F S E; cbn [tight_wire_rects] in E.
    - inversion E; subst. exists ds. auto.
    - apply Forall_cons_iff in F. destruct F as [(G & D) Ft].
      destruct (tight_wire cstate compress p (w_w r) (w_h r) cs (w_payload r)) as [[pl cs1]|] eqn:TW; [|discriminate].
      destruct (tight_wire_rects cstate compress p cs1 t) as [[t' cs2]|] eqn:TR; [|discriminate].
      inversion E; subst wire cs'. clear E.
      destruct (tight_wire_roundtrip p _ _ cs ds _ _ pl cs1 S G D TW) as (ds1 & DW & S1 & _).
      destruct (IH cs1 ds1 t' cs2 Ft S1 TR) as (ds2 & UW & S2 & GE).
      exists ds2. split; [|split; [exact S2|cbn [map]; rewrite GE; reflexivity]].
      cbn [tight_unwire_rects w_w w_h w_payload]. rewrite DW, UW. reflexivity.
  Qed.
End WireProofs.

(* ------------------------------------------------------------------ the encoder's payloads are carried *)
Lemma tpixel_bytes_length p x : length (tpixel_bytes p x) = tsize (tp_fmt p).
Proof.
  unfold tpixel_bytes, tsize, tp_fmt. cbn [tf_tp3 tf_bypp]. destruct (tp_pack24 p); [|apply le_bytes_length].
  destruct (tp_swap p); reflexivity.
Qed.

Lemma mono_rows_length bg fg w : forall g, Forall (fun r => length r = w) g ->
  Forall (fun d => d = bg \/ d = fg) (concat g) -> bg <> fg ->
  length (flat_map (mono_row bg) g) = (Z.to_nat ((Z.of_nat w * 1 + 7) / 8) * length g)%nat.
Proof.
  induction g as [|r t IH]; intros F A N; [simpl; lia|].
  apply Forall_cons_iff in F. destruct F as [Lr Ft]. cbn [concat] in A. apply Forall_app in A. destruct A as [Ar At].
  cbn [flat_map length]. rewrite app_length, (IH Ft At N).
  destruct (mono_row_roundtrip bg fg r [] Ar (or_introl N)) as [T _].
  apply take_some in T. destruct T as [_ L]. rewrite Lr in L. rewrite L. lia.
Qed.

Lemma tight_subrect_tw_good p w h g pl : (1 <= w)%nat -> (1 <= h)%nat -> wf_grid w h g ->
  tight_subrect p w h g = Some (TPayload pl) -> tw_good (tp_fmt p) w h pl.
Proof.
  intros Hw Hh WF. unfold tight_subrect.
  destruct (conf_field (tp_conf p) 0) as [monoMin|]; [|discriminate].
  destruct (conf_field (tp_conf p) 1) as [idxZ|]; [|discriminate].
  destruct (conf_field (tp_conf p) 2) as [monoZ|]; [|discriminate].
  destruct (conf_field (tp_conf p) 3) as [rawZ|]; [|discriminate].
  destruct (conf_field (tp_conf p) 4) as [divisor|]; [|discriminate].
  destruct (conf_field (tp_conf p) 5) as [palMax|]; [|discriminate]. cbv beta iota zeta.
  assert (LD : length (concat g) = (w * h)%nat) by (apply concat_length_wf; assumption).
  match goal with |- context [fill_palette ?a ?b ?c] => destruct (fill_palette a b c) as [k|] eqn:FP; [|discriminate] end.
  pose proof (fill_palette_facts _ _ _ _ FP) as FACTS.
  destruct k as [|bg fg|pal|].
  - destruct (concat g) as [|d t]; [discriminate|]. intros E. assert (Q : pl = 128 :: tpixel_bytes p d) by congruence. subst pl.
    exists 128, (tpixel_bytes p d). split; [reflexivity|]. split; [reflexivity|]. left. vm_compute. discriminate.
  - intros E. inversion FACTS as [|bg0 fg0 ALL INB INF NEQ| |]; subst.
    destruct (monoZ =? 0).
    + match type of E with Some (TPayload (?c :: ?t)) = _ => assert (Q : pl = c :: t) by congruence; subst pl; exists c, t end.
      split; [reflexivity|]. split; [reflexivity|]. left. vm_compute. discriminate.
    + assert (Q : pl = 80 :: 1 :: 1 :: tpixel_bytes p bg ++ tpixel_bytes p fg ++ flat_map (mono_row bg) g) by congruence. subst pl.
      eexists 80, _. split; [reflexivity|]. split; [reflexivity|]. right. split; [vm_compute; reflexivity|].
      exists (1 :: 1 :: tpixel_bytes p bg ++ tpixel_bytes p fg), (flat_map (mono_row bg) g).
      exists (if 1 + 1 <=? 2 then (Z.to_nat ((Z.of_nat w * 1 + 7) / 8) * h)%nat else (w * h)%nat).
      split; [cbn [app]; rewrite <- app_assoc; reflexivity|]. split.
      * apply Sh_pal; [reflexivity|]. rewrite app_length, !tpixel_bytes_length. change (Z.to_nat (1 + 1)) with 2%nat. lia.
      * change (1 + 1 <=? 2) with true. cbv iota. destruct WF as [LG FW]. rewrite <- LG.
        apply (mono_rows_length bg fg w); assumption.
  - destruct (opt_all (map (pal_index pal) (concat g))) as [idxs|] eqn:OA; [|discriminate].
    intros E. inversion FACTS as [| |pal0 LEN SUB|]; subst.
    destruct (idxZ =? 0).
    + match type of E with Some (TPayload (?c :: ?t)) = _ => assert (Q : pl = c :: t) by congruence; subst pl; exists c, t end.
      split; [reflexivity|]. split; [reflexivity|]. left. vm_compute. discriminate.
    + assert (Q : pl = 96 :: 1 :: (Z.of_nat (length pal) - 1) :: flat_map (tpixel_bytes p) pal ++ idxs) by congruence. subst pl.
      eexists 96, _. split; [reflexivity|]. split; [reflexivity|]. right. split; [vm_compute; reflexivity|].
      exists (1 :: (Z.of_nat (length pal) - 1) :: flat_map (tpixel_bytes p) pal), idxs.
      exists (if Z.of_nat (length pal) - 1 + 1 <=? 2 then (Z.to_nat ((Z.of_nat w * 1 + 7) / 8) * h)%nat else (w * h)%nat).
      split; [reflexivity|]. split.
      * apply Sh_pal; [reflexivity|].
        rewrite (flat_map_const_length (tpixel_bytes p) (tsize (tp_fmt p))) by (intros; apply tpixel_bytes_length).
        replace (Z.to_nat (Z.of_nat (length pal) - 1 + 1)) with (length pal) by lia. lia.
      * replace (Z.of_nat (length pal) - 1 + 1 <=? 2) with false by (symmetry; apply Z.leb_gt; lia).
        apply opt_all_pal_index in OA. destruct OA as [LI _]. rewrite LI. exact LD.
  - destruct (tp_jpeg p && negb (tp_s8 p)); [discriminate|]. intros E.
    destruct (rawZ =? 0).
    + match type of E with Some (TPayload (?c :: ?t)) = _ => assert (Q : pl = c :: t) by congruence; subst pl; exists c, t end.
      split; [reflexivity|]. split; [reflexivity|]. left. vm_compute. discriminate.
    + assert (Q : pl = 0 :: flat_map (tpixel_bytes p) (concat g)) by congruence. subst pl.
      eexists 0, _. split; [reflexivity|]. split; [reflexivity|]. right. split; [vm_compute; reflexivity|].
      exists [], (flat_map (tpixel_bytes p) (concat g)), (w * h * tsize (tp_fmt p))%nat.
      split; [reflexivity|]. split; [apply Sh_plain; reflexivity|].
      rewrite (flat_map_const_length (tpixel_bytes p) (tsize (tp_fmt p))) by (intros; apply tpixel_bytes_length). rewrite LD. lia.
Qed.

(* ------------------------------------------------------------------ every rectangle of an update *)
Definition rect_tw_good (p : tight_params) (r : wrect) : Prop := tw_good (tp_fmt p) (w_w r) (w_h r) (w_payload r).

Lemma send_tight_tw_good W H scr p x y w h rects :
  wf_grid W H scr -> (x + w <= W)%nat -> (y + h <= H)%nat -> (1 <= w)%nat -> (1 <= h)%nat ->
  send_tight p x y w h scr = Ok rects -> Forall (rect_tw_good p) rects.
Proof.
  intros WF HX HY HW HH. unfold send_tight.
  destruct tight_consts as (_ & KS & KW & KE). rewrite KS, KW, KE.
  apply res_concat_all. intros [[[a b] c] d] rs IN E.
  assert (INS : (a + c <= w /\ b + d <= h /\ 1 <= c /\ 1 <= d)%nat).
  { destruct ((Z.to_nat 2048 <? w)%nat || (65536 <? Z.of_nat (w * h))).
    - apply tiles_inside in IN. destruct IN as (I1 & I2 & _ & _ & I5 & I6).
      assert (0 < Z.to_nat 65536 / (if (Z.to_nat 2048 <? w)%nat then Z.to_nat 2048 else w))%nat.
      { destruct (Z.to_nat 2048 <? w)%nat eqn:W2; [apply Nat.ltb_lt in W2|apply Nat.ltb_ge in W2]; apply Nat.div_str_pos; lia. }
      lia.
    - destruct IN as [Q|[]]. inversion Q; subst. lia. }
  destruct (tight_subrect p c d (crop scr (x + a) (y + b) c d)) as [[pl|]|] eqn:TS; try discriminate; inv_ok E;
    (constructor; [|constructor]); unfold rect_tw_good; cbn [w_w w_h w_payload].
  - eapply tight_subrect_tw_good; [| | |exact TS]; try lia. apply (wf_crop W H); auto; lia.
  - exists 144, []. split; [reflexivity|]. split; [reflexivity|]. left. vm_compute. discriminate.
Qed.

Lemma tight_update_tw_good W H scr sfb p lastrect x y w h rects :
  wf_grid W H scr -> (x + w <= W)%nat -> (y + h <= H)%nat -> (1 <= w)%nat -> (1 <= h)%nat ->
  tight_update p lastrect x y w h scr sfb = Ok rects -> Forall (rect_tw_good p) rects.
Proof.
  intros WF HX HY HW HH. unfold tight_update. destruct lastrect; [|apply (send_tight_tw_good W H); assumption].
  destruct (tight_split (S (w * h)) sfb x y w h) as [pieces|] eqn:TS; [|discriminate].
  pose proof (tight_split_cover sfb _ x y w h pieces HW HH TS) as (INS & _ & _).
  unfold send_tight_pieces. apply res_concat_all. intros pc rs IN E.
  assert (G : In (tpiece_geom pc) (geoms pieces)) by (apply in_map; exact IN).
  destruct pc as [a b c d|a b c d]; cbn [tpiece_geom] in G; specialize (INS a b c d G).
  - apply (send_tight_tw_good W H scr p a b c d rs WF); try lia. exact E.
  - destruct (gget scr a b) as [v|]; [|discriminate]. inv_ok E. constructor; [|constructor].
    unfold rect_tw_good. cbn [w_w w_h w_payload]. exists 128, (tpixel_bytes p v).
    split; [reflexivity|]. split; [reflexivity|]. left. vm_compute. discriminate.
Qed.

Lemma piece_sent_all p scr : forall pieces groups, Forall2 (piece_sent p scr) pieces groups ->
  Forall (tight_rect_ok p scr) (concat groups).
Proof.
  induction 1 as [|pc rs pcs gs PS _ IH]; [constructor|]. cbn [concat]. apply Forall_app. split; [exact (proj1 PS)|exact IH].
Qed.

Lemma tight_update_rect_ok W H sfb (tr : Z -> Z) p lastrect x y w h rects :
  let scr := map (map tr) sfb in
  wf_grid W H sfb -> Forall (Forall (tpix_rt p)) scr -> conf_ok (tp_conf p) ->
  (x + w <= W)%nat -> (y + h <= H)%nat -> (1 <= w)%nat -> (1 <= h)%nat ->
  tight_update p lastrect x y w h scr sfb = Ok rects -> Forall (tight_rect_ok p scr) rects.
Proof.
  intros scr WF RT CONF HX HY HW HH E. pose proof (wf_map tr W H sfb WF) as WFS. fold scr in WFS.
  unfold tight_update in E. destruct lastrect.
  - destruct (tight_split (S (w * h)) sfb x y w h) as [pieces|] eqn:TS; [|discriminate].
    pose proof (tight_split_cover sfb _ x y w h pieces HW HH TS) as (INS & _ & _).
    destruct (send_tight_pieces_ok W H scr p WFS RT CONF pieces rects) as (groups & F & EQ); auto.
    + intros a b c d HI. specialize (INS a b c d HI). lia.
    + eapply solids_uniform_translated; eauto.
    + subst rects. eapply piece_sent_all; eauto.
  - destruct (send_tight_ok W H scr p x y w h rects WFS RT CONF HX HY HW HH E) as (OK & _). exact OK.
Qed.

(* ------------------------------------------------------------------ a connection of Tight updates *)
Inductive tstep := TUpd (p : tight_params) (lastrect : bool) (x y w h : nat) (scr sfb : list (list Z)).

Definition tstep_ok (s : tstep) : Prop :=
  match s with
  | TUpd p lastrect x y w h scr sfb =>
    exists W H (tr : Z -> Z), wf_grid W H sfb /\ scr = map (map tr) sfb /\ Forall (Forall (tpix_rt p)) scr /\
      conf_ok (tp_conf p) /\ tp_jpeg p = false /\ (x + w <= W)%nat /\ (y + h <= H)%nat /\ (1 <= w)%nat /\ (1 <= h)%nat
  end.

Section TSession.
  Variables cstate dstate : Type.
  Variable compress : Z -> cstate -> list Z -> list Z * cstate.
  Variable decompress : dstate -> list Z -> option (list Z * dstate).
  Variable dinit : dstate.
  Variable sync : cstate -> dstate -> Prop.
  Hypothesis round_trip : forall lvl cs ds data, data <> [] -> sync cs ds ->
    exists ds', decompress ds (fst (compress lvl cs data)) = Some (data, ds') /\ sync (snd (compress lvl cs data)) ds'.

  (* server: per update the wire rectangles; None = the server gives up (compressed data beyond 22 bits) *)
  Fixpoint run_tight_session (cs : st4 cstate) (steps : list tstep) : option (list (list wrect)) :=
    match steps with
    | [] => Some []
    | TUpd p lastrect x y w h scr sfb :: t =>
      match tight_update p lastrect x y w h scr sfb with
      | Ok rects =>
        do (wire, cs') <- tight_wire_rects cstate compress p cs rects;
        do rest <- run_tight_session cs' t;
        Some (wire :: rest)
      | _ => None
      end
    end.

  (* client, by the specification; it knows its own pixel format and levels (it announced them) *)
  Fixpoint client_tight_session (ds : st4 dstate) (steps : list tstep) (wire : list (list wrect)) : option (list (list grid)) :=
    match steps with
    | [] => match wire with [] => Some [] | _ => None end
    | TUpd p _ _ _ _ _ _ _ :: t =>
      match wire with
      | [] => None
      | rs :: wt =>
        do (gs, ds') <- tight_unwire_rects dstate decompress dinit (tp_fmt p) ds rs;
        do rest <- client_tight_session ds' t wt;
        Some (gs :: rest)
      end
    end.

  (* every update: the client's pictures are the crops of the screen at the rectangles the server sent,
     which have the geometry of the rectangles of SendRectEncodingTight (partition: C01_tight_session) *)
  Fixpoint tsession_pixels (steps : list tstep) (wire : list (list wrect)) (grids : list (list grid)) : Prop :=
    match steps, wire, grids with
    | [], [], [] => True
    | TUpd p lastrect x y w h scr sfb :: t, rs :: wt, gs :: gt =>
      gs = map (crop_of scr) rs /\
      (exists rects, tight_update p lastrect x y w h scr sfb = Ok rects /\ map geom rs = map geom rects) /\
      tsession_pixels t wt gt
    | _, _, _ => False
    end.

  Lemma map_crop_geom' scr : forall a b, map geom a = map geom b -> map (crop_of scr) a = map (crop_of scr) b.
  Proof.
    induction a as [|r a IH]; intros [|r' b] H; simpl in H; try discriminate; [reflexivity|].
    unfold geom at 1 3 in H. injection H as H1 H2 H3 H4 H5. cbn [map]. rewrite (IH b H5). f_equal. unfold crop_of. congruence.
  Qed.

  Theorem tight_session_roundtrip : forall steps cs ds wire,
    Forall tstep_ok steps -> sync4 cstate dstate sync cs ds ->
    run_tight_session cs steps = Some wire ->
    exists grids, client_tight_session ds steps wire = Some grids /\ tsession_pixels steps wire grids.
  Proof.
    induction steps as [|st t IH]; intros cs ds wire OK S E.
    - simpl in E. inversion E; subst. exists []. simpl. auto.
    - destruct st as [p lastrect x y w h scr sfb]. apply Forall_cons_iff in OK. destruct OK as [OK1 OKT].
      destruct OK1 as (W & H & tr & WF & ES & RT & CONF & NJ & HX & HY & HW & HH).
      cbn [run_tight_session] in E.
      destruct (tight_update p lastrect x y w h scr sfb) as [rects| |] eqn:TU; try discriminate.
      destruct (tight_wire_rects cstate compress p cs rects) as [[wr cs']|] eqn:WR; [|discriminate].
      destruct (run_tight_session cs' t) as [rest|] eqn:RS; [|discriminate].
      inversion E; subst wire. clear E.
      assert (WFS : wf_grid W H scr) by (subst scr; apply wf_map; exact WF).
      pose proof (tight_update_tw_good W H scr sfb p lastrect x y w h rects WFS HX HY HW HH TU) as G1.
      assert (G2 : Forall (tight_rect_ok p scr) rects).
      { subst scr. eapply tight_update_rect_ok; eauto. }
      assert (GOOD : Forall (trect_good p scr) rects).
      { rewrite Forall_forall in *. intros r IR. split; [apply G1; exact IR|].
        destruct (G2 r IR) as (_ & [[_ J]|D]); [congruence|exact D]. }
      destruct (tight_wire_rects_roundtrip cstate dstate compress decompress dinit sync round_trip p scr rects cs ds wr cs' GOOD S WR)
        as (ds' & UW & S' & GE).
      destruct (IH cs' ds' rest OKT S' RS) as (gt & CT & PT).
      exists (map (crop_of scr) rects :: gt). split.
      + cbn [client_tight_session]. rewrite UW, CT. reflexivity.
      + cbn [tsession_pixels]. split; [apply map_crop_geom'; symmetry; exact GE|]. split; [eauto|exact PT].
  Qed.
End TSession.
