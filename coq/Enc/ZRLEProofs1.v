(* C01 - ZRLE, building blocks: maximal runs, run-length bytes, CPIXEL forms, the palette. *)
From Coq Require Import ZArith List Lia Bool Arith Znumtheory.
From LV Require Import Enc.EncBase Enc.EncBaseProofs Enc.ZRLE Dec.SpecBase Dec.SpecZRLE Gen.Consts_C01.
Import ListNotations.
Local Open Scope Z_scope.

Lemma zrle_consts : c_zrlePaletteMax = 127 /\ c_zrleTileW = 64 /\ c_zrleTileH = 64 /\
  c_bitsPerPackedPixel = [0; 1; 2; 2; 4; 4; 4; 4; 4; 4; 4; 4; 4; 4; 4; 4].
Proof. repeat split; reflexivity. Qed.

(* ------------------------------------------------------------------ maximal runs *)
Definition expand (rs : list (Z * Z)) : list Z :=
  flat_map (fun r => repeat (fst r) (Z.to_nat (snd r))) rs.

Lemma group_runs_spec data :
  Forall (fun r => 1 <= snd r) (group_runs data) /\ expand (group_runs data) = data.
Proof.
  induction data as [|p t [IHp IHe]]; [split; [constructor|reflexivity]|].
  cbn [group_runs]. destruct (group_runs t) as [|[q n] rest] eqn:G.
  - simpl in IHe. subst t. split; [constructor; [simpl; lia|constructor]|reflexivity].
  - apply Forall_cons_iff in IHp. destruct IHp as [Hn Hrest]. cbn [snd] in Hn.
    destruct (p =? q) eqn:E.
    + apply Z.eqb_eq in E. subst q. split; [constructor; [simpl; lia|assumption]|].
      unfold expand in *. cbn [flat_map fst snd] in *.
      replace (Z.to_nat (n + 1)) with (S (Z.to_nat n)) by lia. cbn [repeat app]. rewrite IHe. reflexivity.
    + split; [constructor; [simpl; lia|constructor; assumption]|].
      unfold expand in *. cbn [flat_map fst snd] in *. change (Z.to_nat 1) with 1%nat.
      cbn [repeat app]. rewrite IHe. reflexivity.
Qed.

Lemma group_runs_colours data p : In p (map fst (group_runs data)) -> In p data.
Proof.
  intros H. destruct (group_runs_spec data) as [POS EXP]. rewrite <- EXP.
  apply in_map_iff in H. destruct H as ([q n] & <- & IN). unfold expand. apply in_flat_map.
  exists (q, n). split; [assumption|]. cbn [fst snd]. rewrite Forall_forall in POS. specialize (POS _ IN).
  cbn [snd] in POS. destruct (Z.to_nat n) eqn:E; [lia|]. left. reflexivity.
Qed.

(* ------------------------------------------------------------------ run length bytes *)
Lemma take_runlen_app : forall f l acc rest,
  0 <= l -> l < 255 * (Z.of_nat f + 1) ->
  take_runlen (run_len_bytes f l ++ rest) acc = Some (acc + l + 1, rest).
Proof.
  induction f as [|f IH]; intros l acc rest H0 H1.
  - cbn [run_len_bytes app take_runlen]. replace (l =? 255) with false by (symmetry; apply Z.eqb_neq; lia).
    reflexivity.
  - cbn [run_len_bytes]. destruct (255 <=? l) eqn:E.
    + apply Z.leb_le in E. cbn [app take_runlen]. rewrite Z.eqb_refl. rewrite IH by lia. f_equal. f_equal. lia.
    + apply Z.leb_gt in E. cbn [app take_runlen]. replace (l =? 255) with false by (symmetry; apply Z.eqb_neq; lia).
      reflexivity.
Qed.

Lemma run_len_bytes_ok len rest acc : 1 <= len ->
  take_runlen (run_len_bytes (Z.to_nat (len / 255)) (len - 1) ++ rest) acc = Some (acc + len, rest).
Proof.
  intros H. rewrite take_runlen_app; [f_equal; f_equal; lia|lia|].
  rewrite Z2Nat.id by (apply Z.div_pos; lia).
  pose proof (Z.mod_pos_bound len 255 ltac:(lia)). pose proof (Z.div_mod len 255 ltac:(lia)). lia.
Qed.

(* ------------------------------------------------------------------ CPIXEL *)
Definition cpix_ok (bypp cmode : nat) (p : Z) : Prop :=
  match cmode with
  | 1%nat => 0 <= p < 16777216
  | 2%nat => 0 <= p < 4294967296 /\ p mod 256 = 0
  | _ => pix_ok bypp p
  end.

Lemma take_cpixel_app bypp cmode p rest : cpix_ok bypp cmode p ->
  take_cpixel bypp cmode (cpixel_bytes bypp cmode p ++ rest) = Some (p, rest).
Proof.
  intros H. destruct cmode as [|[|[|c]]]; cbn [take_cpixel cpixel_bytes cpix_ok] in *.
  - unfold take_pixel. pose proof (take_app (le_bytes bypp p) rest) as T. rewrite le_bytes_length in T.
    rewrite T, le_val_le_bytes by assumption. reflexivity.
  - cbn [le_bytes firstn app take]. f_equal. f_equal. cbn [le_val].
    pose proof (Z.div_mod p 256 ltac:(lia)). pose proof (Z.div_mod (p / 256) 256 ltac:(lia)).
    assert (0 <= p / 256 / 256 < 256).
    { split; [apply Z.div_pos; [apply Z.div_pos|]; lia|].
      apply Z.div_lt_upper_bound; [lia|]. apply Z.div_lt_upper_bound; lia. }
    rewrite (Z.mod_small (p / 256 / 256)) by lia.
    pose proof (Z.div_mod (p / 256) 256 ltac:(lia)). lia.
  - cbn [le_bytes skipn app take]. f_equal. f_equal. cbn [le_val]. destruct H as [H1 H2].
    pose proof (Z.div_mod p 256 ltac:(lia)). pose proof (Z.div_mod (p / 256) 256 ltac:(lia)).
    pose proof (Z.div_mod (p / 256 / 256) 256 ltac:(lia)).
    assert (0 <= p / 256 / 256 / 256 < 256).
    { split; [apply Z.div_pos; [apply Z.div_pos; [apply Z.div_pos|]|]; lia|].
      apply Z.div_lt_upper_bound; [lia|]. apply Z.div_lt_upper_bound; [lia|]. apply Z.div_lt_upper_bound; lia. }
    rewrite (Z.mod_small (p / 256 / 256 / 256)) by lia. lia.
  - unfold take_pixel. pose proof (take_app (le_bytes bypp p) rest) as T. rewrite le_bytes_length in T.
    rewrite T, le_val_le_bytes by assumption. reflexivity.
Qed.

Lemma take_cpixels_app bypp cmode ps rest : Forall (cpix_ok bypp cmode) ps ->
  take_cpixels bypp cmode (length ps) (flat_map (cpixel_bytes bypp cmode) ps ++ rest) = Some (ps, rest).
Proof.
  induction 1 as [|p ps Hp _ IH]; [reflexivity|].
  cbn [length flat_map take_cpixels]. rewrite <- app_assoc, take_cpixel_app by assumption. rewrite IH. reflexivity.
Qed.

(* ------------------------------------------------------------------ palette *)
Lemma pal_index_spec pal p : forall i, pal_index pal p = Some i ->
  0 <= i < Z.of_nat (length pal) /\ nth_zs pal i = Some p.
Proof.
  induction pal as [|q t IH]; intros i H; [discriminate|]. cbn [pal_index] in H.
  destruct (p =? q) eqn:E.
  - apply Z.eqb_eq in E. inversion H; subst. cbn [length]. split; [lia|]. reflexivity.
  - destruct (pal_index t p) as [j|]; [|discriminate]. inversion H; subst.
    destruct (IH j eq_refl) as [B N]. cbn [length]. split; [lia|].
    unfold nth_zs in *. destruct (j <? 0) eqn:J; [apply Z.ltb_lt in J; lia|].
    replace (j + 1 <? 0) with false by (symmetry; apply Z.ltb_ge; lia).
    replace (Z.to_nat (j + 1)) with (S (Z.to_nat j)) by lia. exact N.
Qed.

Lemma pal_index_in pal p : In p pal -> exists i, pal_index pal p = Some i.
Proof.
  induction pal as [|q t IH]; intros H; [destruct H|]. cbn [pal_index].
  destruct (p =? q) eqn:E; [eauto|]. apply Z.eqb_neq in E. destruct H as [H|H]; [congruence|].
  destruct (IH H) as [i ->]. eauto.
Qed.

Lemma pal_index_none pal p : pal_index pal p = None -> ~ In p pal.
Proof.
  intros H IN. destruct (pal_index_in pal p IN) as [i E]. congruence.
Qed.

Lemma ph_fold_spec : forall cols pal size pal' size',
  fold_left ph_insert cols (pal, size) = (pal', size') ->
  (size <= 127 -> size = Z.of_nat (length pal)) ->
  size <= size' /\ (size' <= 127 -> size' = Z.of_nat (length pal')) /\
  (forall c, In c pal -> In c pal') /\
  (size' < 128 -> forall c, In c cols -> In c pal').
Proof.
  destruct zrle_consts as (KP & _).
  induction cols as [|c cols IH]; intros pal size pal' size' E INV.
  - simpl in E. inversion E; subst. split; [lia|]. split; [assumption|]. split; [auto|]. intros _ c [].
  - cbn [fold_left] in E. unfold ph_insert at 2 in E. rewrite KP in E.
    destruct (size <? 127) eqn:LT.
    + apply Z.ltb_lt in LT. destruct (pal_index pal c) as [i|] eqn:PI.
      * apply IH in E; [|assumption]. destruct E as (A & B & C & D).
        split; [lia|]. split; [assumption|]. split; [assumption|].
        intros S x [<-|X]; [|auto].
        apply C. destruct (pal_index_spec pal c i PI) as [_ N]. unfold nth_zs in N.
        destruct (i <? 0); [discriminate|]. eapply nth_error_In; eauto.
      * apply IH in E.
        -- destruct E as (A & B & C & D). split; [lia|]. split; [assumption|]. split.
           ++ intros x X. apply C. apply in_or_app. left; assumption.
           ++ intros S x [<-|X]; [|auto]. apply C. apply in_or_app. right. left. reflexivity.
        -- intros _. rewrite app_length. simpl. rewrite (INV ltac:(lia)). lia.
    + apply Z.ltb_ge in LT. apply IH in E; [|intros; lia].
      destruct E as (A & B & C & D). split; [lia|]. split; [assumption|]. split; [assumption|]. intros S. lia.
Qed.
