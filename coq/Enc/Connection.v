(* C01_session - a whole connection, every encoding: parameter changes (SetEncodings / SetPixelFormat),
   updates sent with the encodings of send_rect (Raw, RRE, CoRRE, Hextile, Zlib, Ultra, ZRLE) and updates
   sent as Tight, in any order.  Six zlib streams persist for the connection: Zlib, ZRLE (Session.v) and the
   four Tight streams (TightWire.v); LZO is stateless.  zlib is one oracle (compress takes the level; a level
   change keeps the stream), with the round-trip hypothesis on non-empty data for paired states. *)
From Coq Require Import ZArith List Lia Bool Arith.
From LV Require Import Enc.EncBase Enc.EncBaseProofs Enc.Update Enc.UpdateProofs Enc.SplitProofs Enc.ZRLEProofs1 Enc.Session Enc.SessionProofs
     Enc.Tight Enc.TightProofs Enc.TightSplit Enc.TightSessionFull Enc.TightWire Enc.TightWireProofs Dec.SpecBase Dec.SpecUpdate Dec.SpecTight Gen.Consts_C01.
Import ListNotations.

Inductive cstep :=
| CNT (s : step)          (* SetParams / an update with an encoding of send_rect *)
| CT (s : tstep).         (* an update sent by SendRectEncodingTight *)

Section Conn.
  Variables cstate dstate : Type.
  Variable compress : Z -> cstate -> list Z -> list Z * cstate.
  Variable decompress : dstate -> list Z -> option (list Z * dstate).
  Variable dinit : dstate.
  Variable lzo : list Z -> list Z.
  Variable unlzo : list Z -> option (list Z).
  Variable zlevel : Z.                                   (* cl->zlibCompressLevel, for the Zlib and ZRLE streams *)

  Fixpoint run_conn (p : enc_params) (cs2 : cstates cstate) (cs4 : st4 cstate) (steps : list cstep) : option (list (list wrect)) :=
    match steps with
    | [] => Some []
    | CNT (SetParams p') :: t => run_conn p' cs2 cs4 t
    | CNT (Update x y w h scr) :: t =>
      match send_rect p x y w h scr with
      | Ok rects =>
        do rest <- run_conn p (snd (wire_rects cstate (compress zlevel) lzo cs2 rects)) cs4 t;
        Some (fst (wire_rects cstate (compress zlevel) lzo cs2 rects) :: rest)
      | _ => None
      end
    | CT (TUpd tp lastrect x y w h scr sfb) :: t =>
      match tight_update tp lastrect x y w h scr sfb with
      | Ok rects =>
        do (wire, cs4') <- tight_wire_rects cstate compress tp cs4 rects;
        do rest <- run_conn p cs2 cs4' t;
        Some (wire :: rest)
      | _ => None
      end
    end.

  Fixpoint client_conn (p : enc_params) (ds2 : dstates dstate) (ds4 : st4 dstate) (steps : list cstep) (wire : list (list wrect))
    : option (list (list grid)) :=
    match steps with
    | [] => match wire with [] => Some [] | _ => None end
    | CNT (SetParams p') :: t => client_conn p' ds2 ds4 t wire
    | CNT (Update _ _ _ _ _) :: t =>
      match wire with
      | [] => None
      | rs :: wt =>
        do (gs, ds2') <- unwire_rects dstate decompress unlzo (p_bypp p) (p_cmode p) ds2 rs;
        do rest <- client_conn p ds2' ds4 t wt;
        Some (gs :: rest)
      end
    | CT (TUpd tp _ _ _ _ _ _ _) :: t =>
      match wire with
      | [] => None
      | rs :: wt =>
        do (gs, ds4') <- tight_unwire_rects dstate decompress dinit (tp_fmt tp) ds4 rs;
        do rest <- client_conn p ds2 ds4' t wt;
        Some (gs :: rest)
      end
    end.
End Conn.

(* side conditions, under the parameters in force *)
Fixpoint conn_ok (p : enc_params) (steps : list cstep) : Prop :=
  match steps with
  | [] => True
  | CNT (SetParams p') :: t => conn_ok p' t
  | CNT (Update x y w h scr) :: t => session_ok p [Update x y w h scr] /\ conn_ok p t
  | CT s :: t => tstep_ok s /\ conn_ok p t
  end.

(* per update, per rectangle: the client has the pixels of the screen at the time of that update *)
Fixpoint conn_pixels (steps : list cstep) (wire : list (list wrect)) (grids : list (list grid)) : Prop :=
  match steps with
  | [] => wire = [] /\ grids = []
  | CNT (SetParams _) :: t => conn_pixels t wire grids
  | CNT (Update x y w h scr) :: t =>
    match wire, grids with
    | rs :: wt, gs :: gt =>
      gs = map (SessionProofs.crop_of scr) rs /\ Forall (fun r => x <= w_x r /\ y <= w_y r) rs /\
      partitions w h (rel_geoms x y rs) /\ conn_pixels t wt gt
    | _, _ => False
    end
  | CT (TUpd tp lastrect x y w h scr sfb) :: t =>
    match wire, grids with
    | rs :: wt, gs :: gt =>
      gs = map (SessionProofs.crop_of scr) rs /\
      (exists rects, tight_update tp lastrect x y w h scr sfb = Ok rects /\ map geom rs = map geom rects) /\
      conn_pixels t wt gt
    | _, _ => False
    end
  end.

Section ConnProofs.
  Variables cstate dstate : Type.
  Variable compress : Z -> cstate -> list Z -> list Z * cstate.
  Variable decompress : dstate -> list Z -> option (list Z * dstate).
  Variable dinit : dstate.
  Variable sync : cstate -> dstate -> Prop.
  Variable lzo : list Z -> list Z.
  Variable unlzo : list Z -> option (list Z).
  Variable zlevel : Z.
  Hypothesis round_trip : forall lvl cs ds data, data <> [] -> sync cs ds ->
    exists ds', decompress ds (fst (compress lvl cs data)) = Some (data, ds') /\ sync (snd (compress lvl cs data)) ds'.
  Hypothesis lzo_round_trip : forall data, data <> [] -> unlzo (lzo data) = Some data.

  Theorem conn_roundtrip : forall steps p cs2 ds2 cs4 ds4 wire,
    conn_ok p steps -> sync3 cstate dstate sync cs2 ds2 -> sync4 cstate dstate sync cs4 ds4 ->
    run_conn cstate compress lzo zlevel p cs2 cs4 steps = Some wire ->
    exists grids, client_conn dstate decompress dinit unlzo p ds2 ds4 steps wire = Some grids /\ conn_pixels steps wire grids.
  Proof.
    induction steps as [|st t IH]; intros p cs2 ds2 cs4 ds4 wire OK S2 S4 E.
    - simpl in E. inversion E; subst. exists []. simpl. auto.
    - destruct st as [[p'|x y w h scr]|[tp lastrect x y w h scr sfb]].
      + cbn [run_conn client_conn conn_pixels conn_ok] in *. eauto.
      + cbn [run_conn] in E. cbn [conn_ok session_ok] in OK.
        destruct OK as (((W & H & WF & HB & PIX & HX & HY & HW & HH & BW & BH & MW & MH & ZR) & _) & OKT).
        destruct (send_rect p x y w h scr) as [rects| |] eqn:SR; try discriminate.
        destruct (send_rect_ok W H scr p x y w h rects WF PIX HX HY HW HH BW BH MW MH ZR SR) as (ROK & INS & PART).
        assert (GEOM : Forall (fun r => 1 <= w_w r /\ 1 <= w_h r) rects).
        { apply Forall_forall. intros r IR. destruct PART as (PI & _ & _).
          assert (IG : In (w_x r - x, w_y r - y, w_w r, w_h r) (rel_geoms x y rects)).
          { unfold rel_geoms. apply in_map_iff. exists r. auto. }
          specialize (PI _ _ _ _ IG). lia. }
        destruct (unwire_wire_rects cstate dstate (compress zlevel) decompress sync lzo unlzo (round_trip zlevel) lzo_round_trip
                    (p_bypp p) (p_cmode p) scr rects cs2 ds2 ROK HB GEOM S2) as (ds2' & UW & S2' & GE).
        destruct (wire_rects cstate (compress zlevel) lzo cs2 rects) as [wr cs2'] eqn:WR. cbn [fst snd] in *.
        destruct (run_conn cstate compress lzo zlevel p cs2' cs4 t) as [rest|] eqn:RS; [|discriminate].
        inversion E; subst wire. clear E.
        destruct (IH p cs2' ds2' cs4 ds4 rest OKT S2' S4 RS) as (gt & CT' & PT).
        exists (map (SessionProofs.crop_of scr) rects :: gt). split.
        * cbn [client_conn]. rewrite UW, CT'. reflexivity.
        * cbn [conn_pixels]. split; [apply map_crop_geom; symmetry; exact GE|].
          split; [apply (forall_geom (fun a b => x <= a /\ y <= b) wr rects GE INS)|].
          split; [rewrite (rel_geoms_geom x y wr rects GE); exact PART|exact PT].
      + cbn [conn_ok] in OK. destruct OK as [OK1 OKT].
        destruct OK1 as (W & H & tr & WF & ES & RT & CONF & NJ & HX & HY & HW & HH).
        cbn [run_conn] in E.
        destruct (tight_update tp lastrect x y w h scr sfb) as [rects| |] eqn:TU; try discriminate.
        destruct (tight_wire_rects cstate compress tp cs4 rects) as [[wr cs4']|] eqn:WR; [|discriminate].
        destruct (run_conn cstate compress lzo zlevel p cs2 cs4' t) as [rest|] eqn:RS; [|discriminate].
        inversion E; subst wire. clear E.
        assert (WFS : wf_grid W H scr) by (subst scr; apply wf_map; exact WF).
        pose proof (tight_update_tw_good W H scr sfb tp lastrect x y w h rects WFS HX HY HW HH TU) as G1.
        assert (G2 : Forall (tight_rect_ok tp scr) rects) by (subst scr; eapply tight_update_rect_ok; eauto).
        assert (GOOD : Forall (trect_good tp scr) rects).
        { rewrite Forall_forall in *. intros r IR. split; [apply G1; exact IR|].
          destruct (G2 r IR) as (_ & [[_ J]|D]); [congruence|exact D]. }
        destruct (tight_wire_rects_roundtrip cstate dstate compress decompress dinit sync round_trip tp scr rects cs4 ds4 wr cs4' GOOD S4 WR)
          as (ds4' & UW & S4' & GE).
        destruct (IH p cs2 ds2 cs4' ds4' rest OKT S2 S4' RS) as (gt & CT' & PT).
        exists (map (SessionProofs.crop_of scr) rects :: gt). split.
        * cbn [client_conn]. rewrite UW, CT'. reflexivity.
        * cbn [conn_pixels]. split; [apply map_crop_geom; symmetry; exact GE|]. split; [eauto|exact PT].
  Qed.
End ConnProofs.
