(* C01_tight_basic - Tight without JPEG: fill, mono (1 bit per pixel), indexed palette and
   full-colour rectangles produced by the mirror of SendSubrect decode, by the RFB-spec decoder,
   to the pixels.  Stated for the compression configuration whose control bytes are the
   specification's (tightConf[1]; configuration 0 emits the rfbTightNoZlib extension, finding F5)
   and for pixels on which the TPIXEL form is faithful (tpix_rt). *)
From Coq Require Import ZArith List Lia Bool Arith Zify.
From LV Require Import Enc.EncBase Enc.EncBaseProofs Enc.ZRLE Enc.Update Enc.Tight
     Enc.RawRREProofs Enc.HextileProofs Enc.SplitProofs Enc.ZRLEProofs1 Enc.ZRLEProofs2 Enc.ZRLEProofs3 Enc.ZRLEProofs4
     Dec.SpecBase Dec.SpecZRLE Dec.SpecTight Gen.Consts_C01.
Import ListNotations.
Local Open Scope Z_scope.
Ltac Zify.zify_post_hook ::= Z.div_mod_to_equations.

Lemma tight_consts :
  c_tightConf = [6; 0; 0; 0; 4; 24; 32; 1; 1; 1; 96; 24; 32; 3; 3; 2; 96; 96; 32; 7; 7; 5; 96; 256] /\
  c_TIGHT_MAX_RECT_SIZE = 65536 /\ c_TIGHT_MAX_RECT_WIDTH = 2048 /\ c_encTight = 7.
Proof. repeat split; reflexivity. Qed.

(* a tightConf row whose zlib levels are not 0, so that the control bytes are the specification's *)
Definition conf_ok (conf : Z) : Prop :=
  exists monoMin idxZ monoZ rawZ divisor palMax,
    conf_field conf 0 = Some monoMin /\ conf_field conf 1 = Some idxZ /\ conf_field conf 2 = Some monoZ /\
    conf_field conf 3 = Some rawZ /\ conf_field conf 4 = Some divisor /\ conf_field conf 5 = Some palMax /\
    idxZ <> 0 /\ monoZ <> 0 /\ rawZ <> 0.

(* finite conjunction over the regenerated table: rows 1, 2, 3 qualify (row 0 is finding F5) *)
Lemma conf_ok_rows : conf_ok 1 /\ conf_ok 2 /\ conf_ok 3.
Proof.
  repeat split; do 6 eexists; (split; [reflexivity|]; split; [reflexivity|]; split; [reflexivity|]; split; [reflexivity|];
    split; [reflexivity|]; split; [reflexivity|]; repeat split; discriminate).
Qed.

(* every clamped level is one of these rows unless the client asked for level 0 without JPEG *)
Lemma tight_conf_index_ok jpeg level : 0 <= level -> (jpeg = true \/ 1 <= level) -> conf_ok (tight_conf_index jpeg level).
Proof.
  intros L H. destruct conf_ok_rows as (C1 & C2 & C3). unfold tight_conf_index. destruct jpeg.
  - destruct (level <? 1) eqn:E1; [exact C1|]. destruct (2 <? level) eqn:E2; [exact C2|].
    apply Z.ltb_ge in E1, E2. assert (level = 1 \/ level = 2) as [-> | ->] by lia; assumption.
  - destruct H as [H|H]; [discriminate|]. destruct (1 <? level) eqn:E1; [exact C1|].
    apply Z.ltb_ge in E1. assert (level = 1) as -> by lia. exact C1.
Qed.

Definition tp_fmt (p : tight_params) : tight_fmt :=
  mkTF (tp_bypp p) (tp_pack24 p) (tp_be p) (tp_rs p) (tp_gs p) (tp_bs p).

(* the TPIXEL form loses nothing on this pixel *)
Definition tpix_rt (p : tight_params) (pix : Z) : Prop :=
  forall rest, take_tpixel (tp_fmt p) (tpixel_bytes p pix ++ rest) = Some (pix, rest).

Lemma tpix_rt_plain p pix : tp_pack24 p = false -> pix_ok (tp_bypp p) pix -> tpix_rt p pix.
Proof.
  intros H P rest. unfold take_tpixel, tpixel_bytes, tp_fmt. cbn [tf_tp3 tf_bypp]. rewrite H.
  apply take_pixel_app. exact P.
Qed.

(* the usual 8-8-8 layouts in 32 bits, either endianness *)
Lemma tpix_rt_888_le p r g b : tp_pack24 p = true -> tp_be p = false ->
  (tp_rs p, tp_gs p, tp_bs p) = (0, 8, 16) \/ (tp_rs p, tp_gs p, tp_bs p) = (16, 8, 0) ->
  0 <= r < 256 -> 0 <= g < 256 -> 0 <= b < 256 ->
  tpix_rt p (r * 2 ^ tp_rs p + g * 2 ^ tp_gs p + b * 2 ^ tp_bs p).
Proof.
  intros HP HB HS Hr Hg Hb rest. unfold take_tpixel, tpixel_bytes, tp_fmt, grid_pixel_of_value.
  cbn [tf_tp3 tf_be tf_rs tf_gs tf_bs]. rewrite HP, HB. destruct (tp_swap p);
  destruct HS as [HS|HS]; inversion HS as [[E1 E2 E3]]; rewrite E1, E2, E3; cbn [app];
    rewrite !Z.shiftr_div_pow2 by lia; change (2 ^ 0) with 1; change (2 ^ 8) with 256; change (2 ^ 16) with 65536;
    f_equal; f_equal; lia.
Qed.

(* one component of a pixel made of three byte-aligned 8-bit components *)
Lemma extract_byte a b c s t u : 0 <= a < 256 -> 0 <= b < 256 -> 0 <= c < 256 ->
  (s = 0 \/ s = 8 \/ s = 16 \/ s = 24) -> (t = 0 \/ t = 8 \/ t = 16 \/ t = 24) -> (u = 0 \/ u = 8 \/ u = 16 \/ u = 24) ->
  s <> t -> s <> u -> t <> u ->
  Z.shiftr (a * 2 ^ s + b * 2 ^ t + c * 2 ^ u) s mod 256 = a.
Proof.
  intros Ha Hb Hc Hs Ht Hu N1 N2 N3. rewrite Z.shiftr_div_pow2 by lia.
  destruct Hs as [->|[->|[->| ->]]]; destruct Ht as [->|[->|[->| ->]]]; try congruence;
    destruct Hu as [->|[->|[->| ->]]]; try congruence;
    change (2 ^ 0) with 1; change (2 ^ 8) with 256; change (2 ^ 16) with 65536; change (2 ^ 24) with 16777216; lia.
Qed.

Lemma three_bytes_bound a b c s t u : 0 <= a < 256 -> 0 <= b < 256 -> 0 <= c < 256 ->
  (s = 0 \/ s = 8 \/ s = 16 \/ s = 24) -> (t = 0 \/ t = 8 \/ t = 16 \/ t = 24) -> (u = 0 \/ u = 8 \/ u = 16 \/ u = 24) ->
  s <> t -> s <> u -> t <> u -> 0 <= a * 2 ^ s + b * 2 ^ t + c * 2 ^ u < 4294967296.
Proof.
  intros Ha Hb Hc Hs Ht Hu N1 N2 N3.
  destruct Hs as [->|[->|[->| ->]]]; destruct Ht as [->|[->|[->| ->]]]; try congruence;
    destruct Hu as [->|[->|[->| ->]]]; try congruence;
    change (2 ^ 0) with 1; change (2 ^ 8) with 256; change (2 ^ 16) with 65536; change (2 ^ 24) with 16777216; lia.
Qed.

Lemma bswap_byte v s : 0 <= v < 4294967296 -> (s = 0 \/ s = 8 \/ s = 16 \/ s = 24) ->
  Z.shiftr (le_val (rev (le_bytes 4 v))) (24 - s) mod 256 = Z.shiftr v s mod 256.
Proof.
  intros Hv Hs. rewrite !Z.shiftr_div_pow2 by lia. cbn [le_bytes rev app le_val].
  destruct Hs as [->|[->|[->| ->]]];
    change (24 - 0) with 24; change (24 - 8) with 16; change (24 - 16) with 8; change (24 - 24) with 0;
    change (2 ^ 0) with 1; change (2 ^ 8) with 256; change (2 ^ 16) with 65536; change (2 ^ 24) with 16777216; lia.
Qed.

Lemma bswap_involutive v : 0 <= v < 4294967296 -> le_val (rev (le_bytes 4 (le_val (rev (le_bytes 4 v))))) = v.
Proof.
  intros Hv. remember (rev (le_bytes 4 v)) as bs eqn:EB.
  assert (OK : bytes_ok bs) by (subst bs; apply Forall_rev; apply le_bytes_ok).
  assert (L : length bs = 4%nat) by (subst bs; rewrite rev_length; apply le_bytes_length).
  pose proof (le_bytes_le_val bs OK) as Q. rewrite L in Q. rewrite Q. subst bs. rewrite rev_involutive.
  apply le_val_le_bytes. unfold pix_ok. change (256 ^ Z.of_nat 4) with 4294967296. exact Hv.
Qed.

(* the repaired Pack24 (Swap32, then the plain shifts): faithful on every pixel whose three components can be
   read back at their shifts - no alignment needed *)
Lemma tpix_rt_repaired p r g b : tp_pack24 p = true -> tp_swap p = true ->
  0 <= r * 2 ^ tp_rs p + g * 2 ^ tp_gs p + b * 2 ^ tp_bs p < 4294967296 ->
  Z.shiftr (r * 2 ^ tp_rs p + g * 2 ^ tp_gs p + b * 2 ^ tp_bs p) (tp_rs p) mod 256 = r ->
  Z.shiftr (r * 2 ^ tp_rs p + g * 2 ^ tp_gs p + b * 2 ^ tp_bs p) (tp_gs p) mod 256 = g ->
  Z.shiftr (r * 2 ^ tp_rs p + g * 2 ^ tp_gs p + b * 2 ^ tp_bs p) (tp_bs p) mod 256 = b ->
  tpix_rt p (grid_pixel_of_value (tp_be p) 4 (r * 2 ^ tp_rs p + g * 2 ^ tp_gs p + b * 2 ^ tp_bs p)).
Proof.
  intros HP HS V32 ER EG EB rest. unfold take_tpixel, tpixel_bytes, tp_fmt.
  cbn [tf_tp3 tf_be tf_rs tf_gs tf_bs]. rewrite HP, HS. cbn [app].
  remember (r * 2 ^ tp_rs p + g * 2 ^ tp_gs p + b * 2 ^ tp_bs p) as v eqn:EV.
  unfold grid_pixel_of_value. destruct (tp_be p).
  - rewrite (bswap_involutive v V32). rewrite ER, EG, EB. rewrite <- EV. reflexivity.
  - rewrite ER, EG, EB. rewrite <- EV. reflexivity.
Qed.

Lemma extract_sorted a b c s t u : 0 <= a < 256 -> 0 <= b < 256 -> 0 <= c < 256 ->
  0 <= s -> s + 8 <= t -> t + 8 <= u ->
  Z.shiftr (a * 2 ^ s + b * 2 ^ t + c * 2 ^ u) s mod 256 = a /\
  Z.shiftr (a * 2 ^ s + b * 2 ^ t + c * 2 ^ u) t mod 256 = b /\
  Z.shiftr (a * 2 ^ s + b * 2 ^ t + c * 2 ^ u) u mod 256 = c /\
  0 <= a * 2 ^ s + b * 2 ^ t + c * 2 ^ u < 2 ^ (u + 8).
Proof.
  intros Ha Hb Hc Hs Ht Hu. rewrite !Z.shiftr_div_pow2 by lia.
  replace t with (s + 8 + (t - s - 8)) by lia. replace u with (s + 8 + (t - s - 8) + 8 + (u - t - 8)) by lia.
  set (d1 := t - s - 8). set (d2 := u - t - 8). assert (0 <= d1) by (unfold d1; lia). assert (0 <= d2) by (unfold d2; lia).
  rewrite !Z.pow_add_r by lia. change (2 ^ 8) with 256.
  pose proof (Z.pow_pos_nonneg 2 s ltac:(lia) Hs) as PP.
  pose proof (Z.pow_pos_nonneg 2 d1 ltac:(lia) H) as P1.
  pose proof (Z.pow_pos_nonneg 2 d2 ltac:(lia) H0) as P2.
  set (P := 2 ^ s) in *. set (D1 := 2 ^ d1) in *. set (D2 := 2 ^ d2) in *.
  assert (B1 : 0 <= a * P < P * 256) by nia.
  assert (B2 : P * 256 <= P * 256 * D1) by nia.
  assert (B3 : 0 <= b * (P * 256 * D1) <= 255 * (P * 256 * D1)) by nia.
  assert (B4 : P * 256 * D1 * 256 <= P * 256 * D1 * 256 * D2) by nia.
  assert (E1 : (a * P + b * (P * 256 * D1) + c * (P * 256 * D1 * 256 * D2)) / P = a + 256 * (D1 * (b + 256 * D2 * c))).
  { symmetry. apply Z.div_unique with 0; [lia|ring]. }
  assert (E2 : (a * P + b * (P * 256 * D1) + c * (P * 256 * D1 * 256 * D2)) / (P * 256 * D1) = b + 256 * (D2 * c)).
  { symmetry. apply Z.div_unique with (a * P); [lia|ring]. }
  assert (E3 : (a * P + b * (P * 256 * D1) + c * (P * 256 * D1 * 256 * D2)) / (P * 256 * D1 * 256 * D2) = c).
  { symmetry. apply Z.div_unique with (a * P + b * (P * 256 * D1)); [lia|ring]. }
  rewrite E1, E2, E3. repeat split.
  - rewrite (Z.mul_comm 256), Z_mod_plus_full. apply Z.mod_small; lia.
  - rewrite (Z.mul_comm 256), Z_mod_plus_full. apply Z.mod_small; lia.
  - apply Z.mod_small; lia.
  - nia.
  - nia.
Qed.

(* three 8-bit components anywhere in the low 32 bits, at least 8 bits apart, in any order *)
Definition spaced (s t u : Z) : Prop := 0 <= s /\ s + 8 <= t /\ t + 8 <= u /\ u <= 24.

Lemma extract_any r g b rs gs bs : 0 <= r < 256 -> 0 <= g < 256 -> 0 <= b < 256 ->
  spaced rs gs bs \/ spaced rs bs gs \/ spaced gs rs bs \/ spaced gs bs rs \/ spaced bs rs gs \/ spaced bs gs rs ->
  Z.shiftr (r * 2 ^ rs + g * 2 ^ gs + b * 2 ^ bs) rs mod 256 = r /\
  Z.shiftr (r * 2 ^ rs + g * 2 ^ gs + b * 2 ^ bs) gs mod 256 = g /\
  Z.shiftr (r * 2 ^ rs + g * 2 ^ gs + b * 2 ^ bs) bs mod 256 = b /\
  0 <= r * 2 ^ rs + g * 2 ^ gs + b * 2 ^ bs < 4294967296.
Proof.
  intros Hr Hg Hb S.
  assert (TOP : forall u, u <= 24 -> 2 ^ (u + 8) <= 4294967296).
  { intros u Hu. change 4294967296 with (2 ^ 32). apply Z.pow_le_mono_r; lia. }
  destruct S as [S|[S|[S|[S|[S|S]]]]]; destruct S as (S0 & S1 & S2 & S3).
  - destruct (extract_sorted r g b rs gs bs Hr Hg Hb S0 S1 S2) as (A & B & C & D). specialize (TOP bs S3). repeat split; auto; lia.
  - replace (r * 2 ^ rs + g * 2 ^ gs + b * 2 ^ bs) with (r * 2 ^ rs + b * 2 ^ bs + g * 2 ^ gs) by ring.
    destruct (extract_sorted r b g rs bs gs Hr Hb Hg S0 S1 S2) as (A & B & C & D). specialize (TOP gs S3). repeat split; auto; lia.
  - replace (r * 2 ^ rs + g * 2 ^ gs + b * 2 ^ bs) with (g * 2 ^ gs + r * 2 ^ rs + b * 2 ^ bs) by ring.
    destruct (extract_sorted g r b gs rs bs Hg Hr Hb S0 S1 S2) as (A & B & C & D). specialize (TOP bs S3). repeat split; auto; lia.
  - replace (r * 2 ^ rs + g * 2 ^ gs + b * 2 ^ bs) with (g * 2 ^ gs + b * 2 ^ bs + r * 2 ^ rs) by ring.
    destruct (extract_sorted g b r gs bs rs Hg Hb Hr S0 S1 S2) as (A & B & C & D). specialize (TOP rs S3). repeat split; auto; lia.
  - replace (r * 2 ^ rs + g * 2 ^ gs + b * 2 ^ bs) with (b * 2 ^ bs + r * 2 ^ rs + g * 2 ^ gs) by ring.
    destruct (extract_sorted b r g bs rs gs Hb Hr Hg S0 S1 S2) as (A & B & C & D). specialize (TOP gs S3). repeat split; auto; lia.
  - replace (r * 2 ^ rs + g * 2 ^ gs + b * 2 ^ bs) with (b * 2 ^ bs + g * 2 ^ gs + r * 2 ^ rs) by ring.
    destruct (extract_sorted b g r bs gs rs Hb Hg Hr S0 S1 S2) as (A & B & C & D). specialize (TOP rs S3). repeat split; auto; lia.
Qed.

(* C01_tight_tpixel_repaired: with the repaired Pack24 EVERY 8-8-8 format in 32 bits is TPIXEL-faithful,
   aligned or not, either byte order *)
Theorem tpix_rt_repaired_any p r g b : tp_pack24 p = true -> tp_swap p = true ->
  spaced (tp_rs p) (tp_gs p) (tp_bs p) \/ spaced (tp_rs p) (tp_bs p) (tp_gs p) \/ spaced (tp_gs p) (tp_rs p) (tp_bs p) \/
  spaced (tp_gs p) (tp_bs p) (tp_rs p) \/ spaced (tp_bs p) (tp_rs p) (tp_gs p) \/ spaced (tp_bs p) (tp_gs p) (tp_rs p) ->
  0 <= r < 256 -> 0 <= g < 256 -> 0 <= b < 256 ->
  tpix_rt p (grid_pixel_of_value (tp_be p) 4 (r * 2 ^ tp_rs p + g * 2 ^ tp_gs p + b * 2 ^ tp_bs p)).
Proof.
  intros HP HS SP Hr Hg Hb. destruct (extract_any r g b _ _ _ Hr Hg Hb SP) as (A & B & C & D).
  apply tpix_rt_repaired; assumption.
Qed.

(* every byte-aligned placement of the three bytes in the 32 bits, either endianness *)
Lemma tpix_rt_888 p r g b : tp_pack24 p = true ->
  (tp_rs p = 0 \/ tp_rs p = 8 \/ tp_rs p = 16 \/ tp_rs p = 24) -> (tp_gs p = 0 \/ tp_gs p = 8 \/ tp_gs p = 16 \/ tp_gs p = 24) ->
  (tp_bs p = 0 \/ tp_bs p = 8 \/ tp_bs p = 16 \/ tp_bs p = 24) ->
  tp_rs p <> tp_gs p -> tp_rs p <> tp_bs p -> tp_gs p <> tp_bs p ->
  0 <= r < 256 -> 0 <= g < 256 -> 0 <= b < 256 ->
  tpix_rt p (grid_pixel_of_value (tp_be p) 4 (r * 2 ^ tp_rs p + g * 2 ^ tp_gs p + b * 2 ^ tp_bs p)).
Proof.
  intros HP HR HG HB N1 N2 N3 Hr Hg Hb.
  set (v := r * 2 ^ tp_rs p + g * 2 ^ tp_gs p + b * 2 ^ tp_bs p).
  assert (ER : Z.shiftr v (tp_rs p) mod 256 = r) by (apply extract_byte; auto).
  assert (EG : Z.shiftr v (tp_gs p) mod 256 = g).
  { unfold v. replace (r * 2 ^ tp_rs p + g * 2 ^ tp_gs p + b * 2 ^ tp_bs p) with (g * 2 ^ tp_gs p + r * 2 ^ tp_rs p + b * 2 ^ tp_bs p) by ring.
    apply extract_byte; auto. }
  assert (EB : Z.shiftr v (tp_bs p) mod 256 = b).
  { unfold v. replace (r * 2 ^ tp_rs p + g * 2 ^ tp_gs p + b * 2 ^ tp_bs p) with (b * 2 ^ tp_bs p + r * 2 ^ tp_rs p + g * 2 ^ tp_gs p) by ring.
    apply extract_byte; auto. }
  assert (V32 : 0 <= v < 4294967296) by (apply three_bytes_bound; auto).
  destruct (tp_swap p) eqn:SW; [apply tpix_rt_repaired; assumption|].
  intros rest. unfold take_tpixel, tpixel_bytes, tp_fmt.
  cbn [tf_tp3 tf_be tf_rs tf_gs tf_bs]. rewrite HP, SW. cbn [app]. fold v.
  unfold grid_pixel_of_value. destruct (tp_be p).
  - rewrite !bswap_byte by auto. rewrite ER, EG, EB. reflexivity.
  - rewrite ER, EG, EB. reflexivity.
Qed.

Lemma take_tpixels_app p ps rest : Forall (tpix_rt p) ps ->
  take_tpixels (tp_fmt p) (length ps) (flat_map (tpixel_bytes p) ps ++ rest) = Some (ps, rest).
Proof.
  induction 1 as [|x ps Hx _ IH]; [reflexivity|].
  cbn [length flat_map take_tpixels]. rewrite <- app_assoc, Hx, IH. reflexivity.
Qed.

(* ------------------------------------------------------------------ palette analysis *)
Lemma skip_eq_spec c : forall l n n' rest, skip_eq c l n = (n', rest) ->
  exists pre, l = pre ++ rest /\ Forall (fun d => d = c) pre /\ match rest with [] => True | d :: _ => d <> c end.
Proof.
  induction l as [|d t IH]; intros n n' rest H; simpl in H.
  - inversion H; subst. exists []. split; [reflexivity|]. split; [constructor|exact I].
  - destruct (d =? c) eqn:E.
    + apply Z.eqb_eq in E. subst d. destruct (IH _ _ _ H) as (pre & -> & F & N).
      exists (c :: pre). split; [reflexivity|]. split; [constructor; auto|exact N].
    + inversion H; subst. exists []. split; [reflexivity|]. split; [constructor|]. apply Z.eqb_neq in E. exact E.
Qed.

Lemma count_two_spec c0 c1 : forall l n0 n1 n0' n1' rest, count_two l c0 c1 n0 n1 = (n0', n1', rest) ->
  exists pre, l = pre ++ rest /\ Forall (fun d => d = c0 \/ d = c1) pre.
Proof.
  induction l as [|d t IH]; intros n0 n1 n0' n1' rest H; simpl in H.
  - inversion H; subst. exists []. split; [reflexivity|constructor].
  - destruct (d =? c0) eqn:E0.
    + apply Z.eqb_eq in E0. subst d. destruct (IH _ _ _ _ _ H) as (pre & -> & F).
      exists (c0 :: pre). split; [reflexivity|constructor; auto].
    + destruct (d =? c1) eqn:E1.
      * apply Z.eqb_eq in E1. subst d. destruct (IH _ _ _ _ _ H) as (pre & -> & F).
        exists (c1 :: pre). split; [reflexivity|constructor; auto].
      * inversion H; subst. exists []. split; [reflexivity|constructor].
Qed.

Lemma count_two_third c0 c1 : forall l n0 n1 n0' n1' ci t, count_two l c0 c1 n0 n1 = (n0', n1', ci :: t) ->
  ci <> c0 /\ ci <> c1.
Proof.
  induction l as [|d l IH]; intros n0 n1 n0' n1' ci t H; simpl in H; [discriminate|].
  destruct (d =? c0) eqn:E0; [eapply IH; eauto|].
  destruct (d =? c1) eqn:E1; [eapply IH; eauto|].
  inversion H; subst. apply Z.eqb_neq in E0, E1. auto.
Qed.

Lemma in_pal_place e pal x : In x (map fst (pal_place e pal)) <-> x = fst e \/ In x (map fst pal).
Proof.
  induction pal as [|y t IH]; simpl; [intuition|].
  destruct (snd y <? snd e); simpl; [intuition|]. rewrite IH. intuition.
Qed.

Lemma pal_place_length e pal : length (pal_place e pal) = S (length pal).
Proof. induction pal as [|y t IH]; simpl; [reflexivity|]. destruct (snd y <? snd e); simpl; lia. Qed.

Lemma pal_find_in rgb pal c : pal_find rgb pal = Some c -> In rgb (map fst pal).
Proof.
  induction pal as [|y t IH]; simpl; [discriminate|]. destruct (fst y =? rgb) eqn:E.
  - apply Z.eqb_eq in E. auto.
  - intros H. right. auto.
Qed.

Lemma pal_remove_length rgb pal : In rgb (map fst pal) -> (length (pal_remove rgb pal) < length pal)%nat.
Proof.
  unfold pal_remove. induction pal as [|y t IH]; simpl; [tauto|]. intros [H|H].
  - subst. rewrite Z.eqb_refl. simpl. pose proof (filter_length_le (fun x => negb (fst x =? fst y)) t). lia.
  - specialize (IH H). destruct (negb (fst y =? rgb)); simpl; lia.
Qed.

Lemma in_pal_remove rgb pal x : x <> rgb -> In x (map fst pal) -> In x (map fst (pal_remove rgb pal)).
Proof.
  unfold pal_remove. intros NE H. apply in_map_iff in H. destruct H as (y & <- & IY).
  apply in_map. apply filter_In. split; [assumption|]. apply negb_true_iff. apply Z.eqb_neq. exact NE.
Qed.

Lemma palette_insert_spec mc pal rgb n pal' : palette_insert mc pal rgb n = Some pal' ->
  (length pal <= 256)%nat ->
  (length pal' <= 256)%nat /\ In rgb (map fst pal') /\ (forall x, In x (map fst pal) -> In x (map fst pal')) /\
  (forall x, In x (map fst pal') -> x = rgb \/ In x (map fst pal)).
Proof.
  unfold palette_insert. destruct (pal_find rgb pal) as [c|] eqn:F.
  - intros H L. inversion H; subst. apply pal_find_in in F. pose proof (pal_remove_length rgb pal F).
    split; [rewrite pal_place_length; lia|]. split; [|split].
    + apply in_pal_place. left. reflexivity.
    + intros x X. apply in_pal_place. cbn [fst]. destruct (Z.eq_dec x rgb); [left; assumption|right].
      apply in_pal_remove; assumption.
    + intros x X. apply in_pal_place in X. cbn [fst] in X. destruct X as [X|X]; [auto|right].
      unfold pal_remove in X. apply in_map_iff in X. destruct X as (y & <- & IY). apply filter_In in IY.
      apply in_map. tauto.
  - destruct ((Z.of_nat (length pal) =? 256) || (Z.of_nat (length pal) =? mc)) eqn:FULL; [discriminate|].
    apply orb_false_iff in FULL. destruct FULL as [F1 _]. apply Z.eqb_neq in F1.
    intros H L. inversion H; subst. split; [rewrite pal_place_length; lia|]. split; [|split].
    + apply in_pal_place. left. reflexivity.
    + intros x X. apply in_pal_place. right. assumption.
    + intros x X. apply in_pal_place in X. cbn [fst] in X. exact X.
Qed.

Lemma fill_rest_spec mc : forall data ci ni pal pal', fill_rest mc data ci ni pal = Some pal' ->
  (length pal <= 256)%nat ->
  (length pal' <= 256)%nat /\ In ci (map fst pal') /\ (forall x, In x (map fst pal) -> In x (map fst pal')) /\
  (forall x, In x (map fst pal') -> x = ci \/ In x data \/ In x (map fst pal)).
Proof.
  induction data as [|d t IH]; intros ci ni pal pal' H L; cbn [fill_rest] in H.
  - apply palette_insert_spec in H; auto. destruct H as (A & B & C & D).
    split; [assumption|]. split; [assumption|]. split; [assumption|]. intros x X. destruct (D x X); auto.
  - destruct (d =? ci) eqn:E.
    + apply IH in H; auto. destruct H as (A & B & C & D).
      split; [assumption|]. split; [assumption|]. split; [assumption|].
      intros x X. destruct (D x X) as [Q|[Q|Q]]; auto. right. left. right. exact Q.
    + destruct (palette_insert mc pal ci ni) as [p1|] eqn:PI; [|discriminate].
      apply palette_insert_spec in PI; auto. destruct PI as (L1 & I1 & M1 & R1).
      apply IH in H; auto. destruct H as (L2 & I2 & M2 & R2). split; [assumption|]. split; [auto|]. split; [auto|].
      intros x X. destruct (R2 x X) as [Q|[Q|Q]].
      * subst. right. left. left. reflexivity.
      * right. left. right. exact Q.
      * destruct (R1 x Q); auto.
Qed.

Lemma three_distinct_length {A} (l : list A) a b c : In a l -> In b l -> In c l -> a <> b -> a <> c -> b <> c ->
  (3 <= length l)%nat.
Proof.
  intros Ha Hb Hc AB AC BC.
  apply in_split in Ha. destruct Ha as (l1 & l2 & ->).
  assert (Hb' : In b (l1 ++ l2)) by (apply in_app_or in Hb; apply in_or_app; destruct Hb as [H|[H|H]]; [auto|congruence|auto]).
  assert (Hc' : In c (l1 ++ l2)) by (apply in_app_or in Hc; apply in_or_app; destruct Hc as [H|[H|H]]; [auto|congruence|auto]).
  apply in_split in Hb'. destruct Hb' as (m1 & m2 & E).
  assert (Hc'' : In c (m1 ++ m2)).
  { rewrite E in Hc'. apply in_app_or in Hc'. apply in_or_app. destruct Hc' as [H|[H|H]]; [auto|congruence|auto]. }
  assert (1 <= length (m1 ++ m2))%nat by (destruct (m1 ++ m2); [destruct Hc''|simpl; lia]).
  assert (length (l1 ++ l2) = S (length (m1 ++ m2))) by (rewrite E, !app_length; simpl; lia).
  rewrite app_length in *. simpl. rewrite app_length in *. lia.
Qed.

Inductive pal_facts (data : list Z) : pal_kind -> Prop :=
| PF_solid c : Forall (fun d => d = c) data -> hd_error data = Some c -> pal_facts data PSolid
| PF_mono bg fg : Forall (fun d => d = bg \/ d = fg) data -> In bg data -> In fg data -> bg <> fg ->
                  pal_facts data (PMono bg fg)
| PF_indexed pal : (3 <= length pal <= 256)%nat -> (forall c, In c pal -> In c data) -> pal_facts data (PIndexed pal)
| PF_full : pal_facts data PFull.

Lemma fill_palette_facts bypp mc data k : fill_palette bypp mc data = Some k -> pal_facts data k.
Proof.
  unfold fill_palette. destruct data as [|c0 t]; [discriminate|].
  destruct (skip_eq c0 t 1) as [n0 rest] eqn:SK. destruct (skip_eq_spec _ _ _ _ _ SK) as (pre & -> & FP & NH).
  destruct rest as [|c1 t1].
  - intros H. inversion H; subst. apply (PF_solid _ c0); [|reflexivity].
    constructor; [reflexivity|]. rewrite app_nil_r. exact FP.
  - destruct (mc <? 2); [intros H; inversion H; constructor|].
    assert (N01 : c0 <> c1) by congruence.
    destruct (count_two t1 c0 c1 n0 0) as [[n0' n1'] rest2] eqn:CT.
    destruct (count_two_spec _ _ _ _ _ _ _ _ CT) as (pre2 & -> & F2).
    assert (IN0 : forall tl, In c0 (c0 :: pre ++ c1 :: tl)) by (intros; left; reflexivity).
    assert (IN1 : forall tl, In c1 (c0 :: pre ++ c1 :: tl)).
    { intros. right. apply in_or_app. right. left. reflexivity. }
    destruct rest2 as [|ci t2].
    + intros H. assert (ALL : Forall (fun d => d = c0 \/ d = c1) (c0 :: pre ++ c1 :: pre2 ++ [])).
      { constructor; [auto|]. apply Forall_app. split; [eapply Forall_impl; [|exact FP]; intros; auto|].
        constructor; [auto|]. rewrite app_nil_r. exact F2. }
      destruct (n1' <? n0'); inversion H; subst; constructor; auto.
      eapply Forall_impl; [|exact ALL]. intros a [A|A]; auto.
    + destruct (Nat.eqb bypp 1); [intros H; inversion H; constructor|].
      destruct (count_two_third _ _ _ _ _ _ _ _ _ CT) as [N0 N1].
      destruct (palette_insert mc [] c0 n0') as [p1|] eqn:I1; [|intros H; inversion H; constructor].
      destruct (palette_insert mc p1 c1 n1') as [p2|] eqn:I2; [|intros H; inversion H; constructor].
      destruct (fill_rest mc t2 ci 1 p2) as [p3|] eqn:FR; [|intros H; inversion H; constructor].
      intros H. inversion H; subst.
      apply palette_insert_spec in I1; [|simpl; lia]. destruct I1 as (L1 & A1 & _ & R1).
      apply palette_insert_spec in I2; [|assumption]. destruct I2 as (L2 & A2 & M2 & R2).
      apply fill_rest_spec in FR; [|assumption]. destruct FR as (L3 & A3 & M3 & R3).
      constructor.
      * rewrite map_length. split; [|assumption]. rewrite <- (map_length fst).
        apply (three_distinct_length _ c0 c1 ci); auto.
      * intros c IC. destruct (R3 c IC) as [Q|[Q|Q]].
        -- subst. right. apply in_or_app. right. right. apply in_or_app. right. left. reflexivity.
        -- right. apply in_or_app. right. right. apply in_or_app. right. right. exact Q.
        -- destruct (R2 c Q) as [Q2|Q2]; [subst; apply IN1|].
           destruct (R1 c Q2) as [Q3|[]]. subst. apply IN0.
Qed.

(* ------------------------------------------------------------------ mono rows *)
Lemma mono_row_roundtrip bg fg r rest : Forall (fun d => d = bg \/ d = fg) r -> bg <> fg \/ Forall (fun d => d = bg) r ->
  take (Z.to_nat ((Z.of_nat (length r) * 1 + 7) / 8)) (mono_row bg r ++ rest) = Some (mono_row bg r, rest) /\
  unpack_row 1 (length r) [bg; fg] (mono_row bg r) = Some r.
Proof.
  intros F D. unfold mono_row. set (idxs := map (fun p => if p =? bg then 0 else 1) r).
  assert (LI : length idxs = length r) by (unfold idxs; apply map_length).
  assert (FB : Forall (fun d => 0 <= d < 2 ^ 1) idxs).
  { unfold idxs. apply Forall_forall. intros d Hd. apply in_map_iff in Hd. destruct Hd as (p & <- & _).
    change (2 ^ 1) with 2. destruct (p =? bg); lia. }
  split.
  - rewrite <- LI. rewrite <- (pack_chunks_length 1 8 ltac:(lia) eq_refl (S (length idxs)) idxs) by lia.
    rewrite LI. apply take_app.
  - unfold unpack_row. change (Z.to_nat (8 / 1)) with 8%nat. rewrite <- LI.
    rewrite (unpack_chunks 1 8 ltac:(lia) eq_refl) by (auto; lia). rewrite Nat.eqb_refl.
    unfold idxs. clear - F D. induction r as [|p t IH]; [reflexivity|].
    apply Forall_cons_iff in F. destruct F as [Fp Ft]. cbn [map opt_map].
    assert (Dt : bg <> fg \/ Forall (fun d => d = bg) t).
    { destruct D as [D|D]; [auto|right; inversion D; assumption]. }
    rewrite (IH Ft Dt). destruct (p =? bg) eqn:E.
    + apply Z.eqb_eq in E. subst. reflexivity.
    + apply Z.eqb_neq in E. destruct Fp as [Fp|Fp]; [congruence|]. subst. reflexivity.
Qed.

Lemma dec_mono_rows bg fg w : forall (t : list (list Z)) rest,
  Forall (fun r => length r = w) t -> Forall (Forall (fun d => d = bg \/ d = fg)) t ->
  bg <> fg \/ Forall (Forall (fun d => d = bg)) t ->
  dec_packed_rows 1 w [bg; fg] (length t) (flat_map (mono_row bg) t ++ rest) = Some (t, rest).
Proof.
  induction t as [|r t IH]; intros rest FW FM D; [reflexivity|].
  apply Forall_cons_iff in FW. destruct FW as [LR FW]. apply Forall_cons_iff in FM. destruct FM as [MR FM].
  assert (Dr : bg <> fg \/ Forall (fun d => d = bg) r) by (destruct D as [D|D]; [auto|right; inversion D; assumption]).
  assert (Dt : bg <> fg \/ Forall (Forall (fun d => d = bg)) t) by (destruct D as [D|D]; [auto|right; inversion D; assumption]).
  destruct (mono_row_roundtrip bg fg r (flat_map (mono_row bg) t ++ rest) MR Dr) as [TK UP].
  cbn [length flat_map dec_packed_rows]. rewrite <- app_assoc. rewrite <- LR. rewrite TK, UP.
  rewrite LR. rewrite (IH rest FW FM Dt). reflexivity.
Qed.

(* ------------------------------------------------------------------ indexed rows *)
Lemma opt_all_pal_index pal : forall data idxs, opt_all (map (pal_index pal) data) = Some idxs ->
  length idxs = length data /\ opt_map (nth_zs pal) idxs = Some data.
Proof.
  induction data as [|d t IH]; intros idxs H; simpl in H.
  - inversion H; subst. split; reflexivity.
  - destruct (pal_index pal d) as [i|] eqn:PI; [|discriminate].
    destruct (opt_all (map (pal_index pal) t)) as [l|] eqn:OA; [|discriminate]. inversion H; subst.
    destruct (IH l eq_refl) as [A B]. destruct (pal_index_spec pal d i PI) as [_ N].
    split; [simpl; lia|]. cbn [opt_map]. rewrite N, B. reflexivity.
Qed.

Lemma opt_map_app {A B} (f : A -> option B) l1 l2 r1 r2 :
  opt_map f l1 = Some r1 -> opt_map f l2 = Some r2 -> opt_map f (l1 ++ l2) = Some (r1 ++ r2).
Proof.
  revert r1. induction l1 as [|a l1 IH]; intros r1 H1 H2; simpl in *.
  - inversion H1; subst. exact H2.
  - destruct (f a); [|discriminate]. destruct (opt_map f l1) as [x|] eqn:E; [|discriminate].
    inversion H1; subst. rewrite (IH x eq_refl H2). reflexivity.
Qed.

Lemma opt_map_split {A B} (f : A -> option B) : forall l r1 r2, opt_map f l = Some (r1 ++ r2) ->
  opt_map f (firstn (length r1) l) = Some r1 /\ opt_map f (skipn (length r1) l) = Some r2.
Proof.
  induction l as [|a l IH]; intros r1 r2 H; simpl in H.
  - inversion H as [E]. symmetry in E. apply app_eq_nil in E. destruct E; subst. split; reflexivity.
  - destruct (f a) as [b|] eqn:FA; [|discriminate]. destruct (opt_map f l) as [x|] eqn:E; [|discriminate].
    inversion H as [E2]. destruct r1 as [|c r1].
    + simpl in *. subst r2. split; [reflexivity|]. simpl. rewrite FA, E. reflexivity.
    + simpl in E2. inversion E2; subst. destruct (IH r1 r2 eq_refl) as [A1 A2].
      split; [cbn [length firstn opt_map]; rewrite FA, A1; reflexivity|exact A2].
Qed.

Lemma dec_index_rows_app pal w : forall (t : list (list Z)) idxs rest,
  Forall (fun r => length r = w) t -> opt_map (nth_zs pal) idxs = Some (concat t) ->
  dec_index_rows w pal (length t) (idxs ++ rest) = Some (t, rest).
Proof.
  induction t as [|r t IH]; intros idxs rest FW OM.
  - simpl in OM. destruct idxs as [|i idxs]; [reflexivity|].
    simpl in OM. destruct (nth_zs pal i); [|discriminate]. destruct (opt_map (nth_zs pal) idxs); discriminate.
  - apply Forall_cons_iff in FW. destruct FW as [LR FW]. cbn [concat] in OM.
    destruct (opt_map_split _ _ _ _ OM) as [O1 O2].
    assert (LI : (length r <= length idxs)%nat).
    { assert (length idxs = length (r ++ concat t)).
      { clear - OM. revert OM. generalize (r ++ concat t). induction idxs as [|i l IH]; intros x H; simpl in H.
        - inversion H. reflexivity.
        - destruct (nth_zs pal i); [|discriminate]. destruct (opt_map (nth_zs pal) l) eqn:E; [|discriminate].
          inversion H; subst. simpl. rewrite (IH _ eq_refl). reflexivity. }
      rewrite H, app_length. lia. }
    subst w. cbn [length dec_index_rows].
    rewrite <- (firstn_skipn (length r) idxs) at 1. rewrite <- app_assoc.
    pose proof (take_app (firstn (length r) idxs) (skipn (length r) idxs ++ rest)) as T.
    rewrite firstn_length_le in T by assumption. rewrite T, O1.
    rewrite (IH _ rest FW O2). reflexivity.
Qed.

(* ------------------------------------------------------------------ one rectangle *)
Theorem tight_subrect_roundtrip p w h g payload :
  (1 <= w)%nat -> (1 <= h)%nat -> wf_grid w h g -> Forall (Forall (tpix_rt p)) g -> conf_ok (tp_conf p) ->
  tight_subrect p w h g = Some (TPayload payload) -> dec_tight (tp_fmt p) w h payload = Some g.
Proof.
  intros Hw Hh WF RT CONF E. unfold tight_subrect in E.
  destruct CONF as (monoMin & idxZ & monoZ & rawZ & divisor & palMax & C0 & C1 & C2 & C3 & C4 & C5 & NI & NM & NR).
  rewrite C0, C1, C2, C3, C4, C5 in E. cbv beta iota zeta in E.
  apply Z.eqb_neq in NI, NM, NR.
  set (data := concat g) in *.
  assert (RTD : Forall (tpix_rt p) data).
  { unfold data. clear - RT. induction RT; simpl; [constructor|]. apply Forall_app; split; assumption. }
  assert (LD : length data = (w * h)%nat) by (apply concat_length_wf; assumption).
  match type of E with context [fill_palette ?a ?b ?c] => destruct (fill_palette a b c) as [k|] eqn:FP; [|discriminate] end.
  apply fill_palette_facts in FP. destruct FP as [c FS HD|bg fg FM INB INF NBF|pal LP SUB|].
  - (* fill *)
    destruct data as [|d t] eqn:ED; [discriminate|]. inversion HD; subst c.
    assert (EP : payload = 128 :: tpixel_bytes p d) by congruence. subst payload. clear E.
    unfold dec_tight. change (128 / 16 =? 8) with true. cbn iota.
    apply Forall_cons_iff in RTD. destruct RTD as [Rd _]. rewrite <- (app_nil_r (tpixel_bytes p d)), Rd.
    cbn [all_consumed]. f_equal. symmetry. apply solid_grid; [assumption|]. fold data. rewrite ED. exact FS.
  - (* mono *)
    rewrite NM in E. assert (EP : payload = 80 :: 1 :: 1 :: tpixel_bytes p bg ++ tpixel_bytes p fg ++ flat_map (mono_row bg) g) by congruence.
    subst payload. clear E.
    unfold dec_tight. change (80 / 16 =? 8) with false. change (80 / 16 <=? 7) with true.
    change (Z.testbit (80 / 16) 2) with true. cbn iota. change (1 =? 0) with false. change (1 =? 1) with true. cbn iota.
    change (Z.to_nat (1 + 1)) with (length [bg; fg]).
    rewrite Forall_forall in RTD.
    assert (RP : Forall (tpix_rt p) [bg; fg]) by (constructor; [auto|constructor; [auto|constructor]]).
    pose proof (take_tpixels_app p [bg; fg] (flat_map (mono_row bg) g) RP) as TP.
    cbn [flat_map] in TP. rewrite app_nil_r, <- app_assoc in TP. rewrite TP.
    change (1 + 1 <=? 2) with true. cbn iota.
    destruct WF as [LG FW]. rewrite <- LG.
    rewrite <- (app_nil_r (flat_map (mono_row bg) g)).
    rewrite (dec_mono_rows bg fg w g [] FW); [reflexivity| |left; assumption].
    apply Forall_forall. intros r IR. apply Forall_forall. intros d ID.
    rewrite Forall_forall in FM. apply FM. unfold data. apply in_concat. eauto.
  - (* indexed palette *)
    match type of E with context [opt_all ?x] => destruct (opt_all x) as [idxs|] eqn:OA; [|discriminate] end.
    rewrite NI in E. assert (EP : payload = 96 :: 1 :: (Z.of_nat (length pal) - 1) :: flat_map (tpixel_bytes p) pal ++ idxs) by congruence.
    subst payload. clear E.
    destruct (opt_all_pal_index pal data idxs OA) as [LI OM].
    unfold dec_tight. change (96 / 16 =? 8) with false. change (96 / 16 <=? 7) with true.
    change (Z.testbit (96 / 16) 2) with true. cbn iota. change (1 =? 0) with false. change (1 =? 1) with true. cbn iota.
    destruct LP as [L3 L256].
    replace (Z.to_nat (Z.of_nat (length pal) - 1 + 1)) with (length pal) by lia.
    assert (RP : Forall (tpix_rt p) pal).
    { apply Forall_forall. intros c IC. rewrite Forall_forall in RTD. auto. }
    rewrite (take_tpixels_app p pal idxs RP).
    replace (Z.of_nat (length pal) - 1 + 1 <=? 2) with false by (symmetry; apply Z.leb_gt; lia).
    destruct WF as [LG FW]. rewrite <- LG. rewrite <- (app_nil_r idxs).
    rewrite (dec_index_rows_app pal w g idxs [] FW OM). reflexivity.
  - (* full colour *)
    destruct (tp_jpeg p && negb (tp_s8 p)); [discriminate|]. rewrite NR in E.
    assert (EP : payload = 0 :: flat_map (tpixel_bytes p) data) by congruence. subst payload. clear E.
    unfold dec_tight. change (0 / 16 =? 8) with false. change (0 / 16 <=? 7) with true.
    change (Z.testbit (0 / 16) 2) with false. cbn iota.
    rewrite <- LD. rewrite <- (app_nil_r (flat_map (tpixel_bytes p) data)).
    rewrite (take_tpixels_app p data [] RTD). unfold data.
    rewrite rows_of_concat by assumption. reflexivity.
Qed.

(* ------------------------------------------------------------------ SendRectSimple *)
(* a JPEG rectangle (control byte 0x90 only in the model) is lossy by the client's request *)
Definition tight_rect_ok (p : tight_params) (scr : list (list Z)) (r : wrect) : Prop :=
  w_enc r = 7 /\
  (w_payload r = [144] /\ tp_jpeg p = true \/
   dec_tight (tp_fmt p) (w_w r) (w_h r) (w_payload r) = Some (crop scr (w_x r) (w_y r) (w_w r) (w_h r))).

Lemma tpix_rt_crop p g x y cw ch :
  Forall (Forall (tpix_rt p)) g -> Forall (Forall (tpix_rt p)) (crop g x y cw ch).
Proof.
  unfold crop. intros P. apply Forall_forall. intros r Hr.
  apply in_map_iff in Hr. destruct Hr as [r0 [<- Hr0]].
  apply In_firstn, In_skipn in Hr0. rewrite Forall_forall in P. specialize (P r0 Hr0).
  apply Forall_forall. intros q Hq. apply In_firstn, In_skipn in Hq. rewrite Forall_forall in P. auto.
Qed.

Theorem send_tight_ok W H scr p x y w h rects :
  wf_grid W H scr -> Forall (Forall (tpix_rt p)) scr -> conf_ok (tp_conf p) ->
  (x + w <= W)%nat -> (y + h <= H)%nat -> (1 <= w)%nat -> (1 <= h)%nat ->
  send_tight p x y w h scr = Ok rects ->
  Forall (tight_rect_ok p scr) rects /\
  exists pieces, partitions w h pieces /\
    map (fun r => (w_x r, w_y r, w_w r, w_h r)) rects = map (fun '(a, b, c, d) => ((x + a)%nat, (y + b)%nat, c, d)) pieces.
Proof.
  intros WF RT CONF HX HY HW HH E. unfold send_tight in E.
  destruct tight_consts as (_ & KS & KW & KE). rewrite KS, KW, KE in E.
  match type of E with res_concat (map ?f ?pcs) = _ => set (pieces := pcs) in *; set (F := f) in * end.
  assert (PART : partitions w h pieces).
  { unfold pieces. destruct ((Z.to_nat 2048 <? w)%nat || (65536 <? Z.of_nat (w * h))) eqn:SP.
    - apply tiles_partition; [lia|].
      destruct (Z.to_nat 2048 <? w)%nat eqn:W2; [apply Nat.ltb_lt in W2|apply Nat.ltb_ge in W2];
        apply Nat.div_str_pos; lia.
    - split; [|split].
      + intros a b c d [Q|[]]. inversion Q; subst. lia.
      + intros i j Hi Hj. exists (0, 0, w, h)%nat. split; [left; reflexivity|]. simpl. lia.
      + intros a b i j [<-|[]] [<-|[]] _ _. reflexivity. }
  assert (G : forall pcs rs, (forall a b c d, In (a, b, c, d) pcs -> (a + c <= w /\ b + d <= h /\ 1 <= c /\ 1 <= d)%nat) ->
             res_concat (map F pcs) = Ok rs ->
             Forall (tight_rect_ok p scr) rs /\
             map (fun r => (w_x r, w_y r, w_w r, w_h r)) rs = map (fun '(a, b, c, d) => ((x + a)%nat, (y + b)%nat, c, d)) pcs).
  { induction pcs as [|[[[a b] c] d] pcs IH]; intros rs INS RC.
    - simpl in RC. inversion RC; subst. split; constructor.
    - cbn [map res_concat] in RC. unfold F at 1 in RC.
      destruct (tight_subrect p c d (crop scr (x + a) (y + b) c d)) as [[pl|]|] eqn:TS.
      + destruct (res_concat (map F pcs)) as [rb| |] eqn:RB; try discriminate.
        inversion RC; subst rs. clear RC.
        destruct (INS a b c d (or_introl eq_refl)) as (I1 & I2 & I3 & I4).
        destruct (IH rb (fun a' b' c' d' HI => INS a' b' c' d' (or_intror HI)) eq_refl) as [A B].
        split.
        * constructor; [|exact A]. split; [reflexivity|]. right. cbn [w_w w_h w_x w_y w_payload].
          apply tight_subrect_roundtrip; auto.
          -- apply (wf_crop W H); auto; lia.
          -- apply tpix_rt_crop; assumption.
        * cbn [map app w_x w_y w_w w_h]. rewrite B. reflexivity.
      + destruct (res_concat (map F pcs)) as [rb| |] eqn:RB; try discriminate.
        inversion RC; subst rs. clear RC.
        destruct (IH rb (fun a' b' c' d' HI => INS a' b' c' d' (or_intror HI)) eq_refl) as [A B].
        split.
        * constructor; [|exact A]. split; [reflexivity|]. left. split; [reflexivity|].
          unfold tight_subrect in TS.
          repeat match type of TS with context [conf_field ?a ?b] => destruct (conf_field a b); [|discriminate] end.
          cbv beta iota zeta in TS.
          match type of TS with context [fill_palette ?a ?b ?c] => destruct (fill_palette a b c) as [[ | | | ]|]; try discriminate end.
          -- destruct (concat (crop scr (x + a) (y + b) c d)); discriminate.
          -- match type of TS with context [opt_all ?u] => destruct (opt_all u); discriminate end.
          -- destruct (tp_jpeg p); [reflexivity|discriminate].
        * cbn [map app w_x w_y w_w w_h]. rewrite B. reflexivity.
      + destruct (res_concat (map F pcs)); discriminate. }
  destruct (G pieces rects) as [A B]; [|exact E|].
  - destruct PART as [INS _]. intros a b c d HI. specialize (INS a b c d HI). lia.
  - split; [exact A|]. exists pieces. split; assumption.
Qed.

(* F5: configuration 0 (compression level 0) emits control bytes the specification does not know *)
Theorem tight_level0_refuted :
  exists g payload, tight_subrect (mkTP 1 false false 0 0 0 0 false false false) 1 2 g = Some (TPayload payload) /\
    dec_tight (mkTF 1 false false 0 0 0) 1 2 payload = None.
Proof. exists [[6]; [125]], [160; 6; 125]. split; vm_compute; reflexivity. Qed.
