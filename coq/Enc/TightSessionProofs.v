(* C01 - Tight, the function the driver runs (send_tight_session): parameters derived from the
   client's pixel format and levels as the server derives them; the decoder's TPIXEL flag is the
   SPECIFICATION's (spec_tpixel3), not the encoder's own. *)
From Coq Require Import ZArith List Lia Bool Arith.
From LV Require Import Enc.EncBase Enc.EncBaseProofs Enc.Update Enc.Tight Enc.TightProofs Enc.TightSplit Enc.TightSplitProofs
     Enc.SplitProofs Dec.SpecBase Dec.SpecTight Gen.Consts_C01.
Import ListNotations.
Local Open Scope Z_scope.

(* the decoder's view of the client format, by the specification *)
Definition spec_tight_fmt (bypp : nat) (bpp depth be tc rmax gmax bmax rs gs bs : Z) : tight_fmt :=
  mkTF bypp (spec_tpixel3 bpp depth tc rmax gmax bmax) (negb (be =? 0)) rs gs bs.

(* the repaired test (strict) is the specification's; the unchanged one agrees with it on 32-bpp
   true-colour formats only *)
Lemma tight_pack24_strict_is_spec bpp depth tc rmax gmax bmax :
  tight_pack24 true bpp depth tc rmax gmax bmax = spec_tpixel3 bpp depth tc rmax gmax bmax.
Proof.
  unfold tight_pack24, spec_tpixel3.
  destruct (bpp =? 32), (depth =? 24), (tc =? 0), (rmax =? 255), (gmax =? 255), (bmax =? 255); reflexivity.
Qed.

Lemma tight_pack24_loose_is_spec depth tc rmax gmax bmax : tc <> 0 ->
  tight_pack24 false 32 depth tc rmax gmax bmax = spec_tpixel3 32 depth tc rmax gmax bmax.
Proof.
  intros T. unfold tight_pack24, spec_tpixel3. replace (tc =? 0) with false by (symmetry; apply Z.eqb_neq; assumption).
  change (32 =? 32) with true.
  destruct (depth =? 24), (rmax =? 255), (gmax =? 255), (bmax =? 255); reflexivity.
Qed.

Lemma tp_fmt_is_spec strict swapfix sbypp bypp bpp depth be tc rmax gmax bmax rs gs bs level quality :
  strict = true \/ (bpp = 32 /\ tc <> 0) ->
  tp_fmt (tight_params_of strict swapfix sbypp bypp bpp depth be tc rmax gmax bmax rs gs bs level quality) =
  spec_tight_fmt bypp bpp depth be tc rmax gmax bmax rs gs bs.
Proof.
  intros H. unfold tp_fmt, tight_params_of, spec_tight_fmt. cbn [tp_bypp tp_pack24 tp_be tp_rs tp_gs tp_bs]. f_equal.
  destruct H as [->|[-> T]]; [apply tight_pack24_strict_is_spec|].
  destruct strict; [apply tight_pack24_strict_is_spec|apply tight_pack24_loose_is_spec; assumption].
Qed.

(* F7: the unchanged test (no bpp / true-colour condition) sends 3-byte TPIXELs to an 8-bpp client
   that announces depth 24 and maxima 255; the specification's decoder expects 1-byte pixels *)
Theorem tight_pack24_narrow_refuted :
  exists g payload,
    tight_subrect (tight_params_of false false 1 1 8 24 0 1 255 255 255 0 0 0 1 (-1)) 1 1 g = Some (TPayload payload) /\
    dec_tight (spec_tight_fmt 1 8 24 0 1 255 255 255 0 0 0) 1 1 payload = None.
Proof. exists [[5]], [128; 5; 5; 5]. split; vm_compute; reflexivity. Qed.

(* F8: Pack24 assumes byte-aligned shifts when the client's byte order differs from the server's:
   32 bpp, depth 24, maxima 255, shifts 4/12/20, big endian *)
Theorem tight_pack24_be_unaligned_refuted :
  let p := mkTP 4 true true 4 12 20 1 false false false in
  exists pix, pix = grid_pixel_of_value true 4 (1 * 2 ^ 4 + 2 * 2 ^ 12 + 3 * 2 ^ 20) /\
              take_tpixel (tp_fmt p) (tpixel_bytes p pix) <> Some (pix, []).
Proof. eexists. split; [reflexivity|]. vm_compute. discriminate. Qed.

(* ------------------------------------------------------------------ the whole Tight rectangle as the driver sends it *)
(* the area of every piece sent as a fill rectangle is uniform on the translated screen: this is
   what the solid-area search (on the server framebuffer) is meant to guarantee; a hypothesis here;
   proved in TightUniform.v / TightSessionFull.v when scr is the pixel-wise translation of sfb *)
Definition solids_uniform (scr : list (list Z)) (pieces : list tpiece) : Prop :=
  forall x y w h d, In (Solid x y w h) pieces -> gget scr x y = Some d -> crop scr x y w h = mk_grid w h d.

(* what is sent for one piece: wire rectangles that decode and that partition the piece *)
Definition piece_sent (p : tight_params) (scr : list (list Z)) (pc : tpiece) (rs : list wrect) : Prop :=
  Forall (tight_rect_ok p scr) rs /\
  match pc with
  | Solid x y w h => map (fun r => (w_x r, w_y r, w_w r, w_h r)) rs = [(x, y, w, h)]
  | Simple x y w h =>
    exists sub, partitions w h sub /\
      map (fun r => (w_x r, w_y r, w_w r, w_h r)) rs = map (fun '(a, b, c, d) => ((x + a)%nat, (y + b)%nat, c, d)) sub
  end.

Lemma send_tight_pieces_ok W H scr p : wf_grid W H scr -> Forall (Forall (tpix_rt p)) scr -> conf_ok (tp_conf p) ->
  forall pieces rects,
  (forall a b c d, In (a, b, c, d) (geoms pieces) -> (a + c <= W /\ b + d <= H /\ 1 <= c /\ 1 <= d)%nat) ->
  solids_uniform scr pieces ->
  send_tight_pieces p scr pieces = Ok rects ->
  exists groups, Forall2 (piece_sent p scr) pieces groups /\ rects = concat groups.
Proof.
  intros WF RT CONF. induction pieces as [|pc pieces IH]; intros rects INS UNI E.
  - simpl in E. inversion E; subst. exists []. split; constructor.
  - unfold send_tight_pieces in E. cbn [map res_concat] in E. fold (send_tight_pieces p scr pieces) in E.
    assert (INS' : forall a b c d, In (a, b, c, d) (geoms pieces) -> (a + c <= W /\ b + d <= H /\ 1 <= c /\ 1 <= d)%nat).
    { intros a b c d HI. apply INS. right. exact HI. }
    assert (UNI' : solids_uniform scr pieces).
    { intros x y w h d HI. apply UNI. right. exact HI. }
    destruct pc as [x y w h|x y w h].
    + destruct (INS x y w h (or_introl eq_refl)) as (I1 & I2 & I3 & I4).
      destruct (send_tight p x y w h scr) as [ra| |] eqn:ST.
      * destruct (send_tight_pieces p scr pieces) as [rb| |] eqn:RB; try discriminate.
        inversion E; subst rects. clear E.
        destruct (IH rb INS' UNI' eq_refl) as (groups & F & ->).
        destruct (send_tight_ok W H scr p x y w h ra WF RT CONF I1 I2 I3 I4 ST) as (OK & sub & PART & GEO).
        exists (ra :: groups). split; [|reflexivity]. constructor; [|exact F]. split; [exact OK|]. exists sub. auto.
      * destruct (send_tight_pieces p scr pieces); discriminate.
      * discriminate.
    + destruct (INS x y w h (or_introl eq_refl)) as (I1 & I2 & I3 & I4).
      destruct (gget scr x y) as [d|] eqn:G; [|discriminate].
      destruct (send_tight_pieces p scr pieces) as [rb| |] eqn:RB; try discriminate.
      inversion E; subst rects. clear E.
      destruct (IH rb INS' UNI' eq_refl) as (groups & F & ->).
      exists ([mkW x y w h c_encTight (128 :: tpixel_bytes p d)] :: groups). split; [|reflexivity].
      constructor; [|exact F]. split; [|reflexivity].
      constructor; [|constructor]. split; [reflexivity|]. right. cbn [w_w w_h w_x w_y w_payload].
      unfold dec_tight. change (128 / 16 =? 8) with true. cbn iota.
      assert (RD : tpix_rt p d).
      { assert (IN : In d (concat scr)) by (eapply HextileProofs.in_concat_gget; eauto).
        apply in_concat in IN. destruct IN as (r & IR & ID). rewrite Forall_forall in RT. specialize (RT r IR).
        rewrite Forall_forall in RT. auto. }
      rewrite <- (app_nil_r (tpixel_bytes p d)), RD. cbn [all_consumed]. f_equal. symmetry.
      apply (UNI x y w h d); [left; reflexivity|exact G].
Qed.

(* C01_tight_session_partial: the function the driver runs.  Either no LastRect: SendRectSimple;
   or LastRect: the pieces of the solid-area search partition the request (proved), every piece is
   sent as rectangles that partition it and decode (fill rectangles: under solids_uniform). *)
Theorem send_tight_session_ok strict swapfix sbypp bypp bpp depth be tc rmax gmax bmax rs gs bs level quality lastrect
        W H x y w h scr sfb rects :
  let p := tight_params_of strict swapfix sbypp bypp bpp depth be tc rmax gmax bmax rs gs bs level quality in
  wf_grid W H scr -> Forall (Forall (tpix_rt p)) scr -> conf_ok (tp_conf p) ->
  (x + w <= W)%nat -> (y + h <= H)%nat -> (1 <= w)%nat -> (1 <= h)%nat ->
  (forall pieces, tight_split (S (w * h)) sfb x y w h = Some pieces -> solids_uniform scr pieces) ->
  send_tight_session strict swapfix sbypp bypp bpp depth be tc rmax gmax bmax rs gs bs level quality lastrect x y w h scr sfb = Ok rects ->
  exists pieces groups, part_abs x y w h (geoms pieces) /\ Forall2 (piece_sent p scr) pieces groups /\ rects = concat groups.
Proof.
  intros p WF RT CONF HX HY HW HH UNI E. unfold send_tight_session in E. fold p in E. destruct lastrect.
  - destruct (tight_split (S (w * h)) sfb x y w h) as [pieces|] eqn:TS; [|discriminate].
    pose proof (tight_split_cover sfb _ x y w h pieces HW HH TS) as PA.
    destruct (send_tight_pieces_ok W H scr p WF RT CONF pieces rects) as (groups & F & EQ); auto.
    + intros a b c d HI. destruct PA as (INS & _ & _). specialize (INS a b c d HI). lia.
    + exists pieces, groups. auto.
  - exists [Simple x y w h], [rects]. split; [apply part_single; assumption|]. split; [|simpl; rewrite app_nil_r; reflexivity].
    constructor; [|constructor].
    destruct (send_tight_ok W H scr p x y w h rects WF RT CONF HX HY HW HH E) as (OK & sub & PART & GEO).
    split; [exact OK|]. exists sub. auto.
Qed.
