(* C01 - the Tight wire layer (tight.c: CompressData, rfbSendCompressedDataTight; RFB 7.7.6 on the client
   side): what follows the rectangle header on the socket.  The compression-control byte carries the stream
   id (bits 4-5) and the stream-reset bits (bits 0-3; this server never sets them, the specification's
   client honours them); fill rectangles are never compressed; the data part (after control byte, filter
   id and palette) is sent as it is when shorter than TIGHT_MIN_TO_COMPRESS = 12 bytes, otherwise as
   compact length (1-3 bytes, 7+7+8 bits) ++ output of the zlib stream [stream id], whose state persists for
   the connection; a change of the compression level (deflateParams) keeps that state: the level is
   an argument of [compress], the state is threaded.  zlib is an oracle (Section variables). *)
From Coq Require Import ZArith List Lia Bool Arith.
From LV Require Import Enc.EncBase Enc.Update Enc.Tight Enc.TightProofs Enc.TightSplit Dec.SpecBase Dec.SpecTight Gen.Consts_C01.
Import ListNotations.
Local Open Scope Z_scope.

Definition st4 (A : Type) : Type := (A * A * A * A)%type.
Definition get4 {A} (s : st4 A) (i : Z) : A :=
  let '(a, b, c, d) := s in if i =? 0 then a else if i =? 1 then b else if i =? 2 then c else d.
Definition set4 {A} (s : st4 A) (i : Z) (v : A) : st4 A :=
  let '(a, b, c, d) := s in
  if i =? 0 then (v, b, c, d) else if i =? 1 then (a, v, c, d) else if i =? 2 then (a, b, v, d) else (a, b, c, v).

(* rfbSendCompressedDataTight: len & 0x7F [| 0x80], len >> 7 & 0x7F [| 0x80], len >> 14 & 0xFF *)
Definition compact_len (n : Z) : list Z :=
  if n <? 128 then [n]
  else if n <? 16384 then [n mod 128 + 128; n / 128]
  else [n mod 128 + 128; (n / 128) mod 128 + 128; n / 16384].

Definition take_compact_len (bs : list Z) : option (Z * list Z) :=
  match bs with
  | [] => None
  | b0 :: r0 =>
    if b0 <? 128 then Some (b0, r0)
    else match r0 with
         | [] => None
         | b1 :: r1 =>
           if b1 <? 128 then Some (b0 - 128 + 128 * b1, r1)
           else match r1 with
                | [] => None
                | b2 :: r2 => Some (b0 - 128 + 128 * (b1 - 128) + 16384 * b2, r2)
                end
         end
  end.

(* bytes of one TPIXEL *)
Definition tsize (f : tight_fmt) : nat := if tf_tp3 f then 3%nat else tf_bypp f.

(* control byte, filter id, palette | rest | number of data bytes the rectangle has before compression *)
Definition tw_header (f : tight_fmt) (w h : nat) (bs : list Z) : option (list Z * list Z * nat) :=
  match bs with
  | [] => None
  | ctl :: r0 =>
    if Z.testbit (ctl / 16) 2 then
      match r0 with
      | [] => None
      | filter :: r1 =>
        if filter =? 1 then
          match r1 with
          | [] => None
          | nc1 :: r2 =>
            match take (Z.to_nat (nc1 + 1) * tsize f) r2 with
            | Some (pal, r3) =>
              Some (ctl :: filter :: nc1 :: pal, r3,
                    if nc1 + 1 <=? 2 then (Z.to_nat ((Z.of_nat w * 1 + 7) / 8) * h)%nat else (w * h)%nat)
            | None => None
            end
          end
        else if filter =? 0 then Some ([ctl; filter], r1, (w * h * tsize f)%nat)
        else None
      end
    else Some ([ctl], r0, (w * h * tsize f)%nat)
  end.

(* zlib level of a stream: tightConf rawZlibLevel (stream 0), monoZlibLevel (1), idxZlibLevel (2) *)
Definition stream_level (p : tight_params) (sid : Z) : Z :=
  match conf_field (tp_conf p) (if sid =? 0 then 3 else if sid =? 1 then 2 else 1) with Some l => l | None => 0 end.

Section Wire.
  Variables cstate dstate : Type.
  Variable compress : Z -> cstate -> list Z -> list Z * cstate.        (* level, state, data *)
  Variable decompress : dstate -> list Z -> option (list Z * dstate).
  Variable dinit : dstate.                                              (* a fresh inflate stream *)

  (* server: the pre-compression payload of a Tight rectangle (Tight.v) -> bytes on the wire.
     None = CompressData returns FALSE (output does not fit the 22-bit length) *)
  Definition tight_wire (p : tight_params) (w h : nat) (cs : st4 cstate) (pl : list Z) : option (list Z * st4 cstate) :=
    match pl with
    | [] => None
    | ctl :: _ =>
      if 8 <=? ctl / 16 then Some (pl, cs)                 (* fill (JPEG): nothing goes through zlib *)
      else
        match tw_header (tp_fmt p) w h pl with
        | None => None
        | Some (hdr, data, _) =>
          if Z.of_nat (length data) <? c_TIGHT_MIN_TO_COMPRESS then Some (pl, cs)
          else
            let sid := (ctl / 16) mod 4 in
            let cd := fst (compress (stream_level p sid) (get4 cs sid) data) in
            let c' := snd (compress (stream_level p sid) (get4 cs sid) data) in
            if Z.of_nat (length cd) <? 4194304 then Some (hdr ++ compact_len (Z.of_nat (length cd)) ++ cd, set4 cs sid c')
            else None
        end
    end.

  (* client, by the specification *)
  Definition apply_resets (ds : st4 dstate) (bits : Z) : st4 dstate :=
    let '(a, b, c, d) := ds in
    (if Z.testbit bits 0 then dinit else a, if Z.testbit bits 1 then dinit else b,
     if Z.testbit bits 2 then dinit else c, if Z.testbit bits 3 then dinit else d).

  Definition dec_tight_wire (f : tight_fmt) (w h : nat) (ds : st4 dstate) (wire : list Z) : option (grid * st4 dstate) :=
    match wire with
    | [] => None
    | ctl :: _ =>
      let ds1 := apply_resets ds (ctl mod 16) in
      if 8 <=? ctl / 16 then do g <- dec_tight f w h wire; Some (g, ds1)
      else
        match tw_header f w h wire with
        | None => None
        | Some (hdr, rest, n) =>
          if Z.of_nat n <? 12 then do g <- dec_tight f w h wire; Some (g, ds1)
          else
            match take_compact_len rest with
            | None => None
            | Some (len, cd) =>
              if negb (Z.of_nat (length cd) =? len) then None
              else
                let sid := (ctl / 16) mod 4 in
                match decompress (get4 ds1 sid) cd with
                | None => None
                | Some (data, d') =>
                  if negb (Nat.eqb (length data) n) then None
                  else do g <- dec_tight f w h (hdr ++ data); Some (g, set4 ds1 sid d')
                end
            end
        end
    end.

  (* one update: the rectangles in order through the four streams *)
  Fixpoint tight_wire_rects (p : tight_params) (cs : st4 cstate) (rs : list wrect) : option (list wrect * st4 cstate) :=
    match rs with
    | [] => Some ([], cs)
    | r :: t =>
      do (pl, cs1) <- tight_wire p (w_w r) (w_h r) cs (w_payload r);
      do (t', cs2) <- tight_wire_rects p cs1 t;
      Some (mkW (w_x r) (w_y r) (w_w r) (w_h r) (w_enc r) pl :: t', cs2)
    end.

  Fixpoint tight_unwire_rects (f : tight_fmt) (ds : st4 dstate) (rs : list wrect) : option (list grid * st4 dstate) :=
    match rs with
    | [] => Some ([], ds)
    | r :: t =>
      do (g, ds1) <- dec_tight_wire f (w_w r) (w_h r) ds (w_payload r);
      do (gs, ds2) <- tight_unwire_rects f ds1 t;
      Some (g :: gs, ds2)
    end.
End Wire.

(* SendRectEncodingTight for given parameters (= the body of send_tight_session) *)
Definition tight_update (p : tight_params) (lastrect : bool) (x y w h : nat) (scr sfb : grid) : res (list wrect) :=
  if lastrect then
    match tight_split (S (w * h)) sfb x y w h with
    | Some pieces => send_tight_pieces p scr pieces
    | None => Err
    end
  else send_tight p x y w h scr.
