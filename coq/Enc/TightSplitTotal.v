(* C01 - the fuel S (w * h) of tight_split is adequate: the solid-area recursion of the mirror of
   SendRectEncodingTight always returns (every recursive call is on a strictly smaller area) *)
From Coq Require Import ZArith List Lia Bool Arith.
From LV Require Import Enc.EncBase Enc.EncBaseProofs Enc.Update Enc.Tight Enc.TightSplit Enc.TightSplitProofs Gen.Consts_C01.
Import ListNotations.

Section Total.
  Variable sfb : list (list Z).
  Variable rec : nat -> nat -> nat -> nat -> option (list tpiece).
  Variable A : nat.
  Hypothesis rec_tot : forall x y w h, 1 <= w -> 1 <= h -> w * h < A -> exists ps, rec x y w h = Some ps.

  Lemma on_solid_total x w y h dx dy c :
    1 <= w -> 1 <= h -> x <= dx < x + w -> y <= dy < y + h -> w * h <= A ->
    on_solid rec sfb x w y h dx dy c <> Some None.
  Proof.
    intros Hw Hh Hdx Hdy HA. unfold on_solid.
    destruct (fbsa _ sfb dx dy (w - (dx - x)) (h - (dy - y)) c (w - (dx - x)) 0 0) as [wb hb] eqn:FB.
    apply fbsa_bound in FB; try lia.
    2:{ apply Forall_forall. intros v Hv. apply starts_from_range in Hv. lia. }
    destruct FB as [WB HB].
    destruct split_consts as (_ & K2048 & _). rewrite K2048.
    destruct (negb (wb * hb =? w * h) && (Z.of_nat (wb * hb) <? 2048)%Z) eqn:CONT; [discriminate|].
    assert (POS : 1 <= wb /\ 1 <= hb).
    { apply andb_false_iff in CONT. destruct CONT as [C|C].
      - apply negb_false_iff, Nat.eqb_eq in C. nia.
      - apply Z.ltb_ge in C. nia. }
    destruct (extend_area sfb x y w h c dx dy wb hb) as [[[xb yb] wb'] hb'] eqn:EX.
    apply extend_area_bound in EX; try lia. destruct EX as (X1 & X2 & Y1 & Y2 & W1 & H1).
    assert (L : exists l, (if xb =? x then Some [] else rec x yb (xb - x) hb') = Some l).
    { destruct (xb =? x) eqn:Q; [eauto|apply Nat.eqb_neq in Q]. apply rec_tot; try lia. nia. }
    assert (R : exists r, (if xb + wb' =? x + w then Some [] else rec (xb + wb') yb (w - (xb - x) - wb') hb') = Some r).
    { destruct (xb + wb' =? x + w) eqn:Q; [eauto|apply Nat.eqb_neq in Q]. apply rec_tot; try lia. nia. }
    assert (B : exists b, (if yb + hb' =? y + h then Some [] else rec x (yb + hb') w (h - (yb - y) - hb')) = Some b).
    { destruct (yb + hb' =? y + h) eqn:Q; [eauto|apply Nat.eqb_neq in Q]. apply rec_tot; try lia. nia. }
    destruct L as (l & ->). destruct R as (r & ->). destruct B as (b & ->). cbn [opt_app]. discriminate.
  Qed.

  Lemma scan_dx_total x w y h dy dh : forall dxs,
    1 <= w -> 1 <= h -> y <= dy < y + h -> w * h <= A -> Forall (fun dx => x <= dx < x + w) dxs ->
    scan_dx rec sfb x w dxs y h dy dh <> Some None.
  Proof.
    induction dxs as [|dx rest IH]; intros Hw Hh Hdy HA F; simpl; [discriminate|].
    apply Forall_cons_iff in F. destruct F as [Fd Fr].
    destruct (solid_tile sfb dx dy _ dh None) as [c|]; [|auto].
    destruct (on_solid rec sfb x w y h dx dy c) as [o|] eqn:OS; [|auto].
    intros E. inversion E; subst o. revert OS. apply on_solid_total; auto.
  Qed.

  Lemma scan_dy_total x w yend nMaxRows : 1 <= w -> 1 <= nMaxRows -> forall dys y acc,
    y < yend -> w * (yend - y) <= A -> asc dys -> Forall (fun dy => y <= dy < yend) dys ->
    exists r, scan_dy rec sfb x w yend dys nMaxRows y acc = Some r.
  Proof.
    intros Hw HN. induction dys as [|dy rest IH]; intros y acc YE HA AS F; cbn [scan_dy]; [eauto|].
    apply Forall_cons_iff in F. destruct F as [Fd Fr]. destruct AS as [AS1 AS2].
    destruct (nMaxRows <=? dy - y) eqn:FL.
    - apply Nat.leb_le in FL.
      destruct (scan_dx rec sfb x w _ (y + nMaxRows) (yend - (y + nMaxRows)) dy _) as [o|] eqn:SD.
      + destruct o as [l|]; [cbn [opt_app]; eauto|].
        exfalso. revert SD.
        assert (Q1 : w * (yend - (y + nMaxRows)) <= A) by nia.
        apply scan_dx_total; try lia.
        apply Forall_forall. intros v Hv. apply starts_from_range in Hv. lia.
      + assert (Q1 : w * (yend - (y + nMaxRows)) <= A) by nia.
        apply IH; try lia; auto.
        apply Forall_forall. intros v Hv. rewrite Forall_forall in AS1, Fr. specialize (AS1 v Hv). specialize (Fr v Hv). lia.
    - destruct (scan_dx rec sfb x w _ y (yend - y) dy _) as [o|] eqn:SD.
      + destruct o as [l|]; [cbn [opt_app]; eauto|].
        exfalso. revert SD. apply scan_dx_total; try lia.
        apply Forall_forall. intros v Hv. apply starts_from_range in Hv. lia.
      + apply IH; try lia; auto.
  Qed.
End Total.

(* C01_tight_split_total: with fuel above the area the search returns its pieces; send_tight_session
   passes S (w * h) *)
Theorem tight_split_total sfb : forall fuel x y w h, 1 <= w -> 1 <= h -> w * h < fuel ->
  exists ps, tight_split fuel sfb x y w h = Some ps.
Proof.
  induction fuel as [|f IH]; intros x y w h Hw Hh HF; [lia|].
  cbn [tight_split]. destruct (Z.of_nat (w * h) <? c_MIN_SPLIT_RECT_SIZE)%Z; [eauto|].
  destruct split_consts as (_ & _ & _ & KW & KS). rewrite KW, KS.
  set (nMaxRows := Z.to_nat 65536 / (if Z.to_nat 2048 <? w then Z.to_nat 2048 else w)).
  assert (HN : 1 <= nMaxRows).
  { unfold nMaxRows. destruct (Z.to_nat 2048 <? w) eqn:Q; [apply Nat.ltb_lt in Q|apply Nat.ltb_ge in Q];
      apply Nat.div_str_pos; lia. }
  assert (RT : forall x y w0 h0, 1 <= w0 -> 1 <= h0 -> w0 * h0 < w * h -> exists ps, tight_split f sfb x y w0 h0 = Some ps).
  { intros x' y' w' h' H1 H2 H3. apply IH; lia. }
  apply (scan_dy_total sfb (tight_split f sfb) (w * h) RT x w (y + h) nMaxRows Hw HN).
  - lia.
  - replace (y + h - y) with h by lia. lia.
  - apply starts_from_asc.
  - apply Forall_forall. intros v Hv. apply starts_from_range in Hv. lia.
Qed.
