(* C01 - ZRLE: the mirror never gives up (zrle_tile / zrle_payload / send_zrle answer Some / Ok on
   every well-formed request) and what it emits are bytes. *)
From Coq Require Import ZArith List Lia Bool Arith.
From LV Require Import Enc.EncBase Enc.EncBaseProofs Enc.ZRLE Enc.ZRLEProofs1 Enc.ZRLEProofs2 Enc.ZRLEProofs3 Enc.ZRLEProofs4
     Enc.HextileProofs Enc.Update Enc.UpdateProofs Enc.BytesProofs Gen.Consts_C01.
Import ListNotations.
Local Open Scope Z_scope.

Lemma opt_concat_total {A B} (f : A -> option (list B)) : forall l,
  (forall a, In a l -> exists r, f a = Some r) -> exists r, opt_concat (map f l) = Some r.
Proof.
  induction l as [|a t IH]; intros H; simpl; [eauto|].
  destruct (H a (or_introl eq_refl)) as (ra & ->). destruct IH as (rt & ->); [intros; apply H; right; assumption|]. eauto.
Qed.

Lemma opt_concat_all {A B} (P : B -> Prop) (f : A -> option (list B)) : forall l r,
  (forall a ra, In a l -> f a = Some ra -> Forall P ra) -> opt_concat (map f l) = Some r -> Forall P r.
Proof.
  induction l as [|a t IH]; intros r H E; simpl in E.
  - inv_some E. constructor.
  - destruct (f a) as [ra|] eqn:FA; [|discriminate]. destruct (opt_concat (map f t)) as [rt|] eqn:RT; [|discriminate].
    inv_some E. apply Forall_app. split; [eapply H; eauto; left; reflexivity|].
    apply IH; auto. intros; eapply H; eauto. right; assumption.
Qed.

Lemma zrle_choose_total bo wh runs singles size : 1 <= size -> exists r, zrle_choose bo wh runs singles size = Some r.
Proof.
  intros S1. unfold zrle_choose.
  destruct ((bo + 1) * (runs + singles) <? wh * bo); destruct (size <? 128); eauto;
    destruct (bo * size + 2 * runs + singles <? _); destruct (size <? 17) eqn:S17; eauto; apply Z.ltb_lt in S17;
    (assert (NB : exists b, nth_z c_bitsPerPackedPixel (size - 1) = Some b);
     [destruct zrle_consts as (_ & _ & _ & KT); rewrite KT;
      assert (C : size = 1 \/ size = 2 \/ size = 3 \/ size = 4 \/ size = 5 \/ size = 6 \/ size = 7 \/ size = 8 \/ size = 9 \/
                  size = 10 \/ size = 11 \/ size = 12 \/ size = 13 \/ size = 14 \/ size = 15 \/ size = 16) by lia;
      repeat (destruct C as [-> | C]; [vm_compute; eauto|]); subst; vm_compute; eauto
     |destruct NB as (b & ->); destruct (bo * size + wh * b / 8 <? _); eauto]).
Qed.

Lemma pack_row_total bppp pal : forall r byte nbits, Forall (fun p => In p pal) r -> exists bs, pack_row bppp pal r byte nbits = Some bs.
Proof.
  induction r as [|p t IH]; intros byte nbits F; cbn [pack_row].
  - destruct (0 <? nbits); eauto.
  - apply Forall_cons_iff in F. destruct F as [Fp Ft]. destruct (pal_index_in pal p Fp) as (i & ->).
    destruct (8 <=? nbits + bppp); [destruct (IH ((byte * 2 ^ bppp + i) mod 256) 0 Ft) as (bs & ->); eauto|apply IH; assumption].
Qed.

(* ------------------------------------------------------------------ totality *)
Theorem zrle_tile_total bypp cmode b15 tw th t : (1 <= tw)%nat -> (1 <= th)%nat -> wf_grid tw th t ->
  exists bytes, zrle_tile bypp cmode b15 tw th t = Some bytes.
Proof.
  intros Htw Hth WF. unfold zrle_tile.
  set (data := concat t).
  destruct (group_runs_spec data) as [POS EXP].
  set (rs := group_runs data) in *.
  assert (LD : length data = (tw * th)%nat) by (apply concat_length_wf; assumption).
  assert (NE : data <> []) by (intros Z0; rewrite Z0 in LD; simpl in LD; nia).
  destruct (fold_left ph_insert (map fst rs) ([], 0)) as [pal size] eqn:PH.
  assert (PHS := ph_fold_spec (map fst rs) [] 0 pal size PH ltac:(intros; reflexivity)).
  destruct PHS as (S0 & SL & _ & COV).
  assert (S1 : 1 <= size).
  { destruct rs as [|[p0 n0] rs'] eqn:RS.
    - unfold expand in EXP. simpl in EXP. congruence.
    - cbn [map fst fold_left] in PH. unfold ph_insert at 2 in PH. destruct zrle_consts as (KP & _). rewrite KP in PH.
      cbn [Z.ltb Z.compare pal_index] in PH.
      apply ph_fold_spec in PH; [lia|intros; reflexivity]. }
  assert (INPAL : size < 128 -> forall d, In d data -> In d pal).
  { intros S d D. apply COV; [exact S|]. apply in_expand_fst. rewrite EXP. exact D. }
  destruct (size =? 1) eqn:SZ1.
  - apply Z.eqb_eq in SZ1. subst size. specialize (SL ltac:(lia)). destruct pal; [simpl in SL; lia|eauto].
  - destruct (zrle_choose_total (cpixel_size bypp cmode) (Z.of_nat (tw * th))
                (Z.of_nat (length (filter (fun r => negb (snd r =? 1)) rs)))
                (Z.of_nat (length (filter (fun r => snd r =? 1) rs))) size S1) as ([[useRle usePal] bppp] & CH).
    rewrite CH. destruct (zrle_choose_spec _ _ _ _ _ _ _ _ CH) as [UP1 _].
    destruct useRle.
    + destruct (opt_concat_total (zrle_rle_run bypp cmode usePal pal) rs) as (body & ->); [|eauto].
      intros [pix len] IN. unfold zrle_rle_run. destruct usePal; [|eauto].
      destruct (pal_index_in pal pix) as (i & ->).
      { apply INPAL; [auto|]. apply group_runs_colours. apply in_map_iff. exists (pix, len). auto. }
      destruct (len <=? 2); eauto.
    + destruct usePal; [|eauto].
      destruct (opt_concat_total (fun r => pack_row bppp pal r 0 0) t) as (body & ->); [|eauto].
      intros r IR. apply pack_row_total. apply Forall_forall. intros p IP. apply INPAL; [auto|].
      unfold data. apply in_concat. eauto.
Qed.

Theorem zrle_payload_total bypp cmode b15 w h g : wf_grid w h g -> exists p, zrle_payload bypp cmode b15 w h g = Some p.
Proof.
  intros WF. unfold zrle_payload. destruct zrle_consts as (_ & KW & KH & _). rewrite KW, KH.
  apply opt_concat_total. intros [[[x y] tw] th] IN. apply tiles_inside in IN.
  destruct IN as (I1 & I2 & _ & _ & I5 & I6).
  apply zrle_tile_total; [apply I5; vm_compute; lia|apply I6; vm_compute; lia|apply (wf_crop w h); assumption].
Qed.

(* ------------------------------------------------------------------ bytes *)
Lemma cpixel_bytes_ok bypp cmode p : bytes_ok (cpixel_bytes bypp cmode p).
Proof.
  pose proof (le_bytes_ok 4 p) as B4. unfold bytes_ok in *.
  destruct cmode as [|[|[|c]]]; cbn [cpixel_bytes]; try apply le_bytes_ok.
  - apply Forall_forall. intros d Hd. apply In_firstn in Hd. rewrite Forall_forall in B4. auto.
  - apply Forall_forall. intros d Hd. apply In_skipn in Hd. rewrite Forall_forall in B4. auto.
Qed.

Lemma run_len_bytes_bytes : forall f l, 0 <= l < 255 * (Z.of_nat f + 1) -> bytes_ok (run_len_bytes f l).
Proof.
  induction f as [|f IH]; intros l H; cbn [run_len_bytes].
  - constructor; [unfold byte_ok; lia|constructor].
  - destruct (255 <=? l) eqn:E; [apply Z.leb_le in E|apply Z.leb_gt in E].
    + constructor; [unfold byte_ok; lia|apply IH; lia].
    + constructor; [unfold byte_ok; lia|constructor].
Qed.

Lemma run_len_bytes_run len : 1 <= len -> bytes_ok (run_len_bytes (Z.to_nat (len / 255)) (len - 1)).
Proof.
  intros H. apply run_len_bytes_bytes. rewrite Z2Nat.id by (apply Z.div_pos; lia).
  pose proof (Z.mod_pos_bound len 255 ltac:(lia)). pose proof (Z.div_mod len 255 ltac:(lia)). lia.
Qed.

Lemma pack_row_bytes bppp pal : forall r byte nbits bs, pack_row bppp pal r byte nbits = Some bs -> bytes_ok bs.
Proof.
  induction r as [|p t IH]; intros byte nbits bs E; cbn [pack_row] in E.
  - destruct (0 <? nbits); inv_some E; [|constructor]. constructor; [apply Z.mod_pos_bound; lia|constructor].
  - destruct (pal_index pal p) as [i|]; [|discriminate].
    destruct (8 <=? nbits + bppp).
    + destruct (pack_row bppp pal t _ 0) as [b1|] eqn:R; [|discriminate]. inv_some E.
      constructor; [apply Z.mod_pos_bound; lia|eapply IH; eauto].
    + eapply IH; eauto.
Qed.

Theorem zrle_tile_bytes bypp cmode b15 tw th t bytes : zrle_tile bypp cmode b15 tw th t = Some bytes -> bytes_ok bytes.
Proof.
  unfold zrle_tile. set (data := concat t).
  destruct (group_runs_spec data) as [POS _].
  set (rs := group_runs data) in *.
  destruct (fold_left ph_insert (map fst rs) ([], 0)) as [pal size] eqn:PH.
  assert (PHS := ph_fold_spec (map fst rs) [] 0 pal size PH ltac:(intros; reflexivity)).
  destruct PHS as (S0 & SL & _ & _).
  assert (PALB : bytes_ok (flat_map (cpixel_bytes bypp cmode) pal)) by (apply bytes_ok_flat_map; intros; apply cpixel_bytes_ok).
  destruct (size =? 1).
  - destruct pal as [|p pal']; [discriminate|]. intros E. inv_some E.
    constructor; [unfold byte_ok; lia|apply cpixel_bytes_ok].
  - destruct (zrle_choose _ _ _ _ size) as [[[useRle usePal] bppp]|] eqn:CH; [|discriminate].
    destruct (zrle_choose_spec _ _ _ _ _ _ _ _ CH) as [UP1 _].
    assert (HDR : forall u : bool, byte_ok ((if u then 128 else 0) + (if usePal then size else 0))).
    { intros u. unfold byte_ok. destruct usePal; [specialize (UP1 eq_refl)|]; destruct u; lia. }
    assert (PB : bytes_ok (flat_map (cpixel_bytes bypp cmode) (if usePal then pal else []))).
    { destruct usePal; [exact PALB|constructor]. }
    destruct useRle.
    + destruct (opt_concat (map (zrle_rle_run bypp cmode usePal pal) rs)) as [body|] eqn:OC; [|discriminate].
      intros E. inv_some E. constructor; [exact (HDR true)|]. apply bytes_ok_app; [exact PB|].
      revert OC. apply opt_concat_all. intros [pix len] ra IN RR.
      rewrite Forall_forall in POS. pose proof (POS _ IN) as LEN. cbn [snd] in LEN.
      unfold zrle_rle_run in RR. destruct usePal.
      * specialize (UP1 eq_refl). specialize (SL ltac:(lia)).
        destruct (pal_index pal pix) as [idx|] eqn:PI; [|discriminate].
        apply pal_index_spec in PI. destruct PI as [PI _].
        destruct (len <=? 2).
        -- inv_some RR. destruct (len =? 2); repeat constructor; lia.
        -- inv_some RR. constructor; [unfold byte_ok; lia|apply run_len_bytes_run; exact LEN].
      * inv_some RR. apply bytes_ok_app; [apply cpixel_bytes_ok|apply run_len_bytes_run; exact LEN].
    + destruct usePal.
      * destruct (opt_concat (map (fun r => pack_row bppp pal r 0 0) t)) as [body|] eqn:OC; [|discriminate].
        intros E. inv_some E. constructor; [exact (HDR false)|]. apply bytes_ok_app; [exact PB|].
        revert OC. apply opt_concat_all. intros r ra _ PR. eapply pack_row_bytes; eauto.
      * intros E. inv_some E. constructor; [exact (HDR false)|]. apply bytes_ok_app; [exact PB|].
        assert (RAW : bytes_ok (flat_map (fun r => flat_map (cpixel_bytes bypp cmode) r) t)).
        { apply bytes_ok_flat_map. intros. apply bytes_ok_flat_map. intros. apply cpixel_bytes_ok. }
        destruct b15; [|exact RAW]. apply Forall_forall. intros d Hd. apply In_firstn in Hd.
        unfold bytes_ok in RAW. rewrite Forall_forall in RAW. auto.
Qed.

Theorem zrle_payload_bytes bypp cmode b15 w h g p : zrle_payload bypp cmode b15 w h g = Some p -> bytes_ok p.
Proof.
  unfold zrle_payload. apply opt_concat_all. intros [[[x y] tw] th] ra _ E. eapply zrle_tile_bytes; eauto.
Qed.

(* send_rect with encoding ZRLE *)
Theorem send_zrle_total W H scr bypp cmode b15 x y w h : wf_grid W H scr -> (x + w <= W)%nat -> (y + h <= H)%nat ->
  exists rects, send_zrle bypp cmode b15 x y w h scr = Ok rects.
Proof.
  intros WF HX HY. unfold send_zrle.
  destruct (zrle_payload_total bypp cmode b15 w h (crop scr x y w h)) as (p & ->); [apply (wf_crop W H); assumption|eauto].
Qed.

Theorem send_zrle_bytes bypp cmode b15 x y w h scr rects : send_zrle bypp cmode b15 x y w h scr = Ok rects -> Forall pay_ok rects.
Proof.
  unfold send_zrle. destruct (zrle_payload _ _ _ _ _ _) as [p|] eqn:ZP; [|discriminate]. intros E. inv_ok E.
  constructor; [|constructor]. eapply zrle_payload_bytes; eauto.
Qed.
