(* C01 - send_rect, every encoding it handles (Raw, -1, RRE, CoRRE, Hextile, Zlib, Ultra, ZRLE): what it
   emits are bytes, and it answers Ok on every well-formed request whose line fits the update buffer. *)
From Coq Require Import ZArith List Lia Bool Arith.
From LV Require Import Enc.EncBase Enc.EncBaseProofs Enc.Update Enc.UpdateProofs Enc.BytesProofs Enc.TotalProofs Enc.ZRLETotal Gen.Consts_C01.
Import ListNotations.

Theorem send_rect_bytes_all W H scr p x y w h rects :
  wf_grid W H scr -> x + w <= W -> y + h <= H ->
  send_rect p x y w h scr = Ok rects -> Forall (fun r => bytes_ok (wire_bytes r)) rects.
Proof.
  intros WF HX HY E.
  assert (P : Forall pay_ok rects).
  { unfold send_rect in E. cbv zeta in E.
    destruct ((p_enc p =? c_encRaw) || (p_enc p =? -1))%Z; [eapply send_raw_bytes; eauto|].
    destruct (p_enc p =? c_encRRE)%Z; [eapply send_rre_bytes; eauto|].
    destruct (p_enc p =? c_encCoRRE)%Z; [eapply send_corre_bytes; eauto|].
    destruct (p_enc p =? c_encHextile)%Z; [eapply send_hextile_bytes; eauto|].
    destruct (p_enc p =? c_encZlib)%Z; [eapply send_zlib_bytes; eauto|].
    destruct (p_enc p =? c_encUltra)%Z; [eapply send_ultra_bytes; eauto|].
    destruct (p_enc p =? c_encZRLE)%Z; [eapply send_zrle_bytes; eauto|discriminate]. }
  eapply Forall_impl; [|exact P]. intros r. apply wire_bytes_ok.
Qed.

Theorem send_rect_total_all W H scr p x y w h :
  wf_grid W H scr -> x + w <= W -> y + h <= H -> 1 <= w -> 1 <= h -> 1 <= p_bypp p ->
  p_bypp p * w <= bufsize -> 1 <= p_mw p -> 1 <= p_mh p ->
  In (p_enc p) [c_encRaw; (-1)%Z; c_encRRE; c_encCoRRE; c_encHextile; c_encZlib; c_encUltra; c_encZRLE] ->
  exists rects, send_rect p x y w h scr = Ok rects.
Proof.
  intros WF HX HY Hw Hh BY HB MW MH IN. unfold send_rect. cbv zeta.
  destruct ((p_enc p =? c_encRaw) || (p_enc p =? -1))%Z eqn:B0; [eapply send_raw_total; eauto|].
  destruct (p_enc p =? c_encRRE)%Z eqn:B2; [eapply send_rre_total; eauto|].
  destruct (p_enc p =? c_encCoRRE)%Z eqn:B4; [eapply send_corre_total; eauto|].
  destruct (p_enc p =? c_encHextile)%Z eqn:B5; [eapply send_hextile_total; eauto|].
  destruct (p_enc p =? c_encZlib)%Z eqn:B6; [eapply send_zlib_total; eauto|].
  destruct (p_enc p =? c_encUltra)%Z eqn:B9; [unfold send_ultra; eauto|].
  destruct (p_enc p =? c_encZRLE)%Z eqn:B16; [eapply send_zrle_total; eauto|].
  exfalso. apply orb_false_iff in B0. destruct B0 as [B0 B1].
  apply Z.eqb_neq in B0, B1, B2, B4, B5, B6, B9, B16. simpl in IN. intuition congruence.
Qed.
