(* C01_stream_history - compression (zlib deflate/inflate with Z_SYNC_FLUSH, one persistent
   stream per connection for Zlib, one for ZRLE, four for Tight; LZO for Ultra) is external
   code: it appears here only as Section variables with an explicitly stated round-trip
   hypothesis (never an axiom).  Whatever sequence of payloads goes through the persistent
   compressor, the peer's persistent decompressor returns exactly these payloads, in order. *)
From Coq Require Import ZArith List Lia Bool Arith.
Import ListNotations.

Section Stream.
  Variables cstate dstate : Type.
  Variable compress : cstate -> list Z -> list Z * cstate.
  Variable decompress : dstate -> list Z -> option (list Z * dstate).
  Variable sync : cstate -> dstate -> Prop.
  (* only non-empty input: deflate with nothing to compress returns Z_BUF_ERROR *)
  Hypothesis round_trip : forall cs ds data, data <> [] -> sync cs ds ->
    exists ds', decompress ds (fst (compress cs data)) = Some (data, ds') /\ sync (snd (compress cs data)) ds'.

  Fixpoint comp_all (cs : cstate) (ps : list (list Z)) : list (list Z) :=
    match ps with
    | [] => []
    | p :: t => fst (compress cs p) :: comp_all (snd (compress cs p)) t
    end.

  Fixpoint decomp_all (ds : dstate) (zs : list (list Z)) : option (list (list Z)) :=
    match zs with
    | [] => Some []
    | z :: t =>
      match decompress ds z with
      | None => None
      | Some (p, ds') => match decomp_all ds' t with Some ps => Some (p :: ps) | None => None end
      end
    end.

  Theorem stream_history : forall ps cs ds, Forall (fun p => p <> []) ps -> sync cs ds ->
    decomp_all ds (comp_all cs ps) = Some ps.
  Proof.
    induction ps as [|p ps IH]; intros cs ds NE S; [reflexivity|].
    apply Forall_cons_iff in NE. destruct NE as [NP NT].
    cbn [comp_all decomp_all]. destruct (round_trip cs ds p NP S) as (ds' & D & S').
    rewrite D, (IH _ _ NT S'). reflexivity.
  Qed.
End Stream.

(* the hypothesis is satisfiable (the "stored" compressor), so the theorem is not vacuous *)
Example stream_history_nonvacuous :
  decomp_all unit (fun ds z => Some (z, ds)) tt (comp_all unit (fun cs p => (p, cs)) tt [[1%Z; 2%Z]; [7%Z]; [3%Z]])
  = Some [[1%Z; 2%Z]; [7%Z]; [3%Z]].
Proof.
  apply (stream_history unit unit (fun cs p => (p, cs)) (fun ds z => Some (z, ds)) (fun _ _ => True)); [| |exact I].
  - intros cs ds data _ _. exists ds. split; [reflexivity|exact I].
  - repeat constructor; discriminate.
Qed.
