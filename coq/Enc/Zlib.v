(* C01 - mirror of zlib.c / ultra.c up to the compressor call: the rectangle is cut into
   horizontal strips of at most ZLIB_MAX_SIZE(w)/w lines (ULTRA_MAX_SIZE for Ultra); a strip of
   fewer than VNC_ENCODE_ZLIB_MIN_COMP_SIZE bytes (counted with the *server's* bytes per pixel) is
   sent Raw (Zlib only); otherwise the translated strip goes through the per-connection
   compressor.  The compressors are oracles (see EncProofs.v), the model yields the
   pre-compression bytes. *)
From Coq Require Import ZArith List Lia Bool Arith.
From LV Require Import Enc.EncBase Gen.Consts_C01.
Import ListNotations.

(* ZLIB_MAX_SIZE(min) / ULTRA_MAX_SIZE(min) *)
Definition max_size (rect_size : Z) (w : nat) : nat :=
  if (rect_size <? Z.of_nat (w * 2))%Z then w * 2 else Z.to_nat rect_size.

(* while (linesRemaining > 0): (y, linesToComp) *)
Fixpoint split_rows (fuel maxl y h : nat) : list (nat * nat) :=
  match fuel with
  | O => []
  | S f =>
    if h =? 0 then []
    else let l := if maxl <? h then maxl else h in (y, l) :: split_rows f maxl (y + l) (h - l)
  end.

Definition strips (rect_size : Z) (y w h : nat) : list (nat * nat) :=
  split_rows h (max_size rect_size w / w) y h.
