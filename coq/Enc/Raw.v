(* C01 - mirror of rfbSendRectEncodingRaw (rfbserver.c): the rectangle header is put into the
   (just flushed) update buffer, then as many whole lines as fit are translated into the
   buffer, the buffer is flushed and the loop continues.  The model returns the chunks
   written to the socket one by one; the wire stream is their concatenation.
   [Fallback] stands for "rfbErr(send buffer too small) + rfbCloseClient". *)
From Coq Require Import ZArith List Lia Bool Arith.
From LV Require Import Enc.EncBase.
Import ListNotations.

(* lines : the translated lines of the rectangle (bytesPerLine bytes each)
   nlines: value of the C variable at loop entry;  cur: bytes already in updateBuf *)
Fixpoint raw_loop (fuel bufsize bpl nlines : nat) (cur : list Z) (lines : list (list Z))
  : res (list (list Z)) :=
  match fuel with
  | O => Err
  | S f =>
    let n := if length lines <? nlines then length lines else nlines in   (* if (nlines > h) nlines = h *)
    let buf := cur ++ concat (firstn n lines) in
    match skipn n lines with
    | [] => Ok [buf]                                                       (* h == 0: return TRUE *)
    | rest =>
      let nl := bufsize / bpl in                                           (* after rfbSendUpdateBuf: ublen = 0 *)
      if nl =? 0 then Fallback
      else match raw_loop f bufsize bpl nl [] rest with
           | Ok chunks => Ok (buf :: chunks)
           | Fallback => Fallback
           | Err => Err
           end
    end
  end.

(* header: the 12 bytes of the rectangle header; the caller guarantees w, h >= 1
   (the C function returns immediately when w or h is 0) *)
Definition raw_send (bufsize bypp : nat) (header : list Z) (g : grid) : res (list (list Z)) :=
  let lines := map (row_bytes bypp) g in
  let bpl := bypp * length (hd [] g) in
  raw_loop (S (length g)) bufsize bpl ((bufsize - length header) / bpl) header lines.
