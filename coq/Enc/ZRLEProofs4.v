(* C01_zrle_tile - all five sub-encodings; then the rectangle.  The tile theorem is stated for
   the correct template instances (b15 = false); the BPP = 15 instance is refuted (finding F1). *)
From Coq Require Import ZArith List Lia Bool Arith Znumtheory.
From LV Require Import Enc.EncBase Enc.EncBaseProofs Enc.ZRLE Enc.ZRLEProofs1 Enc.ZRLEProofs2 Enc.ZRLEProofs3
     Enc.RawRREProofs Enc.HextileProofs Dec.SpecBase Dec.SpecZRLE Gen.Consts_C01.
Import ListNotations.
Local Open Scope Z_scope.

Ltac inv_some E :=
  match type of E with
  | Some ?a = Some ?b => let Q := fresh "Q" in assert (Q : b = a) by congruence; subst b; clear E
  end.

Lemma opt_concat_cons {A} (a : list A) l r :
  opt_concat (Some a :: l) = Some r -> exists b, opt_concat l = Some b /\ r = a ++ b.
Proof. simpl. destruct (opt_concat l) as [b|]; [|discriminate]. intros H; inversion H. eauto. Qed.

Definition run_ok (bypp cmode : nat) (r : Z * Z) : Prop := 1 <= snd r /\ cpix_ok bypp cmode (fst r).

Lemma expand_cons p n rs : expand ((p, n) :: rs) = repeat p (Z.to_nat n) ++ expand rs.
Proof. reflexivity. Qed.

(* ------------------------------------------------------------------ plain RLE *)
Lemma dec_plain_rle_app bypp cmode : forall rs fuel body rest,
  Forall (run_ok bypp cmode) rs ->
  opt_concat (map (zrle_rle_run bypp cmode false []) rs) = Some body ->
  (length (expand rs) <= fuel)%nat ->
  dec_plain_rle fuel bypp cmode (Z.of_nat (length (expand rs))) (body ++ rest) = Some (expand rs, rest).
Proof.
  induction rs as [|[p n] rs IH]; intros fuel body rest F E L.
  - simpl in E. inversion E; subst. destruct fuel; reflexivity.
  - apply Forall_cons_iff in F. destruct F as [[N1 CP] F]. cbn [fst snd] in N1, CP.
    cbn [map] in E. unfold zrle_rle_run at 1 in E.
    apply opt_concat_cons in E. destruct E as (b & E & ->).
    rewrite expand_cons in *. rewrite app_length, repeat_length in *.
    destruct fuel as [|f]; [lia|]. cbn [dec_plain_rle].
    replace (Z.of_nat (Z.to_nat n + length (expand rs)) =? 0) with false by (symmetry; apply Z.eqb_neq; lia).
    rewrite <- !app_assoc. rewrite take_cpixel_app by assumption.
    rewrite run_len_bytes_ok by assumption. cbn [Z.add].
    replace (Z.of_nat (Z.to_nat n + length (expand rs)) <? n) with false by (symmetry; apply Z.ltb_ge; lia).
    replace (Z.of_nat (Z.to_nat n + length (expand rs)) - n) with (Z.of_nat (length (expand rs))) by lia.
    rewrite (IH f b rest F E) by lia. reflexivity.
Qed.

(* ------------------------------------------------------------------ palette RLE *)
Lemma dec_pal_rle_single f pal rem idx p bs :
  0 <= idx < 128 -> nth_zs pal idx = Some p -> 1 <= rem ->
  dec_pal_rle (S f) pal rem (idx :: bs) =
  (do (rest0, r3) <- dec_pal_rle f pal (rem - 1) bs; Some (p :: rest0, r3)).
Proof.
  intros I N R. cbn [dec_pal_rle].
  replace (rem =? 0) with false by (symmetry; apply Z.eqb_neq; lia).
  replace (idx <? 128) with true by (symmetry; apply Z.ltb_lt; lia). rewrite N.
  replace (rem <? 1) with false by (symmetry; apply Z.ltb_ge; lia). reflexivity.
Qed.

Lemma dec_pal_rle_run f pal rem idx p n tail :
  0 <= idx < 128 -> nth_zs pal idx = Some p -> 1 <= n <= rem ->
  dec_pal_rle (S f) pal rem ((idx + 128) :: run_len_bytes (Z.to_nat (n / 255)) (n - 1) ++ tail) =
  (do (rest0, r3) <- dec_pal_rle f pal (rem - n) tail; Some (repeat p (Z.to_nat n) ++ rest0, r3)).
Proof.
  intros I N R. cbn [dec_pal_rle].
  replace (rem =? 0) with false by (symmetry; apply Z.eqb_neq; lia).
  replace (idx + 128 <? 128) with false by (symmetry; apply Z.ltb_ge; lia).
  rewrite run_len_bytes_ok by lia. cbn [Z.add].
  replace (idx + 128 - 128) with idx by lia. rewrite N.
  replace (rem <? n) with false by (symmetry; apply Z.ltb_ge; lia). reflexivity.
Qed.

Lemma dec_pal_rle_app bypp cmode pal : (Z.of_nat (length pal) <= 127) -> forall rs fuel body rest,
  Forall (fun r => 1 <= snd r) rs ->
  opt_concat (map (zrle_rle_run bypp cmode true pal) rs) = Some body ->
  (length (expand rs) <= fuel)%nat ->
  dec_pal_rle fuel pal (Z.of_nat (length (expand rs))) (body ++ rest) = Some (expand rs, rest).
Proof.
  intros LP. induction rs as [|[p n] rs IH]; intros fuel body rest F E L.
  - simpl in E. inversion E; subst. destruct fuel; reflexivity.
  - apply Forall_cons_iff in F. destruct F as [N1 F]. cbn [snd] in N1.
    cbn [map] in E. unfold zrle_rle_run at 1 in E.
    destruct (pal_index pal p) as [idx|] eqn:PI; [|discriminate].
    destruct (pal_index_spec pal p idx PI) as [IR NZ].
    rewrite expand_cons in *. rewrite app_length, repeat_length in *.
    destruct (n <=? 2) eqn:N2.
    + apply opt_concat_cons in E. destruct E as (b & E & ->).
      apply Z.leb_le in N2. destruct (n =? 2) eqn:E2.
      * (* two single pixels *)
        apply Z.eqb_eq in E2. subst n. change (Z.to_nat 2) with 2%nat in *. cbn [repeat app] in *.
        destruct fuel as [|[|f]]; [lia|lia|]. cbn [app].
        rewrite (dec_pal_rle_single _ pal _ idx p) by (auto; lia).
        rewrite (dec_pal_rle_single _ pal _ idx p) by (auto; lia).
        replace (Z.of_nat (2 + length (expand rs)) - 1 - 1) with (Z.of_nat (length (expand rs))) by lia.
        rewrite (IH f b rest F E) by lia. reflexivity.
      * apply Z.eqb_neq in E2. assert (n = 1) by lia. subst n. change (Z.to_nat 1) with 1%nat in *. cbn [repeat app] in *.
        destruct fuel as [|f]; [lia|]. cbn [app].
        rewrite (dec_pal_rle_single _ pal _ idx p) by (auto; lia).
        replace (Z.of_nat (1 + length (expand rs)) - 1) with (Z.of_nat (length (expand rs))) by lia.
        rewrite (IH f b rest F E) by lia. reflexivity.
    + apply opt_concat_cons in E. destruct E as (b & E & ->).
      apply Z.leb_gt in N2.
      destruct fuel as [|f]; [lia|]. cbn [app]. rewrite <- app_assoc.
      rewrite (dec_pal_rle_run _ pal _ idx p n) by (auto; lia).
      replace (Z.of_nat (Z.to_nat n + length (expand rs)) - n) with (Z.of_nat (length (expand rs))) by lia.
      rewrite (IH f b rest F E) by lia. reflexivity.
Qed.

(* ------------------------------------------------------------------ rows *)
Lemma rows_of_concat w h (t : list (list Z)) : wf_grid w h t -> rows_of w h (concat t) = Some t.
Proof.
  intros [L F]. subst h. induction F as [|r t Hr _ IH]; [reflexivity|].
  cbn [length rows_of concat]. pose proof (take_app r (concat t)) as T. rewrite Hr in T. rewrite T, IH. reflexivity.
Qed.

Lemma flat_map_concat {A B} (f : A -> list B) (t : list (list A)) :
  flat_map (fun r => flat_map f r) t = flat_map f (concat t).
Proof. induction t; simpl; [reflexivity|]. rewrite flat_map_app, IHt. reflexivity. Qed.

Lemma concat_length_wf w h (t : list (list Z)) : wf_grid w h t -> length (concat t) = (w * h)%nat.
Proof.
  intros [L F]. subst h. induction F as [|r t Hr _ IH]; [simpl; lia|]. simpl. rewrite app_length, IH, Hr. lia.
Qed.

Lemma dec_packed_rows_app bppp m pal : 1 <= bppp -> bppp * Z.of_nat m = 8 -> Z.of_nat (length pal) <= 2 ^ bppp ->
  forall w (t : list (list Z)) body rest,
  Forall (fun r => length r = w) t -> Forall (Forall (fun p => In p pal)) t ->
  opt_concat (map (fun r => pack_row bppp pal r 0 0) t) = Some body ->
  dec_packed_rows bppp w pal (length t) (body ++ rest) = Some (t, rest).
Proof.
  intros Hb Hm HP w. induction t as [|r t IH]; intros body rest FW FI E.
  - simpl in E. inversion E; subst. reflexivity.
  - apply Forall_cons_iff in FW. destruct FW as [LR FW]. apply Forall_cons_iff in FI. destruct FI as [IR FI].
    cbn [map] in E. destruct (pack_row bppp pal r 0 0) as [out|] eqn:PR; [|discriminate].
    apply opt_concat_cons in E. destruct E as (b & E & ->).
    destruct (packed_row_roundtrip bppp m pal r out (b ++ rest) Hb Hm HP PR IR) as [TK UP].
    cbn [length dec_packed_rows]. rewrite <- app_assoc. rewrite <- LR. rewrite TK, UP.
    rewrite LR. rewrite (IH b rest FW FI E). reflexivity.
Qed.

(* ------------------------------------------------------------------ the choice *)
Lemma zrle_choose_spec bo wh runs singles size useRle usePal bppp :
  zrle_choose bo wh runs singles size = Some (useRle, usePal, bppp) ->
  (usePal = true -> size < 128) /\
  (usePal = true -> useRle = false -> size < 17 /\ nth_z c_bitsPerPackedPixel (size - 1) = Some bppp).
Proof.
  unfold zrle_choose.
  destruct ((bo + 1) * (runs + singles) <? wh * bo);
    destruct (size <? 128) eqn:S128; try apply Z.ltb_lt in S128;
    try (destruct (bo * size + 2 * runs + singles <? _));
    try (destruct (size <? 17) eqn:S17; try apply Z.ltb_lt in S17);
    try (destruct (nth_z c_bitsPerPackedPixel (size - 1)) as [bp|] eqn:NB; [|discriminate]);
    try (destruct (bo * size + wh * bp / 8 <? _));
    intros H; inversion H; subst; split; intros; try discriminate; try lia; auto.
Qed.

Lemma packed_bits size bppp : 2 <= size < 17 -> nth_z c_bitsPerPackedPixel (size - 1) = Some bppp ->
  bppp = (if size =? 2 then 1 else if size <=? 4 then 2 else 4) /\ size <= 2 ^ bppp.
Proof.
  intros R H. destruct zrle_consts as (_ & _ & _ & KT). rewrite KT in H.
  assert (C : size = 2 \/ size = 3 \/ size = 4 \/ size = 5 \/ size = 6 \/ size = 7 \/ size = 8 \/ size = 9 \/
              size = 10 \/ size = 11 \/ size = 12 \/ size = 13 \/ size = 14 \/ size = 15 \/ size = 16) by lia.
  repeat (destruct C as [-> | C]; [vm_compute in H; inversion H; subst; split; [reflexivity|vm_compute; discriminate]|]).
  subst. vm_compute in H. inversion H; subst. split; [reflexivity|vm_compute; discriminate].
Qed.

Lemma dec_zrle_tile_unfold bypp cmode tw th sub r0 :
  dec_zrle_tile bypp cmode tw th (sub :: r0) =
    let n := (tw * th)%nat in
    if sub =? 0 then
      do (ps, r) <- take_cpixels bypp cmode n r0; do g <- rows_of tw th ps; Some (g, r)
    else if sub =? 1 then
      do (p, r) <- take_cpixel bypp cmode r0; Some (mk_grid tw th p, r)
    else if sub <=? 16 then
      do (pal, r1) <- take_cpixels bypp cmode (Z.to_nat sub) r0;
      let bppp := if sub =? 2 then 1 else if sub <=? 4 then 2 else 4 in
      dec_packed_rows bppp tw pal th r1
    else if sub =? 128 then
      do (ps, r) <- dec_plain_rle n bypp cmode (Z.of_nat n) r0; do g <- rows_of tw th ps; Some (g, r)
    else if 130 <=? sub then
      do (pal, r1) <- take_cpixels bypp cmode (Z.to_nat (sub - 128)) r0;
      do (ps, r) <- dec_pal_rle n pal (Z.of_nat n) r1; do g <- rows_of tw th ps; Some (g, r)
    else None.
Proof. reflexivity. Qed.

Lemma in_expand_fst rs d : In d (expand rs) -> In d (map fst rs).
Proof.
  unfold expand. intros H. apply in_flat_map in H. destruct H as (r & IN & H).
  apply repeat_spec in H. subst. apply in_map. assumption.
Qed.

(* C01_zrle_tile *)
Theorem zrle_tile_roundtrip bypp cmode tw th t bytes rest :
  (1 <= tw)%nat -> (1 <= th)%nat -> wf_grid tw th t -> Forall (Forall (cpix_ok bypp cmode)) t ->
  zrle_tile bypp cmode false tw th t = Some bytes ->
  dec_zrle_tile bypp cmode tw th (bytes ++ rest) = Some (t, rest).
Proof.
  intros Htw Hth WF CP E. unfold zrle_tile in E.
  set (data := concat t) in *.
  destruct (group_runs_spec data) as [POS EXP].
  set (rs := group_runs data) in *.
  assert (LD : length data = (tw * th)%nat) by (apply concat_length_wf; assumption).
  assert (CPD : Forall (cpix_ok bypp cmode) data).
  { unfold data. clear - CP. induction CP; simpl; [constructor|]. apply Forall_app; split; assumption. }
  assert (NE : data <> []).
  { intros Z0. rewrite Z0 in LD. simpl in LD. nia. }
  destruct (fold_left ph_insert (map fst rs) ([], 0)) as [pal size] eqn:PH.
  assert (PHS := ph_fold_spec (map fst rs) [] 0 pal size PH ltac:(intros; reflexivity)).
  destruct PHS as (S0 & SL & _ & COV).
  (* every colour of the palette is a pixel of the tile *)
  assert (PALSUB : forall c, In c pal -> In c data).
  { assert (G : forall cols p0 s0 p1 s1, fold_left ph_insert cols (p0, s0) = (p1, s1) ->
                forall c, In c p1 -> In c p0 \/ In c cols).
    { induction cols as [|c0 cols IHc]; intros p0 s0 p1 s1 FE c IC.
      - simpl in FE. inversion FE; subst. auto.
      - cbn [fold_left] in FE. unfold ph_insert at 2 in FE.
        destruct (s0 <? c_zrlePaletteMax); [destruct (pal_index p0 c0)|];
          apply IHc with (c := c) in FE; auto; destruct FE as [X|X]; auto; try (right; right; assumption).
        apply in_app_or in X. destruct X as [X|[X|[]]]; [auto|subst; right; left; reflexivity]. }
    intros c IC. destruct (G _ _ _ _ _ PH c IC) as [[]|X]. apply group_runs_colours. exact X. }
  assert (CPP : Forall (cpix_ok bypp cmode) pal).
  { apply Forall_forall. intros c IC. rewrite Forall_forall in CPD. auto. }
  (* at least one colour *)
  assert (S1 : 1 <= size).
  { destruct rs as [|[p0 n0] rs'] eqn:RS.
    - unfold expand in EXP. simpl in EXP. congruence.
    - cbn [map fst fold_left] in PH. unfold ph_insert at 2 in PH. destruct zrle_consts as (KP & _). rewrite KP in PH.
      cbn [Z.ltb Z.compare pal_index] in PH.
      apply ph_fold_spec in PH; [lia|intros; reflexivity]. }
  assert (RUNS : Forall (run_ok bypp cmode) rs).
  { apply Forall_forall. intros [p n] IN. rewrite Forall_forall in POS. split; [apply (POS _ IN)|].
    cbn [fst]. rewrite Forall_forall in CPD. apply CPD. apply group_runs_colours. apply in_map_iff. exists (p, n). auto. }
  assert (EXPL : length (expand rs) = (tw * th)%nat) by (rewrite EXP; exact LD).
  destruct (size =? 1) eqn:SZ1.
  - (* solid *)
    apply Z.eqb_eq in SZ1. subst size.
    destruct pal as [|p pal']; [discriminate|]. inv_some E.
    assert (pal' = []).
    { specialize (SL ltac:(lia)). cbn [length] in SL. destruct pal'; [reflexivity|simpl in SL; lia]. }
    subst pal'.
    cbn [app]. rewrite dec_zrle_tile_unfold. cbv zeta.
    change (1 =? 0) with false. change (1 =? 1) with true. cbn iota.
    apply Forall_cons_iff in CPP. destruct CPP as [CPp _].
    rewrite take_cpixel_app by assumption. f_equal. f_equal. symmetry.
    apply solid_grid; [assumption|]. apply Forall_forall. intros d D.
    assert (ID : In d [p]); [|destruct ID as [->|[]]; reflexivity].
    apply COV; [lia|]. apply in_expand_fst. rewrite EXP. exact D.
  - apply Z.eqb_neq in SZ1.
    destruct (zrle_choose _ _ _ _ size) as [[[useRle usePal] bppp]|] eqn:CH; [|discriminate].
    destruct (zrle_choose_spec _ _ _ _ _ _ _ _ CH) as [UP1 UP2].
    destruct useRle.
    + (* RLE *)
      destruct (opt_concat (map (zrle_rle_run bypp cmode usePal pal) rs)) as [body|] eqn:OC; [|discriminate].
      inv_some E. destruct usePal.
      * (* palette RLE *)
        specialize (UP1 eq_refl). specialize (SL ltac:(lia)).
        cbn [app]. rewrite dec_zrle_tile_unfold. cbv zeta.
        replace (128 + size =? 0) with false by (symmetry; apply Z.eqb_neq; lia).
        replace (128 + size =? 1) with false by (symmetry; apply Z.eqb_neq; lia).
        replace (128 + size <=? 16) with false by (symmetry; apply Z.leb_gt; lia).
        replace (128 + size =? 128) with false by (symmetry; apply Z.eqb_neq; lia).
        replace (130 <=? 128 + size) with true by (symmetry; apply Z.leb_le; lia).
        replace (Z.to_nat (128 + size - 128)) with (length pal) by lia.
        rewrite <- app_assoc. rewrite take_cpixels_app by assumption.
        assert (LP : Z.of_nat (length pal) <= 127) by lia.
        pose proof (dec_pal_rle_app bypp cmode pal LP rs (tw * th)%nat body rest POS OC ltac:(lia)) as DP.
        rewrite EXPL in DP. rewrite DP.
        rewrite EXP. unfold data. rewrite rows_of_concat by assumption. reflexivity.
      * (* plain RLE *)
        cbn [app flat_map]. rewrite dec_zrle_tile_unfold. cbv zeta. cbn [Z.add Z.eqb Z.leb Z.compare Pos.compare Pos.compare_cont].
        assert (OC' : opt_concat (map (zrle_rle_run bypp cmode false []) rs) = Some body).
        { rewrite <- OC. apply f_equal. apply map_ext. intros [p n]. reflexivity. }
        pose proof (dec_plain_rle_app bypp cmode rs (tw * th)%nat body rest RUNS OC' ltac:(lia)) as DP.
        rewrite EXPL in DP. rewrite DP.
        rewrite EXP. unfold data. rewrite rows_of_concat by assumption. reflexivity.
    + destruct usePal.
      * (* packed palette *)
        destruct (UP2 eq_refl eq_refl) as [S17 NB]. specialize (UP1 eq_refl). specialize (SL ltac:(lia)).
        destruct (opt_concat (map (fun r => pack_row bppp pal r 0 0) t)) as [body|] eqn:OC; [|discriminate].
        inv_some E.
        destruct (packed_bits size bppp ltac:(lia) NB) as [BP PW].
        cbn [app]. rewrite dec_zrle_tile_unfold. cbv zeta.
        replace (0 + size =? 0) with false by (symmetry; apply Z.eqb_neq; lia).
        replace (0 + size =? 1) with false by (symmetry; apply Z.eqb_neq; lia).
        replace (0 + size <=? 16) with true by (symmetry; apply Z.leb_le; lia).
        replace (Z.to_nat (0 + size)) with (length pal) by lia.
        rewrite <- app_assoc. rewrite take_cpixels_app by assumption.
        replace (0 + size) with size by lia. rewrite <- BP.
        assert (HB : 1 <= bppp) by (rewrite BP; destruct (size =? 2); [lia|destruct (size <=? 4); lia]).
        assert (exists m, bppp * Z.of_nat m = 8) as [m HM].
        { rewrite BP. destruct (size =? 2); [exists 8%nat; reflexivity|].
          destruct (size <=? 4); [exists 4%nat|exists 2%nat]; reflexivity. }
        destruct WF as [LT FW]. rewrite <- LT.
        apply (dec_packed_rows_app bppp m pal HB HM ltac:(lia) tw t body rest FW); [|exact OC].
        apply Forall_forall. intros r IR. apply Forall_forall. intros p IP.
        apply COV; [lia|]. apply in_expand_fst. rewrite EXP. unfold data. apply in_concat. eauto.
      * (* raw *)
        inv_some E.
        cbn [app flat_map]. rewrite dec_zrle_tile_unfold. cbv zeta. cbn [Z.add Z.eqb].
        rewrite flat_map_concat. fold data. rewrite <- LD.
        rewrite take_cpixels_app by assumption. unfold data. rewrite rows_of_concat by assumption. reflexivity.
Qed.

(* ------------------------------------------------------------------ the whole rectangle *)
Lemma cpix_ok_crop bypp cmode g x y cw ch :
  Forall (Forall (cpix_ok bypp cmode)) g -> Forall (Forall (cpix_ok bypp cmode)) (crop g x y cw ch).
Proof.
  unfold crop. intros P. apply Forall_forall. intros r Hr.
  apply in_map_iff in Hr. destruct Hr as [r0 [<- Hr0]].
  apply In_firstn, In_skipn in Hr0. rewrite Forall_forall in P. specialize (P r0 Hr0).
  apply Forall_forall. intros p Hp. apply In_firstn, In_skipn in Hp. rewrite Forall_forall in P. auto.
Qed.

Lemma zrle_tiles_roundtrip bypp cmode w h g : forall ts bytes rest canvas,
  wf_grid w h g -> Forall (Forall (cpix_ok bypp cmode)) g -> wf_grid w h canvas ->
  (forall x y tw th, In (x, y, tw, th) ts -> (x + tw <= w /\ y + th <= h /\ 1 <= tw /\ 1 <= th)%nat) ->
  opt_concat (map (fun '(x, y, tw, th) => zrle_tile bypp cmode false tw th (crop g x y tw th)) ts) = Some bytes ->
  exists canvas', dec_zrle_tiles bypp cmode ts (bytes ++ rest) canvas = Some (canvas', rest) /\
    wf_grid w h canvas' /\
    forall i j, (i < w)%nat -> (j < h)%nat ->
      gget canvas' i j = if covered ts i j then gget g i j else gget canvas i j.
Proof.
  induction ts as [|[[[x y] tw] th] ts IH]; intros bytes rest canvas WF CP WC INS E.
  - simpl in E. inv_some E. exists canvas. simpl. auto.
  - cbn [map] in E.
    destruct (zrle_tile bypp cmode false tw th (crop g x y tw th)) as [bs|] eqn:T; [|discriminate].
    apply opt_concat_cons in E. destruct E as (more & E & ->).
    destruct (INS x y tw th (or_introl eq_refl)) as (BX & BY & TW & TH).
    assert (WT : wf_grid tw th (crop g x y tw th)) by (apply (wf_crop w h); auto).
    pose proof (zrle_tile_roundtrip bypp cmode tw th _ bs (more ++ rest) TW TH WT
                  (cpix_ok_crop bypp cmode g x y tw th CP) T) as D1.
    assert (WC1 : wf_grid w h (paste canvas x y (crop g x y tw th))) by (apply (wf_paste w h _ _ _ tw th); auto).
    destruct (IH more rest (paste canvas x y (crop g x y tw th)) WF CP WC1) as (c' & D2 & WC' & GET); auto.
    { intros a b c d H. apply INS. right; assumption. }
    exists c'. split; [|split; [assumption|]].
    + cbn [dec_zrle_tiles]. rewrite <- app_assoc, D1. exact D2.
    + intros i j Hi Hj. rewrite (GET i j Hi Hj). cbn [covered existsb in_tile].
      fold (covered ts i j). destruct (covered ts i j); [rewrite orb_true_r; reflexivity|].
      rewrite orb_false_r. rewrite (gget_paste w h canvas x y tw th) by auto.
      destruct (SubrectProofs.in_rect_dec x y tw th i j) as [[-> IN]|[-> _]]; [|reflexivity].
      rewrite gget_crop by lia. f_equal; lia.
Qed.

(* C01_zrle (rectangle), for the template instances other than BPP = 15 *)
Theorem zrle_roundtrip bypp cmode w h g payload canvas0 :
  wf_grid w h g -> Forall (Forall (cpix_ok bypp cmode)) g -> wf_grid w h canvas0 ->
  zrle_payload bypp cmode false w h g = Some payload -> dec_zrle_on canvas0 bypp cmode w h payload = Some g.
Proof.
  intros WF CP WC E. unfold zrle_payload in E.
  destruct zrle_consts as (_ & KW & KH & _). rewrite KW, KH in E. change (Z.to_nat 64) with 64%nat in E.
  destruct (zrle_tiles_roundtrip bypp cmode w h g (tiles w h 64 64) payload [] canvas0 WF CP WC) as (c' & D & WC' & GET); auto.
  - intros x y tw th H. apply tiles_inside in H. lia.
  - unfold dec_zrle_on. rewrite app_nil_r in D. rewrite D. cbn [all_consumed]. f_equal.
    apply (grid_ext w h); auto. intros i j Hi Hj. rewrite (GET i j Hi Hj).
    rewrite covered_tiles by (auto; lia). reflexivity.
Qed.

(* ------------------------------------------------------------------ the defects of the unchanged library *)
(* F1: template instance BPP = 15 (16-bpp client, greenMax <= 31): a raw tile is truncated *)
Theorem zrle_bpp15_refuted :
  exists t bytes, wf_grid 1 2 t /\ Forall (Forall (cpix_ok 2 0)) t /\
    zrle_tile 2 0 true 1 2 t = Some bytes /\ dec_zrle_tile 2 0 1 2 bytes = None.
Proof.
  exists [[19960]; [31323]], [0; 248; 77]. split; [|split; [|split]].
  - split; [reflexivity|]. repeat constructor.
  - repeat constructor; unfold pix_ok; simpl; lia.
  - vm_compute. reflexivity.
  - vm_compute. reflexivity.
Qed.

(* F2: 32 bpp, shifts 24/16/8, little endian: the server picks CPIXEL form "A" (drops the most
   significant byte) where the pixel's colour bits occupy the most significant 3 bytes *)
Theorem zrle_cmode_overflow_refuted :
  zrle_cmode 32 0 255 255 255 24 16 8 = 1%nat /\
  spec_cmode 32 24 0 1 255 255 255 24 16 8 = 2%nat /\
  exists p, pix_ok 4 p /\ take_cpixel 4 2 (cpixel_bytes 4 1 p) <> Some (p, []).
Proof.
  split; [reflexivity|]. split; [reflexivity|].
  exists 14942944. split; [unfold pix_ok; simpl; lia|]. vm_compute. discriminate.
Qed.

(* F3: depth > 24 is not looked at *)
Theorem zrle_cmode_depth_refuted :
  zrle_cmode 32 1 7 15 31 17 20 24 = 1%nat /\ spec_cmode 32 29 1 1 7 15 31 17 20 24 = 0%nat.
Proof. split; reflexivity. Qed.

(* on the usual formats the server's choice is the specification's *)
Example zrle_cmode_agrees_catalogue :
  forallb (fun f => match f with
                    | (bpp, depth, be, rmax, gmax, bmax, rs, gs, bs) =>
                      Nat.eqb (zrle_cmode bpp be rmax gmax bmax rs gs bs) (spec_cmode bpp depth be 1 rmax gmax bmax rs gs bs)
                    end)
          [(32, 24, 0, 255, 255, 255, 16, 8, 0); (32, 24, 1, 255, 255, 255, 16, 8, 0);
           (32, 24, 0, 255, 255, 255, 0, 8, 16); (32, 24, 1, 255, 255, 255, 0, 8, 16);
           (32, 24, 1, 255, 255, 255, 24, 16, 8); (32, 30, 0, 1023, 1023, 1023, 20, 10, 0);
           (16, 16, 0, 31, 63, 31, 11, 5, 0); (16, 15, 1, 31, 31, 31, 10, 5, 0); (8, 8, 0, 7, 7, 3, 0, 3, 6)] = true.
Proof. vm_compute. reflexivity. Qed.
