(* C01_tight_split_cover - whatever the solid-area search finds, the pieces emitted by the mirror
   of SendRectEncodingTight (LastRect path: flushed upper parts, top strip, left/right recursion,
   solid rectangle, bottom recursion) partition the requested rectangle exactly. *)
From Coq Require Import ZArith List Lia Bool Arith.
From LV Require Import Enc.EncBase Enc.EncBaseProofs Enc.Update Enc.Tight Enc.TightSplit Enc.SplitProofs Gen.Consts_C01.
Import ListNotations.

Lemma split_consts : c_MAX_SPLIT_TILE_SIZE = 16%Z /\ c_MIN_SOLID_SUBRECT_SIZE = 2048%Z /\ c_MIN_SPLIT_RECT_SIZE = 4096%Z /\
  c_TIGHT_MAX_RECT_WIDTH = 2048%Z /\ c_TIGHT_MAX_RECT_SIZE = 65536%Z.
Proof. repeat split; reflexivity. Qed.

(* pieces in absolute coordinates partition the rectangle (x, y, w, h) *)
Definition part_abs (x y w h : nat) (ps : list (nat * nat * nat * nat)) : Prop :=
  (forall a b c d, In (a, b, c, d) ps -> x <= a /\ a + c <= x + w /\ y <= b /\ b + d <= y + h /\ 1 <= c /\ 1 <= d) /\
  (forall i j, x <= i < x + w -> y <= j < y + h -> exists p, In p ps /\ inside_piece p i j) /\
  (forall p q i j, In p ps -> In q ps -> inside_piece p i j -> inside_piece q i j -> p = q).

Lemma part_single x y w h : 1 <= w -> 1 <= h -> part_abs x y w h [(x, y, w, h)].
Proof.
  intros Hw Hh. split; [|split].
  - intros a b c d [Q|[]]. inversion Q; subst. lia.
  - intros i j Hi Hj. exists (x, y, w, h). split; [left; reflexivity|]. simpl. lia.
  - intros p q i j [<-|[]] [<-|[]] _ _. reflexivity.
Qed.

Lemma part_empty x y w h : w = 0 \/ h = 0 -> part_abs x y w h [].
Proof.
  intros E. split; [|split]; [intros a b c d []| |intros p q i j []].
  intros i j Hi Hj. lia.
Qed.

Lemma part_hcut x y w h1 h2 P1 P2 :
  part_abs x y w h1 P1 -> part_abs x (y + h1) w h2 P2 -> part_abs x y w (h1 + h2) (P1 ++ P2).
Proof.
  intros (I1 & C1 & U1) (I2 & C2 & U2). split; [|split].
  - intros a b c d H. apply in_app_or in H. destruct H as [H|H]; [specialize (I1 _ _ _ _ H)|specialize (I2 _ _ _ _ H)]; lia.
  - intros i j Hi Hj. destruct (Nat.lt_ge_cases j (y + h1)) as [L|G].
    + destruct (C1 i j Hi ltac:(lia)) as (p & IP & PP). exists p. split; [apply in_or_app; auto|assumption].
    + destruct (C2 i j Hi ltac:(lia)) as (p & IP & PP). exists p. split; [apply in_or_app; auto|assumption].
  - intros [[[a b] c] d] [[[a' b'] c'] d'] i j Hp Hq Ip Iq. apply in_app_or in Hp, Hq. simpl in Ip, Iq.
    destruct Hp as [Hp|Hp], Hq as [Hq|Hq].
    + eapply U1; eauto.
    + specialize (I1 _ _ _ _ Hp). specialize (I2 _ _ _ _ Hq). lia.
    + specialize (I2 _ _ _ _ Hp). specialize (I1 _ _ _ _ Hq). lia.
    + eapply U2; eauto.
Qed.

Lemma part_vcut x y w1 w2 h P1 P2 :
  part_abs x y w1 h P1 -> part_abs (x + w1) y w2 h P2 -> part_abs x y (w1 + w2) h (P1 ++ P2).
Proof.
  intros (I1 & C1 & U1) (I2 & C2 & U2). split; [|split].
  - intros a b c d H. apply in_app_or in H. destruct H as [H|H]; [specialize (I1 _ _ _ _ H)|specialize (I2 _ _ _ _ H)]; lia.
  - intros i j Hi Hj. destruct (Nat.lt_ge_cases i (x + w1)) as [L|G].
    + destruct (C1 i j ltac:(lia) Hj) as (p & IP & PP). exists p. split; [apply in_or_app; auto|assumption].
    + destruct (C2 i j ltac:(lia) Hj) as (p & IP & PP). exists p. split; [apply in_or_app; auto|assumption].
  - intros [[[a b] c] d] [[[a' b'] c'] d'] i j Hp Hq Ip Iq. apply in_app_or in Hp, Hq. simpl in Ip, Iq.
    destruct Hp as [Hp|Hp], Hq as [Hq|Hq].
    + eapply U1; eauto.
    + specialize (I1 _ _ _ _ Hp). specialize (I2 _ _ _ _ Hq). lia.
    + specialize (I2 _ _ _ _ Hp). specialize (I1 _ _ _ _ Hq). lia.
    + eapply U2; eauto.
Qed.

(* ------------------------------------------------------------------ bounds of the search *)
Lemma count_while_le n f : forall i, count_while n f i <= n.
Proof. induction n; intros i; simpl; [lia|]. destruct (f i); [specialize (IHn (S i))|]; lia. Qed.

Lemma fbsa_row_bound sfb x dy dh wprev c : forall fuel dx, dx <= x + wprev ->
  fbsa_row fuel sfb x dy dh wprev dx c <= x + wprev.
Proof.
  induction fuel as [|f IH]; intros dx H; simpl; [assumption|].
  destruct (dx <? x + wprev) eqn:E; [|assumption]. apply Nat.ltb_lt in E.
  destruct (is_solid sfb dx dy _ dh c); [|assumption]. apply IH.
  destruct (dx + tsz <=? x + wprev) eqn:E2; [apply Nat.leb_le in E2|]; lia.
Qed.

Lemma fbsa_bound sfb x y w h c : forall rows wprev wbest hbest wb hb,
  wprev <= w -> wbest <= w -> hbest <= h -> Forall (fun dy => y <= dy < y + h) rows ->
  fbsa rows sfb x y w h c wprev wbest hbest = (wb, hb) -> wb <= w /\ hb <= h.
Proof.
  induction rows as [|dy rest IH]; intros wprev wbest hbest wb hb H1 H2 H3 F E; simpl in E.
  - inversion E; subst. auto.
  - apply Forall_cons_iff in F. destruct F as [Fd Fr].
    set (dh := if dy + tsz <=? y + h then tsz else y + h - dy) in *.
    set (dw := if tsz <? wprev then tsz else wprev) in *.
    assert (DH : dy + dh <= y + h).
    { unfold dh. destruct (dy + tsz <=? y + h) eqn:Q; [apply Nat.leb_le in Q|]; lia. }
    assert (DW : dw <= wprev) by (unfold dw; destruct (tsz <? wprev) eqn:Q; [apply Nat.ltb_lt in Q|]; lia).
    destruct (is_solid sfb x dy dw dh c); [|inversion E; subst; auto].
    pose proof (fbsa_row_bound sfb x dy dh wprev c w (x + dw) ltac:(lia)) as RB.
    set (dx := fbsa_row w sfb x dy dh wprev (x + dw) c) in *.
    destruct (wbest * hbest <? (dx - x) * (dy + dh - y)); eapply IH in E; eauto; lia.
Qed.

Lemma extend_area_bound sfb x y w h c xb yb wb hb xb' yb' wb' hb' :
  x <= xb -> xb + wb <= x + w -> y <= yb -> yb + hb <= y + h ->
  extend_area sfb x y w h c xb yb wb hb = (xb', yb', wb', hb') ->
  x <= xb' /\ xb' + wb' <= x + w /\ y <= yb' /\ yb' + hb' <= y + h /\ wb <= wb' /\ hb <= hb'.
Proof.
  intros A B C D E. unfold extend_area in E.
  set (up := count_while (yb - y) _ 0) in *.
  pose proof (count_while_le (yb - y) (fun i => is_solid sfb xb (yb - 1 - i) wb 1 c) 0) as U. fold up in U.
  set (down := count_while (y + h - (yb - up + (hb + up))) _ 0) in *.
  pose proof (count_while_le (y + h - (yb - up + (hb + up))) (fun i => is_solid sfb xb (yb - up + (hb + up) + i) wb 1 c) 0) as Dn. fold down in Dn.
  set (left := count_while (xb - x) _ 0) in *.
  pose proof (count_while_le (xb - x) (fun i => is_solid sfb (xb - 1 - i) (yb - up) 1 (hb + up + down) c) 0) as L. fold left in L.
  set (right := count_while (x + w - (xb - left + (wb + left))) _ 0) in *.
  pose proof (count_while_le (x + w - (xb - left + (wb + left)))
                (fun i => is_solid sfb (xb - left + (wb + left) + i) (yb - up) 1 (hb + up + down) c) 0) as R. fold right in R.
  inversion E; subst. lia.
Qed.

Lemma starts_from_range : forall fuel s n step v, In v (starts_from fuel s n step) -> s <= v < n.
Proof. intros. apply starts_from_spec in H. lia. Qed.

(* ascending lists *)
Fixpoint asc (l : list nat) : Prop := match l with [] => True | a :: t => Forall (fun b => a <= b) t /\ asc t end.

Lemma starts_from_asc : forall fuel s n step, asc (starts_from fuel s n step).
Proof.
  induction fuel as [|f IH]; intros s n step; simpl; [exact I|].
  destruct (s <? n); [|exact I]. split; [|apply IH].
  apply Forall_forall. intros b Hb. apply starts_from_spec in Hb. lia.
Qed.

(* ------------------------------------------------------------------ the recursion *)
Definition geoms (ps : list tpiece) := map tpiece_geom ps.

Section Cover.
  Variable sfb : list (list Z).
  Variable rec : nat -> nat -> nat -> nat -> option (list tpiece).
  Hypothesis rec_ok : forall x y w h ps, 1 <= w -> 1 <= h -> rec x y w h = Some ps -> part_abs x y w h (geoms ps).

  Lemma opt_app_some {A} (a b : option (list A)) r : opt_app a b = Some r -> exists x y, a = Some x /\ b = Some y /\ r = x ++ y.
  Proof. destruct a, b; simpl; intros H; inversion H; eauto. Qed.

  Lemma on_solid_cover x w y h dx dy c r :
    1 <= w -> 1 <= h -> x <= dx < x + w -> y <= dy < y + h ->
    on_solid rec sfb x w y h dx dy c = Some (Some r) -> part_abs x y w h (geoms r).
  Proof.
    intros Hw Hh Hdx Hdy E. unfold on_solid in E.
    destruct (fbsa _ sfb dx dy (w - (dx - x)) (h - (dy - y)) c (w - (dx - x)) 0 0) as [wb hb] eqn:FB.
    apply fbsa_bound in FB; try lia.
    2:{ apply Forall_forall. intros v Hv. apply starts_from_range in Hv. lia. }
    destruct FB as [WB HB].
    destruct split_consts as (_ & K2048 & _). rewrite K2048 in E.
    destruct (negb (wb * hb =? w * h) && (Z.of_nat (wb * hb) <? 2048)%Z) eqn:CONT; [discriminate|].
    assert (POS : 1 <= wb /\ 1 <= hb).
    { apply andb_false_iff in CONT. destruct CONT as [C|C].
      - apply negb_false_iff, Nat.eqb_eq in C. nia.
      - apply Z.ltb_ge in C. nia. }
    destruct (extend_area sfb x y w h c dx dy wb hb) as [[[xb yb] wb'] hb'] eqn:EX.
    apply extend_area_bound in EX; try lia. destruct EX as (X1 & X2 & Y1 & Y2 & W1 & H1).
    injection E as E'.
    match type of E' with match ?X with Some _ => _ | None => None end = _ => destruct X as [r1|] eqn:E1; [|discriminate] end.
    injection E' as E'. subst r.
    apply opt_app_some in E1. destruct E1 as (left & r2 & EL & E2 & ->).
    match type of E2 with match ?X with Some _ => _ | None => None end = _ => destruct X as [r3|] eqn:E3; [|discriminate] end.
    injection E2 as E2. subst r2.
    apply opt_app_some in E3. destruct E3 as (right & bottom & ER & EB & ->).
    change (Solid xb yb wb' hb' :: right ++ bottom) with ([Solid xb yb wb' hb'] ++ right ++ bottom).
    unfold geoms. rewrite !map_app. fold (geoms left) (geoms right) (geoms bottom).
    (* top strip *)
    assert (PT : part_abs x y w (yb - y) (map tpiece_geom (if yb =? y then [] else [Simple x y w (yb - y)]))).
    { destruct (yb =? y) eqn:Q; [apply Nat.eqb_eq in Q; apply part_empty; lia|apply Nat.eqb_neq in Q].
      apply part_single; lia. }
    (* the band of height hb' : left, solid, right *)
    assert (PL : part_abs x yb (xb - x) hb' (geoms left)).
    { destruct (xb =? x) eqn:Q; [apply Nat.eqb_eq in Q; inversion EL; subst; apply part_empty; lia|apply Nat.eqb_neq in Q].
      apply rec_ok; auto; lia. }
    assert (PS : part_abs xb yb wb' hb' [(xb, yb, wb', hb')]) by (apply part_single; lia).
    assert (PR : part_abs (xb + wb') yb (w - (xb - x) - wb') hb' (geoms right)).
    { destruct (xb + wb' =? x + w) eqn:Q; [apply Nat.eqb_eq in Q; inversion ER; subst; apply part_empty; lia|apply Nat.eqb_neq in Q].
      apply rec_ok; auto; lia. }
    assert (PB : part_abs x (yb + hb') w (h - (yb - y) - hb') (geoms bottom)).
    { destruct (yb + hb' =? y + h) eqn:Q; [apply Nat.eqb_eq in Q; inversion EB; subst; apply part_empty; lia|apply Nat.eqb_neq in Q].
      apply rec_ok; auto; lia. }
    assert (BAND : part_abs x yb w hb' (geoms left ++ [(xb, yb, wb', hb')] ++ geoms right)).
    { replace w with ((xb - x) + (wb' + (w - (xb - x) - wb'))) at 1 by lia.
      apply part_vcut; [exact PL|]. replace (x + (xb - x)) with xb by lia.
      apply part_vcut; assumption. }
    replace h with ((yb - y) + (hb' + (h - (yb - y) - hb'))) by lia.
    apply part_hcut; [exact PT|]. replace (y + (yb - y)) with yb by lia.
    cbn [map tpiece_geom].
    replace (geoms left ++ [(xb, yb, wb', hb')] ++ geoms right ++ geoms bottom)
      with ((geoms left ++ [(xb, yb, wb', hb')] ++ geoms right) ++ geoms bottom) by (rewrite <- !app_assoc; reflexivity).
    apply part_hcut; [exact BAND|exact PB].
  Qed.

  Lemma scan_dx_cover x w y h dy dh r : forall dxs,
    1 <= w -> 1 <= h -> y <= dy < y + h -> Forall (fun dx => x <= dx < x + w) dxs ->
    scan_dx rec sfb x w dxs y h dy dh = Some (Some r) -> part_abs x y w h (geoms r).
  Proof.
    induction dxs as [|dx rest IH]; intros Hw Hh Hdy F E; simpl in E; [discriminate|].
    apply Forall_cons_iff in F. destruct F as [Fd Fr].
    destruct (solid_tile sfb dx dy _ dh None) as [c|]; [|auto].
    destruct (on_solid rec sfb x w y h dx dy c) as [o|] eqn:OS; [|auto].
    inversion E; subst o. eapply on_solid_cover; eauto.
  Qed.

  Lemma scan_dy_cover x w y0 yend nMaxRows : 1 <= w -> 1 <= nMaxRows -> forall dys y acc r,
    y0 <= y -> y < yend -> asc dys -> Forall (fun dy => y <= dy < yend) dys ->
    part_abs x y0 w (y - y0) (geoms acc) ->
    scan_dy rec sfb x w yend dys nMaxRows y acc = Some r -> part_abs x y0 w (yend - y0) (geoms r).
  Proof.
    intros Hw HN. induction dys as [|dy rest IH]; intros y acc r Y0 YE AS F PA E; cbn [scan_dy] in E.
    - inversion E; subst r. unfold geoms. rewrite map_app. cbn [map tpiece_geom].
      replace (yend - y0) with ((y - y0) + (yend - y)) by lia. apply part_hcut; [exact PA|].
      replace (y0 + (y - y0)) with y by lia. apply part_single; lia.
    - apply Forall_cons_iff in F. destruct F as [Fd Fr]. destruct AS as [AS1 AS2].
      destruct (nMaxRows <=? dy - y) eqn:FL.
      + apply Nat.leb_le in FL.
        assert (PA1 : part_abs x y0 w (y + nMaxRows - y0) (geoms (acc ++ [Simple x y w nMaxRows]))).
        { unfold geoms. rewrite map_app. cbn [map tpiece_geom].
          replace (y + nMaxRows - y0) with ((y - y0) + nMaxRows) by lia. apply part_hcut; [exact PA|].
          replace (y0 + (y - y0)) with y by lia. apply part_single; lia. }
        destruct (scan_dx rec sfb x w _ (y + nMaxRows) (yend - (y + nMaxRows)) dy _) as [o|] eqn:SD.
        * apply opt_app_some in E. destruct E as (a & b & EA & EB & ->). inversion EA; subst a. subst o.
          apply scan_dx_cover in SD; try lia.
          2:{ apply Forall_forall. intros v Hv. apply starts_from_range in Hv. lia. }
          unfold geoms. rewrite map_app. fold (geoms b).
          replace (yend - y0) with ((y + nMaxRows - y0) + (yend - (y + nMaxRows))) by lia.
          apply part_hcut; [exact PA1|]. replace (y0 + (y + nMaxRows - y0)) with (y + nMaxRows) by lia. exact SD.
        * eapply IH; [| | | |exact PA1|exact E]; try lia; auto.
          apply Forall_forall. intros v Hv. rewrite Forall_forall in AS1, Fr. specialize (AS1 v Hv). specialize (Fr v Hv). lia.
      + destruct (scan_dx rec sfb x w _ y (yend - y) dy _) as [o|] eqn:SD.
        * apply opt_app_some in E. destruct E as (a & b & EA & EB & ->). inversion EA; subst a. subst o.
          apply scan_dx_cover in SD; try lia.
          2:{ apply Forall_forall. intros v Hv. apply starts_from_range in Hv. lia. }
          unfold geoms. rewrite map_app. fold (geoms b).
          replace (yend - y0) with ((y - y0) + (yend - y)) by lia.
          apply part_hcut; [exact PA|]. replace (y0 + (y - y0)) with y by lia. exact SD.
        * eapply IH; [| | | |exact PA|exact E]; try lia; auto.
  Qed.
End Cover.

(* C01_tight_split_cover *)
Theorem tight_split_cover sfb : forall fuel x y w h ps, 1 <= w -> 1 <= h ->
  tight_split fuel sfb x y w h = Some ps -> part_abs x y w h (geoms ps).
Proof.
  induction fuel as [|f IH]; intros x y w h ps Hw Hh E; [discriminate|].
  cbn [tight_split] in E. destruct (Z.of_nat (w * h) <? c_MIN_SPLIT_RECT_SIZE)%Z.
  - inversion E; subst. apply part_single; assumption.
  - destruct split_consts as (_ & _ & _ & KW & KS). rewrite KW, KS in E.
    set (nMaxRows := Z.to_nat 65536 / (if Z.to_nat 2048 <? w then Z.to_nat 2048 else w)) in *.
    assert (HN : 1 <= nMaxRows).
    { unfold nMaxRows. destruct (Z.to_nat 2048 <? w) eqn:Q; [apply Nat.ltb_lt in Q|apply Nat.ltb_ge in Q];
        apply Nat.div_str_pos; lia. }
    pose proof (scan_dy_cover sfb (tight_split f sfb) IH x w y (y + h) nMaxRows Hw HN
                  (starts_from h y (y + h) tsz) y [] ps) as C.
    replace (y + h - y) with h in C by lia. apply C; auto; try lia.
    + apply starts_from_asc.
    + apply Forall_forall. intros v Hv. apply starts_from_range in Hv. lia.
    + replace (y - y) with 0 by lia. apply part_empty. auto.
Qed.
