(* C01 - mirror of rre.c / corre.c: getBgColour, subrectEncode (Subrect.v), serialisation.
   The payload is  U32 nSubrects | bg | (colour x y w h)*  with 16-bit big-endian fields for
   RRE (rfbRectangle, Swap16IfLE) and 8-bit fields for CoRRE (rfbCoRRERectangle). *)
From Coq Require Import ZArith List Lia Bool Arith.
From LV Require Import Enc.EncBase Enc.Subrect Gen.Consts_C01.
Import ListNotations.

(* getBgColour, bpp = 8: most prevalent colour; the first colour to reach the maximal count wins *)
Fixpoint count_get (k : Z) (cs : list (Z * Z)) : Z :=
  match cs with
  | [] => 0%Z
  | (k', n) :: t => if (k =? k')%Z then n else count_get k t
  end.

Fixpoint count_inc (k : Z) (cs : list (Z * Z)) : list (Z * Z) :=
  match cs with
  | [] => [(k, 1%Z)]
  | (k', n) :: t => if (k =? k')%Z then (k', (n + 1)%Z) :: t else (k', n) :: count_inc k t
  end.

Fixpoint bg8_loop (data : list Z) (cs : list (Z * Z)) (maxcount maxclr : Z) : Z :=
  match data with
  | [] => maxclr
  | k :: t =>
    let cs' := count_inc k cs in
    let c := count_get k cs' in
    if (maxcount <? c)%Z then bg8_loop t cs' c k else bg8_loop t cs' maxcount maxclr
  end.

Definition bg_colour (bypp : nat) (data : list Z) : option Z :=
  match bypp with
  | 1 => Some (bg8_loop data [] 0%Z 0%Z)
  | _ => match data with p :: _ => Some p | [] => None end      (* ((uintN_t * )data)[0] *)
  end.

Definition sub_bytes (fsz bypp : nat) (s : subrect) : list Z :=
  le_bytes bypp (sr_c s) ++ be_bytes fsz (Z.of_nat (sr_x s)) ++ be_bytes fsz (Z.of_nat (sr_y s)) ++
  be_bytes fsz (Z.of_nat (sr_w s)) ++ be_bytes fsz (Z.of_nat (sr_h s)).

(* fsz = 2: RRE, fsz = 1: CoRRE.  Fallback = "encoding was too large, use raw" *)
Definition rre_payload (fsz bypp w h : nat) (g : grid) : res (list Z) :=
  match bg_colour bypp (concat g) with
  | None => Err
  | Some bg =>
    let per := (Z.of_nat bypp + (if Nat.eqb fsz 2 then c_sz_rfbRectangle else c_sz_rfbCoRRERectangle))%Z in
    match subrect_encode w h g bg (Z.of_nat bypp) per (Z.of_nat (w * h * bypp)) with
    | Ok subs =>
      Ok (be_bytes 4 (Z.of_nat (length subs)) ++ le_bytes bypp bg ++ flat_map (sub_bytes fsz bypp) subs)
    | Fallback => Fallback
    | Err => Err
    end
  end.
