(* C01 - lemmas about the shared grid / byte helpers of EncBase.v *)
From Coq Require Import ZArith List Lia Bool Arith.
From LV Require Import Enc.EncBase.
Import ListNotations.

(* ------------------------------------------------------------------ lists *)
Lemma nth_error_firstn {A} (l : list A) n i :
  nth_error (firstn n l) i = if i <? n then nth_error l i else None.
Proof.
  revert n i; induction l as [|a l IH]; intros n i.
  - rewrite firstn_nil. destruct i; destruct (_ <? _); reflexivity.
  - destruct n; [destruct i; reflexivity|].
    destruct i; [reflexivity|]. simpl firstn. simpl nth_error. rewrite IH.
    change (S i <? S n) with (i <? n). reflexivity.
Qed.

Lemma nth_error_skipn {A} (l : list A) n i :
  nth_error (skipn n l) i = nth_error l (n + i).
Proof.
  revert l; induction n; intros l; [reflexivity|].
  destruct l; [destruct i; reflexivity|]. simpl. apply IHn.
Qed.

Lemma nth_error_repeat_full {A} (a : A) m i :
  nth_error (repeat a m) i = if i <? m then Some a else None.
Proof.
  destruct (i <? m) eqn:E.
  - apply nth_error_repeat. apply Nat.ltb_lt; assumption.
  - apply nth_error_None. rewrite repeat_length. apply Nat.ltb_ge; assumption.
Qed.

Lemma list_ext {A} (l1 l2 : list A) :
  length l1 = length l2 -> (forall i, i < length l1 -> nth_error l1 i = nth_error l2 i) -> l1 = l2.
Proof.
  revert l2; induction l1 as [|a l1 IH]; intros [|b l2] HL HN; try discriminate; [reflexivity|].
  f_equal.
  - specialize (HN 0 (Nat.lt_0_succ _)). simpl in HN. congruence.
  - apply IH; [simpl in HL; lia|]. intros i Hi. apply (HN (S i)). simpl. lia.
Qed.

Lemma take_app {A} (a b : list A) : take (length a) (a ++ b) = Some (a, b).
Proof.
  induction a as [|x a IH]; simpl; [reflexivity|]. rewrite IH. reflexivity.
Qed.

Lemma take_some {A} n : forall (l a b : list A), take n l = Some (a, b) -> l = a ++ b /\ length a = n.
Proof.
  induction n; intros l a b H; simpl in H.
  - inversion H; subst. split; reflexivity.
  - destruct l as [|x l]; [discriminate|]. destruct (take n l) as [[p r]|] eqn:E; [|discriminate].
    inversion H; subst. apply IHn in E. destruct E as [-> <-]. split; reflexivity.
Qed.

(* ------------------------------------------------------------------ bytes *)
Lemma le_bytes_length n v : length (le_bytes n v) = n.
Proof. revert v; induction n; intros v; simpl; auto. Qed.

Lemma le_val_le_bytes n : forall v, pix_ok n v -> le_val (le_bytes n v) = v.
Proof.
  unfold pix_ok. induction n; intros v H.
  - change (256 ^ Z.of_nat 0)%Z with 1%Z in H. simpl. lia.
  - cbn [le_bytes le_val]. rewrite IHn.
    + pose proof (Z.div_mod v 256). lia.
    + rewrite Nat2Z.inj_succ, Z.pow_succ_r in H by lia. split.
      * apply Z.div_pos; lia.
      * apply Z.div_lt_upper_bound; lia.
Qed.

Lemma le_bytes_ok n v : bytes_ok (le_bytes n v).
Proof.
  revert v; induction n; intros v; constructor.
  - unfold byte_ok. apply Z.mod_pos_bound. lia.
  - apply IHn.
Qed.

Lemma le_val_bound bs : bytes_ok bs -> pix_ok (length bs) (le_val bs).
Proof.
  unfold pix_ok, bytes_ok. induction 1 as [|b bs Hb _ IH]; simpl length.
  - simpl. lia.
  - rewrite Nat2Z.inj_succ, Z.pow_succ_r by lia. cbn [le_val]. unfold byte_ok in Hb. lia.
Qed.

Lemma le_bytes_le_val bs : bytes_ok bs -> le_bytes (length bs) (le_val bs) = bs.
Proof.
  induction 1 as [|b bs Hb Hbs IH]; [reflexivity|].
  unfold byte_ok in Hb. cbn [length le_bytes le_val].
  replace (b + 256 * le_val bs)%Z with (b + le_val bs * 256)%Z by lia. f_equal.
  - rewrite Z.mod_add by lia. apply Z.mod_small; assumption.
  - rewrite Z.div_add by lia. rewrite Z.div_small by assumption. simpl. assumption.
Qed.

Lemma be_bytes_length n v : length (be_bytes n v) = n.
Proof. unfold be_bytes. rewrite rev_length. apply le_bytes_length. Qed.

Lemma be_val_be_bytes n v : pix_ok n v -> be_val (be_bytes n v) = v.
Proof. intros. unfold be_val, be_bytes. rewrite rev_involutive. apply le_val_le_bytes; assumption. Qed.

Lemma take_pixels_app bypp r rest :
  Forall (pix_ok bypp) r ->
  take_pixels bypp (length r) (row_bytes bypp r ++ rest) = Some (r, rest).
Proof.
  induction 1 as [|p r Hp _ IH]; [reflexivity|].
  cbn [length take_pixels row_bytes flat_map]. rewrite <- app_assoc.
  pose proof (take_app (le_bytes bypp p) (flat_map (le_bytes bypp) r ++ rest)) as T.
  rewrite le_bytes_length in T. rewrite T. unfold row_bytes in IH. rewrite IH.
  rewrite le_val_le_bytes by assumption. reflexivity.
Qed.

Lemma take_rows_app bypp w g rest :
  Forall (fun r => length r = w) g -> grid_pix_ok bypp g ->
  take_rows bypp w (length g) (grid_bytes bypp g ++ rest) = Some (g, rest).
Proof.
  intros HW HP; revert HW. induction HP as [|r g Hr _ IH]; intros HW; [reflexivity|].
  inversion HW as [|? ? Hl HW']; subst.
  cbn [length take_rows grid_bytes flat_map]. rewrite <- app_assoc.
  rewrite take_pixels_app by assumption. unfold grid_bytes in IH. rewrite IH by assumption. reflexivity.
Qed.

Lemma row_bytes_length bypp r : length (row_bytes bypp r) = bypp * length r.
Proof.
  unfold row_bytes. induction r; simpl; [lia|]. rewrite app_length, le_bytes_length, IHr. nia.
Qed.

(* ------------------------------------------------------------------ grids *)
Lemma wf_gridb_true w h g : wf_gridb w h g = true <-> wf_grid w h g.
Proof.
  unfold wf_gridb, wf_grid. rewrite andb_true_iff, Nat.eqb_eq, forallb_forall, Forall_forall.
  split; intros [A B]; split; auto; intros r Hr; specialize (B r Hr); apply Nat.eqb_eq; exact B.
Qed.

Lemma wf_row w h g y r : wf_grid w h g -> nth_error g y = Some r -> length r = w.
Proof.
  intros [_ F] H. rewrite Forall_forall in F. apply F. eapply nth_error_In; eauto.
Qed.

Lemma gget_some w h g x y : wf_grid w h g -> x < w -> y < h -> exists p, gget g x y = Some p.
Proof.
  intros WF Hx Hy. unfold gget. destruct (nth_error g y) as [r|] eqn:E.
  - pose proof (wf_row _ _ _ _ _ WF E) as L.
    destruct (nth_error r x) eqn:E2; [eauto|]. apply nth_error_None in E2. lia.
  - apply nth_error_None in E. destruct WF. lia.
Qed.

Lemma grid_ext w h g1 g2 :
  wf_grid w h g1 -> wf_grid w h g2 ->
  (forall x y, x < w -> y < h -> gget g1 x y = gget g2 x y) -> g1 = g2.
Proof.
  intros W1 W2 H. apply list_ext; [destruct W1, W2; congruence|].
  intros y Hy. assert (Hy' : y < h) by (destruct W1; lia).
  destruct (nth_error g1 y) as [r1|] eqn:E1; [|apply nth_error_None in E1; lia].
  destruct (nth_error g2 y) as [r2|] eqn:E2; [|apply nth_error_None in E2; destruct W2; lia].
  f_equal. pose proof (wf_row _ _ _ _ _ W1 E1). pose proof (wf_row _ _ _ _ _ W2 E2).
  apply list_ext; [congruence|]. intros x Hx. specialize (H x y). unfold gget in H.
  rewrite E1, E2 in H. apply H; lia.
Qed.

Lemma wf_mk_grid w h c : wf_grid w h (mk_grid w h c).
Proof.
  unfold wf_grid, mk_grid. split; [apply repeat_length|].
  apply Forall_forall. intros r Hr. apply repeat_spec in Hr. subst. apply repeat_length.
Qed.

Lemma gget_mk_grid w h c x y : x < w -> y < h -> gget (mk_grid w h c) x y = Some c.
Proof.
  intros. unfold gget, mk_grid. rewrite nth_error_repeat by assumption. apply nth_error_repeat; assumption.
Qed.

Lemma set_span_length x n c r : x + n <= length r -> length (set_span x n c r) = length r.
Proof.
  intros. unfold set_span. rewrite !app_length, firstn_length, repeat_length, skipn_length. lia.
Qed.

Lemma nth_error_set_span r x n c i : x + n <= length r ->
  nth_error (set_span x n c r) i = if (x <=? i) && (i <? x + n) then Some c else nth_error r i.
Proof.
  intros L. unfold set_span.
  destruct (x <=? i) eqn:E1; simpl.
  - apply Nat.leb_le in E1.
    rewrite nth_error_app2 by (rewrite firstn_length; lia).
    rewrite firstn_length, Nat.min_l by lia.
    destruct (i <? x + n) eqn:E2.
    + apply Nat.ltb_lt in E2. rewrite nth_error_app1 by (rewrite repeat_length; lia).
      apply nth_error_repeat. lia.
    + apply Nat.ltb_ge in E2. rewrite nth_error_app2 by (rewrite repeat_length; lia).
      rewrite repeat_length, nth_error_skipn. f_equal. lia.
  - apply Nat.leb_gt in E1. rewrite nth_error_app1 by (rewrite firstn_length; lia).
    rewrite nth_error_firstn. replace (i <? x) with true by (symmetry; apply Nat.ltb_lt; lia). reflexivity.
Qed.

Lemma wf_fill_rect w h g x y sw sh c :
  wf_grid w h g -> x + sw <= w -> y + sh <= h -> wf_grid w h (fill_rect g x y sw sh c).
Proof.
  intros [L F] Hx Hy. unfold fill_rect. split.
  - rewrite !app_length, map_length, !firstn_length, !skipn_length. lia.
  - rewrite !Forall_app. split; [|split].
    + apply Forall_forall. intros r Hr. rewrite Forall_forall in F. apply F.
      rewrite <- (firstn_skipn y g). apply in_or_app. left; assumption.
    + apply Forall_forall. intros r Hr. apply in_map_iff in Hr. destruct Hr as [r0 [E Hr0]]. subst r.
      assert (length r0 = w).
      { rewrite Forall_forall in F. apply F.
        rewrite <- (firstn_skipn y g). apply in_or_app. right.
        rewrite <- (firstn_skipn sh (skipn y g)). apply in_or_app. left. assumption. }
      rewrite set_span_length; lia.
    + apply Forall_forall. intros r Hr. rewrite Forall_forall in F. apply F.
      rewrite <- (firstn_skipn (y + sh) g). apply in_or_app. right; assumption.
Qed.

Lemma gget_fill_rect w h g x y sw sh c i j :
  wf_grid w h g -> x + sw <= w -> y + sh <= h -> i < w -> j < h ->
  gget (fill_rect g x y sw sh c) i j =
  if (x <=? i) && (i <? x + sw) && (y <=? j) && (j <? y + sh) then Some c else gget g i j.
Proof.
  intros WF Hx Hy Hi Hj. pose proof WF as [L F]. unfold gget at 1, fill_rect.
  destruct (y <=? j) eqn:E1.
  - apply Nat.leb_le in E1.
    rewrite nth_error_app2 by (rewrite firstn_length; lia).
    rewrite firstn_length, Nat.min_l by lia.
    destruct (j <? y + sh) eqn:E2.
    + apply Nat.ltb_lt in E2.
      rewrite nth_error_app1 by (rewrite map_length, firstn_length, skipn_length; lia).
      rewrite nth_error_map, nth_error_firstn.
      replace (j - y <? sh) with true by (symmetry; apply Nat.ltb_lt; lia).
      rewrite nth_error_skipn. replace (y + (j - y)) with j by lia.
      destruct (nth_error g j) as [r|] eqn:ER; [|apply nth_error_None in ER; lia].
      simpl. pose proof (wf_row _ _ _ _ _ WF ER).
      rewrite nth_error_set_span by lia.
      unfold gget. rewrite ER. rewrite !andb_true_r. reflexivity.
    + apply Nat.ltb_ge in E2.
      rewrite nth_error_app2 by (rewrite map_length, firstn_length, skipn_length; lia).
      rewrite map_length, firstn_length, skipn_length, Nat.min_l by lia.
      rewrite nth_error_skipn. replace (y + sh + (j - y - sh)) with j by lia.
      rewrite !andb_false_r. reflexivity.
  - apply Nat.leb_gt in E1.
    rewrite nth_error_app1 by (rewrite firstn_length; lia).
    rewrite nth_error_firstn. replace (j <? y) with true by (symmetry; apply Nat.ltb_lt; lia).
    rewrite andb_false_r. reflexivity.
Qed.

Lemma wf_crop w h g x y cw ch :
  wf_grid w h g -> x + cw <= w -> y + ch <= h -> wf_grid cw ch (crop g x y cw ch).
Proof.
  intros [L F] Hx Hy. unfold crop. split.
  - rewrite map_length, firstn_length, skipn_length. lia.
  - apply Forall_forall. intros r Hr. apply in_map_iff in Hr. destruct Hr as [r0 [E Hr0]]. subst r.
    assert (length r0 = w).
    { rewrite Forall_forall in F. apply F.
      rewrite <- (firstn_skipn y g). apply in_or_app. right.
      rewrite <- (firstn_skipn ch (skipn y g)). apply in_or_app. left. assumption. }
    rewrite firstn_length, skipn_length. lia.
Qed.

Lemma gget_crop g x y cw ch i j :
  i < cw -> j < ch -> gget (crop g x y cw ch) i j = gget g (x + i) (y + j).
Proof.
  intros Hi Hj. unfold gget, crop. rewrite nth_error_map, nth_error_firstn.
  replace (j <? ch) with true by (symmetry; apply Nat.ltb_lt; lia).
  rewrite nth_error_skipn. destruct (nth_error g (y + j)); cbn [option_map]; [|reflexivity].
  rewrite nth_error_firstn. replace (i <? cw) with true by (symmetry; apply Nat.ltb_lt; lia).
  apply nth_error_skipn.
Qed.

Lemma paste_row_length x s r : x + length s <= length r -> length (paste_row x s r) = length r.
Proof.
  intros. unfold paste_row. rewrite !app_length, firstn_length, skipn_length. lia.
Qed.

Lemma nth_error_paste_row x s r i : x + length s <= length r ->
  nth_error (paste_row x s r) i =
  if (x <=? i) && (i <? x + length s) then nth_error s (i - x) else nth_error r i.
Proof.
  intros L. unfold paste_row.
  destruct (x <=? i) eqn:E1; simpl.
  - apply Nat.leb_le in E1.
    rewrite nth_error_app2 by (rewrite firstn_length; lia).
    rewrite firstn_length, Nat.min_l by lia.
    destruct (i <? x + length s) eqn:E2.
    + apply Nat.ltb_lt in E2. apply nth_error_app1. lia.
    + apply Nat.ltb_ge in E2. rewrite nth_error_app2 by lia.
      rewrite nth_error_skipn. f_equal. lia.
  - apply Nat.leb_gt in E1. rewrite nth_error_app1 by (rewrite firstn_length; lia).
    rewrite nth_error_firstn. replace (i <? x) with true by (symmetry; apply Nat.ltb_lt; lia). reflexivity.
Qed.

Lemma paste_rows_length x t g : length (paste_rows x t g) = length g.
Proof.
  revert g; induction t as [|s t IH]; intros [|r g]; simpl; auto.
Qed.

Lemma nth_error_paste_rows x t g j :
  nth_error (paste_rows x t g) j =
  match nth_error t j, nth_error g j with
  | Some s, Some r => Some (paste_row x s r)
  | _, o => o
  end.
Proof.
  revert g j; induction t as [|s t IH]; intros [|r g] j; simpl.
  - destruct j; reflexivity.
  - destruct j; reflexivity.
  - destruct j; simpl; [reflexivity|]. destruct (nth_error t j); reflexivity.
  - destruct j; simpl; [reflexivity|]. apply IH.
Qed.

Lemma wf_paste w h g x y tw th t :
  wf_grid w h g -> wf_grid tw th t -> x + tw <= w -> y + th <= h -> wf_grid w h (paste g x y t).
Proof.
  intros WF [LT FT] Hx Hy. pose proof WF as [L F]. unfold paste. split.
  - rewrite app_length, firstn_length, paste_rows_length, skipn_length. lia.
  - apply Forall_forall. intros r Hr. apply In_nth_error in Hr. destruct Hr as [j Hj].
    destruct (j <? y) eqn:E.
    + apply Nat.ltb_lt in E. rewrite nth_error_app1 in Hj by (rewrite firstn_length; lia).
      rewrite nth_error_firstn in Hj. replace (j <? y) with true in Hj by (symmetry; apply Nat.ltb_lt; lia).
      eapply wf_row; eauto.
    + apply Nat.ltb_ge in E. rewrite nth_error_app2 in Hj by (rewrite firstn_length; lia).
      rewrite firstn_length, Nat.min_l in Hj by lia.
      rewrite nth_error_paste_rows, nth_error_skipn in Hj.
      destruct (nth_error t (j - y)) as [s|] eqn:ES.
      * destruct (nth_error g (y + (j - y))) as [r0|] eqn:ER; [|discriminate].
        inversion Hj; subst r. pose proof (wf_row _ _ _ _ _ WF ER).
        assert (length s = tw). { rewrite Forall_forall in FT. apply FT. eapply nth_error_In; eauto. }
        rewrite paste_row_length; lia.
      * eapply wf_row; eauto.
Qed.

Lemma gget_paste w h g x y tw th t i j :
  wf_grid w h g -> wf_grid tw th t -> x + tw <= w -> y + th <= h -> i < w -> j < h ->
  gget (paste g x y t) i j =
  if (x <=? i) && (i <? x + tw) && (y <=? j) && (j <? y + th) then gget t (i - x) (j - y) else gget g i j.
Proof.
  intros WF WT Hx Hy Hi Hj. pose proof WF as [L F]. pose proof WT as [LT FT].
  unfold gget at 1, paste.
  destruct (y <=? j) eqn:E1.
  - apply Nat.leb_le in E1.
    rewrite nth_error_app2 by (rewrite firstn_length; lia).
    rewrite firstn_length, Nat.min_l by lia.
    rewrite nth_error_paste_rows, nth_error_skipn. replace (y + (j - y)) with j by lia.
    destruct (nth_error g j) as [r|] eqn:ER; [|apply nth_error_None in ER; lia].
    pose proof (wf_row _ _ _ _ _ WF ER).
    destruct (j <? y + th) eqn:E2.
    + apply Nat.ltb_lt in E2.
      destruct (nth_error t (j - y)) as [s|] eqn:ES; [|apply nth_error_None in ES; lia].
      assert (length s = tw) by (eapply wf_row; eauto).
      rewrite nth_error_paste_row by lia. subst tw.
      rewrite !andb_true_r. unfold gget. rewrite ES, ER. reflexivity.
    + apply Nat.ltb_ge in E2.
      destruct (nth_error t (j - y)) as [s|] eqn:ES.
      * assert (j - y < length t) by (apply nth_error_Some; congruence). lia.
      * rewrite !andb_false_r. unfold gget. rewrite ER. reflexivity.
  - apply Nat.leb_gt in E1.
    rewrite nth_error_app1 by (rewrite firstn_length; lia).
    rewrite nth_error_firstn. replace (j <? y) with true by (symmetry; apply Nat.ltb_lt; lia).
    rewrite andb_false_r. reflexivity.
Qed.

(* ------------------------------------------------------------------ positions / tiles *)
Lemma in_positions w h x y : In (x, y) (positions w h) <-> x < w /\ y < h.
Proof.
  unfold positions. rewrite in_flat_map. split.
  - intros [y0 [Hy Hx]]. apply in_map_iff in Hx. destruct Hx as [x0 [E Hx]]. inversion E; subst.
    apply in_seq in Hy. apply in_seq in Hx. lia.
  - intros [Hx Hy]. exists y. split; [apply in_seq; lia|]. apply in_map_iff. exists x. split; [reflexivity|].
    apply in_seq; lia.
Qed.

Lemma in_starts_from fuel s n step k :
  0 < step -> n <= s + fuel * step -> s + k * step < n -> In (s + k * step) (starts_from fuel s n step).
Proof.
  intros Hs. revert s k. induction fuel; intros s k Hf Hk.
  - simpl in Hf. lia.
  - simpl. destruct (s <? n) eqn:E.
    + destruct k; [left; lia|]. right.
      replace (s + S k * step) with ((s + step) + k * step) by lia. apply IHfuel; simpl in *; lia.
    + apply Nat.ltb_ge in E. lia.
Qed.

Lemma starts_from_spec fuel s n step v :
  In v (starts_from fuel s n step) -> s <= v < n /\ exists k, v = s + k * step.
Proof.
  revert s. induction fuel; intros s H; simpl in H; [contradiction|].
  destruct (s <? n) eqn:E; [|contradiction]. apply Nat.ltb_lt in E. destruct H as [H|H].
  - subst. split; [lia|]. exists 0. lia.
  - apply IHfuel in H. destruct H as [A [k B]]. split; [lia|]. exists (S k). lia.
Qed.

Lemma in_starts n step i : 0 < step -> i < n -> In (step * (i / step)) (starts n step).
Proof.
  intros Hs Hi. unfold starts.
  replace (step * (i / step)) with (0 + (i / step) * step) by lia.
  apply in_starts_from; [assumption| |].
  - simpl. destruct step; [lia|]. nia.
  - pose proof (Nat.mul_div_le i step). lia.
Qed.

Lemma starts_spec n step v : In v (starts n step) -> v < n /\ exists k, v = k * step.
Proof.
  intros H. apply starts_from_spec in H. destruct H as [A [k B]]. split; [lia|]. exists k. lia.
Qed.

(* every pixel of the area lies in some tile of the tiling, and every tile lies in the area *)
Lemma tiles_cover w h tw th i j : 0 < tw -> 0 < th -> i < w -> j < h ->
  exists x y cw ch, In (x, y, cw, ch) (tiles w h tw th) /\ x <= i < x + cw /\ y <= j < y + ch.
Proof.
  intros Htw Hth Hi Hj.
  exists (tw * (i / tw)), (th * (j / th)), (Nat.min tw (w - tw * (i / tw))), (Nat.min th (h - th * (j / th))).
  split.
  - unfold tiles. apply in_flat_map. exists (th * (j / th)). split; [apply in_starts; assumption|].
    apply in_map_iff. exists (tw * (i / tw)). split; [reflexivity|apply in_starts; assumption].
  - pose proof (Nat.mul_div_le i tw). pose proof (Nat.mul_div_le j th).
    pose proof (Nat.mul_succ_div_gt i tw). pose proof (Nat.mul_succ_div_gt j th). lia.
Qed.

Lemma tiles_inside w h tw th x y cw ch :
  In (x, y, cw, ch) (tiles w h tw th) -> x + cw <= w /\ y + ch <= h /\ cw <= tw /\ ch <= th /\
  (0 < tw -> 0 < cw) /\ (0 < th -> 0 < ch).
Proof.
  unfold tiles. rewrite in_flat_map. intros [y0 [Hy H]]. apply in_map_iff in H.
  destruct H as [x0 [E Hx]]. inversion E; subst.
  apply starts_spec in Hy. apply starts_spec in Hx. lia.
Qed.
