(* C01 - ZRLE, strongest statement: for the repaired encoder (CPIXEL choice in unsigned
   arithmetic, raw tiles with BPPOUT/8 bytes per pixel: variant wrap = false, b15 = false) and
   EVERY well-formed true-colour client format whose depth is at most 24 (the condition of the
   specification that the server does not test, finding F3), every rectangle - hence every tile of
   every sub-encoding, all sizes, all contents - round-trips.  A pixel is given by its value in the
   client's format; its bits lie within the colour masks (what pixel translation produces). *)
From Coq Require Import ZArith List Lia Bool Arith Zify.
From LV Require Import Enc.EncBase Enc.EncBaseProofs Enc.ZRLE Enc.ZRLEProofs1 Enc.ZRLEProofs4
     Dec.SpecBase Dec.SpecZRLE.
Import ListNotations.
Local Open Scope Z_scope.
Ltac Zify.zify_post_hook ::= Z.div_mod_to_equations.

Definition bswap32 (v : Z) : Z := le_val (rev (le_bytes 4 v)).
Definition bswap16 (v : Z) : Z := le_val (rev (le_bytes 2 v)).

(* the grid holds the little-endian reading of the wire bytes *)
Definition grid_of_value (bpp be v : Z) : Z :=
  if be =? 0 then v else if bpp =? 32 then bswap32 v else if bpp =? 16 then bswap16 v else v.

Definition maxpix (rmax gmax bmax rs gs bs : Z) : Z :=
  Z.lor (Z.lor (Z.shiftl rmax rs) (Z.shiftl gmax gs)) (Z.shiftl bmax bs).

(* a pixel format as the RFB specification allows it: maxima 2^k - 1 (k >= 1: odd), bits inside the pixel *)
Record fmt_wf (bpp rmax gmax bmax rs gs bs : Z) : Prop := {
  wf_bpp : bpp = 8 \/ bpp = 16 \/ bpp = 32;
  wf_r : Z.odd rmax = true /\ 0 < rmax; wf_g : Z.odd gmax = true /\ 0 < gmax; wf_b : Z.odd bmax = true /\ 0 < bmax;
  wf_shifts : 0 <= rs /\ 0 <= gs /\ 0 <= bs;
  wf_fit : maxpix rmax gmax bmax rs gs bs < 2 ^ bpp }.

Lemma lor_lt_pow2 a b n : 0 <= a -> 0 <= b -> 0 <= n -> (Z.lor a b < 2 ^ n <-> a < 2 ^ n /\ b < 2 ^ n).
Proof.
  intros Ha Hb Hn. assert (P : 0 < 2 ^ n) by (apply Z.pow_pos_nonneg; lia).
  destruct (Z.eq_dec a 0) as [->|Na]; [rewrite Z.lor_0_l; intuition lia|].
  destruct (Z.eq_dec b 0) as [->|Nb]; [rewrite Z.lor_0_r; intuition lia|].
  assert (Hl : 0 < Z.lor a b).
  { assert (0 <= Z.lor a b) by (apply Z.lor_nonneg; auto).
    destruct (Z.eq_dec (Z.lor a b) 0) as [E|E]; [apply Z.lor_eq_0_iff in E; lia|lia]. }
  rewrite (Z.log2_lt_pow2 _ n Hl), (Z.log2_lt_pow2 a n) by lia. rewrite (Z.log2_lt_pow2 b n) by lia.
  rewrite Z.log2_lor by assumption. lia.
Qed.

Lemma land_sub_lt v m n : 0 <= v -> 0 <= m -> Z.land v m = v -> m < 2 ^ n -> 0 <= n -> v < 2 ^ n.
Proof.
  intros Hv Hm E L Hn. destruct (Z.eq_dec v 0) as [->|N]; [apply Z.pow_pos_nonneg; lia|].
  destruct (Z.eq_dec m 0) as [->|Nm]; [rewrite Z.land_0_r in E; lia|].
  apply Z.log2_lt_pow2; [lia|]. apply Z.log2_lt_pow2 in L; [|lia].
  pose proof (Z.log2_land v m Hv Hm) as LL. rewrite E in LL. lia.
Qed.

Lemma shiftl_land255 m s : Z.odd m = true -> 0 <= s -> (Z.land (Z.shiftl m s) 255 = 0 <-> 7 < s).
Proof.
  intros Ho Hs. change 255 with (Z.ones 8). split.
  - intros E. destruct (Z_lt_le_dec 7 s) as [|L]; [assumption|exfalso].
    assert (B : Z.testbit (Z.land (Z.shiftl m s) (Z.ones 8)) s = true).
    { rewrite Z.land_spec, Z.shiftl_spec, Z.sub_diag, Z.bit0_odd, Ho by lia.
      rewrite Z.testbit_ones by lia. replace (0 <=? s) with true by (symmetry; apply Z.leb_le; lia).
      replace (s <? 8) with true by (symmetry; apply Z.ltb_lt; lia). reflexivity. }
    rewrite E in B. rewrite Z.bits_0 in B. discriminate.
  - intros L. apply Z.bits_inj'. intros n Hn. rewrite Z.land_spec, Z.bits_0, Z.testbit_ones by lia.
    destruct (n <? 8) eqn:E8; [|rewrite andb_false_r, andb_false_r; reflexivity].
    apply Z.ltb_lt in E8. rewrite Z.shiftl_spec by lia. rewrite Z.testbit_neg_r by lia. reflexivity.
Qed.

(* the repaired server chooses the CPIXEL form of the specification *)
Theorem zrle_cmode_repaired_is_spec bpp depth be tc rmax gmax bmax rs gs bs :
  fmt_wf bpp rmax gmax bmax rs gs bs -> tc <> 0 -> depth <= 24 ->
  zrle_cmode_gen false bpp be rmax gmax bmax rs gs bs = spec_cmode bpp depth be tc rmax gmax bmax rs gs bs.
Proof.
  intros [WB [OR PR] [OG PG] [OB PB] (SR & SG & SB) FIT] TC D.
  unfold zrle_cmode_gen, spec_cmode. destruct (bpp =? 32) eqn:E32; [|reflexivity].
  replace (tc =? 0) with false by (symmetry; apply Z.eqb_neq; assumption).
  replace (depth <=? 24) with true by (symmetry; apply Z.leb_le; assumption). cbn [negb andb].
  fold (maxpix rmax gmax bmax rs gs bs). set (M := maxpix rmax gmax bmax rs gs bs) in *.
  assert (NR : 0 <= Z.shiftl rmax rs) by (apply Z.shiftl_nonneg; lia).
  assert (NG : 0 <= Z.shiftl gmax gs) by (apply Z.shiftl_nonneg; lia).
  assert (NB : 0 <= Z.shiftl bmax bs) by (apply Z.shiftl_nonneg; lia).
  assert (LS : ((Z.shiftl rmax rs <? 16777216) && (Z.shiftl gmax gs <? 16777216) && (Z.shiftl bmax bs <? 16777216)) = (M <? 16777216)).
  { change 16777216 with (2 ^ 24). unfold M, maxpix.
    pose proof (lor_lt_pow2 (Z.lor (Z.shiftl rmax rs) (Z.shiftl gmax gs)) (Z.shiftl bmax bs) 24
                  ltac:(apply Z.lor_nonneg; auto) NB ltac:(lia)) as A.
    pose proof (lor_lt_pow2 (Z.shiftl rmax rs) (Z.shiftl gmax gs) 24 NR NG ltac:(lia)) as B.
    destruct (Z.lor (Z.lor (Z.shiftl rmax rs) (Z.shiftl gmax gs)) (Z.shiftl bmax bs) <? 2 ^ 24) eqn:E.
    - apply Z.ltb_lt in E. apply A in E. destruct E as [E1 E3]. apply B in E1. destruct E1 as [E1 E2].
      rewrite !andb_true_iff, !Z.ltb_lt. auto.
    - apply Z.ltb_ge in E. destruct ((Z.shiftl rmax rs <? 2 ^ 24) && (Z.shiftl gmax gs <? 2 ^ 24) && (Z.shiftl bmax bs <? 2 ^ 24)) eqn:F; [|reflexivity].
      rewrite !andb_true_iff, !Z.ltb_lt in F. destruct F as [[F1 F2] F3].
      assert (Z.lor (Z.lor (Z.shiftl rmax rs) (Z.shiftl gmax gs)) (Z.shiftl bmax bs) < 2 ^ 24) by (apply A; split; [apply B; auto|auto]). lia. }
  assert (MS : ((7 <? rs) && (7 <? gs) && (7 <? bs)) = (Z.land M 255 =? 0)).
  { unfold M, maxpix. rewrite !Z.land_lor_distr_l.
    pose proof (shiftl_land255 rmax rs OR SR) as A. pose proof (shiftl_land255 gmax gs OG SG) as B.
    pose proof (shiftl_land255 bmax bs OB SB) as C.
    destruct (Z.lor (Z.lor (Z.land (Z.shiftl rmax rs) 255) (Z.land (Z.shiftl gmax gs) 255)) (Z.land (Z.shiftl bmax bs) 255) =? 0) eqn:E.
    - apply Z.eqb_eq in E. apply Z.lor_eq_0_iff in E. destruct E as [E E3]. apply Z.lor_eq_0_iff in E. destruct E as [E1 E2].
      rewrite !andb_true_iff, !Z.ltb_lt. intuition.
    - apply Z.eqb_neq in E. destruct ((7 <? rs) && (7 <? gs) && (7 <? bs)) eqn:F; [|reflexivity].
      rewrite !andb_true_iff, !Z.ltb_lt in F. destruct F as [[F1 F2] F3]. exfalso. apply E.
      apply Z.lor_eq_0_iff. split; [apply Z.lor_eq_0_iff; split|]; intuition. }
  rewrite LS, MS. destruct (be =? 0); cbn [negb]; destruct (M <? 16777216), (Z.land M 255 =? 0); reflexivity.
Qed.

(* pixels whose bits lie within the colour masks fit the CPIXEL form of the specification *)
Theorem cpix_ok_of_format depth be tc rmax gmax bmax rs gs bs v :
  fmt_wf 32 rmax gmax bmax rs gs bs -> 0 <= v -> Z.land v (maxpix rmax gmax bmax rs gs bs) = v ->
  cpix_ok 4 (spec_cmode 32 depth be tc rmax gmax bmax rs gs bs) (grid_of_value 32 be v).
Proof.
  intros [WB [OR PR] [OG PG] [OB PB] (SR & SG & SB) FIT] Hv HM.
  set (M := maxpix rmax gmax bmax rs gs bs) in *.
  assert (NM : 0 <= M).
  { unfold M, maxpix. apply Z.lor_nonneg. split; [apply Z.lor_nonneg; split|]; apply Z.shiftl_nonneg; lia. }
  assert (V32 : v < 2 ^ 32) by (apply (land_sub_lt v M 32); auto; lia).
  change (2 ^ 32) with 4294967296 in V32.
  assert (SW : 0 <= bswap32 v < 4294967296).
  { unfold bswap32. cbn [le_bytes rev app le_val]. lia. }
  assert (MSV : Z.land M 255 = 0 -> v mod 256 = 0).
  { intros MS. change 256 with (2 ^ 8). rewrite <- Z.land_ones by lia. change (Z.ones 8) with 255.
    rewrite <- HM, <- Z.land_assoc, MS, Z.land_0_r. reflexivity. }
  unfold spec_cmode, grid_of_value. change (32 =? 32) with true. cbn [andb].
  change (Z.lor (Z.lor (Z.shiftl rmax rs) (Z.shiftl gmax gs)) (Z.shiftl bmax bs)) with M.
  destruct (negb (tc =? 0) && (depth <=? 24)) eqn:C; cbn [andb];
    [|destruct (be =? 0); unfold cpix_ok, pix_ok; change (256 ^ Z.of_nat 4) with 4294967296; lia].
  destruct (M <? 16777216) eqn:LS.
  - apply Z.ltb_lt in LS. assert (V24 : v < 2 ^ 24) by (apply (land_sub_lt v M 24); auto; lia).
    change (2 ^ 24) with 16777216 in V24.
    destruct (be =? 0) eqn:BE; cbn [andb orb negb].
    + unfold cpix_ok. lia.
    + destruct (Z.land M 255 =? 0) eqn:MS; [apply Z.eqb_eq in MS; pose proof (MSV MS)|];
        cbn [andb orb negb]; unfold cpix_ok, bswap32; cbn [le_bytes rev app le_val]; lia.
  - cbn [andb orb]. destruct (Z.land M 255 =? 0) eqn:MS.
    + apply Z.eqb_eq in MS. pose proof (MSV MS) as V0.
      destruct (be =? 0) eqn:BE; cbn [andb orb negb]; unfold cpix_ok, bswap32; cbn [le_bytes rev app le_val]; lia.
    + destruct (be =? 0); cbn [andb orb negb]; unfold cpix_ok, pix_ok; change (256 ^ Z.of_nat 4) with 4294967296; lia.
Qed.

(* C01_zrle_repaired (32 bpp; the 8 and 16 bpp instances have CPIXEL = PIXEL and follow from
   C01_zrle_partial with cmode 0) *)
Theorem zrle_repaired_roundtrip depth be tc rmax gmax bmax rs gs bs w h (vals : list (list Z)) payload canvas0 :
  fmt_wf 32 rmax gmax bmax rs gs bs -> tc <> 0 -> depth <= 24 ->
  wf_grid w h vals ->
  Forall (Forall (fun v => 0 <= v /\ Z.land v (maxpix rmax gmax bmax rs gs bs) = v)) vals ->
  wf_grid w h canvas0 ->
  let g := map (map (grid_of_value 32 be)) vals in
  zrle_payload 4 (zrle_cmode_gen false 32 be rmax gmax bmax rs gs bs) false w h g = Some payload ->
  dec_zrle_on canvas0 4 (spec_cmode 32 depth be tc rmax gmax bmax rs gs bs) w h payload = Some g.
Proof.
  intros WFF TC D WF PIX WC g E.
  rewrite (zrle_cmode_repaired_is_spec 32 depth be tc) in E by assumption.
  apply zrle_roundtrip; auto.
  - destruct WF as [L F]. split; [unfold g; rewrite map_length; exact L|].
    unfold g. apply Forall_forall. intros r Hr. apply in_map_iff in Hr. destruct Hr as (r0 & <- & I0).
    rewrite map_length. rewrite Forall_forall in F. auto.
  - unfold g. apply Forall_forall. intros r Hr. apply in_map_iff in Hr. destruct Hr as (r0 & <- & I0).
    rewrite Forall_forall in PIX. specialize (PIX r0 I0).
    apply Forall_forall. intros p Hp. apply in_map_iff in Hp. destruct Hp as (v & <- & IV).
    rewrite Forall_forall in PIX. destruct (PIX v IV) as [V0 VM].
    apply cpix_ok_of_format; assumption.
Qed.

(* non-vacuity: the usual 8-8-8 format, either endianness, both byte placements *)
Example fmt_wf_examples :
  fmt_wf 32 255 255 255 16 8 0 /\ fmt_wf 32 255 255 255 24 16 8 /\ fmt_wf 32 1023 1023 1023 20 10 0 /\ fmt_wf 16 31 63 31 11 5 0.
Proof. repeat split; try reflexivity; try lia; try (right; right; reflexivity); try (right; left; reflexivity). Qed.

Lemma cpix_ok_pix_ok m p : cpix_ok 4 m p -> pix_ok 4 p.
Proof.
  unfold cpix_ok, pix_ok. change (256 ^ Z.of_nat 4) with 4294967296.
  destruct m as [|[|[|m]]]; unfold pix_ok; change (256 ^ Z.of_nat 4) with 4294967296; lia.
Qed.
