(* C01 - mirror of the sub-rectangle encoder family:
     subrectEncode8/16/32 of rre.c, corre.c (identical text up to the size of a serialised
     sub-rectangle) and hextile.c (background given by the caller, no colour when mono).
   The C loops                                          the model
     for y, for x: if (line[x] != bg)                   sub_scan over positions (same order)
       for j=y..: run of cl from x in row j             ext_loop (hx/hy/vx/vy as widths/heights)
       choose (hw*hh > vw*vh) ? h-candidate : v-cand.   sub_step
       newLen > limit -> give up (-1 / FALSE)           Fallback
       emit, blank the sub-rectangle with bg            fill_rect g x y tw th bg
   Lengths are Z, geometry nat.  [len0]/[per]/[limit] are the three numbers in which the
   three C variants differ (see RRE.v, Hextile.v). *)
From Coq Require Import ZArith List Lia Bool Arith.
From LV Require Import Enc.EncBase.
Import ListNotations.

Record subrect := mkSub { sr_c : Z; sr_x : nat; sr_y : nat; sr_w : nat; sr_h : nat }.

(* i = x; while (i < w && seg[i] == cl) i++;   -> number of cells equal to cl *)
Fixpoint run_len (cl : Z) (r : row) : nat :=
  match r with
  | p :: t => if (p =? cl)%Z then S (run_len cl t) else O
  | [] => O
  end.

(* the j-loop.  rows = row y, y+1, ...;  hw = hx-x+1, hh = hy-y+1, vw = vx-x+1, vh = j-y *)
Fixpoint ext_loop (rows : grid) (x : nat) (cl : Z) (first : bool)
         (hw hh vw vh : nat) (hyflag : bool) : nat * nat * nat * nat :=
  match rows with
  | [] => (hw, hh, vw, vh)
  | r :: rs =>
    match run_len cl (skipn x r) with
    | O => (hw, hh, vw, vh)                                   (* seg[x] != cl : break *)
    | S _ as n =>
      let hw' := if first then n else hw in                   (* if (j == y) vx = hx = i *)
      let vw0 := if first then n else vw in
      let vw' := if n <? vw0 then n else vw0 in               (* if (i < vx) vx = i *)
      if hyflag && (hw' <=? n)
      then ext_loop rs x cl false hw' (S hh) vw' (S vh) true  (* hy += 1 *)
      else ext_loop rs x cl false hw' hh vw' (S vh) false     (* hyflag = 0 *)
    end
  end.

Definition enc_state := (list subrect * Z)%type.   (* emitted (latest first), encoded length so far *)

Definition sub_step (per limit bg : Z) (x y : nat) (g : grid) (st : enc_state)
  : res (grid * enc_state) :=
  match gget g x y with
  | None => Err
  | Some p =>
    if (p =? bg)%Z then Ok (g, st) else
    match ext_loop (skipn y g) x p true 0 0 0 0 true with
    | (hw, hh, vw, vh) =>
      let '(tw, th) := if vw * vh <? hw * hh then (hw, hh) else (vw, vh) in
      let newLen := (snd st + per)%Z in
      if (limit <? newLen)%Z then Fallback
      else Ok (fill_rect g x y tw th bg, (mkSub p x y tw th :: fst st, newLen))
    end
  end.

Fixpoint sub_scan (per limit bg : Z) (ps : list (nat * nat)) (g : grid) (st : enc_state)
  : res (grid * enc_state) :=
  match ps with
  | [] => Ok (g, st)
  | (x, y) :: ps' =>
    match sub_step per limit bg x y g st with
    | Ok (g', st') => sub_scan per limit bg ps' g' st'
    | Fallback => Fallback
    | Err => Err
    end
  end.

Definition subrect_encode (w h : nat) (g : grid) (bg len0 per limit : Z) : res (list subrect) :=
  match sub_scan per limit bg (positions w h) g ([], len0) with
  | Ok (_, (subs, _)) => Ok (rev subs)
  | Fallback => Fallback
  | Err => Err
  end.
