(* C01 - mirror of hextile.c: sendHextiles##bpp (bg/fg validity carried from tile to tile,
   raw fall-back), testColours##bpp, subrectEncode##bpp (Subrect.v). *)
From Coq Require Import ZArith List Lia Bool Arith.
From LV Require Import Enc.EncBase Enc.Subrect Gen.Consts_C01.
Import ListNotations.
Local Open Scope Z_scope.

(* testColours: loop state colour1 colour2 n1 n2 solid; result (mono, solid, c1, c2, n1, n2) *)
Fixpoint tc_loop (data : list Z) (c1 c2 n1 n2 : Z) (solid : bool)
  : bool * bool * Z * Z * Z * Z :=
  match data with
  | [] => (true, solid, c1, c2, n1, n2)
  | d :: t =>
    let c1' := if n1 =? 0 then d else c1 in
    if d =? c1' then tc_loop t c1' c2 (n1 + 1) n2 solid
    else
      let c2' := if n2 =? 0 then d else c2 in
      let solid' := if n2 =? 0 then false else solid in
      if d =? c2' then tc_loop t c1' c2' n1 (n2 + 1) solid'
      else (false, solid', c1', c2', n1, n2)
  end.

(* (mono, solid, bg, fg) *)
Definition test_colours (data : list Z) : bool * bool * Z * Z :=
  match tc_loop data 0 0 0 0 true with
  | (mono, solid, c1, c2, n1, n2) =>
    if n2 <? n1 then (mono, solid, c1, c2) else (mono, solid, c2, c1)
  end.

(* validBg, bg, validFg, fg *)
Definition hx_estate := (bool * Z * bool * Z)%type.

Definition hx_sub_bytes (mono : bool) (bypp : nat) (s : subrect) : list Z :=
  (if mono then [] else le_bytes bypp (sr_c s)) ++
  [Z.of_nat (sr_x s) * 16 + Z.of_nat (sr_y s);                 (* rfbHextilePackXY *)
   (Z.of_nat (sr_w s) - 1) * 16 + (Z.of_nat (sr_h s) - 1)].    (* rfbHextilePackWH *)

Definition hx_tile (bypp tw th : nat) (t : grid) (st : hx_estate) : res (list Z * hx_estate) :=
  match st with
  | (validBg, bg, validFg, fg) =>
    match test_colours (concat t) with
    | (mono, solid, newBg, newFg) =>
      let sendBg := negb validBg || negb (newBg =? bg) in
      let fl_bg := if sendBg then c_hexBg else 0 in
      let by_bg := if sendBg then le_bytes bypp newBg else [] in
      if solid then Ok (fl_bg :: by_bg, (true, newBg, validFg, fg))
      else
        let sendFg := mono && (negb validFg || negb (newFg =? fg)) in
        let fl := fl_bg + c_hexAny + (if mono then (if sendFg then c_hexFg else 0) else c_hexColoured) in
        let by_fg := if sendFg then le_bytes bypp newFg else [] in
        let fg' := if sendFg then newFg else fg in
        let per := if mono then 2 else Z.of_nat bypp + 2 in
        match subrect_encode tw th t newBg 1 per (Z.of_nat (tw * th * bypp)) with
        | Ok subs =>
          Ok (fl :: by_bg ++ by_fg ++ (Z.of_nat (length subs) mod 256) :: flat_map (hx_sub_bytes mono bypp) subs,
              (true, newBg, mono, fg'))
        | Fallback =>
          Ok (c_hexRaw :: grid_bytes bypp t, (false, newBg, false, fg'))
        | Err => Err
        end
    end
  end.

Fixpoint hx_tiles (bypp : nat) (ts : list (nat * nat * nat * nat)) (g : grid) (st : hx_estate)
  : res (list Z) :=
  match ts with
  | [] => Ok []
  | (x, y, tw, th) :: ts' =>
    match hx_tile bypp tw th (crop g x y tw th) st with
    | Ok (bs, st') =>
      match hx_tiles bypp ts' g st' with
      | Ok rest => Ok (bs ++ rest)
      | Fallback => Fallback
      | Err => Err
      end
    | Fallback => Fallback
    | Err => Err
    end
  end.

Definition hextile_payload (bypp w h : nat) (g : grid) : res (list Z) :=
  let ts := Z.to_nat c_hexTile in
  hx_tiles bypp (tiles w h ts ts) g (false, 0, false, 0).
