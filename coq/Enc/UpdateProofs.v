(* C01 - top level: every rectangle the mirror of the server puts on the wire decodes, by the
   RFB-spec decoders alone, to exactly the framebuffer pixels of that rectangle (already
   translated to the client's format). *)
From Coq Require Import ZArith List Lia Bool Arith.
From LV Require Import Enc.EncBase Enc.EncBaseProofs Enc.Subrect Enc.SubrectProofs Enc.Raw Enc.RRE Enc.Hextile
     Enc.Zlib Enc.ZRLE Enc.Update Enc.RawRREProofs Enc.HextileProofs Enc.SplitProofs Enc.ZRLEProofs1 Enc.ZRLEProofs4
     Dec.SpecBase Dec.SpecPaint Dec.SpecRaw Dec.SpecRRE Dec.SpecHextile Dec.SpecZRLE Dec.SpecUpdate Gen.Consts_C01.
Import ListNotations.

(* the regenerated encoding numbers are the ones the specification assigns *)
Lemma enc_consts :
  c_encRaw = 0%Z /\ c_encRRE = 2%Z /\ c_encCoRRE = 4%Z /\ c_encHextile = 5%Z /\ c_encZlib = 6%Z /\
  c_encUltra = 9%Z /\ c_encZRLE = 16%Z.
Proof. repeat split; reflexivity. Qed.

(* the property predicate for one wire rectangle *)
Definition rect_ok (bypp cmode : nat) (scr : grid) (r : wrect) : Prop :=
  dec_rect (w_enc r) bypp cmode (w_w r) (w_h r) (w_payload r) =
  Some (crop scr (w_x r) (w_y r) (w_w r) (w_h r)).

Ltac inv_ok E :=
  match type of E with
  | Ok ?a = Ok ?b => let Q := fresh "Q" in assert (Q : b = a) by congruence; subst b; clear E
  end.

Definition geom (r : wrect) : nat * nat * nat * nat := (w_x r, w_y r, w_w r, w_h r).

Section Screen.
  Variables (W H bypp cmode : nat) (scr : grid).
  Hypothesis WF : wf_grid W H scr.
  Hypothesis PIX : grid_pix_ok bypp scr.

  Lemma send_raw_ok x y w h rects :
    x + w <= W -> y + h <= H -> send_raw bypp x y w h scr = Ok rects ->
    Forall (rect_ok bypp cmode scr) rects /\
    map geom rects = (if (w =? 0) || (h =? 0) then [] else [(x, y, w, h)]).
  Proof.
    intros HX HY E. unfold send_raw in E. destruct ((w =? 0) || (h =? 0)).
    - inversion E; subst. split; constructor.
    - destruct (raw_send bufsize bypp _ _) as [chunks| |] eqn:RS; try discriminate.
      inv_ok E. split; [|reflexivity].
      constructor; [|constructor]. unfold rect_ok. cbn [w_enc w_w w_h w_x w_y w_payload].
      destruct (raw_roundtrip bufsize bypp _ w h _ chunks (wf_crop W H scr x y w h WF HX HY)
                  (grid_pix_ok_crop bypp scr x y w h PIX) RS) as (payload & EQ & DEC).
      rewrite EQ. rewrite skipn_app, skipn_all, Nat.sub_diag. cbn [skipn app].
      destruct enc_consts as (K & _). rewrite K. exact DEC.
  Qed.

  Lemma send_rre_ok fsz enc x y w h rects :
    x + w <= W -> y + h <= H ->
    (Z.of_nat w < 256 ^ Z.of_nat fsz)%Z -> (Z.of_nat h < 256 ^ Z.of_nat fsz)%Z ->
    (fsz = 2 /\ enc = c_encRRE \/ fsz = 1 /\ enc = c_encCoRRE) ->
    send_rre fsz enc bypp x y w h scr = Ok rects ->
    Forall (rect_ok bypp cmode scr) rects /\
    (map geom rects = [(x, y, w, h)] \/ map geom rects = []).
  Proof.
    intros HX HY BW BH FE E. unfold send_rre in E.
    destruct (rre_payload fsz bypp w h (crop scr x y w h)) as [p| |] eqn:RP; try discriminate.
    - inv_ok E. split; [|left; reflexivity].
      constructor; [|constructor]. unfold rect_ok. cbn [w_enc w_w w_h w_x w_y w_payload].
      assert (D : dec_rre_gen fsz bypp w h p = Some (crop scr x y w h)).
      { apply rre_roundtrip; auto.
        - apply (wf_crop W H); auto.
        - apply grid_pix_ok_crop; auto.
        - destruct FE as [[-> _]|[-> _]]; lia. }
      destruct enc_consts as (_ & K2 & K4 & _).
      destruct FE as [[-> ->]|[-> ->]]; [rewrite K2|rewrite K4]; exact D.
    - destruct (send_raw_ok x y w h rects HX HY E) as [A B]. split; [assumption|].
      rewrite B. destruct ((w =? 0) || (h =? 0)); auto.
  Qed.

  Lemma send_hextile_ok x y w h rects :
    x + w <= W -> y + h <= H -> send_hextile bypp x y w h scr = Ok rects ->
    Forall (rect_ok bypp cmode scr) rects /\ map geom rects = [(x, y, w, h)].
  Proof.
    intros HX HY E. unfold send_hextile in E.
    destruct (hextile_payload bypp w h (crop scr x y w h)) as [p| |] eqn:HP; try discriminate.
    inv_ok E. split; [|reflexivity].
    constructor; [|constructor]. unfold rect_ok. cbn [w_enc w_w w_h w_x w_y w_payload].
    destruct enc_consts as (_ & _ & _ & K5 & _). rewrite K5.
    change (dec_rect 5 bypp cmode w h p) with (dec_hextile_on (mk_grid w h 0%Z) bypp w h p).
    apply hextile_roundtrip; auto using wf_mk_grid.
    - apply (wf_crop W H); auto.
    - apply grid_pix_ok_crop; auto.
  Qed.

  (* Zlib / Ultra: the payload handed to the decoder is the decompressor's output, which is
     what the model calls the payload (compression is an oracle, see StreamProofs.v) *)
  Lemma strip_rect_ok enc x sy w sh :
    x + w <= W -> sy + sh <= H -> (enc = 6%Z \/ enc = 9%Z) ->
    rect_ok bypp cmode scr (mkW x sy w sh enc (grid_bytes bypp (crop scr x sy w sh))).
  Proof.
    intros HX HY HE. unfold rect_ok. cbn [w_enc w_w w_h w_x w_y w_payload].
    assert (D : dec_raw bypp w sh (grid_bytes bypp (crop scr x sy w sh)) = Some (crop scr x sy w sh)).
    { apply dec_raw_grid_bytes; [apply (wf_crop W H); auto|apply grid_pix_ok_crop; auto]. }
    destruct HE as [-> | ->]; exact D.
  Qed.

  Lemma res_concat_forall {A} (f : A -> res (list wrect)) (gm : A -> list (nat * nat * nat * nat)) :
    forall l rects,
    (forall a rs, In a l -> f a = Ok rs -> Forall (rect_ok bypp cmode scr) rs /\ map geom rs = gm a) ->
    res_concat (map f l) = Ok rects ->
    Forall (rect_ok bypp cmode scr) rects /\ map geom rects = flat_map gm l.
  Proof.
    induction l as [|a l IH]; intros rects HF E.
    - simpl in E. inv_ok E. split; constructor.
    - cbn [map res_concat] in E. destruct (f a) as [ra| |] eqn:FA.
      + destruct (res_concat (map f l)) as [rb| |] eqn:RC; try discriminate. inv_ok E.
        destruct (HF a ra (or_introl eq_refl) FA) as [A1 A2].
        destruct (IH rb (fun a' rs H => HF a' rs (or_intror H)) eq_refl) as [B1 B2].
        split; [apply Forall_app; auto|]. rewrite map_app, A2, B2. reflexivity.
      + destruct (res_concat (map f l)); discriminate.
      + discriminate.
  Qed.

  (* CoRRE: one wire rectangle per correMaxWidth x correMaxHeight tile *)
  Lemma send_corre_ok mw mh x y w h rects :
    x + w <= W -> y + h <= H -> 1 <= mw <= 255 -> 1 <= mh <= 255 ->
    send_corre mw mh bypp x y w h scr = Ok rects ->
    Forall (rect_ok bypp cmode scr) rects /\
    map geom rects = map (fun '(tx, ty, tw, th) => (x + tx, y + ty, tw, th)) (tiles w h mw mh).
  Proof.
    intros HX HY MW MH E. unfold send_corre in E.
    apply (res_concat_forall _ (fun '(tx, ty, tw, th) => [(x + tx, y + ty, tw, th)])) in E.
    - destruct E as [A B]. split; [assumption|]. rewrite B.
      clear. induction (tiles w h mw mh) as [|[[[a b] c] d] l IH]; [reflexivity|]. simpl. rewrite IH. reflexivity.
    - intros [[[tx ty] tw] th] rs IN SR. apply tiles_inside in IN.
      destruct IN as (I1 & I2 & I3 & I4 & I5 & I6). specialize (I5 ltac:(lia)). specialize (I6 ltac:(lia)).
      assert (BW : (Z.of_nat tw < 256 ^ Z.of_nat 1)%Z) by (change (256 ^ Z.of_nat 1)%Z with 256%Z; lia).
      assert (BH : (Z.of_nat th < 256 ^ Z.of_nat 1)%Z) by (change (256 ^ Z.of_nat 1)%Z with 256%Z; lia).
      destruct (send_rre_ok 1 c_encCoRRE (x + tx) (y + ty) tw th rs ltac:(lia) ltac:(lia) BW BH
                  (or_intror (conj eq_refl eq_refl)) SR) as [A [B|B]]; [split; assumption|].
      (* the raw fall-back of a non-empty tile is never empty *)
      exfalso. unfold send_rre in SR. destruct (rre_payload 1 bypp tw th _) eqn:RP.
      + inv_ok SR. discriminate B.
      + unfold send_raw in SR.
        replace ((tw =? 0) || (th =? 0)) with false in SR.
        2:{ symmetry. apply orb_false_iff. split; apply Nat.eqb_neq; lia. }
        destruct (raw_send bufsize bypp _ _); try discriminate. inv_ok SR. discriminate B.
      + discriminate.
  Qed.

  Lemma send_zlib_ok sbypp x y w h rects :
    x + w <= W -> y + h <= H -> 1 <= w ->
    send_zlib sbypp bypp x y w h scr = Ok rects ->
    Forall (rect_ok bypp cmode scr) rects /\
    map geom rects = map (fun '(sy, sh) => (x, sy, w, sh)) (strips c_ZLIB_MAX_RECT_SIZE y w h).
  Proof.
    intros HX HY HW E. unfold send_zlib in E.
    apply (res_concat_forall _ (fun '(sy, sh) => [(x, sy, w, sh)])) in E.
    - destruct E as [A B]. split; [assumption|]. rewrite B.
      clear. induction (strips _ y w h) as [|[a b] l IH]; [reflexivity|]. simpl. rewrite IH. reflexivity.
    - intros [sy sh] rs IN SR. rewrite strips_eq in IN by assumption.
      apply in_map_iff in IN. destruct IN as (s & EQ & IS). inversion EQ; subst sy sh. clear EQ.
      apply starts_spec in IS. destruct IS as (IS & _).
      set (m := max_size c_ZLIB_MAX_RECT_SIZE w / w) in *.
      assert (M : 0 < m).
      { apply Nat.div_str_pos. unfold max_size. destruct (_ <? Z.of_nat (w * 2))%Z eqn:EE; [lia|].
        apply Z.ltb_ge in EE. lia. }
      assert (SH : 1 <= Nat.min m (h - s)) by lia.
      destruct (Z.of_nat (w * Nat.min m (h - s) * sbypp) <? c_ZLIB_MIN_COMP)%Z.
      + destruct (send_raw_ok x (y + s) w (Nat.min m (h - s)) rs ltac:(lia) ltac:(lia) SR) as [A B].
        split; [assumption|]. rewrite B.
        replace ((w =? 0) || (Nat.min m (h - s) =? 0)) with false; [reflexivity|].
        symmetry. apply orb_false_iff. split; apply Nat.eqb_neq; lia.
      + inv_ok SR. split; [|reflexivity]. constructor; [|constructor].
        destruct enc_consts as (_ & _ & _ & _ & K6 & _). rewrite K6.
        apply strip_rect_ok; auto; lia.
  Qed.

  Lemma send_ultra_ok x y w h rects :
    x + w <= W -> y + h <= H -> 1 <= w ->
    send_ultra bypp x y w h scr = Ok rects ->
    Forall (rect_ok bypp cmode scr) rects /\
    map geom rects = map (fun '(sy, sh) => (x, sy, w, sh)) (strips c_ULTRA_MAX_RECT_SIZE y w h).
  Proof.
    intros HX HY HW E. unfold send_ultra in E. inv_ok E. split.
    - apply Forall_forall. intros r Hr. apply in_map_iff in Hr. destruct Hr as ([sy sh] & <- & IN).
      rewrite strips_eq in IN by assumption.
      apply in_map_iff in IN. destruct IN as (s & EQ & IS). inversion EQ; subst sy sh. clear EQ.
      apply starts_spec in IS. destruct IS as (IS & _).
      destruct enc_consts as (_ & _ & _ & _ & _ & K9 & _). rewrite K9.
      apply strip_rect_ok; auto; lia.
    - rewrite map_map. apply map_ext. intros [sy sh]. reflexivity.
  Qed.

  (* ZRLE, all template instances but BPP = 15, pixels within the CPIXEL form in use *)
  Lemma send_zrle_ok x y w h rects :
    x + w <= W -> y + h <= H -> Forall (Forall (cpix_ok bypp cmode)) scr ->
    send_zrle bypp cmode false x y w h scr = Ok rects ->
    Forall (rect_ok bypp cmode scr) rects /\ map geom rects = [(x, y, w, h)].
  Proof.
    intros HX HY CP E. unfold send_zrle in E.
    destruct (zrle_payload bypp cmode false w h (crop scr x y w h)) as [p|] eqn:ZP; [|discriminate].
    inv_ok E. split; [|reflexivity].
    constructor; [|constructor]. unfold rect_ok. cbn [w_enc w_w w_h w_x w_y w_payload].
    destruct enc_consts as (_ & _ & _ & _ & _ & _ & K16). rewrite K16.
    change (dec_rect 16 bypp cmode w h p) with (dec_zrle_on (mk_grid w h 0%Z) bypp cmode w h p).
    apply zrle_roundtrip; auto using wf_mk_grid.
    - apply (wf_crop W H); auto.
    - apply cpix_ok_crop; auto.
  Qed.
End Screen.

(* pieces of a request, relative to its origin *)
Definition rel_geoms (x y : nat) (rects : list wrect) : list (nat * nat * nat * nat) :=
  map (fun r => (w_x r - x, w_y r - y, w_w r, w_h r)) rects.

Lemma rel_geoms_shift x y : forall rects l,
  map geom rects = map (fun '(a, b, c, d) => (x + a, y + b, c, d)) l ->
  rel_geoms x y rects = l /\ Forall (fun r => x <= w_x r /\ y <= w_y r) rects.
Proof.
  induction rects as [|r rs IH]; intros [|[[[a b] c] d] l] B; try discriminate; [split; constructor|].
  cbn [map] in B. injection B as Hx Hy Hw Hh Hl. destruct (IH l Hl) as [I1 I2]. split.
  - unfold rel_geoms in *. cbn [map]. rewrite I1, Hx, Hy, Hw, Hh.
    replace (x + a - x) with a by lia. replace (y + b - y) with b by lia. reflexivity.
  - constructor; [lia|assumption].
Qed.

(* C01 for one rectangle of the update region and every modelled lossless encoding: all wire
   rectangles decode to the framebuffer, they lie inside the request and partition it *)
Theorem send_rect_ok W H scr p x y w h rects :
  wf_grid W H scr -> grid_pix_ok (p_bypp p) scr ->
  x + w <= W -> y + h <= H -> 1 <= w -> 1 <= h -> (Z.of_nat w < 65536)%Z -> (Z.of_nat h < 65536)%Z ->
  1 <= p_mw p <= 255 -> 1 <= p_mh p <= 255 ->
  (p_enc p = c_encZRLE -> p_b15 p = false /\ Forall (Forall (cpix_ok (p_bypp p) (p_cmode p))) scr) ->
  send_rect p x y w h scr = Ok rects ->
  Forall (rect_ok (p_bypp p) (p_cmode p) scr) rects /\
  Forall (fun r => x <= w_x r /\ y <= w_y r) rects /\
  partitions w h (rel_geoms x y rects).
Proof.
  intros WF PIX HX HY HW HH BW BH MW MH ZR E. unfold send_rect in E.
  assert (ONE : partitions w h [(0, 0, w, h)]).
  { split; [|split].
    - intros a b c d [Q|[]]. inversion Q; subst. lia.
    - intros i j Hi Hj. exists (0, 0, w, h). split; [left; reflexivity|]. simpl. lia.
    - intros a b i j [<-|[]] [<-|[]] _ _. reflexivity. }
  assert (SINGLE : forall rs, map geom rs = [(x, y, w, h)] ->
            Forall (fun r => x <= w_x r /\ y <= w_y r) rs /\ rel_geoms x y rs = [(0, 0, w, h)]).
  { intros [|r [|r2 rs]] G; try discriminate. inversion G. unfold rel_geoms. cbn [map].
    split; [constructor; [lia|constructor]|]. rewrite !Nat.sub_diag. reflexivity. }
  destruct ((p_enc p =? c_encRaw) || (p_enc p =? -1))%Z.
  { destruct (send_raw_ok W H (p_bypp p) (p_cmode p) scr WF PIX x y w h rects HX HY E) as [A B].
    replace ((w =? 0) || (h =? 0)) with false in B by (symmetry; apply orb_false_iff; split; apply Nat.eqb_neq; lia).
    destruct (SINGLE rects B) as [C D]. rewrite D. auto. }
  destruct (p_enc p =? c_encRRE)%Z.
  { assert (B1 : (Z.of_nat w < 256 ^ Z.of_nat 2)%Z) by (change (256 ^ Z.of_nat 2)%Z with 65536%Z; lia).
    assert (B2 : (Z.of_nat h < 256 ^ Z.of_nat 2)%Z) by (change (256 ^ Z.of_nat 2)%Z with 65536%Z; lia).
    destruct (send_rre_ok W H (p_bypp p) (p_cmode p) scr WF PIX 2 c_encRRE x y w h rects HX HY B1 B2
                (or_introl (conj eq_refl eq_refl)) E) as [A [B|B]].
    - destruct (SINGLE rects B) as [C D]. rewrite D. auto.
    - exfalso. unfold send_rre in E. destruct (rre_payload 2 (p_bypp p) w h _).
      + inv_ok E. discriminate B.
      + unfold send_raw in E.
        replace ((w =? 0) || (h =? 0)) with false in E by (symmetry; apply orb_false_iff; split; apply Nat.eqb_neq; lia).
        destruct (raw_send bufsize (p_bypp p) _ _); try discriminate. inv_ok E. discriminate B.
      + discriminate. }
  destruct (p_enc p =? c_encCoRRE)%Z.
  { destruct (send_corre_ok W H (p_bypp p) (p_cmode p) scr WF PIX (p_mw p) (p_mh p) x y w h rects HX HY MW MH E) as [A B].
    split; [assumption|].
    assert (R : rel_geoms x y rects = tiles w h (p_mw p) (p_mh p) /\ Forall (fun r => x <= w_x r /\ y <= w_y r) rects).
    { apply rel_geoms_shift. exact B. }
    destruct R as [R1 R2]. split; [assumption|]. rewrite R1. apply tiles_partition; lia. }
  destruct (p_enc p =? c_encHextile)%Z.
  { destruct (send_hextile_ok W H (p_bypp p) (p_cmode p) scr WF PIX x y w h rects HX HY E) as [A B].
    destruct (SINGLE rects B) as [C D]. rewrite D. auto. }
  destruct (p_enc p =? c_encZlib)%Z.
  { destruct (send_zlib_ok W H (p_bypp p) (p_cmode p) scr WF PIX (p_sbypp p) x y w h rects HX HY HW E) as [A B].
    split; [assumption|].
    assert (R : rel_geoms x y rects = map (fun '(sy, sh) => (0, sy, w, sh)) (strips c_ZLIB_MAX_RECT_SIZE 0 w h) /\
                Forall (fun r => x <= w_x r /\ y <= w_y r) rects).
    { apply rel_geoms_shift. rewrite B. rewrite !strips_eq by assumption. rewrite !map_map.
      apply map_ext. intros s. cbn [Nat.add]. replace (0 + s) with s by lia. rewrite Nat.add_0_r. reflexivity. }
    destruct R as [R1 R2]. split; [assumption|]. rewrite R1. apply strips_partition; lia. }
  destruct (p_enc p =? c_encUltra)%Z.
  { destruct (send_ultra_ok W H (p_bypp p) (p_cmode p) scr WF PIX x y w h rects HX HY HW E) as [A B].
    split; [assumption|].
    assert (R : rel_geoms x y rects = map (fun '(sy, sh) => (0, sy, w, sh)) (strips c_ULTRA_MAX_RECT_SIZE 0 w h) /\
                Forall (fun r => x <= w_x r /\ y <= w_y r) rects).
    { apply rel_geoms_shift. rewrite B. rewrite !strips_eq by assumption. rewrite !map_map.
      apply map_ext. intros s. cbn [Nat.add]. replace (0 + s) with s by lia. rewrite Nat.add_0_r. reflexivity. }
    destruct R as [R1 R2]. split; [assumption|]. rewrite R1. apply strips_partition; lia. }
  destruct (p_enc p =? c_encZRLE)%Z eqn:EZ; [|discriminate].
  apply Z.eqb_eq in EZ. destruct (ZR EZ) as [B15 CP]. rewrite B15 in E.
  destruct (send_zrle_ok W H (p_bypp p) (p_cmode p) scr WF x y w h rects HX HY CP E) as [A B].
  destruct (SINGLE rects B) as [C D]. rewrite D. auto.
Qed.
