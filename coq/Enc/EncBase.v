(* C01 - shared definitions for encoders (mirror models) and RFB-spec decoders.
   Pixels are Z (the value a little-endian host reads from the translated buffer: its
   little-endian bytes are the bytes on the wire), byte strings are [list Z], a pixel grid is a
   list of rows.  Geometry is in nat (list positions), values in Z.  No repo knowledge here. *)
From Coq Require Import ZArith List Lia Bool Arith.
Import ListNotations.

Notation row := (list Z) (only parsing).
Notation grid := (list (list Z)) (only parsing).

(* three-valued result of a mirrored encoder: the C function either produces output,
   gives up ("too large, use raw") or the model was driven outside its domain *)
Inductive res (A : Type) : Type :=
| Ok (a : A)
| Fallback
| Err.
Arguments Ok {A} a.
Arguments Fallback {A}.
Arguments Err {A}.

Definition gget (g : grid) (x y : nat) : option Z :=
  match nth_error g y with
  | Some r => nth_error r x
  | None => None
  end.

Definition wf_grid (w h : nat) (g : grid) : Prop :=
  length g = h /\ Forall (fun r => length r = w) g.

Definition wf_gridb (w h : nat) (g : grid) : bool :=
  Nat.eqb (length g) h && forallb (fun r => Nat.eqb (length r) w) g.

Definition mk_grid (w h : nat) (c : Z) : grid := repeat (repeat c w) h.

(* overwrite n cells of a row from position x with colour c *)
Definition set_span (x n : nat) (c : Z) (r : row) : row :=
  firstn x r ++ repeat c n ++ skipn (x + n) r.

(* overwrite the rectangle (x,y,w,h) with colour c; callers check the bounds *)
Definition fill_rect (g : grid) (x y w h : nat) (c : Z) : grid :=
  firstn y g ++ map (set_span x w c) (firstn h (skipn y g)) ++ skipn (y + h) g.

Definition crop (g : grid) (x y w h : nat) : grid :=
  map (fun r => firstn w (skipn x r)) (firstn h (skipn y g)).

Definition paste_row (x : nat) (src r : row) : row :=
  firstn x r ++ src ++ skipn (x + length src) r.

Fixpoint paste_rows (x : nat) (t : grid) (g : grid) : grid :=
  match t, g with
  | s :: t', r :: g' => paste_row x s r :: paste_rows x t' g'
  | _, _ => g
  end.

(* write tile t with its top-left corner at (x,y); callers check the bounds *)
Definition paste (g : grid) (x y : nat) (t : grid) : grid :=
  firstn y g ++ paste_rows x t (skipn y g).

(* ------------------------------------------------------------------ bytes *)
Fixpoint le_bytes (n : nat) (v : Z) : list Z :=
  match n with
  | O => []
  | S k => (v mod 256)%Z :: le_bytes k (v / 256)%Z
  end.

Fixpoint le_val (bs : list Z) : Z :=
  match bs with
  | [] => 0%Z
  | b :: t => (b + 256 * le_val t)%Z
  end.

Definition be_bytes (n : nat) (v : Z) : list Z := rev (le_bytes n v).
Definition be_val (bs : list Z) : Z := le_val (rev bs).

Definition byte_ok (b : Z) : Prop := (0 <= b < 256)%Z.
Definition bytes_ok (bs : list Z) : Prop := Forall byte_ok bs.
Definition pix_ok (bypp : nat) (p : Z) : Prop := (0 <= p < 256 ^ Z.of_nat bypp)%Z.
Definition grid_pix_ok (bypp : nat) (g : grid) : Prop := Forall (Forall (pix_ok bypp)) g.

(* take exactly n items; None when the input is too short (never a default) *)
Fixpoint take {A} (n : nat) (l : list A) : option (list A * list A) :=
  match n with
  | O => Some ([], l)
  | S k =>
    match l with
    | [] => None
    | a :: t =>
      match take k t with
      | Some (p, r) => Some (a :: p, r)
      | None => None
      end
    end
  end.

Definition row_bytes (bypp : nat) (r : row) : list Z := flat_map (le_bytes bypp) r.
Definition grid_bytes (bypp : nat) (g : grid) : list Z := flat_map (row_bytes bypp) g.

(* parse n pixels of bypp bytes each *)
Fixpoint take_pixels (bypp : nat) (n : nat) (bs : list Z) : option (list Z * list Z) :=
  match n with
  | O => Some ([], bs)
  | S k =>
    match take bypp bs with
    | None => None
    | Some (pb, rest) =>
      match take_pixels bypp k rest with
      | None => None
      | Some (ps, rest') => Some (le_val pb :: ps, rest')
      end
    end
  end.

Fixpoint take_rows (bypp w : nat) (h : nat) (bs : list Z) : option (grid * list Z) :=
  match h with
  | O => Some ([], bs)
  | S k =>
    match take_pixels bypp w bs with
    | None => None
    | Some (r, rest) =>
      match take_rows bypp w k rest with
      | None => None
      | Some (g, rest') => Some (r :: g, rest')
      end
    end
  end.

(* positions of a w x h area in C scan order (y outer, x inner) *)
Definition positions (w h : nat) : list (nat * nat) :=
  flat_map (fun y => map (fun x => (x, y)) (seq 0 w)) (seq 0 h).

(* tile origins 0, step, 2*step, ... below n (fuel n is always enough when step >= 1) *)
Fixpoint starts_from (fuel : nat) (s n step : nat) : list nat :=
  match fuel with
  | O => []
  | S f => if Nat.ltb s n then s :: starts_from f (s + step) n step else []
  end.
Definition starts (n step : nat) : list nat := starts_from n 0 n step.

(* tiles of a w x h area, row-major, as (x, y, tw, th) *)
Definition tiles (w h tw th : nat) : list (nat * nat * nat * nat) :=
  flat_map (fun y => map (fun x => (x, y, Nat.min tw (w - x), Nat.min th (h - y))) (starts w tw))
           (starts h th).

(* ------------------------------------------------------------------ packed digits *)
(* value of a digit string in base B, most significant first *)
Definition dv (B : Z) (l : list Z) : Z := fold_left (fun acc d => (acc * B + d)%Z) l 0%Z.

(* groups of m digits, each written as one number, the last group padded with zero digits *)
Fixpoint pack_chunks (fuel m : nat) (B : Z) (idxs : list Z) : list Z :=
  match fuel with
  | O => []
  | S f =>
    match idxs with
    | [] => []
    | _ => dv B (firstn m idxs ++ repeat 0%Z (m - length (firstn m idxs))) :: pack_chunks f m B (skipn m idxs)
    end
  end.
