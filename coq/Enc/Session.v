(* C01_session_nontight - a whole connection (all encodings of send_rect; Tight rectangles and their wire
   layer are in TightWire.v, the whole connection with every encoding in Connection.v): SetEncodings / SetPixelFormat changes and framebuffer updates
   in any order; the payloads of Zlib (6), ZRLE (16) and Ultra (9) rectangles go through
   compressors whose state persists for the connection (one per encoding, as in rfbClientRec:
   compStream, zrleData->zs); LZO (Ultra) is a separate, stateless oracle.
   The compressors are oracles: Section variables with round-trip hypotheses on NON-EMPTY data
   (deflate with no input returns Z_BUF_ERROR; no rectangle has an empty payload). *)
From Coq Require Import ZArith List Lia Bool Arith.
From LV Require Import Enc.EncBase Enc.Update Dec.SpecBase Dec.SpecUpdate.
Import ListNotations.

Inductive step :=
| SetParams (p : enc_params)                 (* SetEncodings / SetPixelFormat took effect *)
| Update (x y w h : nat) (scr : grid).       (* one rectangle of an update region; scr = translated screen *)

Section Session.
  Variables cstate dstate : Type.
  Variable compress : cstate -> list Z -> list Z * cstate.
  Variable decompress : dstate -> list Z -> option (list Z * dstate).
  Variable lzo : list Z -> list Z.                      (* lzo1x_1_compress *)
  Variable unlzo : list Z -> option (list Z).           (* lzo1x_decompress *)

  (* zlib stream, zrle stream *)
  Definition cstates := (cstate * cstate)%type.
  Definition dstates := (dstate * dstate)%type.

  Definition wire_rect (cs : cstates) (r : wrect) : wrect * cstates :=
    let '(cz, cr) := cs in
    let put := fun pl => mkW (w_x r) (w_y r) (w_w r) (w_h r) (w_enc r) pl in
    if (w_enc r =? 6)%Z then (put (fst (compress cz (w_payload r))), (snd (compress cz (w_payload r)), cr))
    else if (w_enc r =? 16)%Z then (put (fst (compress cr (w_payload r))), (cz, snd (compress cr (w_payload r))))
    else if (w_enc r =? 9)%Z then (put (lzo (w_payload r)), cs)
    else (r, cs).

  Fixpoint wire_rects (cs : cstates) (rs : list wrect) : list wrect * cstates :=
    match rs with
    | [] => ([], cs)
    | r :: t => let '(r', cs1) := wire_rect cs r in let '(t', cs2) := wire_rects cs1 t in (r' :: t', cs2)
    end.

  (* the server side of a connection: the wire rectangles of every update, in order *)
  Fixpoint run_session (p : enc_params) (cs : cstates) (steps : list step) : res (list (list wrect)) :=
    match steps with
    | [] => Ok []
    | SetParams p' :: t => run_session p' cs t
    | Update x y w h scr :: t =>
      match send_rect p x y w h scr with
      | Ok rects =>
        let '(wire, cs') := wire_rects cs rects in
        match run_session p cs' t with
        | Ok rest => Ok (wire :: rest)
        | Fallback => Fallback
        | Err => Err
        end
      | Fallback => Fallback
      | Err => Err
      end
    end.

  (* the client side, by the specification: persistent decompressors, then the rectangle decoder *)
  Definition unwire_rect (bypp cmode : nat) (ds : dstates) (r : wrect) : option (grid * dstates) :=
    let '(dz, dr) := ds in
    let dec := fun pl => dec_rect (w_enc r) bypp cmode (w_w r) (w_h r) pl in
    if (w_enc r =? 6)%Z then
      do (pl, dz') <- decompress dz (w_payload r); do g <- dec pl; Some (g, (dz', dr))
    else if (w_enc r =? 16)%Z then
      do (pl, dr') <- decompress dr (w_payload r); do g <- dec pl; Some (g, (dz, dr'))
    else if (w_enc r =? 9)%Z then
      do pl <- unlzo (w_payload r); do g <- dec pl; Some (g, ds)
    else do g <- dec (w_payload r); Some (g, ds).

  Fixpoint unwire_rects (bypp cmode : nat) (ds : dstates) (rs : list wrect) : option (list grid * dstates) :=
    match rs with
    | [] => Some ([], ds)
    | r :: t =>
      do (g, ds1) <- unwire_rect bypp cmode ds r;
      do (gs, ds2) <- unwire_rects bypp cmode ds1 t;
      Some (g :: gs, ds2)
    end.

  (* the client follows the same parameter changes (it issued them) *)
  Fixpoint client_session (p : enc_params) (ds : dstates) (steps : list step) (wire : list (list wrect))
    : option (list (list grid)) :=
    match steps with
    | [] => match wire with [] => Some [] | _ => None end
    | SetParams p' :: t => client_session p' ds t wire
    | Update _ _ _ _ _ :: t =>
      match wire with
      | [] => None
      | rs :: wt =>
        do (gs, ds') <- unwire_rects (p_bypp p) (p_cmode p) ds rs;
        do rest <- client_session p ds' t wt;
        Some (gs :: rest)
      end
    end.
End Session.
