(* C01_send_rect for ZRLE with p_cmode tied to the client format: the mode the (repaired) server
   computes from the format, the decoder using the specification's mode. *)
From Coq Require Import ZArith List Lia Bool Arith.
From LV Require Import Enc.EncBase Enc.EncBaseProofs Enc.ZRLE Enc.ZRLEProofs1 Enc.ZRLEFormatProofs Enc.Update Enc.UpdateProofs
     Enc.SplitProofs Dec.SpecZRLE Dec.SpecUpdate Gen.Consts_C01.
Import ListNotations.
Local Open Scope Z_scope.

Theorem send_rect_zrle_format W H p depth be tc rmax gmax bmax rs gs bs (vals : list (list Z)) x y w h rects :
  fmt_wf 32 rmax gmax bmax rs gs bs -> tc <> 0 -> depth <= 24 ->
  p_enc p = c_encZRLE -> p_bypp p = 4%nat -> p_b15 p = false ->
  p_cmode p = zrle_cmode_gen false 32 be rmax gmax bmax rs gs bs ->
  wf_grid W H vals ->
  Forall (Forall (fun v => 0 <= v /\ Z.land v (maxpix rmax gmax bmax rs gs bs) = v)) vals ->
  (x + w <= W)%nat -> (y + h <= H)%nat -> (1 <= w)%nat -> (1 <= h)%nat -> Z.of_nat w < 65536 -> Z.of_nat h < 65536 ->
  (1 <= p_mw p <= 255)%nat -> (1 <= p_mh p <= 255)%nat ->
  let scr := map (map (grid_of_value 32 be)) vals in
  send_rect p x y w h scr = Ok rects ->
  Forall (rect_ok 4 (spec_cmode 32 depth be tc rmax gmax bmax rs gs bs) scr) rects /\
  partitions w h (rel_geoms x y rects).
Proof.
  intros WFF TC D PE PB P15 PC WF PIX HX HY HW HH BW BH MW MH scr E.
  assert (CM : p_cmode p = spec_cmode 32 depth be tc rmax gmax bmax rs gs bs).
  { rewrite PC. apply zrle_cmode_repaired_is_spec; assumption. }
  assert (WS : wf_grid W H scr).
  { destruct WF as [L F]. split; [unfold scr; rewrite map_length; exact L|].
    unfold scr. apply Forall_forall. intros r Hr. apply in_map_iff in Hr. destruct Hr as (r0 & <- & I0).
    rewrite map_length. rewrite Forall_forall in F. auto. }
  assert (CP : Forall (Forall (cpix_ok 4 (spec_cmode 32 depth be tc rmax gmax bmax rs gs bs))) scr).
  { unfold scr. apply Forall_forall. intros r Hr. apply in_map_iff in Hr. destruct Hr as (r0 & <- & I0).
    rewrite Forall_forall in PIX. specialize (PIX r0 I0).
    apply Forall_forall. intros q Hq. apply in_map_iff in Hq. destruct Hq as (v & <- & IV).
    rewrite Forall_forall in PIX. destruct (PIX v IV) as [V0 VM]. apply cpix_ok_of_format; assumption. }
  assert (GP : grid_pix_ok 4 scr).
  { unfold grid_pix_ok. eapply Forall_impl; [|exact CP]. intros r Fr. eapply Forall_impl; [|exact Fr].
    intros q. apply cpix_ok_pix_ok. }
  destruct (send_rect_ok W H scr p x y w h rects WS) as (A & B & C); auto.
  - rewrite PB. exact GP.
  - intros _. split; [exact P15|]. rewrite PB, CM. exact CP.
  - rewrite PB, CM in A. auto.
Qed.
