(* C01 - Tight: the mirror never gives up (tight_subrect / send_tight / send_tight_session answer
   Some / Ok on every well-formed request under a valid tightConf row) and what it emits are bytes. *)
From Coq Require Import ZArith List Lia Bool Arith.
From LV Require Import Enc.EncBase Enc.EncBaseProofs Enc.ZRLE Enc.ZRLEProofs1 Enc.ZRLEProofs2 Enc.ZRLEProofs4 Enc.Update Enc.UpdateProofs
     Enc.HextileProofs Enc.BytesProofs Enc.TotalProofs Enc.Tight Enc.TightProofs Enc.TightSplit Enc.TightSplitProofs Enc.TightSplitTotal Gen.Consts_C01.
Import ListNotations.
Local Open Scope Z_scope.

(* ------------------------------------------------------------------ the palette holds every pixel *)
Lemma fill_rest_covers mc : forall data ci ni pal pal', fill_rest mc data ci ni pal = Some pal' ->
  (length pal <= 256)%nat -> forall x, In x data -> In x (map fst pal').
Proof.
  induction data as [|d t IH]; intros ci ni pal pal' H L x X; [destruct X|]. cbn [fill_rest] in H.
  destruct (d =? ci) eqn:E.
  - destruct X as [X|X]; [|eapply IH; eauto]. subst x. apply Z.eqb_eq in E. subst d.
    apply fill_rest_spec in H; auto. tauto.
  - destruct (palette_insert mc pal ci ni) as [p1|] eqn:PI; [|discriminate].
    apply palette_insert_spec in PI; auto. destruct PI as (L1 & _).
    destruct X as [X|X]; [|eapply IH; eauto]. subst x. apply fill_rest_spec in H; auto. tauto.
Qed.

Lemma fill_palette_covers bypp mc data pal : fill_palette bypp mc data = Some (PIndexed pal) ->
  forall x, In x data -> In x pal.
Proof.
  unfold fill_palette. destruct data as [|c0 t]; [discriminate|].
  destruct (skip_eq c0 t 1) as [n0 rest] eqn:SK. destruct (skip_eq_spec _ _ _ _ _ SK) as (pre & -> & FP & NH).
  destruct rest as [|c1 t1]; [discriminate|].
  destruct (mc <? 2); [discriminate|].
  destruct (count_two t1 c0 c1 n0 0) as [[n0' n1'] rest2] eqn:CT.
  destruct (count_two_spec _ _ _ _ _ _ _ _ CT) as (pre2 & -> & F2).
  destruct rest2 as [|ci t2]; [destruct (n1' <? n0'); discriminate|].
  destruct (Nat.eqb bypp 1); [discriminate|].
  destruct (palette_insert mc [] c0 n0') as [p1|] eqn:I1; [|discriminate].
  destruct (palette_insert mc p1 c1 n1') as [p2|] eqn:I2; [|discriminate].
  destruct (fill_rest mc t2 ci 1 p2) as [p3|] eqn:FR; [|discriminate].
  intros H. assert (EP : pal = map fst p3) by congruence. subst pal. clear H.
  apply palette_insert_spec in I1; [|simpl; lia]. destruct I1 as (L1 & A1 & _ & _).
  apply palette_insert_spec in I2; [|assumption]. destruct I2 as (L2 & A2 & M2 & _).
  pose proof (fill_rest_covers _ _ _ _ _ _ FR L2) as COV.
  apply fill_rest_spec in FR; [|assumption]. destruct FR as (L3 & A3 & M3 & _).
  assert (IN0 : In c0 (map fst p3)) by auto. assert (IN1 : In c1 (map fst p3)) by auto.
  intros x X. destruct X as [X|X]; [subst; exact IN0|].
  apply in_app_or in X. destruct X as [X|X].
  { rewrite Forall_forall in FP. rewrite (FP x X). exact IN0. }
  destruct X as [X|X]; [subst; exact IN1|].
  apply in_app_or in X. destruct X as [X|X].
  { rewrite Forall_forall in F2. destruct (F2 x X); subst; assumption. }
  destruct X as [X|X]; [subst; exact A3|]. apply COV. exact X.
Qed.

Lemma fill_palette_some bypp mc data : data <> [] -> exists k, fill_palette bypp mc data = Some k.
Proof.
  unfold fill_palette. destruct data as [|c0 t]; [congruence|]. intros _.
  destruct (skip_eq c0 t 1) as [n0 [|c1 t1]]; [eauto|].
  destruct (mc <? 2); [eauto|].
  destruct (count_two t1 c0 c1 n0 0) as [[n0' n1'] [|ci t2]]; [eauto|].
  destruct (Nat.eqb bypp 1); [eauto|].
  destruct (palette_insert mc [] c0 n0'); [|eauto].
  destruct (palette_insert mc _ c1 n1'); [|eauto].
  destruct (fill_rest mc t2 ci 1 _); eauto.
Qed.

Lemma opt_all_total {A} (f : Z -> option A) : forall l, (forall x, In x l -> exists a, f x = Some a) ->
  exists r, opt_all (map f l) = Some r.
Proof.
  induction l as [|x t IH]; intros H; simpl; [eauto|].
  destruct (H x (or_introl eq_refl)) as (a & ->). destruct IH as (r & ->); [intros; apply H; right; assumption|]. eauto.
Qed.

(* ------------------------------------------------------------------ totality *)
Theorem tight_subrect_total p w h g : (1 <= w)%nat -> (1 <= h)%nat -> wf_grid w h g -> conf_ok (tp_conf p) ->
  exists o, tight_subrect p w h g = Some o.
Proof.
  intros Hw Hh WF CONF. unfold tight_subrect.
  destruct CONF as (monoMin & idxZ & monoZ & rawZ & divisor & palMax & C0 & C1 & C2 & C3 & C4 & C5 & _).
  rewrite C0, C1, C2, C3, C4, C5. cbv beta iota zeta.
  assert (LD : length (concat g) = (w * h)%nat) by (apply concat_length_wf; assumption).
  assert (NE : concat g <> []) by (intros Q; rewrite Q in LD; simpl in LD; nia).
  match goal with |- context [fill_palette ?a ?b ?c] => destruct (fill_palette_some a b c NE) as (k & FP) end.
  rewrite FP. destruct k as [|bg fg|pal|].
  - destruct (concat g); [congruence|eauto].
  - eauto.
  - destruct (opt_all_total (pal_index pal) (concat g)) as (idxs & ->); [|eauto].
    intros x X. apply pal_index_in. eapply fill_palette_covers; eauto.
  - destruct (tp_jpeg p && negb (tp_s8 p)); eauto.
Qed.

Theorem send_tight_total W H scr p x y w h :
  wf_grid W H scr -> conf_ok (tp_conf p) -> (x + w <= W)%nat -> (y + h <= H)%nat -> (1 <= w)%nat -> (1 <= h)%nat ->
  exists rects, send_tight p x y w h scr = Ok rects.
Proof.
  intros WF CONF HX HY HW HH. unfold send_tight.
  destruct tight_consts as (_ & KS & KW & KE). rewrite KS, KW, KE.
  apply res_concat_total. intros [[[a b] c] d] IN.
  assert (INS : (a + c <= w /\ b + d <= h /\ 1 <= c /\ 1 <= d)%nat).
  { destruct ((Z.to_nat 2048 <? w)%nat || (65536 <? Z.of_nat (w * h))).
    - apply tiles_inside in IN. destruct IN as (I1 & I2 & _ & _ & I5 & I6).
      assert (0 < Z.to_nat 65536 / (if (Z.to_nat 2048 <? w)%nat then Z.to_nat 2048 else w))%nat.
      { destruct (Z.to_nat 2048 <? w)%nat eqn:W2; [apply Nat.ltb_lt in W2|apply Nat.ltb_ge in W2]; apply Nat.div_str_pos; lia. }
      lia.
    - destruct IN as [Q|[]]. inversion Q; subst. lia. }
  destruct (tight_subrect_total p c d (crop scr (x + a) (y + b) c d)) as ([pl|] & ->); eauto; try lia.
  apply (wf_crop W H); auto; lia.
Qed.

(* C01_tight_session_total *)
Theorem send_tight_session_total strict swapfix sbypp bypp bpp depth be tc rmax gmax bmax rs gs bs level quality lastrect
        W H x y w h scr sfb :
  let p := tight_params_of strict swapfix sbypp bypp bpp depth be tc rmax gmax bmax rs gs bs level quality in
  wf_grid W H scr -> conf_ok (tp_conf p) -> (x + w <= W)%nat -> (y + h <= H)%nat -> (1 <= w)%nat -> (1 <= h)%nat ->
  exists rects, send_tight_session strict swapfix sbypp bypp bpp depth be tc rmax gmax bmax rs gs bs level quality lastrect x y w h scr sfb = Ok rects.
Proof.
  intros p WF CONF HX HY HW HH. unfold send_tight_session. fold p. destruct lastrect; [|apply (send_tight_total W H); assumption].
  destruct (tight_split_total sfb (S (w * h)) x y w h HW HH ltac:(lia)) as (pieces & TS). rewrite TS.
  pose proof (tight_split_cover sfb _ x y w h pieces HW HH TS) as (INS & _ & _).
  unfold send_tight_pieces. apply res_concat_total. intros pc IN.
  assert (G : In (tpiece_geom pc) (geoms pieces)) by (apply in_map; exact IN).
  destruct pc as [a b c d|a b c d]; cbn [tpiece_geom] in G; specialize (INS a b c d G).
  - apply (send_tight_total W H); auto; lia.
  - destruct (gget_some W H scr a b WF ltac:(lia) ltac:(lia)) as (v & ->). eauto.
Qed.

(* ------------------------------------------------------------------ bytes *)
Lemma tpixel_bytes_ok p pix : bytes_ok (tpixel_bytes p pix).
Proof.
  unfold tpixel_bytes. destruct (tp_pack24 p); [|apply le_bytes_ok].
  destruct (tp_swap p); repeat constructor; apply Z.mod_pos_bound; lia.
Qed.

Lemma pack_chunks_bytes m B : 1 < B -> B ^ Z.of_nat m <= 256 -> forall fuel idxs,
  Forall (fun d => 0 <= d < B) idxs -> bytes_ok (pack_chunks fuel m B idxs).
Proof.
  intros HB HM. induction fuel as [|f IH]; intros idxs F; cbn [pack_chunks]; [constructor|].
  destruct idxs as [|i0 t]; [constructor|]. set (l := i0 :: t) in *. constructor.
  - assert (FL : Forall (fun d => 0 <= d < B) (firstn m l ++ repeat 0 (m - length (firstn m l)))).
    { apply Forall_app. split.
      - apply Forall_forall. intros d Hd. apply In_firstn in Hd. rewrite Forall_forall in F. auto.
      - apply Forall_forall. intros d Hd. apply repeat_spec in Hd. lia. }
    pose proof (dv_bound B _ HB FL) as DB. rewrite app_length, repeat_length in DB.
    pose proof (firstn_le_length m l).
    replace (length (firstn m l) + (m - length (firstn m l)))%nat with m in DB by lia.
    unfold byte_ok. lia.
  - apply IH. apply Forall_forall. intros d Hd. apply In_skipn in Hd. rewrite Forall_forall in F. auto.
Qed.

Lemma mono_row_bytes bg r : bytes_ok (mono_row bg r).
Proof.
  unfold mono_row. apply pack_chunks_bytes; [lia|simpl; lia|].
  apply Forall_forall. intros d Hd. apply in_map_iff in Hd. destruct Hd as (q & <- & _). destruct (q =? bg); lia.
Qed.

Lemma opt_all_pal_index_range pal : forall data idxs, opt_all (map (pal_index pal) data) = Some idxs ->
  Forall (fun i => 0 <= i < Z.of_nat (length pal)) idxs.
Proof.
  induction data as [|d t IH]; intros idxs H; simpl in H.
  - inversion H; subst. constructor.
  - destruct (pal_index pal d) as [i|] eqn:PI; [|discriminate].
    destruct (opt_all (map (pal_index pal) t)) as [r|] eqn:R; [|discriminate]. inversion H; subst.
    constructor; [apply pal_index_spec in PI; tauto|apply IH; reflexivity].
Qed.

Theorem tight_subrect_bytes p w h g payload :
  tight_subrect p w h g = Some (TPayload payload) -> bytes_ok payload.
Proof.
  unfold tight_subrect.
  destruct (conf_field (tp_conf p) 0) as [monoMin|]; [|discriminate].
  destruct (conf_field (tp_conf p) 1) as [idxZ|]; [|discriminate].
  destruct (conf_field (tp_conf p) 2) as [monoZ|]; [|discriminate].
  destruct (conf_field (tp_conf p) 3) as [rawZ|]; [|discriminate].
  destruct (conf_field (tp_conf p) 4) as [divisor|]; [|discriminate].
  destruct (conf_field (tp_conf p) 5) as [palMax|]; [|discriminate]. cbv beta iota zeta.
  match goal with |- context [fill_palette ?a ?b ?c] => destruct (fill_palette a b c) as [k|] eqn:FP; [|discriminate] end.
  pose proof (fill_palette_facts _ _ _ _ FP) as FACTS.
  destruct k as [|bg fg|pal|].
  - destruct (concat g) as [|d t]; [discriminate|]. intros E. assert (Q : payload = 128 :: tpixel_bytes p d) by congruence.
    subst payload. constructor; [unfold byte_ok; lia|apply tpixel_bytes_ok].
  - intros E. match type of E with Some (TPayload ?b) = _ => assert (Q : payload = b) by congruence end. subst payload.
    constructor; [unfold byte_ok; destruct (monoZ =? 0); lia|].
    constructor; [unfold byte_ok; lia|]. constructor; [unfold byte_ok; lia|].
    apply bytes_ok_app; [apply tpixel_bytes_ok|]. apply bytes_ok_app; [apply tpixel_bytes_ok|].
    apply bytes_ok_flat_map. intros. apply mono_row_bytes.
  - destruct (opt_all (map (pal_index pal) (concat g))) as [idxs|] eqn:OA; [|discriminate].
    intros E. match type of E with Some (TPayload ?b) = _ => assert (Q : payload = b) by congruence end. subst payload.
    inversion FACTS as [| |pal0 LEN SUB|]; subst.
    constructor; [unfold byte_ok; destruct (idxZ =? 0); lia|].
    constructor; [unfold byte_ok; lia|]. constructor; [unfold byte_ok; lia|].
    apply bytes_ok_app; [apply bytes_ok_flat_map; intros; apply tpixel_bytes_ok|].
    apply opt_all_pal_index_range in OA. eapply Forall_impl; [|exact OA]. intros i Hi. cbv beta in Hi. unfold byte_ok. lia.
  - destruct (tp_jpeg p && negb (tp_s8 p)); [discriminate|].
    intros E. match type of E with Some (TPayload ?b) = _ => assert (Q : payload = b) by congruence end. subst payload.
    constructor; [unfold byte_ok; destruct (rawZ =? 0); lia|]. apply bytes_ok_flat_map. intros. apply tpixel_bytes_ok.
Qed.

Theorem send_tight_bytes p x y w h scr rects : send_tight p x y w h scr = Ok rects -> Forall pay_ok rects.
Proof.
  unfold send_tight. apply res_concat_all. intros [[[a b] c] d] rs _ E.
  destruct (tight_subrect p c d _) as [[pl|]|] eqn:TS; try discriminate; inv_ok E; (constructor; [|constructor]).
  - unfold pay_ok. cbn [w_payload]. eapply tight_subrect_bytes; eauto.
  - unfold pay_ok. cbn [w_payload]. constructor; [unfold byte_ok; lia|constructor].
Qed.

(* C01_tight_session_bytes *)
Theorem send_tight_session_bytes strict swapfix sbypp bypp bpp depth be tc rmax gmax bmax rs gs bs level quality lastrect x y w h scr sfb rects :
  send_tight_session strict swapfix sbypp bypp bpp depth be tc rmax gmax bmax rs gs bs level quality lastrect x y w h scr sfb = Ok rects ->
  Forall (fun r => bytes_ok (wire_bytes r)) rects.
Proof.
  intros E. assert (P : Forall pay_ok rects).
  { unfold send_tight_session in E. destruct lastrect; [|eapply send_tight_bytes; eauto].
    destruct (tight_split _ sfb x y w h) as [pieces|]; [|discriminate].
    unfold send_tight_pieces in E. revert E. apply res_concat_all. intros pc rs0 _ E.
    destruct pc as [a b c d|a b c d]; [eapply send_tight_bytes; eauto|].
    destruct (gget scr a b) as [v|]; [|discriminate]. inv_ok E. constructor; [|constructor].
    unfold pay_ok. cbn [w_payload]. constructor; [unfold byte_ok; lia|apply tpixel_bytes_ok]. }
  eapply Forall_impl; [|exact P]. intros r. apply wire_bytes_ok.
Qed.
