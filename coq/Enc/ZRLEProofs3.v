(* C01 - ZRLE: every sub-encoding the mirror encoder chooses is decoded by the RFB-spec decoder
   to the tile; then the whole rectangle. *)
From Coq Require Import ZArith List Lia Bool Arith Znumtheory.
From LV Require Import Enc.EncBase Enc.EncBaseProofs Enc.ZRLE Enc.ZRLEProofs1 Enc.ZRLEProofs2
     Enc.RawRREProofs Enc.HextileProofs Dec.SpecBase Dec.SpecZRLE Gen.Consts_C01.
Import ListNotations.
Local Open Scope Z_scope.

(* ------------------------------------------------------------------ packed rows, decoder side *)
Section Unpack.
  Variables (bppp : Z) (m : nat).
  Hypothesis Hb : 1 <= bppp.
  Hypothesis Hm : bppp * Z.of_nat m = 8.
  Let B := 2 ^ bppp.

  Lemma unpack_chunks : forall f idxs,
    Forall (fun d => 0 <= d < B) idxs -> (length idxs <= f)%nat ->
    firstn (length idxs) (flat_map (byte_digits m B) (pack_chunks f m B idxs)) = idxs.
  Proof.
    pose proof (B_gt1 bppp m Hb) as HB1. pose proof (m_pos bppp m Hm) as MP. fold B in HB1.
    induction f as [|f IH]; intros idxs F L.
    - destruct idxs; [reflexivity|simpl in L; lia].
    - destruct idxs as [|a l] eqn:EI; [reflexivity|]. rewrite <- EI in *.
      assert (NE : idxs <> []) by (rewrite EI; discriminate).
      rewrite pack_chunks_cons by assumption. cbn [flat_map].
      set (c := firstn m idxs).
      assert (LC : length c = Nat.min m (length idxs)) by apply firstn_length.
      assert (FC : Forall (fun d => 0 <= d < B) (c ++ repeat 0 (m - length c))).
      { apply Forall_app. split.
        - apply Forall_forall. intros x Hx. apply In_firstn in Hx. rewrite Forall_forall in F. auto.
        - apply Forall_forall. intros x Hx. apply repeat_spec in Hx. subst. lia. }
      assert (LCZ : length (c ++ repeat 0 (m - length c)) = m) by (rewrite app_length, repeat_length; lia).
      pose proof (byte_digits_dv B _ HB1 FC) as BD. rewrite LCZ in BD. rewrite BD.
      destruct (Nat.le_gt_cases m (length idxs)) as [GE|LT].
      + rewrite Nat.min_l in LC by lia. rewrite LC, Nat.sub_diag. cbn [repeat]. rewrite app_nil_r.
        rewrite firstn_app, LC.
        rewrite firstn_all2 by lia.
        assert (LS : length (skipn m idxs) = (length idxs - m)%nat) by apply skipn_length.
        rewrite <- LS. rewrite IH.
        * unfold c. apply firstn_skipn.
        * apply Forall_forall. intros x Hx. apply In_skipn in Hx. rewrite Forall_forall in F. auto.
        * lia.
      + rewrite Nat.min_r in LC by lia.
        assert (c = idxs) by (unfold c; apply firstn_all2; lia). rewrite H in *.
        rewrite skipn_all2 by lia. rewrite pack_chunks_nil. cbn [flat_map]. rewrite app_nil_r.
        rewrite firstn_app, Nat.sub_diag. cbn [firstn]. rewrite app_nil_r. apply firstn_all.
  Qed.

  Lemma pack_chunks_length : forall f idxs, (length idxs <= f)%nat ->
    length (pack_chunks f m B idxs) = Z.to_nat ((Z.of_nat (length idxs) * bppp + 7) / 8).
  Proof.
    pose proof (m_pos bppp m Hm) as MP.
    induction f as [|f IH]; intros idxs L.
    - destruct idxs; [reflexivity|simpl in L; lia].
    - destruct idxs as [|a l] eqn:EI; [reflexivity|]. rewrite <- EI in *.
      assert (NE : idxs <> []) by (rewrite EI; discriminate).
      assert (L1 : (1 <= length idxs)%nat) by (rewrite EI; simpl; lia).
      rewrite pack_chunks_cons by assumption. cbn [length].
      rewrite IH by (rewrite skipn_length; lia). rewrite skipn_length.
      destruct (Nat.le_gt_cases m (length idxs)) as [GE|LT].
      + rewrite Nat2Z.inj_sub by lia.
        replace ((Z.of_nat (length idxs) - Z.of_nat m) * bppp + 7) with ((Z.of_nat (length idxs) * bppp + 7) + (-1) * 8) by lia.
        rewrite Z.div_add by lia.
        assert (8 <= Z.of_nat (length idxs) * bppp + 7) by nia.
        assert (1 <= (Z.of_nat (length idxs) * bppp + 7) / 8) by (apply Z.div_le_lower_bound; lia). lia.
      + replace (length idxs - m)%nat with 0%nat by lia. cbn [Z.of_nat]. change ((0 * bppp + 7) / 8) with 0. cbn [Z.to_nat].
        assert ((Z.of_nat (length idxs) * bppp + 7) / 8 = 1); [|lia].
        symmetry. apply Z.div_unique with (r := Z.of_nat (length idxs) * bppp + 7 - 8); nia.
  Qed.
End Unpack.

Lemma opt_map_some {A B} (f : A -> option B) l l' :
  length l = length l' -> (forall i a b, nth_error l i = Some a -> nth_error l' i = Some b -> f a = Some b) ->
  opt_map f l = Some l'.
Proof.
  revert l'. induction l as [|a l IH]; intros [|b l'] L H; try discriminate; [reflexivity|].
  cbn [opt_map]. rewrite (H 0%nat a b eq_refl eq_refl). rewrite (IH l'); [reflexivity|simpl in L; lia|].
  intros i x y Hx Hy. apply (H (S i)); assumption.
Qed.

Lemma row_idxs_spec pal r idxs : row_idxs pal r = Some idxs ->
  length idxs = length r /\ opt_map (nth_zs pal) idxs = Some r /\
  Forall (fun d => 0 <= d < Z.of_nat (length pal)) idxs.
Proof.
  revert idxs. induction r as [|p t IH]; intros idxs H; simpl in H.
  - inversion H; subst. repeat split; constructor.
  - destruct (pal_index pal p) as [i|] eqn:PI; [|discriminate].
    destruct (row_idxs pal t) as [l|] eqn:RT; [|discriminate]. inversion H; subst.
    destruct (IH l eq_refl) as (A & B & C). destruct (pal_index_spec pal p i PI) as [R N].
    repeat split; [simpl; lia| |constructor; assumption]. cbn [opt_map]. rewrite N, B. reflexivity.
Qed.

Lemma row_idxs_total pal r : Forall (fun p => In p pal) r -> exists idxs, row_idxs pal r = Some idxs.
Proof.
  induction 1 as [|p t Hp _ [l IH]]; [simpl; eauto|]. simpl.
  destruct (pal_index_in pal p Hp) as [i ->]. rewrite IH. eauto.
Qed.

(* one packed row through encoder and decoder *)
Lemma packed_row_roundtrip bppp m pal r out rest :
  1 <= bppp -> bppp * Z.of_nat m = 8 -> Z.of_nat (length pal) <= 2 ^ bppp ->
  pack_row bppp pal r 0 0 = Some out ->
  Forall (fun p => In p pal) r ->
  take (Z.to_nat ((Z.of_nat (length r) * bppp + 7) / 8)) (out ++ rest) = Some (out, rest) /\
  unpack_row bppp (length r) pal out = Some r.
Proof.
  intros Hb Hm HP E INP.
  destruct (row_idxs_total pal r INP) as [idxs RI].
  destruct (row_idxs_spec pal r idxs RI) as (LI & OM & FI).
  assert (FB : Forall (fun d => 0 <= d < 2 ^ bppp) idxs).
  { eapply Forall_impl; [|exact FI]. intros d D. cbv beta in D. lia. }
  assert (E' : pack_row bppp pal r 0 (bppp * Z.of_nat (length (@nil Z))) = Some out) by (simpl; rewrite Z.mul_0_r; exact E).
  apply (pack_row_chunks bppp m Hb Hm pal r idxs [] 0 out RI FB) in E';
    [|constructor|simpl; pose proof (m_pos bppp m Hm); lia|lia|simpl; apply Z.mod_1_r].
  cbn [app length Nat.add] in E'.
  split.
  - rewrite <- LI. rewrite <- (pack_chunks_length bppp m Hb Hm (S (length idxs)) idxs) by lia.
    rewrite <- E'. apply take_app.
  - unfold unpack_row.
    assert (M8 : Z.to_nat (8 / bppp) = m).
    { assert (8 / bppp = Z.of_nat m); [|lia]. symmetry. apply Z.div_unique_exact; lia. }
    rewrite M8. rewrite E'. rewrite <- LI.
    rewrite (unpack_chunks bppp m Hb Hm) by (auto; lia). rewrite Nat.eqb_refl. exact OM.
Qed.
