(* C01 - what the server puts on the wire for one rectangle of the update region, per
   preferred encoding (dispatch of rfbSendFramebufferUpdate).  Result: the wire rectangles,
   each as header ++ payload (before compression for the zlib based encodings). *)
From Coq Require Import ZArith List Lia Bool Arith.
From LV Require Import Enc.EncBase Enc.Subrect Enc.Raw Enc.RRE Enc.Hextile Enc.Zlib Enc.ZRLE Gen.Consts_C01.
Import ListNotations.

Definition rect_header (x y w h : nat) (enc : Z) : list Z :=
  be_bytes 2 (Z.of_nat x) ++ be_bytes 2 (Z.of_nat y) ++ be_bytes 2 (Z.of_nat w) ++
  be_bytes 2 (Z.of_nat h) ++ be_bytes 4 enc.

(* one rectangle on the wire: geometry, encoding number, payload (before compression) *)
Record wrect := mkW { w_x : nat; w_y : nat; w_w : nat; w_h : nat; w_enc : Z; w_payload : list Z }.

Definition wire_bytes (r : wrect) : list Z :=
  rect_header (w_x r) (w_y r) (w_w r) (w_h r) (w_enc r) ++ w_payload r.

Definition bufsize : nat := Z.to_nat c_UPDATE_BUF_SIZE.

(* rfbSendRectEncodingRaw; nothing is sent for an empty rectangle *)
Definition send_raw (bypp x y w h : nat) (scr : grid) : res (list wrect) :=
  if (w =? 0) || (h =? 0) then Ok []
  else let hdr := rect_header x y w h c_encRaw in
       match raw_send bufsize bypp hdr (crop scr x y w h) with
       | Ok chunks => Ok [mkW x y w h c_encRaw (skipn (length hdr) (concat chunks))]
       | Fallback => Fallback
       | Err => Err
       end.

(* rfbSendRectEncodingRRE (fsz = 2) / rfbSendSmallRectEncodingCoRRE (fsz = 1) *)
Definition send_rre (fsz : nat) (enc : Z) (bypp x y w h : nat) (scr : grid) : res (list wrect) :=
  match rre_payload fsz bypp w h (crop scr x y w h) with
  | Ok p => Ok [mkW x y w h enc p]
  | Fallback => send_raw bypp x y w h scr        (* nSubrects < 0: use raw *)
  | Err => Err
  end.

Fixpoint res_concat {A} (l : list (res (list A))) : res (list A) :=
  match l with
  | [] => Ok []
  | r :: t =>
    match r, res_concat t with
    | Ok a, Ok b => Ok (a ++ b)
    | Err, _ => Err
    | _, Err => Err
    | _, _ => Fallback
    end
  end.

(* rfbSendRectEncodingCoRRE: the recursion (first over h, then over w) emits the
   correMaxWidth x correMaxHeight tiles in row-major order *)
Definition send_corre (mw mh bypp x y w h : nat) (scr : grid) : res (list wrect) :=
  res_concat (map (fun '(tx, ty, tw, th) => send_rre 1 c_encCoRRE bypp (x + tx) (y + ty) tw th scr)
                  (tiles w h mw mh)).

Definition send_hextile (bypp x y w h : nat) (scr : grid) : res (list wrect) :=
  match hextile_payload bypp w h (crop scr x y w h) with
  | Ok p => Ok [mkW x y w h c_encHextile p]
  | Fallback => Fallback
  | Err => Err
  end.

(* rfbSendRectEncodingZlib: strips; small strips go out Raw *)
Definition send_zlib (sbypp bypp x y w h : nat) (scr : grid) : res (list wrect) :=
  res_concat (map (fun '(sy, sh) =>
                     if (Z.of_nat (w * sh * sbypp) <? c_ZLIB_MIN_COMP)%Z then send_raw bypp x sy w sh scr
                     else Ok [mkW x sy w sh c_encZlib (grid_bytes bypp (crop scr x sy w sh))])
                  (strips c_ZLIB_MAX_RECT_SIZE y w h)).

Definition send_ultra (bypp x y w h : nat) (scr : grid) : res (list wrect) :=
  Ok (map (fun '(sy, sh) => mkW x sy w sh c_encUltra (grid_bytes bypp (crop scr x sy w sh)))
          (strips c_ULTRA_MAX_RECT_SIZE y w h)).

Definition send_zrle (bypp cmode : nat) (b15 : bool) (x y w h : nat) (scr : grid) : res (list wrect) :=
  match zrle_payload bypp cmode b15 w h (crop scr x y w h) with
  | Some p => Ok [mkW x y w h c_encZRLE p]
  | None => Err
  end.

Record enc_params := mkParams {
  p_enc : Z; p_bypp : nat; p_sbypp : nat; p_mw : nat; p_mh : nat; p_cmode : nat; p_b15 : bool }.

Definition send_rect (p : enc_params) (x y w h : nat) (scr : grid) : res (list wrect) :=
  let enc := p_enc p in
  (* case -1: (no SetEncodings received yet) and case rfbEncodingRaw: share rfbSendRectEncodingRaw *)
  if ((enc =? c_encRaw) || (enc =? -1))%Z then send_raw (p_bypp p) x y w h scr
  else if (enc =? c_encRRE)%Z then send_rre 2 c_encRRE (p_bypp p) x y w h scr
  else if (enc =? c_encCoRRE)%Z then send_corre (p_mw p) (p_mh p) (p_bypp p) x y w h scr
  else if (enc =? c_encHextile)%Z then send_hextile (p_bypp p) x y w h scr
  else if (enc =? c_encZlib)%Z then send_zlib (p_sbypp p) (p_bypp p) x y w h scr
  else if (enc =? c_encUltra)%Z then send_ultra (p_bypp p) x y w h scr
  else if (enc =? c_encZRLE)%Z then send_zrle (p_bypp p) (p_cmode p) (p_b15 p) x y w h scr
  else Err.
