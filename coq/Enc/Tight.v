(* C01 - mirror of tight.c without JPEG / PNG and without the LastRect solid-area search:
   SendRectSimple (2048 x 65536/width grid), SendSubrect (palette analysis FillPalette8/16/32 =
   FastFillPalette16/32, PaletteInsert ordering by pixel count), SendSolidRect, SendMonoRect
   (EncodeMonoRect), SendIndexedRect (EncodeIndexedRect), SendFullColorRect, Pack24.
   The payload is given before CompressData (compact length and zlib are stripped by the harness peer). *)
From Coq Require Import ZArith List Lia Bool Arith.
From LV Require Import Enc.EncBase Enc.ZRLE Enc.Update Gen.Consts_C01.
Import ListNotations.
Local Open Scope Z_scope.

Record tight_params := mkTP {
  tp_bypp : nat;       (* client bytes per pixel *)
  tp_pack24 : bool;    (* cl->tightUsePixelFormat24 *)
  tp_be : bool;        (* client format big endian (server is little endian) *)
  tp_rs : Z; tp_gs : Z; tp_bs : Z;
  tp_conf : Z;         (* index into tightConf after the level clamping of SendRectEncodingTight *)
  tp_jpeg : bool;      (* the client set a quality level (turboQualityLevel != -1) *)
  tp_s8 : bool;        (* the server framebuffer has 8 bits per pixel: SendJpegRect falls back to full colour *)
  tp_swap : bool       (* Pack24 as repaired (commit 1f04fe7): Swap32 the pixel, then the plain shifts; false = the old "24 - shift" *)
}.

(* tightCompressLevel after the clamping of SendRectEncodingTight (the later "9 -> 3" is dead code) *)
Definition tight_conf_index (jpeg : bool) (level : Z) : Z :=
  if jpeg then (if level <? 1 then 1 else if 2 <? level then 2 else level)
  else (if 1 <? level then 1 else level).

Definition conf_field (conf k : Z) : option Z :=
  if (conf <? 0) || (k <? 0) then None else nth_error c_tightConf (Z.to_nat (conf * 6 + k)).

(* Pack24 on the little-endian host.  RESTRICTION (stated, not modelled): the server format is little
   endian (serverFormat.bigEndian must equal the host's byte order, the library reads the framebuffer
   natively; the check runs on a little-endian host) - there is no tp_sbe.  Padding bits: the model
   works on the pixels the translation step hands to the encoder (script line "tr").  FastFillPalette
   masks the framebuffer pixels with the server's colour masks only when it translates (mask = ~0 with
   rfbTranslateNone); translated pixels have no server padding left, an untranslated client gets the raw
   values - both are what "tr" holds.  The generator sets padding bits in the framebuffer in a third of the
   cases (dimension "pad"), so both branches are driven on the implementation's side and compared. *)
Definition tpixel_bytes (p : tight_params) (pix : Z) : list Z :=
  if tp_pack24 p then
    if tp_swap p then
      let v := if tp_be p then le_val (rev (le_bytes 4 pix)) else pix in      (* Swap32 when the byte orders differ *)
      [Z.shiftr v (tp_rs p) mod 256; Z.shiftr v (tp_gs p) mod 256; Z.shiftr v (tp_bs p) mod 256]
    else
      let sh := fun s => if tp_be p then 24 - s else s in
      [Z.shiftr pix (sh (tp_rs p)) mod 256; Z.shiftr pix (sh (tp_gs p)) mod 256; Z.shiftr pix (sh (tp_bs p)) mod 256]
  else le_bytes (tp_bypp p) pix.

(* ---- palette: entries (rgb, numPixels) kept sorted by decreasing count (PaletteInsert) ---- *)
Fixpoint pal_place (e : Z * Z) (pal : list (Z * Z)) : list (Z * Z) :=
  match pal with
  | [] => [e]
  | x :: t => if snd x <? snd e then e :: x :: t else x :: pal_place e t
  end.

Fixpoint pal_find (rgb : Z) (pal : list (Z * Z)) : option Z :=
  match pal with
  | [] => None
  | x :: t => if fst x =? rgb then Some (snd x) else pal_find rgb t
  end.

Definition pal_remove (rgb : Z) (pal : list (Z * Z)) : list (Z * Z) :=
  filter (fun x => negb (fst x =? rgb)) pal.

(* None = palette full (numColors := 0, FillPalette returns) *)
Definition palette_insert (maxColors : Z) (pal : list (Z * Z)) (rgb n : Z) : option (list (Z * Z)) :=
  match pal_find rgb pal with
  | Some c => Some (pal_place (rgb, c + n) (pal_remove rgb pal))
  | None =>
    let nc := Z.of_nat (length pal) in
    if (nc =? 256) || (nc =? maxColors) then None else Some (pal_place (rgb, n) pal)
  end.

Inductive pal_kind :=
| PSolid
| PMono (bg fg : Z)
| PIndexed (pal : list Z)
| PFull.

(* runs of the data after position i (third colour onwards): (ci, ni) accumulation *)
Fixpoint fill_rest (maxColors : Z) (data : list Z) (ci ni : Z) (pal : list (Z * Z)) : option (list (Z * Z)) :=
  match data with
  | [] => palette_insert maxColors pal ci ni
  | d :: t =>
    if d =? ci then fill_rest maxColors t ci (ni + 1) pal
    else match palette_insert maxColors pal ci ni with
         | None => None
         | Some pal' => fill_rest maxColors t d 1 pal'
         end
  end.

(* count c0 / c1 until a third colour: (n0, n1, rest starting at the third colour) *)
Fixpoint count_two (data : list Z) (c0 c1 n0 n1 : Z) : Z * Z * list Z :=
  match data with
  | [] => (n0, n1, [])
  | d :: t =>
    if d =? c0 then count_two t c0 c1 (n0 + 1) n1
    else if d =? c1 then count_two t c0 c1 n0 (n1 + 1)
    else (n0, n1, data)
  end.

Fixpoint skip_eq (c : Z) (data : list Z) (n : Z) : Z * list Z :=
  match data with
  | d :: t => if d =? c then skip_eq c t (n + 1) else (n, data)
  | [] => (n, [])
  end.

Definition fill_palette (bypp : nat) (maxColors : Z) (data : list Z) : option pal_kind :=
  match data with
  | [] => None
  | c0 :: t =>
    match skip_eq c0 t 1 with
    | (_, []) => Some PSolid
    | (n0, c1 :: t1) =>
      if maxColors <? 2 then Some PFull
      else
        match count_two t1 c0 c1 n0 0 with   (* n1 = 0: the first pixel of colour c1 is not counted *)
        | (n0', n1', []) => Some (if n1' <? n0' then PMono c0 c1 else PMono c1 c0)
        | (n0', n1', ci :: t2) =>
          if Nat.eqb bypp 1 then Some PFull
          else
            match palette_insert maxColors [] c0 n0' with
            | None => Some PFull
            | Some p1 =>
              match palette_insert maxColors p1 c1 n1' with
              | None => Some PFull
              | Some p2 =>
                match fill_rest maxColors t2 ci 1 p2 with
                | None => Some PFull
                | Some p3 => Some (PIndexed (map fst p3))
                end
              end
            end
        end
    end
  end.

(* EncodeMonoRect: one bit per pixel, set where the pixel differs from the background, most
   significant bit first, 8 pixels per byte, the last byte of a row padded with zero bits *)
Definition mono_row (bg : Z) (r : list Z) : list Z :=
  pack_chunks (S (length r)) 8 2 (map (fun p => if p =? bg then 0 else 1) r).

Fixpoint opt_all {A} (l : list (option A)) : option (list A) :=
  match l with
  | [] => Some []
  | Some a :: t => match opt_all t with Some r => Some (a :: r) | None => None end
  | None :: _ => None
  end.

(* what SendSubrect emits: a lossless payload, or a JPEG image (not modelled further) *)
Inductive tight_out :=
| TPayload (l : list Z)
| TJpeg.

(* payload of one Tight rectangle (SendSubrect) *)
Definition tight_subrect (p : tight_params) (w h : nat) (g : grid) : option tight_out :=
  let data := concat g in
  let wh := Z.of_nat (w * h) in
  match conf_field (tp_conf p) 0, conf_field (tp_conf p) 1, conf_field (tp_conf p) 2,
        conf_field (tp_conf p) 3, conf_field (tp_conf p) 4, conf_field (tp_conf p) 5 with
  | Some monoMin, Some idxZ, Some monoZ, Some rawZ, Some divisor, Some palMaxJpeg =>
    let mc0 := if tp_jpeg p then palMaxJpeg else wh / divisor in
    let maxColors := if (mc0 <? 2) && (monoMin <=? wh) then 2 else mc0 in
    match fill_palette (tp_bypp p) maxColors data with
    | None => None
    | Some PSolid =>
      match data with d :: _ => Some (TPayload (128 :: tpixel_bytes p d)) | [] => None end
    | Some (PMono bg fg) =>
      Some (TPayload ((if monoZ =? 0 then 224 else 80) :: 1 :: 1 :: tpixel_bytes p bg ++ tpixel_bytes p fg ++
            flat_map (mono_row bg) g))
    | Some (PIndexed pal) =>
      match opt_all (map (pal_index pal) data) with
      | None => None
      | Some idxs =>
        Some (TPayload ((if idxZ =? 0 then 224 else 96) :: 1 :: (Z.of_nat (length pal) - 1) ::
              flat_map (tpixel_bytes p) pal ++ idxs))
      end
    | Some PFull =>
      if tp_jpeg p && negb (tp_s8 p) then Some TJpeg      (* SendJpegRect *)
      else Some (TPayload ((if rawZ =? 0 then 160 else 0) :: flat_map (tpixel_bytes p) data))
    end
  | _, _, _, _, _, _ => None
  end.

(* SendRectSimple *)
Definition send_tight (p : tight_params) (x y w h : nat) (scr : grid) : res (list wrect) :=
  let maxw := Z.to_nat c_TIGHT_MAX_RECT_WIDTH in
  let pieces :=
      if (maxw <? w)%nat || (c_TIGHT_MAX_RECT_SIZE <? Z.of_nat (w * h)) then
        let sw := if (maxw <? w)%nat then maxw else w in
        tiles w h maxw (Z.to_nat c_TIGHT_MAX_RECT_SIZE / sw)
      else [(0, 0, w, h)]%nat in
  res_concat (map (fun '(tx, ty, tw, th) =>
                     match tight_subrect p tw th (crop scr (x + tx) (y + ty) tw th) with
                     | Some (TPayload pl) => Ok [mkW (x + tx) (y + ty) tw th c_encTight pl]
                     | Some TJpeg => Ok [mkW (x + tx) (y + ty) tw th c_encTight [144]]   (* control byte only *)
                     | None => Err
                     end) pieces).

(* cl->tightUsePixelFormat24 (SendRectEncodingTight): the unchanged code tests only depth == 24 and the
   three maxima (strict = false); strict = true is the variant that also requires 32 bits per pixel
   and true colour, i.e. the TPIXEL condition of the specification (finding F7, notes/fix_C01_3.diff) *)
Definition tight_pack24 (strict : bool) (bpp depth tc rmax gmax bmax : Z) : bool :=
  (depth =? 24) && (rmax =? 255) && (gmax =? 255) && (bmax =? 255) &&
  (if strict then (bpp =? 32) && negb (tc =? 0) else true).
