(* C01 - Hextile: the RFB-spec decoder applied to the mirror encoder's bytes yields the pixels,
   for all contents, all rectangle sizes, including the bg/fg carry-over between tiles and the
   raw fall-back. *)
From Coq Require Import ZArith List Lia Bool Arith.
From LV Require Import Enc.EncBase Enc.EncBaseProofs Enc.Subrect Enc.SubrectProofs Enc.RawRREProofs Enc.Hextile
     Dec.SpecBase Dec.SpecPaint Dec.SpecHextile Gen.Consts_C01.
Import ListNotations.
Local Open Scope Z_scope.

(* the regenerated protocol constants are the ones of the specification *)
Lemma hex_consts :
  c_hexRaw = 1 /\ c_hexBg = 2 /\ c_hexFg = 4 /\ c_hexAny = 8 /\ c_hexColoured = 16 /\ c_hexTile = 16 /\
  c_hexPackXY_3_5 = 3 * 16 + 5 /\ c_hexPackWH_3_5 = (3 - 1) * 16 + (5 - 1).
Proof. repeat split; reflexivity. Qed.

Ltac splits := repeat match goal with |- _ /\ _ => split end.

(* ------------------------------------------------------------------ testColours *)
Lemma tc_loop_spec : forall data c1 c2 n1 n2 solid mono solid' c1' c2' n1' n2',
  tc_loop data c1 c2 n1 n2 solid = (mono, solid', c1', c2', n1', n2') ->
  0 <= n1 -> 0 <= n2 -> (n1 = 0 -> n2 = 0) -> (solid = true <-> n2 = 0) ->
  0 <= n1' /\ 0 <= n2' /\ (solid' = true <-> n2' = 0) /\ (data <> [] -> 0 < n1') /\
  (0 < n1 -> c1' = c1) /\ (0 < n2 -> c2' = c2) /\ n1 <= n1' /\ n2 <= n2' /\
  (mono = false -> 0 < n2') /\
  (mono = true -> Forall (fun d => d = c1' \/ (0 < n2' /\ d = c2')) data) /\
  (n1 = 0 -> 0 < n1' -> In c1' data) /\ (n2 = 0 -> 0 < n2' -> In c2' data).
Proof.
  induction data as [|d t IH]; intros c1 c2 n1 n2 solid mono solid' c1' c2' n1' n2' E P1 P2 P3 PS.
  - simpl in E. inversion E; subst.
    splits; [> lia | lia | exact PS | congruence | reflexivity | reflexivity | lia | lia | discriminate
             | constructor | lia | lia ].
  - cbn [tc_loop] in E.
    remember (if n1 =? 0 then d else c1) as c1n eqn:HC1.
    destruct (d =? c1n) eqn:E1.
    + apply Z.eqb_eq in E1. apply IH in E; try lia; [|assumption].
      destruct E as (A1 & A2 & A3 & A4 & A5 & A6 & A7 & A8 & A9 & A10 & A11 & A12).
      assert (C1 : c1' = c1n) by (apply A5; lia).
      splits; [> lia | lia | exact A3 | lia | | exact A6 | lia | lia | exact A9 | | | ].
      * intros H. rewrite C1, HC1. destruct (n1 =? 0) eqn:Z0; [apply Z.eqb_eq in Z0; lia|reflexivity].
      * intros M. constructor; [left; congruence|]. apply A10; assumption.
      * intros Z0 _. left. rewrite C1, HC1, Z0. reflexivity.
      * intros Z0 H. right. apply A12; assumption.
    + apply Z.eqb_neq in E1.
      remember (if n2 =? 0 then d else c2) as c2n eqn:HC2.
      remember (if n2 =? 0 then false else solid) as sn eqn:HSN.
      assert (N1 : 0 < n1).
      { destruct (n1 =? 0) eqn:Z0; [|apply Z.eqb_neq in Z0; lia]. congruence. }
      assert (C1n : c1n = c1).
      { rewrite HC1. destruct (n1 =? 0) eqn:Z0; [apply Z.eqb_eq in Z0; lia|reflexivity]. }
      destruct (d =? c2n) eqn:E2.
      * apply Z.eqb_eq in E2. apply IH in E; try lia.
        -- destruct E as (A1 & A2 & A3 & A4 & A5 & A6 & A7 & A8 & A9 & A10 & A11 & A12).
           assert (C2 : c2' = c2n) by (apply A6; lia).
           assert (C1 : c1' = c1n) by (apply A5; lia).
           splits; [> lia | lia | exact A3 | lia | intros _; congruence | | lia | lia | exact A9 | | lia | ].
           ++ intros H. rewrite C2, HC2. destruct (n2 =? 0) eqn:Z0; [apply Z.eqb_eq in Z0; lia|reflexivity].
           ++ intros M. constructor; [right; split; [lia|congruence]|]. apply A10; assumption.
           ++ intros Z0 _. left. rewrite C2, HC2, Z0. reflexivity.
        -- rewrite HSN. destruct (n2 =? 0) eqn:Z0; split; intros H; try discriminate; try lia.
           apply PS in H. apply Z.eqb_neq in Z0. lia.
      * inversion E; subst mono solid' c1' c2' n1' n2'. apply Z.eqb_neq in E2.
        assert (N2 : 0 < n2).
        { destruct (n2 =? 0) eqn:Z0; [|apply Z.eqb_neq in Z0; lia]. congruence. }
        assert (C2n : c2n = c2).
        { rewrite HC2. destruct (n2 =? 0) eqn:Z0; [apply Z.eqb_eq in Z0; lia|reflexivity]. }
        splits; [> lia | lia | | lia | intros _; exact C1n | intros _; exact C2n | lia | lia | intros _; exact N2
                 | discriminate | lia | lia ].
        rewrite HSN. destruct (n2 =? 0) eqn:Z0; [apply Z.eqb_eq in Z0; lia|]. split; intros H; [apply PS in H|]; lia.
Qed.

Record tc_facts (data : list Z) (mono solid : bool) (bg fg : Z) : Prop := {
  tc_bg_in : data <> [] -> In bg data;
  tc_solid : solid = true -> Forall (fun d => d = bg) data;
  tc_mono : mono = true -> Forall (fun d => d = bg \/ d = fg) data;
  tc_fg_in : data <> [] -> mono = true -> solid = false -> In fg data }.

Lemma test_colours_facts data mono solid bg fg :
  test_colours data = (mono, solid, bg, fg) -> tc_facts data mono solid bg fg.
Proof.
  unfold test_colours.
  destruct (tc_loop data 0 0 0 0 true) as [[[[[m s] c1] c2] n1] n2] eqn:TC.
  apply tc_loop_spec in TC; [|lia|lia|lia|split; auto].
  destruct TC as (A1 & A2 & A3 & A4 & A5 & A6 & A7 & A8 & A9 & A10 & A11 & A12).
  destruct (n2 <? n1) eqn:LT; [apply Z.ltb_lt in LT|apply Z.ltb_ge in LT]; intros H; inversion H; subst; split.
  - intros NE. specialize (A4 NE). apply A11; [reflexivity|lia].
  - intros S. apply A3 in S.
    assert (M : mono = true) by (destruct mono; [reflexivity|]; specialize (A9 eq_refl); lia).
    specialize (A10 M). eapply Forall_impl; [|exact A10]. intros d [D|[D _]]; [assumption|lia].
  - intros M. specialize (A10 M). eapply Forall_impl; [|exact A10]. intros d [D|[_ D]]; auto.
  - intros _ M S. apply A12; [reflexivity|]. destruct (Z.eq_dec n2 0) as [Z0|Z0]; [|lia].
    apply A3 in Z0. congruence.
  - intros NE. specialize (A4 NE). apply A12; [reflexivity|lia].
  - intros S. apply A3 in S. destruct data as [|d t]; [constructor|].
    assert (0 < n1) by (apply A4; discriminate). lia.
  - intros M. specialize (A10 M). eapply Forall_impl; [|exact A10]. intros d [D|[_ D]]; auto.
  - intros NE M S. apply A11; [reflexivity|]. apply A4. exact NE.
Qed.

(* ------------------------------------------------------------------ sub-rectangle bytes *)
Definition hx_fits (mono : bool) (bypp : nat) (fg : Z) (s : subrect) : Prop :=
  (if mono then sr_c s = fg else pix_ok bypp (sr_c s)) /\
  (sr_x s < 16)%nat /\ (sr_y s < 16)%nat /\ (1 <= sr_w s <= 16)%nat /\ (1 <= sr_h s <= 16)%nat.

Lemma dec_hx_subs_app mono bypp ofg fg subs rest :
  (mono = true -> ofg = Some fg) ->
  Forall (hx_fits mono bypp fg) subs ->
  dec_hx_subs (negb mono) bypp ofg (length subs) (flat_map (hx_sub_bytes mono bypp) subs ++ rest) =
  Some (map to_prect subs, rest).
Proof.
  intros HFG F.
  assert (NIB : forall s, hx_fits mono bypp fg s ->
     Z.to_nat ((Z.of_nat (sr_x s) * 16 + Z.of_nat (sr_y s)) / 16) = sr_x s /\
     Z.to_nat ((Z.of_nat (sr_x s) * 16 + Z.of_nat (sr_y s)) mod 16) = sr_y s /\
     S (Z.to_nat (((Z.of_nat (sr_w s) - 1) * 16 + (Z.of_nat (sr_h s) - 1)) / 16)) = sr_w s /\
     S (Z.to_nat (((Z.of_nat (sr_w s) - 1) * 16 + (Z.of_nat (sr_h s) - 1)) mod 16)) = sr_h s).
  { intros s (PC & PX & PY & PW & PH). repeat split.
    - rewrite Z.div_add_l by lia. rewrite Z.div_small by lia. lia.
    - rewrite Z.add_comm, Z.mod_add by lia. rewrite Z.mod_small by lia. lia.
    - rewrite Z.div_add_l by lia. rewrite Z.div_small by lia. lia.
    - rewrite Z.add_comm, Z.mod_add by lia. rewrite Z.mod_small by lia. lia. }
  destruct mono; cbn [negb].
  - rewrite (HFG eq_refl). clear HFG.
    induction F as [|s subs FS _ IH]; [reflexivity|].
    destruct (NIB s FS) as (X1 & X2 & W1 & W2). destruct FS as (PC & _).
    cbn [length flat_map dec_hx_subs]. unfold hx_sub_bytes at 1. cbn [app].
    rewrite IH, X1, X2, W1, W2. rewrite <- PC. reflexivity.
  - induction F as [|s subs FS _ IH]; [reflexivity|].
    destruct (NIB s FS) as (X1 & X2 & W1 & W2). destruct FS as (PC & _).
    cbn [length flat_map dec_hx_subs]. unfold hx_sub_bytes at 1. rewrite <- !app_assoc.
    rewrite take_pixel_app by assumption. cbn [app].
    rewrite IH, X1, X2, W1, W2. reflexivity.
Qed.

(* ------------------------------------------------------------------ flags *)
Definition flags_of (sb sf any col : bool) : Z :=
  (if sb then 2 else 0) + (if any then 8 else 0) + (if sf then 4 else 0) + (if col then 16 else 0).

Lemma flags_bits sb sf any col :
  Z.testbit (flags_of sb sf any col) 0 = false /\ Z.testbit (flags_of sb sf any col) 1 = sb /\
  Z.testbit (flags_of sb sf any col) 2 = sf /\ Z.testbit (flags_of sb sf any col) 3 = any /\
  Z.testbit (flags_of sb sf any col) 4 = col.
Proof. destruct sb, sf, any, col; repeat split; reflexivity. Qed.

(* encoder state vs decoder state *)
Definition hx_rel (st : hx_estate) (dst : hx_dstate) : Prop :=
  match st with
  | (vb, bg, vf, fg) => (vb = true -> fst dst = Some bg) /\ (vf = true -> snd dst = Some fg)
  end.

Lemma in_concat_gget (t : list (list Z)) x y p : gget t x y = Some p -> In p (concat t).
Proof.
  unfold gget. destruct (nth_error t y) as [r|] eqn:E; [|discriminate]. intros H.
  apply in_concat. exists r. split; eauto using nth_error_In.
Qed.

Lemma concat_in_gget w h (t : list (list Z)) p :
  wf_grid w h t -> In p (concat t) -> exists x y, (x < w)%nat /\ (y < h)%nat /\ gget t x y = Some p.
Proof.
  intros WF H. apply in_concat in H. destruct H as [r [Hr Hp]].
  apply In_nth_error in Hr. destruct Hr as [y Hy]. apply In_nth_error in Hp. destruct Hp as [x Hx].
  exists x, y. pose proof (wf_row _ _ _ _ _ WF Hy).
  assert (y < length t)%nat by (apply nth_error_Some; congruence).
  assert (x < length r)%nat by (apply nth_error_Some; congruence).
  destruct WF. repeat split; try lia. unfold gget. rewrite Hy. exact Hx.
Qed.

Lemma filter_length_lt {A} (f : A -> bool) l a : In a l -> f a = false -> (length (filter f l) < length l)%nat.
Proof.
  induction l as [|b l IH]; intros H F; [destruct H|]. destruct H as [H|H]; simpl.
  - subst. rewrite F. pose proof (filter_length_le f l). lia.
  - specialize (IH H F). destruct (f b); simpl; lia.
Qed.

Lemma solid_grid w h (t : list (list Z)) c :
  wf_grid w h t -> Forall (fun d => d = c) (concat t) -> t = mk_grid w h c.
Proof.
  intros WF F. apply (grid_ext w h); auto using wf_mk_grid.
  intros x y Hx Hy. rewrite gget_mk_grid by assumption.
  destruct (gget_some w h t x y WF Hx Hy) as [p G]. rewrite G. f_equal.
  apply in_concat_gget in G. rewrite Forall_forall in F. auto.
Qed.

Lemma hx_tile_unfold bypp tw th t vb bg vf fg :
  hx_tile bypp tw th t (vb, bg, vf, fg) =
  match test_colours (concat t) with
  | (mono, solid, newBg, newFg) =>
    let sendBg := negb vb || negb (newBg =? bg) in
    let fl_bg := if sendBg then c_hexBg else 0 in
    let by_bg := if sendBg then le_bytes bypp newBg else [] in
    if solid then Ok (fl_bg :: by_bg, (true, newBg, vf, fg))
    else
      let sendFg := mono && (negb vf || negb (newFg =? fg)) in
      let fl := fl_bg + c_hexAny + (if mono then (if sendFg then c_hexFg else 0) else c_hexColoured) in
      let by_fg := if sendFg then le_bytes bypp newFg else [] in
      let fg' := if sendFg then newFg else fg in
      let per := if mono then 2 else Z.of_nat bypp + 2 in
      match subrect_encode tw th t newBg 1 per (Z.of_nat (tw * th * bypp)) with
      | Ok subs =>
        Ok (fl :: by_bg ++ by_fg ++ (Z.of_nat (length subs) mod 256) :: flat_map (hx_sub_bytes mono bypp) subs,
            (true, newBg, mono, fg'))
      | Fallback => Ok (c_hexRaw :: grid_bytes bypp t, (false, newBg, false, fg'))
      | Err => Err
      end
  end.
Proof. reflexivity. Qed.

Lemma dec_hx_tile_unfold bypp tw th st b r0 :
  dec_hx_tile bypp tw th st (b :: r0) =
  if Z.testbit b 0 then
    do (g, rest) <- take_rows bypp tw th r0; Some (g, st, rest)
  else
    do (bg, r1) <- (if Z.testbit b 1 then do (p, r) <- take_pixel bypp r0; Some (Some p, r)
                    else Some (fst st, r0));
    do (fg, r2) <- (if Z.testbit b 2 then do (p, r) <- take_pixel bypp r1; Some (Some p, r)
                    else Some (snd st, r1));
    match bg with
    | None => None
    | Some bgc =>
      if Z.testbit b 3 then
        match r2 with
        | [] => None
        | n :: r3 =>
          do (subs, rest) <- dec_hx_subs (Z.testbit b 4) bypp fg (Z.to_nat n) r3;
          do g <- paint_all tw th (mk_grid tw th bgc) subs;
          Some (g, (bg, fg), rest)
        end
      else Some (mk_grid tw th bgc, (bg, fg), r2)
    end.
Proof. reflexivity. Qed.

(* one tile *)
Lemma hx_tile_roundtrip bypp tw th t st dst bytes st' rest :
  (1 <= tw <= 16)%nat -> (1 <= th <= 16)%nat -> wf_grid tw th t -> grid_pix_ok bypp t ->
  hx_rel st dst -> hx_tile bypp tw th t st = Ok (bytes, st') ->
  exists dst', dec_hx_tile bypp tw th dst (bytes ++ rest) = Some (t, dst', rest) /\ hx_rel st' dst'.
Proof.
  intros Htw Hth WF PIX REL E. destruct st as [[[vb bg] vf] fg]. rewrite hx_tile_unfold in E.
  destruct (test_colours (concat t)) as [[[mono solid] newBg] newFg] eqn:TC.
  apply test_colours_facts in TC. destruct TC as [BGIN SOLID MONO FGIN].
  destruct hex_consts as (KR & KB & KF & KA & KC & _).
  rewrite KR, KB, KF, KA, KC in E. cbv zeta in E.
  assert (NE : concat t <> []).
  { destruct WF as [L F]. destruct t as [|r t']; [simpl in L; lia|]. inversion F; subst.
    destruct r; [simpl in *; lia|]. simpl. discriminate. }
  specialize (BGIN NE). specialize (FGIN NE).
  assert (ALLP : Forall (pix_ok bypp) (concat t)) by (apply concat_pix_ok; assumption).
  assert (PBG : pix_ok bypp newBg) by (rewrite Forall_forall in ALLP; auto).
  remember (negb vb || negb (newBg =? bg)) as sendBg eqn:HSB.
  destruct REL as [RB RF]. cbn [fst snd] in RB, RF.
  (* what the decoder knows as background after the optional background pixel *)
  assert (DBG : forall tail,
     (if sendBg then do (p, r) <- take_pixel bypp ((if sendBg then le_bytes bypp newBg else []) ++ tail); Some (Some p, r)
      else Some (fst dst, (if sendBg then le_bytes bypp newBg else []) ++ tail)) = Some (Some newBg, tail)).
  { intros tail. destruct sendBg.
    - rewrite take_pixel_app by assumption. reflexivity.
    - symmetry in HSB. apply orb_false_iff in HSB. destruct HSB as [S1 S2].
      apply negb_false_iff in S1, S2. apply Z.eqb_eq in S2. rewrite (RB S1), S2. reflexivity. }
  destruct solid.
  - (* solid tile *)
    inversion E; subst bytes st'. clear E.
    exists (Some newBg, snd dst). split.
    + cbn [app]. rewrite dec_hx_tile_unfold.
      replace (if sendBg then 2 else 0) with (flags_of sendBg false false false)
        by (unfold flags_of; destruct sendBg; reflexivity).
      destruct (flags_bits sendBg false false false) as (B0 & B1 & B2 & B3 & B4).
      rewrite B0, B1, B2, B3. rewrite DBG. cbn iota beta.
      rewrite <- (solid_grid tw th t newBg WF (SOLID eq_refl)). reflexivity.
    + split; [reflexivity|exact RF].
  - remember (mono && (negb vf || negb (newFg =? fg))) as sendFg eqn:HSF.
    assert (SFM : mono = false -> sendFg = false) by (intros M; rewrite HSF, M; reflexivity).
    assert (SFV : mono = true -> sendFg = false -> vf = true /\ newFg = fg).
    { intros M SF. rewrite SF, M in HSF. cbn [andb] in HSF. symmetry in HSF.
      apply orb_false_iff in HSF. destruct HSF as [S1 S2]. apply negb_false_iff in S1, S2.
      apply Z.eqb_eq in S2. auto. }
    clear HSF.
    destruct (subrect_encode tw th t newBg 1 (if mono then 2 else Z.of_nat bypp + 2) (Z.of_nat (tw * th * bypp)))
      as [subs| |] eqn:SE; try discriminate.
    + (* sub-rectangles *)
      inversion E; subst bytes st'. clear E.
      apply subrect_encode_roundtrip in SE; [|assumption]. destruct SE as (PA & GOOD & LEN).
      (* the count fits the byte *)
      assert (CNT : (length subs < 256)%nat).
      { destruct (concat_in_gget tw th t newBg WF BGIN) as (x & y & Hx & Hy & G).
        assert (length (filter (nonbg t newBg) (positions tw th)) < length (positions tw th))%nat.
        { apply (filter_length_lt _ _ (x, y)); [apply in_positions; auto|].
          unfold nonbg. cbn [fst snd]. rewrite G, Z.eqb_refl. reflexivity. }
        rewrite positions_length in H. nia. }
      remember (if sendFg then newFg else fg) as fgd eqn:HFGD.
      assert (FITS : Forall (hx_fits mono bypp fgd) subs).
      { rewrite Forall_forall in GOOD. apply Forall_forall. intros s Hs.
        destruct (GOOD s Hs) as (A & B & C & D & NB & G). unfold hx_fits.
        split; [|lia].
        destruct mono eqn:M.
        - specialize (MONO eq_refl). rewrite Forall_forall in MONO.
          destruct (MONO _ (in_concat_gget _ _ _ _ G)) as [X|X]; [congruence|].
          rewrite HFGD. destruct sendFg eqn:SF; [assumption|].
          destruct (SFV eq_refl eq_refl) as [_ EQ]. congruence.
        - eapply gget_pix_ok; eauto. }
      assert (PFG : sendFg = true -> pix_ok bypp newFg).
      { intros SF. destruct mono eqn:M; [|rewrite (SFM eq_refl) in SF; discriminate].
        rewrite Forall_forall in ALLP. apply ALLP. apply FGIN; auto. }
      exists (Some newBg, if sendFg then Some newFg else snd dst). split.
      * cbn [app]. rewrite dec_hx_tile_unfold. rewrite <- !app_assoc. cbn [app].
        replace ((if sendBg then 2 else 0) + 8 + (if mono then if sendFg then 4 else 0 else 16))
          with (flags_of sendBg sendFg true (negb mono)).
        2:{ unfold flags_of. destruct mono; [|rewrite (SFM eq_refl)]; cbn [negb]; destruct sendBg; try destruct sendFg; reflexivity. }
        destruct (flags_bits sendBg sendFg true (negb mono)) as (B0 & B1 & B2 & B3 & B4).
        rewrite B0, B1, B2, B3, B4. rewrite DBG. cbn iota beta.
        assert (DFG : forall tail,
          (if sendFg then do (p, r) <- take_pixel bypp ((if sendFg then le_bytes bypp newFg else []) ++ tail); Some (Some p, r)
           else Some (snd dst, (if sendFg then le_bytes bypp newFg else []) ++ tail)) =
          Some (if sendFg then Some newFg else snd dst, tail)).
        { intros tail. destruct sendFg eqn:SF; [|reflexivity].
          rewrite take_pixel_app by auto. reflexivity. }
        rewrite DFG. cbn iota beta.
        rewrite Z.mod_small by lia. rewrite Nat2Z.id.
        (* the foreground the decoder holds is the one the sub-rectangles mean *)
        assert (FGD : mono = true -> (if sendFg then Some newFg else snd dst) = Some fgd).
        { intros M. rewrite HFGD. destruct sendFg eqn:SF; [reflexivity|].
          destruct (SFV M eq_refl) as [V _]. auto. }
        rewrite (dec_hx_subs_app mono bypp _ fgd subs rest FGD FITS).
        rewrite PA. reflexivity.
      * cbn. split; [reflexivity|]. intros M. rewrite HFGD.
        destruct sendFg eqn:SF; [reflexivity|].
        destruct (SFV M eq_refl) as [V _]. auto.
    + (* raw fall-back *)
      inversion E; subst bytes st'. clear E.
      exists dst. split.
      * cbn [app]. rewrite dec_hx_tile_unfold. change (Z.testbit 1 0) with true. cbn iota.
        destruct WF as [L F]. rewrite <- L. rewrite take_rows_app by assumption. reflexivity.
      * cbn. split; intros; discriminate.
Qed.

(* ------------------------------------------------------------------ the whole rectangle *)
Definition in_tile (tl : nat * nat * nat * nat) (i j : nat) : bool :=
  let '(x, y, tw, th) := tl in ((x <=? i) && (i <? x + tw) && (y <=? j) && (j <? y + th))%nat.

Definition covered (ts : list (nat * nat * nat * nat)) (i j : nat) : bool :=
  existsb (fun tl => in_tile tl i j) ts.

Lemma In_firstn {A} (a : A) n l : In a (firstn n l) -> In a l.
Proof. intros H. rewrite <- (firstn_skipn n l). apply in_or_app. left; assumption. Qed.

Lemma In_skipn {A} (a : A) n l : In a (skipn n l) -> In a l.
Proof. intros H. rewrite <- (firstn_skipn n l). apply in_or_app. right; assumption. Qed.

Lemma grid_pix_ok_crop bypp g x y cw ch : grid_pix_ok bypp g -> grid_pix_ok bypp (crop g x y cw ch).
Proof.
  unfold grid_pix_ok, crop. intros P. apply Forall_forall. intros r Hr.
  apply in_map_iff in Hr. destruct Hr as [r0 [<- Hr0]].
  apply In_firstn, In_skipn in Hr0. rewrite Forall_forall in P. specialize (P r0 Hr0).
  apply Forall_forall. intros p Hp. apply In_firstn, In_skipn in Hp. rewrite Forall_forall in P. auto.
Qed.

Lemma covered_tiles w h tw th i j :
  (0 < tw)%nat -> (0 < th)%nat -> (i < w)%nat -> (j < h)%nat -> covered (tiles w h tw th) i j = true.
Proof.
  intros A B Hi Hj. destruct (tiles_cover w h tw th i j A B Hi Hj) as (x & y & cw & ch & IN & HX & HY).
  unfold covered. apply existsb_exists. exists (x, y, cw, ch). split; [assumption|].
  unfold in_tile. rewrite !andb_true_iff, !Nat.leb_le, !Nat.ltb_lt. lia.
Qed.

Lemma hx_tiles_roundtrip bypp w h g : forall ts st dst bytes rest canvas,
  wf_grid w h g -> grid_pix_ok bypp g -> wf_grid w h canvas ->
  (forall x y tw th, In (x, y, tw, th) ts ->
     (x + tw <= w /\ y + th <= h /\ 1 <= tw <= 16 /\ 1 <= th <= 16)%nat) ->
  hx_rel st dst -> hx_tiles bypp ts g st = Ok bytes ->
  exists canvas', dec_hx_tiles bypp ts dst (bytes ++ rest) canvas = Some (canvas', rest) /\
    wf_grid w h canvas' /\
    forall i j, (i < w)%nat -> (j < h)%nat ->
      gget canvas' i j = if covered ts i j then gget g i j else gget canvas i j.
Proof.
  induction ts as [|[[[x y] tw] th] ts IH]; intros st dst bytes rest canvas WF PIX WC INS REL E.
  - simpl in E. inversion E; subst. exists canvas. simpl. auto.
  - cbn [hx_tiles] in E.
    destruct (hx_tile bypp tw th (crop g x y tw th) st) as [[bs st1]| |] eqn:T; try discriminate.
    destruct (hx_tiles bypp ts g st1) as [more| |] eqn:TS; try discriminate.
    inversion E; subst bytes. clear E.
    destruct (INS x y tw th (or_introl eq_refl)) as (BX & BY & TW & TH).
    assert (WT : wf_grid tw th (crop g x y tw th)) by (apply (wf_crop w h); auto).
    destruct (hx_tile_roundtrip bypp tw th _ st dst bs st1 (more ++ rest) TW TH WT
                (grid_pix_ok_crop bypp g x y tw th PIX) REL T) as (dst1 & D1 & REL1).
    assert (WC1 : wf_grid w h (paste canvas x y (crop g x y tw th))) by (apply (wf_paste w h _ _ _ tw th); auto).
    destruct (IH st1 dst1 more rest (paste canvas x y (crop g x y tw th)) WF PIX WC1) as (c' & D2 & WC' & GET); auto.
    { intros a b c d H. apply INS. right; assumption. }
    exists c'. split; [|split; [assumption|]].
    + cbn [dec_hx_tiles]. rewrite <- app_assoc, D1. exact D2.
    + intros i j Hi Hj. rewrite (GET i j Hi Hj). cbn [covered existsb in_tile].
      fold (covered ts i j). destruct (covered ts i j); [rewrite orb_true_r; reflexivity|].
      rewrite orb_false_r. rewrite (gget_paste w h canvas x y tw th) by auto.
      destruct (in_rect_dec x y tw th i j) as [[-> IN]|[-> _]]; [|reflexivity].
      rewrite gget_crop by lia. f_equal; lia.
Qed.

(* C01_hextile: for every rectangle content and size, every client pixel size, and whatever the
   client's framebuffer held before *)
Theorem hextile_roundtrip bypp w h g payload canvas0 :
  wf_grid w h g -> grid_pix_ok bypp g -> wf_grid w h canvas0 ->
  hextile_payload bypp w h g = Ok payload -> dec_hextile_on canvas0 bypp w h payload = Some g.
Proof.
  intros WF PIX WC E. unfold hextile_payload in E.
  destruct hex_consts as (_ & _ & _ & _ & _ & KT & _). rewrite KT in E.
  change (Z.to_nat 16) with 16%nat in E.
  destruct (hx_tiles_roundtrip bypp w h g (tiles w h 16 16) (false, 0, false, 0) (None, None) payload [] canvas0
              WF PIX WC) as (c' & D & WC' & GET); auto.
  - intros x y tw th H. apply tiles_inside in H. lia.
  - cbn. split; intros; discriminate.
  - unfold dec_hextile_on. rewrite app_nil_r in D. rewrite D. cbn [all_consumed]. f_equal.
    apply (grid_ext w h); auto. intros i j Hi Hj. rewrite (GET i j Hi Hj).
    rewrite covered_tiles by (auto; lia). reflexivity.
Qed.

(* the mirror never leaves its domain and never gives up on a well-formed rectangle *)
Theorem hextile_total bypp w h g :
  wf_grid w h g -> exists payload, hextile_payload bypp w h g = Ok payload.
Proof.
  intros WF. unfold hextile_payload. generalize (false, 0, false, 0).
  generalize (tiles_inside w h (Z.to_nat c_hexTile) (Z.to_nat c_hexTile)).
  induction (tiles w h (Z.to_nat c_hexTile) (Z.to_nat c_hexTile)) as [|[[[x y] tw] th] ts IH]; intros INS st.
  - simpl. eauto.
  - cbn [hx_tiles].
    assert (exists bs st1, hx_tile bypp tw th (crop g x y tw th) st = Ok (bs, st1)) as (bs & st1 & T).
    { destruct st as [[[vb bg] vf] fg]. rewrite hx_tile_unfold.
      destruct (test_colours _) as [[[mono solid] nb] nf]. cbv zeta. destruct solid; [eauto|].
      destruct (subrect_encode tw th (crop g x y tw th) nb 1 _ _) eqn:SE; eauto.
      exfalso. revert SE. apply subrect_encode_no_err.
      destruct (INS x y tw th (or_introl eq_refl)) as (A & B & _). apply (wf_crop w h); auto. }
    rewrite T. destruct (IH (fun a b c d H => INS a b c d (or_intror H)) st1) as [more M]. rewrite M. eauto.
Qed.
