(* C01 - the solid-area search of the LastRect path only returns uniformly coloured areas:
   every Solid piece of tight_split is, on the framebuffer it was searched on, of one colour
   (CheckSolidTile / FindBestSolidArea / ExtendSolidArea), hence also on the translated screen when the
   translation is a function of the pixel. *)
From Coq Require Import ZArith List Lia Bool Arith.
From LV Require Import Enc.EncBase Enc.EncBaseProofs Enc.Update Enc.Tight Enc.TightSplit Enc.TightSplitProofs Gen.Consts_C01.
Import ListNotations.

(* every pixel of the area that exists has colour c *)
Definition uni (g : list (list Z)) (x y w h : nat) (c : Z) : Prop :=
  forall i j v, x <= i < x + w -> y <= j < y + h -> gget g i j = Some v -> v = c.

Lemma forallb_gget (f : Z -> bool) (t : list (list Z)) a b v :
  forallb (forallb f) t = true -> gget t a b = Some v -> f v = true.
Proof.
  intros F G. unfold gget in G. destruct (nth_error t b) as [r|] eqn:R; [|discriminate].
  apply nth_error_In in R, G. rewrite forallb_forall in F. specialize (F r R).
  rewrite forallb_forall in F. apply F; assumption.
Qed.

Lemma is_solid_uni g x y w h c : is_solid g x y w h c = true -> uni g x y w h c.
Proof.
  unfold is_solid, solid_tile. destruct (gget g x y) as [c0|]; [|discriminate].
  destruct ((c0 =? c)%Z && forallb (forallb (Z.eqb c0)) (crop g x y w h)) eqn:E; [|discriminate].
  intros _. apply andb_true_iff in E. destruct E as [E1 E2]. apply Z.eqb_eq in E1. subst c0.
  intros i j v Hi Hj G.
  replace i with (x + (i - x)) in G by lia. replace j with (y + (j - y)) in G by lia.
  rewrite <- (gget_crop g x y w h) in G by lia.
  apply (forallb_gget _ _ _ _ _ E2) in G. apply Z.eqb_eq in G. auto.
Qed.

Lemma uni_sub g x y w h c x' y' w' h' :
  uni g x y w h c -> x <= x' -> x' + w' <= x + w -> y <= y' -> y' + h' <= y + h -> uni g x' y' w' h' c.
Proof. intros U A B C D i j v Hi Hj. apply U; lia. Qed.

Lemma uni_hcat g x y w1 w2 h c : uni g x y w1 h c -> uni g (x + w1) y w2 h c -> uni g x y (w1 + w2) h c.
Proof. intros U1 U2 i j v Hi Hj. destruct (Nat.lt_ge_cases i (x + w1)); [apply U1|apply U2]; lia. Qed.

Lemma uni_vcat g x y w h1 h2 c : uni g x y w h1 c -> uni g x (y + h1) w h2 c -> uni g x y w (h1 + h2) c.
Proof. intros U1 U2 i j v Hi Hj. destruct (Nat.lt_ge_cases j (y + h1)); [apply U1|apply U2]; lia. Qed.

Lemma uni_empty g x y w h c : w = 0 \/ h = 0 -> uni g x y w h c.
Proof. intros E i j v Hi Hj. lia. Qed.

Lemma count_while_true f : forall n i k, k < count_while n f i -> f (i + k) = true.
Proof.
  induction n as [|n IH]; intros i k H; simpl in H; [lia|].
  destruct (f i) eqn:F; [|lia]. destruct k as [|k]; [rewrite Nat.add_0_r; exact F|].
  replace (i + S k) with (S i + k) by lia. apply IH. lia.
Qed.

(* ---- FindBestSolidArea ---- *)
Lemma fbsa_row_uni g x dy dh wprev c : forall fuel dx, x <= dx -> uni g x dy (dx - x) dh c ->
  uni g x dy (fbsa_row fuel g x dy dh wprev dx c - x) dh c.
Proof.
  induction fuel as [|f IH]; intros dx Hx U; simpl; [exact U|].
  destruct (dx <? x + wprev); [|exact U].
  set (dw := if dx + tsz <=? x + wprev then tsz else x + wprev - dx).
  destruct (is_solid g dx dy dw dh c) eqn:S; [|exact U].
  apply IH; [lia|]. apply is_solid_uni in S.
  replace (dx + dw - x) with ((dx - x) + dw) by lia. apply uni_hcat; [exact U|].
  replace (x + (dx - x)) with dx by lia. exact S.
Qed.

Lemma fbsa_uni g x y w h c : forall f s wprev wbest hbest wb hb,
  y <= s -> uni g x y wprev (Nat.min (s - y) h) c -> uni g x y wbest hbest c ->
  fbsa (starts_from f s (y + h) tsz) g x y w h c wprev wbest hbest = (wb, hb) -> uni g x y wb hb c.
Proof.
  induction f as [|f IH]; intros s wprev wbest hbest wb hb Hs INV BEST E; cbn [starts_from] in E.
  - simpl in E. inversion E; subst. exact BEST.
  - destruct (s <? y + h) eqn:LT; [apply Nat.ltb_lt in LT|simpl in E; inversion E; subst; exact BEST].
    cbn [fbsa] in E.
    set (dh := if s + tsz <=? y + h then tsz else y + h - s) in *.
    set (dw := if tsz <? wprev then tsz else wprev) in *.
    assert (DW : dw <= wprev) by (unfold dw; destruct (tsz <? wprev) eqn:Q; [apply Nat.ltb_lt in Q|]; lia).
    assert (DH : Nat.min (s + tsz - y) h = (s - y) + dh).
    { unfold dh. destruct (s + tsz <=? y + h) eqn:Q; [apply Nat.leb_le in Q|apply Nat.leb_gt in Q]; lia. }
    destruct (is_solid g x s dw dh c) eqn:S; [|inversion E; subst; exact BEST].
    apply is_solid_uni in S.
    pose proof (fbsa_row_bound g x s dh wprev c w (x + dw) ltac:(lia)) as RB.
    pose proof (fbsa_row_uni g x s dh wprev c w (x + dw) ltac:(lia)) as RU.
    replace (x + dw - x) with dw in RU by lia. specialize (RU S).
    set (dx := fbsa_row w g x s dh wprev (x + dw) c) in *.
    assert (NEW : uni g x y (dx - x) ((s - y) + dh) c).
    { apply uni_vcat.
      - eapply uni_sub; [exact INV| | | |]; lia.
      - replace (y + (s - y)) with s by lia. exact RU. }
    replace (s + dh - y) with ((s - y) + dh) in E by lia.
    destruct (wbest * hbest <? (dx - x) * ((s - y) + dh)); eapply IH in E; eauto; try lia; rewrite DH; exact NEW.
Qed.

(* ---- ExtendSolidArea ---- *)
Lemma extend_area_uni g x y w h c xb yb wb hb xb' yb' wb' hb' :
  x <= xb -> y <= yb -> uni g xb yb wb hb c ->
  extend_area g x y w h c xb yb wb hb = (xb', yb', wb', hb') -> uni g xb' yb' wb' hb' c.
Proof.
  intros A C U E. unfold extend_area in E.
  set (fu := fun i => is_solid g xb (yb - 1 - i) wb 1 c) in *.
  set (up := count_while (yb - y) fu 0) in *.
  pose proof (count_while_le (yb - y) fu 0) as LU. fold up in LU.
  pose proof (count_while_true fu (yb - y) 0) as TU. fold up in TU.
  set (fd := fun i => is_solid g xb (yb - up + (hb + up) + i) wb 1 c) in *.
  set (down := count_while (y + h - (yb - up + (hb + up))) fd 0) in *.
  pose proof (count_while_true fd (y + h - (yb - up + (hb + up))) 0) as TD. fold down in TD.
  set (fl := fun i => is_solid g (xb - 1 - i) (yb - up) 1 (hb + up + down) c) in *.
  set (left := count_while (xb - x) fl 0) in *.
  pose proof (count_while_le (xb - x) fl 0) as LL. fold left in LL.
  pose proof (count_while_true fl (xb - x) 0) as TL. fold left in TL.
  set (fr := fun i => is_solid g (xb - left + (wb + left) + i) (yb - up) 1 (hb + up + down) c) in *.
  set (right := count_while (x + w - (xb - left + (wb + left))) fr 0) in *.
  pose proof (count_while_true fr (x + w - (xb - left + (wb + left))) 0) as TR. fold right in TR.
  inversion E; subst xb' yb' wb' hb'. clear E.
  (* the column band xb .. xb + wb over the extended height *)
  assert (MID : uni g xb (yb - up) wb (hb + up + down) c).
  { intros i j v Hi Hj G.
    destruct (Nat.lt_ge_cases j yb) as [J|J].
    - specialize (TU (yb - 1 - j) ltac:(lia)). cbn [Nat.add] in TU. unfold fu in TU. apply is_solid_uni in TU.
      apply (TU i j v); try lia. exact G.
    - destruct (Nat.lt_ge_cases j (yb + hb)) as [J2|J2].
      + apply (U i j v); try lia. exact G.
      + specialize (TD (j - (yb + hb)) ltac:(lia)). cbn [Nat.add] in TD. unfold fd in TD. apply is_solid_uni in TD.
        apply (TD i j v); try lia. exact G. }
  intros i j v Hi Hj G.
  destruct (Nat.lt_ge_cases i xb) as [I|I].
  - specialize (TL (xb - 1 - i) ltac:(lia)). cbn [Nat.add] in TL. unfold fl in TL. apply is_solid_uni in TL.
    apply (TL i j v); try lia. exact G.
  - destruct (Nat.lt_ge_cases i (xb + wb)) as [I2|I2].
    + apply (MID i j v); try lia. exact G.
    + specialize (TR (i - (xb + wb)) ltac:(lia)). cbn [Nat.add] in TR. unfold fr in TR. apply is_solid_uni in TR.
      apply (TR i j v); try lia. exact G.
Qed.

(* ---- the recursion ---- *)
Definition solids_uni (g : list (list Z)) (ps : list tpiece) : Prop :=
  forall x y w h, In (Solid x y w h) ps -> exists c, uni g x y w h c.

Lemma solids_uni_app g a b : solids_uni g a -> solids_uni g b -> solids_uni g (a ++ b).
Proof. intros A B x y w h I. apply in_app_or in I. destruct I; [eapply A|eapply B]; eauto. Qed.

Lemma solids_uni_nil g : solids_uni g [].
Proof. intros x y w h []. Qed.

Lemma solids_uni_simple g x y w h : solids_uni g [Simple x y w h].
Proof. intros a b c d [I|[]]. discriminate. Qed.

Section Uni.
  Variable sfb : list (list Z).
  Variable rec : nat -> nat -> nat -> nat -> option (list tpiece).
  Hypothesis rec_uni : forall x y w h ps, rec x y w h = Some ps -> solids_uni sfb ps.

  Lemma on_solid_uni x w y h dx dy c r :
    1 <= w -> 1 <= h -> x <= dx < x + w -> y <= dy < y + h ->
    on_solid rec sfb x w y h dx dy c = Some (Some r) -> solids_uni sfb r.
  Proof.
    intros Hw Hh Hdx Hdy E. unfold on_solid in E.
    destruct (fbsa _ sfb dx dy (w - (dx - x)) (h - (dy - y)) c (w - (dx - x)) 0 0) as [wb hb] eqn:FB.
    assert (UB : uni sfb dx dy wb hb c).
    { replace (y + h) with (dy + (h - (dy - y))) in FB by lia.
      eapply fbsa_uni in FB; eauto; apply uni_empty; [right|left]; lia. }
    destruct ((negb (wb * hb =? w * h) && (Z.of_nat (wb * hb) <? c_MIN_SOLID_SUBRECT_SIZE)%Z)); [discriminate|].
    destruct (extend_area sfb x y w h c dx dy wb hb) as [[[xb yb] wb'] hb'] eqn:EX.
    apply extend_area_uni in EX; try lia; auto.
    injection E as E'.
    match type of E' with match ?X with Some _ => _ | None => None end = _ => destruct X as [r1|] eqn:E1; [|discriminate] end.
    injection E' as E'. subst r.
    apply opt_app_some in E1. destruct E1 as (left & r2 & EL & E2 & ->).
    match type of E2 with match ?X with Some _ => _ | None => None end = _ => destruct X as [r3|] eqn:E3; [|discriminate] end.
    injection E2 as E2. subst r2.
    apply opt_app_some in E3. destruct E3 as (right & bottom & ER & EB & ->).
    apply solids_uni_app.
    { destruct (yb =? y); [apply solids_uni_nil|apply solids_uni_simple]. }
    apply solids_uni_app.
    { destruct (xb =? x); [inversion EL; apply solids_uni_nil|eapply rec_uni; eauto]. }
    change (Solid xb yb wb' hb' :: right ++ bottom) with ([Solid xb yb wb' hb'] ++ right ++ bottom).
    apply solids_uni_app.
    { intros a b c0 d [I|[]]. inversion I; subst. exists c. exact EX. }
    apply solids_uni_app.
    { destruct (xb + wb' =? x + w); [inversion ER; apply solids_uni_nil|eapply rec_uni; eauto]. }
    destruct (yb + hb' =? y + h); [inversion EB; apply solids_uni_nil|eapply rec_uni; eauto].
  Qed.

  Lemma scan_dx_uni x w y h dy dh r : forall dxs,
    1 <= w -> 1 <= h -> y <= dy < y + h -> Forall (fun dx => x <= dx < x + w) dxs ->
    scan_dx rec sfb x w dxs y h dy dh = Some (Some r) -> solids_uni sfb r.
  Proof.
    induction dxs as [|dx rest IH]; intros Hw Hh Hdy F E; simpl in E; [discriminate|].
    apply Forall_cons_iff in F. destruct F as [Fd Fr].
    destruct (solid_tile sfb dx dy _ dh None) as [c|]; [|auto].
    destruct (on_solid rec sfb x w y h dx dy c) as [o|] eqn:OS; [|auto].
    inversion E; subst o. eapply on_solid_uni; [exact Hw|exact Hh|exact Fd|exact Hdy|exact OS].
  Qed.

  Lemma scan_dy_uni x w yend nMaxRows : 1 <= w -> forall dys y acc r,
    y < yend -> asc dys -> Forall (fun dy => y <= dy < yend) dys -> solids_uni sfb acc ->
    scan_dy rec sfb x w yend dys nMaxRows y acc = Some r -> solids_uni sfb r.
  Proof.
    intros Hw. induction dys as [|dy rest IH]; intros y acc r YE AS F PA E; cbn [scan_dy] in E.
    - inversion E; subst r. apply solids_uni_app; [exact PA|apply solids_uni_simple].
    - apply Forall_cons_iff in F. destruct F as [Fd Fr]. destruct AS as [AS1 AS2].
      destruct (nMaxRows <=? dy - y) eqn:FL.
      + apply Nat.leb_le in FL.
        assert (PA1 : solids_uni sfb (acc ++ [Simple x y w nMaxRows])) by (apply solids_uni_app; [exact PA|apply solids_uni_simple]).
        destruct (scan_dx rec sfb x w _ (y + nMaxRows) (yend - (y + nMaxRows)) dy _) as [o|] eqn:SD.
        * apply opt_app_some in E. destruct E as (a & b & EA & EB & ->). inversion EA; subst a. subst o.
          apply scan_dx_uni in SD; try lia.
          2:{ apply Forall_forall. intros v Hv. apply starts_from_range in Hv. lia. }
          apply solids_uni_app; assumption.
        * destruct (Nat.lt_ge_cases (y + nMaxRows) yend) as [Q|Q].
          -- eapply IH; [exact Q|exact AS2| |exact PA1|exact E].
             apply Forall_forall. intros v Hv. rewrite Forall_forall in AS1, Fr. specialize (AS1 v Hv). specialize (Fr v Hv). lia.
          -- lia.
      + destruct (scan_dx rec sfb x w _ y (yend - y) dy _) as [o|] eqn:SD.
        * apply opt_app_some in E. destruct E as (a & b & EA & EB & ->). inversion EA; subst a. subst o.
          apply scan_dx_uni in SD; try lia.
          2:{ apply Forall_forall. intros v Hv. apply starts_from_range in Hv. lia. }
          apply solids_uni_app; assumption.
        * eapply IH; [exact YE|exact AS2|exact Fr|exact PA|exact E].
  Qed.
End Uni.

Theorem tight_split_uni sfb : forall fuel x y w h ps,
  tight_split fuel sfb x y w h = Some ps -> solids_uni sfb ps.
Proof.
  induction fuel as [|f IH]; intros x y w h ps E; [discriminate|].
  cbn [tight_split] in E. destruct (Z.of_nat (w * h) <? c_MIN_SPLIT_RECT_SIZE)%Z eqn:SMALL.
  - inversion E; subst. apply solids_uni_simple.
  - destruct split_consts as (_ & _ & K4096 & _). rewrite K4096 in SMALL. apply Z.ltb_ge in SMALL.
    assert (Hw : 1 <= w) by nia. assert (Hh : 1 <= h) by nia.
    eapply (scan_dy_uni sfb (tight_split f sfb) IH x w (y + h) _ Hw); [| | | |exact E].
    + lia.
    + apply starts_from_asc.
    + apply Forall_forall. intros v Hv. apply starts_from_range in Hv. lia.
    + apply solids_uni_nil.
Qed.
