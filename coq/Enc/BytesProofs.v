(* C01 - what the mirror encoders emit are bytes (0..255): the round-trip theorems are about streams
   that can be put on the wire.  Here: Raw (also encoding -1), RRE, CoRRE, Hextile, Zlib and Ultra
   (payload before compression) and the rectangle header; ZRLE in ZRLETotal.v, Tight in TightTotal.v,
   all encodings of send_rect together in SendAll.v. *)
From Coq Require Import ZArith List Lia Bool Arith.
From LV Require Import Enc.EncBase Enc.EncBaseProofs Enc.Subrect Enc.SubrectProofs Enc.Raw Enc.RRE Enc.Hextile
  Enc.RawRREProofs Enc.HextileProofs Enc.Zlib Enc.ZRLE Enc.Update Enc.UpdateProofs Gen.Consts_C01.
Import ListNotations.

Lemma bytes_ok_app a b : bytes_ok a -> bytes_ok b -> bytes_ok (a ++ b).
Proof. unfold bytes_ok. intros. apply Forall_app. auto. Qed.

Lemma be_bytes_ok n v : bytes_ok (be_bytes n v).
Proof. unfold be_bytes, bytes_ok. apply Forall_rev. apply le_bytes_ok. Qed.

Lemma bytes_ok_flat_map {A} (f : A -> list Z) l : (forall a, In a l -> bytes_ok (f a)) -> bytes_ok (flat_map f l).
Proof.
  induction l as [|a t IH]; intros H; simpl; [constructor|].
  apply bytes_ok_app; [apply H; left; reflexivity|apply IH; intros; apply H; right; assumption].
Qed.

Lemma row_bytes_ok bypp r : bytes_ok (row_bytes bypp r).
Proof. apply bytes_ok_flat_map. intros. apply le_bytes_ok. Qed.

Lemma grid_bytes_ok bypp g : bytes_ok (grid_bytes bypp g).
Proof. apply bytes_ok_flat_map. intros. apply row_bytes_ok. Qed.

Lemma rect_header_ok x y w h enc : bytes_ok (rect_header x y w h enc).
Proof. unfold rect_header. do 4 (apply bytes_ok_app; [apply be_bytes_ok|]). apply be_bytes_ok. Qed.

Definition pay_ok (r : wrect) : Prop := bytes_ok (w_payload r).

Lemma wire_bytes_ok r : pay_ok r -> bytes_ok (wire_bytes r).
Proof. intros H. unfold wire_bytes. apply bytes_ok_app; [apply rect_header_ok|exact H]. Qed.

Lemma send_raw_bytes bypp x y w h scr rects : send_raw bypp x y w h scr = Ok rects -> Forall pay_ok rects.
Proof.
  unfold send_raw. destruct ((w =? 0) || (h =? 0)); intros E.
  - inv_ok E. constructor.
  - destruct (raw_send bufsize bypp _ _) as [chunks| |] eqn:RS; try discriminate.
    inv_ok E. constructor; [|constructor]. unfold pay_ok. cbn [w_payload].
    unfold raw_send in RS. apply raw_loop_concat in RS. rewrite RS.
    rewrite skipn_app, skipn_all, Nat.sub_diag. cbn [skipn app].
    rewrite <- grid_bytes_concat. apply grid_bytes_ok.
Qed.

Lemma sub_bytes_ok fsz bypp s : bytes_ok (sub_bytes fsz bypp s).
Proof. unfold sub_bytes. apply bytes_ok_app; [apply le_bytes_ok|]. do 3 (apply bytes_ok_app; [apply be_bytes_ok|]). apply be_bytes_ok. Qed.

Lemma rre_payload_bytes fsz bypp w h g p : rre_payload fsz bypp w h g = Ok p -> bytes_ok p.
Proof.
  unfold rre_payload. destruct (bg_colour bypp (concat g)) as [bg|]; [|discriminate].
  destruct (subrect_encode _ _ _ _ _ _ _) as [subs| |]; try discriminate. intros E. inv_ok E.
  apply bytes_ok_app; [apply be_bytes_ok|]. apply bytes_ok_app; [apply le_bytes_ok|].
  apply bytes_ok_flat_map. intros. apply sub_bytes_ok.
Qed.

Lemma send_rre_bytes fsz enc bypp x y w h scr rects : send_rre fsz enc bypp x y w h scr = Ok rects -> Forall pay_ok rects.
Proof.
  unfold send_rre. destruct (rre_payload _ _ _ _ _) as [p| |] eqn:RP; try discriminate; intros E.
  - inv_ok E. constructor; [|constructor]. eapply rre_payload_bytes; eauto.
  - eapply send_raw_bytes; eauto.
Qed.

Lemma res_concat_all {A B} (P : B -> Prop) (f : A -> res (list B)) : forall l rects,
  (forall a rs, In a l -> f a = Ok rs -> Forall P rs) -> res_concat (map f l) = Ok rects -> Forall P rects.
Proof.
  induction l as [|a t IH]; intros rects H E; cbn [map res_concat] in E.
  - inv_ok E. constructor.
  - destruct (f a) as [ra| |] eqn:FA; destruct (res_concat (map f t)) as [rt| |] eqn:RT; try discriminate.
    inv_ok E. apply Forall_app. split; [eapply H; eauto; left; reflexivity|].
    apply IH; auto. intros; eapply H; eauto. right; assumption.
Qed.

Lemma send_corre_bytes mw mh bypp x y w h scr rects : send_corre mw mh bypp x y w h scr = Ok rects -> Forall pay_ok rects.
Proof.
  unfold send_corre. apply res_concat_all. intros [[[tx ty] tw] th] rs _ E. eapply send_rre_bytes; eauto.
Qed.

Lemma send_zlib_bytes sbypp bypp x y w h scr rects : send_zlib sbypp bypp x y w h scr = Ok rects -> Forall pay_ok rects.
Proof.
  unfold send_zlib. apply res_concat_all. intros [sy sh] rs _ E.
  destruct (Z.of_nat (w * sh * sbypp) <? c_ZLIB_MIN_COMP)%Z; [eapply send_raw_bytes; eauto|].
  inv_ok E. constructor; [|constructor]. apply grid_bytes_ok.
Qed.

Lemma send_ultra_bytes bypp x y w h scr rects : send_ultra bypp x y w h scr = Ok rects -> Forall pay_ok rects.
Proof.
  unfold send_ultra. intros E. inv_ok E. apply Forall_forall. intros r Hr. apply in_map_iff in Hr.
  destruct Hr as ([sy sh] & <- & _). apply grid_bytes_ok.
Qed.

(* ---- Hextile: the packed x/y and w/h bytes need the subrectangles to lie inside a 16 x 16 tile ---- *)
Lemma hx_sub_bytes_ok mono bypp tw th t bg s : tw <= 16 -> th <= 16 -> sub_good tw th t bg s -> bytes_ok (hx_sub_bytes mono bypp s).
Proof.
  intros Hw Hh (A & B & C & D & _). unfold hx_sub_bytes. apply bytes_ok_app.
  - destruct mono; [constructor|apply le_bytes_ok].
  - constructor; [|constructor; [|constructor]]; unfold byte_ok; lia.
Qed.

Lemma hx_tile_bytes bypp tw th t st bs st' :
  tw <= 16 -> th <= 16 -> wf_grid tw th t -> hx_tile bypp tw th t st = Ok (bs, st') -> bytes_ok bs.
Proof.
  intros Hw Hh WF. destruct st as [[[vb bg] vf] fg]. rewrite hx_tile_unfold.
  destruct (test_colours (concat t)) as [[[mono solid] nb] nf]. cbv zeta.
  destruct hex_consts as (KR & KB & KF & KA & KC & _). rewrite KR, KB, KF, KA, KC.
  assert (BG : bytes_ok (if negb vb || negb (nb =? bg)%Z then le_bytes bypp nb else [])).
  { destruct (negb vb || negb (nb =? bg)%Z); [apply le_bytes_ok|constructor]. }
  destruct solid.
  - intros E. assert (Q : bs = (if negb vb || negb (nb =? bg)%Z then 2 else 0)%Z ::
                               (if negb vb || negb (nb =? bg)%Z then le_bytes bypp nb else [])) by congruence.
    subst bs. constructor; [|exact BG]. unfold byte_ok. destruct (negb vb || negb (nb =? bg)%Z); lia.
  - destruct (subrect_encode tw th t nb 1 _ _) as [subs| |] eqn:SE; try discriminate; intros E.
    + apply subrect_encode_roundtrip in SE; [|exact WF]. destruct SE as (_ & GOOD & _).
      match type of E with Ok (?b, _) = _ => assert (Q : bs = b) by congruence end. subst bs. clear E.
      constructor.
      * unfold byte_ok. destruct (negb vb || negb (nb =? bg)%Z), mono, (negb vf || negb (nf =? fg)%Z); cbn; lia.
      * apply bytes_ok_app; [exact BG|]. apply bytes_ok_app.
        { destruct (mono && (negb vf || negb (nf =? fg)%Z)); [apply le_bytes_ok|constructor]. }
        constructor; [unfold byte_ok; apply Z.mod_pos_bound; lia|].
        apply bytes_ok_flat_map. intros s Hs. rewrite Forall_forall in GOOD.
        eapply hx_sub_bytes_ok; [exact Hw|exact Hh|apply GOOD; exact Hs].
    + match type of E with Ok (?b, _) = _ => assert (Q : bs = b) by congruence end. subst bs.
      constructor; [unfold byte_ok; lia|apply grid_bytes_ok].
Qed.

Lemma hx_tiles_bytes bypp w h g : wf_grid w h g -> forall ts st bs,
  (forall x y tw th, In (x, y, tw, th) ts -> x + tw <= w /\ y + th <= h /\ tw <= 16 /\ th <= 16) ->
  hx_tiles bypp ts g st = Ok bs -> bytes_ok bs.
Proof.
  intros WF. induction ts as [|[[[x y] tw] th] ts IH]; intros st bs INS E; cbn [hx_tiles] in E.
  - inv_ok E. constructor.
  - destruct (hx_tile bypp tw th (crop g x y tw th) st) as [[b1 st1]| |] eqn:T; try discriminate.
    destruct (hx_tiles bypp ts g st1) as [rest| |] eqn:R; try discriminate. inv_ok E.
    destruct (INS x y tw th (or_introl eq_refl)) as (I1 & I2 & I3 & I4).
    apply bytes_ok_app.
    + eapply hx_tile_bytes; [exact I3|exact I4| |exact T]. apply (wf_crop w h); assumption.
    + eapply IH; [|exact R]. intros; apply INS; right; assumption.
Qed.

Lemma send_hextile_bytes W H scr bypp x y w h rects :
  wf_grid W H scr -> x + w <= W -> y + h <= H -> send_hextile bypp x y w h scr = Ok rects -> Forall pay_ok rects.
Proof.
  intros WF HX HY. unfold send_hextile.
  destruct (hextile_payload bypp w h (crop scr x y w h)) as [p| |] eqn:HP; try discriminate. intros E. inv_ok E.
  constructor; [|constructor]. unfold pay_ok. cbn [w_payload]. unfold hextile_payload in HP.
  destruct hex_consts as (_ & _ & _ & _ & _ & KT & _). rewrite KT in HP. change (Z.to_nat 16) with 16 in HP.
  eapply (hx_tiles_bytes bypp w h); [apply (wf_crop W H); eassumption| |exact HP].
  intros tx ty tw th IN. apply tiles_inside in IN. lia.
Qed.

(* C01_send_rect_bytes *)
Theorem send_rect_bytes W H scr p x y w h rects :
  wf_grid W H scr -> x + w <= W -> y + h <= H ->
  In (p_enc p) [c_encRaw; (-1)%Z; c_encRRE; c_encCoRRE; c_encHextile; c_encZlib; c_encUltra] ->
  send_rect p x y w h scr = Ok rects -> Forall (fun r => bytes_ok (wire_bytes r)) rects.
Proof.
  intros WF HX HY IN E.
  assert (P : Forall pay_ok rects).
  { unfold send_rect in E. cbv zeta in E.
    destruct ((p_enc p =? c_encRaw) || (p_enc p =? -1))%Z eqn:B0; [eapply send_raw_bytes; eauto|].
    destruct (p_enc p =? c_encRRE)%Z eqn:B2; [eapply send_rre_bytes; eauto|].
    destruct (p_enc p =? c_encCoRRE)%Z eqn:B4; [eapply send_corre_bytes; eauto|].
    destruct (p_enc p =? c_encHextile)%Z eqn:B5; [eapply send_hextile_bytes; eauto|].
    destruct (p_enc p =? c_encZlib)%Z eqn:B6; [eapply send_zlib_bytes; eauto|].
    destruct (p_enc p =? c_encUltra)%Z eqn:B9; [eapply send_ultra_bytes; eauto|].
    exfalso. clear E. apply orb_false_iff in B0. destruct B0 as [B0 B1].
    apply Z.eqb_neq in B0, B1, B2, B4, B5, B6, B9.
    simpl in IN. intuition congruence. }
  eapply Forall_impl; [|exact P]. intros r. apply wire_bytes_ok.
Qed.
