(* C01 - Raw and RRE/CoRRE: the RFB-spec decoder applied to the mirror encoder's bytes yields
   the pixels, for all contents and sizes. *)
From Coq Require Import ZArith List Lia Bool Arith.
From LV Require Import Enc.EncBase Enc.EncBaseProofs Enc.Subrect Enc.SubrectProofs Enc.Raw Enc.RRE
     Dec.SpecBase Dec.SpecPaint Dec.SpecRaw Dec.SpecRRE.
Import ListNotations.

(* ------------------------------------------------------------------ Raw *)
Lemma raw_loop_concat : forall fuel bufsize bpl nlines cur lines chunks,
  raw_loop fuel bufsize bpl nlines cur lines = Ok chunks -> concat chunks = cur ++ concat lines.
Proof.
  induction fuel as [|f IH]; intros bufsize bpl nlines cur lines chunks H; [discriminate|].
  cbn [raw_loop] in H.
  set (n := if length lines <? nlines then length lines else nlines) in *.
  destruct (skipn n lines) as [|r rs] eqn:SK.
  - inversion H; subst. simpl. rewrite app_nil_r. f_equal.
    rewrite <- (firstn_skipn n lines) at 2. rewrite SK, app_nil_r. reflexivity.
  - destruct (bufsize / bpl =? 0); [discriminate|].
    destruct (raw_loop f bufsize bpl (bufsize / bpl) [] (r :: rs)) as [chunks'| |] eqn:RL; try discriminate.
    inversion H; subst. apply IH in RL. rewrite <- SK in RL.
    change (concat ((cur ++ concat (firstn n lines)) :: chunks')) with ((cur ++ concat (firstn n lines)) ++ concat chunks').
    rewrite RL. cbn [app]. rewrite <- app_assoc. f_equal. rewrite <- concat_app, firstn_skipn. reflexivity.
Qed.

(* C01_flush_transparent for Raw: whenever a line fits the buffer, the loop terminates normally *)
Lemma raw_loop_progress : forall fuel bufsize bpl nlines cur lines,
  1 <= bpl <= bufsize -> 1 <= nlines -> 1 <= fuel -> length lines <= fuel ->
  exists chunks, raw_loop fuel bufsize bpl nlines cur lines = Ok chunks.
Proof.
  induction fuel as [|f IH]; intros bufsize bpl nlines cur lines HB HN HF HL; [lia|].
  cbn [raw_loop].
  set (n := if length lines <? nlines then length lines else nlines).
  destruct (skipn n lines) as [|r rs] eqn:SK; [eauto|].
  assert (LN : length (skipn n lines) = length lines - n) by apply skipn_length.
  rewrite SK in LN. simpl in LN.
  assert (Hn : 1 <= n).
  { unfold n. destruct (length lines <? nlines) eqn:E; [|lia]. lia. }
  assert (Q : 1 <= bufsize / bpl) by (apply Nat.div_le_lower_bound; lia).
  destruct (bufsize / bpl =? 0) eqn:EZ; [apply Nat.eqb_eq in EZ; lia|].
  destruct (IH bufsize bpl (bufsize / bpl) [] (r :: rs)) as [chunks' E]; auto; simpl; try lia.
  rewrite E. eauto.
Qed.

Lemma raw_send_ok bufsize bypp header g w h :
  wf_grid w h g -> 1 <= w -> 1 <= h -> 1 <= bypp -> bypp * w <= bufsize ->
  exists chunks, raw_send bufsize bypp header g = Ok chunks.
Proof.
  intros [L F] Hw Hh Hb HB. unfold raw_send.
  destruct g as [|r0 g']; [simpl in L; lia|].
  assert (length r0 = w) by (inversion F; assumption).
  cbn [hd]. rewrite H.
  set (lines := map (row_bytes bypp) (r0 :: g')).
  assert (LL : length lines = S (length g')) by (unfold lines; rewrite map_length; reflexivity).
  cbn [length]. remember (S (length g')) as f1 eqn:Hf1. cbn [raw_loop].
  set (nl0 := (bufsize - length header) / (bypp * w)).
  set (n := if length lines <? nl0 then length lines else nl0).
  destruct (skipn n lines) as [|r rs] eqn:SK; [eauto|].
  assert (LN : S (length rs) = length lines - n).
  { rewrite <- skipn_length, SK. reflexivity. }
  assert (Q : 1 <= bufsize / (bypp * w)) by (apply Nat.div_le_lower_bound; nia).
  destruct (bufsize / (bypp * w) =? 0) eqn:EZ; [apply Nat.eqb_eq in EZ; lia|].
  assert (B1 : 1 <= bypp * w <= bufsize) by nia.
  assert (B2 : length (r :: rs) <= f1) by (simpl; lia).
  destruct (raw_loop_progress f1 bufsize (bypp * w) (bufsize / (bypp * w)) [] (r :: rs)) as [c E];
    try assumption; try lia.
  rewrite E. eauto.
Qed.

(* a line that does not fit the update buffer: the server gives up and closes the client *)
Lemma raw_send_too_wide bufsize bypp header g w h :
  wf_grid w h g -> 1 <= h -> bufsize < bypp * w -> raw_send bufsize bypp header g = Fallback.
Proof.
  intros [L F] Hh HB. unfold raw_send.
  destruct g as [|r0 g']; [simpl in L; lia|].
  assert (length r0 = w) by (inversion F; assumption).
  cbn [hd]. rewrite H. cbn [length raw_loop].
  replace ((bufsize - length header) / (bypp * w)) with 0 by (symmetry; apply Nat.div_small; lia).
  replace (bufsize / (bypp * w)) with 0 by (symmetry; apply Nat.div_small; lia).
  destruct (length (map (row_bytes bypp) (r0 :: g')) <? 0) eqn:E; [apply Nat.ltb_lt in E; lia|].
  simpl. reflexivity.
Qed.

Lemma grid_bytes_concat bypp g : grid_bytes bypp g = concat (map (row_bytes bypp) g).
Proof. unfold grid_bytes. apply flat_map_concat_map. Qed.

Lemma dec_raw_grid_bytes bypp w h g :
  wf_grid w h g -> grid_pix_ok bypp g -> dec_raw bypp w h (grid_bytes bypp g) = Some g.
Proof.
  intros [L F] P. unfold dec_raw. rewrite <- (app_nil_r (grid_bytes bypp g)), <- L.
  rewrite take_rows_app by assumption. reflexivity.
Qed.

(* C01_raw *)
Theorem raw_roundtrip bufsize bypp header w h g chunks :
  wf_grid w h g -> grid_pix_ok bypp g -> raw_send bufsize bypp header g = Ok chunks ->
  exists payload, concat chunks = header ++ payload /\ dec_raw bypp w h payload = Some g.
Proof.
  intros WF P H. unfold raw_send in H. apply raw_loop_concat in H.
  exists (grid_bytes bypp g). split.
  - rewrite H, grid_bytes_concat. reflexivity.
  - apply dec_raw_grid_bytes; assumption.
Qed.

(* ------------------------------------------------------------------ RRE / CoRRE *)
Lemma take_pixel_app bypp p r : pix_ok bypp p -> take_pixel bypp (le_bytes bypp p ++ r) = Some (p, r).
Proof.
  intros H. unfold take_pixel.
  pose proof (take_app (le_bytes bypp p) r) as T. rewrite le_bytes_length in T. rewrite T.
  rewrite le_val_le_bytes by assumption. reflexivity.
Qed.

Lemma take_be_app n v r : (Z.of_nat v < 256 ^ Z.of_nat n)%Z ->
  take_be n (be_bytes n (Z.of_nat v) ++ r) = Some (v, r).
Proof.
  intros H. unfold take_be.
  pose proof (take_app (be_bytes n (Z.of_nat v)) r) as T. rewrite be_bytes_length in T. rewrite T.
  rewrite be_val_be_bytes by (unfold pix_ok; lia). rewrite Nat2Z.id. reflexivity.
Qed.

Definition sub_fits (fsz bypp : nat) (s : subrect) : Prop :=
  pix_ok bypp (sr_c s) /\
  (Z.of_nat (sr_x s) < 256 ^ Z.of_nat fsz)%Z /\ (Z.of_nat (sr_y s) < 256 ^ Z.of_nat fsz)%Z /\
  (Z.of_nat (sr_w s) < 256 ^ Z.of_nat fsz)%Z /\ (Z.of_nat (sr_h s) < 256 ^ Z.of_nat fsz)%Z.

Lemma dec_rre_subs_app fsz bypp subs rest :
  Forall (sub_fits fsz bypp) subs ->
  dec_rre_subs fsz bypp (length subs) (flat_map (sub_bytes fsz bypp) subs ++ rest) =
  Some (map to_prect subs, rest).
Proof.
  induction 1 as [|s subs (PC & PX & PY & PW & PH) _ IH]; [reflexivity|].
  cbn [length flat_map dec_rre_subs]. unfold sub_bytes at 1. rewrite <- !app_assoc.
  rewrite take_pixel_app by assumption.
  rewrite take_be_app by assumption. rewrite take_be_app by assumption.
  rewrite take_be_app by assumption. rewrite take_be_app by assumption.
  rewrite IH. reflexivity.
Qed.

Lemma sub_bytes_length fsz bypp s : length (sub_bytes fsz bypp s) = bypp + 4 * fsz.
Proof. unfold sub_bytes. rewrite !app_length, le_bytes_length, !be_bytes_length. lia. Qed.

Lemma flat_map_const_length {A B} (f : A -> list B) k l :
  (forall a, length (f a) = k) -> length (flat_map f l) = k * length l.
Proof.
  intros H. induction l; simpl; [lia|]. rewrite app_length, H, IHl. lia.
Qed.

Lemma gget_pix_ok bypp g x y p : grid_pix_ok bypp g -> gget g x y = Some p -> pix_ok bypp p.
Proof.
  unfold grid_pix_ok, gget. intros P H. destruct (nth_error g y) as [r|] eqn:E; [|discriminate].
  apply nth_error_In in E. apply nth_error_In in H. rewrite Forall_forall in P. specialize (P r E).
  rewrite Forall_forall in P. auto.
Qed.

Lemma bg8_loop_ok : forall data cs mc clr,
  Forall (pix_ok 1) data -> pix_ok 1 clr -> pix_ok 1 (bg8_loop data cs mc clr).
Proof.
  induction data as [|k t IH]; intros cs mc clr F P; [exact P|].
  inversion F; subst. cbn [bg8_loop].
  destruct (mc <? count_get k (count_inc k cs))%Z; apply IH; auto.
Qed.

Lemma bg_colour_ok bypp data bg :
  Forall (pix_ok bypp) data -> bg_colour bypp data = Some bg -> pix_ok bypp bg.
Proof.
  intros F H. unfold bg_colour in H. destruct bypp as [|[|b]].
  - destruct data; inversion H; subst. inversion F; assumption.
  - inversion H; subst. apply bg8_loop_ok; [assumption|]. unfold pix_ok. simpl. lia.
  - destruct data; inversion H; subst. inversion F; assumption.
Qed.

Lemma positions_length w h : length (positions w h) = h * w.
Proof.
  unfold positions. rewrite (flat_map_const_length _ w).
  - rewrite seq_length. lia.
  - intros a. rewrite map_length, seq_length. reflexivity.
Qed.

Lemma filter_length_le {A} (f : A -> bool) l : length (filter f l) <= length l.
Proof. induction l; simpl; [lia|]. destruct (f a); simpl; lia. Qed.

Lemma concat_pix_ok bypp g : grid_pix_ok bypp g -> Forall (pix_ok bypp) (concat g).
Proof.
  induction 1; simpl; [constructor|]. apply Forall_app. split; assumption.
Qed.

Lemma dec_rre_gen_unfold fsz bypp w h bs :
  dec_rre_gen fsz bypp w h bs =
  (do (nb, r1) <- take 4 bs;
   do (bg, r2) <- take_pixel bypp r1;
   let n := be_val nb in
   if (n * Z.of_nat (bypp + 4 * fsz) =? Z.of_nat (length r2))%Z then
     do subs <- all_consumed (dec_rre_subs fsz bypp (Z.to_nat n) r2);
     paint_all w h (mk_grid w h bg) subs
   else None).
Proof. reflexivity. Qed.

(* C01_rre (fsz = 2) and C01_corre (fsz = 1) *)
Theorem rre_roundtrip fsz bypp w h g payload :
  wf_grid w h g -> grid_pix_ok bypp g ->
  (Z.of_nat w < 256 ^ Z.of_nat fsz)%Z -> (Z.of_nat h < 256 ^ Z.of_nat fsz)%Z -> 1 <= fsz <= 2 ->
  rre_payload fsz bypp w h g = Ok payload -> dec_rre_gen fsz bypp w h payload = Some g.
Proof.
  intros WF P HW HH HF E. cbv beta delta [rre_payload] in E.
  destruct (bg_colour bypp (concat g)) as [bg|] eqn:BG; [|discriminate].
  cbv zeta in E.
  destruct (subrect_encode w h g bg (Z.of_nat bypp) _ _) as [subs| |] eqn:SE; try discriminate.
  assert (EP : payload = be_bytes 4 (Z.of_nat (length subs)) ++ le_bytes bypp bg ++ flat_map (sub_bytes fsz bypp) subs) by congruence.
  clear E. rewrite EP. clear EP.
  apply subrect_encode_roundtrip in SE; [|assumption]. destruct SE as (PA & GOOD & LEN).
  assert (PB : pix_ok bypp bg).
  { eapply bg_colour_ok; [|exact BG]. apply concat_pix_ok. exact P. }
  assert (FITS : Forall (sub_fits fsz bypp) subs).
  { rewrite Forall_forall in GOOD. apply Forall_forall. intros s Hs.
    destruct (GOOD s Hs) as (A & B & C & D & _ & G). unfold sub_fits.
    split; [eapply gget_pix_ok; eauto|]. lia. }
  assert (NB : (Z.of_nat (length subs) < 256 ^ Z.of_nat 4)%Z).
  { pose proof (filter_length_le (nonbg g bg) (positions w h)) as FL. rewrite positions_length in FL.
    assert (PW : (256 ^ Z.of_nat fsz <= 65536)%Z).
    { destruct HF as [F1 F2]. destruct fsz as [|[|[|f]]]; try lia; simpl; lia. }
    change (256 ^ Z.of_nat 4)%Z with 4294967296%Z. nia. }
  remember (be_bytes 4 (Z.of_nat (length subs))) as nbs eqn:HNB.
  assert (LNB : length nbs = 4) by (subst nbs; apply be_bytes_length).
  rewrite dec_rre_gen_unfold.
  pose proof (take_app nbs (le_bytes bypp bg ++ flat_map (sub_bytes fsz bypp) subs)) as T.
  rewrite LNB in T. rewrite T. clear T. subst nbs.
  rewrite take_pixel_app by assumption.
  rewrite be_val_be_bytes by (unfold pix_ok; lia).
  rewrite (flat_map_const_length _ (bypp + 4 * fsz)) by (intros; apply sub_bytes_length).
  cbv zeta.
  replace (Z.of_nat (length subs) * Z.of_nat (bypp + 4 * fsz) =? Z.of_nat ((bypp + 4 * fsz) * length subs))%Z
    with true by (symmetry; apply Z.eqb_eq; lia).
  rewrite Nat2Z.id.
  rewrite <- (app_nil_r (flat_map (sub_bytes fsz bypp) subs)).
  rewrite dec_rre_subs_app by assumption. cbn [all_consumed]. exact PA.
Qed.
