(* C01 - the sub-rectangle encoder family is lossless: painting the background and then the
   emitted sub-rectangles in order reproduces the tile (for every tile content and size).
   Invariant: a cell is either untouched (data = original, canvas = background) or blanked
   (data = background, canvas = original). *)
From Coq Require Import ZArith List Lia Bool Arith.
From LV Require Import Enc.EncBase Enc.EncBaseProofs Enc.Subrect Dec.SpecPaint.
Import ListNotations.

Definition to_prect (s : subrect) : prect := (sr_c s, sr_x s, sr_y s, sr_w s, sr_h s).

Definition sub_good (w h : nat) (orig : grid) (bg : Z) (s : subrect) : Prop :=
  1 <= sr_w s /\ 1 <= sr_h s /\ sr_x s + sr_w s <= w /\ sr_y s + sr_h s <= h /\ sr_c s <> bg /\
  gget orig (sr_x s) (sr_y s) = Some (sr_c s).

Definition nonbg (orig : grid) (bg : Z) (q : nat * nat) : bool :=
  match gget orig (fst q) (snd q) with
  | Some p => negb (p =? bg)%Z
  | None => true
  end.

(* ------------------------------------------------------------------ runs *)
Lemma run_len_nth cl l i : i < run_len cl l -> nth_error l i = Some cl.
Proof.
  revert i; induction l as [|p l IH]; intros i H; simpl in *; [lia|].
  destruct (p =? cl)%Z eqn:E; [|lia]. apply Z.eqb_eq in E. subst.
  destruct i; [reflexivity|]. simpl. apply IH. lia.
Qed.

Lemma run_len_pos cl l : nth_error l 0 = Some cl -> 1 <= run_len cl l.
Proof.
  destruct l as [|p l]; simpl; [discriminate|]. intros H; inversion H; subst.
  rewrite Z.eqb_refl. lia.
Qed.

Definition span_ok (cl : Z) (x wd : nat) (r : row) : Prop :=
  forall i, i < wd -> nth_error r (x + i) = Some cl.

Definition rect_ok (cl : Z) (x wd ht : nat) (rows : grid) : Prop :=
  forall j, j < ht -> exists r, nth_error rows j = Some r /\ span_ok cl x wd r.

Lemma run_len_span cl x r wd : wd <= run_len cl (skipn x r) -> span_ok cl x wd r.
Proof. intros H i Hi. rewrite <- nth_error_skipn. apply run_len_nth. lia. Qed.

Lemma span_ok_le cl x wd wd' r : wd' <= wd -> span_ok cl x wd r -> span_ok cl x wd' r.
Proof. intros L H i Hi. apply H. lia. Qed.

Lemma rect_ok_app cl x wd ht pre post : rect_ok cl x wd ht pre -> rect_ok cl x wd ht (pre ++ post).
Proof.
  intros H j Hj. destruct (H j Hj) as [r [E S]]. exists r. split; [|assumption].
  rewrite nth_error_app1; [assumption|]. apply nth_error_Some. congruence.
Qed.

Lemma rect_ok_snoc cl x wd wd' ht pre r :
  length pre = ht -> wd' <= wd -> rect_ok cl x wd ht pre -> span_ok cl x wd' r ->
  rect_ok cl x wd' (S ht) (pre ++ [r]).
Proof.
  intros L W H S j Hj. destruct (Nat.eq_dec j ht) as [->|N].
  - exists r. split; [|assumption]. rewrite nth_error_app2 by lia. rewrite L, Nat.sub_diag. reflexivity.
  - destruct (H j ltac:(lia)) as [r0 [E S0]]. exists r0. split.
    + rewrite nth_error_app1; [assumption|]. apply nth_error_Some. congruence.
    + eapply span_ok_le; eauto.
Qed.

Lemma ext_loop_inv cl x : forall rs pre hw hh vw vh flag hw' hh' vw' vh',
  length pre = vh -> hh <= vh -> (flag = true -> hh = vh) ->
  rect_ok cl x hw hh pre -> rect_ok cl x vw vh pre -> 1 <= vw ->
  ext_loop rs x cl false hw hh vw vh flag = (hw', hh', vw', vh') ->
  rect_ok cl x hw' hh' (pre ++ rs) /\ rect_ok cl x vw' vh' (pre ++ rs) /\
  hw' = hw /\ hh <= hh' /\ 1 <= vw' /\ vh <= vh'.
Proof.
  induction rs as [|r rs IH]; intros pre hw hh vw vh flag hw' hh' vw' vh' L HV HF RH RV V1 E.
  - simpl in E. inversion E; subst. rewrite app_nil_r. repeat split; auto.
  - cbn [ext_loop] in E. destruct (run_len cl (skipn x r)) as [|n] eqn:RL.
    + inversion E; subst. repeat split; auto using rect_ok_app.
    + remember (S n) as N eqn:HN.
      assert (SN : forall wd, wd <= N -> span_ok cl x wd r).
      { intros wd Hwd. apply run_len_span. rewrite RL. exact Hwd. }
      set (vwn := if N <? vw then N else vw) in *.
      assert (Vn : vwn <= vw /\ vwn <= N /\ 1 <= vwn).
      { unfold vwn. destruct (N <? vw) eqn:EN; [apply Nat.ltb_lt in EN|apply Nat.ltb_ge in EN]; lia. }
      replace (pre ++ r :: rs) with ((pre ++ [r]) ++ rs) by (rewrite <- app_assoc; reflexivity).
      destruct (flag && (hw <=? N)) eqn:EF.
      * apply andb_true_iff in EF. destruct EF as [F1 F2]. apply Nat.leb_le in F2.
        specialize (HF F1). subst hh.
        apply (IH (pre ++ [r])) in E.
        -- destruct E as (A & B & C & D & F & G). repeat split; auto; lia.
        -- rewrite app_length. simpl. lia.
        -- lia.
        -- intros _. reflexivity.
        -- apply rect_ok_snoc with (wd := hw); auto.
        -- apply rect_ok_snoc with (wd := vw); auto; try lia. apply SN; lia.
        -- lia.
      * apply (IH (pre ++ [r])) in E.
        -- destruct E as (A & B & C & D & F & G). repeat split; auto; lia.
        -- rewrite app_length. simpl. lia.
        -- lia.
        -- intros; discriminate.
        -- apply rect_ok_app; assumption.
        -- apply rect_ok_snoc with (wd := vw); auto; try lia. apply SN; lia.
        -- lia.
Qed.

Lemma ext_loop_first cl x r rs hw hh vw vh :
  nth_error r x = Some cl ->
  ext_loop (r :: rs) x cl true 0 0 0 0 true = (hw, hh, vw, vh) ->
  rect_ok cl x hw hh (r :: rs) /\ rect_ok cl x vw vh (r :: rs) /\
  1 <= hw /\ 1 <= hh /\ 1 <= vw /\ 1 <= vh.
Proof.
  intros HX E. cbn [ext_loop] in E.
  assert (P : 1 <= run_len cl (skipn x r)).
  { apply run_len_pos. rewrite nth_error_skipn, Nat.add_0_r. assumption. }
  destruct (run_len cl (skipn x r)) as [|n] eqn:RL; [lia|].
  rewrite Nat.ltb_irrefl in E. cbn [andb] in E. rewrite Nat.leb_refl in E.
  assert (S1 : rect_ok cl x (S n) 1 [r]).
  { intros j Hj. assert (j = 0) by lia. subst. exists r. split; [reflexivity|].
    apply run_len_span. rewrite RL. lia. }
  apply (ext_loop_inv cl x rs [r]) in E; auto; try lia.
  destruct E as (A & B & C & D & F & G). simpl app in *. subst hw. repeat split; auto; lia.
Qed.

Lemma span_ok_bound cl x wd r : 1 <= wd -> span_ok cl x wd r -> x + wd <= length r.
Proof.
  intros W S. specialize (S (wd - 1) ltac:(lia)).
  assert (x + (wd - 1) < length r) by (apply nth_error_Some; congruence). lia.
Qed.

(* what the chosen candidate guarantees, in coordinates of the whole grid *)
Lemma rect_ok_grid w h g cl x y wd ht :
  wf_grid w h g -> y < h -> 1 <= wd -> 1 <= ht -> rect_ok cl x wd ht (skipn y g) ->
  x + wd <= w /\ y + ht <= h /\
  forall i j, x <= i < x + wd -> y <= j < y + ht -> gget g i j = Some cl.
Proof.
  intros WF Hy W1 H1 R.
  assert (B : y + ht <= h).
  { destruct (R (ht - 1) ltac:(lia)) as [r [E _]]. rewrite nth_error_skipn in E.
    assert (y + (ht - 1) < length g) by (apply nth_error_Some; congruence). destruct WF. lia. }
  assert (A : x + wd <= w).
  { destruct (R 0 ltac:(lia)) as [r [E S]]. rewrite nth_error_skipn in E.
    pose proof (wf_row _ _ _ _ _ WF E). pose proof (span_ok_bound _ _ _ _ W1 S). lia. }
  repeat split; auto. intros i j Hi Hj.
  destruct (R (j - y) ltac:(lia)) as [r [E S]]. rewrite nth_error_skipn in E.
  replace (y + (j - y)) with j in E by lia. unfold gget. rewrite E.
  specialize (S (i - x) ltac:(lia)). replace (x + (i - x)) with i in S by lia. exact S.
Qed.

(* ------------------------------------------------------------------ one scan step *)
Lemma sub_step_cases per limit bg x y g st g' st' :
  sub_step per limit bg x y g st = Ok (g', st') ->
  (gget g x y = Some bg /\ g' = g /\ st' = st) \/
  (exists p hw hh vw vh tw th, gget g x y = Some p /\ p <> bg /\
     ext_loop (skipn y g) x p true 0 0 0 0 true = (hw, hh, vw, vh) /\
     ((tw, th) = (hw, hh) \/ (tw, th) = (vw, vh)) /\
     g' = fill_rect g x y tw th bg /\
     st' = (mkSub p x y tw th :: fst st, (snd st + per)%Z)).
Proof.
  unfold sub_step. destruct (gget g x y) as [p|] eqn:G; [|discriminate].
  destruct (p =? bg)%Z eqn:EB.
  - apply Z.eqb_eq in EB. subst. intros H; inversion H; subst. left; auto.
  - apply Z.eqb_neq in EB.
    destruct (ext_loop (skipn y g) x p true 0 0 0 0 true) as [[[hw hh] vw] vh] eqn:EL.
    destruct (vw * vh <? hw * hh) eqn:EC;
      (destruct (limit <? snd st + per)%Z; [discriminate|]; intros H; inversion H; subst; right).
    + exists p, hw, hh, vw, vh, hw, hh. repeat split; auto.
    + exists p, hw, hh, vw, vh, vw, vh. repeat split; auto.
Qed.

Definition inv (w h : nat) (orig : grid) (bg : Z) (g : grid) (subs_rev : list subrect) : Prop :=
  wf_grid w h g /\
  exists canvas,
    paint_all w h (mk_grid w h bg) (map to_prect (rev subs_rev)) = Some canvas /\
    wf_grid w h canvas /\
    forall i j, i < w -> j < h ->
      (gget g i j = gget orig i j /\ gget canvas i j = Some bg) \/
      (gget g i j = Some bg /\ gget canvas i j = gget orig i j).

Lemma paint_all_app w h g a b :
  paint_all w h g (a ++ b) =
  match paint_all w h g a with Some g' => paint_all w h g' b | None => None end.
Proof.
  revert g; induction a as [|s a IH]; intros g; simpl; [reflexivity|].
  destruct (prect_inside w h s); [apply IH|reflexivity].
Qed.

Lemma in_rect_dec x y tw th i j :
  ((x <=? i) && (i <? x + tw) && (y <=? j) && (j <? y + th) = true /\ x <= i < x + tw /\ y <= j < y + th) \/
  ((x <=? i) && (i <? x + tw) && (y <=? j) && (j <? y + th) = false /\ ~ (x <= i < x + tw /\ y <= j < y + th)).
Proof.
  destruct ((x <=? i) && (i <? x + tw) && (y <=? j) && (j <? y + th)) eqn:E.
  - left. split; [reflexivity|]. rewrite !andb_true_iff in E.
    destruct E as [[[A B] C] D]. apply Nat.leb_le in A, C. apply Nat.ltb_lt in B, D. lia.
  - right. split; [reflexivity|]. intros [[A B] [C D]].
    apply Nat.leb_le in A, C. apply Nat.ltb_lt in B, D. rewrite A, B, C, D in E. discriminate.
Qed.

Lemma sub_step_inv w h orig bg per limit x y g st g' st' :
  x < w -> y < h -> inv w h orig bg g (fst st) -> Forall (sub_good w h orig bg) (fst st) ->
  sub_step per limit bg x y g st = Ok (g', st') ->
  inv w h orig bg g' (fst st') /\ Forall (sub_good w h orig bg) (fst st') /\
  gget g' x y = Some bg /\
  (forall i j, i < w -> j < h -> gget g i j = Some bg -> gget g' i j = Some bg) /\
  length (fst st') <= length (fst st) + (if nonbg orig bg (x, y) then 1 else 0).
Proof.
  intros Hx Hy I GOOD E. apply sub_step_cases in E.
  destruct E as [(G & -> & ->)|(p & hw & hh & vw & vh & tw & th & G & NE & EL & CH & -> & ->)].
  - split; [assumption|]. split; [assumption|]. split; [assumption|]. split; [auto|].
    destruct (nonbg orig bg (x, y)); lia.
  - destruct I as (WF & canvas & PA & WC & CELL).
    (* the first row of the suffix is row y *)
    destruct (skipn y g) as [|r rs] eqn:SK.
    { exfalso. assert (length (skipn y g) = 0) by (rewrite SK; reflexivity).
      rewrite skipn_length in H. destruct WF. lia. }
    assert (RX : nth_error r x = Some p).
    { unfold gget in G. assert (nth_error g y = Some r).
      { rewrite <- (Nat.add_0_r y), <- nth_error_skipn, SK. reflexivity. }
      rewrite H in G. exact G. }
    apply (ext_loop_first p x r rs) in EL; auto.
    destruct EL as (RH & RV & H1 & H2 & V1 & V2).
    assert (RT : rect_ok p x tw th (skipn y g) /\ 1 <= tw /\ 1 <= th).
    { rewrite SK. destruct CH as [C|C]; inversion C; subst; auto. }
    destruct RT as (RT & T1 & T2).
    destruct (rect_ok_grid w h g p x y tw th WF Hy T1 T2 RT) as (BX & BY & ALL).
    cbn [fst snd].
    assert (WF' : wf_grid w h (fill_rect g x y tw th bg)) by (apply wf_fill_rect; auto).
    split; [|split; [|split; [|split]]].
    + split; [exact WF'|].
      exists (fill_rect canvas x y tw th p). split; [|split].
      * cbn [rev map]. rewrite map_app, paint_all_app, PA. cbn [map paint_all to_prect prect_inside sr_c sr_x sr_y sr_w sr_h].
        replace (x + tw <=? w) with true by (symmetry; apply Nat.leb_le; lia).
        replace (y + th <=? h) with true by (symmetry; apply Nat.leb_le; lia).
        reflexivity.
      * apply wf_fill_rect; auto.
      * intros i j Hi Hj.
        rewrite (gget_fill_rect w h g) by auto. rewrite (gget_fill_rect w h canvas) by auto.
        destruct (in_rect_dec x y tw th i j) as [[-> IN]|[-> OUT]].
        -- right. split; [reflexivity|].
           destruct IN as [IN1 IN2]. specialize (ALL i j IN1 IN2).
           destruct (CELL i j Hi Hj) as [[A B]|[A B]]; [congruence|]. congruence.
        -- apply CELL; assumption.
    + constructor; [|assumption]. unfold sub_good. cbn.
      assert (gget orig x y = Some p).
      { destruct (CELL x y Hx Hy) as [[A B]|[A B]]; congruence. }
      auto 10.
    + rewrite (gget_fill_rect w h g) by auto.
      replace ((x <=? x) && (x <? x + tw) && (y <=? y) && (y <? y + th)) with true; [reflexivity|].
      symmetry. rewrite !andb_true_iff, !Nat.leb_le, !Nat.ltb_lt. lia.
    + intros i j Hi Hj GB. rewrite (gget_fill_rect w h g) by auto.
      destruct (in_rect_dec x y tw th i j) as [[-> _]|[-> _]]; auto.
    + (* an original background cell never emits *)
      cbn [length]. unfold nonbg. cbn [fst snd].
      destruct (CELL x y Hx Hy) as [[A B]|[A B]].
      * rewrite <- A, G. apply Z.eqb_neq in NE. rewrite NE. simpl. lia.
      * congruence.
Qed.

Lemma sub_scan_inv w h orig bg per limit : forall ps g st g' st',
  (forall x y, In (x, y) ps -> x < w /\ y < h) ->
  inv w h orig bg g (fst st) -> Forall (sub_good w h orig bg) (fst st) ->
  sub_scan per limit bg ps g st = Ok (g', st') ->
  inv w h orig bg g' (fst st') /\ Forall (sub_good w h orig bg) (fst st') /\
  (forall i j, i < w -> j < h -> gget g i j = Some bg \/ In (i, j) ps -> gget g' i j = Some bg) /\
  length (fst st') <= length (fst st) + length (filter (nonbg orig bg) ps).
Proof.
  induction ps as [|[x y] ps IH]; intros g st g' st' R I GOOD E.
  - simpl in E. inversion E; subst. split; [assumption|]. split; [assumption|]. split.
    + intros i j _ _ [H|[]]. exact H.
    + simpl. lia.
  - cbn [sub_scan] in E.
    destruct (sub_step per limit bg x y g st) as [[g1 st1]| |] eqn:ST; try discriminate.
    destruct (R x y (or_introl eq_refl)) as [Hx Hy].
    destruct (sub_step_inv w h orig bg per limit x y g st g1 st1 Hx Hy I GOOD ST) as (I1 & G1 & XY & KEEP & LEN).
    apply IH in E; auto.
    + destruct E as (I2 & G2 & BG & LEN2). split; [assumption|]. split; [assumption|]. split.
      * intros i j Hi Hj [H|[H|H]].
        -- apply BG; auto.
        -- inversion H; subst. apply BG; auto.
        -- apply BG; auto.
      * cbn [filter]. destruct (nonbg orig bg (x, y)); cbn [length]; lia.
    + intros a b H. apply R. right; assumption.
Qed.

Lemma inv_init w h g bg : wf_grid w h g -> inv w h g bg g [].
Proof.
  intros WF. split; [assumption|]. exists (mk_grid w h bg). split; [reflexivity|]. split; [apply wf_mk_grid|].
  intros i j Hi Hj. left. split; [reflexivity|]. apply gget_mk_grid; assumption.
Qed.

(* C01_subrect_roundtrip *)
Theorem subrect_encode_roundtrip w h g bg len0 per limit subs :
  wf_grid w h g -> subrect_encode w h g bg len0 per limit = Ok subs ->
  paint_all w h (mk_grid w h bg) (map to_prect subs) = Some g /\
  Forall (sub_good w h g bg) subs /\
  length subs <= length (filter (nonbg g bg) (positions w h)).
Proof.
  intros WF E. unfold subrect_encode in E.
  destruct (sub_scan per limit bg (positions w h) g ([], len0)) as [[g' [subs' len']]| |] eqn:SC; try discriminate.
  inversion E; subst subs. clear E.
  apply (sub_scan_inv w h g bg) in SC; auto.
  - cbn [fst] in SC. destruct SC as ((WF' & canvas & PA & WC & CELL) & GOOD & BG & LEN).
    assert (canvas = g).
    { apply (grid_ext w h); auto. intros x y Hx Hy.
      assert (B : gget g' x y = Some bg).
      { apply BG; auto. right. apply in_positions. auto. }
      destruct (CELL x y Hx Hy) as [[A C]|[A C]]; congruence. }
    subst canvas. repeat split.
    + exact PA.
    + apply Forall_rev. exact GOOD.
    + rewrite rev_length. simpl in LEN. exact LEN.
  - intros x y H. apply in_positions. exact H.
  - apply inv_init. exact WF.
  - constructor.
Qed.

(* the model is never driven outside its domain on a well-formed tile *)
Theorem subrect_encode_no_err w h g bg len0 per limit :
  wf_grid w h g -> subrect_encode w h g bg len0 per limit <> Err.
Proof.
  intros WF. unfold subrect_encode.
  assert (K : forall ps g0 st, (forall x y, In (x, y) ps -> x < w /\ y < h) ->
              inv w h g bg g0 (fst st) -> Forall (sub_good w h g bg) (fst st) ->
              sub_scan per limit bg ps g0 st <> Err).
  { induction ps as [|[x y] ps IH]; intros g0 st R I GOOD; [discriminate|].
    cbn [sub_scan]. destruct (sub_step per limit bg x y g0 st) as [[g1 st1]| |] eqn:ST.
    - destruct (R x y (or_introl eq_refl)) as [Hx Hy].
      destruct (sub_step_inv w h g bg per limit x y g0 st g1 st1 Hx Hy I GOOD ST) as (I1 & G1 & _).
      apply IH; auto. intros a b H. apply R. right; assumption.
    - discriminate.
    - exfalso. unfold sub_step in ST.
      destruct (R x y (or_introl eq_refl)) as [Hx Hy]. destruct I as [WF0 _].
      destruct (gget_some w h g0 x y WF0 Hx Hy) as [p G]. rewrite G in ST.
      destruct (p =? bg)%Z; [discriminate|].
      destruct (ext_loop (skipn y g0) x p true 0 0 0 0 true) as [[[hw hh] vw] vh].
      destruct (vw * vh <? hw * hh); destruct (limit <? snd st + per)%Z; discriminate. }
  specialize (K (positions w h) g ([], len0)).
  destruct (sub_scan per limit bg (positions w h) g ([], len0)) as [[g' [subs' len']]| |]; try discriminate.
  exfalso. apply K; auto.
  - intros x y H. apply in_positions. exact H.
  - apply inv_init; assumption.
  - constructor.
Qed.
