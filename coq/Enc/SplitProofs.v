(* C01_split_cover - the sub-rectangles produced by the CoRRE tiling and by the Zlib / Ultra
   strip splitting tile the original rectangle exactly: every piece lies inside, every pixel
   lies in a piece, and two pieces that share a pixel are the same piece. *)
From Coq Require Import ZArith List Lia Bool Arith.
From LV Require Import Enc.EncBase Enc.EncBaseProofs Enc.Zlib.
Import ListNotations.

Definition inside_piece (p : nat * nat * nat * nat) (i j : nat) : Prop :=
  let '(x, y, w, h) := p in x <= i < x + w /\ y <= j < y + h.

(* pieces (relative to the rectangle's origin) partition the w x h area *)
Definition partitions (w h : nat) (ps : list (nat * nat * nat * nat)) : Prop :=
  (forall x y cw ch, In (x, y, cw, ch) ps -> x + cw <= w /\ y + ch <= h /\ 1 <= cw /\ 1 <= ch) /\
  (forall i j, i < w -> j < h -> exists p, In p ps /\ inside_piece p i j) /\
  (forall p q i j, In p ps -> In q ps -> inside_piece p i j -> inside_piece q i j -> p = q).

Lemma div_unique_start step k i c : 0 < step -> c <= step -> k * step <= i < k * step + c -> k = i / step.
Proof.
  intros Hs Hc Hi. apply Nat.div_unique with (r := i - k * step); lia.
Qed.

Theorem tiles_partition w h tw th : 0 < tw -> 0 < th -> partitions w h (tiles w h tw th).
Proof.
  intros Htw Hth. split; [|split].
  - intros x y cw ch H. apply tiles_inside in H. lia.
  - intros i j Hi Hj. destruct (tiles_cover w h tw th i j Htw Hth Hi Hj) as (x & y & cw & ch & IN & A & B).
    exists (x, y, cw, ch). split; [assumption|]. simpl. lia.
  - intros [[[x1 y1] c1] d1] [[[x2 y2] c2] d2] i j H1 H2 I1 I2. simpl in I1, I2.
    unfold tiles in H1, H2. apply in_flat_map in H1, H2.
    destruct H1 as (ya & Hya & H1). destruct H2 as (yb & Hyb & H2).
    apply in_map_iff in H1, H2. destruct H1 as (xa & E1 & Hxa). destruct H2 as (xb & E2 & Hxb).
    inversion E1; subst. inversion E2; subst. clear E1 E2.
    apply starts_spec in Hya, Hyb, Hxa, Hxb.
    destruct Hya as (_ & ka & ->). destruct Hyb as (_ & kb & ->).
    destruct Hxa as (_ & la & ->). destruct Hxb as (_ & lb & ->).
    assert (la = i / tw) by (apply (div_unique_start tw la i (Nat.min tw (w - la * tw))); lia).
    assert (lb = i / tw) by (apply (div_unique_start tw lb i (Nat.min tw (w - lb * tw))); lia).
    assert (ka = j / th) by (apply (div_unique_start th ka j (Nat.min th (h - ka * th))); lia).
    assert (kb = j / th) by (apply (div_unique_start th kb j (Nat.min th (h - kb * th))); lia).
    subst. reflexivity.
Qed.

(* ------------------------------------------------------------------ strips *)
Lemma split_rows_zero f maxl y : split_rows f maxl y 0 = [].
Proof. destruct f; reflexivity. Qed.

Lemma starts_from_done f s n step : n <= s -> starts_from f s n step = [].
Proof.
  intros H. destruct f; [reflexivity|]. simpl.
  replace (s <? n) with false by (symmetry; apply Nat.ltb_ge; lia). reflexivity.
Qed.

Lemma split_rows_starts maxl y0 n : 0 < maxl -> forall f s, s <= n ->
  split_rows f maxl (y0 + s) (n - s) =
  map (fun s' => (y0 + s', Nat.min maxl (n - s'))) (starts_from f s n maxl).
Proof.
  intros Hm. induction f as [|f IH]; intros s Hs; [reflexivity|].
  cbn [split_rows starts_from].
  destruct (n - s =? 0) eqn:E0.
  - apply Nat.eqb_eq in E0. replace (s <? n) with false by (symmetry; apply Nat.ltb_ge; lia). reflexivity.
  - apply Nat.eqb_neq in E0. replace (s <? n) with true by (symmetry; apply Nat.ltb_lt; lia).
    cbn [map]. destruct (maxl <? n - s) eqn:EL.
    + apply Nat.ltb_lt in EL. rewrite Nat.min_l by lia. f_equal.
      replace (y0 + s + maxl) with (y0 + (s + maxl)) by lia.
      replace (n - s - maxl) with (n - (s + maxl)) by lia. apply IH. lia.
    + apply Nat.ltb_ge in EL. rewrite Nat.min_r by lia. f_equal.
      replace (n - s - (n - s)) with 0 by lia. rewrite split_rows_zero.
      rewrite starts_from_done by lia. reflexivity.
Qed.

Lemma strips_eq rs y w h : 1 <= w ->
  strips rs y w h = map (fun s => (y + s, Nat.min (max_size rs w / w) (h - s))) (starts h (max_size rs w / w)).
Proof.
  intros Hw. unfold strips, starts.
  assert (M : 0 < max_size rs w / w).
  { apply Nat.div_str_pos. unfold max_size. destruct (rs <? Z.of_nat (w * 2))%Z eqn:E; [lia|].
    apply Z.ltb_ge in E. lia. }
  pose proof (split_rows_starts (max_size rs w / w) y h M h 0 ltac:(lia)) as S.
  rewrite Nat.add_0_r, Nat.sub_0_r in S. exact S.
Qed.

(* the strips, as pieces of full width, partition the rectangle *)
Theorem strips_partition rs w h : 1 <= w ->
  partitions w h (map (fun '(sy, sh) => (0, sy, w, sh)) (strips rs 0 w h)).
Proof.
  intros Hw. rewrite strips_eq by assumption. set (m := max_size rs w / w).
  assert (M : 0 < m).
  { apply Nat.div_str_pos. unfold max_size. destruct (rs <? Z.of_nat (w * 2))%Z eqn:E; [lia|].
    apply Z.ltb_ge in E. lia. }
  rewrite map_map. cbn [Nat.add]. split; [|split].
  - intros x y cw ch H. apply in_map_iff in H. destruct H as (s & E & Hs). inversion E; subst.
    apply starts_spec in Hs. lia.
  - intros i j Hi Hj. exists (0, m * (j / m), w, Nat.min m (h - m * (j / m))). split.
    + apply in_map_iff. exists (m * (j / m)). split; [reflexivity|]. apply in_starts; assumption.
    + simpl. pose proof (Nat.mul_div_le j m). pose proof (Nat.mul_succ_div_gt j m). lia.
  - intros p q i j Hp Hq Ip Iq. apply in_map_iff in Hp, Hq.
    destruct Hp as (s1 & <- & H1). destruct Hq as (s2 & <- & H2). simpl in Ip, Iq.
    apply starts_spec in H1, H2. destruct H1 as (_ & k1 & ->). destruct H2 as (_ & k2 & ->).
    assert (k1 = j / m) by (apply (div_unique_start m k1 j (Nat.min m (h - k1 * m))); lia).
    assert (k2 = j / m) by (apply (div_unique_start m k2 j (Nat.min m (h - k2 * m))); lia).
    subst. reflexivity.
Qed.
