(* C01 - ZRLE, packed palette rows: the per-pixel accumulator of the C code
   (byte = (byte << bppp) | index, flush at 8 bits, pad the last byte) writes the base-2^bppp
   digits that the specification's decoder reads back, most significant first. *)
From Coq Require Import ZArith List Lia Bool Arith Znumtheory.
From LV Require Import Enc.EncBase Enc.EncBaseProofs Enc.ZRLE Enc.ZRLEProofs1 Dec.SpecBase Dec.SpecZRLE.
Import ListNotations.
Local Open Scope Z_scope.

Lemma dv_snoc B l d : dv B (l ++ [d]) = dv B l * B + d.
Proof. unfold dv. rewrite fold_left_app. reflexivity. Qed.

Lemma dv_bound B l : 1 < B -> Forall (fun d => 0 <= d < B) l -> 0 <= dv B l < B ^ Z.of_nat (length l).
Proof.
  intros HB. induction l as [|d l IH] using rev_ind; intros F.
  - unfold dv. simpl. lia.
  - apply Forall_app in F. destruct F as [F1 F2]. inversion F2; subst. specialize (IH F1).
    rewrite dv_snoc, app_length. cbn [length]. rewrite Nat.add_1_r, Nat2Z.inj_succ, Z.pow_succ_r by lia. nia.
Qed.

Lemma byte_digits_dv B l : 1 < B -> Forall (fun d => 0 <= d < B) l -> byte_digits (length l) B (dv B l) = l.
Proof.
  intros HB. induction l as [|d l IH] using rev_ind; intros F; [reflexivity|].
  apply Forall_app in F. destruct F as [F1 F2]. inversion F2; subst.
  rewrite app_length. cbn [length]. rewrite Nat.add_1_r. cbn [byte_digits]. rewrite dv_snoc.
  rewrite Z.div_add_l by lia. rewrite Z.div_small by lia. rewrite Z.add_0_r.
  rewrite Z.add_comm, Z.mod_add by lia. rewrite Z.mod_small by lia. rewrite IH by assumption. reflexivity.
Qed.

Lemma dv_zeros B l j : dv B (l ++ repeat 0 j) = dv B l * B ^ Z.of_nat j.
Proof.
  induction j as [|j IH]; [simpl; rewrite app_nil_r; lia|].
  replace (repeat 0 (S j)) with (repeat 0 j ++ [0]) by (rewrite <- repeat_cons; reflexivity).
  rewrite app_assoc, dv_snoc, IH, Nat2Z.inj_succ, Z.pow_succ_r by lia. lia.
Qed.

Lemma pack_chunks_nil f m B : pack_chunks f m B [] = [].
Proof. destruct f; reflexivity. Qed.

Lemma pack_chunks_cons f m B idxs : idxs <> [] ->
  pack_chunks (S f) m B idxs =
  dv B (firstn m idxs ++ repeat 0 (m - length (firstn m idxs))) :: pack_chunks f m B (skipn m idxs).
Proof. destruct idxs; [congruence|reflexivity]. Qed.

Lemma pack_chunks_fuel m B : (1 <= m)%nat -> forall f1 f2 idxs,
  (length idxs <= f1)%nat -> (length idxs <= f2)%nat -> pack_chunks f1 m B idxs = pack_chunks f2 m B idxs.
Proof.
  intros Hm. induction f1 as [|f1 IH]; intros f2 idxs L1 L2.
  - destruct idxs; [|simpl in L1; lia]. rewrite !pack_chunks_nil. reflexivity.
  - destruct idxs as [|a l]; [rewrite !pack_chunks_nil; reflexivity|].
    destruct f2 as [|f2]; [simpl in L2; lia|].
    rewrite !pack_chunks_cons by discriminate. f_equal.
    assert (length (skipn m (a :: l)) <= length l)%nat by (rewrite skipn_length; cbn [length]; lia).
    cbn [length] in L1, L2. apply IH; lia.
Qed.

Lemma pad_byte s byte v : 0 < s < 8 -> byte mod 2 ^ s = v -> (byte * 2 ^ (8 - s)) mod 256 = v * 2 ^ (8 - s).
Proof.
  intros Hs Hv.
  assert (P1 : 0 < 2 ^ s) by (apply Z.pow_pos_nonneg; lia).
  assert (P2 : 0 < 2 ^ (8 - s)) by (apply Z.pow_pos_nonneg; lia).
  assert (P3 : 2 ^ s * 2 ^ (8 - s) = 256).
  { rewrite <- Z.pow_add_r by lia. replace (s + (8 - s)) with 8 by lia. reflexivity. }
  pose proof (Z.div_mod byte (2 ^ s) ltac:(lia)) as DM.
  pose proof (Z.mod_pos_bound byte (2 ^ s) P1) as MB. rewrite Hv in *.
  remember (byte / 2 ^ s) as q. remember (2 ^ s) as a. remember (2 ^ (8 - s)) as b.
  assert (EQ : byte * b = v * b + q * 256).
  { rewrite DM at 1. rewrite <- P3. ring. }
  rewrite EQ. rewrite Z.mod_add by lia. apply Z.mod_small. nia.
Qed.

Section Packed.
  Variables (bppp : Z) (m : nat).
  Hypothesis Hb : 1 <= bppp.
  Hypothesis Hm : bppp * Z.of_nat m = 8.
  Let B := 2 ^ bppp.

  Lemma B_gt1 : 1 < B.
  Proof. unfold B. apply Z.pow_gt_1; lia. Qed.

  Lemma B_pow k : B ^ Z.of_nat k = 2 ^ (bppp * Z.of_nat k).
  Proof. unfold B. rewrite <- Z.pow_mul_r by lia. reflexivity. Qed.

  Lemma m_pos : (1 <= m)%nat.
  Proof. destruct m; [lia|lia]. Qed.

  (* the indices of a row as the encoder looks them up *)
  Fixpoint row_idxs (pal : list Z) (r : list Z) : option (list Z) :=
    match r with
    | [] => Some []
    | p :: t =>
      match pal_index pal p, row_idxs pal t with
      | Some i, Some l => Some (i :: l)
      | _, _ => None
      end
    end.

  Lemma pack_row_chunks pal : forall r idxs pend byte out,
    row_idxs pal r = Some idxs -> Forall (fun d => 0 <= d < B) idxs ->
    Forall (fun d => 0 <= d < B) pend -> (length pend < m)%nat ->
    0 <= byte < 256 -> byte mod B ^ Z.of_nat (length pend) = dv B pend ->
    pack_row bppp pal r byte (bppp * Z.of_nat (length pend)) = Some out ->
    out = pack_chunks (S (length pend + length idxs)) m B (pend ++ idxs).
  Proof.
    pose proof B_gt1 as HB1.
    induction r as [|p t IH]; intros idxs pend byte out RI FI FP LP BB INV E.
    - simpl in RI. inversion RI; subst idxs. rewrite app_nil_r. cbn [pack_row] in E.
      destruct (0 <? bppp * Z.of_nat (length pend)) eqn:NB.
      + apply Z.ltb_lt in NB. assert (KP : (1 <= length pend)%nat) by nia.
        inversion E; subst out. clear E. rewrite Nat.add_0_r.
        rewrite pack_chunks_cons by (destruct pend; [simpl in KP; lia|discriminate]).
        rewrite firstn_all2 by lia. rewrite skipn_all2 by lia. rewrite pack_chunks_nil. f_equal.
        rewrite dv_zeros, B_pow, Nat2Z.inj_sub by lia.
        replace (bppp * (Z.of_nat m - Z.of_nat (length pend))) with (8 - bppp * Z.of_nat (length pend)) by lia.
        apply pad_byte; [nia|]. rewrite <- B_pow. exact INV.
      + apply Z.ltb_ge in NB. assert (length pend = 0)%nat by nia.
        destruct pend; [|simpl in *; lia]. inversion E; subst. reflexivity.
    - cbn [row_idxs] in RI. destruct (pal_index pal p) as [idx|] eqn:PI; [|discriminate].
      destruct (row_idxs pal t) as [idxs'|] eqn:RT; [|discriminate]. inversion RI; subst idxs. clear RI.
      apply Forall_cons_iff in FI. destruct FI as [FI0 FI'].
      cbn [pack_row] in E. rewrite PI in E.
      set (k := length pend) in *.
      set (byte' := (byte * 2 ^ bppp + idx) mod 256) in *. fold B in byte'.
      assert (FP' : Forall (fun d => 0 <= d < B) (pend ++ [idx])) by (apply Forall_app; split; [assumption|constructor; [assumption|constructor]]).
      assert (LEN' : length (pend ++ [idx]) = S k) by (rewrite app_length; simpl; lia).
      assert (DIV : (B ^ Z.of_nat (S k) | 256)).
      { rewrite B_pow. exists (2 ^ (8 - bppp * Z.of_nat (S k))).
        assert (bppp * Z.of_nat (S k) <= 8) by (unfold k; nia).
        rewrite <- Z.pow_add_r by lia.
        replace (8 - bppp * Z.of_nat (S k) + bppp * Z.of_nat (S k)) with 8 by lia. reflexivity. }
      assert (INV' : byte' mod B ^ Z.of_nat (S k) = dv B (pend ++ [idx])).
      { unfold byte'. rewrite <- Zmod_div_mod; [| apply Z.pow_pos_nonneg; lia | lia | exact DIV].
        rewrite dv_snoc, <- INV.
        pose proof (Z.div_mod byte (B ^ Z.of_nat k) ltac:(apply Z.pow_nonzero; lia)) as DM.
        rewrite DM at 1. rewrite Nat2Z.inj_succ, Z.pow_succ_r by lia.
        replace ((B ^ Z.of_nat k * (byte / B ^ Z.of_nat k) + byte mod B ^ Z.of_nat k) * B + idx)
          with ((byte mod B ^ Z.of_nat k * B + idx) + (byte / B ^ Z.of_nat k) * (B * B ^ Z.of_nat k)) by ring.
        rewrite Z.mod_add by (apply Z.neq_mul_0; split; [lia|apply Z.pow_nonzero; lia]).
        apply Z.mod_small.
        pose proof (Z.mod_pos_bound byte (B ^ Z.of_nat k) ltac:(apply Z.pow_pos_nonneg; lia)). nia. }
      assert (BB' : 0 <= byte' < 256) by (unfold byte'; apply Z.mod_pos_bound; lia).
      replace (bppp * Z.of_nat k + bppp) with (bppp * Z.of_nat (S k)) in E by lia.
      destruct (8 <=? bppp * Z.of_nat (S k)) eqn:FL.
      + (* the byte is complete *)
        apply Z.leb_le in FL. assert (SK : S k = m) by nia.
        destruct (pack_row bppp pal t byte' 0) as [bs|] eqn:PR; [|discriminate]. inversion E; subst out. clear E.
        assert (PR' : pack_row bppp pal t byte' (bppp * Z.of_nat (length (@nil Z))) = Some bs)
          by (simpl; rewrite Z.mul_0_r; exact PR).
        clear PR. rename PR' into PR.
        apply (IH idxs' [] byte' bs eq_refl FI') in PR; try assumption; try constructor; [|simpl; pose proof m_pos; lia|simpl; apply Z.mod_1_r].
        assert (NE : pend ++ idx :: idxs' = (pend ++ [idx]) ++ idxs') by (rewrite <- app_assoc; reflexivity).
        rewrite pack_chunks_cons by (destruct pend; discriminate).
        rewrite NE. rewrite firstn_app, LEN', SK, Nat.sub_diag. cbn [firstn]. rewrite app_nil_r.
        rewrite firstn_all2 by lia. rewrite LEN', SK, Nat.sub_diag. cbn [repeat]. rewrite app_nil_r.
        rewrite skipn_app, LEN', SK, Nat.sub_diag. cbn [skipn]. rewrite skipn_all2 by lia. cbn [app].
        f_equal.
        * rewrite <- INV'. rewrite SK. symmetry. apply Z.mod_small.
          rewrite B_pow, Hm. change (2 ^ 8) with 256. exact BB'.
        * rewrite PR. cbn [length app]. apply pack_chunks_fuel; [apply m_pos|lia|lia].
      + apply Z.leb_gt in FL. assert (SK : (S k < m)%nat) by nia.
        rewrite <- LEN' in E. apply (IH idxs' (pend ++ [idx]) byte' out eq_refl FI') in E; try assumption; [|lia|rewrite LEN'; exact INV'].
        rewrite E. rewrite <- app_assoc. cbn [app]. apply pack_chunks_fuel; [apply m_pos| |]; rewrite ?LEN', !app_length; cbn [length]; fold k; lia.
  Qed.
End Packed.
