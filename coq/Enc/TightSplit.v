(* C01 - mirror of the LastRect path of SendRectEncodingTight (tight.c): search for large
   solid-colour areas on the SERVER framebuffer (CheckSolidTile, FindBestSolidArea,
   ExtendSolidArea), send them as fill rectangles and recurse on what is left; parts that grow
   beyond nMaxRows are flushed with SendRectSimple.  Result: the pieces in transmission order. *)
From Coq Require Import ZArith List Lia Bool Arith.
From LV Require Import Enc.EncBase Enc.Update Enc.Tight Gen.Consts_C01.
Import ListNotations.

Inductive tpiece :=
| Simple (x y w h : nat)      (* SendRectSimple *)
| Solid (x y w h : nat).      (* rfbSendTightHeader + SendSolidRect *)

Definition tpiece_geom (p : tpiece) : nat * nat * nat * nat :=
  match p with Simple x y w h => (x, y, w, h) | Solid x y w h => (x, y, w, h) end.

(* CheckSolidTile: colour of the tile when it is uniform (and equal to [need] when given) *)
Definition solid_tile (sfb : grid) (x y w h : nat) (need : option Z) : option Z :=
  match gget sfb x y with
  | None => None
  | Some c =>
    let same := match need with Some n => (c =? n)%Z | None => true end in
    if same && forallb (forallb (Z.eqb c)) (crop sfb x y w h) then Some c else None
  end.

Definition is_solid (sfb : grid) (x y w h : nat) (c : Z) : bool :=
  match solid_tile sfb x y w h (Some c) with Some _ => true | None => false end.

(* number of leading indices i < n with f i = true *)
Fixpoint count_while (n : nat) (f : nat -> bool) (i : nat) : nat :=
  match n with
  | O => O
  | S k => if f i then S (count_while k f (S i)) else O
  end.

Definition tsz : nat := Z.to_nat c_MAX_SPLIT_TILE_SIZE.

(* inner loop of FindBestSolidArea: for (dx = x + dw; dx < x + w_prev;) ...; returns dx *)
Fixpoint fbsa_row (fuel : nat) (sfb : grid) (x dy dh wprev dx : nat) (c : Z) : nat :=
  match fuel with
  | O => dx
  | S f =>
    if dx <? x + wprev then
      let dw := if dx + tsz <=? x + wprev then tsz else x + wprev - dx in
      if is_solid sfb dx dy dw dh c then fbsa_row f sfb x dy dh wprev (dx + dw) c else dx
    else dx
  end.

(* FindBestSolidArea: rows = the dy values y, y+16, ... ; returns (w_best, h_best) *)
Fixpoint fbsa (rows : list nat) (sfb : grid) (x y w h : nat) (c : Z) (wprev wbest hbest : nat) : nat * nat :=
  match rows with
  | [] => (wbest, hbest)
  | dy :: rest =>
    let dh := if dy + tsz <=? y + h then tsz else y + h - dy in
    let dw := if tsz <? wprev then tsz else wprev in
    if is_solid sfb x dy dw dh c then
      let dx := fbsa_row w sfb x dy dh wprev (x + dw) c in
      let wprev' := dx - x in
      if wbest * hbest <? wprev' * (dy + dh - y)
      then fbsa rest sfb x y w h c wprev' wprev' (dy + dh - y)
      else fbsa rest sfb x y w h c wprev' wbest hbest
    else (wbest, hbest)
  end.

(* ExtendSolidArea: (x_best, y_best, w_best, h_best) *)
Definition extend_area (sfb : grid) (x y w h : nat) (c : Z) (xb yb wb hb : nat) : nat * nat * nat * nat :=
  let up := count_while (yb - y) (fun i => is_solid sfb xb (yb - 1 - i) wb 1 c) 0 in
  let yb1 := yb - up in let hb1 := hb + up in
  let down := count_while (y + h - (yb1 + hb1)) (fun i => is_solid sfb xb (yb1 + hb1 + i) wb 1 c) 0 in
  let hb2 := hb1 + down in
  let left := count_while (xb - x) (fun i => is_solid sfb (xb - 1 - i) yb1 1 hb2 c) 0 in
  let xb1 := xb - left in let wb1 := wb + left in
  let right := count_while (x + w - (xb1 + wb1)) (fun i => is_solid sfb (xb1 + wb1 + i) yb1 1 hb2 c) 0 in
  (xb1, yb1, wb1 + right, hb2).

Definition opt_app {A} (a b : option (list A)) : option (list A) :=
  match a, b with Some x, Some y => Some (x ++ y) | _, _ => None end.

Section Scan.
  Variable rec : nat -> nat -> nat -> nat -> option (list tpiece).   (* SendRectEncodingTight on a sub-rectangle *)
  Variables (sfb : grid) (x w yend : nat).

  (* what happens once a solid tile at (dx,dy) of colour c is found, for the current (y,h);
     None' = "continue" (area too small) *)
  Definition on_solid (y h dx dy : nat) (c : Z) : option (option (list tpiece)) :=
    let '(wb, hb) := fbsa (starts_from (h - (dy - y)) dy (y + h) tsz) sfb dx dy (w - (dx - x)) (h - (dy - y)) c
                          (w - (dx - x)) 0 0 in
    if negb (wb * hb =? w * h) && (Z.of_nat (wb * hb) <? c_MIN_SOLID_SUBRECT_SIZE)%Z then None
    else
      let '(xb, yb, wb', hb') := extend_area sfb x y w h c dx dy wb hb in
      let top := if yb =? y then [] else [Simple x y w (yb - y)] in
      let left := if xb =? x then Some [] else rec x yb (xb - x) hb' in
      let right := if xb + wb' =? x + w then Some [] else rec (xb + wb') yb (w - (xb - x) - wb') hb' in
      let bottom := if yb + hb' =? y + h then Some [] else rec x (yb + hb') w (h - (yb - y) - hb') in
      Some (opt_app (Some top) (opt_app left (opt_app (Some [Solid xb yb wb' hb']) (opt_app right bottom)))).

  Fixpoint scan_dx (dxs : list nat) (y h dy dh : nat) : option (option (list tpiece)) :=
    match dxs with
    | [] => None
    | dx :: rest =>
      let dw := if dx + tsz <=? x + w then tsz else x + w - dx in
      match solid_tile sfb dx dy dw dh None with
      | Some c => match on_solid y h dx dy c with
                  | Some r => Some r
                  | None => scan_dx rest y h dy dh
                  end
      | None => scan_dx rest y h dy dh
      end
    end.

  (* the dy loop; (y,h) is the not yet flushed part, acc what has been flushed *)
  Fixpoint scan_dy (dys : list nat) (nMaxRows y : nat) (acc : list tpiece) : option (list tpiece) :=
    match dys with
    | [] => Some (acc ++ [Simple x y w (yend - y)])
    | dy :: rest =>
      let '(y1, acc1) := if nMaxRows <=? dy - y then (y + nMaxRows, acc ++ [Simple x y w nMaxRows]) else (y, acc) in
      let h1 := yend - y1 in
      let dh := if dy + tsz <=? yend then tsz else yend - dy in
      match scan_dx (starts_from w x (x + w) tsz) y1 h1 dy dh with
      | Some r => opt_app (Some acc1) r
      | None => scan_dy rest nMaxRows y1 acc1
      end
    end.
End Scan.

Fixpoint tight_split (fuel : nat) (sfb : grid) (x y w h : nat) : option (list tpiece) :=
  match fuel with
  | O => None
  | S f =>
    if (Z.of_nat (w * h) <? c_MIN_SPLIT_RECT_SIZE)%Z then Some [Simple x y w h]
    else
      let maxw := Z.to_nat c_TIGHT_MAX_RECT_WIDTH in
      let nMaxRows := Z.to_nat c_TIGHT_MAX_RECT_SIZE / (if maxw <? w then maxw else w) in
      scan_dy (tight_split f sfb) sfb x w (y + h) (starts_from h y (y + h) tsz) nMaxRows y []
  end.

(* the wire rectangles of the pieces *)
Definition send_tight_pieces (p : tight_params) (scr : grid) (pieces : list tpiece) : res (list wrect) :=
  res_concat (map (fun pc =>
                     match pc with
                     | Simple x y w h => send_tight p x y w h scr
                     | Solid x y w h =>
                       match gget scr x y with
                       | Some d => Ok [mkW x y w h c_encTight (128%Z :: tpixel_bytes p d)]
                       | None => Err
                       end
                     end) pieces).

(* entry point used by the driver (replaces Tight.send_tight_top): sfb = server framebuffer *)
Definition tight_params_of (strict swapfix : bool) (sbypp bypp : nat) (bpp depth be tc rmax gmax bmax rs gs bs level quality : Z) : tight_params :=
  let lv := if (level <? 0)%Z then c_TIGHT_DEFAULT_COMPRESSION else level in
  let jpeg := (0 <=? quality)%Z in
  mkTP bypp (tight_pack24 strict bpp depth tc rmax gmax bmax) (negb (be =? 0)%Z) rs gs bs (tight_conf_index jpeg lv) jpeg (Nat.eqb sbypp 1) swapfix.

Definition send_tight_session (strict swapfix : bool) (sbypp bypp : nat) (bpp depth be tc rmax gmax bmax rs gs bs level quality : Z) (lastrect : bool)
           (x y w h : nat) (scr sfb : grid) : res (list wrect) :=
  let p := tight_params_of strict swapfix sbypp bypp bpp depth be tc rmax gmax bmax rs gs bs level quality in
  if lastrect then
    match tight_split (S (w * h)) sfb x y w h with
    | Some pieces => send_tight_pieces p scr pieces
    | None => Err
    end
  else send_tight p x y w h scr.
