(* C01_session: for every sequence of parameter changes and updates on one connection, the
   specification's client (persistent decompressors + rectangle decoders) reconstructs, for every
   update, exactly the framebuffer pixels of every rectangle, and the rectangles partition the
   request - given only the round-trip hypothesis on the external compressors. *)
From Coq Require Import ZArith List Lia Bool Arith.
From LV Require Import Enc.EncBase Enc.EncBaseProofs Enc.Update Enc.UpdateProofs Enc.SplitProofs Enc.ZRLEProofs1 Enc.Session
     Dec.SpecBase Dec.SpecUpdate Gen.Consts_C01.
Import ListNotations.

Section SessionProofs.
  Variables cstate dstate : Type.
  Variable compress : cstate -> list Z -> list Z * cstate.
  Variable decompress : dstate -> list Z -> option (list Z * dstate).
  Variable sync : cstate -> dstate -> Prop.
  Variable lzo : list Z -> list Z.
  Variable unlzo : list Z -> option (list Z).
  (* zlib: only non-empty input (deflate of nothing is Z_BUF_ERROR); LZO: stateless *)
  Hypothesis round_trip : forall cs ds data, data <> [] -> sync cs ds ->
    exists ds', decompress ds (fst (compress cs data)) = Some (data, ds') /\ sync (snd (compress cs data)) ds'.
  Hypothesis lzo_round_trip : forall data, data <> [] -> unlzo (lzo data) = Some data.

  Definition sync3 (cs : cstates cstate) (ds : dstates dstate) : Prop :=
    let '(cz, cr) := cs in let '(dz, dr) := ds in sync cz dz /\ sync cr dr.

  (* a compressed rectangle never has an empty payload: the specification's decoder rejects it *)
  Lemma dec_rect_nil enc bypp cmode w h : 1 <= bypp -> 1 <= w -> 1 <= h ->
    (enc = 6 \/ enc = 9 \/ enc = 16)%Z -> dec_rect enc bypp cmode w h [] = None.
  Proof.
    intros Hb Hw Hh E. destruct bypp as [|b]; [lia|]. destruct w as [|w']; [lia|]. destruct h as [|h']; [lia|].
    destruct E as [->|[->| ->]]; try reflexivity.
  Qed.

  Definition crop_of (scr : list (list Z)) (r : wrect) := crop scr (w_x r) (w_y r) (w_w r) (w_h r).

  Lemma unwire_wire_rect bypp cmode scr cs ds r :
    rect_ok bypp cmode scr r -> 1 <= bypp -> 1 <= w_w r -> 1 <= w_h r -> sync3 cs ds ->
    exists ds', unwire_rect dstate decompress unlzo bypp cmode ds (fst (wire_rect cstate compress lzo cs r)) = Some (crop_of scr r, ds') /\
                sync3 (snd (wire_rect cstate compress lzo cs r)) ds' /\ geom (fst (wire_rect cstate compress lzo cs r)) = geom r.
  Proof.
    intros OK HB HW HH S. destruct cs as [cz cr]. destruct ds as [dz dr]. destruct S as (S1 & S2).
    unfold rect_ok in OK.
    assert (NE : (w_enc r = 6 \/ w_enc r = 9 \/ w_enc r = 16)%Z -> w_payload r <> []).
    { intros E P. rewrite P in OK. rewrite dec_rect_nil in OK by auto. discriminate. }
    unfold wire_rect, unwire_rect.
    destruct (w_enc r =? 6)%Z eqn:E6; [|destruct (w_enc r =? 16)%Z eqn:E16; [|destruct (w_enc r =? 9)%Z eqn:E9]];
      cbn [fst snd w_enc w_payload w_w w_h w_x w_y].
    - rewrite E6. apply Z.eqb_eq in E6. destruct (round_trip cz dz (w_payload r) (NE (or_introl E6)) S1) as (d' & D & S').
      rewrite D, OK. eexists. split; [reflexivity|]. split; [cbn; auto|reflexivity].
    - rewrite E6, E16. apply Z.eqb_eq in E16.
      destruct (round_trip cr dr (w_payload r) (NE (or_intror (or_intror E16))) S2) as (d' & D & S').
      rewrite D, OK. eexists. split; [reflexivity|]. split; [cbn; auto|reflexivity].
    - rewrite E6, E16, E9. apply Z.eqb_eq in E9. rewrite (lzo_round_trip _ (NE (or_intror (or_introl E9)))), OK.
      eexists. split; [reflexivity|]. split; [cbn; auto|reflexivity].
    - rewrite E6, E16, E9, OK. eexists. split; [reflexivity|]. split; [cbn; auto|reflexivity].
  Qed.

  Lemma unwire_wire_rects bypp cmode scr : forall rects cs ds,
    Forall (rect_ok bypp cmode scr) rects -> 1 <= bypp -> Forall (fun r => 1 <= w_w r /\ 1 <= w_h r) rects -> sync3 cs ds ->
    exists ds', unwire_rects dstate decompress unlzo bypp cmode ds (fst (wire_rects cstate compress lzo cs rects)) =
                  Some (map (crop_of scr) rects, ds') /\
                sync3 (snd (wire_rects cstate compress lzo cs rects)) ds' /\
                map geom (fst (wire_rects cstate compress lzo cs rects)) = map geom rects.
  Proof.
    induction rects as [|r t IH]; intros cs ds F HB FG S.
    - exists ds. cbn. auto.
    - apply Forall_cons_iff in F. destruct F as [Fr Ft]. apply Forall_cons_iff in FG. destruct FG as [[Gw Gh] FGt].
      destruct (unwire_wire_rect bypp cmode scr cs ds r Fr HB Gw Gh S) as (d1 & D1 & S1 & G1).
      cbn [wire_rects]. destruct (wire_rect cstate compress lzo cs r) as [r' cs1] eqn:W. cbn [fst snd] in *.
      destruct (IH cs1 d1 Ft HB FGt S1) as (d2 & D2 & S2 & G2).
      destruct (wire_rects cstate compress lzo cs1 t) as [t' cs2] eqn:WT. cbn [fst snd] in *.
      exists d2. cbn [unwire_rects map]. rewrite D1, D2. split; [reflexivity|]. split; [assumption|].
      rewrite G1, G2. reflexivity.
  Qed.

  (* the side conditions of C01_send_rect for every update of the session under the parameters in force *)
  Fixpoint session_ok (p : enc_params) (steps : list step) : Prop :=
    match steps with
    | [] => True
    | SetParams p' :: t => session_ok p' t
    | Update x y w h scr :: t =>
      (exists W H, wf_grid W H scr /\ 1 <= p_bypp p /\ grid_pix_ok (p_bypp p) scr /\ x + w <= W /\ y + h <= H /\ 1 <= w /\ 1 <= h /\
                   (Z.of_nat w < 65536)%Z /\ (Z.of_nat h < 65536)%Z /\ 1 <= p_mw p <= 255 /\ 1 <= p_mh p <= 255 /\
                   (p_enc p = c_encZRLE -> p_b15 p = false /\ Forall (Forall (cpix_ok (p_bypp p) (p_cmode p))) scr))
      /\ session_ok p t
    end.

  (* what the client must have obtained: per update, per rectangle, the pixels of the framebuffer at
     the time of that update; the rectangles partition the request *)
  Fixpoint session_pixels (steps : list step) (wire : list (list wrect)) (grids : list (list (list (list Z)))) : Prop :=
    match steps with
    | [] => wire = [] /\ grids = []
    | SetParams _ :: t => session_pixels t wire grids
    | Update x y w h scr :: t =>
      match wire, grids with
      | rs :: wt, gs :: gt =>
        gs = map (crop_of scr) rs /\ Forall (fun r => x <= w_x r /\ y <= w_y r) rs /\
        partitions w h (rel_geoms x y rs) /\ session_pixels t wt gt
      | _, _ => False
      end
    end.

  Lemma map_crop_geom scr : forall a b, map geom a = map geom b -> map (crop_of scr) a = map (crop_of scr) b.
  Proof.
    induction a as [|r a IH]; intros [|s b] H; try discriminate; [reflexivity|].
    cbn [map] in *. injection H as H1 H2 H3 H4 H5. unfold crop_of at 1 3. rewrite H1, H2, H3, H4. f_equal. auto.
  Qed.

  Lemma rel_geoms_geom x y : forall a b, map geom a = map geom b -> rel_geoms x y a = rel_geoms x y b.
  Proof.
    unfold rel_geoms. induction a as [|r a IH]; intros [|s b] H; try discriminate; [reflexivity|].
    cbn [map] in *. injection H as H1 H2 H3 H4 H5. rewrite H1, H2, H3, H4. f_equal. auto.
  Qed.

  Lemma forall_geom (P : nat -> nat -> Prop) : forall a b, map geom a = map geom b ->
    Forall (fun r => P (w_x r) (w_y r)) b -> Forall (fun r => P (w_x r) (w_y r)) a.
  Proof.
    induction a as [|r a IH]; intros [|s b] H F; try discriminate; [constructor|].
    cbn [map] in H. injection H as H1 H2 H3 H4 H5. apply Forall_cons_iff in F. destruct F as [F1 F2].
    constructor; [rewrite H1, H2; exact F1|eauto].
  Qed.

  Theorem session_roundtrip : forall steps p cs ds wire,
    session_ok p steps -> sync3 cs ds ->
    run_session cstate compress lzo p cs steps = Ok wire ->
    exists grids, client_session dstate decompress unlzo p ds steps wire = Some grids /\ session_pixels steps wire grids.
  Proof.
    induction steps as [|st t IH]; intros p cs ds wire OK S E.
    - simpl in E. inversion E; subst. exists []. simpl. auto.
    - destruct st as [p'|x y w h scr].
      + cbn [run_session client_session session_pixels session_ok] in *. eauto.
      + cbn [run_session] in E. cbn [session_ok] in OK.
        destruct OK as ((W & H & WF & HB & PIX & HX & HY & HW & HH & BW & BH & MW & MH & ZR) & OKT).
        destruct (send_rect p x y w h scr) as [rects| |] eqn:SR; try discriminate.
        destruct (send_rect_ok W H scr p x y w h rects WF PIX HX HY HW HH BW BH MW MH ZR SR) as (ROK & INS & PART).
        assert (GEOM : Forall (fun r => 1 <= w_w r /\ 1 <= w_h r) rects).
        { apply Forall_forall. intros r IR. destruct PART as (PI & _ & _).
          assert (IG : In (w_x r - x, w_y r - y, w_w r, w_h r) (rel_geoms x y rects)).
          { unfold rel_geoms. apply in_map_iff. exists r. auto. }
          specialize (PI _ _ _ _ IG). lia. }
        destruct (unwire_wire_rects (p_bypp p) (p_cmode p) scr rects cs ds ROK HB GEOM S) as (ds' & UW & S' & GE).
        destruct (wire_rects cstate compress lzo cs rects) as [wr cs'] eqn:WR. cbn [fst snd] in *.
        destruct (run_session cstate compress lzo p cs' t) as [rest| |] eqn:RS; try discriminate.
        inversion E; subst wire. clear E.
        destruct (IH p cs' ds' rest OKT S' RS) as (gt & CT & PT).
        exists (map (crop_of scr) rects :: gt). split.
        * cbn [client_session]. rewrite UW, CT. reflexivity.
        * cbn [session_pixels]. split; [apply map_crop_geom; symmetry; exact GE|].
          split; [apply (forall_geom (fun a b => x <= a /\ y <= b) wr rects GE INS)|].
          split; [rewrite (rel_geoms_geom x y wr rects GE); exact PART|exact PT].
  Qed.
End SessionProofs.
