(* C01 - send_tight_session without the uniformity hypothesis: when the screen the encoder sees is the
   pixel-wise translation of the framebuffer the solid-area search ran on, every fill rectangle of the
   LastRect path covers an area of one colour (TightUniform.v), so solids_uniform is a theorem. *)
From Coq Require Import ZArith List Lia Bool Arith.
From LV Require Import Enc.EncBase Enc.EncBaseProofs Enc.Update Enc.Tight Enc.TightProofs Enc.TightSplit Enc.TightSplitProofs
     Enc.TightUniform Enc.TightSessionProofs Enc.SplitProofs Dec.SpecBase Dec.SpecTight Gen.Consts_C01.
Import ListNotations.

Lemma gget_map (f : Z -> Z) (g : list (list Z)) a b : gget (map (map f) g) a b = option_map f (gget g a b).
Proof.
  unfold gget. rewrite nth_error_map. destruct (nth_error g b) as [r|]; [|reflexivity].
  simpl. rewrite nth_error_map. reflexivity.
Qed.

Lemma wf_map (f : Z -> Z) W H g : wf_grid W H g -> wf_grid W H (map (map f) g).
Proof.
  intros [L F]. split; [rewrite map_length; exact L|]. apply Forall_map.
  eapply Forall_impl; [|exact F]. intros r Hr. simpl. rewrite map_length. exact Hr.
Qed.

Theorem solids_uniform_translated W H sfb (tr : Z -> Z) fuel x y w h pieces :
  wf_grid W H sfb -> x + w <= W -> y + h <= H -> 1 <= w -> 1 <= h ->
  tight_split fuel sfb x y w h = Some pieces -> solids_uniform (map (map tr) sfb) pieces.
Proof.
  intros WF HX HY Hw Hh TS px py pw ph d IN G.
  pose proof (tight_split_cover sfb fuel x y w h pieces Hw Hh TS) as (INS & _ & _).
  assert (IG : In (px, py, pw, ph) (geoms pieces)).
  { unfold geoms. apply in_map_iff. exists (Solid px py pw ph). split; [reflexivity|exact IN]. }
  specialize (INS px py pw ph IG).
  destruct (tight_split_uni sfb fuel x y w h pieces TS px py pw ph IN) as (c & U).
  rewrite gget_map in G. destruct (gget sfb px py) as [v0|] eqn:G0; [|discriminate].
  assert (v0 = c) by (apply (U px py v0); try lia; exact G0). subst v0. simpl in G.
  assert (D : d = tr c) by congruence. subst d.
  apply (grid_ext pw ph).
  - apply (wf_crop W H); [apply wf_map; exact WF|lia|lia].
  - apply wf_mk_grid.
  - intros i j Hi Hj. rewrite gget_crop by assumption. rewrite gget_mk_grid by assumption.
    rewrite gget_map. destruct (gget_some W H sfb (px + i) (py + j) WF ltac:(lia) ltac:(lia)) as (v & GV).
    rewrite GV. simpl. f_equal. f_equal. apply (U (px + i) (py + j) v); try lia. exact GV.
Qed.

(* C01_tight_session: no hypothesis about the search left *)
Theorem send_tight_session_full strict swapfix sbypp bypp bpp depth be tc rmax gmax bmax rs gs bs level quality lastrect
        W H x y w h sfb (tr : Z -> Z) rects :
  let p := tight_params_of strict swapfix sbypp bypp bpp depth be tc rmax gmax bmax rs gs bs level quality in
  let scr := map (map tr) sfb in
  wf_grid W H sfb -> Forall (Forall (tpix_rt p)) scr -> conf_ok (tp_conf p) ->
  (x + w <= W)%nat -> (y + h <= H)%nat -> (1 <= w)%nat -> (1 <= h)%nat ->
  send_tight_session strict swapfix sbypp bypp bpp depth be tc rmax gmax bmax rs gs bs level quality lastrect x y w h scr sfb = Ok rects ->
  exists pieces groups, part_abs x y w h (geoms pieces) /\ Forall2 (piece_sent p scr) pieces groups /\ rects = concat groups.
Proof.
  intros p scr WF RT CONF HX HY HW HH E.
  eapply (send_tight_session_ok strict swapfix sbypp bypp bpp depth be tc rmax gmax bmax rs gs bs level quality lastrect W H x y w h scr sfb rects);
    try eassumption.
  - apply wf_map. exact WF.
  - intros pieces TS. eapply solids_uniform_translated; eauto.
Qed.
