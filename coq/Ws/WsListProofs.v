(* C09 - list / buffer / mask lemmas used by the decoder proofs. *)
From Coq Require Import ZArith List Bool Lia.
From LV Require Import Ws.WsDefs.
Import ListNotations.
Local Open Scope Z_scope.

Lemma zlen_nonneg : forall A (l : list A), 0 <= zlen l.
Proof. intros. unfold zlen. lia. Qed.
Lemma zlen_nil : forall A, zlen (@nil A) = 0.
Proof. reflexivity. Qed.
Lemma zlen_cons : forall A (a : A) l, zlen (a :: l) = 1 + zlen l.
Proof. intros. unfold zlen. cbn [length]. lia. Qed.
Lemma zlen_app : forall A (a b : list A), zlen (a ++ b) = zlen a + zlen b.
Proof. intros. unfold zlen. rewrite app_length. lia. Qed.
Lemma zlen_firstn : forall A n (l : list A), 0 <= n <= zlen l -> zlen (firstn (Z.to_nat n) l) = n.
Proof. intros A n l H. unfold zlen in *. rewrite firstn_length. lia. Qed.
Lemma zlen_firstn_le : forall A n (l : list A), zlen (firstn n l) <= zlen l.
Proof. intros. unfold zlen. rewrite firstn_length. lia. Qed.
Lemma zlen_skipn : forall A n (l : list A), 0 <= n <= zlen l -> zlen (skipn (Z.to_nat n) l) = zlen l - n.
Proof. intros A n l H. unfold zlen in *. rewrite skipn_length. lia. Qed.
Lemma zlen_0_nil : forall A (l : list A), zlen l = 0 -> l = [].
Proof. intros A l H. destruct l; [reflexivity|]. rewrite zlen_cons in H. pose proof (zlen_nonneg _ l). lia. Qed.
Lemma zlen_repeat : forall A (x : A) n, zlen (repeat x n) = Z.of_nat n.
Proof. intros. unfold zlen. rewrite repeat_length. reflexivity. Qed.

Lemma firstn_all_z : forall A n (l : list A), zlen l <= n -> firstn (Z.to_nat n) l = l.
Proof. intros A n l H. apply firstn_all2. unfold zlen in H. lia. Qed.
Lemma skipn_all_z : forall A n (l : list A), zlen l <= n -> skipn (Z.to_nat n) l = [].
Proof. intros A n l H. apply skipn_all2. unfold zlen in H. lia. Qed.

Lemma firstn_app_z : forall A n (a b : list A), 0 <= n <= zlen a -> firstn (Z.to_nat n) (a ++ b) = firstn (Z.to_nat n) a.
Proof.
  intros A n a b H. rewrite firstn_app. unfold zlen in H.
  replace (Z.to_nat n - length a)%nat with 0%nat by lia. cbn. apply app_nil_r.
Qed.
Lemma skipn_app_z : forall A n (a b : list A), 0 <= n <= zlen a -> skipn (Z.to_nat n) (a ++ b) = skipn (Z.to_nat n) a ++ b.
Proof.
  intros A n a b H. rewrite skipn_app. unfold zlen in H.
  replace (Z.to_nat n - length a)%nat with 0%nat by lia. reflexivity.
Qed.
Lemma firstn_app_exact : forall A (a b : list A), firstn (length a) (a ++ b) = a.
Proof. intros. rewrite firstn_app, Nat.sub_diag, firstn_all. cbn. apply app_nil_r. Qed.
Lemma skipn_app_exact : forall A (a b : list A), skipn (length a) (a ++ b) = b.
Proof. intros. rewrite skipn_app, Nat.sub_diag, skipn_all. reflexivity. Qed.
Lemma firstn_app_exact_z : forall A (a b : list A), firstn (Z.to_nat (zlen a)) (a ++ b) = a.
Proof. intros. unfold zlen. rewrite Nat2Z.id. apply firstn_app_exact. Qed.
Lemma skipn_app_exact_z : forall A (a b : list A), skipn (Z.to_nat (zlen a)) (a ++ b) = b.
Proof. intros. unfold zlen. rewrite Nat2Z.id. apply skipn_app_exact. Qed.

Lemma skipn_skipn_nat : forall A a b (l : list A), skipn a (skipn b l) = skipn (b + a) l.
Proof.
  intros A a b. induction b as [|b IH]; intro l; [reflexivity|].
  destruct l; [rewrite !skipn_nil; reflexivity|]. cbn [skipn Nat.add]. apply IH.
Qed.
Lemma skipn_skipn_z : forall A a b (l : list A), 0 <= a -> 0 <= b ->
  skipn (Z.to_nat a) (skipn (Z.to_nat b) l) = skipn (Z.to_nat (a + b)) l.
Proof. intros. rewrite skipn_skipn_nat. f_equal. lia. Qed.
Lemma nth_error_firstn_lt : forall A (l : list A) n i, (i < n)%nat -> nth_error (firstn n l) i = nth_error l i.
Proof.
  intros A l. induction l as [|x r IH]; intros n i H.
  - rewrite firstn_nil. reflexivity.
  - destruct n; [lia|]. destruct i; [reflexivity|]. cbn. apply IH. lia.
Qed.
Lemma firstn_firstn_z : forall A a b (l : list A), 0 <= a <= b ->
  firstn (Z.to_nat a) (firstn (Z.to_nat b) l) = firstn (Z.to_nat a) l.
Proof. intros. rewrite firstn_firstn. f_equal. lia. Qed.
Lemma firstn_skipn_split : forall A a b (l : list A), 0 <= a -> 0 <= b ->
  firstn (Z.to_nat (a + b)) l = firstn (Z.to_nat a) l ++ firstn (Z.to_nat b) (skipn (Z.to_nat a) l).
Proof.
  intros A a b l Ha Hb. rewrite <- (firstn_skipn (Z.to_nat a) l) at 1.
  rewrite firstn_app. rewrite firstn_firstn.
  replace (Nat.min (Z.to_nat (a + b)) (Z.to_nat a)) with (Z.to_nat a) by lia.
  f_equal. rewrite firstn_length.
  destruct (Nat.le_gt_cases (Z.to_nat a) (length l)).
  - f_equal. lia.
  - rewrite skipn_all2 by lia. rewrite !firstn_nil. reflexivity.
Qed.
Lemma firstn_skipn_comm_z : forall A a b (l : list A), 0 <= a -> 0 <= b ->
  firstn (Z.to_nat a) (skipn (Z.to_nat b) l) = skipn (Z.to_nat b) (firstn (Z.to_nat (b + a)) l).
Proof. intros. rewrite firstn_skipn_comm. f_equal. f_equal. lia. Qed.

Lemma skipn_firstn_comm_z_aux : forall A a b (l : list A), 0 <= a <= b ->
  skipn (Z.to_nat a) (firstn (Z.to_nat b) l) = firstn (Z.to_nat (b - a)) (skipn (Z.to_nat a) l).
Proof. intros. rewrite firstn_skipn_comm. f_equal. f_equal. lia. Qed.

(* ---- buffers ---- *)
Lemma buf_write_ok : forall b p d, 0 <= p -> p + zlen d <= zlen b -> exists b', buf_write b p d = Some b'.
Proof.
  intros b p d H1 H2. unfold buf_write.
  destruct (0 <=? p) eqn:E1; [|lia]. destruct (p + zlen d <=? zlen b) eqn:E2; [|lia]. cbn. eauto.
Qed.

Lemma buf_write_inv : forall b p d b', buf_write b p d = Some b' ->
  0 <= p /\ p + zlen d <= zlen b /\
  b' = firstn (Z.to_nat p) b ++ d ++ skipn (Z.to_nat p + length d) b.
Proof.
  intros b p d b' H. unfold buf_write in H.
  destruct (0 <=? p) eqn:E1; [|discriminate]. destruct (p + zlen d <=? zlen b) eqn:E2; [|discriminate].
  cbn in H. inversion H. repeat split; lia.
Qed.

Lemma buf_write_len : forall b p d b', buf_write b p d = Some b' -> zlen b' = zlen b.
Proof.
  intros b p d b' H. apply buf_write_inv in H. destruct H as (H1 & H2 & ->).
  rewrite !zlen_app. unfold zlen in *. rewrite firstn_length, skipn_length. lia.
Qed.

Lemma buf_write_firstn : forall b p d b', buf_write b p d = Some b' ->
  firstn (Z.to_nat p) b' = firstn (Z.to_nat p) b.
Proof.
  intros b p d b' H. apply buf_write_inv in H. destruct H as (H1 & H2 & ->).
  assert (length (firstn (Z.to_nat p) b) = Z.to_nat p) as HL.
  { rewrite firstn_length. pose proof (zlen_nonneg _ d). unfold zlen in *. lia. }
  rewrite <- HL at 1. apply firstn_app_exact.
Qed.

Lemma buf_write_firstn_ext : forall b p d b', buf_write b p d = Some b' ->
  firstn (Z.to_nat (p + zlen d)) b' = firstn (Z.to_nat p) b ++ d.
Proof.
  intros b p d b' H. apply buf_write_inv in H. destruct H as (H1 & H2 & ->).
  assert (length (firstn (Z.to_nat p) b) = Z.to_nat p) as HL.
  { rewrite firstn_length. pose proof (zlen_nonneg _ d). unfold zlen in *. lia. }
  rewrite app_assoc.
  replace (Z.to_nat (p + zlen d)) with (length (firstn (Z.to_nat p) b ++ d)).
  - apply firstn_app_exact.
  - rewrite app_length, HL. unfold zlen. lia.
Qed.

Lemma buf_read_inv : forall b p n d, buf_read b p n = Some d ->
  0 <= p /\ 0 <= n /\ p + n <= zlen b /\ d = firstn (Z.to_nat n) (skipn (Z.to_nat p) b).
Proof.
  intros b p n d H. unfold buf_read in H.
  destruct (0 <=? p) eqn:E1; [|discriminate]. destruct (0 <=? n) eqn:E2; [|discriminate].
  destruct (p + n <=? zlen b) eqn:E3; [|discriminate]. cbn in H. inversion H. repeat split; lia.
Qed.

Lemma buf_read_ok : forall b p n, 0 <= p -> 0 <= n -> p + n <= zlen b ->
  buf_read b p n = Some (firstn (Z.to_nat n) (skipn (Z.to_nat p) b)).
Proof.
  intros b p n H1 H2 H3. unfold buf_read.
  destruct (0 <=? p) eqn:E1; [|lia]. destruct (0 <=? n) eqn:E2; [|lia].
  destruct (p + n <=? zlen b) eqn:E3; [|lia]. reflexivity.
Qed.

Lemma buf_read_len : forall b p n d, buf_read b p n = Some d -> zlen d = n.
Proof.
  intros b p n d H. apply buf_read_inv in H. destruct H as (H1 & H2 & H3 & ->).
  apply zlen_firstn. rewrite zlen_skipn; lia.
Qed.

(* read what was just written *)
Lemma buf_read_write_same : forall b p d b', buf_write b p d = Some b' -> buf_read b' p (zlen d) = Some d.
Proof.
  intros b p d b' H. pose proof (buf_write_len _ _ _ _ H) as HL.
  pose proof (buf_write_inv _ _ _ _ H) as (H1 & H2 & E).
  rewrite buf_read_ok by (pose proof (zlen_nonneg _ d); lia). f_equal. subst b'.
  assert (length (firstn (Z.to_nat p) b) = Z.to_nat p) as HLp.
  { rewrite firstn_length. pose proof (zlen_nonneg _ d). unfold zlen in *. lia. }
  rewrite <- HLp at 1. rewrite skipn_app_exact. apply firstn_app_exact_z.
Qed.

(* reading a prefix region that lies entirely in the first k bytes depends only on those *)
Lemma buf_read_prefix : forall b h k p n, firstn (Z.to_nat k) b = firstn (Z.to_nat k) h ->
  0 <= p -> 0 <= n -> p + n <= k -> k <= zlen b -> k <= zlen h ->
  buf_read b p n = Some (firstn (Z.to_nat n) (skipn (Z.to_nat p) h)).
Proof.
  intros b h k p n E Hp Hn Hk Hb Hh. rewrite buf_read_ok by lia. f_equal.
  rewrite (firstn_skipn_comm_z _ n p b) by lia. rewrite (firstn_skipn_comm_z _ n p h) by lia.
  f_equal. rewrite <- (firstn_firstn_z _ (p + n) k b) by lia. rewrite <- (firstn_firstn_z _ (p + n) k h) by lia.
  rewrite E. reflexivity.
Qed.

Lemma buf_get_prefix : forall b h k p, firstn (Z.to_nat k) b = firstn (Z.to_nat k) h ->
  0 <= p < k -> k <= zlen b -> k <= zlen h -> buf_get b p = nth_error h (Z.to_nat p).
Proof.
  intros b h k p E Hp Hb Hh. unfold buf_get.
  destruct (0 <=? p) eqn:E1; [|lia]. destruct (p <? zlen b) eqn:E2; [|lia]. cbn.
  rewrite <- (nth_error_firstn_lt _ b (Z.to_nat k)) by lia.
  rewrite <- (nth_error_firstn_lt _ h (Z.to_nat k)) by lia. rewrite E. reflexivity.
Qed.

(* ---- mask ---- *)
Lemma mask_at_mod : forall m i, mask_at m i = mask_at m (i mod 4).
Proof. intros [[[a b] c] d] i. unfold mask_at. rewrite Z.mod_mod by lia. reflexivity. Qed.

Lemma mask_at_add4 : forall m i k, mask_at m (4 * k + i) = mask_at m i.
Proof.
  intros m i k. rewrite (mask_at_mod m (4 * k + i)), (mask_at_mod m i). f_equal.
  rewrite Z.add_comm, Z.mul_comm. apply Z.mod_add. lia.
Qed.

Lemma xmask_shift : forall m l off k, xmask m (4 * k + off) l = xmask m off l.
Proof.
  intros m l. induction l as [|x r IH]; intros off k; [reflexivity|].
  cbn [xmask]. rewrite mask_at_add4. f_equal.
  replace (4 * k + off + 1) with (4 * k + (off + 1)) by lia. apply IH.
Qed.

Lemma xmask_aligned : forall m l a, a mod 4 = 0 -> xmask m a l = xmask m 0 l.
Proof.
  intros m l a H. pose proof (Z.div_mod a 4 ltac:(lia)) as E. rewrite H in E.
  rewrite E. rewrite Z.add_0_r. replace (4 * (a / 4)) with (4 * (a / 4) + 0) by lia. apply xmask_shift.
Qed.

Lemma xmask_app : forall m a b off, xmask m off (a ++ b) = xmask m off a ++ xmask m (off + zlen a) b.
Proof.
  intros m a. induction a as [|x r IH]; intros b off.
  - cbn. rewrite Z.add_0_r. reflexivity.
  - cbn [app xmask]. rewrite IH. rewrite zlen_cons. f_equal. f_equal. f_equal. lia.
Qed.

Lemma xmask_len : forall m l off, zlen (xmask m off l) = zlen l.
Proof. intros m l. induction l; intros; [reflexivity|]. cbn [xmask]. rewrite !zlen_cons, IHl. reflexivity. Qed.
Lemma xmask_length : forall m l off, length (xmask m off l) = length l.
Proof. intros m l. induction l; intros; [reflexivity|]. cbn [xmask length]. rewrite IHl. reflexivity. Qed.

Lemma xmask_firstn : forall m n l off, firstn n (xmask m off l) = xmask m off (firstn n l).
Proof.
  intros m n. induction n; intros l off; [reflexivity|]. destruct l; [reflexivity|].
  cbn [xmask firstn]. rewrite IHn. reflexivity.
Qed.

Lemma xmask_skipn : forall m n l off, skipn n (xmask m off l) = xmask m (off + Z.of_nat n) (skipn n l).
Proof.
  intros m n. induction n; intros l off.
  - cbn. rewrite Z.add_0_r. reflexivity.
  - destruct l; [reflexivity|]. cbn [xmask skipn]. rewrite IHn. f_equal. lia.
Qed.

Lemma xmask_invol : forall m l off, xmask m off (xmask m off l) = l.
Proof.
  intros m l. induction l as [|x r IH]; intros off; [reflexivity|].
  cbn [xmask]. rewrite IH. f_equal. rewrite Z.lxor_assoc, Z.lxor_nilpotent, Z.lxor_0_r. reflexivity.
Qed.

(* the word loop on a region that is a masked chunk starting at an aligned payload offset *)
Lemma xor_words_xmask : forall m nw X, (4 * nw <= length X)%nat ->
  xor_words m nw (xmask m 0 X) = Some (firstn (4 * nw) X ++ xmask m 0 (skipn (4 * nw) X)).
Proof.
  intros m nw. induction nw as [|nw IH]; intros X H.
  - cbn. reflexivity.
  - destruct X as [|a [|b [|c [|d r]]]]; cbn [length] in H; try lia.
    destruct m as [[[m0 m1] m2] m3].
    cbn [xmask]. cbn [xor_words].
    replace (0 + 1 + 1 + 1 + 1) with (4 * 1 + 0) by lia. rewrite xmask_shift.
    rewrite IH by lia.
    replace (4 * S nw)%nat with (S (S (S (S (4 * nw))))) by lia. cbn [firstn skipn app].
    unfold mask_at. cbn. rewrite !Z.lxor_assoc, !Z.lxor_nilpotent, !Z.lxor_0_r. reflexivity.
Qed.
