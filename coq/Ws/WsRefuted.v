(* C09 - the decoder as it is in the snapshot (fx = false) is NOT transparent: witnesses. *)
From Coq Require Import ZArith List Bool.
From LV Require Import Ws.WsDefs Ws.Base64Defs Ws.WsSpecDefs Ws.WsDecoderModel Ws.WsTransparency Gen.Consts_C09.
Import ListNotations.
Local Open Scope Z_scope.

Definition seq_bytes (n : nat) : list Z := map Z.of_nat (seq 0 n).

(* one binary frame of 200 bytes (16-bit length form): header 82 FE 00 C8 + mask *)
Definition wit_conv : list cframe := [CData false true (1, 2, 3, 4) (seq_bytes 200)].
(* header delivered as 6 + 1 + 1 bytes *)
Definition wit_sched_split : list rev := [RAvail 6; RAvail 1; RAvail 1; RAvail 4096; RAvail 4096; RAvail 4096].
(* header whole, EAGAIN before the payload *)
Definition wit_sched_eagain : list rev := [RAvail 6; RAvail 2; RAgain; RAvail 4096; RAvail 4096; RAvail 4096].
Definition wit_lens : list Z := [300; 300; 300; 300].

Lemma transparent_refuted_split :
  conv_valid None wit_conv = true /\ sched_live wit_sched_split = true /\ lens_ok wit_lens = true /\
  transparent_b false wit_conv wit_sched_split wit_lens = false.
Proof. vm_compute. repeat split; reflexivity. Qed.

Lemma transparent_refuted_eagain :
  conv_valid None wit_conv = true /\ sched_live wit_sched_eagain = true /\ lens_ok wit_lens = true /\
  transparent_b false wit_conv wit_sched_eagain wit_lens = false.
Proof. vm_compute. repeat split; reflexivity. Qed.

Lemma transparent_refuted :
  exists cs sched lens,
    conv_valid None cs = true /\ sched_live sched = true /\ lens_ok lens = true /\
    transparent_b false cs sched lens = false.
Proof. exists wit_conv, wit_sched_split, wit_lens. exact transparent_refuted_split. Qed.

(* the same inputs are handled by the repaired decoder *)
Lemma wit_fixed_ok :
  transparent_b true wit_conv wit_sched_split wit_lens = true /\
  transparent_b true wit_conv wit_sched_eagain wit_lens = true.
Proof. vm_compute. split; reflexivity. Qed.

(* the snapshot decoder asks the read function for SIZE_MAX bytes on the 6+1+1 header *)
Definition max_request (log : rqlog) : Z := fold_right (fun e m => Z.max (snd (fst e)) m) 0 log.
Lemma size_max_request :
  match ws_decode false ws_init (mkIO (conv_stream wit_conv) wit_sched_split) 300 with
  | ORet _ _ _ w1 i1 _ =>
    match ws_decode false w1 i1 300 with
    | ORet ret _ _ _ _ log => max_request log = two64 - 1 /\ ret = 0
    | OFault _ => False
    end
  | OFault _ => False
  end.
Proof. vm_compute. split; reflexivity. Qed.

(* the snapshot decoder writes outside codeBufDecode: a 3000-byte frame, header delivered as 6+1, then
   everything: the SIZE_MAX request lets the read callback deliver 2993 bytes to codeBufDecode + 7 *)
Definition wit_conv_big : list cframe := [CData false true (1, 2, 3, 4) (map (fun v => v mod 256) (seq_bytes 3000))].
Lemma snapshot_faults :
  conv_valid None wit_conv_big = true /\
  match ws_decode false ws_init (mkIO (conv_stream wit_conv_big) [RAvail 6; RAvail 1; RAvail 4096]) 300 with
  | ORet _ _ _ w1 i1 _ => match ws_decode false w1 i1 300 with OFault _ => True | ORet _ _ _ _ _ _ => False end
  | OFault _ => False
  end.
Proof. vm_compute. split; [reflexivity|exact I]. Qed.
