(* C09 - the decoder as it is in the snapshot (fx = false) is NOT transparent: witnesses. *)
From Coq Require Import ZArith List Bool.
From LV Require Import Ws.WsDefs Ws.Base64Defs Ws.WsSpecDefs Ws.WsDecoderModel Ws.WsTransparency Gen.Consts_C09.
Import ListNotations.
Local Open Scope Z_scope.

Definition seq_bytes (n : nat) : list Z := map Z.of_nat (seq 0 n).

(* one binary frame of 200 bytes (16-bit length form): header 82 FE 00 C8 + mask *)
Definition wit_conv : list cframe := [CData false true (1, 2, 3, 4) (seq_bytes 200)].
(* header delivered as 6 + 1 + 1 bytes *)
Definition wit_sched_split : list rev := [RAvail 6; RAvail 1; RAvail 1; RAvail 4096; RAvail 4096; RAvail 4096].
(* header whole, EAGAIN before the payload *)
Definition wit_sched_eagain : list rev := [RAvail 6; RAvail 2; RAgain; RAvail 4096; RAvail 4096; RAvail 4096].
Definition wit_lens : list Z := [300; 300; 300; 300].

Lemma transparent_refuted_split :
  conv_valid None wit_conv = true /\ sched_live wit_sched_split = true /\ lens_ok wit_lens = true /\
  transparent_b false wit_conv wit_sched_split wit_lens = false.
Proof. vm_compute. repeat split; reflexivity. Qed.

Lemma transparent_refuted_eagain :
  conv_valid None wit_conv = true /\ sched_live wit_sched_eagain = true /\ lens_ok wit_lens = true /\
  transparent_b false wit_conv wit_sched_eagain wit_lens = false.
Proof. vm_compute. repeat split; reflexivity. Qed.

Lemma transparent_refuted :
  exists cs sched lens,
    conv_valid None cs = true /\ sched_live sched = true /\ lens_ok lens = true /\
    transparent_b false cs sched lens = false.
Proof. exists wit_conv, wit_sched_split, wit_lens. exact transparent_refuted_split. Qed.

(* the same inputs are handled by the repaired decoder *)
Lemma wit_fixed_ok :
  transparent_b true wit_conv wit_sched_split wit_lens = true /\
  transparent_b true wit_conv wit_sched_eagain wit_lens = true.
Proof. vm_compute. split; reflexivity. Qed.

(* the snapshot decoder asks the read function for SIZE_MAX bytes on the 6+1+1 header *)
Definition max_request (log : rqlog) : Z := fold_right (fun e m => Z.max (snd (fst e)) m) 0 log.
Lemma size_max_request :
  match ws_decode false ws_init (mkIO (conv_stream wit_conv) wit_sched_split) 300 with
  | ORet _ _ _ w1 i1 _ =>
    match ws_decode false w1 i1 300 with
    | ORet ret _ _ _ _ log => max_request log = two64 - 1 /\ ret = 0
    | OFault _ => False
    end
  | OFault _ => False
  end.
Proof. vm_compute. split; reflexivity. Qed.

(* the snapshot decoder writes outside codeBufDecode: a 3000-byte frame, header delivered as 6+1, then
   everything: the SIZE_MAX request lets the read callback deliver 2993 bytes to codeBufDecode + 7 *)
Definition wit_conv_big : list cframe := [CData false true (1, 2, 3, 4) (map (fun v => v mod 256) (seq_bytes 3000))].
Lemma snapshot_faults :
  conv_valid None wit_conv_big = true /\
  match ws_decode false ws_init (mkIO (conv_stream wit_conv_big) [RAvail 6; RAvail 1; RAvail 4096]) 300 with
  | ORet _ _ _ w1 i1 _ => match ws_decode false w1 i1 300 with OFault _ => True | ORet _ _ _ _ _ _ => False end
  | OFault _ => False
  end.
Proof. vm_compute. split; [reflexivity|exact I]. Qed.

(* base64 mode (both variants of the decoder): an RFC 6455-valid text message fragmented at an offset that is
   not a multiple of 4 characters - TEXT fin=0 "QU", CONT fin=1 "JD", i.e. base64 of "ABC" - is lost silently:
   everything is available, six calls return EAGAIN, nothing is delivered, the decoder is idle and the stream
   consumed; the unfragmented frame "QUJD" delivers "ABC".  (conv_valid states the restriction: every
   fragment of a text message is a base64 string of its own.) *)
Definition split_frames : list frame :=
  [mkFrame false OP_TEXT true (1, 2, 3, 4) [81; 85]; mkFrame true OP_CONT true (5, 6, 7, 8) [74; 68]].
Definition whole_frame : list frame := [mkFrame true OP_TEXT true (1, 2, 3, 4) [81; 85; 74; 68]].
Definition avail6 : list rev := [RAvail 100; RAvail 100; RAvail 100; RAvail 100; RAvail 100; RAvail 100].

Lemma text_split_lost :
  b64_pton [81; 85; 74; 68] 10 = Some [65; 66; 67] /\
  (forall fx, let '(rs, w', i') := ws_run fx ws_init (mkIO (encode_frames split_frames) avail6) [100; 100; 100; 100; 100; 100] in
     delivered rs = [] /\ forallb call_ok rs = true /\ io_stream i' = [] /\ at_boundary w' = true) /\
  (forall fx, delivered (fst (fst (ws_run fx ws_init (mkIO (encode_frames whole_frame) avail6) [100; 100]))) = [65; 66; 67]).
Proof.
  split; [vm_compute; reflexivity|]. split; intros [|]; vm_compute; repeat split; reflexivity.
Qed.

(* ---- protocol violations the decoder does NOT reject (both variants): reserved bits, reserved opcodes,
   control frames longer than 125 bytes.  Frames: masked, mask 1 2 3 4. ---- *)
Definition run2 (fx : bool) (s : list Z) : list callres :=
  fst (fst (ws_run fx ws_init (mkIO s [RAvail 4096; RAvail 4096; RAvail 4096; RAvail 4096; RAvail 4096; RAvail 4096]) [300; 300])).

(* binary frame "AB" with RSV1 set (0xC2): delivered as data *)
Lemma rsv_bits_accepted : forall fx, run2 fx [194; 130; 1; 2; 3; 4; 64; 64] = [CRet 2 None [65; 66]; CRet (-1) (Some EAGAIN) []].
Proof. intros [|]; vm_compute; reflexivity. Qed.
(* data frame with the reserved opcode 3: payload dropped, no error *)
Lemma reserved_opcode_accepted : forall fx, run2 fx [131; 130; 1; 2; 3; 4; 64; 64] = [CRet (-1) (Some EAGAIN) []; CRet (-1) (Some EAGAIN) []].
Proof. intros [|]; vm_compute; reflexivity. Qed.
(* ping with a 126-byte payload (16-bit length form): consumed, no error *)
Lemma long_control_accepted : forall fx,
  run2 fx ([137; 254; 0; 126; 1; 2; 3; 4] ++ repeat 7 126) = [CRet (-1) (Some EAGAIN) []; CRet (-1) (Some EAGAIN) []].
Proof. intros [|]; vm_compute; reflexivity. Qed.
