(* C09 - decoder proofs, part 6: one webSocketsDecodeHybi call preserves the session invariant;
   transparency of the repaired decoder for every conversation, segmentation and caller length. *)
From Coq Require Import ZArith List Bool Lia.
From LV Require Import Ws.WsDefs Ws.Base64Defs Ws.WsSpecDefs Ws.WsDecoderModel Ws.WsTransparency
  Ws.WsListProofs Ws.Base64Proofs Ws.WsTextProofs Ws.WsDecoderProofs1 Ws.WsDecoderProofs2 Ws.WsDecoderProofs3
  Ws.WsDecoderProofs4 Ws.WsDecoderProofs5 Gen.Consts_C09.
Import ListNotations.
Local Open Scope Z_scope.

(* ---------------- hybiReadAndDecode as a whole ---------------- *)
Lemma rad_ok : forall w cont c cs q i tail log len,
  PS w cont c q -> w_readlen w = 0 -> w_st w = ST_DATA_NEEDED -> conv_valid cont (c :: cs) = true ->
  1 <= len ->
  io_stream i = skipn (Z.to_nat q) (wire cont c) ++ tail -> sched_live (io_sched i) = true ->
  frame_step cont c tail (rest_data cont c (q - zlen (w_carry w))) (of_dres (read_and_decode true w i log len 0)).
Proof.
  intros w cont c cs q i tail log len HP Hrl Hst Hv Hlen Hs Hl.
  destruct (stageA w cont c cs q i tail log len HP Hrl Hv Hs Hl)
    as [w' i' log' HP' Hrl' Hst' Hca' Hq Hav Hs' Hl' | m b2 i' log' Hm Hm0 Hbd Hb2 Hrd Hs' Hl'].
  - unfold of_dres. rewrite Hst. rewrite spor_id by (left; reflexivity).
    eexists (-1), (Some EAGAIN), [], _, i', log', _.
    split; [reflexivity|]. split; [reflexivity|]. split; [assumption|]. split; [|reflexivity].
    rewrite <- Hca'. replace (w_carry w') with (w_carry (set_st w' ST_DATA_NEEDED)) by reflexivity.
    apply (FR_pay cont c tail _ i' q); try reflexivity; try assumption.
    rewrite Hs'. assumption.
  - apply (decode_ok w cont c cs q i' tail log' len m b2); assumption.
Qed.

Lemma set_rpos_same : forall w, set_rpos w (w_rpos w) = w.
Proof. intros []. reflexivity. Qed.

(* ---------------- a call in state DATA_AVAILABLE ---------------- *)
Lemma avail_ok : forall w cont c cs q pend i tail len,
  AS w cont c q pend -> conv_valid cont (c :: cs) = true -> 1 <= len ->
  io_stream i = skipn (Z.to_nat q) (wire cont c) ++ tail -> sched_live (io_sched i) = true ->
  frame_step cont c tail (pend ++ rest_data cont c (q - zlen (w_carry w))) (ws_decode true w i len).
Proof.
  intros w cont c cs q pend i tail len (Hst & Hrl & Hp & Hrd & HFS & HPS & Hcar) Hv Hlen Hs Hl.
  unfold ws_decode. rewrite Hst.
  change (ST_DATA_AVAILABLE =? ST_HEADER_PENDING) with false. change (ST_DATA_AVAILABLE =? ST_DATA_AVAILABLE) with true.
  cbv iota.
  pose proof (finish_ok w cont c cs q tail i [] len pend (w_rpos w) Hv Hlen HFS HPS) as F.
  rewrite set_rpos_same in F. unfold of_dres in F.
  assert (forall X, match match return_data len w with
                          | RDFault => DFault
                          | RDRet s r e d w4 => DRet s r e d w4 i []
                          end with
                    | DFault => OFault []
                    | DRet s r e dt w0 i0 log => ORet r e dt (spor (set_st w0 s)) i0 log
                    end = X ->
                    match return_data len w with
                    | RDFault => OFault []
                    | RDRet s r e d w1 => ORet r e d (spor (set_st w1 s)) i []
                    end = X) as G.
  { intros X. destruct (return_data len w); intro E; exact E. }
  unfold frame_step in *.
  destruct F as (ret & e & dout & w' & i' & log' & rem' & E & H1 & H2 & H3 & H4); try assumption.
  - intro Hz. lia.
  - intros _. assumption.
  - exists ret, e, dout, w', i', log', rem'. split; [apply G; exact E|]. tauto.
Qed.

(* ---------------- the session invariant ---------------- *)
Inductive R : ws -> io -> list Z -> Prop :=
| R_end : forall w i cont, BD w cont -> io_stream i = [] -> R w i []
| R_hdr : forall w i cont c cs k,
    w_st w = ST_HEADER_PENDING -> HB w cont c k -> k < hlen_of (zlen (cf_wire cont c)) ->
    conv_valid cont (c :: cs) = true ->
    io_stream i = skipn (Z.to_nat k) (hdr_of cont c) ++ wire cont c ++ encode_frames (conv_frames (cf_next cont c) cs) ->
    R w i (cf_data c ++ conv_expected cs)
| R_pay : forall w i cont c cs q,
    conv_valid cont (c :: cs) = true ->
    w_st w = ST_DATA_NEEDED -> PS w cont c q -> w_readlen w = 0 -> q < zlen (cf_wire cont c) ->
    io_stream i = skipn (Z.to_nat q) (wire cont c) ++ encode_frames (conv_frames (cf_next cont c) cs) ->
    R w i (rest_data cont c (q - zlen (w_carry w)) ++ conv_expected cs)
| R_avl : forall w i cont c cs q pend,
    conv_valid cont (c :: cs) = true ->
    AS w cont c q pend ->
    io_stream i = skipn (Z.to_nat q) (wire cont c) ++ encode_frames (conv_frames (cf_next cont c) cs) ->
    R w i ((pend ++ rest_data cont c (q - zlen (w_carry w))) ++ conv_expected cs).

Lemma encode_frames_cons : forall cont c cs,
  encode_frames (conv_frames cont (c :: cs)) =
  hdr_of cont c ++ wire cont c ++ encode_frames (conv_frames (cf_next cont c) cs).
Proof.
  intros. rewrite conv_frames_cons. unfold encode_frames. cbn [map concat].
  rewrite encode_frame_masked. unfold hdr_of, wire. rewrite <- app_assoc. reflexivity.
Qed.

Lemma R_of_BD : forall w i cont cs, BD w cont -> conv_valid cont cs = true ->
  io_stream i = encode_frames (conv_frames cont cs) -> R w i (conv_expected cs).
Proof.
  intros w i cont cs HB0 Hv Hs. destruct cs as [|c cs].
  - cbn in *. apply (R_end w i cont); assumption.
  - rewrite conv_expected_cons. destruct HB0 as (Hst & Hnr & Hrl & Hca & Hco & Hbl).
    pose proof (hlen_of_range (zlen (cf_wire cont c))) as Hh.
    apply (R_hdr w i cont c cs 0); try assumption; try lia.
    + unfold HB. rewrite hdr_of_len. repeat split; try assumption; try lia; try (left; assumption).
    + rewrite Hs, encode_frames_cons. reflexivity.
Qed.

Lemma R_of_FR : forall cont c cs w i rem, conv_valid cont (c :: cs) = true ->
  FR cont c (encode_frames (conv_frames (cf_next cont c) cs)) w i rem -> R w i (rem ++ conv_expected cs).
Proof.
  intros cont c cs w i rem Hv HF. destruct HF as [w i q Hst HP Hrl Hq Hs | w i q pend HA Hs | w i HB0 Hs].
  - apply (R_pay w i cont c cs q); assumption.
  - apply (R_avl w i cont c cs q pend); assumption.
  - cbn [app]. apply (R_of_BD w i (cf_next cont c) cs); try assumption.
    apply conv_valid_cons in Hv. tauto.
Qed.

Definition step_ok (w : ws) (i : io) (rem : list Z) (len : Z) : Prop :=
  exists ret e d w' i' log rem',
    ws_decode true w i len = ORet ret e d w' i' log /\ call_ok (CRet ret e d) = true /\
    sched_live (io_sched i') = true /\ R w' i' rem' /\ rem = d ++ rem'.

Lemma step_of_frame : forall cont c cs before o w i len,
  conv_valid cont (c :: cs) = true ->
  frame_step cont c (encode_frames (conv_frames (cf_next cont c) cs)) before o ->
  ws_decode true w i len = o -> step_ok w i (before ++ conv_expected cs) len.
Proof.
  intros cont c cs before o w i len Hv (ret & e & dout & w' & i' & log' & rem' & E & H1 & H2 & H3 & H4) Ho.
  exists ret, e, dout, w', i', log', (rem' ++ conv_expected cs).
  split; [rewrite Ho; exact E|]. split; [assumption|]. split; [assumption|].
  split; [apply (R_of_FR cont c cs); assumption|]. rewrite H4, app_assoc. reflexivity.
Qed.

Lemma BD_pending : forall w cont, BD w cont -> BD (spor (set_st w ST_HEADER_PENDING)) cont.
Proof.
  intros w cont (H1 & H2 & H3 & H4 & H5 & H6). rewrite spor_id by (right; right; reflexivity).
  unfold BD. cbn [w_st set_st w_hd w_readlen w_carry w_contop w_buf]. repeat split; assumption.
Qed.

Lemma step : forall w i rem len, R w i rem -> sched_live (io_sched i) = true -> 1 <= len -> step_ok w i rem len.
Proof.
  intros w i rem len HR Hl Hlen. destruct HR as [w i cont HB0 Hs | w i cont c cs k Hst HBw Hk Hv Hs | w i cont c cs q Hv Hst HP Hrl Hq Hs | w i cont c cs q pend Hv HA Hs].
  - (* idle, nothing more on the wire *)
    pose proof HB0 as (Hst & Hnr & Hrl & Hca & Hco & Hbl).
    unfold step_ok, ws_decode. rewrite Hst. change (ST_HEADER_PENDING =? ST_HEADER_PENDING) with true. cbv iota.
    unfold read_header. rewrite Hnr. change (HL_SHORT - 0 <=? 0) with false. cbn [andb].
    unfold hdr_read. rewrite to_u64_id by (unfold HL_SHORT, two64; lia).
    destruct (reader_live (HL_SHORT - 0) i Hl ltac:(unfold HL_SHORT; lia)) as (r & i' & tag & Hr & Hl' & _ & Hcase).
    rewrite Hr. destruct Hcase as [(-> & Hs' & _) | (m & Hm0 & _ & Hms & _)].
    + unfold h_pending. change (ST_HEADER_PENDING =? ST_ERR) with false. cbv iota.
      change (negb (ST_HEADER_PENDING =? ST_HEADER_PENDING)) with false. cbv iota.
      eexists (-1), (Some EAGAIN), [], (spor (set_st w ST_HEADER_PENDING)), i', _, [].
      split; [reflexivity|]. split; [reflexivity|]. split; [assumption|]. split; [|reflexivity].
      apply (R_end _ i' cont); [apply BD_pending; assumption|]. rewrite Hs'. assumption.
    + rewrite Hs in Hms. change (zlen (@nil Z)) with 0 in Hms. lia.
  - (* inside a frame header *)
    set (tail := encode_frames (conv_frames (cf_next cont c) cs)) in *.
    pose proof (read_header_ok w cont c cs k i (wire cont c ++ tail) HBw Hk Hv Hs Hl) as Ho.
    destruct Ho as [(w' & i' & log' & k' & E & HB' & Hk' & Hs' & Hl' & Hstall) | (w' & i' & log' & E & HP' & Hrl' & Hs' & Hl')].
    + unfold step_ok, ws_decode. rewrite Hst. change (ST_HEADER_PENDING =? ST_HEADER_PENDING) with true. cbv iota.
      rewrite E. unfold h_pending. change (ST_HEADER_PENDING =? ST_ERR) with false. cbv iota.
      change (negb (ST_HEADER_PENDING =? ST_HEADER_PENDING)) with false. cbv iota.
      exists (-1), (Some EAGAIN), [], (spor (set_st w' ST_HEADER_PENDING)), i', log', (cf_data c ++ conv_expected cs).
      split; [reflexivity|]. split; [reflexivity|]. split; [assumption|]. split; [|reflexivity].
      rewrite spor_id by (right; right; reflexivity).
      apply (R_hdr _ i' cont c cs k'); try assumption; try reflexivity; try lia.
    + assert (zlen (w_carry w') = 0) as Hc0.
      { unfold PS in HP'. cbv zeta in HP'. destruct HP' as (_ & _ & _ & _ & _ & _ & _ & _ & Hcl & Hclq & _). lia. }
      rewrite <- (rest_data_0 cont c).
      replace 0 with (0 - zlen (w_carry (set_st w' ST_DATA_NEEDED))) at 1 by (cbn [w_carry set_st]; lia).
      apply (step_of_frame cont c cs _ (of_dres (read_and_decode true (set_st w' ST_DATA_NEEDED) i' log' len 0))); try assumption.
      * apply (rad_ok _ cont c cs 0 i' tail log' len); try assumption; try reflexivity.
      * unfold ws_decode. rewrite Hst. change (ST_HEADER_PENDING =? ST_HEADER_PENDING) with true. cbv iota.
        rewrite E. change (ST_DATA_NEEDED =? ST_ERR) with false. cbv iota.
        change (negb (ST_DATA_NEEDED =? ST_HEADER_PENDING)) with true. cbv iota. reflexivity.
  - (* inside a frame payload *)
    apply (step_of_frame cont c cs _ (of_dres (read_and_decode true w i [] len 0))); try assumption.
    + apply (rad_ok w cont c cs q i _ [] len); assumption.
    + unfold ws_decode. rewrite Hst. reflexivity.
  - (* decoded bytes waiting in the buffer *)
    apply (step_of_frame cont c cs _ (ws_decode true w i len)); try assumption; [|reflexivity].
    apply (avail_ok w cont c cs q pend i _ len); assumption.
Qed.

(* ---------------- whole sessions ---------------- *)
Lemma run_ok : forall lens w i rem, R w i rem -> sched_live (io_sched i) = true -> lens_ok lens = true ->
  exists rs w' i' rem', ws_run true w i lens = (rs, w', i') /\ forallb call_ok rs = true /\
    R w' i' rem' /\ rem = delivered rs ++ rem' /\ sched_live (io_sched i') = true.
Proof.
  induction lens as [|len lens IH]; intros w i rem HR Hl Hlens.
  - exists [], w, i, rem. cbn. repeat split; assumption.
  - unfold lens_ok in Hlens. cbn [forallb] in Hlens. apply andb_true_iff in Hlens. destruct Hlens as [Hlen Hlens].
    apply andb_true_iff in Hlen. destruct Hlen as [Hlen _]. apply Z.leb_le in Hlen.
    destruct (step w i rem len HR Hl Hlen) as (ret & e & d & w1 & i1 & log & rem1 & E & Hok & Hl1 & HR1 & Hrem).
    destruct (IH w1 i1 rem1 HR1 Hl1 Hlens) as (rs & w' & i' & rem' & Er & Hoks & HR' & Hrem' & Hl').
    exists (CRet ret e d :: rs), w', i', rem'. cbn [ws_run]. rewrite E, Er.
    split; [reflexivity|]. split; [cbn [forallb]; rewrite Hok, Hoks; reflexivity|].
    split; [assumption|]. split; [|assumption]. cbn [delivered]. rewrite Hrem, Hrem', app_assoc. reflexivity.
Qed.

Lemma is_prefix_app : forall a b, is_prefix a (a ++ b) = true.
Proof. induction a; intro b; [reflexivity|]. cbn. rewrite Z.eqb_refl, IHa. reflexivity. Qed.
Lemma list_eqb_refl : forall a, list_eqb a a = true.
Proof. induction a; [reflexivity|]. cbn. rewrite Z.eqb_refl, IHa. reflexivity. Qed.

Lemma BD_init : BD ws_init None.
Proof.
  unfold BD, ws_init, cleanup_complete, cleanup_basics.
  cbn [w_st w_hd h_nread w_readlen w_carry w_contop w_buf set_contop contop_of].
  repeat split; try reflexivity.
Qed.

Lemma R_idle_done : forall w i rem, R w i rem -> io_stream i = [] -> at_boundary w = true -> rem = [].
Proof.
  intros w i rem HR Hs Hb. unfold at_boundary in Hb. repeat rewrite andb_true_iff in Hb. destruct Hb as [[H1 H2] H3].
  apply Z.eqb_eq in H1.
  destruct HR as [w i cont HB0 Hs' | w i cont c cs k Hst HBw Hk Hv Hs' | w i cont c cs q Hv Hst HP Hrl Hq Hs' | w i cont c cs q pend Hv HA Hs'].
  - reflexivity.
  - exfalso. rewrite Hs in Hs'. destruct HBw as (_ & _ & Hkr & _).
    assert (zlen (skipn (Z.to_nat k) (hdr_of cont c)) = zlen (hdr_of cont c) - k) as Hl by (apply zlen_skipn; lia).
    rewrite hdr_of_len in Hl.
    assert (zlen (@nil Z) = zlen (skipn (Z.to_nat k) (hdr_of cont c) ++ wire cont c ++ encode_frames (conv_frames (cf_next cont c) cs))) as E
      by (rewrite <- Hs'; reflexivity).
    rewrite !zlen_app, Hl in E. change (zlen (@nil Z)) with 0 in E.
    pose proof (zlen_nonneg _ (wire cont c)). pose proof (zlen_nonneg _ (encode_frames (conv_frames (cf_next cont c) cs))). lia.
  - exfalso. rewrite Hst in H1. discriminate.
  - exfalso. destruct HA as (Hst & _). rewrite Hst in H1. discriminate.
Qed.

(* C09_transparent for the repaired decoder *)
Theorem transparent_fixed : forall cs sched lens,
  conv_valid None cs = true -> sched_live sched = true -> lens_ok lens = true ->
  transparent_b true cs sched lens = true.
Proof.
  intros cs sched lens Hv Hl Hlens. unfold transparent_b.
  assert (R ws_init (mkIO (conv_stream cs) sched) (conv_expected cs)) as HR0.
  { apply (R_of_BD _ _ None cs); [exact BD_init|assumption|reflexivity]. }
  destruct (run_ok lens _ _ _ HR0 Hl Hlens) as (rs & w' & i' & rem' & Er & Hoks & HR' & Hrem & Hl').
  rewrite Er. rewrite Hoks, Hrem, is_prefix_app. cbn [andb].
  destruct ((zlen (io_stream i') =? 0) && at_boundary w') eqn:E; [|reflexivity].
  apply andb_true_iff in E. destruct E as [E1 E2]. apply Z.eqb_eq in E1. apply zlen_0_nil in E1.
  rewrite (R_idle_done _ _ _ HR' E1 E2). rewrite app_nil_r. cbn [negb orb]. apply list_eqb_refl.
Qed.

(* for valid conversations no buffer index of the mirror decoder is ever out of range *)
Lemma no_fault_valid : forall cs sched lens,
  conv_valid None cs = true -> sched_live sched = true -> lens_ok lens = true ->
  let '(rs, _, _) := ws_run true ws_init (mkIO (conv_stream cs) sched) lens in
  forallb (fun r => match r with CFault => false | _ => true end) rs = true.
Proof.
  intros cs sched lens Hv Hl Hlens.
  assert (R ws_init (mkIO (conv_stream cs) sched) (conv_expected cs)) as HR0.
  { apply (R_of_BD _ _ None cs); [exact BD_init|assumption|reflexivity]. }
  destruct (run_ok lens _ _ _ HR0 Hl Hlens) as (rs & w' & i' & rem' & Er & Hoks & _).
  rewrite Er. rewrite forallb_forall in *. intros r Hr. specialize (Hoks r Hr). destruct r; [discriminate|reflexivity].
Qed.
