(* C09 - shared definitions of the WebSocket model: bytes (Z in 0..255), buffers with
   explicit, checked indices, the client mask, integer conversions of the C code.
   Definitions only. *)
From Coq Require Import ZArith List Bool.
Import ListNotations.
Local Open Scope Z_scope.

Definition zlen {A} (l : list A) : Z := Z.of_nat (length l).

Definition byte_ok (b : Z) : bool := (0 <=? b) && (b <? 256).
Definition bytes_ok (l : list Z) : bool := forallb byte_ok l.

(* ---- conversions written out in the C code ---- *)
Definition two64 : Z := 18446744073709551616.
Definition two32 : Z := 4294967296.
Definition two31 : Z := 2147483648.
(* int -> size_t / uint64_t *)
Definition to_u64 (n : Z) : Z := n mod two64.
(* uint64_t -> int (x86-64 gcc: truncation to 32 bits, two's complement) *)
Definition to_int (n : Z) : Z :=
  let m := n mod two32 in if m <? two31 then m else m - two32.

(* ---- buffers: list + checked index; an access outside the array is None ---- *)
Definition buf_get (b : list Z) (i : Z) : option Z :=
  if (0 <=? i) && (i <? zlen b) then nth_error b (Z.to_nat i) else None.

Definition buf_read (b : list Z) (pos n : Z) : option (list Z) :=
  if (0 <=? pos) && (0 <=? n) && (pos + n <=? zlen b)
  then Some (firstn (Z.to_nat n) (skipn (Z.to_nat pos) b)) else None.

Definition buf_write (b : list Z) (pos : Z) (d : list Z) : option (list Z) :=
  if (0 <=? pos) && (pos + zlen d <=? zlen b)
  then Some (firstn (Z.to_nat pos) b ++ d ++ skipn (Z.to_nat pos + length d) b) else None.

Definition buf_set (b : list Z) (pos : Z) (v : Z) : option (list Z) := buf_write b pos [v].

(* ---- the 4-byte client mask ---- *)
Definition mask := (Z * Z * Z * Z)%type.
Definition mask0 : mask := (0, 0, 0, 0).
Definition mask_at (m : mask) (i : Z) : Z :=
  let '(a, b, c, d) := m in
  let r := i mod 4 in
  if r =? 0 then a else if r =? 1 then b else if r =? 2 then c else d.
Definition mask_list (m : mask) : list Z := let '(a, b, c, d) := m in [a; b; c; d].

(* byte i of l is xored with mask byte (off+i) mod 4 *)
Fixpoint xmask (m : mask) (off : Z) (l : list Z) : list Z :=
  match l with
  | [] => []
  | x :: r => Z.lxor x (mask_at m off) :: xmask m (off + 1) r
  end.

(* the word loop of hybiReadAndDecode: w whole 32-bit words are xored with mask.u
   (bytewise, independent of endianness); None if the region is shorter than 4*w *)
Fixpoint xor_words (m : mask) (w : nat) (l : list Z) : option (list Z) :=
  match w with
  | O => Some l
  | S w' =>
    match l with
    | a :: b :: c :: d :: r =>
      let '(m0, m1, m2, m3) := m in
      match xor_words m w' r with
      | Some r' => Some (Z.lxor a m0 :: Z.lxor b m1 :: Z.lxor c m2 :: Z.lxor d m3 :: r')
      | None => None
      end
    | _ => None
    end
  end.

(* the tail loop: for (i = i0; i < n; i++) data[i] ^= mask.c[i % 4], on the sub-list starting at i0 *)
Definition xor_tail (m : mask) (i0 : Z) (l : list Z) : list Z := xmask m i0 l.

Fixpoint be_val (l : list Z) (acc : Z) : Z :=
  match l with [] => acc | x :: r => be_val r (acc * 256 + x) end.

Fixpoint be_bytes (n : nat) (v : Z) : list Z :=
  match n with O => [] | S k => be_bytes k (v / 256) ++ [v mod 256] end.

Fixpoint take_nonzero (l : list Z) : list Z :=
  match l with [] => [] | x :: r => if x =? 0 then [] else x :: take_nonzero r end.
