(* C09 - decoder proofs, part 5: one decode call inside a frame (fx = true). *)
From Coq Require Import ZArith List Bool Lia.
From LV Require Import Ws.WsDefs Ws.Base64Defs Ws.WsSpecDefs Ws.WsDecoderModel Ws.WsTransparency
  Ws.WsListProofs Ws.Base64Proofs Ws.WsTextProofs Ws.WsDecoderProofs1 Ws.WsDecoderProofs2 Ws.WsDecoderProofs3
  Ws.WsDecoderProofs4 Gen.Consts_C09.
Import ListNotations.
Local Open Scope Z_scope.

Lemma cf_wire_data : forall cont c cs, conv_valid cont (c :: cs) = true -> cf_isdata c = true ->
  cf_wire cont c = (if cf_text cont c then b64_enc (cf_data c) else cf_data c) /\ bytes_ok (cf_data c) = true.
Proof.
  intros cont c cs Hv Hd. apply conv_valid_cons in Hv. destruct Hv as (_ & Hb & _ & _ & _).
  split; [|exact Hb].
  destruct c as [t f m d | f m d | p m pl]; cbn [cf_isdata] in Hd; try discriminate;
    cbn [cf_wire cf_text cf_data wire_payload] in *.
  - destruct t; [apply b64_text_is_enc; assumption|reflexivity].
  - destruct cont as [[|]|]; cbn [wire_payload]; try reflexivity. apply b64_text_is_enc; assumption.
Qed.

Lemma rest_data_end : forall cont c cs, conv_valid cont (c :: cs) = true ->
  rest_data cont c (zlen (cf_wire cont c)) = [].
Proof.
  intros cont c cs Hv. unfold rest_data. destruct (cf_isdata c) eqn:Ed; [|reflexivity].
  destruct (cf_wire_data _ _ _ Hv Ed) as [Ew Hb]. rewrite Ew.
  destruct (cf_text cont c).
  - apply skipn_all_z. rewrite enc_length. pose proof (zlen_nonneg _ (cf_data c)). Z.div_mod_to_equations. lia.
  - apply skipn_all_z. lia.
Qed.

Lemma spor_id : forall w, w_st w = ST_DATA_NEEDED \/ w_st w = ST_DATA_AVAILABLE \/ w_st w = ST_HEADER_PENDING -> spor w = w.
Proof. intros w [H | [H | H]]; unfold spor; rewrite H; reflexivity. Qed.

(* ---------------- hybiReturnData at the end of hybiReadAndDecode ---------------- *)
Lemma finish_ok : forall w3 cont c cs q' tail i log len Zd wp,
  conv_valid cont (c :: cs) = true -> 1 <= len ->
  FS w3 cont c q' -> (q' < zlen (cf_wire cont c) -> PS w3 cont c q') ->
  (zlen Zd = 0 -> w_st w3 = if q' =? zlen (cf_wire cont c) then ST_FRAME_COMPLETE else ST_DATA_NEEDED) ->
  (q' = zlen (cf_wire cont c) -> w_carry w3 = []) ->
  w_readlen w3 = zlen Zd -> (0 < zlen Zd -> buf_read (w_buf w3) wp (zlen Zd) = Some Zd) ->
  io_stream i = skipn (Z.to_nat q') (wire cont c) ++ tail -> sched_live (io_sched i) = true ->
  frame_step cont c tail (Zd ++ rest_data cont c (q' - zlen (w_carry w3)))
    (of_dres (match return_data len (set_rpos w3 wp) with
              | RDFault => DFault
              | RDRet s r e d w4 => DRet s r e d w4 i log
              end)).
Proof.
  intros w3 cont c cs q' tail i log len Zd wp Hv Hlen HFS HPS Hst Hcar Hrl Hbuf Hs Hl.
  set (L := zlen (cf_wire cont c)) in *.
  pose proof HFS as (Hb & Hpl & Hop & Hfin & Hnrp & Hq & Hco).
  assert (remaining (set_rpos w3 wp) = L - q') as Hrem.
  { unfold remaining. cbn [w_hd set_rpos w_nrp]. rewrite Hpl, Hnrp. fold L.
    pose proof (cf_wire_len _ _ _ Hv). apply to_u64_id. unfold two64, two32 in *. fold L in H. lia. }
  assert (zlen (wire cont c) = L) as HwL by (unfold wire; rewrite xmask_len; reflexivity).
  assert (q' = L -> skipn (Z.to_nat q') (wire cont c) ++ tail = tail) as Htail.
  { intro E. rewrite skipn_all_z by lia. reflexivity. }
  destruct (return_data_ok (set_rpos w3 wp) len Zd Hlen Hrl Hbuf)
    as [[Hz Hr] | [[Hz Hr] | (Hz & Hr & Hrest)]]; rewrite Hr; unfold of_dres.
  - (* nothing decoded: EAGAIN *)
    specialize (Hst Hz). apply zlen_0_nil in Hz. subst Zd. cbn [app].
    cbn [w_st set_rpos]. rewrite Hst.
    destruct (q' =? L) eqn:E.
    + apply Z.eqb_eq in E.
      exists (-1), (Some EAGAIN), [], (spor (set_st (set_rpos w3 wp) ST_FRAME_COMPLETE)), i, log, [].
      split; [reflexivity|]. split; [reflexivity|]. split; [assumption|]. split.
      * apply FR_done; [|rewrite Hs; apply Htail; assumption].
        apply (spor_complete _ cont c cs q'); [|assumption]. exact HFS.
      * rewrite (Hcar E). change (zlen (@nil Z)) with 0. rewrite Z.sub_0_r, E. unfold L.
        rewrite (rest_data_end _ _ _ Hv). reflexivity.
    + apply Z.eqb_neq in E.
      rewrite spor_id by (left; reflexivity).
      eexists (-1), (Some EAGAIN), [], _, i, log, _.
      split; [reflexivity|]. split; [reflexivity|]. split; [assumption|]. split; [|reflexivity].
      replace (w_carry w3) with (w_carry (set_st (set_rpos w3 wp) ST_DATA_NEEDED)) by reflexivity.
      apply (FR_pay cont c tail _ i q'); try reflexivity; try assumption; try (fold L; lia).
      apply (HPS ltac:(lia)).
  - (* everything decoded fits into dst *)
    rewrite Hrem.
    destruct (L - q' =? 0) eqn:E.
    + apply Z.eqb_eq in E. assert (q' = L) as E' by lia.
      exists (zlen Zd), None, Zd, (spor (set_st (set_rpos (set_readlen (set_rpos w3 wp) 0) (-1)) ST_FRAME_COMPLETE)), i, log, [].
      split; [reflexivity|]. split; [apply call_ok_data; lia|]. split; [assumption|]. split.
      * apply FR_done; [|rewrite Hs; apply Htail; assumption].
        apply (spor_complete _ cont c cs q'); [|assumption]. exact HFS.
      * rewrite (Hcar E'). change (zlen (@nil Z)) with 0. rewrite Z.sub_0_r, E'. unfold L.
        rewrite (rest_data_end _ _ _ Hv). reflexivity.
    + apply Z.eqb_neq in E.
      rewrite spor_id by (left; reflexivity).
      eexists (zlen Zd), None, Zd, _, i, log, _.
      split; [reflexivity|]. split; [apply call_ok_data; lia|]. split; [assumption|]. split; [|reflexivity].
      replace (w_carry w3) with (w_carry (set_st (set_rpos (set_readlen (set_rpos w3 wp) 0) (-1)) ST_DATA_NEEDED)) by reflexivity.
      apply (FR_pay cont c tail _ i q'); try reflexivity; try assumption; try (fold L; lia).
      apply (HPS ltac:(lia)).
  - (* more than fits: DATA_AVAILABLE *)
    rewrite spor_id by (right; left; reflexivity).
    cbn [w_rpos set_rpos] in *.
    assert (zlen (firstn (Z.to_nat len) Zd) = len) as Hfl by (apply zlen_firstn; lia).
    eexists len, None, (firstn (Z.to_nat len) Zd), _, i, log, _.
    split; [reflexivity|]. split; [rewrite <- Hfl at 1; apply call_ok_data; lia|]. split; [assumption|]. split.
    + replace (w_carry w3) with
        (w_carry (set_st (set_rpos (set_readlen (set_rpos w3 wp) (zlen Zd - len)) (wp + len)) ST_DATA_AVAILABLE)) by reflexivity.
      apply (FR_avl cont c tail _ i q' (skipn (Z.to_nat len) Zd)); [|assumption].
      assert (zlen (skipn (Z.to_nat len) Zd) = zlen Zd - len) as Hsl by (apply zlen_skipn; lia).
      unfold AS. cbn [w_st set_st w_readlen set_rpos set_readlen w_buf w_rpos]. rewrite Hsl.
      split; [reflexivity|]. split; [reflexivity|]. split; [lia|]. split; [exact Hrest|]. split; [exact HFS|].
      split; [intro Hlt; apply (HPS Hlt)|exact Hcar].
    + cbn [w_carry set_st set_rpos set_readlen]. rewrite app_assoc. rewrite firstn_skipn. reflexivity.
Qed.

(* ---------------- the opcode switch ---------------- *)
Lemma eop_cases : forall cont c cs, conv_valid cont (c :: cs) = true ->
  (cf_isdata c = true /\ cf_eop cont c = (if cf_text cont c then OP_TEXT else OP_BIN)) \/
  (cf_isdata c = false /\ (cf_eop cont c = OP_PING \/ cf_eop cont c = OP_PONG)).
Proof.
  intros cont c cs Hv. apply conv_valid_cons in Hv. destruct Hv as (_ & _ & _ & _ & Hc).
  destruct c as [[|] f m d | f m d | [|] m pl]; cbn; try (left; split; reflexivity); try (right; split; [reflexivity|tauto]).
  destruct cont as [[|]|]; [left; split; reflexivity|left; split; reflexivity|congruence].
Qed.

Lemma buf_read_after_write : forall b p d b' q n, buf_write b p d = Some b' -> 0 <= q -> 0 <= n -> q + n <= p ->
  buf_read b' q n = buf_read b q n.
Proof.
  intros b p d b' q n Hw Hq Hn Hle.
  pose proof (buf_write_len _ _ _ _ Hw) as Hl. pose proof (buf_write_inv _ _ _ _ Hw) as (H1 & H2 & _).
  pose proof (zlen_nonneg _ d).
  rewrite !buf_read_ok by lia. f_equal.
  rewrite (firstn_skipn_comm_z _ n q b') by lia. rewrite (firstn_skipn_comm_z _ n q b) by lia. f_equal.
  rewrite <- (firstn_firstn_z _ (q + n) p b') by lia. rewrite <- (firstn_firstn_z _ (q + n) p b) by lia.
  rewrite (buf_write_firstn _ _ _ _ Hw). reflexivity.
Qed.

Lemma deliver_ok : forall w2 cont c cs i log len wp a toReturn bufsize Y,
  conv_valid cont (c :: cs) = true ->
  h_opcode (w_hd w2) = cf_eop cont c -> h_hlen (w_hd w2) = hlen_of (zlen (cf_wire cont c)) ->
  zlen (w_buf w2) = ws_buf_size -> w_readlen w2 = 0 ->
  buf_read (w_buf w2) wp toReturn = Some Y ->
  Y = firstn (Z.to_nat toReturn) (skipn (Z.to_nat a) (cf_wire cont c)) ->
  a mod 4 = 0 -> 0 <= a -> 0 <= toReturn -> a + toReturn <= zlen (cf_wire cont c) ->
  (toReturn mod 4 = 0 \/ a + toReturn = zlen (cf_wire cont c)) ->
  0 <= wp -> wp + toReturn <= ws_buf_size - 1 -> toReturn / 4 * 3 < bufsize ->
  exists w3 Zd,
    deliver w2 i log len wp toReturn bufsize =
      (match return_data len (set_rpos w3 wp) with
       | RDFault => DFault
       | RDRet s r e d w4 => DRet s r e d w4 i log
       end) /\
    Zd = chunk_data cont c a toReturn /\ w_readlen w3 = zlen Zd /\
    (0 < zlen Zd -> buf_read (w_buf w3) wp (zlen Zd) = Some Zd) /\
    zlen (w_buf w3) = ws_buf_size /\ w_st w3 = w_st w2 /\ w_hd w3 = w_hd w2 /\ w_nrp w3 = w_nrp w2 /\
    w_carry w3 = w_carry w2 /\ w_contop w3 = w_contop w2 /\
    w_wpos w3 = (if cf_isdata c then hlen_of (zlen (cf_wire cont c)) else w_wpos w2).
Proof.
  intros w2 cont c cs i log len wp a toReturn bufsize Y Hv Hop Hhl Hbl Hrl Hrd HY Ha Ha0 Ht0 Hle Hal Hwp0 Hwp Hbs.
  set (L := zlen (cf_wire cont c)) in *.
  assert (zlen Y = toReturn) as HYl by (apply (buf_read_len _ _ _ _ Hrd)).
  unfold deliver. rewrite Hop.
  destruct (eop_cases _ _ _ Hv) as [[Ed Eop] | [Ed Eop]].
  - (* data frame *)
    destruct (cf_wire_data _ _ _ Hv Ed) as [Ew Hb].
    rewrite Eop. destruct (cf_text cont c) eqn:Et.
    + (* text: base64 decoding in place *)
      change (OP_TEXT =? OP_CLOSE) with false. change (OP_TEXT =? OP_TEXT) with true. cbv iota.
      assert (L mod 4 = 0) as HL4.
      { unfold L. rewrite Ew, enc_length. rewrite Z.mul_comm. apply Z.mod_mul. lia. }
      assert (toReturn mod 4 = 0) as Ht4.
      { destruct Hal as [H|H]; [exact H|]. replace toReturn with (L - a) by lia.
        rewrite Zminus_mod, HL4, Ha. reflexivity. }
      unfold text_decode, buf_set.
      destruct (buf_write_ok (w_buf w2) (wp + toReturn) [0] ltac:(lia) ltac:(change (zlen [0]) with 1; lia)) as (b4 & Hb4).
      rewrite Hb4. rewrite (buf_read_after_write _ _ _ _ wp toReturn Hb4) by lia. rewrite Hrd.
      assert (b64_pton Y bufsize = Some (chunk_data cont c a toReturn)) as Hdec.
      { rewrite HY, Ew. unfold chunk_data. rewrite Ed, Et. apply text_chunk; try assumption; try lia.
        rewrite <- Ew. fold L. lia. }
      rewrite Hdec. set (Zd := chunk_data cont c a toReturn) in *.
      assert (zlen Zd <= toReturn) as HZl.
      { subst Zd. unfold chunk_data. rewrite Ed, Et.
        pose proof (zlen_firstn_le _ (Z.to_nat (toReturn / 4 * 3)) (skipn (Z.to_nat (a / 4 * 3)) (cf_data c))) as H1.
        assert (zlen (firstn (Z.to_nat (toReturn / 4 * 3)) (skipn (Z.to_nat (a / 4 * 3)) (cf_data c))) <= toReturn / 4 * 3) as H2.
        { unfold zlen. rewrite firstn_length. Z.div_mod_to_equations. lia. }
        Z.div_mod_to_equations. lia. }
      pose proof (buf_write_len _ _ _ _ Hb4) as Hb4l.
      destruct (buf_write_ok b4 wp Zd ltac:(lia) ltac:(lia)) as (b5 & Hb5). rewrite Hb5.
      eexists _, Zd. split; [reflexivity|]. split; [reflexivity|].
      cbn [w_readlen set_wpos set_readlen set_buf w_buf w_st w_hd w_nrp w_carry w_contop w_wpos].
      split; [reflexivity|]. split; [intros _; apply (buf_read_write_same _ _ _ _ Hb5)|].
      split; [rewrite (buf_write_len _ _ _ _ Hb5); lia|].
      rewrite Ed, Hhl. repeat split; reflexivity.
    + (* binary *)
      change (OP_BIN =? OP_CLOSE) with false. change (OP_BIN =? OP_TEXT) with false. change (OP_BIN =? OP_BIN) with true.
      cbv iota.
      eexists _, Y. split; [reflexivity|].
      cbn [w_readlen set_wpos set_readlen set_buf w_buf w_st w_hd w_nrp w_carry w_contop w_wpos].
      split; [unfold chunk_data; rewrite Ed, Et, HY, Ew; reflexivity|].
      split; [lia|]. split; [intros _; rewrite HYl; exact Hrd|]. split; [assumption|].
      rewrite Ed, Hhl. repeat split; reflexivity.
  - (* ping / pong: payload dropped *)
    assert ((cf_eop cont c =? OP_CLOSE) = false /\ (cf_eop cont c =? OP_TEXT) = false /\ (cf_eop cont c =? OP_BIN) = false) as (E1 & E2 & E3)
      by (destruct Eop as [-> | ->]; repeat split; reflexivity).
    rewrite E1, E2, E3.
    eexists w2, []. split; [reflexivity|].
    split; [unfold chunk_data; rewrite Ed; reflexivity|].
    split; [assumption|]. split; [change (zlen (@nil Z)) with 0; lia|]. split; [assumption|].
    rewrite Ed. repeat split; reflexivity.
Qed.

Lemma chunk_rest' : forall cont c a n, a mod 4 = 0 -> (cf_text cont c = true -> n mod 4 = 0) -> 0 <= a -> 0 <= n ->
  chunk_data cont c a n ++ rest_data cont c (a + n) = rest_data cont c a.
Proof.
  intros cont c a n Ha Hn H0 H1. destruct (cf_text cont c) eqn:Et.
  - apply chunk_rest; auto.
  - unfold chunk_data, rest_data. rewrite Et. destruct (cf_isdata c); [|reflexivity].
    replace (a + n) with (n + a) by lia. rewrite <- skipn_skipn_z by lia. apply firstn_skipn.
Qed.

Lemma text_wire_mod4 : forall cont c cs, conv_valid cont (c :: cs) = true -> cf_isdata c = true ->
  cf_text cont c = true -> zlen (cf_wire cont c) mod 4 = 0.
Proof.
  intros cont c cs Hv Hd Ht. destruct (cf_wire_data _ _ _ Hv Hd) as [Ew _]. rewrite Ew, Ht, enc_length.
  rewrite Z.mul_comm. apply Z.mod_mul. lia.
Qed.

Lemma chunk_data_ctl : forall cont c a n, cf_isdata c = false -> chunk_data cont c a n = [].
Proof. intros. unfold chunk_data. rewrite H. reflexivity. Qed.

(* ---------------- decode_tail on the bytes just read ---------------- *)
Lemma decode_ok : forall w cont c cs q i' tail log' len m b2,
  PS w cont c q -> w_readlen w = 0 -> w_st w = ST_DATA_NEEDED -> conv_valid cont (c :: cs) = true ->
  1 <= len ->
  0 <= m <= zlen (cf_wire cont c) - q -> (m = 0 -> q = zlen (cf_wire cont c)) ->
  w_wpos w + zlen (w_carry w) + m <= ws_buf_size - 1 -> zlen b2 = ws_buf_size ->
  buf_read b2 (w_wpos w) (zlen (w_carry w) + m) =
    Some (firstn (Z.to_nat (zlen (w_carry w) + m)) (skipn (Z.to_nat (q - zlen (w_carry w))) (wire cont c))) ->
  io_stream i' = skipn (Z.to_nat (q + m)) (wire cont c) ++ tail -> sched_live (io_sched i') = true ->
  frame_step cont c tail (rest_data cont c (q - zlen (w_carry w)))
    (of_dres (decode_tail (set_wpos (set_nrp (set_buf w b2) (q + m)) (w_wpos w + zlen (w_carry w) + m)) i' log' len m 0
                          (ws_buf_size - (w_wpos w + zlen (w_carry w)) - 1))).
Proof.
  intros w cont c cs q i' tail log' len m b2 HP Hrl Hst Hv Hlen Hm Hm0 Hbound Hb2l Hread Hs Hl.
  pose proof (PS_wpos_bound _ _ _ _ _ HP Hv) as [Hw1 Hw2].
  pose proof (cf_wire_len _ _ _ Hv) as HL.
  pose proof HP as HP0. unfold PS in HP. cbv zeta in HP.
  destruct HP as (Hbuf & Hhl & Hpl & Hmk & Hop & Hfin & Hnrp & Hq & Hcl & Hclq & Hal & Hca & Hco & Hwp).
  set (L := zlen (cf_wire cont c)) in *. set (cl := zlen (w_carry w)) in *.
  set (a := q - cl) in *. set (t := cl + m) in *. set (wp := w_wpos w) in *.
  set (P := cf_wire cont c) in *. set (mk := cf_mask c) in *.
  set (X := firstn (Z.to_nat t) (skipn (Z.to_nat a) P)).
  assert (zlen X = t) as HXl.
  { subst X. apply zlen_firstn. rewrite zlen_skipn by (fold L; lia). fold L. lia. }
  assert (firstn (Z.to_nat t) (skipn (Z.to_nat a) (wire cont c)) = xmask mk 0 X) as HXm.
  { unfold wire. fold P mk. subst X. apply masked_chunk; lia. }
  rewrite HXm in Hread.
  set (bufsize := ws_buf_size - (wp + cl) - 1).
  assert (t / 4 * 3 < bufsize) as Hbs.
  { subst bufsize. unfold ws_buf_size in *. Z.div_mod_to_equations. lia. }
  set (w' := set_wpos (set_nrp (set_buf w b2) (q + m)) (wp + cl + m)).
  assert (remaining w' = L - (q + m)) as Hrem.
  { unfold remaining, w'. cbn [w_hd set_wpos set_nrp set_buf w_nrp]. rewrite Hpl. apply to_u64_id. unfold two64, two32 in *. lia. }
  unfold decode_tail. rewrite Hrem.
  destruct (L - (q + m) =? 0) eqn:Ec.
  - (* the frame is complete *)
    apply Z.eqb_eq in Ec. assert (q + m = L) as Eq by lia.
    set (w1 := set_st w' ST_FRAME_COMPLETE).
    assert (w_carrylen w1 = cl) as F1 by reflexivity.
    assert (w_buf w1 = b2) as F2 by reflexivity.
    assert (w_wpos w1 = wp + cl + m) as F3 by reflexivity.
    assert (h_mask (w_hd w1) = mk) as F4 by exact Hmk.
    assert (w_st w1 = ST_FRAME_COMPLETE) as F5 by reflexivity.
    rewrite !F1, !F2, !F3, !F4, !F5.
    replace (m + cl + 0) with t by lia.
    destruct (t <? 0) eqn:Et0; [lia|].
    replace (wp + cl + m - t) with wp by lia. rewrite Hread.
    change (ST_FRAME_COMPLETE =? ST_FRAME_COMPLETE) with true.
    rewrite (unmask_region_ok mk X t true HXl). cbv iota. cbv beta iota.
    change ((0 <? 0) || (0 >? ws_carry_size)) with false. cbv iota.
    destruct (buf_write_ok b2 wp X ltac:(lia) ltac:(unfold ws_buf_size in *; lia)) as (b3 & Hb3). rewrite Hb3.
    rewrite !Z.sub_0_r.
    set (w2 := set_wpos (set_carry (set_buf w1 b3) []) (wp + cl + m)).
    pose proof (buf_read_write_same _ _ _ _ Hb3) as Hr3. rewrite HXl in Hr3.
    destruct (deliver_ok w2 cont c cs i' log' len wp a t bufsize X Hv) as (w3 & Zd & Hd & HZd & Hrl3 & Hbuf3 & Hbl3 & Hst3 & Hhd3 & Hnrp3 & Hca3 & Hco3 & Hwp3);
      try assumption; try lia; try reflexivity.
    { change (w_buf w2) with b3. rewrite (buf_write_len _ _ _ _ Hb3). assumption. }
    { change (zlen (cf_wire cont c)) with L. lia. } { right. change (zlen (cf_wire cont c)) with L. lia. }
    rewrite Hd.
    assert (rest_data cont c a = Zd ++ rest_data cont c (q + m - zlen (w_carry w3))) as Hbefore.
    { rewrite Hca3. change (zlen (w_carry w2)) with 0. rewrite Z.sub_0_r. rewrite HZd.
      replace (q + m) with (a + t) by lia. symmetry. apply chunk_rest'; try lia.
      intro Htx. destruct (cf_isdata c) eqn:Ed.
      - pose proof (text_wire_mod4 _ _ _ Hv Ed Htx) as H4. change (zlen (cf_wire cont c)) with L in H4.
        replace t with (L - a) by lia. rewrite Zminus_mod, H4, Hal. reflexivity.
      - destruct c; cbn in Ed, Htx; discriminate. }
    rewrite Hbefore.
    apply (finish_ok w3 cont c cs (q + m) tail i' log' len Zd wp); try assumption.
    + unfold FS. rewrite Hbl3, Hhd3, Hnrp3, Hco3. unfold w2, w1, w'.
      cbn [w_hd w_nrp w_contop set_wpos set_carry set_buf set_st set_nrp]. change (zlen (cf_wire cont c)) with L.
      repeat split; try assumption; try lia.
    + change (zlen (cf_wire cont c)) with L. lia.
    + intros _. change (zlen (cf_wire cont c)) with L. rewrite Hst3. replace (q + m =? L) with true by (symmetry; apply Z.eqb_eq; lia). reflexivity.
    + intros _. rewrite Hca3. reflexivity.
  - (* more of the frame is to come *)
    apply Z.eqb_neq in Ec. assert (q + m < L) as Eq by lia.
    assert (w_carrylen w' = cl) as F1 by reflexivity.
    assert (w_buf w' = b2) as F2 by reflexivity.
    assert (w_wpos w' = wp + cl + m) as F3 by reflexivity.
    assert (h_mask (w_hd w') = mk) as F4 by exact Hmk.
    assert (w_st w' = ST_DATA_NEEDED) as F5 by exact Hst.
    rewrite !F1, !F2, !F3, !F4, !F5.
    replace (m + cl + 0) with t by lia.
    destruct (t <? 0) eqn:Et0; [lia|].
    replace (wp + cl + m - t) with wp by lia. rewrite Hread.
    change (ST_DATA_NEEDED =? ST_FRAME_COMPLETE) with false.
    rewrite (unmask_region_ok mk X t false HXl). cbv iota. cbv beta iota.
    set (t4 := t / 4 * 4). set (xm := xmask mk 0 (skipn (Z.to_nat t4) X)).
    assert (0 <= t4 <= t /\ t - t4 <= 3 /\ t4 mod 4 = 0) as (Ht4a & Ht4b & Ht4c).
    { subst t4. split; [|split]; [Z.div_mod_to_equations; lia|Z.div_mod_to_equations; lia|apply Z.mod_mul; lia]. }
    assert (zlen xm = t - t4) as Hxml.
    { subst xm. rewrite xmask_len. rewrite zlen_skipn by lia. lia. }
    destruct ((t - t4 <? 0) || (t - t4 >? ws_carry_size)) eqn:Eio.
    { unfold ws_carry_size in Eio. apply orb_true_iff in Eio. destruct Eio as [E|E]; lia. }
    set (region2 := firstn (Z.to_nat t4) X ++ xm).
    assert (zlen region2 = t) as Hr2l.
    { subst region2. rewrite zlen_app, Hxml. rewrite zlen_firstn by lia. lia. }
    destruct (buf_write_ok b2 wp region2 ltac:(lia) ltac:(unfold ws_buf_size in *; lia)) as (b3 & Hb3). rewrite Hb3.
    set (w2 := set_wpos (set_carry (set_buf w' b3) xm) (wp + cl + m - (t - t4))).
    pose proof (buf_read_write_same _ _ _ _ Hb3) as Hr3. rewrite Hr2l in Hr3.
    destruct (buf_read_sub _ _ _ _ t4 Hr3 ltac:(lia)) as [Hr4 _].
    assert (firstn (Z.to_nat t4) region2 = firstn (Z.to_nat t4) X) as Hf4.
    { subst region2. apply firstn_app_len. rewrite firstn_length. unfold zlen in HXl. lia. }
    rewrite Hf4 in Hr4.
    replace (t - (t - t4)) with t4 by lia.
    destruct (deliver_ok w2 cont c cs i' log' len wp a t4 bufsize (firstn (Z.to_nat t4) X) Hv) as (w3 & Zd & Hd & HZd & Hrl3 & Hbuf3 & Hbl3 & Hst3 & Hhd3 & Hnrp3 & Hca3 & Hco3 & Hwp3);
      try assumption; try lia; try reflexivity.
    { change (w_buf w2) with b3. rewrite (buf_write_len _ _ _ _ Hb3). assumption. }
    { subst X. rewrite firstn_firstn_z by lia. reflexivity. }
    { change (zlen (cf_wire cont c)) with L. lia. }
    { replace (t4 / 4) with (t / 4) by (subst t4; rewrite Z.div_mul; lia). exact Hbs. }
    rewrite Hd.
    assert (rest_data cont c a = Zd ++ rest_data cont c (q + m - zlen (w_carry w3))) as Hbefore.
    { rewrite Hca3. change (zlen (w_carry w2)) with (zlen xm). rewrite Hxml. rewrite HZd.
      replace (q + m - (t - t4)) with (a + t4) by lia. symmetry. apply chunk_rest'; try lia; try (intros _; assumption). }
    rewrite Hbefore.
    assert (PS w3 cont c (q + m)) as HP3.
    { unfold PS. cbv zeta. rewrite Hbl3, Hhd3, Hnrp3, Hca3, Hco3, Hwp3. unfold w2, w'.
      cbn [w_hd w_nrp w_contop w_carry w_wpos set_wpos set_carry set_buf set_nrp]. fold L P mk. rewrite Hxml.
      repeat split; try assumption; try lia.
      - replace (q + m - (t - t4)) with (a + t4) by lia. rewrite Z.add_mod, Hal, Ht4c by lia. reflexivity.
      - replace (q + m - (t - t4)) with (a + t4) by lia. subst xm X.
        rewrite (masked_chunk mk P (a + t4)) by (try lia; rewrite Z.add_mod, Hal, Ht4c by lia; reflexivity).
        f_equal. rewrite (skipn_firstn_comm_z_aux _ t4 t) by lia. rewrite skipn_skipn_z by lia.
        replace (t4 + a) with (a + t4) by lia. reflexivity.
      - destruct (cf_isdata c); [reflexivity|]. fold wp. rewrite Hwp. fold L. lia. }
    apply (finish_ok w3 cont c cs (q + m) tail i' log' len Zd wp); try assumption.
    + apply PS_FS. assumption.
    + intros _. assumption.
    + intros _. change (zlen (cf_wire cont c)) with L. rewrite Hst3. replace (q + m =? L) with false by (symmetry; apply Z.eqb_neq; lia).
      unfold w2, w'. cbn [w_st set_wpos set_carry set_buf set_nrp]. assumption.
    + change (zlen (cf_wire cont c)) with L. lia.
Qed.
