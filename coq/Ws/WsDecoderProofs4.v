(* C09 - decoder proofs, part 4: unmasking, the opcode switch, hybiReturnData (fx = true). *)
From Coq Require Import ZArith List Bool Lia.
From LV Require Import Ws.WsDefs Ws.Base64Defs Ws.WsSpecDefs Ws.WsDecoderModel Ws.WsTransparency
  Ws.WsListProofs Ws.Base64Proofs Ws.WsTextProofs Ws.WsDecoderProofs1 Ws.WsDecoderProofs2 Ws.WsDecoderProofs3
  Gen.Consts_C09.
Import ListNotations.
Local Open Scope Z_scope.

Lemma buf_read_sub : forall b p n Zd k, buf_read b p n = Some Zd -> 0 <= k <= n ->
  buf_read b p k = Some (firstn (Z.to_nat k) Zd) /\ buf_read b (p + k) (n - k) = Some (skipn (Z.to_nat k) Zd).
Proof.
  intros b p n Zd k H Hk. apply buf_read_inv in H. destruct H as (H1 & H2 & H3 & ->).
  split.
  - rewrite buf_read_ok by lia. rewrite firstn_firstn_z by lia. reflexivity.
  - rewrite buf_read_ok by lia. f_equal.
    replace (p + k) with (k + p) by lia. rewrite <- (skipn_skipn_z _ k p) by lia.
    rewrite (firstn_skipn_comm_z _ (n - k) k) by lia. replace (k + (n - k)) with n by lia. reflexivity.
Qed.

(* ---------------- hybiReturnData ---------------- *)
Lemma return_data_ok : forall w len Zd,
  1 <= len -> w_readlen w = zlen Zd ->
  (0 < zlen Zd -> buf_read (w_buf w) (w_rpos w) (zlen Zd) = Some Zd) ->
  (zlen Zd = 0 /\ return_data len w = RDRet (w_st w) (-1) (Some EAGAIN) [] w) \/
  (0 < zlen Zd <= len /\
     return_data len w = RDRet (if remaining w =? 0 then ST_FRAME_COMPLETE else ST_DATA_NEEDED) (zlen Zd) None Zd
                               (set_rpos (set_readlen w 0) (-1))) \/
  (len < zlen Zd /\
     return_data len w = RDRet ST_DATA_AVAILABLE len None (firstn (Z.to_nat len) Zd)
                               (set_rpos (set_readlen w (zlen Zd - len)) (w_rpos w + len)) /\
     buf_read (w_buf w) (w_rpos w + len) (zlen Zd - len) = Some (skipn (Z.to_nat len) Zd)).
Proof.
  intros w len Zd Hlen Hrl Hbuf. pose proof (zlen_nonneg _ Zd) as H0. unfold return_data. rewrite Hrl.
  destruct (zlen Zd >? 0) eqn:E0.
  - specialize (Hbuf ltac:(lia)).
    destruct (zlen Zd >? len) eqn:E1.
    + right. right. destruct (buf_read_sub _ _ _ _ len Hbuf ltac:(lia)) as [R1 R2].
      rewrite R1. split; [lia|]. split; [reflexivity|exact R2].
    + right. left. rewrite Hbuf. split; [lia|reflexivity].
  - left. split; [lia|reflexivity].
Qed.

(* ---------------- frame-level fields that survive until the frame is finished ---------------- *)
Definition FS (w : ws) (cont : option bool) (c : cframe) (q : Z) : Prop :=
  zlen (w_buf w) = ws_buf_size /\ h_plen (w_hd w) = zlen (cf_wire cont c) /\
  h_opcode (w_hd w) = cf_eop cont c /\ h_fin (w_hd w) = (if cf_fin c then 1 else 0) /\
  w_nrp w = q /\ 0 <= q <= zlen (cf_wire cont c) /\ w_contop w = cf_contmid cont c.

Lemma PS_FS : forall w cont c q, PS w cont c q -> FS w cont c q.
Proof. intros w cont c q H. unfold PS in H. cbv zeta in H. unfold FS. tauto. Qed.

(* between two frames *)
Definition BD (w : ws) (cont : option bool) : Prop :=
  w_st w = ST_HEADER_PENDING /\ h_nread (w_hd w) = 0 /\ w_readlen w = 0 /\ w_carry w = [] /\
  w_contop w = contop_of cont /\ zlen (w_buf w) = ws_buf_size.

Lemma eop_not_control : forall cont c cs, conv_valid cont (c :: cs) = true ->
  is_control (cf_eop cont c) = negb (cf_isdata c).
Proof.
  intros cont c cs H. apply conv_valid_cons in H. destruct H as (_ & _ & _ & _ & Hc).
  destruct c as [[|] f m d | f m d | [|] m pl]; try reflexivity.
  destruct cont as [[|]|]; try reflexivity. congruence.
Qed.

(* spor after the last byte of frame c has been handed out *)
Lemma spor_complete : forall w cont c cs q, FS w cont c q -> conv_valid cont (c :: cs) = true ->
  BD (spor (set_st w ST_FRAME_COMPLETE)) (cf_next cont c).
Proof.
  intros w cont c cs q (Hb & Hpl & Hop & Hfin & Hnrp & Hq & Hco) Hv.
  unfold spor. cbn [w_st set_st w_hd]. change (ST_FRAME_COMPLETE =? ST_FRAME_COMPLETE) with true. cbv iota.
  rewrite Hop, Hfin. rewrite (eop_not_control _ _ _ Hv). rewrite negb_involutive.
  pose proof (conv_valid_cons _ _ _ Hv) as (_ & _ & _ & _ & Hc).
  unfold BD. destruct c as [t [|] m d | [|] m d | p m pl]; cbn [cf_fin cf_isdata andb negb];
    try change (1 =? 0) with false; try change (0 =? 0) with true; cbn [negb andb];
    unfold cleanup_complete, cleanup_cont, cleanup_basics;
    cbn [w_st w_hd h_nread w_readlen w_carry w_contop w_buf set_contop cf_next];
    cbn [cf_contmid] in Hco; repeat split; try reflexivity; try assumption.
Qed.

(* ---------------- the state after a decode call, relative to frame c ---------------- *)
Definition AS (w : ws) (cont : option bool) (c : cframe) (q : Z) (pend : list Z) : Prop :=
  w_st w = ST_DATA_AVAILABLE /\ w_readlen w = zlen pend /\ 0 < zlen pend /\
  buf_read (w_buf w) (w_rpos w) (zlen pend) = Some pend /\ FS w cont c q /\
  (q < zlen (cf_wire cont c) -> PS w cont c q) /\ (q = zlen (cf_wire cont c) -> w_carry w = []).

Inductive FR (cont : option bool) (c : cframe) (tail : list Z) : ws -> io -> list Z -> Prop :=
| FR_pay : forall w i q,
    w_st w = ST_DATA_NEEDED -> PS w cont c q -> w_readlen w = 0 -> q < zlen (cf_wire cont c) ->
    io_stream i = skipn (Z.to_nat q) (wire cont c) ++ tail ->
    FR cont c tail w i (rest_data cont c (q - zlen (w_carry w)))
| FR_avl : forall w i q pend,
    AS w cont c q pend -> io_stream i = skipn (Z.to_nat q) (wire cont c) ++ tail ->
    FR cont c tail w i (pend ++ rest_data cont c (q - zlen (w_carry w)))
| FR_done : forall w i,
    BD w (cf_next cont c) -> io_stream i = tail -> FR cont c tail w i [].

(* what one decode call inside frame c achieves *)
Definition frame_step (cont : option bool) (c : cframe) (tail : list Z) (before : list Z) (o : outcome) : Prop :=
  exists ret e dout w' i' log' rem',
    o = ORet ret e dout w' i' log' /\ call_ok (CRet ret e dout) = true /\
    sched_live (io_sched i') = true /\ FR cont c tail w' i' rem' /\ before = dout ++ rem'.

Lemma call_ok_again : call_ok (CRet (-1) (Some EAGAIN) []) = true.
Proof. reflexivity. Qed.
Lemma call_ok_data : forall d, 0 < zlen d -> call_ok (CRet (zlen d) None d) = true.
Proof. intros d H. unfold call_ok. destruct (0 <? zlen d) eqn:E; [|lia]. rewrite Z.eqb_refl. reflexivity. Qed.
