(* C09 - decoder proofs, part 1: ghost definitions (what the decoder state means in terms of
   the conversation), reader lemmas, header wire format. *)
From Coq Require Import ZArith List Bool Lia.
From LV Require Import Ws.WsDefs Ws.Base64Defs Ws.WsSpecDefs Ws.WsDecoderModel Ws.WsTransparency
  Ws.WsListProofs Ws.Base64Proofs Gen.Consts_C09.
Import ListNotations.
Local Open Scope Z_scope.

Ltac consts := unfold HL_SHORT, HL_EXT, HL_LONG, ws_buf_size, ws_carry_size, ST_HEADER_PENDING,
  ST_DATA_AVAILABLE, ST_DATA_NEEDED, ST_FRAME_COMPLETE, ST_CLOSE_REASON_PENDING, ST_ERR,
  OP_CONT, OP_TEXT, OP_BIN, OP_CLOSE, OP_PING, OP_PONG, OP_INVALID, two64, two32, two31 in *.

(* ---------------- conversions ---------------- *)
Lemma to_u64_id : forall n, 0 <= n < two64 -> to_u64 n = n.
Proof. intros. unfold to_u64. apply Z.mod_small. assumption. Qed.
Lemma to_int_id : forall n, 0 <= n < two31 -> to_int n = n.
Proof.
  intros n H. unfold to_int. unfold two31, two32 in *. rewrite Z.mod_small by lia.
  destruct (n <? 2147483648) eqn:E; lia.
Qed.

(* ---------------- reader ---------------- *)
Lemma sched_live_tail : forall e s, sched_live (e :: s) = true -> sched_live s = true.
Proof. intros e s H. unfold sched_live in *. cbn in H. apply andb_true_iff in H. tauto. Qed.

(* the next scheduled event makes at least one byte available *)
Definition avail_head (i : io) : bool :=
  match io_sched i with RAvail k :: _ => 1 <=? k | _ => false end.

Lemma reader_live : forall n i, sched_live (io_sched i) = true -> 0 < n ->
  exists r i' tag, reader n i = (r, i', tag) /\ sched_live (io_sched i') = true /\
  io_sched i' = tl (io_sched i) /\
  ((r = RRAgain /\ io_stream i' = io_stream i /\ (avail_head i = true -> io_stream i = [])) \/
   (exists m, 0 < m /\ m <= n /\ m <= zlen (io_stream i) /\
      r = RRData (firstn (Z.to_nat m) (io_stream i)) /\ io_stream i' = skipn (Z.to_nat m) (io_stream i))).
Proof.
  intros n [s sc] Hl Hn. cbn [io_sched io_stream] in *. unfold reader, avail_head. cbn [io_sched io_stream].
  destruct sc as [|e sc'].
  - do 3 eexists. split; [reflexivity|]. split; [assumption|]. split; [reflexivity|]. left. repeat split. discriminate.
  - pose proof (sched_live_tail _ _ Hl) as Hl'. destruct e; cbn in Hl; try discriminate.
    + set (nret := Z.min (Z.max k 0) (Z.min (zlen s) n)).
      destruct (nret <=? 0) eqn:E.
      * destruct (n =? 0) eqn:E0; [lia|]. do 3 eexists. split; [reflexivity|]. cbn [io_sched io_stream tl].
        split; [assumption|]. split; [reflexivity|]. left. repeat split.
        intro Hk. apply Z.leb_le in Hk. apply zlen_0_nil. pose proof (zlen_nonneg _ s). subst nret. lia.
      * do 3 eexists. split; [reflexivity|]. cbn [io_sched io_stream tl]. split; [assumption|]. split; [reflexivity|]. right.
        exists nret. subst nret. repeat split; try lia.
    + do 3 eexists. split; [reflexivity|]. cbn [io_sched io_stream tl]. split; [assumption|]. split; [reflexivity|].
      left. repeat split. discriminate.
Qed.

(* ---------------- ghost view of a conversation frame ---------------- *)
Definition contop_of (cont : option bool) : Z :=
  match cont with None => OP_INVALID | Some true => OP_TEXT | Some false => OP_BIN end.

Definition cf_text (cont : option bool) (c : cframe) : bool :=
  match c with
  | CData t _ _ _ => t
  | CCont _ _ _ => match cont with Some t => t | None => false end
  | CCtl _ _ _ => false
  end.
Definition cf_fin (c : cframe) : bool :=
  match c with CData _ f _ _ => f | CCont f _ _ => f | CCtl _ _ _ => true end.
Definition cf_mask (c : cframe) : mask :=
  match c with CData _ _ m _ => m | CCont _ m _ => m | CCtl _ m _ => m end.
Definition cf_op (c : cframe) : Z :=
  match c with
  | CData t _ _ _ => if t then OP_TEXT else OP_BIN
  | CCont _ _ _ => OP_CONT
  | CCtl pong _ _ => if pong then OP_PONG else OP_PING
  end.
Definition cf_eop (cont : option bool) (c : cframe) : Z :=
  match c with
  | CData t _ _ _ => if t then OP_TEXT else OP_BIN
  | CCont _ _ _ => contop_of cont
  | CCtl pong _ _ => if pong then OP_PONG else OP_PING
  end.
Definition cf_isdata (c : cframe) : bool := match c with CCtl _ _ _ => false | _ => true end.
Definition cf_data (c : cframe) : list Z :=
  match c with CData _ _ _ d => d | CCont _ _ d => d | CCtl _ _ _ => [] end.
Definition cf_wire (cont : option bool) (c : cframe) : list Z :=
  match c with
  | CData t _ _ d => wire_payload t d
  | CCont _ _ d => wire_payload (cf_text cont c) d
  | CCtl _ _ p => p
  end.
Definition cf_next (cont : option bool) (c : cframe) : option bool :=
  match c with
  | CData t f _ _ => if f then None else Some t
  | CCont f _ _ => if f then None else cont
  | CCtl _ _ _ => cont
  end.
(* continuation_opcode once the first two header bytes have been interpreted *)
Definition cf_contmid (cont : option bool) (c : cframe) : Z :=
  match c with
  | CData t f _ _ => if f then OP_INVALID else (if t then OP_TEXT else OP_BIN)
  | _ => contop_of cont
  end.

Lemma conv_frames_cons : forall cont c cs,
  conv_frames cont (c :: cs) =
  mkFrame (cf_fin c) (cf_op c) true (cf_mask c) (cf_wire cont c) :: conv_frames (cf_next cont c) cs.
Proof. intros cont c cs. destruct c; reflexivity. Qed.

Lemma conv_expected_cons : forall c cs, conv_expected (c :: cs) = cf_data c ++ conv_expected cs.
Proof. intros c cs. destruct c; reflexivity. Qed.

Lemma conv_valid_cons : forall cont c cs, conv_valid cont (c :: cs) = true ->
  mask_ok (cf_mask c) = true /\ bytes_ok (cf_data c) = true /\ zlen (cf_data c) < two31 /\
  conv_valid (cf_next cont c) cs = true /\
  match c with
  | CData _ _ _ _ => cont = None
  | CCont _ _ _ => cont <> None
  | CCtl _ _ p => bytes_ok p = true /\ zlen p <= 125
  end.
Proof.
  intros cont c cs H. destruct c; cbn in H.
  - destruct cont; [discriminate|]. repeat rewrite andb_true_iff in H. destruct H as [[[H1 H2] H3] H4].
    apply Z.ltb_lt in H3. cbn. repeat split; assumption.
  - destruct cont; [|discriminate]. repeat rewrite andb_true_iff in H. destruct H as [[[H1 H2] H3] H4].
    apply Z.ltb_lt in H3. cbn. repeat split; try assumption. discriminate.
  - repeat rewrite andb_true_iff in H. destruct H as [[[H1 H2] H3] H4]. apply Z.leb_le in H3.
    cbn. repeat split; try assumption.
Qed.

(* ---------------- explicit header bytes ---------------- *)
Definition hlen_of (L : Z) : Z := if L <? 126 then 6 else if L <? 65536 then 8 else 14.

Definition hdr_bytes (fin : bool) (op : Z) (m : mask) (L : Z) : list Z :=
  let b0 := (if fin then 128 else 0) + op in
  let '(m0, m1, m2, m3) := m in
  if L <? 126 then [b0; 128 + L; m0; m1; m2; m3]
  else if L <? 65536 then b0 :: 254 :: be_bytes 2 L ++ [m0; m1; m2; m3]
  else b0 :: 255 :: be_bytes 8 L ++ [m0; m1; m2; m3].

Lemma be_bytes_length : forall n v, length (be_bytes n v) = n.
Proof. induction n; intro v; [reflexivity|]. cbn [be_bytes]. rewrite app_length, IHn. cbn. lia. Qed.

Lemma hdr_bytes_len : forall fin op m L, zlen (hdr_bytes fin op m L) = hlen_of L.
Proof.
  intros fin op [[[m0 m1] m2] m3] L. unfold hdr_bytes, hlen_of.
  destruct (L <? 126); [reflexivity|]. destruct (L <? 65536); unfold zlen; cbn [length];
  rewrite app_length, be_bytes_length; reflexivity.
Qed.

Lemma frame_header_hdr_bytes : forall fin op m P,
  frame_header (mkFrame fin op true m P) = hdr_bytes fin op m (zlen P).
Proof.
  intros fin op [[[m0 m1] m2] m3] P. unfold frame_header, hdr_bytes, len_field. cbn [f_payload f_fin f_op f_masked f_mask mask_list].
  destruct (zlen P <? 126); [reflexivity|]. destruct (zlen P <? 65536); reflexivity.
Qed.

Lemma encode_frame_masked : forall fin op m P,
  encode_frame (mkFrame fin op true m P) = hdr_bytes fin op m (zlen P) ++ xmask m 0 P.
Proof. intros. unfold encode_frame. rewrite frame_header_hdr_bytes. reflexivity. Qed.

Lemma be_val_app : forall a b acc, be_val (a ++ b) acc = be_val b (be_val a acc).
Proof. induction a; intros; [reflexivity|]. cbn. apply IHa. Qed.

Lemma be_val_be_bytes : forall n v acc, 0 <= v ->
  be_val (be_bytes n v) acc = acc * 256 ^ (Z.of_nat n) + v mod 256 ^ (Z.of_nat n).
Proof.
  induction n; intros v acc Hv.
  - cbn. rewrite Z.mod_1_r. lia.
  - cbn [be_bytes]. rewrite be_val_app. rewrite IHn by (apply Z.div_pos; lia). cbn [be_val].
    rewrite Nat2Z.inj_succ, Z.pow_succ_r by lia.
    set (p := 256 ^ Z.of_nat n). assert (0 < p) by (subst p; apply Z.pow_pos_nonneg; lia).
    rewrite Z.rem_mul_r by lia. lia.
Qed.

Lemma be_val_2 : forall L, 0 <= L < 65536 -> be_val (be_bytes 2 L) 0 = L.
Proof. intros. rewrite be_val_be_bytes by lia. change (256 ^ Z.of_nat 2) with 65536. rewrite Z.mod_small; lia. Qed.
Lemma be_val_8 : forall L, 0 <= L < two64 -> be_val (be_bytes 8 L) 0 = L.
Proof. intros. rewrite be_val_be_bytes by lia. change (256 ^ Z.of_nat 8) with two64. rewrite Z.mod_small; lia. Qed.

(* the wire payload of a valid conversation frame is short enough for every conversion *)
Lemma b64_text_is_enc : forall d, bytes_ok d = true -> b64_text d = b64_enc d.
Proof.
  intros d H. unfold b64_text. rewrite b64_ntop_enc; [reflexivity|assumption|].
  rewrite enc_length. pose proof (zlen_nonneg _ d). Z.div_mod_to_equations. lia.
Qed.

Lemma cf_wire_len : forall cont c cs, conv_valid cont (c :: cs) = true -> 0 <= zlen (cf_wire cont c) < two32.
Proof.
  intros cont c cs H. apply conv_valid_cons in H. destruct H as (_ & Hb & Hl & _ & Hc).
  assert (forall t d, bytes_ok d = true -> zlen d < two31 -> 0 <= zlen (wire_payload t d) < two32) as G.
  { intros t d Hd Hlen. pose proof (zlen_nonneg _ d). destruct t; cbn [wire_payload].
    - rewrite b64_text_is_enc by assumption. rewrite enc_length. unfold two31, two32 in *.
      Z.div_mod_to_equations. lia.
    - unfold two31, two32 in *. lia. }
  destruct c; cbn [cf_wire cf_data] in *; try (apply G; assumption).
  destruct Hc as [_ Hc]. pose proof (zlen_nonneg _ payload). unfold two32. lia.
Qed.
