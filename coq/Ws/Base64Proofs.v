(* C09 - proofs about the base64 mirror (Base64Defs.v): encoder = pure grouping function,
   decoder inverts it (for every byte string), encodings split at 3-byte / 4-character groups. *)
From Coq Require Import ZArith List Bool Lia.
From LV Require Import Ws.WsDefs Ws.Base64Defs Gen.Strs_C09.
Import ListNotations.
Local Open Scope Z_scope.

(* ---------- finite sweeps lifted to quantified statements ---------- *)
Definition zrange (n : nat) : list Z := map Z.of_nat (seq 0 n).

Lemma zrange_in : forall n x, 0 <= x < Z.of_nat n -> In x (zrange n).
Proof.
  intros n x H. unfold zrange. apply in_map_iff. exists (Z.to_nat x). split; [lia|].
  apply in_seq. lia.
Qed.

Lemma sweep1 : forall (P : Z -> bool) n,
  forallb P (zrange n) = true -> forall x, 0 <= x < Z.of_nat n -> P x = true.
Proof. intros P n H x Hx. rewrite forallb_forall in H. apply H, zrange_in, Hx. Qed.

Lemma sweep2 : forall (P : Z -> Z -> bool) n m,
  forallb (fun x => forallb (P x) (zrange m)) (zrange n) = true ->
  forall x y, 0 <= x < Z.of_nat n -> 0 <= y < Z.of_nat m -> P x y = true.
Proof.
  intros P n m H x y Hx Hy. pose proof (sweep1 _ _ H x Hx) as H1. cbv beta in H1.
  exact (sweep1 _ _ H1 y Hy).
Qed.

Lemma byte_ok_range : forall b, byte_ok b = true <-> 0 <= b < 256.
Proof. intro b. unfold byte_ok. rewrite andb_true_iff, Z.leb_le, Z.ltb_lt. reflexivity. Qed.

(* ---------- facts about the (regenerated) alphabet ---------- *)
Definition enc_char (v : Z) : Z := match b64_char v with Some c => c | None => 0 end.

Definition good_char (c v : Z) : Prop :=
  c <> 0 /\ is_space c = false /\ (c =? b64_pad) = false /\ b64_pos c = Some v.

Definition alphabet_check (v : Z) : bool :=
  match b64_char v with
  | Some c => negb (c =? 0) && negb (is_space c) && negb (c =? b64_pad) &&
              match b64_pos c with Some p => p =? v | None => false end
  | None => false
  end.

Lemma alphabet_sweep : forallb alphabet_check (zrange 64) = true.
Proof. vm_compute. reflexivity. Qed.

Lemma alphabet_good : forall v, 0 <= v < 64 -> b64_char v = Some (enc_char v) /\ good_char (enc_char v) v.
Proof.
  intros v Hv. pose proof (sweep1 _ _ alphabet_sweep v Hv) as H. unfold alphabet_check in H.
  unfold enc_char, good_char. destruct (b64_char v) as [c|]; [|discriminate].
  repeat rewrite andb_true_iff in H. destruct H as [[[H0 H1] H2] H3].
  rewrite negb_true_iff in H0, H1, H2. split; [reflexivity|]. repeat split; try assumption.
  - intro Hc. subst c. discriminate.
  - destruct (b64_pos c) as [p|]; [|discriminate]. apply Z.eqb_eq in H3. subst. reflexivity.
Qed.

Lemma pad_facts : b64_pad <> 0 /\ is_space b64_pad = false.
Proof. vm_compute. split; [discriminate|reflexivity]. Qed.

(* ---------- arithmetic of sextets, by exhaustive sweeps over bytes ---------- *)
Definition nb1 (i0 i1 : Z) : Z := u8 (Z.shiftl (Z.land (sext1 i0 i1) 15) 4).
Definition nb2 (i1 i2 : Z) : Z := u8 (Z.shiftl (Z.land (sext2 i1 i2) 3) 6).

Definition chk_a (i0 i1 : Z) : bool :=
  (sext0 i0 <? 64) && (0 <=? sext0 i0) && (sext1 i0 i1 <? 64) && (0 <=? sext1 i0 i1) &&
  (Z.lor (u8 (Z.shiftl (sext0 i0) 2)) (Z.shiftr (sext1 i0 i1) 4) =? i0) &&
  (nb1 i0 i1 =? nb1 0 i1).
Definition chk_b (i1 i2 : Z) : bool :=
  (sext2 i1 i2 <? 64) && (0 <=? sext2 i1 i2) && (sext3 i2 <? 64) && (0 <=? sext3 i2) &&
  (Z.lor (nb1 0 i1) (Z.shiftr (sext2 i1 i2) 2) =? i1) &&
  (nb2 i1 i2 =? nb2 0 i2) && (Z.lor (nb2 0 i2) (sext3 i2) =? i2).

Lemma sweep_a : forallb (fun x => forallb (chk_a x) (zrange 256)) (zrange 256) = true.
Proof. vm_compute. reflexivity. Qed.
Lemma sweep_b : forallb (fun x => forallb (chk_b x) (zrange 256)) (zrange 256) = true.
Proof. vm_compute. reflexivity. Qed.

Lemma facts_a : forall i0 i1, 0 <= i0 < 256 -> 0 <= i1 < 256 ->
  0 <= sext0 i0 < 64 /\ 0 <= sext1 i0 i1 < 64 /\
  Z.lor (u8 (Z.shiftl (sext0 i0) 2)) (Z.shiftr (sext1 i0 i1) 4) = i0 /\ nb1 i0 i1 = nb1 0 i1.
Proof.
  intros i0 i1 H0 H1. pose proof (sweep2 _ _ _ sweep_a i0 i1 H0 H1) as H. unfold chk_a in H.
  repeat rewrite andb_true_iff in H. repeat match goal with H : _ /\ _ |- _ => destruct H end.
  repeat match goal with
  | H : (_ <? _) = true |- _ => apply Z.ltb_lt in H
  | H : (_ <=? _) = true |- _ => apply Z.leb_le in H
  | H : (_ =? _) = true |- _ => apply Z.eqb_eq in H end.
  repeat split; assumption.
Qed.

Lemma facts_b : forall i1 i2, 0 <= i1 < 256 -> 0 <= i2 < 256 ->
  0 <= sext2 i1 i2 < 64 /\ 0 <= sext3 i2 < 64 /\
  Z.lor (nb1 0 i1) (Z.shiftr (sext2 i1 i2) 2) = i1 /\ nb2 i1 i2 = nb2 0 i2 /\
  Z.lor (nb2 0 i2) (sext3 i2) = i2.
Proof.
  intros i1 i2 H1 H2. pose proof (sweep2 _ _ _ sweep_b i1 i2 H1 H2) as H. unfold chk_b in H.
  repeat rewrite andb_true_iff in H. repeat match goal with H : _ /\ _ |- _ => destruct H end.
  repeat match goal with
  | H : (_ <? _) = true |- _ => apply Z.ltb_lt in H
  | H : (_ <=? _) = true |- _ => apply Z.leb_le in H
  | H : (_ =? _) = true |- _ => apply Z.eqb_eq in H end.
  repeat split; assumption.
Qed.

Lemma nb_zero : nb1 0 0 = 0 /\ nb2 0 0 = 0.
Proof. vm_compute. split; reflexivity. Qed.

(* ---------- the pure encoding function ---------- *)
Fixpoint b64_enc (d : list Z) : list Z :=
  match d with
  | i0 :: i1 :: i2 :: r =>
      enc_char (sext0 i0) :: enc_char (sext1 i0 i1) :: enc_char (sext2 i1 i2) :: enc_char (sext3 i2) :: b64_enc r
  | [] => []
  | [i0] => [enc_char (sext0 i0); enc_char (sext1 i0 0); b64_pad; b64_pad]
  | [i0; i1] => [enc_char (sext0 i0); enc_char (sext1 i0 i1); enc_char (sext2 i1 0); b64_pad]
  end.

(* induction three elements at a time *)
Lemma list_ind3 : forall (P : list Z -> Prop),
  P [] -> (forall a, P [a]) -> (forall a b, P [a; b]) ->
  (forall a b c r, P r -> P (a :: b :: c :: r)) -> forall l, P l.
Proof.
  intros P H0 H1 H2 H3.
  assert (forall n l, (length l <= n)%nat -> P l) as G.
  { induction n as [|n IH]; intros l Hl.
    - destruct l; [exact H0|simpl in Hl; lia].
    - destruct l as [|a [|b [|c r]]]; auto. apply H3. apply IH. simpl in Hl. lia. }
  intro l. apply (G (length l)). lia.
Qed.

Lemma bytes_ok_cons : forall a l, bytes_ok (a :: l) = true <-> 0 <= a < 256 /\ bytes_ok l = true.
Proof. intros. unfold bytes_ok. simpl. rewrite andb_true_iff, byte_ok_range. reflexivity. Qed.

Lemma enc_length : forall d, zlen (b64_enc d) = 4 * ((zlen d + 2) / 3).
Proof.
  induction d as [| a | a b | a b c r IH] using list_ind3; try reflexivity.
  unfold zlen in *. cbn [b64_enc length]. rewrite !Nat2Z.inj_succ. rewrite IH.
  replace (Z.succ (Z.succ (Z.succ (Z.of_nat (length r)))) + 2) with ((Z.of_nat (length r) + 2) + 1 * 3) by lia.
  rewrite Z.div_add by lia. lia.
Qed.

(* the C encoder computes b64_enc whenever the target is large enough *)
Lemma ntop_go_enc : forall d dl ts, bytes_ok d = true -> dl + zlen (b64_enc d) < ts ->
  ntop_go d dl ts = Some (b64_enc d).
Proof.
  induction d as [| a | a b | a b c r IH] using list_ind3; intros dl ts Hb Hts.
  - cbn in *. destruct (dl >=? ts) eqn:E; [lia|reflexivity].
  - apply bytes_ok_cons in Hb. destruct Hb as [Ha _].
    destruct (facts_a a 0 Ha ltac:(lia)) as (R0 & R1 & _).
    destruct (alphabet_good _ R0) as [E0 _]. destruct (alphabet_good _ R1) as [E1 _].
    unfold zlen in Hts. cbn [b64_enc length] in Hts. cbn [ntop_go b64_enc].
    destruct (dl + 4 >? ts) eqn:E; [lia|]. destruct (dl + 4 >=? ts) eqn:E'; [lia|].
    rewrite E0, E1. reflexivity.
  - apply bytes_ok_cons in Hb. destruct Hb as [Ha Hb]. apply bytes_ok_cons in Hb. destruct Hb as [Hb _].
    destruct (facts_a a b Ha Hb) as (R0 & R1 & _). destruct (facts_b b 0 Hb ltac:(lia)) as (R2 & _).
    destruct (alphabet_good _ R0) as [E0 _]. destruct (alphabet_good _ R1) as [E1 _].
    destruct (alphabet_good _ R2) as [E2 _].
    unfold zlen in Hts. cbn [b64_enc length] in Hts. cbn [ntop_go b64_enc].
    destruct (dl + 4 >? ts) eqn:E; [lia|]. destruct (dl + 4 >=? ts) eqn:E'; [lia|].
    rewrite E0, E1, E2. reflexivity.
  - apply bytes_ok_cons in Hb. destruct Hb as [Ha Hb]. apply bytes_ok_cons in Hb. destruct Hb as [Hb Hc].
    apply bytes_ok_cons in Hc. destruct Hc as [Hc Hr].
    destruct (facts_a a b Ha Hb) as (R0 & R1 & _). destruct (facts_b b c Hb Hc) as (R2 & R3 & _).
    destruct (alphabet_good _ R0) as [E0 _]. destruct (alphabet_good _ R1) as [E1 _].
    destruct (alphabet_good _ R2) as [E2 _]. destruct (alphabet_good _ R3) as [E3 _].
    assert (zlen (b64_enc (a :: b :: c :: r)) = 4 + zlen (b64_enc r)) as HL.
    { unfold zlen. cbn [b64_enc length]. lia. }
    rewrite HL in Hts. cbn [ntop_go b64_enc].
    assert (0 <= zlen (b64_enc r)) by (unfold zlen; lia).
    destruct (dl + 4 >? ts) eqn:E; [lia|].
    rewrite E0, E1, E2, E3. rewrite (IH (dl + 4) ts Hr) by lia. reflexivity.
Qed.

Lemma b64_ntop_enc : forall d ts, bytes_ok d = true -> zlen (b64_enc d) < ts -> b64_ntop d ts = Some (b64_enc d).
Proof. intros. unfold b64_ntop. apply ntop_go_enc; [assumption|lia]. Qed.

(* ---------- one decoder step per character ---------- *)
Lemma pton_step0 : forall c v r ti ts out cur, good_char c v -> ti < ts ->
  pton_loop (c :: r) 0 ti ts out cur = pton_loop r 1 ti ts out (u8 (Z.shiftl v 2)).
Proof.
  intros c v r ti ts out cur (_ & Hs & Hp & Hpos) Hti. cbn [pton_loop]. rewrite Hs, Hp, Hpos.
  change (0 =? 0) with true. cbv iota. destruct (ti >=? ts) eqn:E; [lia|reflexivity].
Qed.

Lemma pton_step1 : forall c v r ti ts out cur, good_char c v -> ti + 1 < ts ->
  pton_loop (c :: r) 1 ti ts out cur =
  pton_loop r 2 (ti + 1) ts (Z.lor cur (Z.shiftr v 4) :: out) (u8 (Z.shiftl (Z.land v 15) 4)).
Proof.
  intros c v r ti ts out cur (_ & Hs & Hp & Hpos) Hti. cbn [pton_loop]. rewrite Hs, Hp, Hpos.
  change (1 =? 0) with false. change (1 =? 1) with true. cbv iota.
  destruct (ti >=? ts) eqn:E; [lia|]. destruct (ti + 1 <? ts) eqn:E'; [reflexivity|lia].
Qed.

Lemma pton_step2 : forall c v r ti ts out cur, good_char c v -> ti + 1 < ts ->
  pton_loop (c :: r) 2 ti ts out cur =
  pton_loop r 3 (ti + 1) ts (Z.lor cur (Z.shiftr v 2) :: out) (u8 (Z.shiftl (Z.land v 3) 6)).
Proof.
  intros c v r ti ts out cur (_ & Hs & Hp & Hpos) Hti. cbn [pton_loop]. rewrite Hs, Hp, Hpos.
  change (2 =? 0) with false. change (2 =? 1) with false. change (2 =? 2) with true. cbv iota.
  destruct (ti >=? ts) eqn:E; [lia|]. destruct (ti + 1 <? ts) eqn:E'; [reflexivity|lia].
Qed.

Lemma pton_step3 : forall c v r ti ts out cur, good_char c v -> ti < ts ->
  pton_loop (c :: r) 3 ti ts out cur = pton_loop r 0 (ti + 1) ts (Z.lor cur v :: out) 0.
Proof.
  intros c v r ti ts out cur (_ & Hs & Hp & Hpos) Hti. cbn [pton_loop]. rewrite Hs, Hp, Hpos.
  change (3 =? 0) with false. change (3 =? 1) with false. change (3 =? 2) with false. cbv iota.
  destruct (ti >=? ts) eqn:E; [lia|reflexivity].
Qed.

(* a full group of four characters yields the three bytes it encodes *)
Lemma pton_group : forall a b c r ti ts out cur,
  0 <= a < 256 -> 0 <= b < 256 -> 0 <= c < 256 -> ti + 3 < ts ->
  pton_loop (enc_char (sext0 a) :: enc_char (sext1 a b) :: enc_char (sext2 b c) :: enc_char (sext3 c) :: r)
            0 ti ts out cur =
  pton_loop r 0 (ti + 3) ts (c :: b :: a :: out) 0.
Proof.
  intros a b c r ti ts out cur Ha Hb Hc Hti.
  destruct (facts_a a b Ha Hb) as (R0 & R1 & F0 & F1). destruct (facts_b b c Hb Hc) as (R2 & R3 & F2 & F3 & F4).
  destruct (alphabet_good _ R0) as [_ G0]. destruct (alphabet_good _ R1) as [_ G1].
  destruct (alphabet_good _ R2) as [_ G2]. destruct (alphabet_good _ R3) as [_ G3].
  rewrite (pton_step0 _ _ _ _ _ _ _ G0) by lia.
  rewrite (pton_step1 _ _ _ _ _ _ _ G1) by lia.
  rewrite (pton_step2 _ _ _ _ _ _ _ G2) by lia.
  rewrite (pton_step3 _ _ _ _ _ _ _ G3) by lia.
  rewrite F0. fold (nb1 a b). rewrite F1, F2. fold (nb2 b c). rewrite F3, F4.
  replace (ti + 1 + 1 + 1) with (ti + 3) by lia. reflexivity.
Qed.

(* whole groups followed by anything *)
Lemma pton_loop_groups : forall g tail ti ts out,
  bytes_ok g = true -> (zlen g) mod 3 = 0 -> ti + zlen g < ts ->
  pton_loop (b64_enc g ++ tail) 0 ti ts out 0 = pton_loop tail 0 (ti + zlen g) ts (rev g ++ out) 0.
Proof.
  induction g as [| a | a b | a b c r IH] using list_ind3; intros tail ti ts out Hb Hm Hts.
  - cbn. rewrite Z.add_0_r. reflexivity.
  - cbn in Hm. discriminate.
  - cbn in Hm. discriminate.
  - apply bytes_ok_cons in Hb. destruct Hb as [Ha Hb]. apply bytes_ok_cons in Hb. destruct Hb as [Hb Hc].
    apply bytes_ok_cons in Hc. destruct Hc as [Hc Hr].
    assert (zlen (a :: b :: c :: r) = 3 + zlen r) as HL by (unfold zlen; cbn [length]; lia).
    rewrite HL in *. assert (0 <= zlen r) by (unfold zlen; lia).
    cbn [b64_enc app]. rewrite pton_group by (try assumption; lia).
    rewrite IH; try assumption; try lia.
    + replace (ti + 3 + zlen r) with (ti + (3 + zlen r)) by lia.
      cbn [rev]. rewrite <- !app_assoc. reflexivity.
    + replace (3 + zlen r) with (zlen r + 1 * 3) in Hm by lia. rewrite Z.mod_add in Hm by lia. exact Hm.
Qed.

Lemma skip_spaces_nil : skip_spaces [] = [].
Proof. reflexivity. Qed.

(* decoding the loop over a complete encoding *)
Lemma pton_full : forall d ti ts out,
  bytes_ok d = true -> ti + zlen d < ts ->
  match pton_loop (b64_enc d) 0 ti ts out 0 with
  | PErr => False
  | PEnd state ti' out' cur => state = 0 /\ out' = rev d ++ out
  | PPad rest state ti' out' cur => pton_finish_pad rest state ti' ts out' cur = Some (rev (rev d ++ out))
  end.
Proof.
  induction d as [| a | a b | a b c r IH] using list_ind3; intros ti ts out Hb Hts.
  - cbn. split; reflexivity.
  - apply bytes_ok_cons in Hb. destruct Hb as [Ha _].
    destruct (facts_a a 0 Ha ltac:(lia)) as (R0 & R1 & F0 & F1).
    destruct (alphabet_good _ R0) as [_ G0]. destruct (alphabet_good _ R1) as [_ G1].
    unfold zlen in Hts. cbn [length] in Hts. cbn [b64_enc].
    rewrite (pton_step0 _ _ _ _ _ _ _ G0) by lia. rewrite (pton_step1 _ _ _ _ _ _ _ G1) by lia.
    cbn [pton_loop]. destruct pad_facts as [Pn Ps]. rewrite Ps. rewrite Z.eqb_refl.
    unfold pton_finish_pad. change (2 =? 0) with false. change (2 =? 1) with false. change (2 =? 2) with true.
    cbv iota. cbn [orb]. cbn [skip_spaces]. rewrite Ps. rewrite Z.eqb_refl. cbn [skip_spaces].
    fold (nb1 a 0). rewrite F1. destruct nb_zero as [Z1 _]. rewrite Z1. change (0 =? 0) with true.
    rewrite andb_false_r. rewrite F0. reflexivity.
  - apply bytes_ok_cons in Hb. destruct Hb as [Ha Hb]. apply bytes_ok_cons in Hb. destruct Hb as [Hb _].
    destruct (facts_a a b Ha Hb) as (R0 & R1 & F0 & F1). destruct (facts_b b 0 Hb ltac:(lia)) as (R2 & R3 & F2 & F3 & F4).
    destruct (alphabet_good _ R0) as [_ G0]. destruct (alphabet_good _ R1) as [_ G1].
    destruct (alphabet_good _ R2) as [_ G2].
    unfold zlen in Hts. cbn [length] in Hts. cbn [b64_enc].
    rewrite (pton_step0 _ _ _ _ _ _ _ G0) by lia. rewrite (pton_step1 _ _ _ _ _ _ _ G1) by lia.
    rewrite (pton_step2 _ _ _ _ _ _ _ G2) by lia.
    cbn [pton_loop]. destruct pad_facts as [Pn Ps]. rewrite Ps. rewrite Z.eqb_refl.
    unfold pton_finish_pad. change (3 =? 0) with false. change (3 =? 1) with false. change (3 =? 2) with false.
    cbv iota. cbn [orb]. cbn [skip_spaces].
    fold (nb2 b 0). rewrite F3. destruct nb_zero as [_ Z2]. rewrite Z2. change (0 =? 0) with true.
    rewrite andb_false_r. rewrite F0. fold (nb1 a b). rewrite F1, F2. cbn [rev app]. rewrite <- !app_assoc. reflexivity.
  - apply bytes_ok_cons in Hb. destruct Hb as [Ha Hb]. apply bytes_ok_cons in Hb. destruct Hb as [Hb Hc].
    apply bytes_ok_cons in Hc. destruct Hc as [Hc Hr].
    assert (zlen (a :: b :: c :: r) = 3 + zlen r) as HL by (unfold zlen; cbn [length]; lia).
    rewrite HL in *. assert (0 <= zlen r) by (unfold zlen; lia).
    cbn [b64_enc]. rewrite pton_group by (try assumption; lia).
    specialize (IH (ti + 3) ts (c :: b :: a :: out) Hr ltac:(lia)).
    cbn [rev]. rewrite <- !app_assoc. cbn [app]. exact IH.
Qed.

Lemma enc_nonzero : forall d, bytes_ok d = true -> take_nonzero (b64_enc d) = b64_enc d.
Proof.
  destruct pad_facts as [Pn _].
  assert (forall v, 0 <= v < 64 -> (enc_char v =? 0) = false) as NZ.
  { intros v Hv. destruct (alphabet_good v Hv) as [_ (N & _)]. apply Z.eqb_neq. exact N. }
  assert ((b64_pad =? 0) = false) as PZ by (apply Z.eqb_neq; exact Pn).
  induction d as [| a | a b | a b c r IH] using list_ind3; intro Hb.
  - reflexivity.
  - apply bytes_ok_cons in Hb. destruct Hb as [Ha _].
    destruct (facts_a a 0 Ha ltac:(lia)) as (R0 & R1 & _).
    cbn [b64_enc take_nonzero]. rewrite (NZ _ R0), (NZ _ R1), PZ. reflexivity.
  - apply bytes_ok_cons in Hb. destruct Hb as [Ha Hb]. apply bytes_ok_cons in Hb. destruct Hb as [Hb _].
    destruct (facts_a a b Ha Hb) as (R0 & R1 & _). destruct (facts_b b 0 Hb ltac:(lia)) as (R2 & _).
    cbn [b64_enc take_nonzero]. rewrite (NZ _ R0), (NZ _ R1), (NZ _ R2), PZ. reflexivity.
  - apply bytes_ok_cons in Hb. destruct Hb as [Ha Hb]. apply bytes_ok_cons in Hb. destruct Hb as [Hb Hc].
    apply bytes_ok_cons in Hc. destruct Hc as [Hc Hr].
    destruct (facts_a a b Ha Hb) as (R0 & R1 & _). destruct (facts_b b c Hb Hc) as (R2 & R3 & _).
    cbn [b64_enc take_nonzero]. rewrite (NZ _ R0), (NZ _ R1), (NZ _ R2), (NZ _ R3). rewrite IH by assumption. reflexivity.
Qed.

(* ---------- round trip ---------- *)
Lemma b64_pton_enc : forall d ts, bytes_ok d = true -> zlen d < ts -> b64_pton (b64_enc d) ts = Some d.
Proof.
  intros d ts Hb Hts. unfold b64_pton. rewrite enc_nonzero by assumption.
  pose proof (pton_full d 0 ts [] Hb ltac:(lia)) as H.
  destruct (pton_loop (b64_enc d) 0 0 ts [] 0) as [| st ti' out' cur | rest st ti' out' cur].
  - contradiction.
  - destruct H as [H1 H2]. subst. change (0 =? 0) with true. cbv iota. rewrite app_nil_r, rev_involutive. reflexivity.
  - rewrite H. rewrite app_nil_r, rev_involutive. reflexivity.
Qed.

Lemma b64_roundtrip : forall d ts1 ts2 t,
  bytes_ok d = true -> b64_ntop d ts1 = Some t -> zlen d < ts2 -> b64_pton t ts2 = Some d.
Proof.
  intros d ts1 ts2 t Hb Hn Hts.
  (* whatever target size made the encoder succeed, its output is b64_enc d *)
  assert (forall d dl ts t, bytes_ok d = true -> ntop_go d dl ts = Some t -> t = b64_enc d) as G.
  { clear. induction d as [| a | a b | a b c r IH] using list_ind3; intros dl ts t Hb H.
    - cbn in H. destruct (dl >=? ts); inversion H. reflexivity.
    - apply bytes_ok_cons in Hb. destruct Hb as [Ha _].
      destruct (facts_a a 0 Ha ltac:(lia)) as (R0 & R1 & _).
      destruct (alphabet_good _ R0) as [E0 _]. destruct (alphabet_good _ R1) as [E1 _].
      cbn [ntop_go] in H. destruct (dl + 4 >? ts); [discriminate|]. destruct (dl + 4 >=? ts); [discriminate|].
      rewrite E0, E1 in H. cbn in H. inversion H. reflexivity.
    - apply bytes_ok_cons in Hb. destruct Hb as [Ha Hb]. apply bytes_ok_cons in Hb. destruct Hb as [Hb _].
      destruct (facts_a a b Ha Hb) as (R0 & R1 & _). destruct (facts_b b 0 Hb ltac:(lia)) as (R2 & _).
      destruct (alphabet_good _ R0) as [E0 _]. destruct (alphabet_good _ R1) as [E1 _]. destruct (alphabet_good _ R2) as [E2 _].
      cbn [ntop_go] in H. destruct (dl + 4 >? ts); [discriminate|]. destruct (dl + 4 >=? ts); [discriminate|].
      rewrite E0, E1, E2 in H. cbn in H. inversion H. reflexivity.
    - apply bytes_ok_cons in Hb. destruct Hb as [Ha Hb]. apply bytes_ok_cons in Hb. destruct Hb as [Hb Hc].
      apply bytes_ok_cons in Hc. destruct Hc as [Hc Hr].
      destruct (facts_a a b Ha Hb) as (R0 & R1 & _). destruct (facts_b b c Hb Hc) as (R2 & R3 & _).
      destruct (alphabet_good _ R0) as [E0 _]. destruct (alphabet_good _ R1) as [E1 _].
      destruct (alphabet_good _ R2) as [E2 _]. destruct (alphabet_good _ R3) as [E3 _].
      cbn [ntop_go] in H. destruct (dl + 4 >? ts); [discriminate|].
      rewrite E0, E1, E2, E3 in H. destruct (ntop_go r (dl + 4) ts) as [t'|] eqn:E; [|discriminate].
      cbn in H. inversion H. rewrite (IH _ _ _ Hr E). reflexivity. }
  unfold b64_ntop in Hn. rewrite (G _ _ _ _ Hb Hn). apply b64_pton_enc; assumption.
Qed.

(* ---------- splitting an encoding at a group boundary ---------- *)
Lemma enc_app : forall g r, (zlen g) mod 3 = 0 -> b64_enc (g ++ r) = b64_enc g ++ b64_enc r.
Proof.
  induction g as [| a | a b | a b c g IH] using list_ind3; intros r Hm.
  - reflexivity.
  - cbn in Hm. discriminate.
  - cbn in Hm. discriminate.
  - assert (zlen (a :: b :: c :: g) = zlen g + 1 * 3) as HL by (unfold zlen; cbn [length]; lia).
    rewrite HL, Z.mod_add in Hm by lia. cbn [app b64_enc]. rewrite IH by assumption. reflexivity.
Qed.

