(* C09 - mirror of webSocketsEncodeHybi (websockets.c), of the WebSocket chunking in
   rfbWriteExact (sockets.c) and of webSocketsGenSha1Key.  Definitions only. *)
From Coq Require Import ZArith List Bool.
From LV Require Import Ws.WsDefs Ws.Base64Defs Ws.Sha1Defs Gen.Consts_C09 Gen.Strs_C09.
Import ListNotations.
Local Open Scope Z_scope.

(* webSocketsEncodeHybi(cl, src, len, &dst): (return value, bytes at *dst) *)
Definition ws_encode (b64 : bool) (src : list Z) : Z * list Z :=
  let len := zlen src in
  if len =? 0 then (0, [])
  else if len >? ws_update_buf_size then (-1, [])
  else
    let opcode := if b64 then OP_TEXT else OP_BIN in
    let blen := if b64 then b64len len else len in
    let b0 := Z.lor 128 (Z.land opcode 15) in
    let '(hb, sz) :=
      if blen <=? 125 then ([b0; blen mod 256], 2)
      else if blen <=? 65536 then (b0 :: 126 :: be_bytes 2 (blen mod 65536), 4)
      else (b0 :: 127 :: be_bytes 8 blen, 10) in
    if b64 then
      match b64_ntop src (ws_encbuf_size - sz) with
      | None => (-1, [])
      | Some t => (zlen t + sz, hb ++ t)
      end
    else (sz + len, hb ++ src).

(* rfbWriteExact on a WebSocket client: the bytes handed to write(); None = returns -1 *)
Fixpoint ws_write_go (fuel : nat) (b64 : bool) (src : list Z) : option (list Z) :=
  match fuel with
  | O => None
  | S k =>
    if zlen src >? ws_update_buf_size then
      match ws_write_go k b64 (firstn (Z.to_nat ws_update_buf_size) src),
            ws_write_go k b64 (skipn (Z.to_nat ws_update_buf_size) src) with
      | Some a, Some b => Some (a ++ b)
      | _, _ => None
      end
    else
      let '(ret, out) := ws_encode b64 src in
      if ret <? 0 then None else Some out
  end.
Definition ws_write (b64 : bool) (src : list Z) : option (list Z) :=
  ws_write_go (S (length src)) b64 src.

(* webSocketsGenSha1Key: base64(sha1(key ++ GUID)) into a buffer of B64LEN(20)+1 bytes *)
Definition ws_accept (key : list Z) : option (list Z) :=
  b64_ntop (sha1 (take_nonzero key ++ ws_guid)) ws_accept_size.
