(* C09 - ws_handshake extracts the fields of a well-formed request: for every request printed by hs_print
   (request line, host, origin, key, optional protocol list, version 13, empty line; arbitrary values without
   NUL / LF) the answer is the one computed from the fields (round trip). *)
From Coq Require Import ZArith List Bool Lia.
From LV Require Import Ws.WsDefs Ws.Base64Defs Ws.Sha1Defs Ws.WsEncoderModel Ws.WsHandshakeModel Ws.WsListProofs
  Ws.WsHandshakeProofs Gen.Consts_C09 Gen.Strs_C09.
Import ListNotations.
Local Open Scope Z_scope.

Definition crlf : list Z := [13; 10].
Definition s_http : list Z := [32; 72; 84; 84; 80; 47; 49; 46; 49; 13; 10].      (* " HTTP/1.1\r\n" *)
Definition s_v13 : list Z := [49; 51].

Definition chr_ok (c : Z) : bool := negb (c =? 0) && negb (c =? 10).
Definition val_ok (v : list Z) : bool := forallb chr_ok v.

Record hsreq := mkReq { q_path : list Z; q_host : list Z; q_origin : list Z; q_key : list Z; q_proto : option (list Z) }.

Definition proto_line (p : option (list Z)) : list Z :=
  match p with Some v => s_proto ++ v ++ crlf | None => [] end.

Definition hs_print (r : hsreq) : list Z :=
  (s_get ++ q_path r ++ s_http) ++ (s_host ++ q_host r ++ crlf) ++ (s_origin ++ q_origin r ++ crlf) ++
  (s_key ++ q_key r ++ crlf) ++ proto_line (q_proto r) ++ (s_version ++ s_v13 ++ crlf) ++ crlf.

Definition req_ok (r : hsreq) : bool :=
  val_ok (q_path r) && (1 <=? zlen (q_path r)) && val_ok (q_host r) && val_ok (q_origin r) && val_ok (q_key r) &&
  match q_proto r with Some v => val_ok v | None => true end && (zlen (hs_print r) <? ws_max_handshake_len - 1).

(* ---------------- the byte loop over one line ---------------- *)
Lemma hs_line_with_buf : forall st b buf len, hs_line (hs_with_buf st b) buf len = hs_line st buf len.
Proof. intros. reflexivity. Qed.

Lemma no_lf_app : forall a b, forallb (fun c => negb (c =? 10)) (a ++ b) = forallb (fun c => negb (c =? 10)) a && forallb (fun c => negb (c =? 10)) b.
Proof. intros. apply forallb_app. Qed.

(* a non-empty line "body\r\n" (no LF inside) is handed to hs_line with the buffer extended by it *)
Lemma hs_loop_line : forall tmo body rest st,
  forallb (fun c => negb (c =? 10)) body = true ->
  hs_linestart st <= zlen (hs_buf st) -> 1 <= zlen (hs_buf st) - hs_linestart st + zlen body ->
  zlen (hs_buf st) + zlen body + 2 <= ws_max_handshake_len - 1 ->
  hs_loop tmo (body ++ crlf ++ rest) st =
  match hs_line st (hs_buf st ++ body ++ crlf) (zlen (hs_buf st) + zlen body + 2) with
  | None => HLFault
  | Some st' => hs_loop tmo rest st'
  end.
Proof.
  intros tmo body. induction body as [|c body IH]; intros rest st Hnl Hls Hne Hlen.
  - change (zlen (@nil Z)) with 0 in *. unfold crlf. cbn [app] in *.
    (* the CR *)
    cbn [hs_loop]. destruct (zlen (hs_buf st) <? ws_max_handshake_len - 1) eqn:E1; [|lia].
    change (13 =? 10) with false. rewrite andb_false_r.
    (* the LF *)
    cbn [hs_loop]. cbn [hs_buf hs_with_buf hs_linestart]. rewrite zlen_app. change (zlen [13]) with 1.
    destruct (zlen (hs_buf st) + 1 <? ws_max_handshake_len - 1) eqn:E2; [|lia].
    rewrite !zlen_app. change (zlen [13]) with 1. change (zlen [10]) with 1.
    destruct (zlen (hs_buf st) + 1 + 1 - hs_linestart st >=? 2) eqn:E3; [|lia].
    change (10 =? 10) with true. cbn [andb].
    destruct (zlen (hs_buf st) + 1 + 1 - hs_linestart st =? 2) eqn:E4; [lia|]. cbn [andb].
    rewrite hs_line_with_buf. rewrite <- app_assoc. cbn [app].
    replace (zlen (hs_buf st) + 1 + 1) with (zlen (hs_buf st) + 0 + 2) by lia. reflexivity.
  - cbn [forallb] in Hnl. apply andb_true_iff in Hnl. destruct Hnl as [Hc Hnl]. apply negb_true_iff in Hc.
    rewrite zlen_cons in *. pose proof (zlen_nonneg _ body).
    cbn [app hs_loop]. destruct (zlen (hs_buf st) <? ws_max_handshake_len - 1) eqn:E1; [|lia].
    rewrite Hc, andb_false_r.
    rewrite (IH rest (hs_with_buf st (hs_buf st ++ [c])) Hnl);
      cbn [hs_buf hs_with_buf hs_linestart]; rewrite ?zlen_app; change (zlen [c]) with 1; try lia.
    rewrite hs_line_with_buf. rewrite <- app_assoc. cbn [app].
    replace (zlen (hs_buf st) + 1 + zlen body + 2) with (zlen (hs_buf st) + (1 + zlen body) + 2) by lia. reflexivity.
Qed.
