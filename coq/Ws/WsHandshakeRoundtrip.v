(* C09 - ws_handshake extracts the fields of a well-formed request: for every request printed by hs_print
   (request line, host, origin, key, optional protocol list, version 13, empty line; arbitrary values without
   NUL / LF) the answer is the one computed from the fields (round trip). *)
From Coq Require Import ZArith List Bool Lia.
From LV Require Import Ws.WsDefs Ws.Base64Defs Ws.Sha1Defs Ws.WsEncoderModel Ws.WsHandshakeModel Ws.WsListProofs
  Ws.WsHandshakeProofs Gen.Consts_C09 Gen.Strs_C09.
Import ListNotations.
Local Open Scope Z_scope.

Definition crlf : list Z := [13; 10].
Definition s_http : list Z := [32; 72; 84; 84; 80; 47; 49; 46; 49; 13; 10].      (* " HTTP/1.1\r\n" *)
Definition s_v13 : list Z := [49; 51].

Definition chr_ok (c : Z) : bool := negb (c =? 0) && negb (c =? 10).
Definition val_ok (v : list Z) : bool := forallb chr_ok v.

Record hsreq := mkReq { q_path : list Z; q_host : list Z; q_origin : list Z; q_key : list Z; q_proto : option (list Z) }.

Definition proto_line (p : option (list Z)) : list Z :=
  match p with Some v => s_proto ++ v ++ crlf | None => [] end.

Definition hs_print (r : hsreq) : list Z :=
  (s_get ++ q_path r ++ s_http) ++ (s_host ++ q_host r ++ crlf) ++ (s_origin ++ q_origin r ++ crlf) ++
  (s_key ++ q_key r ++ crlf) ++ proto_line (q_proto r) ++ (s_version ++ s_v13 ++ crlf) ++ crlf.

Definition req_ok (r : hsreq) : bool :=
  val_ok (q_path r) && (1 <=? zlen (q_path r)) && val_ok (q_host r) && val_ok (q_origin r) && val_ok (q_key r) &&
  match q_proto r with Some v => val_ok v | None => true end && (zlen (hs_print r) <? ws_max_handshake_len - 1).

(* ---------------- the byte loop over one line ---------------- *)
Lemma hs_line_with_buf : forall st b buf len, hs_line (hs_with_buf st b) buf len = hs_line st buf len.
Proof. intros. reflexivity. Qed.

Lemma no_lf_app : forall a b, forallb (fun c => negb (c =? 10)) (a ++ b) = forallb (fun c => negb (c =? 10)) a && forallb (fun c => negb (c =? 10)) b.
Proof. intros. apply forallb_app. Qed.

(* a non-empty line "body\r\n" (no LF inside) is handed to hs_line with the buffer extended by it *)
Lemma hs_loop_line : forall tmo body rest st,
  forallb (fun c => negb (c =? 10)) body = true ->
  hs_linestart st <= zlen (hs_buf st) -> 1 <= zlen (hs_buf st) - hs_linestart st + zlen body ->
  zlen (hs_buf st) + zlen body + 2 <= ws_max_handshake_len - 1 ->
  hs_loop tmo (body ++ crlf ++ rest) st =
  match hs_line st (hs_buf st ++ body ++ crlf) (zlen (hs_buf st) + zlen body + 2) with
  | None => HLFault
  | Some st' => hs_loop tmo rest st'
  end.
Proof.
  intros tmo body. induction body as [|c body IH]; intros rest st Hnl Hls Hne Hlen.
  - change (zlen (@nil Z)) with 0 in *. unfold crlf. cbn [app] in *.
    (* the CR *)
    cbn [hs_loop]. destruct (zlen (hs_buf st) <? ws_max_handshake_len - 1) eqn:E1; [|lia].
    change (13 =? 10) with false. rewrite andb_false_r.
    (* the LF *)
    cbn [hs_loop]. cbn [hs_buf hs_with_buf hs_linestart]. rewrite zlen_app. change (zlen [13]) with 1.
    destruct (zlen (hs_buf st) + 1 <? ws_max_handshake_len - 1) eqn:E2; [|lia].
    rewrite !zlen_app. change (zlen [13]) with 1. change (zlen [10]) with 1.
    destruct (zlen (hs_buf st) + 1 + 1 - hs_linestart st >=? 2) eqn:E3; [|lia].
    change (10 =? 10) with true. cbn [andb].
    destruct (zlen (hs_buf st) + 1 + 1 - hs_linestart st =? 2) eqn:E4; [lia|]. cbn [andb].
    rewrite hs_line_with_buf. rewrite <- app_assoc. cbn [app].
    replace (zlen (hs_buf st) + 1 + 1) with (zlen (hs_buf st) + 0 + 2) by lia. reflexivity.
  - cbn [forallb] in Hnl. apply andb_true_iff in Hnl. destruct Hnl as [Hc Hnl]. apply negb_true_iff in Hc.
    rewrite zlen_cons in *. pose proof (zlen_nonneg _ body).
    cbn [app hs_loop]. destruct (zlen (hs_buf st) <? ws_max_handshake_len - 1) eqn:E1; [|lia].
    rewrite Hc, andb_false_r.
    rewrite (IH rest (hs_with_buf st (hs_buf st ++ [c])) Hnl);
      cbn [hs_buf hs_with_buf hs_linestart]; rewrite ?zlen_app; change (zlen [c]) with 1; try lia.
    rewrite hs_line_with_buf. rewrite <- app_assoc. cbn [app].
    replace (zlen (hs_buf st) + 1 + zlen body + 2) with (zlen (hs_buf st) + (1 + zlen body) + 2) by lia. reflexivity.
Qed.

(* ---------------- hs_line on the lines hs_print produces ---------------- *)
Lemma list_set_mid : forall (X Y : list Z) c v, list_set (X ++ c :: Y) (zlen X) v = Some (X ++ v :: Y).
Proof.
  intros X Y c v. unfold list_set, buf_write. pose proof (zlen_nonneg _ X).
  destruct (0 <=? zlen X) eqn:E1; [|lia]. change (zlen [v]) with 1.
  rewrite zlen_app, zlen_cons. pose proof (zlen_nonneg _ Y).
  destruct (zlen X + 1 <=? zlen X + (1 + zlen Y)) eqn:E2; [|lia]. cbn [andb]. f_equal.
  rewrite firstn_app_exact_z. cbn [length app]. f_equal. f_equal.
  unfold zlen. rewrite Nat2Z.id. replace (length X + 1)%nat with (length (X ++ [c])) by (rewrite app_length; reflexivity).
  replace (X ++ c :: Y) with ((X ++ [c]) ++ Y) by (rewrite <- app_assoc; reflexivity). apply skipn_app_exact.
Qed.

Ltac decide_prefix := repeat match goal with
  | |- context [prefix_ci ?p ?l] =>
      let b := eval cbv in (prefix_ci p l) in
      match b with true => change (prefix_ci p l) with true | false => change (prefix_ci p l) with false end
  | |- context [prefix_cs ?p ?l] =>
      let b := eval cbv in (prefix_cs p l) in
      match b with true => change (prefix_cs p l) with true | false => change (prefix_cs p l) with false end
  end.

(* a header line "name value\r\n": the CR is overwritten by NUL *)
Lemma cut_cr : forall (B name v : list Z),
  list_set (B ++ name ++ v ++ crlf) (zlen B + zlen (name ++ v) + 2 - 2) 0 = Some (B ++ name ++ v ++ [0; 10]).
Proof.
  intros B name v. replace (zlen B + zlen (name ++ v) + 2 - 2) with (zlen (B ++ name ++ v)) by (rewrite !zlen_app; lia).
  replace (B ++ name ++ v ++ crlf) with ((B ++ name ++ v) ++ 13 :: [10]) by (rewrite <- !app_assoc; reflexivity).
  rewrite list_set_mid. rewrite <- !app_assoc. reflexivity.
Qed.

Section Lines.
Variables (st : hs_state) (B v : list Z).
Hypothesis Hls : hs_linestart st = zlen B.

Let len (name : list Z) := zlen B + zlen (name ++ v) + 2.

Ltac line_tac name :=
  unfold hs_line; rewrite Hls; rewrite skipn_app_exact_z; decide_prefix;
  rewrite ?andb_false_r; cbv iota; rewrite (cut_cr B name v); reflexivity.

Lemma line_host : hs_line st (B ++ s_host ++ v ++ crlf) (len s_host) =
  Some (mkHs (B ++ s_host ++ v ++ [0; 10]) (len s_host) (hs_path st) (Some (zlen B + 6)) (hs_origin st) (hs_key1 st) (hs_key2 st)
             (hs_proto st) (hs_sorigin st) (hs_key st) (hs_version st) (hs_wspath st)).
Proof. unfold len. line_tac s_host. Qed.

Lemma line_origin : hs_line st (B ++ s_origin ++ v ++ crlf) (len s_origin) =
  Some (mkHs (B ++ s_origin ++ v ++ [0; 10]) (len s_origin) (hs_path st) (hs_host st) (Some (zlen B + 8)) (hs_key1 st) (hs_key2 st)
             (hs_proto st) (hs_sorigin st) (hs_key st) (hs_version st) (hs_wspath st)).
Proof. unfold len. line_tac s_origin. Qed.

Lemma line_key : hs_line st (B ++ s_key ++ v ++ crlf) (len s_key) =
  Some (mkHs (B ++ s_key ++ v ++ [0; 10]) (len s_key) (hs_path st) (hs_host st) (hs_origin st) (hs_key1 st) (hs_key2 st)
             (hs_proto st) (hs_sorigin st) (Some (zlen B + 19)) (hs_version st) (hs_wspath st)).
Proof. unfold len. line_tac s_key. Qed.

Lemma line_proto : hs_line st (B ++ s_proto ++ v ++ crlf) (len s_proto) =
  Some (mkHs (B ++ s_proto ++ v ++ [0; 10]) (len s_proto) (hs_path st) (hs_host st) (hs_origin st) (hs_key1 st) (hs_key2 st)
             (Some (zlen B + 24)) (hs_sorigin st) (hs_key st) (hs_version st) (hs_wspath st)).
Proof. unfold len. line_tac s_proto. Qed.
End Lines.

Lemma take_nonzero_app0 : forall v Y, val_ok v = true -> take_nonzero (v ++ 0 :: Y) = v.
Proof.
  induction v as [|c v IH]; intros Y H; [reflexivity|]. cbn [val_ok forallb] in H. apply andb_true_iff in H. destruct H as [Hc Hv].
  unfold chr_ok in Hc. apply andb_true_iff in Hc. destruct Hc as [Hc _]. apply negb_true_iff in Hc.
  cbn [app take_nonzero]. rewrite Hc. f_equal. apply IH. exact Hv.
Qed.

Lemma cstr_at : forall X v Y o, val_ok v = true -> o = zlen X -> cstr (X ++ v ++ 0 :: Y) o = v.
Proof. intros X v Y o H ->. unfold cstr. rewrite skipn_app_exact_z. apply take_nonzero_app0. exact H. Qed.

Lemma val_ok_no_lf : forall v, val_ok v = true -> forallb (fun c => negb (c =? 10)) v = true.
Proof.
  induction v as [|c v IH]; intro H; [reflexivity|]. cbn [val_ok forallb] in *. apply andb_true_iff in H. destruct H as [Hc Hv].
  unfold chr_ok in Hc. apply andb_true_iff in Hc. destruct Hc as [_ Hc]. rewrite Hc. cbn [andb]. apply IH. exact Hv.
Qed.

Lemma line_get : forall st B path, hs_linestart st = zlen B -> 1 <= zlen path -> val_ok path = true ->
  hs_line st (B ++ s_get ++ path ++ s_http) (zlen B + zlen (s_get ++ path ++ [32; 72; 84; 84; 80; 47; 49; 46; 49]) + 2) =
  Some (mkHs (B ++ s_get ++ path ++ 0 :: [72; 84; 84; 80; 47; 49; 46; 49; 13; 10]) (zlen B + zlen (s_get ++ path ++ [32; 72; 84; 84; 80; 47; 49; 46; 49]) + 2)
             (Some (zlen B + 4)) (hs_host st) (hs_origin st) (hs_key1 st) (hs_key2 st) (hs_proto st) (hs_sorigin st) (hs_key st)
             (hs_version st) (Some path)).
Proof.
  intros st B path Hls Hp Hv. unfold hs_line. rewrite Hls, (skipn_app_exact_z Z B). decide_prefix.
  assert (zlen (s_get ++ path ++ [32; 72; 84; 84; 80; 47; 49; 46; 49]) = 13 + zlen path) as El
    by (rewrite !zlen_app; change (zlen s_get) with 4; change (zlen [32; 72; 84; 84; 80; 47; 49; 46; 49]) with 9; lia).
  rewrite El.
  destruct (zlen B + (13 + zlen path) + 2 - zlen B >=? 16) eqn:E; [|lia]. cbn [andb].
  replace (zlen B + (13 + zlen path) + 2 - 11) with (zlen (B ++ s_get ++ path)) by (rewrite !zlen_app; change (zlen s_get) with 4; lia).
  replace (B ++ s_get ++ path ++ s_http) with ((B ++ s_get ++ path) ++ 32 :: [72; 84; 84; 80; 47; 49; 46; 49; 13; 10])
    by (rewrite <- !app_assoc; reflexivity).
  rewrite list_set_mid.
  assert (cstr ((B ++ s_get ++ path) ++ 0 :: [72; 84; 84; 80; 47; 49; 46; 49; 13; 10]) (zlen B + 4) = path) as Ec.
  { replace ((B ++ s_get ++ path) ++ 0 :: [72; 84; 84; 80; 47; 49; 46; 49; 13; 10]) with ((B ++ s_get) ++ path ++ 0 :: [72; 84; 84; 80; 47; 49; 46; 49; 13; 10])
      by (rewrite <- !app_assoc; reflexivity).
    apply cstr_at; [assumption|]. rewrite zlen_app. reflexivity. }
  rewrite Ec. rewrite <- !app_assoc. reflexivity.
Qed.

Lemma line_version : forall st B, hs_linestart st = zlen B ->
  hs_line st (B ++ s_version ++ s_v13 ++ crlf) (zlen B + zlen (s_version ++ s_v13) + 2) =
  Some (mkHs (B ++ s_version ++ s_v13 ++ [0; 10]) (zlen B + zlen (s_version ++ s_v13) + 2) (hs_path st) (hs_host st) (hs_origin st)
             (hs_key1 st) (hs_key2 st) (hs_proto st) (hs_sorigin st) (hs_key st) 13 (hs_wspath st)).
Proof.
  intros st B Hls. unfold hs_line. rewrite Hls, (skipn_app_exact_z Z B). decide_prefix. rewrite ?andb_false_r. cbv iota.
  replace (zlen B + 23) with (zlen (B ++ s_version)) by (rewrite zlen_app; reflexivity).
  replace (skipn (Z.to_nat (zlen (B ++ s_version))) (B ++ s_version ++ s_v13 ++ crlf)) with (s_v13 ++ crlf)
    by (rewrite (app_assoc B s_version); symmetry; apply skipn_app_exact_z).
  change (strtol10 (s_v13 ++ crlf)) with 13. change (13 mod 256) with 13. change (13 <? 128) with true. cbv iota.
  rewrite (cut_cr B s_version s_v13). reflexivity.
Qed.

(* the empty line ends the loop (no Hixie keys) *)
Lemma hs_loop_blank : forall tmo rest st,
  hs_linestart st = zlen (hs_buf st) -> hs_key1 st = None -> zlen (hs_buf st) + 2 <= ws_max_handshake_len - 1 ->
  hs_loop tmo (crlf ++ rest) st = HLDone (hs_with_buf st (hs_buf st ++ crlf)).
Proof.
  intros tmo rest st Hls Hk1 Hlen. unfold crlf. cbn [app hs_loop].
  destruct (zlen (hs_buf st) <? ws_max_handshake_len - 1) eqn:E1; [|lia].
  change (13 =? 10) with false. rewrite andb_false_r.
  cbn [hs_loop hs_buf hs_with_buf hs_linestart]. rewrite !zlen_app. change (zlen [13]) with 1. change (zlen [10]) with 1.
  destruct (zlen (hs_buf st) + 1 <? ws_max_handshake_len - 1) eqn:E2; [|lia].
  rewrite Hls. replace (zlen (hs_buf st) + 1 + 1 - zlen (hs_buf st)) with 2 by lia.
  change (2 >=? 2) with true. change (10 =? 10) with true. cbn [andb]. change (2 =? 2) with true. cbn [andb].
  replace (Z.to_nat (zlen (hs_buf st))) with (length (hs_buf st)) by (unfold zlen; rewrite Nat2Z.id; reflexivity).
  rewrite <- app_assoc. rewrite skipn_app_exact. cbn [app]. decide_prefix. cbv iota.
  cbn [hs_key1 hs_with_buf]. rewrite Hk1. cbn [is_some andb]. reflexivity.
Qed.

(* ---------------- the whole request ---------------- *)
Definition http9 : list Z := [32; 72; 84; 84; 80; 47; 49; 46; 49].

Lemma len_hdr : forall (B name v : list Z), zlen B + zlen (name ++ v) + 2 = zlen (B ++ name ++ v ++ [0; 10]).
Proof. intros. rewrite !zlen_app. change (zlen [0; 10]) with 2. lia. Qed.

Definition answer (r : hsreq) : hs_result :=
  match ws_accept (q_key r) with
  | None => HsFault
  | Some accept =>
    let '(b64, proto) := chosen_protocol (q_proto r) in
    HsOk (Some (q_path r)) b64
      (match proto with
       | [] => hs_noproto_0 ++ accept ++ hs_noproto_1
       | _ => hs_proto_0 ++ accept ++ hs_proto_1 ++ proto ++ hs_proto_2
       end)
  end.

Lemma nolf_app3 : forall a b c, forallb (fun x => negb (x =? 10)) a = true -> forallb (fun x => negb (x =? 10)) b = true ->
  forallb (fun x => negb (x =? 10)) c = true -> forallb (fun x => negb (x =? 10)) (a ++ b ++ c) = true.
Proof. intros. rewrite !forallb_app. rewrite H, H0, H1. reflexivity. Qed.

Theorem handshake_roundtrip : forall r, req_ok r = true -> ws_handshake false (hs_print r) = answer r.
Proof.
  intros [path host origin key proto] Hok. unfold req_ok in Hok. cbn [q_path q_host q_origin q_key q_proto] in Hok.
  repeat rewrite andb_true_iff in Hok. destruct Hok as [[[[[[Hp Hp1] Hh] Ho] Hk] Hpr] Hlen].
  apply Z.leb_le in Hp1. apply Z.ltb_lt in Hlen.
  pose proof (val_ok_no_lf _ Hp) as Np. pose proof (val_ok_no_lf _ Hh) as Nh. pose proof (val_ok_no_lf _ Ho) as No.
  pose proof (val_ok_no_lf _ Hk) as Nk.
  unfold ws_handshake. cbn [andb].
  assert (prefix_cs s_rfb (hs_print (mkReq path host origin key proto)) = false) as E1 by reflexivity.
  assert (prefix_cs s_get (hs_print (mkReq path host origin key proto)) = true) as E2 by reflexivity.
  rewrite E1, E2. cbn [negb].
  (* the lines, each as body ++ crlf ++ rest *)
  set (T := proto_line proto ++ (s_version ++ s_v13 ++ crlf) ++ crlf) in *.
  assert (hs_print (mkReq path host origin key proto) =
          (s_get ++ path ++ http9) ++ crlf ++ (s_host ++ host) ++ crlf ++ (s_origin ++ origin) ++ crlf ++ (s_key ++ key) ++ crlf ++ T) as EP.
  { unfold hs_print. cbn [q_path q_host q_origin q_key q_proto]. fold T. unfold s_http, http9, crlf. rewrite <- !app_assoc. reflexivity. }
  rewrite EP in *. clear E1 E2.
  assert (0 <= zlen T) as HT0 by apply zlen_nonneg.
  rewrite !zlen_app in Hlen. change (zlen crlf) with 2 in Hlen. change (zlen s_get) with 4 in Hlen. change (zlen http9) with 9 in Hlen.
  change (zlen s_host) with 6 in Hlen. change (zlen s_origin) with 8 in Hlen. change (zlen s_key) with 19 in Hlen.
  pose proof (zlen_nonneg _ path). pose proof (zlen_nonneg _ host). pose proof (zlen_nonneg _ origin). pose proof (zlen_nonneg _ key).
  (* line 1: GET *)
  rewrite hs_loop_line; cbn [hs_buf hs_linestart hs_init];
    [| apply nolf_app3; [reflexivity|assumption|reflexivity]
     | change (zlen (@nil Z)) with 0; lia
     | change (zlen (@nil Z)) with 0; rewrite !zlen_app; change (zlen s_get) with 4; change (zlen http9) with 9; lia
     | change (zlen (@nil Z)) with 0; rewrite !zlen_app; change (zlen s_get) with 4; change (zlen http9) with 9; lia].
  replace (([] : list Z) ++ (s_get ++ path ++ http9) ++ crlf) with (([] : list Z) ++ s_get ++ path ++ s_http)
    by (unfold s_http, http9, crlf; rewrite <- !app_assoc; reflexivity).
  unfold http9. rewrite (line_get hs_init [] path eq_refl Hp1 Hp). cbn [app].
  set (B1 := s_get ++ path ++ 0 :: [72; 84; 84; 80; 47; 49; 46; 49; 13; 10]).
  assert (0 + zlen (s_get ++ path ++ [32; 72; 84; 84; 80; 47; 49; 46; 49]) + 2 = zlen B1) as L1
    by (subst B1; rewrite !zlen_app, !zlen_cons; change (zlen s_get) with 4; change (zlen (@nil Z)) with 0; lia).
  change (zlen (@nil Z)) with 0. rewrite L1.
  assert (zlen B1 = 15 + zlen path) as Z1 by (rewrite <- L1, !zlen_app; change (zlen s_get) with 4; change (zlen [32; 72; 84; 84; 80; 47; 49; 46; 49]) with 9; lia).
  (* line 2: host *)
  rewrite hs_loop_line; cbn [hs_buf hs_linestart];
    [| rewrite forallb_app, Nh; reflexivity | lia | rewrite zlen_app; change (zlen s_host) with 6; lia
     | rewrite zlen_app; change (zlen s_host) with 6; lia].
  rewrite <- app_assoc. rewrite (line_host _ B1 host) by reflexivity. cbn [hs_path hs_origin hs_key1 hs_key2 hs_proto hs_sorigin hs_key hs_version hs_wspath].
  rewrite len_hdr. set (B2 := B1 ++ s_host ++ host ++ [0; 10]).
  assert (zlen B2 = zlen B1 + 8 + zlen host) as Z2 by (subst B2; rewrite !zlen_app; change (zlen s_host) with 6; change (zlen [0; 10]) with 2; lia).
  (* line 3: origin *)
  rewrite hs_loop_line; cbn [hs_buf hs_linestart];
    [| rewrite forallb_app, No; reflexivity | lia | rewrite zlen_app; change (zlen s_origin) with 8; lia
     | rewrite zlen_app; change (zlen s_origin) with 8; lia].
  rewrite <- app_assoc. rewrite (line_origin _ B2 origin) by reflexivity. cbn [hs_path hs_host hs_key1 hs_key2 hs_proto hs_sorigin hs_key hs_version hs_wspath].
  rewrite len_hdr. set (B3 := B2 ++ s_origin ++ origin ++ [0; 10]).
  assert (zlen B3 = zlen B2 + 10 + zlen origin) as Z3 by (subst B3; rewrite !zlen_app; change (zlen s_origin) with 8; change (zlen [0; 10]) with 2; lia).
  (* line 4: key *)
  rewrite hs_loop_line; cbn [hs_buf hs_linestart];
    [| rewrite forallb_app, Nk; reflexivity | lia | rewrite zlen_app; change (zlen s_key) with 19; lia
     | rewrite zlen_app; change (zlen s_key) with 19; lia].
  rewrite <- app_assoc. rewrite (line_key _ B3 key) by reflexivity. cbn [hs_path hs_host hs_origin hs_key1 hs_key2 hs_proto hs_sorigin hs_version hs_wspath].
  rewrite len_hdr. set (B4 := B3 ++ s_key ++ key ++ [0; 10]).
  assert (zlen B4 = zlen B3 + 21 + zlen key) as Z4 by (subst B4; rewrite !zlen_app; change (zlen s_key) with 19; change (zlen [0; 10]) with 2; lia).
  (* the field strings in the final buffer *)
  assert (forall Y, cstr (B4 ++ Y) (zlen B3 + 19) = key) as Ckey.
  { intro Y. subst B4. replace ((B3 ++ s_key ++ key ++ [0; 10]) ++ Y) with ((B3 ++ s_key) ++ key ++ 0 :: (10 :: Y)) by (rewrite <- !app_assoc; reflexivity).
    apply cstr_at; [assumption|]. rewrite zlen_app. reflexivity. }
  subst T. destruct proto as [pv|]; cbn [proto_line] in *.
  - (* with a protocol line *)
    pose proof (val_ok_no_lf _ Hpr) as Npr. pose proof (zlen_nonneg _ pv).
    rewrite !zlen_app in Hlen. change (zlen s_proto) with 24 in Hlen. change (zlen crlf) with 2 in Hlen.
    change (zlen s_version) with 23 in Hlen. change (zlen s_v13) with 2 in Hlen.
    replace ((s_proto ++ pv ++ crlf) ++ (s_version ++ s_v13 ++ crlf) ++ crlf) with ((s_proto ++ pv) ++ crlf ++ (s_version ++ s_v13) ++ crlf ++ crlf ++ [])
      by (rewrite <- !app_assoc, app_nil_r; reflexivity).
    rewrite hs_loop_line; cbn [hs_buf hs_linestart];
      [| rewrite forallb_app, Npr; reflexivity | lia | rewrite zlen_app; change (zlen s_proto) with 24; lia
       | rewrite zlen_app; change (zlen s_proto) with 24; lia].
    rewrite <- app_assoc. rewrite (line_proto _ B4 pv) by reflexivity. cbn [hs_path hs_host hs_origin hs_key1 hs_key2 hs_sorigin hs_key hs_version hs_wspath].
    rewrite len_hdr. set (B5 := B4 ++ s_proto ++ pv ++ [0; 10]).
    assert (zlen B5 = zlen B4 + 26 + zlen pv) as Z5 by (subst B5; rewrite !zlen_app; change (zlen s_proto) with 24; change (zlen [0; 10]) with 2; lia).
    rewrite hs_loop_line; cbn [hs_buf hs_linestart];
      [| reflexivity | lia | rewrite zlen_app; change (zlen s_version) with 23; change (zlen s_v13) with 2; lia
       | rewrite zlen_app; change (zlen s_version) with 23; change (zlen s_v13) with 2; lia].
    rewrite <- app_assoc. rewrite (line_version _ B5) by reflexivity. cbn [hs_path hs_host hs_origin hs_key1 hs_key2 hs_proto hs_sorigin hs_key hs_wspath].
    rewrite len_hdr. set (B6 := B5 ++ s_version ++ s_v13 ++ [0; 10]).
    assert (zlen B6 = zlen B5 + 27) as Z6 by (subst B6; rewrite !zlen_app; change (zlen s_version) with 23; change (zlen s_v13) with 2; change (zlen [0; 10]) with 2; lia).
    rewrite hs_loop_blank; cbn [hs_buf hs_linestart hs_key1]; try reflexivity; try lia.
    unfold hs_finish, hs_field. cbn [hs_version hs_key hs_path hs_host hs_origin hs_sorigin hs_proto hs_wspath hs_buf hs_with_buf is_some andb orb negb].
    change (13 =? 0) with false. cbv iota.
    assert (cstr (B6 ++ crlf) (zlen B3 + 19) = key) as C1.
    { subst B6 B5. rewrite <- !app_assoc. apply Ckey. }
    assert (cstr (B6 ++ crlf) (zlen B4 + 24) = pv) as C2.
    { subst B6 B5. replace (((B4 ++ s_proto ++ pv ++ [0; 10]) ++ s_version ++ s_v13 ++ [0; 10]) ++ crlf)
        with ((B4 ++ s_proto) ++ pv ++ 0 :: (10 :: (s_version ++ s_v13 ++ [0; 10]) ++ crlf)) by (rewrite <- !app_assoc; reflexivity).
      apply cstr_at; [assumption|]. rewrite zlen_app. reflexivity. }
    rewrite C1, C2. unfold answer. cbn [q_key q_proto q_path chosen_protocol].
    destruct (ws_accept key); [|reflexivity].
    destruct (contains s_base64 pv); [reflexivity|]. destruct (contains s_binary pv); reflexivity.
  - (* without *)
    rewrite !zlen_app in Hlen. change (zlen crlf) with 2 in Hlen. change (zlen s_version) with 23 in Hlen. change (zlen s_v13) with 2 in Hlen.
    change (zlen (@nil Z)) with 0 in Hlen.
    replace ([] ++ (s_version ++ s_v13 ++ crlf) ++ crlf) with ((s_version ++ s_v13) ++ crlf ++ crlf ++ [])
      by (cbn [app]; rewrite <- !app_assoc, app_nil_r; reflexivity).
    rewrite hs_loop_line; cbn [hs_buf hs_linestart];
      [| reflexivity | lia | rewrite zlen_app; change (zlen s_version) with 23; change (zlen s_v13) with 2; lia
       | rewrite zlen_app; change (zlen s_version) with 23; change (zlen s_v13) with 2; lia].
    rewrite <- app_assoc. rewrite (line_version _ B4) by reflexivity. cbn [hs_path hs_host hs_origin hs_key1 hs_key2 hs_proto hs_sorigin hs_key hs_wspath].
    rewrite len_hdr. set (B6 := B4 ++ s_version ++ s_v13 ++ [0; 10]).
    assert (zlen B6 = zlen B4 + 27) as Z6 by (subst B6; rewrite !zlen_app; change (zlen s_version) with 23; change (zlen s_v13) with 2; change (zlen [0; 10]) with 2; lia).
    rewrite hs_loop_blank; cbn [hs_buf hs_linestart hs_key1]; try reflexivity; try lia.
    unfold hs_finish, hs_field. cbn [hs_version hs_key hs_path hs_host hs_origin hs_sorigin hs_proto hs_wspath hs_buf hs_with_buf is_some andb orb negb].
    change (13 =? 0) with false. cbv iota.
    assert (cstr (B6 ++ crlf) (zlen B3 + 19) = key) as C1 by (subst B6; rewrite <- !app_assoc; apply Ckey).
    rewrite C1. unfold answer. cbn [q_key q_proto q_path chosen_protocol].
    destruct (ws_accept key); reflexivity.
Qed.

Example handshake_roundtrip_nonvacuous :
  req_ok (mkReq [47; 119; 115] [104] [104; 116; 116; 112; 58; 47; 47; 104] [100; 71; 104; 108] (Some s_binary)) = true /\
  req_ok (mkReq [47] [104] [120] [100; 71; 104; 108] None) = true.
Proof. split; reflexivity. Qed.

(* ---------------- refusal: the same request without its key line, or without its version line ---------------- *)
Definition hs_print_nokey (r : hsreq) : list Z :=
  (s_get ++ q_path r ++ s_http) ++ (s_host ++ q_host r ++ crlf) ++ (s_origin ++ q_origin r ++ crlf) ++
  (s_version ++ s_v13 ++ crlf) ++ crlf.
Definition hs_print_nover (r : hsreq) : list Z :=
  (s_get ++ q_path r ++ s_http) ++ (s_host ++ q_host r ++ crlf) ++ (s_origin ++ q_origin r ++ crlf) ++
  (s_key ++ q_key r ++ crlf) ++ crlf.

Ltac zc := change (zlen s_host) with 6 in *; change (zlen s_origin) with 8 in *; change (zlen s_key) with 19 in *;
  change (zlen s_version) with 23 in *; change (zlen s_v13) with 2 in *; change (zlen crlf) with 2 in *;
  change (zlen s_get) with 4 in *; change (zlen http9) with 9 in *; change (zlen [0; 10]) with 2 in *; change (zlen (@nil Z)) with 0 in *.
Ltac ln lem B v N :=
  rewrite hs_loop_line; cbn [hs_buf hs_linestart];
    [| rewrite forallb_app, N; reflexivity | lia | rewrite zlen_app; zc; lia | rewrite zlen_app; zc; lia];
  rewrite <- app_assoc; rewrite (lem _ B v) by reflexivity;
  cbn [hs_path hs_host hs_origin hs_key1 hs_key2 hs_proto hs_sorigin hs_key hs_version hs_wspath]; rewrite len_hdr.
Ltac lv B :=
  rewrite hs_loop_line; cbn [hs_buf hs_linestart];
    [| reflexivity | lia | rewrite zlen_app; zc; lia | rewrite zlen_app; zc; lia];
  rewrite <- app_assoc; rewrite (line_version _ B) by reflexivity;
  cbn [hs_path hs_host hs_origin hs_key1 hs_key2 hs_proto hs_sorigin hs_key hs_version hs_wspath]; rewrite len_hdr.
Ltac lget path Hp1 Hp :=
  rewrite hs_loop_line; cbn [hs_buf hs_linestart hs_init];
    [| apply nolf_app3; [reflexivity|assumption|reflexivity]
     | zc; lia | rewrite !zlen_app; zc; lia | rewrite !zlen_app; zc; lia];
  replace (([] : list Z) ++ (s_get ++ path ++ http9) ++ crlf) with (([] : list Z) ++ s_get ++ path ++ s_http)
    by (unfold s_http, http9, crlf; rewrite <- !app_assoc; reflexivity);
  unfold http9; rewrite (line_get hs_init [] path eq_refl Hp1 Hp); cbn [app].

Theorem handshake_refuses_nokey : forall r, req_ok r = true -> ws_handshake false (hs_print_nokey r) = HsFail (Some (q_path r)).
Proof.
  intros [path host origin key proto] Hok. unfold req_ok in Hok. cbn [q_path q_host q_origin q_key q_proto] in Hok.
  repeat rewrite andb_true_iff in Hok. destruct Hok as [[[[[[Hp Hp1] Hh] Ho] Hk] Hpr] Hlen].
  apply Z.leb_le in Hp1. apply Z.ltb_lt in Hlen.
  pose proof (val_ok_no_lf _ Hp) as Np. pose proof (val_ok_no_lf _ Hh) as Nh. pose proof (val_ok_no_lf _ Ho) as No.
  unfold ws_handshake. cbn [andb].
  assert (prefix_cs s_rfb (hs_print_nokey (mkReq path host origin key proto)) = false) as E1 by reflexivity.
  assert (prefix_cs s_get (hs_print_nokey (mkReq path host origin key proto)) = true) as E2 by reflexivity.
  rewrite E1, E2. cbn [negb]. clear E1 E2.
  assert (hs_print_nokey (mkReq path host origin key proto) =
          (s_get ++ path ++ http9) ++ crlf ++ (s_host ++ host) ++ crlf ++ (s_origin ++ origin) ++ crlf ++ (s_version ++ s_v13) ++ crlf ++ crlf ++ []) as EP.
  { unfold hs_print_nokey. cbn [q_path q_host q_origin q_key q_proto]. unfold s_http, http9, crlf. rewrite <- !app_assoc. reflexivity. }
  rewrite EP. clear EP.
  unfold hs_print in Hlen. cbn [q_path q_host q_origin q_key q_proto] in Hlen. rewrite !zlen_app in Hlen.
  change (zlen s_http) with 11 in Hlen. zc.
  pose proof (zlen_nonneg _ path). pose proof (zlen_nonneg _ host). pose proof (zlen_nonneg _ origin). pose proof (zlen_nonneg _ key).
  pose proof (zlen_nonneg _ (proto_line proto)).
  lget path Hp1 Hp.
  set (B1 := s_get ++ path ++ 0 :: [72; 84; 84; 80; 47; 49; 46; 49; 13; 10]).
  assert (0 + zlen (s_get ++ path ++ [32; 72; 84; 84; 80; 47; 49; 46; 49]) + 2 = zlen B1) as L1
    by (subst B1; rewrite !zlen_app, !zlen_cons; zc; lia).
  change (zlen (@nil Z)) with 0. rewrite L1.
  assert (zlen B1 = 15 + zlen path) as Z1 by (rewrite <- L1, !zlen_app, !zlen_cons; zc; lia).
  ln line_host B1 host Nh. set (B2 := B1 ++ s_host ++ host ++ [0; 10]).
  assert (zlen B2 = zlen B1 + 8 + zlen host) as Z2 by (subst B2; rewrite !zlen_app; zc; lia).
  ln line_origin B2 origin No. set (B3 := B2 ++ s_origin ++ origin ++ [0; 10]).
  assert (zlen B3 = zlen B2 + 10 + zlen origin) as Z3 by (subst B3; rewrite !zlen_app; zc; lia).
  lv B3. set (B6 := B3 ++ s_version ++ s_v13 ++ [0; 10]).
  assert (zlen B6 = zlen B3 + 27) as Z6 by (subst B6; rewrite !zlen_app; zc; lia).
  rewrite hs_loop_blank; cbn [hs_buf hs_linestart hs_key1]; try reflexivity; try lia.
Qed.

Theorem handshake_refuses_nover : forall r, req_ok r = true -> ws_handshake false (hs_print_nover r) = HsFail (Some (q_path r)).
Proof.
  intros [path host origin key proto] Hok. unfold req_ok in Hok. cbn [q_path q_host q_origin q_key q_proto] in Hok.
  repeat rewrite andb_true_iff in Hok. destruct Hok as [[[[[[Hp Hp1] Hh] Ho] Hk] Hpr] Hlen].
  apply Z.leb_le in Hp1. apply Z.ltb_lt in Hlen.
  pose proof (val_ok_no_lf _ Hp) as Np. pose proof (val_ok_no_lf _ Hh) as Nh. pose proof (val_ok_no_lf _ Ho) as No.
  pose proof (val_ok_no_lf _ Hk) as Nk.
  unfold ws_handshake. cbn [andb].
  assert (prefix_cs s_rfb (hs_print_nover (mkReq path host origin key proto)) = false) as E1 by reflexivity.
  assert (prefix_cs s_get (hs_print_nover (mkReq path host origin key proto)) = true) as E2 by reflexivity.
  rewrite E1, E2. cbn [negb]. clear E1 E2.
  assert (hs_print_nover (mkReq path host origin key proto) =
          (s_get ++ path ++ http9) ++ crlf ++ (s_host ++ host) ++ crlf ++ (s_origin ++ origin) ++ crlf ++ (s_key ++ key) ++ crlf ++ crlf ++ []) as EP.
  { unfold hs_print_nover. cbn [q_path q_host q_origin q_key q_proto]. unfold s_http, http9, crlf. rewrite <- !app_assoc. reflexivity. }
  rewrite EP. clear EP.
  unfold hs_print in Hlen. cbn [q_path q_host q_origin q_key q_proto] in Hlen. rewrite !zlen_app in Hlen.
  change (zlen s_http) with 11 in Hlen. zc.
  pose proof (zlen_nonneg _ path). pose proof (zlen_nonneg _ host). pose proof (zlen_nonneg _ origin). pose proof (zlen_nonneg _ key).
  pose proof (zlen_nonneg _ (proto_line proto)).
  lget path Hp1 Hp.
  set (B1 := s_get ++ path ++ 0 :: [72; 84; 84; 80; 47; 49; 46; 49; 13; 10]).
  assert (0 + zlen (s_get ++ path ++ [32; 72; 84; 84; 80; 47; 49; 46; 49]) + 2 = zlen B1) as L1
    by (subst B1; rewrite !zlen_app, !zlen_cons; zc; lia).
  change (zlen (@nil Z)) with 0. rewrite L1.
  assert (zlen B1 = 15 + zlen path) as Z1 by (rewrite <- L1, !zlen_app, !zlen_cons; zc; lia).
  ln line_host B1 host Nh. set (B2 := B1 ++ s_host ++ host ++ [0; 10]).
  assert (zlen B2 = zlen B1 + 8 + zlen host) as Z2 by (subst B2; rewrite !zlen_app; zc; lia).
  ln line_origin B2 origin No. set (B3 := B2 ++ s_origin ++ origin ++ [0; 10]).
  assert (zlen B3 = zlen B2 + 10 + zlen origin) as Z3 by (subst B3; rewrite !zlen_app; zc; lia).
  ln line_key B3 key Nk. set (B4 := B3 ++ s_key ++ key ++ [0; 10]).
  assert (zlen B4 = zlen B3 + 21 + zlen key) as Z4 by (subst B4; rewrite !zlen_app; zc; lia).
  rewrite hs_loop_blank; cbn [hs_buf hs_linestart hs_key1]; try reflexivity; try lia.
Qed.
