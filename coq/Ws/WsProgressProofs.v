(* C09 - progress of the repaired decoder: with a reader that always has at least one byte to give
   (every scheduled event is RAvail k, k >= 1) every decode call delivers a byte or consumes a byte of the
   stream, hence after |stream| + |application data| calls (and three events per call) ALL application
   data of a conforming conversation has been delivered.  Together with C09_transparent this excludes a
   decoder that merely never errs (e.g. never consumes). *)
From Coq Require Import ZArith List Bool Lia.
From LV Require Import Ws.WsDefs Ws.Base64Defs Ws.WsSpecDefs Ws.WsDecoderModel Ws.WsTransparency
  Ws.WsListProofs Ws.WsDecoderProofs1 Ws.WsDecoderProofs2 Ws.WsDecoderProofs3
  Ws.WsDecoderProofs4 Ws.WsDecoderProofs5 Ws.WsDecoderProofs6 Ws.WsSchedProofs Gen.Consts_C09.
Import ListNotations.
Local Open Scope Z_scope.

Definition ev_avail (e : rev) : bool := match e with RAvail k => 1 <=? k | _ => false end.
Definition all_avail (s : list rev) : bool := forallb ev_avail s.

Lemma all_avail_live : forall s, all_avail s = true -> sched_live s = true.
Proof.
  induction s as [|e s IH]; intro H; [reflexivity|]. cbn in *. apply andb_true_iff in H. destruct H as [H1 H2].
  unfold sched_live in *. cbn [forallb]. rewrite (IH H2), andb_true_r. destruct e; try discriminate; reflexivity.
Qed.
Lemma all_avail_skipn : forall j s, all_avail s = true -> all_avail (skipn j s) = true.
Proof.
  induction j; intros s H; [assumption|]. destruct s; [reflexivity|]. cbn in *. apply andb_true_iff in H. apply IHj. tauto.
Qed.
Lemma all_avail_head : forall i, all_avail (io_sched i) = true -> (0 < length (io_sched i))%nat -> avail_head i = true.
Proof.
  intros i H Hl. unfold avail_head. destruct (io_sched i) as [|e s]; [cbn in Hl; lia|].
  cbn in H. apply andb_true_iff in H. destruct H as [H _]. destruct e; try discriminate. exact H.
Qed.

Definition progress (i : io) (rem d : list Z) (i' : io) : Prop :=
  0 < zlen d \/ zlen (io_stream i') < zlen (io_stream i) \/ avail_head i = false \/ rem = [].

Lemma step_progress : forall w i rem len, R w i rem -> sched_live (io_sched i) = true -> 1 <= len ->
  match ws_decode true w i len with
  | OFault _ => True
  | ORet _ _ d _ i' _ => progress i rem d i'
  end.
Proof.
  intros w i rem len HR Hl Hlen.
  destruct HR as [w i cont HB0 Hs | w i cont c cs k Hst HBw Hk Hv Hs | w i cont c cs q Hv Hst HP Hrl Hq Hs | w i cont c cs q pend Hv HA Hs].
  - destruct (ws_decode true w i len); [exact I|]. right. right. right. reflexivity.
  - (* header phase *)
    set (tail := encode_frames (conv_frames (cf_next cont c) cs)) in *.
    pose proof (read_header_ok w cont c cs k i (wire cont c ++ tail) HBw Hk Hv Hs Hl) as Ho.
    pose proof (read_header_stall w cont c cs k i (wire cont c ++ tail) HBw Hk Hv Hs Hl) as Hstall.
    pose proof HBw as (_ & _ & Hkr & _). rewrite hdr_of_len in Hkr.
    assert (zlen (io_stream i) = hlen_of (zlen (cf_wire cont c)) - k + zlen (wire cont c ++ tail)) as Hlen0.
    { rewrite Hs, zlen_app, zlen_skipn by (rewrite hdr_of_len; lia). rewrite hdr_of_len. reflexivity. }
    unfold ws_decode. rewrite Hst. change (ST_HEADER_PENDING =? ST_HEADER_PENDING) with true. cbv iota.
    destruct Ho as [(w' & i' & log' & k' & E & HB' & Hk' & Hs' & Hl' & _) | (w' & i' & log' & E & HP' & Hrl' & Hs' & Hl')]; rewrite E in *.
    + unfold h_pending in *. change (ST_HEADER_PENDING =? ST_ERR) with false. cbv iota.
      change (negb (ST_HEADER_PENDING =? ST_HEADER_PENDING)) with false. cbv iota.
      destruct (Z.eq_dec k' k) as [Ek|Ek].
      * right. right. left. apply Hstall; [reflexivity|]. destruct HB' as (_ & Hn & _). lia.
      * right. left. rewrite Hs', zlen_app, zlen_skipn by (rewrite hdr_of_len; lia). rewrite hdr_of_len. lia.
    + change (ST_DATA_NEEDED =? ST_ERR) with false. cbv iota.
      change (negb (ST_DATA_NEEDED =? ST_HEADER_PENDING)) with true. cbv iota.
      pose proof (read_and_decode_io true (set_st w' ST_DATA_NEEDED) i' log' len 0) as Hio.
      destruct (read_and_decode true (set_st w' ST_DATA_NEEDED) i' log' len 0) as [|s2 r2 e2 d2 w2 i2 log2]; [exact I|].
      cbn in Hio. destruct Hio as (j & _ & _ & Hle). unfold of_dres. right. left. rewrite Hs' in Hle. lia.
  - (* payload phase: a read is attempted (q < L) *)
    unfold ws_decode. rewrite Hst.
    change (ST_DATA_NEEDED =? ST_HEADER_PENDING) with false. change (ST_DATA_NEEDED =? ST_DATA_AVAILABLE) with false.
    change ((ST_DATA_NEEDED =? ST_DATA_NEEDED) || (ST_DATA_NEEDED =? ST_CLOSE_REASON_PENDING)) with true. cbv iota.
    set (tail := encode_frames (conv_frames (cf_next cont c) cs)) in *.
    assert (zlen (wire cont c) = zlen (cf_wire cont c)) as HwL by (unfold wire; apply xmask_len).
    pose proof HP as HP0. unfold PS in HP0. cbv zeta in HP0. destruct HP0 as (_ & _ & _ & _ & _ & _ & _ & Hq0 & _).
    destruct (stageA w cont c cs q i tail [] len HP Hrl Hv Hs Hl)
      as [w' i' log' HP' Hrl' Hst' Hca' Hq' Hav Hs' Hl' | m b2 i' log' Hm Hm0 Hbd Hb2 Hrd Hs' Hl'].
    + unfold of_dres. right. right. left. assumption.
    + match goal with |- context [decode_tail ?a ?b ?c ?d ?e ?f ?g] =>
        pose proof (decode_tail_io a b c d e f g) as Hio; destruct (decode_tail a b c d e f g) as [|s2 r2 e2 d2 w2 i2 log2] end; [exact I|].
      cbn in Hio. subst i2. unfold of_dres. right. left.
      assert (0 < m) by (destruct (Z.eq_dec m 0) as [E0|E0]; [specialize (Hm0 E0); lia|lia]).
      rewrite Hs', Hs, !zlen_app, !zlen_skipn by lia. lia.
  - (* decoded bytes pending: they are handed out *)
    destruct HA as (Hst & Hrl & Hp & Hrd & _).
    unfold ws_decode. rewrite Hst.
    change (ST_DATA_AVAILABLE =? ST_HEADER_PENDING) with false. change (ST_DATA_AVAILABLE =? ST_DATA_AVAILABLE) with true.
    cbv iota.
    destruct (return_data_ok w len pend Hlen Hrl (fun _ => Hrd)) as [[Hz _] | [[Hz Hr] | (Hz & Hr & _)]]; [lia| |]; rewrite Hr.
    + left. lia.
    + left. rewrite zlen_firstn by lia. lia.
Qed.

Lemma run_progress : forall lens w i rem,
  R w i rem -> all_avail (io_sched i) = true -> lens_ok lens = true ->
  (3 * length lens <= length (io_sched i))%nat ->
  zlen (io_stream i) + zlen rem <= Z.of_nat (length lens) ->
  delivered (fst (fst (ws_run true w i lens))) = rem.
Proof.
  induction lens as [|len lens IH]; intros w i rem HR Ha Hlens Hsl Hmu.
  - cbn [length] in Hmu. pose proof (zlen_nonneg _ (io_stream i)). pose proof (zlen_nonneg _ rem).
    assert (zlen rem = 0) as Hz by lia. apply zlen_0_nil in Hz. subst rem. reflexivity.
  - pose proof (all_avail_live _ Ha) as Hl.
    destruct rem as [|x rem0] eqn:Erem.
    + destruct (run_ok (len :: lens) w i [] HR Hl Hlens) as (rs & w' & i' & rem' & Er & _ & _ & Hrem & _).
      rewrite Er. cbn [fst]. symmetry in Hrem. apply app_eq_nil in Hrem. tauto.
    + rewrite <- Erem in *. assert (rem <> []) as Hne by (rewrite Erem; discriminate).
      pose proof Hlens as Hlens'. unfold lens_ok in Hlens'. cbn [forallb] in Hlens'. apply andb_true_iff in Hlens'. destruct Hlens' as [Hlen Hlens'].
      apply andb_true_iff in Hlen. destruct Hlen as [Hlen _]. apply Z.leb_le in Hlen.
      destruct (step w i rem len HR Hl Hlen) as (ret & e & d & w1 & i1 & log & rem1 & E & Hok & Hl1 & HR1 & Hrem).
      pose proof (step_progress w i rem len HR Hl Hlen) as Hp. pose proof (ws_decode_io true w i len) as Hio.
      rewrite E in Hp, Hio. destruct Hio as (j & Hj & Hsch & Hstr).
      cbn [length] in Hsl, Hmu.
      assert (avail_head i = true) as Hah by (apply all_avail_head; [assumption|lia]).
      assert (zlen (io_stream i1) + zlen rem1 <= Z.of_nat (length lens)) as Hmu1.
      { assert (zlen rem = zlen d + zlen rem1) as Hr by (rewrite Hrem, zlen_app; reflexivity).
        pose proof (zlen_nonneg _ d).
        destruct Hp as [H1 | [H2 | [H3 | H4]]]; [lia|lia|rewrite Hah in H3; discriminate|contradiction]. }
      cbn [ws_run]. rewrite E.
      specialize (IH w1 i1 rem1 HR1).
      assert (all_avail (io_sched i1) = true) as Ha1 by (rewrite Hsch; apply all_avail_skipn; assumption).
      assert (3 * length lens <= length (io_sched i1))%nat as Hsl1 by (rewrite Hsch, skipn_length; lia).
      specialize (IH Ha1 Hlens' Hsl1 Hmu1).
      destruct (ws_run true w1 i1 lens) as [[rs wf] iof]. cbn [fst] in *. cbn [delivered]. rewrite IH. symmetry. assumption.
Qed.

(* every byte of application data is delivered *)
Theorem progress_fixed : forall cs sched lens,
  conv_valid None cs = true -> all_avail sched = true -> lens_ok lens = true ->
  (3 * length lens <= length sched)%nat ->
  zlen (conv_stream cs) + zlen (conv_expected cs) <= Z.of_nat (length lens) ->
  delivered (fst (fst (ws_run true ws_init (mkIO (conv_stream cs) sched) lens))) = conv_expected cs.
Proof.
  intros cs sched lens Hv Ha Hlens Hsl Hmu.
  apply run_progress; try assumption.
  apply (R_of_BD _ _ None cs); [exact BD_init|assumption|reflexivity].
Qed.

(* ---------------- the violation is reported: EPROTO within two calls when bytes are available ---------------- *)
From LV Require Import Ws.WsStrictProofs.

Theorem strict_progress : forall cont w b0 b1 rest sched l1 l2 lens,
  BD w cont -> bad2 cont b0 b1 = true -> all_avail sched = true -> (4 <= length sched)%nat ->
  first_hard (fst (fst (ws_run true w (mkIO (b0 :: b1 :: rest) sched) (l1 :: l2 :: lens)))) = Some (CRet (-1) (Some EPROTO) []).
Proof.
  intros cont w b0 b1 rest sched l1 l2 lens (Hst & Hnr & Hrl & Hca & Hco & Hbl) Hbad Ha Hlen.
  assert (SB w cont b0 0) as HS0.
  { unfold SB. repeat split; try assumption; try (left; reflexivity). intro; discriminate. }
  set (i := mkIO (b0 :: b1 :: rest) sched).
  assert (all_avail (io_sched i) = true) as Hai by exact Ha.
  destruct (strict_step w cont b0 b1 rest 0 i l1 HS0 Hbad eq_refl (all_avail_live _ Ha))
    as (ret & e & w1 & i1 & log & E & Hl1 & Hcase).
  pose proof (ws_decode_io true w i l1) as Hio. rewrite E in Hio. destruct Hio as (j & Hj & Hsch & _).
  remember (l2 :: lens) as lens2 eqn:El2.
  cbn [ws_run]. rewrite E.
  destruct Hcase as [(-> & -> & k' & HS1 & Hs1 & Hk0 & Hstall) | (-> & ->)].
  2:{ destruct (ws_run true w1 i1 lens2) as [[rs wf] iof]. cbn [fst first_hard is_again]. reflexivity. }
  assert (avail_head i = true) as Hah by (apply all_avail_head; [assumption|cbn [io_sched i]; lia]).
  assert (k' = 1) as ->.
  { destruct HS1 as (_ & _ & Hk & _). destruct Hk as [Hk|Hk]; [|assumption]. specialize (Hstall Hk). rewrite Hah in Hstall. discriminate. }
  assert (all_avail (io_sched i1) = true) as Ha1 by (rewrite Hsch; apply all_avail_skipn; assumption).
  assert (0 < length (io_sched i1))%nat as Hl1' by (rewrite Hsch, skipn_length; cbn [io_sched i]; lia).
  destruct (strict_step w1 cont b0 b1 rest 1 i1 l2 HS1 Hbad Hs1 Hl1) as (ret2 & e2 & w2 & i2 & log2 & E2 & Hl2 & Hcase2).
  subst lens2. cbn [ws_run]. rewrite E2. destruct (ws_run true w2 i2 lens) as [[rs wf] iof]. cbn [fst first_hard is_again].
  change ((-1 =? -1) && (zlen (@nil Z) =? 0)) with true. cbv iota.
  destruct Hcase2 as [(-> & -> & k2 & HS2 & _ & Hk2 & Hstall2) | (-> & ->)]; [|reflexivity].
  exfalso. destruct HS2 as (_ & _ & Hk & _). assert (k2 = 1) as -> by (destruct Hk; lia).
  specialize (Hstall2 eq_refl). rewrite (all_avail_head i1 Ha1 Hl1') in Hstall2. discriminate.
Qed.
