(* C09 - the specification level: RFC 6455 frames as data, the wire encoding of a frame,
   a whole-stream parser, and what a conforming client conversation means.  Independent of
   the C code (only the opcode numbers are shared).  Definitions only. *)
From Coq Require Import ZArith List Bool.
From LV Require Import Ws.WsDefs Ws.Base64Defs Gen.Consts_C09.
Import ListNotations.
Local Open Scope Z_scope.

Record frame := mkFrame {
  f_fin : bool; f_op : Z; f_masked : bool; f_mask : mask; f_payload : list Z (* unmasked *) }.

(* minimal length encoding (RFC 6455 5.2): 7 bits, or 126 + 16 bits, or 127 + 64 bits *)
Definition len_field (n : Z) : list Z :=
  if n <? 126 then [n] else if n <? 65536 then 126 :: be_bytes 2 n else 127 :: be_bytes 8 n.

Definition frame_header (f : frame) : list Z :=
  match len_field (zlen (f_payload f)) with
  | lb :: ext =>
      ((if f_fin f then 128 else 0) + f_op f) :: ((if f_masked f then 128 else 0) + lb) :: ext
      ++ (if f_masked f then mask_list (f_mask f) else [])
  | [] => []
  end.

Definition encode_frame (f : frame) : list Z :=
  frame_header f ++ (if f_masked f then xmask (f_mask f) 0 (f_payload f) else f_payload f).

Definition encode_frames (fs : list frame) : list Z := concat (map encode_frame fs).

(* ---- whole-stream parser (strict: RSV = 0, minimal lengths) ---- *)
Definition parse_frame (s : list Z) : option (frame * list Z) :=
  match s with
  | b0 :: b1 :: r =>
    if negb (bytes_ok [b0; b1]) then None else
    if negb (Z.land b0 112 =? 0) then None else
    let fin := negb (Z.land b0 128 =? 0) in
    let op := Z.land b0 15 in
    let masked := negb (Z.land b1 128 =? 0) in
    let lb := Z.land b1 127 in
    let ext := if lb =? 126 then 2 else if lb =? 127 then 8 else 0 in
    if zlen r <? ext then None else
    let n := if ext =? 0 then lb else be_val (firstn (Z.to_nat ext) r) 0 in
    let r1 := skipn (Z.to_nat ext) r in
    if ((ext =? 2) && (n <? 126)) || ((ext =? 8) && (n <? 65536)) then None else
    if masked then
      match r1 with
      | m0 :: m1 :: m2 :: m3 :: r2 =>
        if zlen r2 <? n then None
        else Some (mkFrame fin op true (m0, m1, m2, m3) (xmask (m0, m1, m2, m3) 0 (firstn (Z.to_nat n) r2)),
                   skipn (Z.to_nat n) r2)
      | _ => None
      end
    else if zlen r1 <? n then None
    else Some (mkFrame fin op false mask0 (firstn (Z.to_nat n) r1), skipn (Z.to_nat n) r1)
  | _ => None
  end.

Fixpoint parse_frames (fuel : nat) (s : list Z) : option (list frame) :=
  match s with
  | [] => Some []
  | _ =>
    match fuel with
    | O => None
    | S k => match parse_frame s with
             | Some (f, r) => match parse_frames k r with Some fs => Some (f :: fs) | None => None end
             | None => None
             end
    end
  end.
Definition parse_stream (s : list Z) : option (list frame) := parse_frames (length s) s.

(* ---- a conforming client conversation ----
   cont = opcode of the fragmented message being continued (None between messages).
   Data frames are described by their *application data*: a text frame carries base64 of it. *)
Inductive cframe :=
| CData (text fin : bool) (m : mask) (data : list Z)      (* first frame of a message *)
| CCont (fin : bool) (m : mask) (data : list Z)           (* continuation frame *)
| CCtl (pong : bool) (m : mask) (payload : list Z)        (* ping / pong, payload <= 125 *).

Definition mask_ok (m : mask) : bool := let '(a, b, c, d) := m in bytes_ok [a; b; c; d].

(* base64 of application data, as a conforming client produces it (never fails: no size limit) *)
Definition b64_text (data : list Z) : list Z :=
  match b64_ntop data (4 * zlen data + 8) with Some t => t | None => [] end.

Definition wire_payload (text : bool) (data : list Z) : list Z :=
  if text then b64_text data else data.

(* frames on the wire, expected application bytes, validity; cont : option bool = Some text *)
Fixpoint conv_frames (cont : option bool) (cs : list cframe) : list frame :=
  match cs with
  | [] => []
  | CData text fin m d :: r =>
      mkFrame fin (if text then OP_TEXT else OP_BIN) true m (wire_payload text d)
      :: conv_frames (if fin then None else Some text) r
  | CCont fin m d :: r =>
      let text := match cont with Some t => t | None => false end in
      mkFrame fin OP_CONT true m (wire_payload text d) :: conv_frames (if fin then None else cont) r
  | CCtl pong m p :: r => mkFrame true (if pong then OP_PONG else OP_PING) true m p :: conv_frames cont r
  end.

Fixpoint conv_expected (cs : list cframe) : list Z :=
  match cs with
  | [] => []
  | CData _ _ _ d :: r => d ++ conv_expected r
  | CCont _ _ d :: r => d ++ conv_expected r
  | CCtl _ _ _ :: r => conv_expected r
  end.

Fixpoint conv_valid (cont : option bool) (cs : list cframe) : bool :=
  match cs with
  | [] => true
  | CData text fin m d :: r =>
      match cont with
      | Some _ => false
      | None => mask_ok m && bytes_ok d && (zlen d <? two31) && conv_valid (if fin then None else Some text) r
      end
  | CCont fin m d :: r =>
      match cont with
      | None => false
      | Some _ => mask_ok m && bytes_ok d && (zlen d <? two31) && conv_valid (if fin then None else cont) r
      end
  | CCtl pong m p :: r => mask_ok m && bytes_ok p && (zlen p <=? 125) && conv_valid cont r
  end.

Definition conv_stream (cs : list cframe) : list Z := encode_frames (conv_frames None cs).
