(* C09 - mirror of webSocketsCheck / webSocketsHandshake (websockets.c): the byte-by-byte request
   reader, the header-line dispatch (prefix tests in the order of the C code), the decisions after the
   loop, the answer.  Environment as in the harness: the whole request is available, then EOF.
   Definitions only.  Not mirrored (never generated): TLS first byte, requests shorter than 4 bytes
   (the C code then reads its uninitialised peek buffer), field values running past the terminator. *)
From Coq Require Import ZArith List Bool.
From LV Require Import Ws.WsDefs Ws.Base64Defs Ws.Sha1Defs Ws.WsEncoderModel Gen.Consts_C09 Gen.Strs_C09.
Import ListNotations.
Local Open Scope Z_scope.

Definition lower (c : Z) : Z := if (65 <=? c) && (c <=? 90) then c + 32 else c.

(* strncasecmp(pat, line, min(llen, |pat|)) == 0, pat without NUL *)
Fixpoint prefix_ci (pat line : list Z) : bool :=
  match pat, line with
  | [], _ => true
  | p :: ps, l :: ls => (lower p =? lower l) && prefix_ci ps ls
  | _ :: _, [] => false
  end.
Fixpoint prefix_cs (pat line : list Z) : bool :=
  match pat, line with
  | [], _ => true
  | p :: ps, l :: ls => (p =? l) && prefix_cs ps ls
  | _ :: _, [] => false
  end.

(* strstr(hay, needle) != NULL *)
Fixpoint contains (needle hay : list Z) : bool :=
  prefix_cs needle hay || match hay with [] => false | _ :: r => contains needle r end.

(* strtol(s, NULL, 10): white space, optional sign, digits; the result is clamped to LONG_MIN..LONG_MAX *)
Fixpoint digits_val (s : list Z) (acc : Z) : Z :=
  match s with
  | c :: r => if (48 <=? c) && (c <=? 57) then digits_val r (acc * 10 + (c - 48)) else acc
  | [] => acc
  end.
Definition long_max : Z := 9223372036854775807.
Fixpoint strtol10 (s : list Z) : Z :=
  match s with
  | c :: r => if is_space c then strtol10 r
              else if c =? 45 then Z.max (- digits_val r 0) (- long_max - 1)
              else if c =? 43 then Z.min (digits_val r 0) long_max
              else Z.min (digits_val s 0) long_max
  | [] => 0
  end.

Definition list_set (l : list Z) (i : Z) (v : Z) : option (list Z) := buf_write l i [v].
(* the C string starting at offset o (the end of the received bytes counts as terminator) *)
Definition cstr (buf : list Z) (o : Z) : list Z := take_nonzero (skipn (Z.to_nat o) buf).

(* header names as in the C source *)
Definition s_get : list Z := [71; 69; 84; 32].
Definition s_host : list Z := [104; 111; 115; 116; 58; 32].
Definition s_origin : list Z := [111; 114; 105; 103; 105; 110; 58; 32].
Definition s_key1 : list Z := [115;101;99;45;119;101;98;115;111;99;107;101;116;45;107;101;121;49;58;32].
Definition s_key2 : list Z := [115;101;99;45;119;101;98;115;111;99;107;101;116;45;107;101;121;50;58;32].
Definition s_proto : list Z := [115;101;99;45;119;101;98;115;111;99;107;101;116;45;112;114;111;116;111;99;111;108;58;32].
Definition s_sorigin : list Z := [115;101;99;45;119;101;98;115;111;99;107;101;116;45;111;114;105;103;105;110;58;32].
Definition s_key : list Z := [115;101;99;45;119;101;98;115;111;99;107;101;116;45;107;101;121;58;32].
Definition s_version : list Z := [115;101;99;45;119;101;98;115;111;99;107;101;116;45;118;101;114;115;105;111;110;58;32].
Definition s_base64 : list Z := [98; 97; 115; 101; 54; 52].
Definition s_binary : list Z := [98; 105; 110; 97; 114; 121].
Definition s_rfb : list Z := [82; 70; 66; 32].

Record hs_state := mkHs {
  hs_buf : list Z; hs_linestart : Z;
  hs_path : option Z; hs_host : option Z; hs_origin : option Z; hs_key1 : option Z; hs_key2 : option Z;
  hs_proto : option Z; hs_sorigin : option Z; hs_key : option Z; hs_version : Z;
  hs_wspath : option (list Z) }.

Definition hs_init : hs_state := mkHs [] 0 None None None None None None None None 0 None.

Inductive hs_loop_res := HLFault | HLGone (st : hs_state) | HLDone (st : hs_state).

(* what the C code does with a complete line (llen >= 2, last byte '\n'); buf already contains it *)
Definition hs_line (st : hs_state) (buf : list Z) (len : Z) : option hs_state :=
  let ls := hs_linestart st in
  let llen := len - ls in
  let line := skipn (Z.to_nat ls) buf in
  let upd (b : list Z) (f : hs_state -> list Z -> hs_state) : option hs_state := Some (f st b) in
  let cut2 := list_set buf (len - 2) 0 in
  if (llen >=? 16) && prefix_cs s_get line then
    match list_set buf (len - 11) 0 with
    | None => None
    | Some b => Some (mkHs b len (Some (ls + 4)) (hs_host st) (hs_origin st) (hs_key1 st) (hs_key2 st) (hs_proto st)
                           (hs_sorigin st) (hs_key st) (hs_version st) (Some (cstr b (ls + 4))))
    end
  else if prefix_ci s_host line then
    match cut2 with None => None | Some b =>
      Some (mkHs b len (hs_path st) (Some (ls + 6)) (hs_origin st) (hs_key1 st) (hs_key2 st) (hs_proto st) (hs_sorigin st) (hs_key st) (hs_version st) (hs_wspath st)) end
  else if prefix_ci s_origin line then
    match cut2 with None => None | Some b =>
      Some (mkHs b len (hs_path st) (hs_host st) (Some (ls + 8)) (hs_key1 st) (hs_key2 st) (hs_proto st) (hs_sorigin st) (hs_key st) (hs_version st) (hs_wspath st)) end
  else if prefix_ci s_key1 line then
    match cut2 with None => None | Some b =>
      Some (mkHs b len (hs_path st) (hs_host st) (hs_origin st) (Some (ls + 20)) (hs_key2 st) (hs_proto st) (hs_sorigin st) (hs_key st) (hs_version st) (hs_wspath st)) end
  else if prefix_ci s_key2 line then
    match cut2 with None => None | Some b =>
      Some (mkHs b len (hs_path st) (hs_host st) (hs_origin st) (hs_key1 st) (Some (ls + 20)) (hs_proto st) (hs_sorigin st) (hs_key st) (hs_version st) (hs_wspath st)) end
  else if prefix_ci s_proto line then
    match cut2 with None => None | Some b =>
      Some (mkHs b len (hs_path st) (hs_host st) (hs_origin st) (hs_key1 st) (hs_key2 st) (Some (ls + 24)) (hs_sorigin st) (hs_key st) (hs_version st) (hs_wspath st)) end
  else if prefix_ci s_sorigin line then
    match cut2 with None => None | Some b =>
      Some (mkHs b len (hs_path st) (hs_host st) (hs_origin st) (hs_key1 st) (hs_key2 st) (hs_proto st) (Some (ls + 22)) (hs_key st) (hs_version st) (hs_wspath st)) end
  else if prefix_ci s_key line then
    match cut2 with None => None | Some b =>
      Some (mkHs b len (hs_path st) (hs_host st) (hs_origin st) (hs_key1 st) (hs_key2 st) (hs_proto st) (hs_sorigin st) (Some (ls + 19)) (hs_version st) (hs_wspath st)) end
  else if prefix_ci s_version line then
    let v := strtol10 (skipn (Z.to_nat (ls + 23)) buf) in
    (* char sec_ws_version = strtol(...): truncation to a signed char *)
    let v8 := let m := v mod 256 in if m <? 128 then m else m - 256 in
    match cut2 with None => None | Some b =>
      Some (mkHs b len (hs_path st) (hs_host st) (hs_origin st) (hs_key1 st) (hs_key2 st) (hs_proto st) (hs_sorigin st) (hs_key st) v8 (hs_wspath st)) end
  else Some (mkHs buf len (hs_path st) (hs_host st) (hs_origin st) (hs_key1 st) (hs_key2 st) (hs_proto st)
                  (hs_sorigin st) (hs_key st) (hs_version st) (hs_wspath st)).

Definition hs_with_buf (st : hs_state) (b : list Z) : hs_state :=
  mkHs b (hs_linestart st) (hs_path st) (hs_host st) (hs_origin st) (hs_key1 st) (hs_key2 st) (hs_proto st)
       (hs_sorigin st) (hs_key st) (hs_version st) (hs_wspath st).

Definition is_some {A} (o : option A) : bool := match o with Some _ => true | None => false end.

(* while (len < MAX-1) { read one byte ... } *)
(* tmo = false: after the request the peer closes (EOF: "client gone", FALSE);
   tmo = true : after the request the peer stays silent: rfbReadExactTimeout times out (100 ms) and the
                C code breaks out of the loop and goes on with what it has parsed so far *)
Fixpoint hs_loop (tmo : bool) (input : list Z) (st : hs_state) : hs_loop_res :=
  if zlen (hs_buf st) <? ws_max_handshake_len - 1 then
    match input with
    | [] => if tmo then HLDone st else HLGone st
    | c :: rest =>
      let buf := hs_buf st ++ [c] in
      let len := zlen buf in
      let llen := len - hs_linestart st in
      if (llen >=? 2) && (c =? 10) then
        let line := skipn (Z.to_nat (hs_linestart st)) buf in
        if (llen =? 2) && prefix_cs [13; 10] line then
          if is_some (hs_key1 st) && is_some (hs_key2 st) && (len + 8 <? ws_max_handshake_len) then
            if zlen rest <? 8 then (if tmo then HLDone (hs_with_buf st buf) else HLGone (hs_with_buf st buf))
            else HLDone (hs_with_buf st (buf ++ firstn 8 rest))
          else HLDone (hs_with_buf st buf)
        else
          match hs_line st buf len with
          | None => HLFault
          | Some st' => hs_loop tmo rest st'
          end
      else hs_loop tmo rest (hs_with_buf st buf)
    end
  else HLDone st.

Inductive hs_result :=
| HsFault
| HsPlain                                        (* "RFB ": normal connection, TRUE, no wsctx *)
| HsFail (wspath : option (list Z))              (* FALSE *)
| HsOk (wspath : option (list Z)) (b64 : bool) (resp : list Z).

Definition hs_field (st : hs_state) (o : option Z) : option (list Z) :=
  match o with Some off => Some (cstr (hs_buf st) off) | None => None end.

Definition hs_finish (st : hs_state) : hs_result :=
  if hs_version st =? 0 then HsFail (hs_wspath st)
  else match hs_field st (hs_key st) with
  | None => HsFail (hs_wspath st)
  | Some key =>
    if negb (is_some (hs_path st) && is_some (hs_host st) && (is_some (hs_origin st) || is_some (hs_sorigin st)))
    then HsFail (hs_wspath st)
    else
      let pr := hs_field st (hs_proto st) in
      let b64 := match pr with Some p => contains s_base64 p | None => false end in
      let protocol := if b64 then s_base64
                      else match pr with Some p => if contains s_binary p then s_binary else [] | None => [] end in
      match ws_accept key with
      | None => HsFault
      | Some accept =>
        let resp := match protocol with
                    | [] => hs_noproto_0 ++ accept ++ hs_noproto_1
                    | _ => hs_proto_0 ++ accept ++ hs_proto_1 ++ protocol ++ hs_proto_2
                    end in
        HsOk (hs_wspath st) b64 resp
      end
  end.

(* webSocketsCheck (not TLS).  EOF mode: requests of at least 4 bytes.  Time-out mode: fewer than 4 bytes
   within 100 ms = "normal socket connection" *)
Definition ws_handshake (tmo : bool) (req : list Z) : hs_result :=
  if tmo && (zlen req <? 4) then HsPlain
  else if prefix_cs s_rfb req then HsPlain
  else if negb (prefix_cs s_get req) then HsFail None
  else match hs_loop tmo req hs_init with
  | HLFault => HsFault
  | HLGone st => HsFail (hs_wspath st)
  | HLDone st => hs_finish st
  end.
