(* C09 - bookkeeping facts about one decode call that hold for every state and both variants: the reader
   schedule loses at most three events (one per read call) and the stream never grows. *)
From Coq Require Import ZArith List Bool Lia.
From LV Require Import Ws.WsDefs Ws.Base64Defs Ws.WsDecoderModel Ws.WsListProofs Gen.Consts_C09.
Import ListNotations.
Local Open Scope Z_scope.

(* i' is i after j read calls *)
Definition io_after (j : nat) (i i' : io) : Prop :=
  io_sched i' = skipn j (io_sched i) /\ zlen (io_stream i') <= zlen (io_stream i).
Definition io_upto (j : nat) (i i' : io) : Prop := exists k, (k <= j)%nat /\ io_after k i i'.

Lemma io_after_refl : forall i, io_after 0 i i.
Proof. intro i. split; [reflexivity|lia]. Qed.
Lemma io_after_trans : forall a b i1 i2 i3, io_after a i1 i2 -> io_after b i2 i3 -> io_after (a + b) i1 i3.
Proof. intros a b i1 i2 i3 [H1 H2] [H3 H4]. split; [rewrite H3, H1; apply skipn_skipn_nat|lia]. Qed.
Lemma io_upto_refl : forall j i, io_upto j i i.
Proof. intros j i. exists 0%nat. split; [lia|apply io_after_refl]. Qed.
Lemma io_upto_trans : forall a b i1 i2 i3, io_upto a i1 i2 -> io_upto b i2 i3 -> io_upto (a + b) i1 i3.
Proof. intros a b i1 i2 i3 (k1 & L1 & H1) (k2 & L2 & H2). exists (k1 + k2)%nat. split; [lia|eapply io_after_trans; eassumption]. Qed.
Lemma io_upto_weaken : forall a b i i', (a <= b)%nat -> io_upto a i i' -> io_upto b i i'.
Proof. intros a b i i' H (k & L & Hk). exists k. split; [lia|assumption]. Qed.

Lemma reader_io : forall n i r i' t, reader n i = (r, i', t) -> io_after 1 i i'.
Proof.
  intros n [s sc] r i' t H. unfold reader in H. cbn [io_sched io_stream] in H. unfold io_after.
  destruct sc as [|e sc']; [inversion H; subst; cbn; split; [reflexivity|lia]|].
  destruct e; try (inversion H; subst; cbn; split; [reflexivity|lia]).
  destruct (Z.min (Z.max k 0) (Z.min (zlen s) n) <=? 0) eqn:E.
  - destruct (n =? 0); inversion H; subst; cbn; split; try reflexivity; lia.
  - inversion H; subst. cbn [io_sched io_stream skipn]. split; [reflexivity|].
    unfold zlen. rewrite skipn_length. lia.
Qed.

Definition hread_io (r : hread) (P : io -> Prop) : Prop :=
  match r with
  | HRFault => True
  | HRPending i' _ | HRErr _ i' _ | HRClosed i' _ | HRGot _ i' _ => P i'
  end.
Definition hres_io (r : hres) (P : io -> Prop) : Prop :=
  match r with HFault => True | HRet _ _ _ _ _ i' _ => P i' end.
Definition dres_io (r : dres) (P : io -> Prop) : Prop :=
  match r with DFault => True | DRet _ _ _ _ _ i' _ => P i' end.

Lemma hdr_read_io : forall fx w i n log, hread_io (hdr_read fx w i n log) (io_after 1 i).
Proof.
  intros fx w i n log. unfold hdr_read. destruct (reader (to_u64 n) i) as [[r i'] t] eqn:E.
  apply reader_io in E. destruct r; cbn; try assumption.
  - destruct (buf_write _ _ _); cbn; [assumption|exact I].
  - destruct fx; cbn; assumption.
Qed.

Lemma hdr_finish_io : forall w i log, hres_io (hdr_finish w i log) (fun i' => i' = i).
Proof.
  intros w i log. unfold hdr_finish, h_err, h_pending. cbv zeta.
  repeat match goal with
  | |- hres_io (match ?x with _ => _ end) _ => destruct x
  | |- hres_io (if ?x then _ else _) _ => destruct x
  end; cbn; auto.
Qed.

Lemma hdr_after_io : forall fx b1 w i log, hres_io (hdr_after fx b1 w i log) (io_upto 1 i).
Proof.
  intros fx b1 w i log. unfold hdr_after. cbv zeta.
  destruct (Z.land b1 128 =? 0); [cbn; apply io_upto_refl|].
  match goal with |- hres_io (if ?c then _ else _) _ => destruct c end.
  - match goal with |- context [hdr_read fx ?w3 i ?n log] => pose proof (hdr_read_io fx w3 i n log) as H; destruct (hdr_read fx w3 i n log) end;
      cbn in *; try exact I; try (exists 1%nat; split; [lia|assumption]).
    pose proof (hdr_finish_io w0 i0 log0) as F. destruct (hdr_finish w0 i0 log0); cbn in *; [exact I|]. subst.
    exists 1%nat. split; [lia|assumption].
  - match goal with |- context [hdr_finish ?w3 i log] => pose proof (hdr_finish_io w3 i log) as F; destruct (hdr_finish w3 i log) end;
      cbn in *; [exact I|]. subst. apply io_upto_refl.
Qed.

Lemma hdr_parse_io : forall fx w i log, hres_io (hdr_parse fx w i log) (io_upto 1 i).
Proof.
  intros fx w i log. unfold hdr_parse. cbv zeta.
  destruct (buf_get (w_buf w) 0); [|exact I]. destruct (buf_get (w_buf w) 1); [|exact I].
  repeat match goal with
  | |- hres_io (if ?x then _ else _) _ => destruct x
  end; try (cbn; apply io_upto_refl); apply hdr_after_io.
Qed.

Lemma read_header_io : forall fx w i, hres_io (read_header fx w i) (io_upto 2 i).
Proof.
  intros fx w i. unfold read_header. cbv zeta.
  match goal with |- hres_io (if ?c then _ else _) _ => destruct c end.
  - destruct (h_nread (w_hd w) <? 2); [cbn; apply io_upto_refl|].
    pose proof (hdr_parse_io fx w i []) as H. destruct (hdr_parse fx w i []); cbn in *; [exact I|].
    eapply io_upto_weaken; [|exact H]. lia.
  - match goal with |- context [hdr_read fx w i ?n []] => pose proof (hdr_read_io fx w i n []) as H; destruct (hdr_read fx w i n []) end;
      cbn in *; try exact I; try (exists 1%nat; split; [lia|assumption]).
    destruct (h_nread (w_hd w0) <? 2); [cbn; exists 1%nat; split; [lia|assumption]|].
    pose proof (hdr_parse_io fx w0 i0 log) as P. destruct (hdr_parse fx w0 i0 log); cbn in *; [exact I|].
    apply (io_upto_trans 1 1 i i0 i1); [exists 1%nat; split; [lia|assumption]|assumption].
Qed.

Lemma deliver_io : forall w i log len data tr bs, dres_io (deliver w i log len data tr bs) (fun i' => i' = i).
Proof.
  intros. unfold deliver. cbv zeta.
  repeat match goal with
  | |- dres_io (match ?x with _ => _ end) _ => destruct x
  | |- dres_io (if ?x then _ else _) _ => destruct x
  end; cbn; auto.
Qed.

Lemma decode_tail_io : forall w i log len n nb bs, dres_io (decode_tail w i log len n nb bs) (fun i' => i' = i).
Proof.
  intros. unfold decode_tail. cbv zeta.
  repeat match goal with
  | |- dres_io (deliver _ _ _ _ _ _ _) _ => apply deliver_io
  | |- dres_io (match ?x with _ => _ end) _ => destruct x
  | |- dres_io (if ?x then _ else _) _ => destruct x
  | |- dres_io (let '(_, _) := ?x in _) _ => destruct x
  end; cbn; auto.
Qed.

Lemma read_and_decode_io : forall fx w i log len nb, dres_io (read_and_decode fx w i log len nb) (io_upto 1 i).
Proof.
  intros. unfold read_and_decode. cbv zeta. destruct (buf_write _ _ _); [|exact I].
  match goal with |- dres_io (if ?c then _ else _) _ => destruct c end.
  - match goal with |- context [reader ?n i] => destruct (reader n i) as [[r i'] t] eqn:E end. apply reader_io in E.
    destruct r as [d | | | e0];
      [| destruct fx; cbn; exists 1%nat; (split; [lia|assumption])
       | cbn; exists 1%nat; (split; [lia|assumption]) | cbn; exists 1%nat; (split; [lia|assumption])].
    destruct (buf_write _ _ _); [|exact I].
    match goal with |- dres_io (decode_tail ?a ?b ?c ?d ?e ?f ?g) _ => pose proof (decode_tail_io a b c d e f g) as T; destruct (decode_tail a b c d e f g) end;
      cbn in *; [exact I|]. subst. exists 1%nat. split; [lia|assumption].
  - match goal with |- dres_io (decode_tail ?a ?b ?c ?d ?e ?f ?g) _ => pose proof (decode_tail_io a b c d e f g) as T; destruct (decode_tail a b c d e f g) end;
      cbn in *; [exact I|]. subst. apply io_upto_refl.
Qed.

Theorem ws_decode_io : forall fx w i len,
  match ws_decode fx w i len with OFault _ => True | ORet _ _ _ _ i' _ => io_upto 3 i i' end.
Proof.
  intros. unfold ws_decode.
  destruct (w_st w =? ST_HEADER_PENDING).
  - pose proof (read_header_io fx w i) as H. destruct (read_header fx w i) as [|s r e np w1 i1 log1]; cbn in *; [exact I|].
    destruct (s =? ST_ERR); [eapply io_upto_weaken; [|exact H]; lia|].
    destruct (negb (s =? ST_HEADER_PENDING)); [|eapply io_upto_weaken; [|exact H]; lia].
    pose proof (read_and_decode_io fx (set_st w1 s) i1 log1 len np) as R.
    destruct (read_and_decode fx (set_st w1 s) i1 log1 len np) as [|s2 r2 e2 d2 w2 i2 log2]; cbn in *; [exact I|].
    apply (io_upto_trans 2 1 i i1 i2); assumption.
  - destruct (w_st w =? ST_DATA_AVAILABLE).
    + destruct (return_data len w); [exact I|apply io_upto_refl].
    + destruct ((w_st w =? ST_DATA_NEEDED) || (w_st w =? ST_CLOSE_REASON_PENDING)); [|apply io_upto_refl].
      pose proof (read_and_decode_io fx w i [] len 0) as R. destruct (read_and_decode fx w i [] len 0) as [|s2 r2 e2 d2 w2 i2 log2]; cbn in *; [exact I|].
      eapply io_upto_weaken; [|exact R]. lia.
Qed.
