(* C09 - decoding a 4-aligned stretch of a base64 text frame yields the corresponding
   3-aligned stretch of the application data. *)
From Coq Require Import ZArith List Bool Lia.
From LV Require Import Ws.WsDefs Ws.Base64Defs Ws.WsListProofs Ws.Base64Proofs.
Import ListNotations.
Local Open Scope Z_scope.

Lemma bytes_ok_firstn : forall n l, bytes_ok l = true -> bytes_ok (firstn n l) = true.
Proof.
  induction n; intros l H; [reflexivity|]. destruct l; [reflexivity|].
  cbn [firstn]. apply bytes_ok_cons in H. destruct H as [H1 H2]. apply bytes_ok_cons. split; [assumption|]. apply IHn, H2.
Qed.
Lemma bytes_ok_skipn : forall n l, bytes_ok l = true -> bytes_ok (skipn n l) = true.
Proof.
  induction n; intros l H; [assumption|]. destruct l; [reflexivity|].
  cbn [skipn]. apply bytes_ok_cons in H. destruct H as [_ H2]. apply IHn, H2.
Qed.

Lemma enc_skipn : forall D j, 0 <= j -> 3 * j <= zlen D ->
  skipn (Z.to_nat (4 * j)) (b64_enc D) = b64_enc (skipn (Z.to_nat (3 * j)) D).
Proof.
  intros D j Hj Hle.
  rewrite <- (firstn_skipn (Z.to_nat (3 * j)) D) at 1.
  assert (zlen (firstn (Z.to_nat (3 * j)) D) = 3 * j) as Hl by (apply zlen_firstn; lia).
  rewrite enc_app by (rewrite Hl, Z.mul_comm; apply Z.mod_mul; lia).
  assert (zlen (b64_enc (firstn (Z.to_nat (3 * j)) D)) = 4 * j) as Hl4.
  { rewrite enc_length, Hl. replace (3 * j + 2) with (2 + j * 3) by lia. rewrite Z.div_add by lia. 
    change (2 / 3) with 0. lia. }
  rewrite <- Hl4. apply skipn_app_exact_z.
Qed.

Lemma enc_firstn : forall D k, 0 <= k -> 3 * k <= zlen D ->
  firstn (Z.to_nat (4 * k)) (b64_enc D) = b64_enc (firstn (Z.to_nat (3 * k)) D).
Proof.
  intros D k Hk Hle.
  rewrite <- (firstn_skipn (Z.to_nat (3 * k)) D) at 1.
  assert (zlen (firstn (Z.to_nat (3 * k)) D) = 3 * k) as Hl by (apply zlen_firstn; lia).
  rewrite enc_app by (rewrite Hl, Z.mul_comm; apply Z.mod_mul; lia).
  assert (zlen (b64_enc (firstn (Z.to_nat (3 * k)) D)) = 4 * k) as Hl4.
  { rewrite enc_length, Hl. replace (3 * k + 2) with (2 + k * 3) by lia. rewrite Z.div_add by lia.
    change (2 / 3) with 0. lia. }
  rewrite <- Hl4. apply firstn_app_exact_z.
Qed.

Lemma text_chunk : forall D a n ts,
  bytes_ok D = true -> a mod 4 = 0 -> n mod 4 = 0 -> 0 <= a -> 0 <= n ->
  a + n <= zlen (b64_enc D) -> n / 4 * 3 < ts ->
  b64_pton (firstn (Z.to_nat n) (skipn (Z.to_nat a) (b64_enc D))) ts =
  Some (firstn (Z.to_nat (n / 4 * 3)) (skipn (Z.to_nat (a / 4 * 3)) D)).
Proof.
  intros D a n ts Hb Ha Hn H0a H0n Hle Hts.
  pose proof (zlen_nonneg _ D) as HD0.
  pose proof (enc_length D) as HL.
  set (j := a / 4). set (k := n / 4).
  assert (a = 4 * j) as Ea by (subst j; pose proof (Z.div_mod a 4 ltac:(lia)); lia).
  assert (n = 4 * k) as En by (subst k; pose proof (Z.div_mod n 4 ltac:(lia)); lia).
  assert (0 <= j) by lia. assert (0 <= k) by lia.
  destruct (Z.eq_dec n 0) as [N0|N0].
  - (* nothing to decode *)
    assert (k = 0) by lia. subst k. rewrite N0. replace (n / 4) with 0 by lia. cbn [Z.mul Z.to_nat firstn].
    unfold b64_pton. cbn. destruct (0 >=? ts) eqn:E; reflexivity.
  - assert (3 * j <= zlen D) as Hj.
    { rewrite HL in Hle. Z.div_mod_to_equations. lia. }
    rewrite Ea. rewrite (enc_skipn D j) by lia.
    replace (j * 3) with (3 * j) by lia.
    set (D2 := skipn (Z.to_nat (3 * j)) D).
    assert (bytes_ok D2 = true) as Hb2 by (apply bytes_ok_skipn; assumption).
    assert (zlen D2 = zlen D - 3 * j) as HD2 by (subst D2; apply zlen_skipn; lia).
    assert (zlen (b64_enc D2) = zlen (b64_enc D) - 4 * j) as HE2.
    { subst D2. rewrite <- enc_skipn by lia. apply zlen_skipn. lia. }
    destruct (Z.eq_dec (a + n) (zlen (b64_enc D))) as [Hc|Hc].
    + (* the rest of the frame *)
      rewrite firstn_all_z by lia.
      rewrite b64_pton_enc; try assumption.
      * f_equal. symmetry. apply firstn_all_z. rewrite (enc_length D2) in HE2. Z.div_mod_to_equations. lia.
      * rewrite (enc_length D2) in HE2. Z.div_mod_to_equations. lia.
    + (* whole groups strictly inside the frame *)
      assert (3 * k <= zlen D2) as Hk.
      { rewrite (enc_length D2) in HE2. Z.div_mod_to_equations. lia. }
      rewrite En. rewrite (enc_firstn D2 k) by lia.
      replace (k * 3) with (3 * k) by lia.
      apply b64_pton_enc.
      * apply bytes_ok_firstn. assumption.
      * rewrite zlen_firstn by lia. lia.
Qed.
