(* C09 - strictness of the decoder (both variants unless stated):
   - local, for every decoder state: an unmasked frame, a fragmented control frame, a continuation
     frame without a message to continue are answered with EPROTO as soon as the first two header
     bytes are interpreted; a length that is not minimally encoded never reaches the payload phase;
     a close frame never yields data and ends with ECONNRESET;
   - end to end (repaired decoder): for every segmentation of the byte stream and every caller
     length, a stream that starts (at a frame boundary) with one of the two-byte violations produces
     EAGAIN results followed by EPROTO - never data. *)
From Coq Require Import ZArith List Bool Lia.
From LV Require Import Ws.WsDefs Ws.Base64Defs Ws.WsSpecDefs Ws.WsDecoderModel Ws.WsTransparency
  Ws.WsListProofs Ws.Base64Proofs Ws.WsDecoderProofs1 Ws.WsDecoderProofs2 Ws.WsDecoderProofs4 Ws.WsDecoderProofs5
  Gen.Consts_C09.
Import ListNotations.
Local Open Scope Z_scope.

Definition is_eproto (r : hres) (i : io) (log : rqlog) : Prop := exists w', r = h_err EPROTO w' i log.

Lemma hdr_after_unmasked : forall fx b1 w i log, Z.land b1 128 = 0 -> is_eproto (hdr_after fx b1 w i log) i log.
Proof. intros fx b1 w i log H. unfold hdr_after. rewrite H. change (0 =? 0) with true. cbv iota. eexists. reflexivity. Qed.

(* (a) MASK bit clear *)
Lemma strict_unmasked : forall fx w i log b0 b1,
  buf_get (w_buf w) 0 = Some b0 -> buf_get (w_buf w) 1 = Some b1 -> Z.land b1 128 = 0 ->
  is_eproto (hdr_parse fx w i log) i log.
Proof.
  intros fx w i log b0 b1 G0 G1 H. unfold hdr_parse. rewrite G0, G1.
  destruct (is_control (Z.land b0 15)).
  - destruct (Z.shiftr (Z.land b0 128) 7 =? 0); [eexists; reflexivity|apply hdr_after_unmasked; assumption].
  - destruct (Z.land b0 15 =? OP_CONT).
    + match goal with |- context [if ?c then _ else _] => destruct c end; [eexists; reflexivity|apply hdr_after_unmasked; assumption].
    + apply hdr_after_unmasked; assumption.
Qed.

(* (b) control frame with FIN = 0 *)
Lemma strict_fragmented_control : forall fx w i log b0 b1,
  buf_get (w_buf w) 0 = Some b0 -> buf_get (w_buf w) 1 = Some b1 ->
  is_control (Z.land b0 15) = true -> Z.shiftr (Z.land b0 128) 7 = 0 ->
  is_eproto (hdr_parse fx w i log) i log.
Proof.
  intros fx w i log b0 b1 G0 G1 Hc Hf. unfold hdr_parse. rewrite G0, G1, Hc, Hf. change (0 =? 0) with true. cbv iota.
  eexists. reflexivity.
Qed.

(* (c) continuation frame although no fragmented message is open *)
Lemma strict_cont_without_start : forall fx w i log b0 b1,
  buf_get (w_buf w) 0 = Some b0 -> buf_get (w_buf w) 1 = Some b1 ->
  Z.land b0 15 = OP_CONT -> w_contop w = OP_INVALID ->
  is_eproto (hdr_parse fx w i log) i log.
Proof.
  intros fx w i log b0 b1 G0 G1 Ho Hc. unfold hdr_parse. rewrite G0, G1, Ho.
  change (is_control OP_CONT) with false. cbv iota. change (OP_CONT =? OP_CONT) with true. cbv iota.
  cbn [w_contop set_hd]. rewrite Hc. change (OP_INVALID =? OP_INVALID) with true. cbv iota. eexists. reflexivity.
Qed.

(* (d) the payload phase is only entered with a minimally encoded length *)
Lemma strict_minimal_length : forall w i log s r e np w' i' log',
  hdr_finish w i log = HRet s r e np w' i' log' -> s = ST_DATA_NEEDED ->
  (h_hlen (w_hd w') = HL_SHORT /\ h_plen (w_hd w') < 126) \/
  (h_hlen (w_hd w') = HL_EXT /\ 126 <= h_plen (w_hd w')) \/
  (h_hlen (w_hd w') = HL_LONG /\ 65536 <= h_plen (w_hd w')).
Proof.
  intros w i log s r e np w' i' log' H Hs. unfold hdr_finish in H.
  assert (forall hlen plen mk,
    match mk with
    | Some [m0; m1; m2; m3] =>
        if ((hlen >? HL_SHORT) && (plen <? 126)) || ((hlen >? HL_EXT) && (plen <? 65536))
        then h_err EPROTO w i log
        else HRet ST_DATA_NEEDED (-1) None (h_nread (w_hd w) - hlen)
               (set_nrp (set_rpos (set_wpos (set_hd w (mkHdr (h_nread (w_hd w)) (m0, m1, m2, m3) hlen plen (h_opcode (w_hd w)) (h_fin (w_hd w))))
                                            (h_nread (w_hd w))) hlen) (h_nread (w_hd w) - hlen)) i log
    | _ => HFault
    end = HRet s r e np w' i' log' ->
    h_hlen (w_hd w') = hlen /\ h_plen (w_hd w') = plen /\
    ((hlen >? HL_SHORT) && (plen <? 126)) || ((hlen >? HL_EXT) && (plen <? 65536)) = false) as G.
  { intros hlen plen mk E. destruct mk as [[|m0 [|m1 [|m2 [|m3 [|]]]]]|]; try discriminate.
    destruct (((hlen >? HL_SHORT) && (plen <? 126)) || ((hlen >? HL_EXT) && (plen <? 65536))) eqn:Ec.
    - unfold h_err in E. inversion E. subst. discriminate.
    - inversion E. subst. cbn. repeat split. }
  destruct ((h_plen (w_hd w) <? 126) && (h_nread (w_hd w) >=? HL_SHORT)) eqn:E1.
  - apply G in H. destruct H as (H1 & H2 & H3). apply andb_true_iff in E1. destruct E1 as [E1 _]. apply Z.ltb_lt in E1.
    left. split; [assumption|]. rewrite H2. assumption.
  - destruct ((h_plen (w_hd w) =? 126) && (HL_EXT <=? h_nread (w_hd w))) eqn:E2.
    + destruct (buf_read (w_buf w) 2 2); [|discriminate]. apply G in H. destruct H as (H1 & H2 & H3).
      right. left. split; [assumption|]. rewrite H2. consts. apply orb_false_iff in H3. destruct H3 as [H3 _].
      change (8 >? 6) with true in H3. cbn [andb] in H3. apply Z.ltb_ge in H3. assumption.
    + destruct ((h_plen (w_hd w) =? 127) && (HL_LONG <=? h_nread (w_hd w))) eqn:E3.
      * destruct (buf_read (w_buf w) 2 8); [|discriminate]. apply G in H. destruct H as (H1 & H2 & H3).
        right. right. split; [assumption|]. rewrite H2. consts. apply orb_false_iff in H3. destruct H3 as [_ H3].
        change (14 >? 8) with true in H3. cbn [andb] in H3. apply Z.ltb_ge in H3. assumption.
      * unfold h_pending in H. inversion H. subst. discriminate.
Qed.

(* (e) a close frame never yields data; once complete it ends the connection *)
Lemma strict_close : forall w2 i log len data toReturn bufsize,
  h_opcode (w_hd w2) = OP_CLOSE ->
  match deliver w2 i log len data toReturn bufsize with
  | DFault => True
  | DRet s ret e d _ _ _ =>
      d = [] /\ ret = -1 /\
      ((remaining w2 = 0 /\ s = ST_FRAME_COMPLETE /\ e = Some ECONNRESET) \/
       (remaining w2 <> 0 /\ s = ST_CLOSE_REASON_PENDING /\ e = Some EAGAIN))
  end.
Proof.
  intros w2 i log len data toReturn bufsize Hop. unfold deliver. rewrite Hop.
  change (OP_CLOSE =? OP_CLOSE) with true. cbv iota.
  destruct (remaining w2 =? 0) eqn:E.
  - apply Z.eqb_eq in E. destruct (buf_set (w_buf w2) (w_wpos w2) 0); [|exact I].
    repeat split. left. repeat split; assumption.
  - apply Z.eqb_neq in E. repeat split. right. repeat split; assumption.
Qed.

(* ---------------- end to end: two-byte violations under every segmentation ---------------- *)
Definition bad2 (cont : option bool) (b0 b1 : Z) : bool :=
  (Z.land b1 128 =? 0) ||
  (is_control (Z.land b0 15) && (Z.shiftr (Z.land b0 128) 7 =? 0)) ||
  ((Z.land b0 15 =? OP_CONT) && match cont with None => true | Some _ => false end).

Definition is_again (r : callres) : bool :=
  match r with CRet ret (Some EAGAIN) d => (ret =? -1) && (zlen d =? 0) | _ => false end.

Fixpoint first_hard (rs : list callres) : option callres :=
  match rs with
  | [] => None
  | r :: t => if is_again r then first_hard t else Some r
  end.

(* k (0 or 1) bytes of the offending header are buffered *)
Definition SB (w : ws) (cont : option bool) (b0 : Z) (k : Z) : Prop :=
  w_st w = ST_HEADER_PENDING /\ h_nread (w_hd w) = k /\ (k = 0 \/ k = 1) /\
  (k = 1 -> buf_get (w_buf w) 0 = Some b0) /\ w_contop w = contop_of cont /\ zlen (w_buf w) = ws_buf_size.

Lemma buf_get_write : forall b p d b' j x, buf_write b p d = Some b' -> nth_error d (Z.to_nat (j - p)) = Some x ->
  p <= j < p + zlen d -> buf_get b' j = Some x.
Proof.
  intros b p d b' j x Hw Hn Hj. pose proof (buf_write_len _ _ _ _ Hw) as Hl.
  pose proof (buf_write_inv _ _ _ _ Hw) as (H1 & H2 & ->).
  unfold buf_get. destruct (0 <=? j) eqn:E1; [|lia]. destruct (j <? zlen _) eqn:E2; [|lia]. cbn [andb].
  assert (length (firstn (Z.to_nat p) b) = Z.to_nat p) as Hlp by (rewrite firstn_length; unfold zlen in *; lia).
  rewrite nth_error_app2 by lia. rewrite Hlp. rewrite nth_error_app1.
  - replace (Z.to_nat j - Z.to_nat p)%nat with (Z.to_nat (j - p)) by lia. assumption.
  - unfold zlen in *. lia.
Qed.

Lemma buf_get_write_before : forall b p d b' j, buf_write b p d = Some b' -> 0 <= j < p -> buf_get b' j = buf_get b j.
Proof.
  intros b p d b' j Hw Hj. pose proof (buf_write_len _ _ _ _ Hw) as Hl.
  pose proof (buf_write_inv _ _ _ _ Hw) as (H1 & H2 & E). pose proof (zlen_nonneg _ d).
  unfold buf_get. rewrite Hl. destruct ((0 <=? j) && (j <? zlen b)); [|reflexivity].
  rewrite <- (nth_error_firstn_lt _ b' (Z.to_nat p)) by lia. rewrite <- (nth_error_firstn_lt _ b (Z.to_nat p)) by lia.
  rewrite (buf_write_firstn _ _ _ _ Hw). reflexivity.
Qed.

Lemma strict_step : forall w cont b0 b1 rest k i len,
  SB w cont b0 k -> bad2 cont b0 b1 = true ->
  io_stream i = skipn (Z.to_nat k) (b0 :: b1 :: rest) -> sched_live (io_sched i) = true ->
  exists ret e w' i' log, ws_decode true w i len = ORet ret e [] w' i' log /\ sched_live (io_sched i') = true /\
    ((ret = -1 /\ e = Some EAGAIN /\ exists k', SB w' cont b0 k' /\ io_stream i' = skipn (Z.to_nat k') (b0 :: b1 :: rest) /\
                                       k <= k' /\ (k' = k -> avail_head i = false)) \/
     (ret = -1 /\ e = Some EPROTO)).
Proof.
  intros w cont b0 b1 rest k i len (Hst & Hnr & Hk & Hg0 & Hco & Hbl) Hbad Hs Hl.
  unfold ws_decode. rewrite Hst. change (ST_HEADER_PENDING =? ST_HEADER_PENDING) with true. cbv iota.
  unfold read_header. rewrite Hnr.
  assert ((HL_SHORT - k <=? 0) = false) as En by (unfold HL_SHORT; destruct Hk as [Hk|Hk]; rewrite Hk; reflexivity).
  rewrite En. cbn [andb].
  unfold hdr_read. rewrite to_u64_id by (unfold HL_SHORT, two64; lia).
  destruct (reader_live (HL_SHORT - k) i Hl ltac:(unfold HL_SHORT; lia)) as (r & i' & tag & Hr & Hl' & _ & Hcase).
  rewrite Hr. destruct Hcase as [(-> & Hs' & Hav) | (m & Hm0 & Hmn & Hms & -> & Hs')].
  - (* EAGAIN: nothing changes *)
    unfold h_pending. change (ST_HEADER_PENDING =? ST_ERR) with false. cbv iota.
    change (negb (ST_HEADER_PENDING =? ST_HEADER_PENDING)) with false. cbv iota.
    do 5 eexists. split; [reflexivity|]. split; [assumption|]. left. split; [reflexivity|]. split; [reflexivity|].
    exists k. rewrite spor_id by (right; right; reflexivity). split; [|split; [rewrite Hs'; assumption|split; [lia|]]].
    + unfold SB. cbn [w_st set_st w_hd w_contop w_buf]. repeat split; try assumption; reflexivity.
    + intros _. destruct (avail_head i) eqn:Ea; [|reflexivity]. exfalso. specialize (Hav eq_refl). rewrite Hs in Hav.
      destruct Hk as [Hk|Hk]; rewrite Hk in Hav; cbn in Hav; discriminate Hav.
  - set (d := firstn (Z.to_nat m) (io_stream i)) in *.
    assert (zlen d = m) as Hdl by (subst d; apply zlen_firstn; lia).
    rewrite Hnr.
    destruct (buf_write_ok (w_buf w) k d ltac:(lia) ltac:(unfold ws_buf_size, HL_SHORT in *; lia)) as (b & Hb).
    rewrite Hb. rewrite Hdl. cbn [w_hd set_hd hd_set_nread h_nread].
    destruct (k + m <? 2) eqn:E2.
    + (* only the first byte so far *)
      assert (k = 0 /\ m = 1) as [-> ->] by lia.
      unfold h_pending. change (ST_HEADER_PENDING =? ST_ERR) with false. cbv iota.
      change (negb (ST_HEADER_PENDING =? ST_HEADER_PENDING)) with false. cbv iota.
      do 5 eexists. split; [reflexivity|]. split; [assumption|]. left. split; [reflexivity|]. split; [reflexivity|].
      exists 1. rewrite spor_id by (right; right; reflexivity). split.
      * unfold SB. cbn [w_st set_st w_hd set_hd set_buf hd_set_nread h_nread w_contop w_buf].
        rewrite (buf_write_len _ _ _ _ Hb). repeat split; try assumption; try reflexivity; [right; reflexivity|].
        intros _. apply (buf_get_write _ _ _ _ 0 b0 Hb); [|lia]. subst d. rewrite Hs. reflexivity.
      * split; [rewrite Hs', Hs; reflexivity|]. split; [lia|]. intro Hc. discriminate Hc.
    + (* both offending bytes are there: hdr_parse must fail *)
      set (w1 := set_hd (set_buf w b) (hd_set_nread (w_hd w) (k + m))).
      assert (buf_get (w_buf w1) 0 = Some b0 /\ buf_get (w_buf w1) 1 = Some b1) as [G0 G1].
      { change (w_buf w1) with b. destruct Hk as [-> | ->].
        - split; [apply (buf_get_write _ _ _ _ 0 b0 Hb)|apply (buf_get_write _ _ _ _ 1 b1 Hb)]; try lia;
            subst d; rewrite Hs; cbn [Z.to_nat skipn]; destruct (Z.to_nat m) as [|[|n]] eqn:En'; try lia; reflexivity.
        - split; [rewrite (buf_get_write_before _ _ _ _ 0 Hb) by lia; apply Hg0; reflexivity|].
          apply (buf_get_write _ _ _ _ 1 b1 Hb); try lia. subst d. rewrite Hs. cbn [skipn Z.to_nat Pos.to_nat Pos.iter_op Nat.add].
          change (Z.to_nat (1 - 1)) with 0%nat. destruct (Z.to_nat m) eqn:En'; [lia|reflexivity]. }
      assert (is_eproto (hdr_parse true w1 i' ([] ++ [(k, HL_SHORT - k, tag)])) i' ([] ++ [(k, HL_SHORT - k, tag)])) as (w' & Ew).
      { unfold bad2 in Hbad. repeat rewrite orb_true_iff in Hbad. destruct Hbad as [[Hb1 | Hb2] | Hb3].
        - apply (strict_unmasked true w1 _ _ b0 b1 G0 G1). apply Z.eqb_eq. assumption.
        - apply andb_true_iff in Hb2. destruct Hb2 as [Hc Hf]. apply Z.eqb_eq in Hf.
          apply (strict_fragmented_control true w1 _ _ b0 b1 G0 G1 Hc Hf).
        - apply andb_true_iff in Hb3. destruct Hb3 as [Ho Hn]. apply Z.eqb_eq in Ho. destruct cont; [discriminate|].
          apply (strict_cont_without_start true w1 _ _ b0 b1 G0 G1 Ho). exact Hco. }
      rewrite Ew. unfold h_err. change (ST_ERR =? ST_ERR) with true. cbv iota.
      do 5 eexists. split; [reflexivity|]. split; [assumption|]. right. split; reflexivity.
Qed.

Lemma strict_run : forall lens w cont b0 b1 rest k i,
  SB w cont b0 k -> bad2 cont b0 b1 = true ->
  io_stream i = skipn (Z.to_nat k) (b0 :: b1 :: rest) -> sched_live (io_sched i) = true ->
  match first_hard (fst (fst (ws_run true w i lens))) with
  | None => True
  | Some r => r = CRet (-1) (Some EPROTO) []
  end.
Proof.
  induction lens as [|len lens IH]; intros w cont b0 b1 rest k i HS Hbad Hs Hl; [exact I|].
  destruct (strict_step w cont b0 b1 rest k i len HS Hbad Hs Hl) as (ret & e & w' & i' & log & E & Hl' & Hcase).
  cbn [ws_run]. rewrite E. destruct (ws_run true w' i' lens) as [[rs wf] iof] eqn:Er. cbn [fst first_hard].
  destruct Hcase as [(-> & -> & k' & HS' & Hs' & _) | (-> & ->)].
  - cbn [is_again]. change ((-1 =? -1) && (zlen (@nil Z) =? 0)) with true. cbv iota.
    specialize (IH w' cont b0 b1 rest k' i' HS' Hbad Hs' Hl'). rewrite Er in IH. exact IH.
  - reflexivity.
Qed.

Theorem strict_two_byte_violations : forall cont w b0 b1 rest sched lens,
  BD w cont -> bad2 cont b0 b1 = true -> sched_live sched = true ->
  match first_hard (fst (fst (ws_run true w (mkIO (b0 :: b1 :: rest) sched) lens))) with
  | None => True
  | Some r => r = CRet (-1) (Some EPROTO) []
  end.
Proof.
  intros cont w b0 b1 rest sched lens (Hst & Hnr & Hrl & Hca & Hco & Hbl) Hbad Hl.
  apply (strict_run lens w cont b0 b1 rest 0); try assumption; try reflexivity.
  unfold SB. repeat split; try assumption; try (left; reflexivity). intro; discriminate.
Qed.
