(* C09 - the drain obligation of the server loops (rfbCheckFds in sockets.c and clientInput in main.c:
   `do rfbProcessClientMessage(cl) while (webSocketsHasDataInBuffer(cl))`).

   Payload bytes that webSocketsDecodeHybi has already decoded into codeBufDecode are invisible to
   select(): a loop that goes back to select() while has_data holds leaves RFB messages of
   already-received frames undelivered until the peer sends something else.  The lemma: from any state
   of the geometric invariant G with has_data, repeating decode calls (any caller length >= 1) while
   has_data holds (i) terminates within readlen calls, (ii) never touches the socket (reader state
   unchanged, no read request), (iii) hands out exactly the readlen buffered bytes, every call returning
   at least one byte (call_data: never EAGAIN), and (iv) ends with has_data = false - only then may the loop block again. *)
From Coq Require Import ZArith List Bool Lia.
From LV Require Import Ws.WsDefs Ws.Base64Defs Ws.WsSpecDefs Ws.WsDecoderModel Ws.WsTransparency
  Ws.WsListProofs Ws.WsDecoderProofs1 Ws.WsSafetyProofs Gen.Consts_C09.
Import ListNotations.
Local Open Scope Z_scope.

(* webSocketsHasDataInBuffer (plain transport; since 492ab43: readlen > 0) *)
Definition has_data (w : ws) : bool := 0 <? w_readlen w.

(* a call that hands out bytes (not EAGAIN, not an error) *)
Definition call_data (r : callres) : bool :=
  match r with CRet ret _ d => (0 <? ret) && (zlen d =? ret) | CFault => false end.

Fixpoint drain (fuel : nat) (w : ws) (i : io) (len : Z) : list callres * ws * io :=
  match fuel with
  | O => ([], w, i)
  | S k =>
    if has_data w then
      match ws_decode true w i len with
      | OFault _ => ([CFault], w, i)
      | ORet r e d w' i' _ => let '(rs, wf, iof) := drain k w' i' len in (CRet r e d :: rs, wf, iof)
      end
    else ([], w, i)
  end.

Lemma has_data_state : forall w, G w -> has_data w = true ->
  w_st w = ST_DATA_AVAILABLE /\ 0 <= w_rpos w /\ w_rpos w + w_readlen w <= ws_buf_size /\ zlen (w_buf w) = ws_buf_size.
Proof.
  intros w (Hb & Hc) Hd. unfold has_data in Hd. apply Z.ltb_lt in Hd.
  destruct Hc as [(Hst & (_ & _ & Hrl & _)) | [(Hst & _ & Hrl) | (Hst & _ & Hrl & H1 & H2)]]; try lia; tauto.
Qed.

(* one call in DATA_AVAILABLE: min(len, readlen) buffered bytes, socket untouched *)
Lemma drain_step : forall w i len, G w -> has_data w = true -> 1 <= len ->
  exists d w', ws_decode true w i len = ORet (zlen d) None d w' i [] /\
    zlen d = Z.min len (w_readlen w) /\ w_readlen w' = w_readlen w - zlen d /\ G w'.
Proof.
  intros w i len HG Hd Hlen. destruct (has_data_state w HG Hd) as (Hst & Hr0 & Hr1 & Hb).
  unfold has_data in Hd. apply Z.ltb_lt in Hd.
  pose proof (decode_safe w i len HG ltac:(lia)) as Hsafe.
  unfold ws_decode in *. rewrite Hst in *.
  change (ST_DATA_AVAILABLE =? ST_HEADER_PENDING) with false in *. change (ST_DATA_AVAILABLE =? ST_DATA_AVAILABLE) with true in *.
  cbv iota in *. unfold return_data in *.
  destruct (w_readlen w >? 0) eqn:E0; [|lia].
  destruct (w_readlen w >? len) eqn:E1.
  - rewrite buf_read_ok in * by lia.
    set (d := firstn (Z.to_nat len) (skipn (Z.to_nat (w_rpos w)) (w_buf w))) in *.
    assert (zlen d = len) as Hdl by (subst d; apply zlen_firstn; rewrite zlen_skipn by lia; lia).
    exists d. eexists. rewrite Hdl. split; [reflexivity|]. split; [lia|]. split; [|tauto].
    unfold spor. cbn [w_st set_st]. change (ST_DATA_AVAILABLE =? ST_FRAME_COMPLETE) with false.
    change (ST_DATA_AVAILABLE =? ST_ERR) with false. cbv iota. cbn [w_readlen set_st set_rpos set_readlen]. reflexivity.
  - rewrite buf_read_ok in * by lia.
    set (d := firstn (Z.to_nat (w_readlen w)) (skipn (Z.to_nat (w_rpos w)) (w_buf w))) in *.
    assert (zlen d = w_readlen w) as Hdl by (subst d; apply zlen_firstn; rewrite zlen_skipn by lia; lia).
    exists d. eexists. rewrite Hdl. split; [reflexivity|]. split; [lia|]. split; [|tauto].
    rewrite Z.sub_diag.
    destruct (remaining w =? 0).
    + unfold spor. cbn [w_st set_st]. change (ST_FRAME_COMPLETE =? ST_FRAME_COMPLETE) with true. cbv iota.
      match goal with |- context [if ?c then _ else _] => destruct c end; reflexivity.
    + unfold spor. cbn [w_st set_st]. change (ST_DATA_NEEDED =? ST_FRAME_COMPLETE) with false.
      change (ST_DATA_NEEDED =? ST_ERR) with false. cbv iota. reflexivity.
Qed.

Lemma drain_complete_gen : forall fuel w i len, G w -> 1 <= len -> w_readlen w <= Z.of_nat fuel ->
  let '(rs, w', i') := drain fuel w i len in
  has_data w' = false /\ i' = i /\ G w' /\ forallb call_data rs = true /\
  zlen (delivered rs) = Z.max 0 (w_readlen w) /\ zlen rs <= Z.max 0 (w_readlen w).
Proof.
  induction fuel as [|k IH]; intros w i len HG Hlen Hf.
  - cbn [drain]. unfold has_data. destruct (0 <? w_readlen w) eqn:E; [apply Z.ltb_lt in E; lia|].
    apply Z.ltb_ge in E. change (zlen (@nil Z)) with 0. change (zlen (@nil callres)) with 0. cbn [delivered forallb].
    change (zlen (@nil Z)) with 0. split; [reflexivity|]. split; [reflexivity|]. split; [exact HG|]. split; [reflexivity|]. split; lia.
  - cbn [drain]. destruct (has_data w) eqn:Hd.
    + destruct (drain_step w i len HG Hd Hlen) as (d & w' & E & Hdl & Hrl' & HG').
      rewrite E. unfold has_data in Hd. apply Z.ltb_lt in Hd.
      specialize (IH w' i len HG' Hlen ltac:(lia)).
      destruct (drain k w' i len) as [[rs wf] iof]. destruct IH as (I1 & I2 & I3 & I4 & I5 & I6).
      pose proof (zlen_nonneg _ d).
      split; [assumption|]. split; [assumption|]. split; [assumption|]. split; [|split].
      * cbn [forallb]. rewrite I4, andb_true_r. unfold call_data.
        destruct (0 <? zlen d) eqn:E0; [|lia]. rewrite Z.eqb_refl. reflexivity.
      * cbn [delivered]. rewrite zlen_app, I5. lia.
      * rewrite zlen_cons. lia.
    + unfold has_data in Hd. apply Z.ltb_ge in Hd. cbn [delivered forallb].
      change (zlen (@nil Z)) with 0. change (zlen (@nil callres)) with 0. unfold has_data.
      destruct (0 <? w_readlen w) eqn:E; [apply Z.ltb_lt in E; lia|].
      split; [reflexivity|]. split; [reflexivity|]. split; [exact HG|]. split; [reflexivity|]. split; lia.
Qed.

Theorem drain_complete : forall w i len, G w -> 1 <= len ->
  let '(rs, w', i') := drain (Z.to_nat (w_readlen w)) w i len in
  has_data w' = false /\ i' = i /\ G w' /\ forallb call_data rs = true /\
  zlen (delivered rs) = Z.max 0 (w_readlen w) /\ zlen rs <= Z.max 0 (w_readlen w).
Proof. intros w i len HG Hlen. apply drain_complete_gen; try assumption. lia. Qed.

(* the converse, why the obligation exists: with has_data the buffered bytes are obtained without any
   read request, so no readable event will ever announce them *)
Lemma buffered_bytes_need_no_read : forall w i len, G w -> has_data w = true -> 1 <= len ->
  exists d w', ws_decode true w i len = ORet (zlen d) None d w' i [] /\ 0 < zlen d.
Proof.
  intros w i len HG Hd Hlen. destruct (drain_step w i len HG Hd Hlen) as (d & w' & E & Hdl & _).
  exists d, w'. split; [assumption|]. unfold has_data in Hd. apply Z.ltb_lt in Hd. lia.
Qed.
