(* C09 - strictness end to end, part 3 (repaired decoder): the close frame.  From any between-frames state, a
   masked final close frame (payload 0..125 bytes: status code and reason) under every segmentation: only
   EAGAIN results while it arrives, then -1/ECONNRESET; no byte of it - nor anything after it before the
   error - is ever delivered.  With bytes always available the error comes within 6 + L + 1 calls. *)
From Coq Require Import ZArith List Bool Lia.
From LV Require Import Ws.WsDefs Ws.Base64Defs Ws.WsSpecDefs Ws.WsDecoderModel Ws.WsTransparency
  Ws.WsListProofs Ws.WsDecoderProofs1 Ws.WsDecoderProofs2 Ws.WsDecoderProofs3 Ws.WsDecoderProofs4 Ws.WsDecoderProofs5
  Ws.WsStrictProofs Ws.WsSafetyProofs Ws.WsSchedProofs Ws.WsProgressProofs Ws.WsStrict2Proofs Gen.Consts_C09.
Import ListNotations.
Local Open Scope Z_scope.

(* header of a masked final close frame with L payload bytes *)
Definition close_header (L m0 m1 m2 m3 : Z) : list Z := [136; 128 + L; m0; m1; m2; m3].

(* the payload of the close frame is being read: q of L bytes consumed *)
Definition IC (w : ws) (L q : Z) : Prop :=
  zlen (w_buf w) = ws_buf_size /\ G_pay w /\ w_readlen w <= 0 /\
  (w_st w = ST_DATA_NEEDED \/ w_st w = ST_CLOSE_REASON_PENDING) /\
  h_opcode (w_hd w) = OP_CLOSE /\ h_plen (w_hd w) = L /\ w_nrp w = q /\ 0 <= q <= L /\ L <= 125 /\
  w_wpos w + zlen (w_carry w) = 6 + q.

Lemma spor_close_pending : forall w, spor (set_st w ST_CLOSE_REASON_PENDING) = set_st w ST_CLOSE_REASON_PENDING.
Proof. intro w. unfold spor. cbn [w_st set_st]. reflexivity. Qed.

Lemma close_payload_rad : forall w L q i M rest len log0,
  IC w L q -> zlen M = L -> io_stream i = skipn (Z.to_nat q) M ++ rest -> sched_live (io_sched i) = true ->
  exists e w' i' log, of_dres (read_and_decode true w i log0 len 0) = ORet (-1) (Some e) [] w' i' log /\ sched_live (io_sched i') = true /\
    ((e = EAGAIN /\ exists q', IC w' L q' /\ q <= q' /\ io_stream i' = skipn (Z.to_nat q') M ++ rest /\
                               (q' = q -> avail_head i = false)) \/
     e = ECONNRESET).
Proof.
  intros w L q i M rest len log0 (Hb & (Hhl & Hw0 & Hw1 & Hc3) & Hrl & Hst & Hop & Hpl & Hnrp & Hq & HL & Hwq) HM Hs Hl.
  pose proof (zlen_nonneg _ (w_carry w)) as Hc0.
  unfold read_and_decode.
  destruct (buf_write_ok (w_buf w) (w_wpos w) (w_carry w) ltac:(lia) ltac:(lia)) as (b1 & Hb1). rewrite Hb1.
  pose proof (buf_write_len _ _ _ _ Hb1) as Hb1l.
  unfold w_carrylen. set (cl := zlen (w_carry w)) in *. set (wp := w_wpos w) in *.
  set (w1 := set_wpos (set_buf w b1) (wp + cl)).
  set (bufsize := ws_buf_size - (wp + cl) - 1).
  assert (1900 <= bufsize < two31) as Hbs by (subst bufsize; unfold ws_buf_size, two31 in *; lia).
  rewrite (to_u64_id bufsize) by (unfold two64, two31 in *; lia).
  assert (remaining w1 = L - q) as Hrem.
  { unfold remaining, w1. cbn [w_hd set_wpos set_buf w_nrp]. rewrite Hpl, Hnrp. apply to_u64_id. unfold two64. lia. }
  rewrite Hrem. destruct (L - q >? bufsize) eqn:Eg; [lia|]. rewrite (to_int_id (L - q)) by (unfold two31; lia).
  (* decode_tail with n more bytes: the CLOSE branch of deliver *)
  assert (forall n b2 i' log', 0 <= n <= L - q -> zlen b2 = ws_buf_size ->
     exists w', of_dres (decode_tail (set_wpos (set_nrp (set_buf w1 b2) (w_nrp w1 + n)) (wp + cl + n)) i' log' len n 0 bufsize)
                = ORet (-1) (Some (if q + n =? L then ECONNRESET else EAGAIN)) [] w' i' log' /\
                (q + n <> L -> IC w' L (q + n))) as Htail.
  { intros n b2 i' log' Hn Hb2.
    set (w' := set_wpos (set_nrp (set_buf w1 b2) (w_nrp w1 + n)) (wp + cl + n)).
    assert (remaining w' = L - (q + n)) as Hrem'.
    { unfold remaining, w', w1. cbn [w_hd set_wpos set_nrp set_buf w_nrp]. rewrite Hpl, Hnrp. apply to_u64_id. unfold two64. lia. }
    unfold decode_tail. rewrite Hrem'.
    set (wc := if L - (q + n) =? 0 then set_st w' ST_FRAME_COMPLETE else w').
    assert (w_buf wc = b2 /\ w_wpos wc = wp + cl + n /\ w_carry wc = w_carry w /\ w_hd wc = w_hd w /\ w_readlen wc = w_readlen w /\
            w_nrp wc = q + n /\ (w_st wc =? ST_FRAME_COMPLETE) = (L - (q + n) =? 0)) as (F1 & F2 & F3 & F4 & F5 & F6 & F7).
    { subst wc. destruct (L - (q + n) =? 0); cbn; rewrite ?Hnrp; repeat split; try reflexivity.
      destruct Hst as [E|E]; rewrite E; reflexivity. }
    unfold w_carrylen. rewrite F3. fold cl. rewrite F1, F2, F7.
    set (t := n + cl + 0). assert (0 <= t) by (subst t; lia).
    destruct (t <? 0) eqn:Et; [lia|].
    replace (wp + cl + n - t) with wp by (subst t; lia).
    rewrite buf_read_ok by (subst t; unfold ws_buf_size in *; lia).
    set (region := firstn (Z.to_nat t) (skipn (Z.to_nat wp) b2)).
    assert (zlen region = t) as Hrl' by (subst region; apply zlen_firstn; rewrite zlen_skipn by (unfold ws_buf_size in *; lia); subst t; unfold ws_buf_size in *; lia).
    destruct (unmask_region_G (h_mask (w_hd wc)) (L - (q + n) =? 0) t region Hrl') as (r2 & c' & E & Hr2 & Hc').
    rewrite E.
    set (cl' := if L - (q + n) =? 0 then 0 else t - t / 4 * 4) in *.
    assert (0 <= cl' <= 3 /\ cl' <= t) as (Hcl' & Hclt).
    { subst cl'. destruct (L - (q + n) =? 0); [lia|]. Z.div_mod_to_equations. lia. }
    destruct ((cl' <? 0) || (cl' >? ws_carry_size)) eqn:Eio.
    { unfold ws_carry_size in Eio. apply orb_true_iff in Eio. destruct Eio; lia. }
    destruct (buf_write_ok b2 wp r2 ltac:(lia) ltac:(subst t; unfold ws_buf_size in *; lia)) as (b3 & Hb3). rewrite Hb3.
    unfold deliver. cbn [w_hd set_wpos set_carry set_buf]. rewrite F4, Hop.
    change (OP_CLOSE =? OP_CLOSE) with true. cbv iota.
    assert (remaining (set_wpos (set_carry (set_buf wc b3) c') (wp + cl + n - cl')) = L - (q + n)) as Hrem2.
    { unfold remaining. cbn [w_hd set_wpos set_carry set_buf w_nrp]. rewrite F4, F6, Hpl. apply to_u64_id. unfold two64. lia. }
    rewrite Hrem2.
    destruct (L - (q + n) =? 0) eqn:Ec.
    - apply Z.eqb_eq in Ec. unfold buf_set. cbn [w_buf w_wpos set_wpos set_carry set_buf].
      destruct (buf_write_ok b3 (wp + cl + n - cl') [0] ltac:(lia) ltac:(change (zlen [0]) with 1; rewrite (buf_write_len _ _ _ _ Hb3); unfold ws_buf_size in *; lia)) as (b4 & Hb4).
      rewrite Hb4. replace (q + n =? L) with true by (symmetry; apply Z.eqb_eq; lia).
      eexists. split; [reflexivity|]. intro Hc. lia.
    - apply Z.eqb_neq in Ec. replace (q + n =? L) with false by (symmetry; apply Z.eqb_neq; lia).
      eexists. split; [unfold of_dres; rewrite spor_close_pending; reflexivity|]. intros _.
      unfold IC, G_pay. cbn [w_buf w_st w_hd w_wpos w_carry w_readlen w_nrp set_st set_wpos set_carry set_buf].
      rewrite F4, F5, F6, (buf_write_len _ _ _ _ Hb3). fold cl' in Hc'. rewrite Hc'.
      repeat split; try assumption; try lia; try (right; reflexivity); subst t; lia. }
  destruct (L - q >? 0) eqn:E0.
  - destruct (reader_live (L - q) i Hl ltac:(lia)) as (r & i' & tag & Hr & Hl' & _ & Hcase).
    rewrite (to_u64_id (L - q)) by (unfold two64; lia). rewrite Hr.
    destruct Hcase as [(-> & Hs' & Hav) | (m & Hm0 & Hmn & Hms & -> & Hs')].
    + (* EAGAIN: stay in the frame *)
      unfold of_dres. exists EAGAIN. do 3 eexists. split; [reflexivity|]. split; [assumption|]. left. split; [reflexivity|].
      exists q. split; [|split; [lia|split; [rewrite Hs'; assumption|]]].
      * assert (spor (set_st (set_wpos w1 wp) (w_st w)) = set_st (set_wpos w1 wp) (w_st w)) as Esp
          by (unfold spor; cbn [w_st set_st]; destruct Hst as [E|E]; rewrite E; reflexivity).
        rewrite Esp. unfold IC, G_pay, w1. cbn [w_buf w_st w_hd w_wpos w_carry w_readlen w_nrp set_st set_wpos set_buf].
        fold wp cl. repeat split; try assumption; try lia.
      * intros _. apply (stall_nonempty i q L rest M); try assumption; lia.
    + assert (firstn (Z.to_nat m) (io_stream i) = firstn (Z.to_nat m) (skipn (Z.to_nat q) M)) as Hd
        by (rewrite Hs; apply firstn_app_z; rewrite zlen_skipn by lia; lia).
      set (d := firstn (Z.to_nat m) (io_stream i)) in *.
      assert (zlen d = m) as Hdl by (rewrite Hd; apply zlen_firstn; rewrite zlen_skipn by lia; lia).
      change (w_buf w1) with b1.
      destruct (buf_write_ok b1 (wp + cl) d ltac:(lia) ltac:(unfold ws_buf_size in *; lia)) as (b2 & Hb2). rewrite Hb2, Hdl.
      destruct (Htail m b2 i' (log0 ++ [(wp + cl, L - q, tag)]) ltac:(lia) ltac:(rewrite (buf_write_len _ _ _ _ Hb2); lia)) as (w' & Ew & HIC).
      rewrite Ew. do 4 eexists. split; [reflexivity|]. split; [assumption|].
      destruct (q + m =? L) eqn:Ef; [right; reflexivity|]. apply Z.eqb_neq in Ef. left. split; [reflexivity|].
      exists (q + m). split; [apply HIC; assumption|]. split; [lia|]. split; [|intro Hc; lia].
      rewrite Hs', Hs. rewrite skipn_app_z by (rewrite zlen_skipn by lia; lia). rewrite skipn_skipn_z by lia.
      replace (m + q) with (q + m) by lia. reflexivity.
  - (* empty (rest of the) payload: complete at once *)
    assert (q = L) as -> by lia.
    replace w1 with (set_wpos (set_nrp (set_buf w1 b1) (w_nrp w1 + 0)) (wp + cl + 0)).
    2:{ unfold w1. rewrite !Z.add_0_r. destruct w. reflexivity. }
    destruct (Htail 0 b1 i log0 ltac:(lia) ltac:(lia)) as (w' & Ew & _). rewrite Ew.
    rewrite Z.add_0_r, Z.eqb_refl. do 4 eexists. split; [reflexivity|]. split; [assumption|]. right. reflexivity.
Qed.

Lemma close_payload_step : forall w L q i M rest len,
  IC w L q -> zlen M = L -> io_stream i = skipn (Z.to_nat q) M ++ rest -> sched_live (io_sched i) = true ->
  exists e w' i' log, ws_decode true w i len = ORet (-1) (Some e) [] w' i' log /\ sched_live (io_sched i') = true /\
    ((e = EAGAIN /\ exists q', IC w' L q' /\ q <= q' /\ io_stream i' = skipn (Z.to_nat q') M ++ rest /\
                               (q' = q -> avail_head i = false)) \/
     e = ECONNRESET).
Proof.
  intros w L q i M rest len HIC HM Hs Hl.
  assert (ws_decode true w i len = of_dres (read_and_decode true w i [] len 0)) as Ed.
  { destruct HIC as (_ & _ & _ & Hst & _). unfold ws_decode. destruct Hst as [E|E]; rewrite E; reflexivity. }
  rewrite Ed. apply (close_payload_rad w L q i M rest len []); assumption.
Qed.

(* ---------------- header of the close frame ---------------- *)
Definition CP (w : ws) (H : list Z) (k : Z) : Prop := Pfx w H k /\ w_carry w = [] /\ w_readlen w = 0.

Lemma close_header_read : forall w L m0 m1 m2 m3 k i tail,
  0 <= L <= 125 -> CP w (close_header L m0 m1 m2 m3) k -> k < 6 ->
  io_stream i = skipn (Z.to_nat k) (close_header L m0 m1 m2 m3) ++ tail -> sched_live (io_sched i) = true ->
  (exists w' i' log' k', read_header true w i = h_pending w' i' log' /\ CP w' (close_header L m0 m1 m2 m3) k' /\
      k <= k' < 6 /\ io_stream i' = skipn (Z.to_nat k') (close_header L m0 m1 m2 m3) ++ tail /\
      sched_live (io_sched i') = true /\ (k' = k -> avail_head i = false)) \/
  (exists w' i' log', read_header true w i = HRet ST_DATA_NEEDED (-1) None 0 w' i' log' /\
      IC (set_st w' ST_DATA_NEEDED) L 0 /\ io_stream i' = tail /\ sched_live (io_sched i') = true).
Proof.
  intros w L m0 m1 m2 m3 k i tail HL (HP & Hca & Hrl) Hk Hs Hl.
  set (H := close_header L m0 m1 m2 m3) in *.
  assert (zlen H = 6) as HH by reflexivity.
  pose proof HP as (Hbuf & Hnr & Hkr & Hpre).
  unfold read_header. rewrite Hnr. unfold HL_SHORT.
  destruct (6 - k <=? 0) eqn:E; [lia|]. cbn [andb].
  destruct (hdr_read_pfx w H k i tail (6 - k) [] HP ltac:(lia) Hs Hl ltac:(lia) ltac:(lia))
    as [(i' & log' & Hr & Hs' & Hl' & Hav) | (m & b & i' & log' & Hm' & Hr & HP1 & Hs' & Hl')]; rewrite Hr.
  - left. exists w, i', log', k. split; [reflexivity|]. split; [split; [exact HP|split; assumption]|]. split; [lia|].
    split; [rewrite Hs'; exact Hs|]. split; [exact Hl'|]. intros _. exact Hav.
  - set (w1 := set_hd (set_buf w b) (hd_set_nread (w_hd w) (k + m))) in *.
    cbn [w_hd set_hd hd_set_nread h_nread w1].
    destruct (k + m <? 2) eqn:E2.
    + left. exists w1, i', log', (k + m). split; [reflexivity|]. split; [split; [exact HP1|split; assumption]|]. split; [lia|].
      split; [assumption|]. split; [assumption|]. intro Hc. lia.
    + pose proof HP1 as (Hbuf1 & Hnr1 & Hkr1 & Hpre1).
      assert (buf_get (w_buf w1) 0 = Some 136) as G0 by (rewrite (buf_get_prefix _ _ (k + m) 0 Hpre1) by (unfold ws_buf_size in *; lia); reflexivity).
      assert (buf_get (w_buf w1) 1 = Some (128 + L)) as G1 by (rewrite (buf_get_prefix _ _ (k + m) 1 Hpre1) by (unfold ws_buf_size in *; lia); reflexivity).
      unfold hdr_parse. rewrite G0, G1.
      change (Z.land 136 15) with 8. change (is_control 8) with true. cbv iota.
      change (Z.shiftr (Z.land 136 128) 7) with 1. change (1 =? 0) with false. cbv iota.
      destruct (b1_facts L ltac:(lia)) as [B1 B2].
      unfold hdr_after. rewrite B1, B2.
      destruct (L =? 126) eqn:E126; [lia|]. destruct (L =? 127) eqn:E127; [lia|]. cbn [orb].
      unfold hdr_finish. cbn [w_hd set_hd h_plen h_nread]. rewrite Hnr1.
      destruct (L <? 126) eqn:EL; [|lia]. unfold HL_SHORT.
      destruct (k + m >=? 6) eqn:E6; cbn [andb].
      * assert (k + m = 6) as K6 by lia. rewrite K6 in *.
        cbn [w_buf set_hd w_hd h_mask h_hlen h_plen h_opcode h_fin h_nread].
        rewrite (buf_read_prefix _ _ 6 2 4 Hpre1) by (unfold ws_buf_size in *; lia).
        change (firstn (Z.to_nat 4) (skipn (Z.to_nat 2) H)) with [m0; m1; m2; m3].
        change (6 >? 6) with false. cbn [andb orb]. change (6 - 6) with 0.
        right. do 3 eexists. split; [reflexivity|]. split; [|split; assumption].
        unfold IC, G_pay. cbn [w_buf w_st w_hd w_wpos w_carry w_readlen w_nrp set_st set_nrp set_rpos set_wpos set_hd set_buf
          h_hlen h_opcode h_plen w1]. rewrite Hca, Hrl. change (zlen (@nil Z)) with 0. unfold ws_buf_size in *.
        repeat split; try lia; try reflexivity; try (left; reflexivity). exact Hbuf1.
      * rewrite E126, E127. cbn [andb].
        left. eexists _, i', log', (k + m). split; [reflexivity|]. split; [split; [exact HP1|split; assumption]|]. split; [lia|].
        split; [assumption|]. split; [assumption|]. intro Hc. lia.
Qed.

(* ---------------- the whole close frame ---------------- *)
(* position inside the close frame: pos = bytes of header + payload consumed so far (0 .. 6 + L) *)
Definition CS (w : ws) (i : io) (L m0 m1 m2 m3 : Z) (M rest : list Z) (pos : Z) : Prop :=
  (pos < 6 /\ w_st w = ST_HEADER_PENDING /\ CP w (close_header L m0 m1 m2 m3) pos /\
   io_stream i = skipn (Z.to_nat pos) (close_header L m0 m1 m2 m3) ++ M ++ rest) \/
  (6 <= pos /\ IC w L (pos - 6) /\ io_stream i = skipn (Z.to_nat (pos - 6)) M ++ rest).

Lemma close_step : forall w i L m0 m1 m2 m3 M rest pos len,
  0 <= L <= 125 -> zlen M = L -> CS w i L m0 m1 m2 m3 M rest pos -> sched_live (io_sched i) = true ->
  exists e w' i' log, ws_decode true w i len = ORet (-1) (Some e) [] w' i' log /\ sched_live (io_sched i') = true /\
    ((e = EAGAIN /\ exists pos', CS w' i' L m0 m1 m2 m3 M rest pos' /\ pos <= pos' /\ (pos' = pos -> avail_head i = false)) \/
     e = ECONNRESET).
Proof.
  intros w i L m0 m1 m2 m3 M rest pos len HL HM [(Hp & Hst & HCP & Hs) | (Hp & HIC & Hs)] Hl.
  - (* header *)
    pose proof HCP as ((_ & _ & Hkr & _) & _).
    destruct (close_header_read w L m0 m1 m2 m3 pos i (M ++ rest) HL HCP Hp Hs Hl)
      as [(w' & i' & log' & k' & E & HCP' & Hk' & Hs' & Hl' & Hstall) | (w' & i' & log' & E & HIC & Hs' & Hl')].
    + unfold ws_decode. rewrite Hst. change (ST_HEADER_PENDING =? ST_HEADER_PENDING) with true. cbv iota. rewrite E.
      unfold h_pending. change (ST_HEADER_PENDING =? ST_ERR) with false. cbv iota.
      change (negb (ST_HEADER_PENDING =? ST_HEADER_PENDING)) with false. cbv iota.
      exists EAGAIN. do 3 eexists. split; [reflexivity|]. split; [assumption|]. left. split; [reflexivity|].
      exists k'. rewrite spor_id by (right; right; reflexivity). split; [|split; [lia|assumption]].
      left. split; [lia|]. split; [reflexivity|]. split; [exact HCP'|assumption].
    + unfold ws_decode. rewrite Hst. change (ST_HEADER_PENDING =? ST_HEADER_PENDING) with true. cbv iota. rewrite E.
      change (ST_DATA_NEEDED =? ST_ERR) with false. cbv iota. change (negb (ST_DATA_NEEDED =? ST_HEADER_PENDING)) with true. cbv iota.
      destruct (close_payload_rad (set_st w' ST_DATA_NEEDED) L 0 i' M rest len log' HIC HM ltac:(cbn [Z.to_nat skipn]; exact Hs') Hl')
        as (e & w2 & i2 & log2 & E2 & Hl2 & Hcase).
      rewrite E2. exists e, w2, i2, log2. split; [reflexivity|]. split; [assumption|].
      destruct Hcase as [(-> & q' & HIC' & Hq' & Hs2 & _) | ->]; [left|right; reflexivity]. split; [reflexivity|].
      exists (6 + q'). split; [|split; [lia|intro Hc; lia]].
      right. split; [lia|]. replace (6 + q' - 6) with q' by lia. split; assumption.
  - (* payload *)
    destruct (close_payload_step w L (pos - 6) i M rest len HIC HM Hs Hl) as (e & w' & i' & log & E & Hl' & Hcase).
    exists e, w', i', log. split; [assumption|]. split; [assumption|].
    destruct Hcase as [(-> & q' & HIC' & Hq' & Hs' & Hstall) | ->]; [left|right; reflexivity]. split; [reflexivity|].
    exists (6 + q'). split; [|split; [lia|intro Hc; apply Hstall; lia]].
    right. split; [lia|]. replace (6 + q' - 6) with q' by lia. split; assumption.
Qed.

Lemma close_run : forall lens w i L m0 m1 m2 m3 M rest pos,
  0 <= L <= 125 -> zlen M = L -> CS w i L m0 m1 m2 m3 M rest pos -> sched_live (io_sched i) = true ->
  match first_hard (fst (fst (ws_run true w i lens))) with
  | None => True
  | Some r => r = CRet (-1) (Some ECONNRESET) []
  end.
Proof.
  induction lens as [|len lens IH]; intros w i L m0 m1 m2 m3 M rest pos HL HM HCS Hl; [exact I|].
  destruct (close_step w i L m0 m1 m2 m3 M rest pos len HL HM HCS Hl) as (e & w' & i' & log & E & Hl' & Hcase).
  cbn [ws_run]. rewrite E. destruct (ws_run true w' i' lens) as [[rs wf] iof] eqn:Er. cbn [fst first_hard].
  destruct Hcase as [(-> & pos' & HCS' & _) | ->].
  - cbn [is_again]. change ((-1 =? -1) && (zlen (@nil Z) =? 0)) with true. cbv iota.
    specialize (IH w' i' L m0 m1 m2 m3 M rest pos' HL HM HCS' Hl'). rewrite Er in IH. exact IH.
  - reflexivity.
Qed.

Lemma close_run_progress : forall lens w i L m0 m1 m2 m3 M rest pos,
  0 <= L <= 125 -> zlen M = L -> CS w i L m0 m1 m2 m3 M rest pos -> pos <= 6 + L ->
  all_avail (io_sched i) = true -> (3 * length lens <= length (io_sched i))%nat ->
  6 + L - pos + 1 <= Z.of_nat (length lens) ->
  first_hard (fst (fst (ws_run true w i lens))) = Some (CRet (-1) (Some ECONNRESET) []).
Proof.
  induction lens as [|len lens IH]; intros w i L m0 m1 m2 m3 M rest pos HL HM HCS Hpos Ha Hsl Hm.
  - cbn [length] in Hm. lia.
  - pose proof (all_avail_live _ Ha) as Hl.
    destruct (close_step w i L m0 m1 m2 m3 M rest pos len HL HM HCS Hl) as (e & w' & i' & log & E & Hl' & Hcase).
    pose proof (ws_decode_io true w i len) as Hio. rewrite E in Hio. destruct Hio as (j & Hj & Hsch & _).
    cbn [length] in Hsl, Hm. cbn [ws_run]. rewrite E.
    destruct Hcase as [(-> & pos' & HCS' & Hpp & Hstall) | ->].
    + assert (avail_head i = true) as Hah by (apply all_avail_head; [assumption|lia]).
      assert (pos < pos') as Hlt by (destruct (Z.eq_dec pos' pos) as [Ek|Ek]; [specialize (Hstall Ek); rewrite Hah in Hstall; discriminate|lia]).
      assert (pos' <= 6 + L) as Hpos'.
      { destruct HCS' as [(Hp & _) | (Hp & (_ & _ & _ & _ & _ & _ & _ & Hq & _) & _)]; lia. }
      assert (all_avail (io_sched i') = true) as Ha1 by (rewrite Hsch; apply all_avail_skipn; assumption).
      assert (3 * length lens <= length (io_sched i'))%nat as Hsl1 by (rewrite Hsch, skipn_length; lia).
      specialize (IH w' i' L m0 m1 m2 m3 M rest pos' HL HM HCS' Hpos' Ha1 Hsl1 ltac:(lia)).
      destruct (ws_run true w' i' lens) as [[rs wf] iof]. cbn [fst first_hard is_again] in *.
      change ((-1 =? -1) && (zlen (@nil Z) =? 0)) with true. cbv iota. exact IH.
    + destruct (ws_run true w' i' lens) as [[rs wf] iof]. reflexivity.
Qed.

Lemma BD_CS : forall w cont i L m0 m1 m2 m3 M rest,
  BD w cont -> io_stream i = close_header L m0 m1 m2 m3 ++ M ++ rest -> CS w i L m0 m1 m2 m3 M rest 0.
Proof.
  intros w cont i L m0 m1 m2 m3 M rest (Hst & Hnr & Hrl & Hca & _ & Hbl) Hs.
  left. split; [lia|]. split; [assumption|]. split; [|exact Hs].
  unfold CP, Pfx. repeat split; try assumption; try lia. change (zlen (close_header L m0 m1 m2 m3)) with 6. lia.
Qed.

(* every segmentation: EAGAIN*, then ECONNRESET; never data (neither the close payload nor anything behind it) *)
Theorem strict_close_frame : forall cont w L m0 m1 m2 m3 M rest sched lens,
  BD w cont -> 0 <= L <= 125 -> zlen M = L -> sched_live sched = true ->
  match first_hard (fst (fst (ws_run true w (mkIO (close_header L m0 m1 m2 m3 ++ M ++ rest) sched) lens))) with
  | None => True
  | Some r => r = CRet (-1) (Some ECONNRESET) []
  end.
Proof.
  intros cont w L m0 m1 m2 m3 M rest sched lens HB HL HM Hl.
  apply (close_run lens w _ L m0 m1 m2 m3 M rest 0 HL HM); [|assumption].
  apply (BD_CS w cont); [assumption|reflexivity].
Qed.

Theorem strict_close_frame_progress : forall cont w L m0 m1 m2 m3 M rest sched lens,
  BD w cont -> 0 <= L <= 125 -> zlen M = L -> all_avail sched = true ->
  (3 * length lens <= length sched)%nat -> 6 + L + 1 <= Z.of_nat (length lens) ->
  first_hard (fst (fst (ws_run true w (mkIO (close_header L m0 m1 m2 m3 ++ M ++ rest) sched) lens))) = Some (CRet (-1) (Some ECONNRESET) []).
Proof.
  intros cont w L m0 m1 m2 m3 M rest sched lens HB HL HM Ha Hsl Hn.
  apply (close_run_progress lens w _ L m0 m1 m2 m3 M rest 0 HL HM); try assumption; try lia.
  apply (BD_CS w cont); [assumption|reflexivity].
Qed.
