(* C09 - mirror of src/common/base64.c (__b64_ntop / __b64_pton).  Definitions only.
   Characters and bytes are Z; None = the C function returns -1.
   The alphabet and the pad character are re-read from base64.c on every run (Gen.Strs_C09). *)
From Coq Require Import ZArith List Bool.
From LV Require Import Ws.WsDefs Gen.Strs_C09.
Import ListNotations.
Local Open Scope Z_scope.

Definition b64_pad : Z := match b64_pad_s with c :: _ => c | [] => 61 end.

(* Base64[v]; an index outside the table is an explicit failure *)
Definition b64_char (v : Z) : option Z :=
  if (0 <=? v) && (v <? zlen b64_alphabet) then nth_error b64_alphabet (Z.to_nat v) else None.

(* strchr(Base64, ch) - Base64  (ch <> 0) *)
Fixpoint index_of (c : Z) (l : list Z) (i : Z) : option Z :=
  match l with
  | [] => None
  | x :: r => if x =? c then Some i else index_of c r (i + 1)
  end.
Definition b64_pos (c : Z) : option Z := index_of c b64_alphabet 0.

(* the four output sextets of a 3-byte group *)
Definition sext0 (i0 : Z) : Z := Z.shiftr i0 2.
Definition sext1 (i0 i1 : Z) : Z := Z.shiftl (Z.land i0 3) 4 + Z.shiftr i1 4.
Definition sext2 (i1 i2 : Z) : Z := Z.shiftl (Z.land i1 15) 2 + Z.shiftr i2 6.
Definition sext3 (i2 : Z) : Z := Z.land i2 63.

Definition opt_cons4 (a b c d : option Z) (t : option (list Z)) : option (list Z) :=
  match a, b, c, d, t with
  | Some a, Some b, Some c, Some d, Some t => Some (a :: b :: c :: d :: t)
  | _, _, _, _, _ => None
  end.

(* __b64_ntop: dl = datalength so far, ts = targsize *)
Fixpoint ntop_go (src : list Z) (dl ts : Z) : option (list Z) :=
  match src with
  | i0 :: i1 :: i2 :: r =>
      if dl + 4 >? ts then None
      else opt_cons4 (b64_char (sext0 i0)) (b64_char (sext1 i0 i1)) (b64_char (sext2 i1 i2))
                     (b64_char (sext3 i2)) (ntop_go r (dl + 4) ts)
  | [] => if dl >=? ts then None else Some []
  | [i0] =>
      if dl + 4 >? ts then None
      else if dl + 4 >=? ts then None
      else opt_cons4 (b64_char (sext0 i0)) (b64_char (sext1 i0 0)) (Some b64_pad) (Some b64_pad) (Some [])
  | [i0; i1] =>
      if dl + 4 >? ts then None
      else if dl + 4 >=? ts then None
      else opt_cons4 (b64_char (sext0 i0)) (b64_char (sext1 i0 i1)) (b64_char (sext2 i1 0))
                     (Some b64_pad) (Some [])
  end.

(* rfbBase64NtoP(src, srclength, target, targsize): the characters written (without the NUL) *)
Definition b64_ntop (src : list Z) (targsize : Z) : option (list Z) := ntop_go src 0 targsize.

(* ---- __b64_pton ---- *)
Definition is_space (c : Z) : bool := (c =? 32) || ((9 <=? c) && (c <=? 13)).
Definition u8 (v : Z) : Z := v mod 256.

Inductive ploop :=
| PErr
| PEnd (state ti : Z) (out_rev : list Z) (cur : Z)                 (* NUL reached *)
| PPad (rest : list Z) (state ti : Z) (out_rev : list Z) (cur : Z) (* '=' reached; rest follows it *).

(* the main while loop; src = characters before the NUL; cur = content of target[tarindex] *)
Fixpoint pton_loop (src : list Z) (state ti ts : Z) (out : list Z) (cur : Z) : ploop :=
  match src with
  | [] => PEnd state ti out cur
  | ch :: r =>
    if is_space ch then pton_loop r state ti ts out cur
    else if ch =? b64_pad then PPad r state ti out cur
    else match b64_pos ch with
    | None => PErr
    | Some pos =>
      if state =? 0 then
        if ti >=? ts then PErr else pton_loop r 1 ti ts out (u8 (Z.shiftl pos 2))
      else if state =? 1 then
        if ti >=? ts then PErr else
        let byte := Z.lor cur (Z.shiftr pos 4) in
        let nextbyte := u8 (Z.shiftl (Z.land pos 15) 4) in
        if ti + 1 <? ts then pton_loop r 2 (ti + 1) ts (byte :: out) nextbyte
        else if negb (nextbyte =? 0) then PErr
        else pton_loop r 2 (ti + 1) ts (byte :: out) nextbyte
      else if state =? 2 then
        if ti >=? ts then PErr else
        let byte := Z.lor cur (Z.shiftr pos 2) in
        let nextbyte := u8 (Z.shiftl (Z.land pos 3) 6) in
        if ti + 1 <? ts then pton_loop r 3 (ti + 1) ts (byte :: out) nextbyte
        else if negb (nextbyte =? 0) then PErr
        else pton_loop r 3 (ti + 1) ts (byte :: out) nextbyte
      else
        if ti >=? ts then PErr else pton_loop r 0 (ti + 1) ts (Z.lor cur pos :: out) 0
    end
  end.

Fixpoint skip_spaces (l : list Z) : list Z :=
  match l with
  | [] => []
  | c :: r => if is_space c then skip_spaces r else l
  end.

(* after the pad character: what __b64_pton does depending on the state *)
Definition pton_finish_pad (rest : list Z) (state ti ts : Z) (out : list Z) (cur : Z) : option (list Z) :=
  let tail_ok (l : list Z) :=
    match skip_spaces l with
    | [] => if (ti <? ts) && negb (cur =? 0) then None else Some (rev out)
    | _ :: _ => None
    end in
  if (state =? 0) || (state =? 1) then None
  else if state =? 2 then
    match skip_spaces rest with
    | c :: r => if c =? b64_pad then tail_ok r else None
    | [] => None
    end
  else tail_ok rest.

(* rfbBase64PtoN(src, target, targsize) with target <> NULL; src = C string (up to the first 0) *)
Definition b64_pton (src : list Z) (targsize : Z) : option (list Z) :=
  match pton_loop (take_nonzero src) 0 0 targsize [] 0 with
  | PErr => None
  | PEnd state ti out cur => if state =? 0 then Some (rev out) else None
  | PPad rest state ti out cur => pton_finish_pad rest state ti targsize out cur
  end.

(* B64LEN of ws_decode.h *)
Definition b64len (x : Z) : Z := Z.quot (Z.quot (x + 2) 3 * 12) 3.
