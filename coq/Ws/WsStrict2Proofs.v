(* C09 - strictness end to end, part 2 (repaired decoder): a masked frame whose 16- or 64-bit length field
   is not minimal.  From any between-frames state, for every segmentation (data in any pieces, EAGAIN
   anywhere) and caller lengths: only EAGAIN results, then EPROTO; never data.  With bytes always available
   the error comes after at most |header| calls (progress clause of the step lemma). *)
From Coq Require Import ZArith List Bool Lia.
From LV Require Import Ws.WsDefs Ws.Base64Defs Ws.WsSpecDefs Ws.WsDecoderModel Ws.WsTransparency
  Ws.WsListProofs Ws.WsDecoderProofs1 Ws.WsDecoderProofs2 Ws.WsDecoderProofs4 Ws.WsDecoderProofs5
  Ws.WsStrictProofs Ws.WsSafetyProofs Gen.Consts_C09.
Import ListNotations.
Local Open Scope Z_scope.

(* H: the complete header (8 or 14 bytes) of a masked frame with a non-minimal extended length *)
Definition nonminimal_header (H : list Z) : Prop :=
  exists b0 b1 r, H = b0 :: b1 :: r /\ (Z.land b1 128 =? 0) = false /\
    ((Z.land b1 127 = 126 /\ zlen H = 8 /\ be_val (firstn 2 r) 0 < 126) \/
     (Z.land b1 127 = 127 /\ zlen H = 14 /\ be_val (firstn 8 r) 0 < 65536)).

(* k bytes of H are buffered *)
Definition Pfx (w : ws) (H : list Z) (k : Z) : Prop :=
  zlen (w_buf w) = ws_buf_size /\ h_nread (w_hd w) = k /\ 0 <= k <= zlen H /\
  firstn (Z.to_nat k) (w_buf w) = firstn (Z.to_nat k) H.

Lemma hdr_read_pfx : forall w H k i rest n log,
  Pfx w H k -> zlen H <= 14 -> io_stream i = skipn (Z.to_nat k) H ++ rest ->
  sched_live (io_sched i) = true -> 0 < n -> k + n <= zlen H ->
  (exists i' log', hdr_read true w i n log = HRPending i' log' /\ io_stream i' = io_stream i /\
     sched_live (io_sched i') = true /\ avail_head i = false) \/
  (exists m b i' log', 0 < m <= n /\
     hdr_read true w i n log = HRGot (set_hd (set_buf w b) (hd_set_nread (w_hd w) (k + m))) i' log' /\
     Pfx (set_hd (set_buf w b) (hd_set_nread (w_hd w) (k + m))) H (k + m) /\
     io_stream i' = skipn (Z.to_nat (k + m)) H ++ rest /\ sched_live (io_sched i') = true).
Proof.
  intros w H k i rest n log (Hbuf & Hnr & Hkr & Hpre) HH Hs Hl Hn Hk.
  assert (to_u64 n = n) as Hu by (apply to_u64_id; unfold two64; lia).
  destruct (reader_live n i Hl Hn) as (r & i' & tag & Hr & Hl' & _ & Hcase).
  unfold hdr_read. rewrite Hu, Hr.
  destruct Hcase as [(-> & Hs' & Hav) | (m & Hm0 & Hmn & Hms & -> & Hs')].
  - left. do 2 eexists. split; [reflexivity|]. split; [assumption|]. split; [assumption|].
    destruct (avail_head i) eqn:Ea; [|reflexivity]. exfalso. specialize (Hav eq_refl). rewrite Hs in Hav.
    assert (zlen (skipn (Z.to_nat k) H ++ rest) = 0) as Hz by (rewrite Hav; reflexivity).
    rewrite zlen_app, zlen_skipn in Hz by lia. pose proof (zlen_nonneg _ rest). lia.
  - right.
    assert (zlen (skipn (Z.to_nat k) H) = zlen H - k) as Hsk by (apply zlen_skipn; lia).
    assert (firstn (Z.to_nat m) (io_stream i) = firstn (Z.to_nat m) (skipn (Z.to_nat k) H)) as Hd
      by (rewrite Hs; apply firstn_app_z; lia).
    set (d := firstn (Z.to_nat m) (skipn (Z.to_nat k) H)) in *.
    assert (zlen d = m) as Hdl by (subst d; apply zlen_firstn; lia).
    rewrite Hd, Hnr.
    destruct (buf_write_ok (w_buf w) k d ltac:(lia) ltac:(unfold ws_buf_size in *; lia)) as (b & Hb).
    rewrite Hb, Hdl.
    exists m, b, i', (log ++ [(k, n, tag)]). split; [lia|]. split; [reflexivity|]. split; [|split; [|assumption]].
    + unfold Pfx. cbn [w_buf set_hd set_buf w_hd hd_set_nread h_nread].
      split; [rewrite (buf_write_len _ _ _ _ Hb); assumption|]. split; [reflexivity|]. split; [lia|].
      pose proof (buf_write_firstn_ext _ _ _ _ Hb) as E. rewrite Hdl in E. rewrite E, Hpre.
      subst d. symmetry. apply firstn_skipn_split; lia.
    + rewrite Hs', Hs. rewrite skipn_app_z by lia. rewrite skipn_skipn_z by lia.
      replace (m + k) with (k + m) by lia. reflexivity.
Qed.

Definition eproto_or_pending (r : hres) (H : list Z) (k : Z) (i0 : io) (rest : list Z) : Prop :=
  (exists w' i' log' k', r = h_pending w' i' log' /\ Pfx w' H k' /\ k <= k' < zlen H /\
     io_stream i' = skipn (Z.to_nat k') H ++ rest /\ sched_live (io_sched i') = true /\
     (k' = k -> avail_head i0 = false)) \/
  (exists w' i' log', r = h_err EPROTO w' i' log' /\ sched_live (io_sched i') = true).

Lemma hdr_finish_nonmin : forall w H k i log rest,
  nonminimal_header H -> Pfx w H k -> 2 <= k ->
  (forall b0 b1 r, H = b0 :: b1 :: r -> h_plen (w_hd w) = Z.land b1 127) ->
  io_stream i = skipn (Z.to_nat k) H ++ rest -> sched_live (io_sched i) = true ->
  (k < zlen H -> hdr_finish w i log = h_pending w i log) /\
  (k = zlen H -> exists w', hdr_finish w i log = h_err EPROTO w' i log).
Proof.
  intros w H k i log rest (b0 & b1 & r & EH & Hm & Hcase) (Hbuf & Hnr & Hkr & Hpre) Hk2 Hlb Hs Hl.
  specialize (Hlb b0 b1 r EH). unfold hdr_finish. rewrite Hlb, Hnr.
  destruct Hcase as [(Elb & HL & Hv) | (Elb & HL & Hv)]; rewrite Elb.
  - change (126 <? 126) with false. change (126 =? 126) with true. cbn [andb]. unfold HL_EXT. split; intro Hc.
    + destruct (8 <=? k) eqn:E; [lia|]. change (126 =? 127) with false. reflexivity.
    + assert (k = 8) as K8 by lia. rewrite K8 in *. change (8 <=? 8) with true. cbv iota.
      rewrite (buf_read_prefix _ _ 8 2 2 Hpre) by (unfold ws_buf_size in *; lia).
      assert (exists l4, buf_read (w_buf w) 4 4 = Some l4) as (l4 & E4) by (rewrite buf_read_ok by (unfold ws_buf_size in *; lia); eauto).
      rewrite E4. destruct (buf_read_4 _ _ _ E4) as (x0 & x1 & x2 & x3 & ->).
      rewrite EH. cbn [Z.to_nat]. change (Pos.to_nat 2) with 2%nat. cbn [skipn].
      unfold HL_SHORT. change (8 >? 6) with true. cbn [andb].
      destruct (be_val (firstn 2 r) 0 <? 126) eqn:E; [|lia]. cbn [orb]. eexists. reflexivity.
  - change (127 <? 126) with false. change (127 =? 126) with false. change (127 =? 127) with true. cbn [andb]. unfold HL_LONG. split; intro Hc.
    + destruct (14 <=? k) eqn:E; [lia|]. reflexivity.
    + assert (k = 14) as K14 by lia. rewrite K14 in *. change (14 <=? 14) with true. cbv iota.
      rewrite (buf_read_prefix _ _ 14 2 8 Hpre) by (unfold ws_buf_size in *; lia).
      assert (exists l4, buf_read (w_buf w) 10 4 = Some l4) as (l4 & E4) by (rewrite buf_read_ok by (unfold ws_buf_size in *; lia); eauto).
      rewrite E4. destruct (buf_read_4 _ _ _ E4) as (x0 & x1 & x2 & x3 & ->).
      rewrite EH. cbn [Z.to_nat]. change (Pos.to_nat 2) with 2%nat. change (Pos.to_nat 8) with 8%nat. cbn [skipn].
      unfold HL_SHORT, HL_EXT. change (14 >? 8) with true.
      destruct (be_val (firstn 8 r) 0 <? 65536) eqn:E; [|lia]. rewrite !andb_true_r. rewrite orb_true_r. eexists. reflexivity.
Qed.

Lemma hdr_after_nonmin : forall w H k i log rest b0 b1 r,
  nonminimal_header H -> H = b0 :: b1 :: r -> Pfx w H k -> 2 <= k -> k < zlen H ->
  io_stream i = skipn (Z.to_nat k) H ++ rest -> sched_live (io_sched i) = true ->
  eproto_or_pending (hdr_after true b1 w i log) H k i rest.
Proof.
  intros w H k i log rest b0 b1 r HN EH HP Hk2 Hk Hs Hl.
  pose proof HN as (b0' & b1' & r' & EH' & Hm & Hcase). rewrite EH in EH'. inversion EH'. subst b0' b1' r'. clear EH'.
  pose proof HP as (Hbuf & Hnr & Hkr & Hpre).
  unfold hdr_after. rewrite Hm.
  set (lb := Z.land b1 127) in *.
  set (w3 := set_hd w (mkHdr (h_nread (w_hd w)) (h_mask (w_hd w)) (h_hlen (w_hd w)) lb (h_opcode (w_hd w)) (h_fin (w_hd w)))).
  assert (Pfx w3 H k) as HP3 by exact HP.
  assert (forall c0 c1 rr, H = c0 :: c1 :: rr -> h_plen (w_hd w3) = Z.land c1 127) as Hlb3.
  { intros c0 c1 rr E. rewrite EH in E. inversion E. subst. reflexivity. }
  assert (zlen H <= 14 /\ ((lb =? 126) || (lb =? 127)) = true /\ (if lb =? 126 then HL_EXT else HL_LONG) = zlen H) as (HH & Eext & Ehl).
  { destruct Hcase as [(E & HL & _) | (E & HL & _)]; fold lb in E; rewrite E, HL; repeat split; try reflexivity; lia. }
  rewrite Eext, Ehl. cbn [w_hd set_hd h_nread]. rewrite Hnr.
  destruct (hdr_read_pfx w3 H k i rest (zlen H - k) log HP3 HH Hs Hl ltac:(lia) ltac:(lia))
    as [(i' & log' & Hr & Hs' & Hl' & Hav) | (m & b & i' & log' & Hm' & Hr & HP4 & Hs' & Hl')]; rewrite Hr.
  - left. exists w3, i', log', k. split; [reflexivity|]. split; [exact HP3|]. split; [lia|].
    split; [rewrite Hs'; exact Hs|]. split; [exact Hl'|]. intros _. exact Hav.
  - set (w4 := set_hd (set_buf w3 b) (hd_set_nread (w_hd w3) (k + m))) in *.
    assert (forall c0 c1 rr, H = c0 :: c1 :: rr -> h_plen (w_hd w4) = Z.land c1 127) as Hlb4 by exact Hlb3.
    destruct (hdr_finish_nonmin w4 H (k + m) i' log' rest HN HP4 ltac:(lia) Hlb4 Hs' Hl') as [F1 F2].
    destruct (Z.eq_dec (k + m) (zlen H)) as [E|E].
    + destruct (F2 E) as (w' & Ew). rewrite Ew. right. do 3 eexists. split; [reflexivity|assumption].
    + rewrite (F1 ltac:(lia)). left. exists w4, i', log', (k + m). split; [reflexivity|]. split; [exact HP4|]. split; [lia|].
      split; [assumption|]. split; [assumption|]. intro Hc. lia.
Qed.

Lemma hdr_parse_nonmin : forall w H k i log rest,
  nonminimal_header H -> Pfx w H k -> 2 <= k -> k < zlen H ->
  io_stream i = skipn (Z.to_nat k) H ++ rest -> sched_live (io_sched i) = true ->
  eproto_or_pending (hdr_parse true w i log) H k i rest.
Proof.
  intros w H k i log rest HN HP Hk2 Hk Hs Hl.
  pose proof HN as (b0 & b1 & r & EH & Hm & Hcase). pose proof HP as (Hbuf & Hnr & Hkr & Hpre).
  assert (zlen H <= 14) as HH by (destruct Hcase as [(_ & HL & _) | (_ & HL & _)]; lia).
  assert (buf_get (w_buf w) 0 = Some b0) as G0 by (rewrite (buf_get_prefix _ _ k 0 Hpre) by (unfold ws_buf_size in *; lia); rewrite EH; reflexivity).
  assert (buf_get (w_buf w) 1 = Some b1) as G1 by (rewrite (buf_get_prefix _ _ k 1 Hpre) by (unfold ws_buf_size in *; lia); rewrite EH; reflexivity).
  unfold hdr_parse. rewrite G0, G1.
  destruct (is_control (Z.land b0 15)).
  - destruct (Z.shiftr (Z.land b0 128) 7 =? 0); [right; do 3 eexists; (split; [reflexivity|assumption])|].
    apply (hdr_after_nonmin _ H k i log rest b0 b1 r); assumption.
  - destruct (Z.land b0 15 =? OP_CONT).
    + match goal with |- context [if ?c then _ else _] => destruct c end; [right; do 3 eexists; (split; [reflexivity|assumption])|].
      apply (hdr_after_nonmin _ H k i log rest b0 b1 r); assumption.
    + apply (hdr_after_nonmin _ H k i log rest b0 b1 r); assumption.
Qed.

Lemma read_header_nonmin : forall w H k i rest,
  nonminimal_header H -> Pfx w H k -> k < zlen H ->
  io_stream i = skipn (Z.to_nat k) H ++ rest -> sched_live (io_sched i) = true ->
  eproto_or_pending (read_header true w i) H k i rest.
Proof.
  intros w H k i rest HN HP Hk Hs Hl.
  pose proof HN as (b0 & b1 & r & EH & Hm & Hcase). pose proof HP as (Hbuf & Hnr & Hkr & Hpre).
  assert (8 <= zlen H <= 14) as HH by (destruct Hcase as [(_ & HL & _) | (_ & HL & _)]; lia).
  unfold read_header. rewrite Hnr. unfold HL_SHORT.
  destruct (6 - k <=? 0) eqn:E; cbn [andb].
  - destruct (k <? 2) eqn:E2; [lia|]. apply hdr_parse_nonmin; try assumption; lia.
  - destruct (hdr_read_pfx w H k i rest (6 - k) [] HP ltac:(lia) Hs Hl ltac:(lia) ltac:(lia))
      as [(i' & log' & Hr & Hs' & Hl' & Hav) | (m & b & i' & log' & Hm' & Hr & HP1 & Hs' & Hl')]; rewrite Hr.
    + left. exists w, i', log', k. split; [reflexivity|]. split; [exact HP|]. split; [lia|].
      split; [rewrite Hs'; exact Hs|]. split; [exact Hl'|]. intros _. exact Hav.
    + cbn [w_hd set_hd hd_set_nread h_nread].
      destruct (k + m <? 2) eqn:E2.
      * left. do 4 eexists. split; [reflexivity|]. split; [exact HP1|]. split; [lia|]. split; [assumption|]. split; [assumption|].
        intro Hc. lia.
      * destruct (hdr_parse_nonmin _ H (k + m) i' log' rest HN HP1 ltac:(lia) ltac:(lia) Hs' Hl')
          as [(w' & i'' & log'' & k' & E' & HP' & Hk' & Hs'' & Hl'' & _) | Herr]; [|right; exact Herr].
        left. exists w', i'', log'', k'. split; [exact E'|]. split; [exact HP'|]. split; [lia|]. split; [assumption|]. split; [assumption|].
        intro Hc. lia.
Qed.

(* between-frames state + k header bytes buffered *)
Definition NB (w : ws) (H : list Z) (k : Z) : Prop := w_st w = ST_HEADER_PENDING /\ Pfx w H k /\ k < zlen H.

Lemma nonmin_step : forall w H k i rest len,
  nonminimal_header H -> NB w H k -> io_stream i = skipn (Z.to_nat k) H ++ rest -> sched_live (io_sched i) = true ->
  exists ret e w' i' log, ws_decode true w i len = ORet ret e [] w' i' log /\ sched_live (io_sched i') = true /\
    ((ret = -1 /\ e = Some EAGAIN /\ exists k', NB w' H k' /\ io_stream i' = skipn (Z.to_nat k') H ++ rest /\ k <= k' /\
                                     (k' = k -> avail_head i = false)) \/
     (ret = -1 /\ e = Some EPROTO)).
Proof.
  intros w H k i rest len HN (Hst & HP & Hk) Hs Hl.
  unfold ws_decode. rewrite Hst. change (ST_HEADER_PENDING =? ST_HEADER_PENDING) with true. cbv iota.
  destruct (read_header_nonmin w H k i rest HN HP Hk Hs Hl)
    as [(w' & i' & log' & k' & E & HP' & Hk' & Hs' & Hl' & Hstall) | (w' & i' & log' & E & Hl')]; rewrite E.
  - unfold h_pending. change (ST_HEADER_PENDING =? ST_ERR) with false. cbv iota.
    change (negb (ST_HEADER_PENDING =? ST_HEADER_PENDING)) with false. cbv iota.
    do 5 eexists. split; [reflexivity|]. split; [assumption|]. left. split; [reflexivity|]. split; [reflexivity|].
    exists k'. rewrite spor_id by (right; right; reflexivity). split; [|split; [assumption|split; [lia|]]].
    + unfold NB. split; [reflexivity|]. split; [exact HP'|lia].
    + exact Hstall.
  - unfold h_err. change (ST_ERR =? ST_ERR) with true. cbv iota.
    do 5 eexists. split; [reflexivity|]. split; [assumption|]. right. split; reflexivity.
Qed.

Lemma nonmin_run : forall lens w H k i rest,
  nonminimal_header H -> NB w H k -> io_stream i = skipn (Z.to_nat k) H ++ rest -> sched_live (io_sched i) = true ->
  match first_hard (fst (fst (ws_run true w i lens))) with
  | None => True
  | Some r => r = CRet (-1) (Some EPROTO) []
  end.
Proof.
  induction lens as [|len lens IH]; intros w H k i rest HN HB Hs Hl; [exact I|].
  destruct (nonmin_step w H k i rest len HN HB Hs Hl) as (ret & e & w' & i' & log & E & Hl' & Hcase).
  cbn [ws_run]. rewrite E. destruct (ws_run true w' i' lens) as [[rs wf] iof] eqn:Er. cbn [fst first_hard].
  destruct Hcase as [(-> & -> & k' & HB' & Hs' & _) | (-> & ->)].
  - cbn [is_again]. change ((-1 =? -1) && (zlen (@nil Z) =? 0)) with true. cbv iota.
    specialize (IH w' H k' i' rest HN HB' Hs' Hl'). rewrite Er in IH. exact IH.
  - reflexivity.
Qed.

From LV Require Import Ws.WsSchedProofs Ws.WsProgressProofs.

Lemma nonmin_run_progress : forall lens w H k i rest,
  nonminimal_header H -> NB w H k -> io_stream i = skipn (Z.to_nat k) H ++ rest ->
  all_avail (io_sched i) = true -> (3 * length lens <= length (io_sched i))%nat ->
  zlen H - k <= Z.of_nat (length lens) ->
  first_hard (fst (fst (ws_run true w i lens))) = Some (CRet (-1) (Some EPROTO) []).
Proof.
  induction lens as [|len lens IH]; intros w H k i rest HN HB Hs Ha Hsl Hm.
  - destruct HB as (_ & _ & Hk). cbn [length] in Hm. lia.
  - pose proof (all_avail_live _ Ha) as Hl.
    destruct (nonmin_step w H k i rest len HN HB Hs Hl) as (ret & e & w' & i' & log & E & Hl' & Hcase).
    pose proof (ws_decode_io true w i len) as Hio. rewrite E in Hio. destruct Hio as (j & Hj & Hsch & _).
    cbn [length] in Hsl, Hm.
    cbn [ws_run]. rewrite E.
    destruct Hcase as [(-> & -> & k' & HB' & Hs' & Hkk & Hstall) | (-> & ->)].
    + assert (avail_head i = true) as Hah by (apply all_avail_head; [assumption|lia]).
      assert (k < k') as Hlt by (destruct (Z.eq_dec k' k) as [Ek|Ek]; [specialize (Hstall Ek); rewrite Hah in Hstall; discriminate|lia]).
      assert (all_avail (io_sched i') = true) as Ha1 by (rewrite Hsch; apply all_avail_skipn; assumption).
      assert (3 * length lens <= length (io_sched i'))%nat as Hsl1 by (rewrite Hsch, skipn_length; lia).
      specialize (IH w' H k' i' rest HN HB' Hs' Ha1 Hsl1 ltac:(lia)).
      destruct (ws_run true w' i' lens) as [[rs wf] iof]. cbn [fst first_hard is_again] in *.
      change ((-1 =? -1) && (zlen (@nil Z) =? 0)) with true. cbv iota. exact IH.
    + destruct (ws_run true w' i' lens) as [[rs wf] iof]. reflexivity.
Qed.

Lemma BD_NB : forall w cont H, BD w cont -> nonminimal_header H -> NB w H 0.
Proof.
  intros w cont H (Hst & Hnr & _ & _ & _ & Hbl) (b0 & b1 & r & EH & _ & Hcase).
  unfold NB, Pfx. assert (0 < zlen H) by (destruct Hcase as [(_ & HL & _) | (_ & HL & _)]; lia).
  repeat split; try assumption; try lia.
Qed.

(* every segmentation: EAGAIN*, then EPROTO; never data *)
Theorem strict_nonminimal : forall cont w H rest sched lens,
  BD w cont -> nonminimal_header H -> sched_live sched = true ->
  match first_hard (fst (fst (ws_run true w (mkIO (H ++ rest) sched) lens))) with
  | None => True
  | Some r => r = CRet (-1) (Some EPROTO) []
  end.
Proof.
  intros cont w H rest sched lens HB HN Hl.
  apply (nonmin_run lens w H 0 _ rest HN (BD_NB w cont H HB HN)); [reflexivity|assumption].
Qed.

(* bytes always available: the error comes within |H| (8 or 14) calls *)
Theorem strict_nonminimal_progress : forall cont w H rest sched lens,
  BD w cont -> nonminimal_header H -> all_avail sched = true ->
  (3 * length lens <= length sched)%nat -> 14 <= Z.of_nat (length lens) ->
  first_hard (fst (fst (ws_run true w (mkIO (H ++ rest) sched) lens))) = Some (CRet (-1) (Some EPROTO) []).
Proof.
  intros cont w H rest sched lens HB HN Ha Hsl Hn.
  apply (nonmin_run_progress lens w H 0 _ rest HN (BD_NB w cont H HB HN)); try assumption; try reflexivity.
  destruct HN as (b0 & b1 & r & EH & _ & Hcase). destruct Hcase as [(_ & HL & _) | (_ & HL & _)]; lia.
Qed.
