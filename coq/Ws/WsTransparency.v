(* C09 - statement-level definitions for the decoder theorems (what "transparent" means for a
   run of the mirror decoder).  Definitions only. *)
From Coq Require Import ZArith List Bool.
From LV Require Import Ws.WsDefs Ws.Base64Defs Ws.WsSpecDefs Ws.WsDecoderModel Gen.Consts_C09.
Import ListNotations.
Local Open Scope Z_scope.

(* schedules of a live connection: data trickles in, in arbitrary pieces, with EAGAIN anywhere *)
Definition ev_live (e : rev) : bool :=
  match e with RAvail _ => true | RAgain => true | REof => false | RErr _ => false end.
Definition sched_live (s : list rev) : bool := forallb ev_live s.
Definition lens_ok (lens : list Z) : bool := forallb (fun l => (1 <=? l) && (l <? two31)) lens.

Definition errno_eqb (a b : errno) : bool :=
  match a, b with
  | EAGAIN, EAGAIN | EPROTO, EPROTO | ECONNRESET, ECONNRESET | EIO, EIO | EINTR, EINTR => true
  | _, _ => false
  end.

(* a decode call on a healthy conversation either delivers bytes or says "try again" *)
Definition call_ok (r : callres) : bool :=
  match r with
  | CFault => false
  | CRet ret e d =>
    ((0 <? ret) && (zlen d =? ret)) ||
    ((ret =? -1) && match e with Some EAGAIN => true | _ => false end && (zlen d =? 0))
  end.

Fixpoint is_prefix (a b : list Z) : bool :=
  match a, b with
  | [], _ => true
  | x :: a', y :: b' => (x =? y) && is_prefix a' b'
  | _ :: _, [] => false
  end.

(* the decoder is between two frames and holds nothing back *)
Definition at_boundary (w : ws) : bool :=
  (w_st w =? ST_HEADER_PENDING) && (h_nread (w_hd w) =? 0) && (w_readlen w =? 0).

Fixpoint list_eqb (a b : list Z) : bool :=
  match a, b with
  | [], [] => true
  | x :: a', y :: b' => (x =? y) && list_eqb a' b'
  | _, _ => false
  end.

(* the property predicate, executable: every call is healthy, what was delivered is a prefix of
   the application data, and it is all of it once the stream is consumed and nothing is held back *)
Definition transparent_b (fx : bool) (cs : list cframe) (sched : list rev) (lens : list Z) : bool :=
  let '(rs, w', i') := ws_run fx ws_init (mkIO (conv_stream cs) sched) lens in
  forallb call_ok rs && is_prefix (delivered rs) (conv_expected cs) &&
  (negb ((zlen (io_stream i') =? 0) && at_boundary w') || list_eqb (delivered rs) (conv_expected cs)).
