(* C09 - mirror model of src/libvncserver/ws_decode.c (webSocketsDecodeHybi and its helpers).
   Definitions only.

   The model has one switch, [fx : bool]:
     fx = false : the code as it is in /repo (snapshot): EAGAIN inside a frame resets the decoder,
                  and [n = 6 - nRead] reaches the read function as a size_t;
     fx = true  : the code with notes/fix_C09_1.diff applied (EAGAIN = "pending", no read when the
                  short header is already buffered).
   The correspondence run executes the variant that matches the tree under test (and the other one
   against a patched / unpatched copy of ws_decode.c), see props/C09.py.

   Reader oracle: the decoder's read callback.  Every call consumes one scheduled event. *)
From Coq Require Import ZArith List Bool.
From LV Require Import Ws.WsDefs Ws.Base64Defs Gen.Consts_C09.
Import ListNotations.
Local Open Scope Z_scope.

(* ------------------------------------------------------------------ reader oracle *)
Inductive errno := EAGAIN | EPROTO | ECONNRESET | EIO | EINTR.
(* RErr e: read() returns -1 with errno e (ECONNRESET, EINTR, ...: anything but EAGAIN) *)
Inductive rev := RAvail (k : Z) | RAgain | REof | RErr (e : errno).
Record io := mkIO { io_stream : list Z; io_sched : list rev }.
Inductive rres := RRData (d : list Z) | RRAgain | RREof | RRErr (e : errno).
Inductive rqtag := QData (n : Z) | QAgain | QEof | QErr (e : errno).
(* one entry per read call: destination index in codeBufDecode, requested size_t, result *)
Definition rqlog := list (Z * Z * rqtag).

(* read(fd, dst, n): n is the size_t the callback receives *)
Definition reader (n : Z) (i : io) : rres * io * rqtag :=
  match io_sched i with
  | [] => (RRAgain, i, QAgain)
  | RAgain :: s => (RRAgain, mkIO (io_stream i) s, QAgain)
  | REof :: s => (RREof, mkIO (io_stream i) s, QEof)
  | RErr e :: s => (RRErr e, mkIO (io_stream i) s, QErr e)
  | RAvail k :: s =>
    let nret := Z.min (Z.max k 0) (Z.min (zlen (io_stream i)) n) in
    if nret <=? 0 then
      if n =? 0 then (RREof, mkIO (io_stream i) s, QData 0) else (RRAgain, mkIO (io_stream i) s, QAgain)
    else (RRData (firstn (Z.to_nat nret) (io_stream i)),
          mkIO (skipn (Z.to_nat nret) (io_stream i)) s, QData nret)
  end.

(* ------------------------------------------------------------------ decoder state *)

Record hdr := mkHdr {
  h_nread : Z; h_mask : mask; h_hlen : Z; h_plen : Z; h_opcode : Z; h_fin : Z }.

Record ws := mkWs {
  w_buf : list Z;       (* codeBufDecode *)
  w_wpos : Z;           (* writePos - codeBufDecode, -1 = NULL *)
  w_rpos : Z;           (* readPos - codeBufDecode, -1 = NULL *)
  w_readlen : Z;
  w_st : Z;             (* hybiDecodeState *)
  w_carry : list Z;     (* the first carrylen bytes of carryBuf *)
  w_hd : hdr;
  w_nrp : Z;            (* nReadPayload *)
  w_contop : Z          (* continuation_opcode *) }.

Definition w_carrylen (w : ws) : Z := zlen (w_carry w).

Definition set_buf (w : ws) b := mkWs b (w_wpos w) (w_rpos w) (w_readlen w) (w_st w) (w_carry w) (w_hd w) (w_nrp w) (w_contop w).
Definition set_wpos (w : ws) p := mkWs (w_buf w) p (w_rpos w) (w_readlen w) (w_st w) (w_carry w) (w_hd w) (w_nrp w) (w_contop w).
Definition set_rpos (w : ws) p := mkWs (w_buf w) (w_wpos w) p (w_readlen w) (w_st w) (w_carry w) (w_hd w) (w_nrp w) (w_contop w).
Definition set_readlen (w : ws) n := mkWs (w_buf w) (w_wpos w) (w_rpos w) n (w_st w) (w_carry w) (w_hd w) (w_nrp w) (w_contop w).
Definition set_st (w : ws) s := mkWs (w_buf w) (w_wpos w) (w_rpos w) (w_readlen w) s (w_carry w) (w_hd w) (w_nrp w) (w_contop w).
Definition set_carry (w : ws) c := mkWs (w_buf w) (w_wpos w) (w_rpos w) (w_readlen w) (w_st w) c (w_hd w) (w_nrp w) (w_contop w).
Definition set_hd (w : ws) h := mkWs (w_buf w) (w_wpos w) (w_rpos w) (w_readlen w) (w_st w) (w_carry w) h (w_nrp w) (w_contop w).
Definition set_nrp (w : ws) n := mkWs (w_buf w) (w_wpos w) (w_rpos w) (w_readlen w) (w_st w) (w_carry w) (w_hd w) n (w_contop w).
Definition set_contop (w : ws) c := mkWs (w_buf w) (w_wpos w) (w_rpos w) (w_readlen w) (w_st w) (w_carry w) (w_hd w) (w_nrp w) c.

Definition hd_set_nread (h : hdr) n := mkHdr n (h_mask h) (h_hlen h) (h_plen h) (h_opcode h) (h_fin h).

(* hybiRemaining: uint64 subtraction *)
Definition remaining (w : ws) : Z := to_u64 (h_plen (w_hd w) - w_nrp w).
Definition is_control (op : Z) : bool := negb (Z.land op 8 =? 0).

(* hybiDecodeCleanupBasics (fin is not reset by the C code) *)
Definition cleanup_basics (w : ws) : ws :=
  mkWs (w_buf w) (-1) 0 0 ST_HEADER_PENDING []
       (mkHdr 0 mask0 0 0 OP_INVALID (h_fin (w_hd w))) 0 (w_contop w).
Definition cleanup_cont (w : ws) : ws := cleanup_basics w.
Definition cleanup_complete (w : ws) : ws := set_contop (cleanup_basics w) OP_INVALID.

Definition ws_init : ws :=
  cleanup_complete (mkWs (repeat 0 (Z.to_nat ws_buf_size)) (-1) (-1) 0 0 [] (mkHdr 0 mask0 0 0 0 0) 0 0).

(* ------------------------------------------------------------------ hybiReturnData *)
Inductive rdres :=
| RDFault
| RDRet (state ret : Z) (e : option errno) (data : list Z) (w : ws).

Definition return_data (len : Z) (w : ws) : rdres :=
  if w_readlen w >? 0 then
    if w_readlen w >? len then
      match buf_read (w_buf w) (w_rpos w) len with
      | None => RDFault
      | Some d => RDRet ST_DATA_AVAILABLE len None d
                        (set_rpos (set_readlen w (w_readlen w - len)) (w_rpos w + len))
      end
    else
      match buf_read (w_buf w) (w_rpos w) (w_readlen w) with
      | None => RDFault
      | Some d => RDRet (if remaining w =? 0 then ST_FRAME_COMPLETE else ST_DATA_NEEDED)
                        (w_readlen w) None d (set_rpos (set_readlen w 0) (-1))
      end
  else RDRet (w_st w) (-1) (Some EAGAIN) [] w.

(* ------------------------------------------------------------------ hybiReadHeader *)
Inductive hread :=
| HRFault
| HRPending (i : io) (log : rqlog)
| HRErr (e : errno) (i : io) (log : rqlog)
| HRClosed (i : io) (log : rqlog)
| HRGot (w : ws) (i : io) (log : rqlog).

(* one read of n (C int) header bytes to codeBufDecode + nRead *)
Definition hdr_read (fx : bool) (w : ws) (i : io) (n : Z) (log : rqlog) : hread :=
  let '(r, i', tag) := reader (to_u64 n) i in
  let log' := log ++ [(h_nread (w_hd w), to_u64 n, tag)] in
  match r with
  | RRData d =>
    match buf_write (w_buf w) (h_nread (w_hd w)) d with
    | None => HRFault
    | Some b => HRGot (set_hd (set_buf w b) (hd_set_nread (w_hd w) (h_nread (w_hd w) + zlen d))) i' log'
    end
  | RRAgain => if fx then HRPending i' log' else HRErr EAGAIN i' log'
  | RRErr e => HRErr e i' log'
  | RREof => HRClosed i' log'
  end.

Inductive hres :=
| HFault
| HRet (state sockret : Z) (e : option errno) (npayload : Z) (w : ws) (i : io) (log : rqlog).

Definition h_pending w i log := HRet ST_HEADER_PENDING (-1) (Some EAGAIN) 0 w i log.
Definition h_err e w i log := HRet ST_ERR (-1) (Some e) 0 (cleanup_complete w) i log.
Definition h_closed w i log := HRet ST_ERR 0 None 0 (cleanup_complete w) i log.

(* the part of hybiReadHeader after the rest of the header has been asked for *)
Definition hdr_finish (w : ws) (i : io) (log : rqlog) : hres :=
  let h := w_hd w in
  let b := w_buf w in
  let lb := h_plen h in
  let nr := h_nread h in
  let done (hlen plen : Z) (mk : option (list Z)) : hres :=
    match mk with
    | Some [m0; m1; m2; m3] =>
      if ((hlen >? HL_SHORT) && (plen <? 126)) || ((hlen >? HL_EXT) && (plen <? 65536))
      then h_err EPROTO w i log
      else
        let h' := mkHdr nr (m0, m1, m2, m3) hlen plen (h_opcode h) (h_fin h) in
        let w' := set_nrp (set_rpos (set_wpos (set_hd w h') nr) hlen) (nr - hlen) in
        HRet ST_DATA_NEEDED (-1) None (nr - hlen) w' i log
    | _ => HFault
    end in
  if (lb <? 126) && (nr >=? HL_SHORT) then done HL_SHORT lb (buf_read b 2 4)
  else if (lb =? 126) && (HL_EXT <=? nr) then
    match buf_read b 2 2 with
    | Some l16 => done HL_EXT (be_val l16 0) (buf_read b 4 4)
    | None => HFault
    end
  else if (lb =? 127) && (HL_LONG <=? nr) then
    match buf_read b 2 8 with
    | Some l64 => done HL_LONG (be_val l64 0) (buf_read b 10 4)
    | None => HFault
    end
  else h_pending w i log.

(* payload length byte, mask bit, then the second read for the 16/64-bit length *)
Definition hdr_after (fx : bool) (b1 : Z) (w2 : ws) (i : io) (log : rqlog) : hres :=
  let lb := Z.land b1 127 in
  let h2 := w_hd w2 in
  let w3 := set_hd w2 (mkHdr (h_nread h2) (h_mask h2) (h_hlen h2) lb (h_opcode h2) (h_fin h2)) in
  if Z.land b1 128 =? 0 then h_err EPROTO w3 i log
  else if (lb =? 126) || (lb =? 127) then
    let n := (if lb =? 126 then HL_EXT else HL_LONG) - h_nread h2 in
    match hdr_read fx w3 i n log with
    | HRFault => HFault
    | HRPending i' log' => h_pending w3 i' log'
    | HRErr e i' log' => h_err e w3 i' log'
    | HRClosed i' log' => h_closed w3 i' log'
    | HRGot w4 i' log' => hdr_finish w4 i' log'
    end
  else hdr_finish w3 i log.

(* after at least two header bytes are there: opcode / fin / continuation state *)
Definition hdr_parse (fx : bool) (w : ws) (i : io) (log : rqlog) : hres :=
  match buf_get (w_buf w) 0, buf_get (w_buf w) 1 with
  | Some b0, Some b1 =>
    let op := Z.land b0 15 in
    let fin := Z.shiftr (Z.land b0 128) 7 in
    let h1 := mkHdr (h_nread (w_hd w)) (h_mask (w_hd w)) (h_hlen (w_hd w)) (h_plen (w_hd w)) op fin in
    let w1 := set_hd w h1 in
    if is_control op then
      if fin =? 0 then h_err EPROTO w1 i log else hdr_after fx b1 w1 i log
    else if op =? OP_CONT then
      if w_contop w1 =? OP_INVALID then h_err EPROTO w1 i log
      else hdr_after fx b1 (set_hd w1 (mkHdr (h_nread h1) (h_mask h1) (h_hlen h1) (h_plen h1) (w_contop w1) fin)) i log
    else hdr_after fx b1 (set_contop w1 (if fin =? 0 then op else OP_INVALID)) i log
  | _, _ => HFault
  end.

Definition read_header (fx : bool) (w : ws) (i : io) : hres :=
  let n := HL_SHORT - h_nread (w_hd w) in
  let cont (w1 : ws) (i1 : io) (log1 : rqlog) : hres :=
    if h_nread (w_hd w1) <? 2 then h_pending w1 i1 log1 else hdr_parse fx w1 i1 log1 in
  if fx && (n <=? 0) then cont w i []
  else
    match hdr_read fx w i n [] with
    | HRFault => HFault
    | HRPending i' log' => h_pending w i' log'
    | HRErr e i' log' => h_err e w i' log'
    | HRClosed i' log' => h_closed w i' log'
    | HRGot w1 i' log' => cont w1 i' log'
    end.

(* ------------------------------------------------------------------ hybiReadAndDecode *)
Inductive dres :=
| DFault
| DRet (state ret : Z) (e : option errno) (data : list Z) (w : ws) (i : io) (log : rqlog).

(* in-place base64 decoding of the C string starting at data (terminated by the 0 written at
   data + toReturn, or by an earlier 0 byte); returns the new readlen and buffer *)
Definition text_decode (b : list Z) (data toReturn bufsize : Z) : option (Z * list Z) :=
  match buf_set b (data + toReturn) 0 with
  | None => None
  | Some b1 =>
    match buf_read b1 data toReturn with
    | None => None
    | Some chars =>
      match b64_pton chars bufsize with
      | None => Some (-1, b1)
      | Some out => match buf_write b1 data out with
                    | None => None
                    | Some b2 => Some (zlen out, b2)
                    end
      end
    end
  end.

(* unmasking of the toDecode bytes at data: the word loop, then the byte loop when the frame is
   complete; otherwise the bytes behind the last whole word are the new carry-over *)
Definition unmask_region (m : mask) (complete : bool) (toDecode : Z) (region : list Z)
  : option (list Z * list Z) :=
  let nw := toDecode / 4 in
  match xor_words m (Z.to_nat nw) region with
  | None => None
  | Some region1 =>
    if complete
    then Some (firstn (Z.to_nat (nw * 4)) region1 ++ xor_tail m (nw * 4) (skipn (Z.to_nat (nw * 4)) region1), [])
    else Some (region1, skipn (Z.to_nat (nw * 4)) region1)
  end.

(* the opcode switch and hybiReturnData; data = index of the decoded bytes, toReturn their number *)
Definition deliver (w2 : ws) (i : io) (log : rqlog) (len data toReturn bufsize : Z) : dres :=
  let op := h_opcode (w_hd w2) in
  if op =? OP_CLOSE then
    if remaining w2 =? 0 then
      match buf_set (w_buf w2) (w_wpos w2) 0 with
      | None => DFault
      | Some b3 => DRet ST_FRAME_COMPLETE (-1) (Some ECONNRESET) [] (set_buf w2 b3) i log
      end
    else DRet ST_CLOSE_REASON_PENDING (-1) (Some EAGAIN) [] w2 i log
  else
    let finish (w3 : ws) : dres :=
      match return_data len (set_rpos w3 data) with
      | RDFault => DFault
      | RDRet s r e d w4 => DRet s r e d w4 i log
      end in
    if op =? OP_TEXT then
      match text_decode (w_buf w2) data toReturn bufsize with
      | None => DFault
      | Some (rl, b3) => finish (set_wpos (set_readlen (set_buf w2 b3) rl) (h_hlen (w_hd w2)))
      end
    else if op =? OP_BIN then finish (set_wpos (set_readlen w2 toReturn) (h_hlen (w_hd w2)))
    else finish w2.

(* everything after the socket read: unmask, carry, opcode switch, hybiReturnData.
   w has nReadPayload and writePos already advanced by n; carrylen is still the old one. *)
Definition decode_tail (w : ws) (i : io) (log : rqlog) (len n nInBuf bufsize : Z) : dres :=
  let w1 := if remaining w =? 0 then set_st w ST_FRAME_COMPLETE else w in
  let m := h_mask (w_hd w1) in
  let toDecode := n + w_carrylen w1 + nInBuf in
  if toDecode <? 0 then DRet ST_ERR (-1) (Some EIO) [] w1 i log else
  let data := w_wpos w1 - toDecode in
  match buf_read (w_buf w1) data toDecode with
  | None => DFault
  | Some region =>
    let complete := w_st w1 =? ST_FRAME_COMPLETE in
    match unmask_region m complete toDecode region with
    | None => DFault
    | Some (region2, carry') =>
      let carrylen' := if complete then 0 else toDecode - (toDecode / 4) * 4 in
      if (carrylen' <? 0) || (carrylen' >? ws_carry_size) then DRet ST_ERR (-1) (Some EIO) [] w1 i log else
      match buf_write (w_buf w1) data region2 with
      | None => DFault
      | Some b2 =>
        let w2 := set_wpos (set_carry (set_buf w1 b2) carry') (w_wpos w1 - carrylen') in
        deliver w2 i log len data (toDecode - carrylen') bufsize
      end
    end
  end.

Definition read_and_decode (fx : bool) (w : ws) (i : io) (log : rqlog) (len nInBuf : Z) : dres :=
  match buf_write (w_buf w) (w_wpos w) (w_carry w) with
  | None => DFault
  | Some b1 =>
    let wpos1 := w_wpos w + w_carrylen w in
    let w1 := set_wpos (set_buf w b1) wpos1 in
    let bufsize := ws_buf_size - wpos1 - 1 in
    let rem := remaining w1 in
    let nextRead := if rem >? to_u64 bufsize then bufsize else to_int rem in
    if nextRead >? 0 then
      let '(r, i', tag) := reader (to_u64 nextRead) i in
      let log' := log ++ [(wpos1, to_u64 nextRead, tag)] in
      match r with
      | RRAgain =>
        if fx then DRet (w_st w) (-1) (Some EAGAIN) [] (set_wpos w1 (w_wpos w)) i' log'
        else DRet ST_ERR (-1) (Some EAGAIN) [] w1 i' log'
      | RRErr e => DRet ST_ERR (-1) (Some e) [] w1 i' log'
      | RREof => DRet ST_ERR 0 None [] w1 i' log'
      | RRData d =>
        match buf_write (w_buf w1) wpos1 d with
        | None => DFault
        | Some b2 =>
          let n := zlen d in
          decode_tail (set_wpos (set_nrp (set_buf w1 b2) (w_nrp w1 + n)) (wpos1 + n)) i' log' len n nInBuf bufsize
        end
      end
    else decode_tail w1 i log len 0 nInBuf bufsize
  end.

(* ------------------------------------------------------------------ webSocketsDecodeHybi *)
Inductive outcome :=
| OFault (log : rqlog)
| ORet (ret : Z) (e : option errno) (data : list Z) (w : ws) (i : io) (log : rqlog).

Definition spor (w : ws) : ws :=
  if w_st w =? ST_FRAME_COMPLETE then
    if negb (h_fin (w_hd w) =? 0) && negb (is_control (h_opcode (w_hd w)))
    then cleanup_complete w else cleanup_cont w
  else if w_st w =? ST_ERR then cleanup_complete w
  else w.

Definition of_dres (d : dres) : outcome :=
  match d with
  | DFault => OFault []
  | DRet s r e dt w i log => ORet r e dt (spor (set_st w s)) i log
  end.

Definition ws_decode (fx : bool) (w : ws) (i : io) (len : Z) : outcome :=
  if w_st w =? ST_HEADER_PENDING then
    match read_header fx w i with
    | HFault => OFault []
    | HRet s r e np w1 i1 log1 =>
      let w2 := set_st w1 s in
      if s =? ST_ERR then ORet r e [] (spor w2) i1 log1
      else if negb (s =? ST_HEADER_PENDING) then of_dres (read_and_decode fx w2 i1 log1 len np)
      else ORet r e [] (spor w2) i1 log1
    end
  else if w_st w =? ST_DATA_AVAILABLE then
    match return_data len w with
    | RDFault => OFault []
    | RDRet s r e d w1 => ORet r e d (spor (set_st w1 s)) i []
    end
  else if (w_st w =? ST_DATA_NEEDED) || (w_st w =? ST_CLOSE_REASON_PENDING) then
    of_dres (read_and_decode fx w i [] len 0)
  else ORet (-1) (Some EIO) [] (spor (set_st w ST_ERR)) i [].

(* a session: successive decode calls with the given dst lengths; stops at a fault *)
Inductive callres := CFault | CRet (ret : Z) (e : option errno) (data : list Z).

Fixpoint ws_run (fx : bool) (w : ws) (i : io) (lens : list Z) : list callres * ws * io :=
  match lens with
  | [] => ([], w, i)
  | len :: r =>
    match ws_decode fx w i len with
    | OFault _ => ([CFault], w, i)
    | ORet ret e d w' i' _ =>
      let '(rs, wf, iof) := ws_run fx w' i' r in (CRet ret e d :: rs, wf, iof)
    end
  end.

Fixpoint delivered (rs : list callres) : list Z :=
  match rs with
  | [] => []
  | CRet _ _ d :: r => d ++ delivered r
  | CFault :: r => delivered r
  end.
