(* C09 - index safety and read-request bound of the repaired decoder (fx = true) for ARBITRARY input:
   any byte stream (valid frames or garbage), any reader schedule (data, EAGAIN, EOF, errors), any
   caller length.  Geometric invariant G of the decoder state; every webSocketsDecodeHybi call from a
   G state returns (never touches memory outside codeBufDecode), ends in a G state, and every read
   request (dst, n) satisfies 1 <= n, dst + n <= sizeof codeBufDecode. *)
From Coq Require Import ZArith List Bool Lia.
From LV Require Import Ws.WsDefs Ws.Base64Defs Ws.WsSpecDefs Ws.WsDecoderModel Ws.WsTransparency
  Ws.WsListProofs Ws.Base64Proofs Ws.WsDecoderProofs1 Ws.WsStrictProofs Gen.Consts_C09.
Import ListNotations.
Local Open Scope Z_scope.

Definition rq_ok (e : Z * Z * rqtag) : Prop :=
  1 <= snd (fst e) /\ 0 <= fst (fst e) /\ fst (fst e) + snd (fst e) <= ws_buf_size.
Definition log_ok (log : rqlog) : Prop := Forall rq_ok log.

Lemma log_ok_app : forall a b, log_ok a -> log_ok b -> log_ok (a ++ b).
Proof. intros. apply Forall_app. split; assumption. Qed.
Lemma log_ok_one : forall d n t, 1 <= n -> 0 <= d -> d + n <= ws_buf_size -> log_ok [(d, n, t)].
Proof. intros. constructor; [|constructor]. unfold rq_ok. cbn. lia. Qed.

(* ---------------- the reader, any schedule ---------------- *)
Lemma reader_any : forall n i, 0 < n ->
  exists r i' tag, reader n i = (r, i', tag) /\
    match r with RRData d => 0 < zlen d <= n | _ => True end.
Proof.
  intros n [s sc] Hn. unfold reader. cbn [io_sched io_stream]. destruct sc as [|e sc'].
  - do 3 eexists. split; [reflexivity|exact I].
  - destruct e.
    + set (nret := Z.min (Z.max k 0) (Z.min (zlen s) n)). destruct (nret <=? 0) eqn:E.
      * destruct (n =? 0); do 3 eexists; (split; [reflexivity|exact I]).
      * do 3 eexists. split; [reflexivity|]. cbv beta iota. rewrite zlen_firstn by (subst nret; lia). subst nret. lia.
    + do 3 eexists. split; [reflexivity|exact I].
    + do 3 eexists. split; [reflexivity|exact I].
    + do 3 eexists. split; [reflexivity|exact I].
Qed.

(* ---------------- the geometric invariant ---------------- *)
Definition hl_of_lb (lb : Z) : Z := if lb =? 126 then HL_EXT else if lb =? 127 then HL_LONG else HL_SHORT.

Definition G_hdr (w : ws) : Prop :=
  0 <= h_nread (w_hd w) /\ w_carry w = [] /\ w_readlen w = 0 /\
  (h_nread (w_hd w) < 2 \/
   exists b1, buf_get (w_buf w) 1 = Some b1 /\ h_nread (w_hd w) < hl_of_lb (Z.land b1 127)).

Definition G_pay (w : ws) : Prop :=
  (h_hlen (w_hd w) = 6 \/ h_hlen (w_hd w) = 8 \/ h_hlen (w_hd w) = 14) /\
  0 <= w_wpos w /\ w_wpos w + zlen (w_carry w) <= ws_buf_size - 1 /\ zlen (w_carry w) <= 3.

Definition G (w : ws) : Prop :=
  zlen (w_buf w) = ws_buf_size /\
  ((w_st w = ST_HEADER_PENDING /\ G_hdr w) \/
   ((w_st w = ST_DATA_NEEDED \/ w_st w = ST_CLOSE_REASON_PENDING) /\ G_pay w /\ w_readlen w <= 0) \/
   (w_st w = ST_DATA_AVAILABLE /\ G_pay w /\ 0 < w_readlen w /\ 0 <= w_rpos w /\ w_rpos w + w_readlen w <= ws_buf_size)).

Lemma G_cleanup : forall w, zlen (w_buf w) = ws_buf_size -> G (cleanup_complete w) /\ G (cleanup_cont w).
Proof.
  intros w H. unfold G, cleanup_complete, cleanup_cont, cleanup_basics, G_hdr.
  cbn [w_buf w_st w_hd h_nread w_carry w_readlen set_contop].
  split; (split; [assumption|]; left; split; [reflexivity|]; repeat split; try reflexivity; try lia; left; lia).
Qed.

Lemma G_spor_done : forall w s, zlen (w_buf w) = ws_buf_size -> s = ST_FRAME_COMPLETE \/ s = ST_ERR -> G (spor (set_st w s)).
Proof.
  intros w s H [-> | ->]; unfold spor; cbn [w_st set_st].
  - change (ST_FRAME_COMPLETE =? ST_FRAME_COMPLETE) with true. cbv iota.
    destruct (G_cleanup (set_st w ST_FRAME_COMPLETE) H) as [G1 G2].
    destruct (negb (h_fin (w_hd (set_st w ST_FRAME_COMPLETE)) =? 0) && negb (is_control (h_opcode (w_hd (set_st w ST_FRAME_COMPLETE))))); assumption.
  - change (ST_ERR =? ST_FRAME_COMPLETE) with false. change (ST_ERR =? ST_ERR) with true. cbv iota.
    apply (G_cleanup (set_st w ST_ERR) H).
Qed.

(* ---------------- one header read ---------------- *)
Lemma hdr_read_G : forall w i n log,
  zlen (w_buf w) = ws_buf_size -> 0 <= h_nread (w_hd w) -> 0 < n -> h_nread (w_hd w) + n <= ws_buf_size ->
  log_ok log ->
  match hdr_read true w i n log with
  | HRFault => False
  | HRPending i' log' => log_ok log'
  | HRErr _ i' log' => log_ok log'
  | HRClosed i' log' => log_ok log'
  | HRGot w' i' log' =>
      log_ok log' /\ exists b m, 0 < m <= n /\ zlen b = ws_buf_size /\
        w' = set_hd (set_buf w b) (hd_set_nread (w_hd w) (h_nread (w_hd w) + m)) /\
        (forall j, 0 <= j < h_nread (w_hd w) -> buf_get b j = buf_get (w_buf w) j) /\
        (forall j x, h_nread (w_hd w) <= j < h_nread (w_hd w) + m -> buf_get b j = Some x -> True)
  end.
Proof.
  intros w i n log Hb H0 Hn Hle Hlog.
  assert (to_u64 n = n) as Hu by (apply to_u64_id; unfold two64, ws_buf_size in *; lia).
  assert (log_ok (log ++ [(h_nread (w_hd w), n, (QAgain : rqtag))]) -> forall t, log_ok (log ++ [(h_nread (w_hd w), n, t)])) as Hany.
  { intros _ t. apply log_ok_app; [assumption|]. apply log_ok_one; lia. }
  assert (forall t, log_ok (log ++ [(h_nread (w_hd w), n, t)])) as Hl.
  { intro t. apply log_ok_app; [assumption|]. apply log_ok_one; lia. }
  unfold hdr_read. rewrite Hu.
  destruct (reader_any n i Hn) as (r & i' & tag & Hr & Hd). rewrite Hr.
  destruct r; try apply Hl.
  destruct (buf_write_ok (w_buf w) (h_nread (w_hd w)) d ltac:(lia) ltac:(lia)) as (b & Hbw). rewrite Hbw.
  split; [apply Hl|]. exists b, (zlen d). split; [lia|]. split; [rewrite (buf_write_len _ _ _ _ Hbw); assumption|].
  split; [reflexivity|]. split; [|trivial].
  intros j Hj. apply (buf_get_write_before _ _ _ _ j Hbw). lia.
Qed.

(* ---------------- header phase ---------------- *)
Definition hdr_out (r : hres) : Prop :=
  match r with
  | HFault => False
  | HRet s rr e np w' i' log' =>
      log_ok log' /\ zlen (w_buf w') = ws_buf_size /\
      ((s = ST_HEADER_PENDING /\ G_hdr w') \/ s = ST_ERR \/
       (s = ST_DATA_NEEDED /\ np = 0 /\ G_pay w' /\ w_readlen w' = 0 /\ w_carry w' = []))
  end.

Lemma buf_read_4 : forall b p l, buf_read b p 4 = Some l -> exists x0 x1 x2 x3, l = [x0; x1; x2; x3].
Proof.
  intros b p l H. apply buf_read_len in H. destruct l as [|x0 [|x1 [|x2 [|x3 [|x4 r]]]]];
    unfold zlen in H; cbn [length] in H; try lia. do 4 eexists. reflexivity.
Qed.

Lemma buf_get_some : forall b j, 0 <= j < zlen b -> exists x, buf_get b j = Some x.
Proof.
  intros b j H. unfold buf_get. destruct (0 <=? j) eqn:E1; [|lia]. destruct (j <? zlen b) eqn:E2; [|lia]. cbn [andb].
  destruct (nth_error b (Z.to_nat j)) eqn:E; [eauto|]. apply nth_error_None in E. unfold zlen in H. lia.
Qed.

Lemma hl_of_lb_range : forall lb, hl_of_lb lb = 6 \/ hl_of_lb lb = 8 \/ hl_of_lb lb = 14.
Proof. intro lb. unfold hl_of_lb. destruct (lb =? 126); [right; left; reflexivity|]. destruct (lb =? 127); [right; right|left]; reflexivity. Qed.

Lemma land127 : forall b, 0 <= Z.land b 127 <= 127.
Proof.
  intro b. change 127 with (Z.ones 7) at 1 2. rewrite Z.land_ones by lia. pose proof (Z.mod_pos_bound b (2 ^ 7) ltac:(lia)).
  change (2 ^ 7) with 128 in *. lia.
Qed.

Lemma hdr_finish_G : forall w i log,
  zlen (w_buf w) = ws_buf_size -> 0 <= h_nread (w_hd w) -> w_carry w = [] -> w_readlen w = 0 ->
  0 <= h_plen (w_hd w) <= 127 -> h_nread (w_hd w) <= hl_of_lb (h_plen (w_hd w)) -> log_ok log ->
  (h_nread (w_hd w) < hl_of_lb (h_plen (w_hd w)) -> G_hdr w) ->
  hdr_out (hdr_finish w i log).
Proof.
  intros w i log Hb Hn0 Hca Hrl Hlb Hnr Hlog Hpend.
  set (nr := h_nread (w_hd w)) in *. set (lb := h_plen (w_hd w)) in *.
  assert (forall hlen plen mk, nr = hlen -> (hlen = 6 \/ hlen = 8 \/ hlen = 14) ->
            (mk = None \/ exists x0 x1 x2 x3, mk = Some [x0; x1; x2; x3]) -> mk <> None ->
    hdr_out (match mk with
    | Some [m0; m1; m2; m3] =>
        if ((hlen >? HL_SHORT) && (plen <? 126)) || ((hlen >? HL_EXT) && (plen <? 65536))
        then h_err EPROTO w i log
        else HRet ST_DATA_NEEDED (-1) None (nr - hlen)
               (set_nrp (set_rpos (set_wpos (set_hd w (mkHdr nr (m0, m1, m2, m3) hlen plen (h_opcode (w_hd w)) (h_fin (w_hd w))))
                                            nr) hlen) (nr - hlen)) i log
    | _ => HFault
    end)) as Gdone.
  { intros hlen plen mk En Hh Hmk Hne. destruct Hmk as [->|(x0 & x1 & x2 & x3 & ->)]; [congruence|].
    destruct (((hlen >? HL_SHORT) && (plen <? 126)) || ((hlen >? HL_EXT) && (plen <? 65536))).
    - unfold h_err, hdr_out. split; [assumption|]. split; [exact Hb|]. right. left. reflexivity.
    - unfold hdr_out. cbn [w_buf set_nrp set_rpos set_wpos set_hd w_readlen w_carry]. split; [assumption|]. split; [assumption|].
      right. right. split; [reflexivity|]. split; [lia|]. split; [|split; assumption].
      unfold G_pay. cbn [w_hd set_nrp set_rpos set_wpos set_hd h_hlen w_wpos w_carry]. rewrite Hca.
      change (zlen (@nil Z)) with 0. unfold ws_buf_size. repeat split; try lia. }
  assert (forall p, 0 <= p -> p + 4 <= 14 -> buf_read (w_buf w) p 4 = None \/ exists x0 x1 x2 x3, buf_read (w_buf w) p 4 = Some [x0; x1; x2; x3]) as Hr4.
  { intros p H1 H2. destruct (buf_read (w_buf w) p 4) eqn:E; [right|left; reflexivity].
    destruct (buf_read_4 _ _ _ E) as (x0 & x1 & x2 & x3 & ->). eauto 6. }
  assert (forall p, 0 <= p -> p + 4 <= 14 -> buf_read (w_buf w) p 4 <> None) as Hr4n.
  { intros p H1 H2. rewrite buf_read_ok by (unfold ws_buf_size in *; lia). discriminate. }
  unfold hdr_finish. fold nr lb. unfold hl_of_lb in *.
  destruct ((lb <? 126) && (nr >=? HL_SHORT)) eqn:E1.
  - apply andb_true_iff in E1. destruct E1 as [E1 E1']. unfold HL_SHORT in *.
    destruct (lb =? 126) eqn:E2; [lia|]. destruct (lb =? 127) eqn:E3; [lia|].
    apply Gdone; try lia; [apply Hr4|apply Hr4n]; lia.
  - destruct ((lb =? 126) && (HL_EXT <=? nr)) eqn:E2.
    + apply andb_true_iff in E2. destruct E2 as [E2 E2']. rewrite E2 in Hnr. unfold HL_EXT in *.
      rewrite buf_read_ok by (unfold ws_buf_size in *; lia).
      apply Gdone; try lia; [apply Hr4|apply Hr4n]; lia.
    + destruct ((lb =? 127) && (HL_LONG <=? nr)) eqn:E3.
      * apply andb_true_iff in E3. destruct E3 as [E3 E3']. rewrite E3 in Hnr.
        destruct (lb =? 126) eqn:E4; [lia|]. unfold HL_LONG in *.
        rewrite buf_read_ok by (unfold ws_buf_size in *; lia).
        apply Gdone; try lia; [apply Hr4|apply Hr4n]; lia.
      * unfold h_pending, hdr_out. split; [assumption|]. split; [assumption|]. left. split; [reflexivity|].
        apply Hpend. unfold HL_SHORT, HL_EXT, HL_LONG in *.
        destruct (lb =? 126) eqn:E4; [cbn [andb] in E2; lia|]. destruct (lb =? 127) eqn:E5; [cbn [andb] in E3; lia|].
        destruct (lb <? 126) eqn:E6; [cbn [andb] in E1; lia|]. lia.
Qed.

Lemma hdr_out_err : forall e w i log, log_ok log -> zlen (w_buf w) = ws_buf_size -> hdr_out (h_err e w i log).
Proof. intros. unfold h_err, hdr_out. split; [assumption|]. split; [assumption|]. right. left. reflexivity. Qed.
Lemma hdr_out_closed : forall w i log, log_ok log -> zlen (w_buf w) = ws_buf_size -> hdr_out (h_closed w i log).
Proof. intros. unfold h_closed, hdr_out. split; [assumption|]. split; [assumption|]. right. left. reflexivity. Qed.
Lemma hdr_out_pending : forall w i log, log_ok log -> zlen (w_buf w) = ws_buf_size -> G_hdr w -> hdr_out (h_pending w i log).
Proof. intros. unfold h_pending, hdr_out. split; [assumption|]. split; [assumption|]. left. split; [reflexivity|assumption]. Qed.

(* w: at least two header bytes buffered; b1 is byte 1 *)
Lemma hdr_after_G : forall b1 w i log,
  zlen (w_buf w) = ws_buf_size -> 2 <= h_nread (w_hd w) -> w_carry w = [] -> w_readlen w = 0 ->
  buf_get (w_buf w) 1 = Some b1 ->
  (h_nread (w_hd w) <= 6 \/ h_nread (w_hd w) < hl_of_lb (Z.land b1 127)) -> log_ok log ->
  hdr_out (hdr_after true b1 w i log).
Proof.
  intros b1 w i log Hb Hn2 Hca Hrl Hg1 Hpre Hlog.
  pose proof (land127 b1) as Hlb. set (lb := Z.land b1 127) in *.
  pose proof (hl_of_lb_range lb) as Hhl.
  unfold hdr_after. fold lb.
  set (w3 := set_hd w (mkHdr (h_nread (w_hd w)) (h_mask (w_hd w)) (h_hlen (w_hd w)) lb (h_opcode (w_hd w)) (h_fin (w_hd w)))).
  destruct (Z.land b1 128 =? 0); [apply hdr_out_err; assumption|].
  assert (h_nread (w_hd w) <= hl_of_lb lb) as Hle.
  { destruct Hpre as [H|H]; [|lia]. destruct Hhl as [E|[E|E]]; rewrite E; lia. }
  assert (forall wx, w_buf wx = w_buf w \/ True -> True) as _ by trivial.
  assert (forall (wx : ws), zlen (w_buf wx) = ws_buf_size -> w_carry wx = [] -> w_readlen wx = 0 ->
            h_plen (w_hd wx) = lb -> buf_get (w_buf wx) 1 = Some b1 -> 2 <= h_nread (w_hd wx) ->
            h_nread (w_hd wx) < hl_of_lb lb -> G_hdr wx) as HG.
  { intros wx H1 H2 H3 H4 H5 H6 H7. unfold G_hdr. repeat split; try assumption; try lia. right. exists b1. split; [assumption|]. fold lb. assumption. }
  destruct ((lb =? 126) || (lb =? 127)) eqn:Eext.
  - (* second read *)
    assert (hl_of_lb lb = (if lb =? 126 then HL_EXT else HL_LONG)) as Ehl.
    { unfold hl_of_lb. destruct (lb =? 126); [reflexivity|]. cbn [orb] in Eext. rewrite Eext. reflexivity. }
    assert (h_nread (w_hd w) < hl_of_lb lb) as Hlt.
    { destruct Hpre as [H|H]; [|assumption]. rewrite Ehl. unfold HL_EXT, HL_LONG. destruct (lb =? 126); lia. }
    rewrite <- Ehl.
    pose proof (hdr_read_G w3 i (hl_of_lb lb - h_nread (w_hd w)) log Hb ltac:(cbn; lia) ltac:(cbn; lia)
                  ltac:(cbn [w_hd set_hd h_nread w3]; unfold ws_buf_size; destruct Hhl as [E|[E|E]]; rewrite E; lia) Hlog) as HR.
    change (h_nread (w_hd w3)) with (h_nread (w_hd w)) in HR.
    destruct (hdr_read true w3 i (hl_of_lb lb - h_nread (w_hd w)) log) as [| i' log' | e i' log' | i' log' | w4 i' log'].
    + contradiction.
    + apply hdr_out_pending; try assumption. apply HG; try assumption; try reflexivity.
    + apply hdr_out_err; assumption.
    + apply hdr_out_closed; assumption.
    + destruct HR as (Hlog' & b & m & Hm & Hbl & -> & Hkeep & _).
      apply hdr_finish_G; cbn [w_buf w_hd set_hd set_buf hd_set_nread h_nread w_carry w_readlen h_plen w3]; try assumption; try lia.
      intro Hlt'. apply HG; cbn [w_buf w_hd set_hd set_buf hd_set_nread h_nread w_carry w_readlen h_plen w3]; try assumption; try reflexivity; try lia.
      rewrite Hkeep by lia. assumption.
  - apply hdr_finish_G; cbn [w_buf w_hd set_hd h_nread w_carry w_readlen h_plen w3]; try assumption; try lia.
    intro Hlt'. apply HG; cbn [w_buf w_hd set_hd h_nread w_carry w_readlen h_plen w3]; try assumption; try reflexivity; try lia.
Qed.

Lemma hdr_parse_G : forall w i log,
  zlen (w_buf w) = ws_buf_size -> 2 <= h_nread (w_hd w) -> w_carry w = [] -> w_readlen w = 0 ->
  (forall b1, buf_get (w_buf w) 1 = Some b1 -> h_nread (w_hd w) <= 6 \/ h_nread (w_hd w) < hl_of_lb (Z.land b1 127)) ->
  log_ok log -> hdr_out (hdr_parse true w i log).
Proof.
  intros w i log Hb Hn2 Hca Hrl Hpre Hlog.
  destruct (buf_get_some (w_buf w) 0 ltac:(unfold ws_buf_size in *; lia)) as (b0 & G0).
  destruct (buf_get_some (w_buf w) 1 ltac:(unfold ws_buf_size in *; lia)) as (b1 & G1).
  specialize (Hpre b1 G1).
  unfold hdr_parse. rewrite G0, G1.
  destruct (is_control (Z.land b0 15)).
  - destruct (Z.shiftr (Z.land b0 128) 7 =? 0); [apply hdr_out_err; assumption|].
    apply hdr_after_G; assumption.
  - destruct (Z.land b0 15 =? OP_CONT).
    + match goal with |- context [if ?c then _ else _] => destruct c end; [apply hdr_out_err; assumption|].
      apply hdr_after_G; assumption.
    + apply hdr_after_G; assumption.
Qed.

Lemma read_header_G : forall w i, zlen (w_buf w) = ws_buf_size -> G_hdr w -> hdr_out (read_header true w i).
Proof.
  intros w i Hb (Hn0 & Hca & Hrl & Hprog).
  unfold read_header. unfold HL_SHORT.
  assert (log_ok []) as Hl0 by constructor.
  destruct (6 - h_nread (w_hd w) <=? 0) eqn:E; cbn [andb].
  - destruct (h_nread (w_hd w) <? 2) eqn:E2; [lia|].
    apply hdr_parse_G; try assumption; try lia.
    intros b1 G1. right. destruct Hprog as [H|(b1' & G1' & H)]; [lia|]. rewrite G1 in G1'. inversion G1'. subst. assumption.
  - pose proof (hdr_read_G w i (6 - h_nread (w_hd w)) [] Hb Hn0 ltac:(lia) ltac:(unfold ws_buf_size; lia) Hl0) as HR.
    destruct (hdr_read true w i (6 - h_nread (w_hd w)) []) as [| i' log' | e i' log' | i' log' | w1 i' log'].
    + contradiction.
    + apply hdr_out_pending; try assumption. unfold G_hdr. tauto.
    + apply hdr_out_err; assumption.
    + apply hdr_out_closed; assumption.
    + destruct HR as (Hlog' & b & m & Hm & Hbl & -> & Hkeep & _).
      cbn [w_hd set_hd set_buf hd_set_nread h_nread].
      destruct (h_nread (w_hd w) + m <? 2) eqn:E2.
      * apply hdr_out_pending; try assumption. unfold G_hdr.
        cbn [w_hd set_hd set_buf hd_set_nread h_nread w_carry w_readlen]. repeat split; try assumption; try lia; try (left; lia).
      * apply hdr_parse_G; cbn [w_buf w_hd set_hd set_buf hd_set_nread h_nread w_carry w_readlen]; try assumption; try lia;
          try (intros b1 _; left; lia).
Qed.

(* ---------------- payload phase: building blocks ---------------- *)
Lemma xor_words_len : forall m nw l, (4 * nw <= length l)%nat ->
  exists l', xor_words m nw l = Some l' /\ length l' = length l.
Proof.
  intros m nw. induction nw as [|nw IH]; intros l H.
  - exists l. split; reflexivity.
  - destruct l as [|a [|b [|c [|d r]]]]; cbn [length] in H; try lia.
    destruct (IH r ltac:(lia)) as (r' & E & Hl). destruct m as [[[m0 m1] m2] m3].
    cbn [xor_words]. rewrite E. eexists. split; [reflexivity|]. cbn [length]. lia.
Qed.

Lemma unmask_region_G : forall m c t region, zlen region = t ->
  exists r2 c', unmask_region m c t region = Some (r2, c') /\ zlen r2 = t /\
    zlen c' = (if c then 0 else t - t / 4 * 4).
Proof.
  intros m c t region Ht. pose proof (zlen_nonneg _ region) as H0. rewrite Ht in H0.
  unfold unmask_region.
  assert ((4 * Z.to_nat (t / 4) <= length region)%nat) as Hle.
  { unfold zlen in Ht. pose proof (Z.mul_div_le t 4 ltac:(lia)). pose proof (Z.div_pos t 4 H0 ltac:(lia)). lia. }
  destruct (xor_words_len m _ region Hle) as (r1 & E & Hl). rewrite E.
  assert (zlen r1 = t) as Hr1 by (unfold zlen in *; lia).
  assert (0 <= t / 4 * 4 <= t) as Hq by (pose proof (Z.mul_div_le t 4 ltac:(lia)); pose proof (Z.div_pos t 4 H0 ltac:(lia)); lia).
  destruct c.
  - do 2 eexists. split; [reflexivity|]. split; [|reflexivity].
    rewrite zlen_app. unfold xor_tail. rewrite xmask_len. rewrite zlen_firstn by lia. rewrite zlen_skipn by lia. lia.
  - do 2 eexists. split; [reflexivity|]. split; [assumption|]. rewrite zlen_skipn by lia. lia.
Qed.

Lemma take_nonzero_len : forall l, zlen (take_nonzero l) <= zlen l.
Proof.
  induction l; [cbn; lia|]. cbn [take_nonzero]. destruct (a =? 0); rewrite ?zlen_cons; [change (zlen (@nil Z)) with 0; pose proof (zlen_nonneg _ l); lia|lia].
Qed.

Definition ploop_len_ok (r : ploop) (bound : Z) : Prop :=
  match r with
  | PErr => True
  | PEnd _ _ out _ => zlen out <= bound
  | PPad _ _ _ out _ => zlen out <= bound
  end.

Lemma pton_loop_len : forall src state ti ts out cur, ploop_len_ok (pton_loop src state ti ts out cur) (zlen out + zlen src).
Proof.
  induction src as [|ch r IH]; intros state ti ts out cur.
  - cbn [pton_loop]. unfold ploop_len_ok. change (zlen (@nil Z)) with 0. lia.
  - cbn [pton_loop]. rewrite zlen_cons. pose proof (zlen_nonneg _ r).
    assert (forall s t o c, zlen o <= zlen out + 1 -> ploop_len_ok (pton_loop r s t ts o c) (zlen out + (1 + zlen r))) as K.
    { intros s t o c Ho. specialize (IH s t ts o c). destruct (pton_loop r s t ts o c); unfold ploop_len_ok in *; lia. }
    destruct (is_space ch); [apply K; lia|].
    destruct (ch =? b64_pad); [unfold ploop_len_ok; lia|].
    destruct (b64_pos ch); [|exact I].
    repeat match goal with
    | |- ploop_len_ok (if ?c then _ else _) _ => destruct c
    | |- ploop_len_ok PErr _ => exact I
    | |- ploop_len_ok (pton_loop _ _ _ _ _ _) _ => apply K; rewrite ?zlen_cons; lia
    end.
Qed.

Lemma b64_pton_len : forall src ts out, b64_pton src ts = Some out -> zlen out <= zlen src.
Proof.
  intros src ts out H. unfold b64_pton in H.
  pose proof (pton_loop_len (take_nonzero src) 0 0 ts [] 0) as L. pose proof (take_nonzero_len src) as T.
  change (zlen (@nil Z)) with 0 in L.
  assert (forall o : list Z, zlen (List.rev o) = zlen o) as Hrev by (intro o; unfold zlen; rewrite rev_length; reflexivity).
  destruct (pton_loop (take_nonzero src) 0 0 ts [] 0) as [| st ti o cur | rest st ti o cur]; [discriminate| |].
  - destruct (st =? 0); [|discriminate]. inversion H. subst. cbn in L. rewrite Hrev. lia.
  - cbn in L. unfold pton_finish_pad in H.
    repeat match type of H with
    | (if ?c then _ else _) = _ => destruct c
    | match ?x with _ => _ end = _ => destruct x
    | None = Some _ => discriminate
    | Some _ = Some _ => inversion H; subst; clear H
    end; rewrite ?Hrev; lia.
Qed.

Lemma text_decode_G : forall b data toReturn bufsize,
  zlen b = ws_buf_size -> 0 <= data -> 0 <= toReturn -> data + toReturn <= ws_buf_size - 1 ->
  exists rl b', text_decode b data toReturn bufsize = Some (rl, b') /\ zlen b' = ws_buf_size /\ rl <= toReturn.
Proof.
  intros b data toReturn bufsize Hb Hd Ht Hle. unfold text_decode, buf_set.
  destruct (buf_write_ok b (data + toReturn) [0] ltac:(lia) ltac:(change (zlen [0]) with 1; lia)) as (b1 & Hb1).
  rewrite Hb1. pose proof (buf_write_len _ _ _ _ Hb1) as Hb1l.
  rewrite buf_read_ok by lia.
  set (chars := firstn (Z.to_nat toReturn) (skipn (Z.to_nat data) b1)).
  assert (zlen chars = toReturn) as Hcl by (subst chars; apply zlen_firstn; rewrite zlen_skipn by lia; lia).
  destruct (b64_pton chars bufsize) as [out|] eqn:E.
  - pose proof (b64_pton_len _ _ _ E) as Hol. pose proof (zlen_nonneg _ out).
    destruct (buf_write_ok b1 data out ltac:(lia) ltac:(lia)) as (b2 & Hb2). rewrite Hb2.
    do 2 eexists. split; [reflexivity|]. split; [rewrite (buf_write_len _ _ _ _ Hb2); lia|lia].
  - do 2 eexists. split; [reflexivity|]. split; [lia|lia].
Qed.

Definition rl_ok (w : ws) : Prop := w_readlen w <= 0 \/ (0 <= w_rpos w /\ w_rpos w + w_readlen w <= ws_buf_size).

Lemma return_data_G : forall w len, zlen (w_buf w) = ws_buf_size -> 0 <= len -> rl_ok w ->
  exists s r e d w', return_data len w = RDRet s r e d w' /\
    w_buf w' = w_buf w /\ w_hd w' = w_hd w /\ w_wpos w' = w_wpos w /\ w_carry w' = w_carry w /\
    ((w_readlen w <= 0 /\ s = w_st w /\ w_readlen w' <= 0) \/
     ((s = ST_FRAME_COMPLETE \/ s = ST_DATA_NEEDED) /\ w_readlen w' = 0) \/
     (s = ST_DATA_AVAILABLE /\ 0 < w_readlen w' /\ 0 <= w_rpos w' /\ w_rpos w' + w_readlen w' <= ws_buf_size)).
Proof.
  intros w len Hb Hlen Hrl. unfold return_data.
  destruct (w_readlen w >? 0) eqn:E0.
  - destruct Hrl as [H|[H1 H2]]; [lia|].
    destruct (w_readlen w >? len) eqn:E1.
    + rewrite buf_read_ok by lia. do 5 eexists. split; [reflexivity|].
      cbn [w_buf w_hd w_wpos w_carry w_readlen w_rpos set_rpos set_readlen]. repeat split; try reflexivity.
      right. right. repeat split; lia.
    + rewrite buf_read_ok by lia. do 5 eexists. split; [reflexivity|].
      cbn [w_buf w_hd w_wpos w_carry w_readlen w_rpos set_rpos set_readlen]. repeat split; try reflexivity.
      right. left. split; [|reflexivity]. destruct (remaining w =? 0); [left|right]; reflexivity.
  - do 5 eexists. split; [reflexivity|]. repeat split; try reflexivity. left. split; [lia|]. split; [reflexivity|lia].
Qed.

(* ---------------- payload phase: deliver / decode_tail / read_and_decode ---------------- *)
Definition pay_out (d : dres) : Prop :=
  match d with
  | DFault => False
  | DRet s r e dt w' i' log' =>
      log_ok log' /\ zlen (w_buf w') = ws_buf_size /\
      (s = ST_ERR \/ s = ST_FRAME_COMPLETE \/
       ((s = ST_DATA_NEEDED \/ s = ST_CLOSE_REASON_PENDING) /\ G_pay w' /\ w_readlen w' <= 0) \/
       (s = ST_DATA_AVAILABLE /\ G_pay w' /\ 0 < w_readlen w' /\ 0 <= w_rpos w' /\ w_rpos w' + w_readlen w' <= ws_buf_size))
  end.

Definition st_pay (s : Z) : Prop := s = ST_DATA_NEEDED \/ s = ST_CLOSE_REASON_PENDING \/ s = ST_FRAME_COMPLETE.

Lemma G_pay_fields : forall w w', w_hd w' = w_hd w -> w_wpos w' = w_wpos w -> w_carry w' = w_carry w -> G_pay w -> G_pay w'.
Proof. intros w w' H1 H2 H3 H. unfold G_pay in *. rewrite H1, H2, H3. assumption. Qed.

Lemma deliver_G : forall w2 i log len data toReturn bufsize,
  zlen (w_buf w2) = ws_buf_size -> 0 <= len -> log_ok log -> st_pay (w_st w2) ->
  (h_hlen (w_hd w2) = 6 \/ h_hlen (w_hd w2) = 8 \/ h_hlen (w_hd w2) = 14) ->
  0 <= data -> 0 <= toReturn -> data + toReturn <= ws_buf_size - 1 ->
  0 <= w_wpos w2 -> w_wpos w2 + zlen (w_carry w2) <= ws_buf_size - 1 -> zlen (w_carry w2) <= 3 ->
  w_readlen w2 <= 0 ->
  pay_out (deliver w2 i log len data toReturn bufsize).
Proof.
  intros w2 i log len data toReturn bufsize Hb Hlen Hlog Hst Hhl Hd Ht Hle Hw0 Hw1 Hc3 Hrl.
  pose proof (zlen_nonneg _ (w_carry w2)) as Hc0.
  assert (G_pay w2) as HG2 by (unfold G_pay; tauto).
  (* the common end: hybiReturnData on a state w3 that differs from w2 in buffer, readlen, wpos, rpos *)
  assert (forall w3, zlen (w_buf w3) = ws_buf_size -> w_hd w3 = w_hd w2 -> w_carry w3 = w_carry w2 -> w_st w3 = w_st w2 ->
            (w_wpos w3 = w_wpos w2 \/ w_wpos w3 = h_hlen (w_hd w2)) -> w_readlen w3 <= toReturn ->
            pay_out (match return_data len (set_rpos w3 data) with
                     | RDFault => DFault
                     | RDRet s r e d w4 => DRet s r e d w4 i log
                     end)) as Hfin.
  { intros w3 Hb3 Hhd3 Hca3 Hst3 Hwp3 Hrl3.
    destruct (return_data_G (set_rpos w3 data) len Hb3 Hlen) as (s & r & e & d & w4 & E & E1 & E2 & E3 & E4 & Hcase).
    { unfold rl_ok. cbn [w_readlen w_rpos set_rpos]. destruct (Z.leb_spec (w_readlen w3) 0); [left; lia|right; lia]. }
    rewrite E. unfold pay_out. split; [assumption|]. split; [rewrite E1; exact Hb3|].
    assert (G_pay w4) as HG4.
    { unfold G_pay. rewrite E2, E3, E4. cbn [w_hd w_wpos w_carry set_rpos]. rewrite Hhd3, Hca3.
      split; [assumption|]. destruct Hwp3 as [-> | ->]; [tauto|]. unfold ws_buf_size in *. destruct Hhl as [->|[->| ->]]; lia. }
    destruct Hcase as [(_ & -> & Hr) | [[[-> | ->] Hr] | (-> & Hr)]].
    - cbn [w_st set_rpos]. rewrite Hst3. destruct Hst as [->|[->| ->]].
      + right. right. left. split; [left; reflexivity|]. split; assumption.
      + right. right. left. split; [right; reflexivity|]. split; assumption.
      + right. left. reflexivity.
    - right. left. reflexivity.
    - right. right. left. split; [left; reflexivity|]. split; [assumption|lia].
    - right. right. right. split; [reflexivity|]. split; [assumption|]. assumption. }
  unfold deliver.
  destruct (h_opcode (w_hd w2) =? OP_CLOSE).
  - destruct (remaining w2 =? 0).
    + unfold buf_set. destruct (buf_write_ok (w_buf w2) (w_wpos w2) [0] ltac:(lia) ltac:(change (zlen [0]) with 1; lia)) as (b3 & Hb3).
      rewrite Hb3. unfold pay_out. split; [assumption|]. split; [cbn [w_buf set_buf]; rewrite (buf_write_len _ _ _ _ Hb3); assumption|].
      right. left. reflexivity.
    + unfold pay_out. split; [assumption|]. split; [assumption|]. right. right. left. split; [right; reflexivity|]. split; assumption.
  - destruct (h_opcode (w_hd w2) =? OP_TEXT).
    + destruct (text_decode_G (w_buf w2) data toReturn bufsize Hb Hd Ht Hle) as (rl & b3 & E & Hb3 & Hrl3). rewrite E.
      apply Hfin; cbn [w_buf w_hd w_carry w_st w_wpos w_readlen set_wpos set_readlen set_buf]; try assumption; try reflexivity;
        try (right; reflexivity).
    + destruct (h_opcode (w_hd w2) =? OP_BIN).
      * apply Hfin; cbn [w_buf w_hd w_carry w_st w_wpos w_readlen set_wpos set_readlen set_buf]; try assumption; try reflexivity; try lia;
          try (right; reflexivity).
      * apply Hfin; try assumption; try reflexivity; try lia; try (left; reflexivity).
Qed.

Lemma read_and_decode_G : forall w i log len,
  zlen (w_buf w) = ws_buf_size -> G_pay w -> w_readlen w <= 0 ->
  (w_st w = ST_DATA_NEEDED \/ w_st w = ST_CLOSE_REASON_PENDING) -> 0 <= len -> log_ok log ->
  pay_out (read_and_decode true w i log len 0).
Proof.
  intros w i log len Hb (Hhl & Hw0 & Hw1 & Hc3) Hrl Hst Hlen Hlog.
  pose proof (zlen_nonneg _ (w_carry w)) as Hc0.
  unfold read_and_decode.
  destruct (buf_write_ok (w_buf w) (w_wpos w) (w_carry w) ltac:(lia) ltac:(lia)) as (b1 & Hb1). rewrite Hb1.
  pose proof (buf_write_len _ _ _ _ Hb1) as Hb1l.
  unfold w_carrylen. set (cl := zlen (w_carry w)) in *. set (wp := w_wpos w) in *.
  set (w1 := set_wpos (set_buf w b1) (wp + cl)).
  set (bufsize := ws_buf_size - (wp + cl) - 1).
  assert (0 <= bufsize < two31) as Hbs by (subst bufsize; unfold ws_buf_size, two31 in *; lia).
  rewrite (to_u64_id bufsize) by (unfold two64, two31 in *; lia).
  set (rem := remaining w1).
  assert (0 <= rem) as Hrem0 by (subst rem; unfold remaining, to_u64; apply Z.mod_pos_bound; unfold two64; lia).
  set (nextRead := if rem >? bufsize then bufsize else to_int rem).
  assert (0 <= nextRead <= bufsize) as Hnr.
  { subst nextRead. destruct (rem >? bufsize) eqn:E; [lia|]. rewrite to_int_id by (unfold two31 in *; lia). lia. }
  (* decode_tail on w' = w1 with n more bytes *)
  assert (forall n b2 i' log', 0 <= n -> wp + cl + n <= ws_buf_size - 1 -> zlen b2 = ws_buf_size -> log_ok log' ->
            pay_out (decode_tail (set_wpos (set_nrp (set_buf w1 b2) (w_nrp w1 + n)) (wp + cl + n)) i' log' len n 0 bufsize)) as Htail.
  { intros n b2 i' log' Hn0 Hnle Hb2 Hlog'.
    set (w' := set_wpos (set_nrp (set_buf w1 b2) (w_nrp w1 + n)) (wp + cl + n)).
    unfold decode_tail.
    set (wc := if remaining w' =? 0 then set_st w' ST_FRAME_COMPLETE else w').
    assert (w_buf wc = b2 /\ w_wpos wc = wp + cl + n /\ w_carry wc = w_carry w /\ w_hd wc = w_hd w /\ w_readlen wc = w_readlen w /\
            st_pay (w_st wc) /\ ((w_st wc =? ST_FRAME_COMPLETE) = false -> True)) as (F1 & F2 & F3 & F4 & F5 & F6 & _).
    { subst wc. destruct (remaining w' =? 0); cbn; repeat split; try reflexivity.
      - right. right. reflexivity.
      - unfold st_pay. destruct Hst as [H|H]; rewrite H; tauto. }
    unfold w_carrylen. rewrite F3. fold cl. rewrite F1, F2.
    set (t := n + cl + 0). assert (0 <= t) by (subst t; lia).
    destruct (t <? 0) eqn:Et; [lia|].
    replace (wp + cl + n - t) with wp by (subst t; lia).
    rewrite buf_read_ok by (subst t; lia).
    set (region := firstn (Z.to_nat t) (skipn (Z.to_nat wp) b2)).
    assert (zlen region = t) as Hrl' by (subst region; apply zlen_firstn; rewrite zlen_skipn by lia; subst t; lia).
    destruct (unmask_region_G (h_mask (w_hd wc)) (w_st wc =? ST_FRAME_COMPLETE) t region Hrl') as (r2 & c' & E & Hr2 & Hc').
    rewrite E.
    set (cl' := if w_st wc =? ST_FRAME_COMPLETE then 0 else t - t / 4 * 4).
    assert (0 <= cl' <= 3 /\ cl' <= t) as (Hcl' & Hclt).
    { subst cl'. destruct (w_st wc =? ST_FRAME_COMPLETE); [lia|]. Z.div_mod_to_equations. lia. }
    destruct ((cl' <? 0) || (cl' >? ws_carry_size)) eqn:Eio.
    { unfold ws_carry_size in Eio. apply orb_true_iff in Eio. destruct Eio; lia. }
    destruct (buf_write_ok b2 wp r2 ltac:(lia) ltac:(subst t; lia)) as (b3 & Hb3). rewrite Hb3.
    apply deliver_G; cbn [w_buf w_st w_hd w_wpos w_carry w_readlen set_wpos set_carry set_buf]; try assumption; try lia.
    - rewrite (buf_write_len _ _ _ _ Hb3). assumption.
    - rewrite F4. assumption. }
  destruct (nextRead >? 0) eqn:E0.
  - destruct (reader_any nextRead i ltac:(lia)) as (r & i' & tag & Hr & Hd).
    rewrite (to_u64_id nextRead) by (unfold two64, two31 in *; lia). rewrite Hr.
    assert (log_ok (log ++ [(wp + cl, nextRead, tag)])) as Hlog'.
    { apply log_ok_app; [assumption|]. apply log_ok_one; try lia; try (subst bufsize; lia). }
    destruct r as [d | | |].
    + change (w_buf w1) with b1.
      destruct (buf_write_ok b1 (wp + cl) d ltac:(lia) ltac:(subst bufsize; lia)) as (b2 & Hb2). rewrite Hb2.
      apply Htail; try assumption; try lia; try (subst bufsize; lia); try (rewrite (buf_write_len _ _ _ _ Hb2); lia).
    + unfold pay_out. cbn [w_buf set_wpos set_buf w1]. split; [assumption|]. split; [lia|].
      right. right. left. split; [destruct Hst as [H|H]; rewrite H; tauto|]. split; [|assumption].
      unfold G_pay. cbn [w_hd w_wpos w_carry set_wpos set_buf]. fold wp cl. tauto.
    + unfold pay_out. split; [assumption|]. split; [cbn; lia|]. left. reflexivity.
    + unfold pay_out. split; [assumption|]. split; [cbn; lia|]. left. reflexivity.
  - replace w1 with (set_wpos (set_nrp (set_buf w1 b1) (w_nrp w1 + 0)) (wp + cl + 0)).
    2:{ unfold w1. rewrite !Z.add_0_r. destruct w. reflexivity. }
    apply Htail; try assumption; lia.
Qed.

(* ---------------- webSocketsDecodeHybi ---------------- *)
Lemma G_of_pay_out : forall s r e dt w' i' log', pay_out (DRet s r e dt w' i' log') -> G (spor (set_st w' s)) /\ log_ok log'.
Proof.
  intros s r e dt w' i' log' (Hlog & Hb & Hcase). split; [|assumption].
  destruct Hcase as [-> | [-> | [([-> | ->] & HG & Hrl) | (-> & HG & Hrl)]]].
  - apply G_spor_done; [assumption|right; reflexivity].
  - apply G_spor_done; [assumption|left; reflexivity].
  - unfold spor. cbn [w_st set_st]. change (ST_DATA_NEEDED =? ST_FRAME_COMPLETE) with false. change (ST_DATA_NEEDED =? ST_ERR) with false. cbv iota.
    unfold G. cbn [w_buf w_st set_st]. split; [assumption|]. right. left. split; [left; reflexivity|]. split; assumption.
  - unfold spor. cbn [w_st set_st]. change (ST_CLOSE_REASON_PENDING =? ST_FRAME_COMPLETE) with false.
    change (ST_CLOSE_REASON_PENDING =? ST_ERR) with false. cbv iota.
    unfold G. cbn [w_buf w_st set_st]. split; [assumption|]. right. left. split; [right; reflexivity|]. split; assumption.
  - unfold spor. cbn [w_st set_st]. change (ST_DATA_AVAILABLE =? ST_FRAME_COMPLETE) with false.
    change (ST_DATA_AVAILABLE =? ST_ERR) with false. cbv iota.
    unfold G. cbn [w_buf w_st set_st]. split; [assumption|]. right. right. split; [reflexivity|]. split; assumption.
Qed.

Theorem decode_safe : forall w i len, G w -> 0 <= len ->
  match ws_decode true w i len with
  | OFault _ => False
  | ORet ret e d w' i' log => G w' /\ log_ok log
  end.
Proof.
  intros w i len (Hb & Hcase) Hlen. unfold ws_decode.
  destruct Hcase as [(Hst & HG) | [(Hst & HG & Hrl) | (Hst & HG & Hrl & Hrp0 & Hrp1)]].
  - (* HEADER_PENDING *)
    rewrite Hst. change (ST_HEADER_PENDING =? ST_HEADER_PENDING) with true. cbv iota.
    pose proof (read_header_G w i Hb HG) as Ho.
    destruct (read_header true w i) as [|s r e np w1 i1 log1]; [contradiction|].
    destruct Ho as (Hlog & Hb1 & [(-> & HG1) | [-> | (-> & -> & HG1 & Hrl1 & Hca1)]]).
    + change (ST_HEADER_PENDING =? ST_ERR) with false. change (negb (ST_HEADER_PENDING =? ST_HEADER_PENDING)) with false. cbv iota.
      split; [|assumption]. unfold spor. cbn [w_st set_st]. change (ST_HEADER_PENDING =? ST_FRAME_COMPLETE) with false.
      change (ST_HEADER_PENDING =? ST_ERR) with false. cbv iota. unfold G. cbn [w_buf w_st set_st].
      split; [assumption|]. left. split; [reflexivity|exact HG1].
    + change (ST_ERR =? ST_ERR) with true. cbv iota. split; [|assumption]. apply G_spor_done; [assumption|right; reflexivity].
    + change (ST_DATA_NEEDED =? ST_ERR) with false. change (negb (ST_DATA_NEEDED =? ST_HEADER_PENDING)) with true. cbv iota.
      pose proof (read_and_decode_G (set_st w1 ST_DATA_NEEDED) i1 log1 len Hb1 HG1 ltac:(cbn; lia) ltac:(left; reflexivity) Hlen Hlog) as Hp.
      destruct (read_and_decode true (set_st w1 ST_DATA_NEEDED) i1 log1 len 0) as [|s r' e' dt w' i' log']; [contradiction|].
      unfold of_dres. apply (G_of_pay_out _ _ _ _ _ _ _ Hp).
  - (* DATA_NEEDED / CLOSE_REASON_PENDING *)
    assert ((w_st w =? ST_HEADER_PENDING) = false /\ (w_st w =? ST_DATA_AVAILABLE) = false /\
            ((w_st w =? ST_DATA_NEEDED) || (w_st w =? ST_CLOSE_REASON_PENDING)) = true) as (E1 & E2 & E3)
      by (destruct Hst as [H|H]; rewrite H; repeat split; reflexivity).
    rewrite E1, E2, E3.
    pose proof (read_and_decode_G w i [] len Hb HG Hrl Hst Hlen ltac:(constructor)) as Hp.
    destruct (read_and_decode true w i [] len 0) as [|s r' e' dt w' i' log']; [contradiction|].
    unfold of_dres. apply (G_of_pay_out _ _ _ _ _ _ _ Hp).
  - (* DATA_AVAILABLE *)
    rewrite Hst. change (ST_DATA_AVAILABLE =? ST_HEADER_PENDING) with false. change (ST_DATA_AVAILABLE =? ST_DATA_AVAILABLE) with true.
    cbv iota.
    destruct (return_data_G w len Hb Hlen ltac:(right; lia)) as (s & r & e & d & w' & E & E1 & E2 & E3 & E4 & Hc).
    rewrite E.
    assert (G_pay w') as HG' by (apply (G_pay_fields w w'); assumption).
    assert (pay_out (DRet s r e d w' i [])) as Hp.
    { unfold pay_out. split; [constructor|]. split; [rewrite E1; assumption|].
      destruct Hc as [(Hneg & _) | [([-> | ->] & Hr) | (-> & Hr)]]; [lia| | |].
      - right. left. reflexivity.
      - right. right. left. split; [left; reflexivity|]. split; [assumption|lia].
      - right. right. right. split; [reflexivity|]. split; assumption. }
    apply (G_of_pay_out _ _ _ _ _ _ _ Hp).
Qed.

Lemma G_init : G ws_init.
Proof.
  assert (zlen (repeat 0 (Z.to_nat ws_buf_size)) = ws_buf_size) as H by (rewrite zlen_repeat; reflexivity).
  exact (proj1 (G_cleanup (mkWs (repeat 0 (Z.to_nat ws_buf_size)) (-1) (-1) 0 0 [] (mkHdr 0 mask0 0 0 0 0) 0 0) H)).
Qed.

(* whole sessions: any stream, any schedule, any caller lengths >= 0 *)
Fixpoint run_safe (w : ws) (i : io) (lens : list Z) : Prop :=
  match lens with
  | [] => True
  | len :: r =>
    match ws_decode true w i len with
    | OFault _ => False
    | ORet _ _ _ w' i' log => log_ok log /\ run_safe w' i' r
    end
  end.

Theorem session_safe : forall lens w i, G w -> Forall (fun l => 0 <= l) lens -> run_safe w i lens.
Proof.
  induction lens as [|len r IH]; intros w i HG Hl; [exact I|].
  inversion Hl as [|? ? Hlen Hr]. subst. cbn [run_safe].
  pose proof (decode_safe w i len HG Hlen) as H.
  destruct (ws_decode true w i len) as [|ret e d w' i' log]; [contradiction|].
  destruct H as [HG' Hlog]. split; [assumption|]. apply IH; assumption.
Qed.
