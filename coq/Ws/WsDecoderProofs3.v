(* C09 - decoder proofs, part 3: the payload phase of the repaired decoder (fx = true). *)
From Coq Require Import ZArith List Bool Lia.
From LV Require Import Ws.WsDefs Ws.Base64Defs Ws.WsSpecDefs Ws.WsDecoderModel Ws.WsTransparency
  Ws.WsListProofs Ws.Base64Proofs Ws.WsDecoderProofs1 Ws.WsDecoderProofs2 Gen.Consts_C09.
Import ListNotations.
Local Open Scope Z_scope.

(* ---------------- pure lemmas about the masked stream ---------------- *)
Lemma masked_chunk : forall m P a n, a mod 4 = 0 -> 0 <= a ->
  firstn n (skipn (Z.to_nat a) (xmask m 0 P)) = xmask m 0 (firstn n (skipn (Z.to_nat a) P)).
Proof.
  intros m P a n Ha H0. rewrite xmask_skipn. rewrite Z2Nat.id by lia. rewrite Z.add_0_l.
  rewrite xmask_aligned by assumption. apply xmask_firstn.
Qed.

Lemma skipn_app_len : forall A n (a b : list A), length a = n -> skipn n (a ++ b) = b.
Proof. intros A n a b H. subst n. apply skipn_app_exact. Qed.
Lemma firstn_app_len : forall A n (a b : list A), length a = n -> firstn n (a ++ b) = a.
Proof. intros A n a b H. subst n. apply firstn_app_exact. Qed.

Lemma unmask_region_ok : forall m X t complete, zlen X = t ->
  unmask_region m complete t (xmask m 0 X) =
  Some (if complete then (X, [])
        else (firstn (Z.to_nat (t / 4 * 4)) X ++ xmask m 0 (skipn (Z.to_nat (t / 4 * 4)) X),
              xmask m 0 (skipn (Z.to_nat (t / 4 * 4)) X))).
Proof.
  intros m X t complete Ht. pose proof (zlen_nonneg _ X) as H0. rewrite Ht in H0.
  unfold unmask_region.
  assert (Z.to_nat (t / 4 * 4) = (4 * Z.to_nat (t / 4))%nat) as En.
  { pose proof (Z.div_pos t 4 H0 ltac:(lia)). lia. }
  assert ((4 * Z.to_nat (t / 4) <= length X)%nat) as Hle.
  { unfold zlen in Ht. pose proof (Z.mul_div_le t 4 ltac:(lia)). lia. }
  rewrite (xor_words_xmask m _ X Hle). rewrite En.
  set (k := (4 * Z.to_nat (t / 4))%nat) in *.
  assert (length (firstn k X) = k) as Hk by (rewrite firstn_length; lia).
  rewrite (skipn_app_len _ k _ _ Hk).
  destruct complete; [|reflexivity].
  f_equal. f_equal.
  rewrite (firstn_app_len _ k _ _ Hk).
  unfold xor_tail. rewrite xmask_aligned by (rewrite Z.mod_mul; lia). rewrite xmask_invol.
  apply firstn_skipn.
Qed.

Lemma chunk_concat : forall (M : list Z) a cl m, 0 <= a -> 0 <= cl -> 0 <= m ->
  firstn (Z.to_nat cl) (skipn (Z.to_nat a) M) ++ firstn (Z.to_nat m) (skipn (Z.to_nat (a + cl)) M) =
  firstn (Z.to_nat (cl + m)) (skipn (Z.to_nat a) M).
Proof.
  intros M a cl m Ha Hc Hm. rewrite (firstn_skipn_split _ cl m) by lia.
  rewrite skipn_skipn_z by lia. replace (cl + a) with (a + cl) by lia. reflexivity.
Qed.

(* ---------------- application data carried by a stretch of wire payload ---------------- *)
Definition rest_data (cont : option bool) (c : cframe) (a : Z) : list Z :=
  if cf_isdata c then
    if cf_text cont c then skipn (Z.to_nat (a / 4 * 3)) (cf_data c) else skipn (Z.to_nat a) (cf_data c)
  else [].
Definition chunk_data (cont : option bool) (c : cframe) (a n : Z) : list Z :=
  if cf_isdata c then
    if cf_text cont c then firstn (Z.to_nat (n / 4 * 3)) (skipn (Z.to_nat (a / 4 * 3)) (cf_data c))
    else firstn (Z.to_nat n) (skipn (Z.to_nat a) (cf_data c))
  else [].

Lemma chunk_rest : forall cont c a n, a mod 4 = 0 -> n mod 4 = 0 -> 0 <= a -> 0 <= n ->
  chunk_data cont c a n ++ rest_data cont c (a + n) = rest_data cont c a.
Proof.
  intros cont c a n Ha Hn H0 H1. unfold chunk_data, rest_data.
  destruct (cf_isdata c); [|reflexivity]. destruct (cf_text cont c).
  - assert ((a + n) / 4 * 3 = n / 4 * 3 + a / 4 * 3) as E.
    { pose proof (Z.div_mod a 4 ltac:(lia)). pose proof (Z.div_mod n 4 ltac:(lia)).
      replace (a + n) with ((a / 4 + n / 4) * 4) by lia. rewrite Z.div_mul by lia. lia. }
    rewrite E. rewrite <- skipn_skipn_z by (Z.div_mod_to_equations; lia). apply firstn_skipn.
  - replace (a + n) with (n + a) by lia. rewrite <- skipn_skipn_z by lia. apply firstn_skipn.
Qed.

Lemma rest_data_0 : forall cont c, rest_data cont c 0 = cf_data c.
Proof. intros cont c. unfold rest_data. destruct c as [[|] ? ? ?| ? ? ? | ? ? ?]; cbn; try reflexivity. destruct cont as [[|]|]; reflexivity. Qed.

(* ---------------- stage A: carry copy and the socket read ---------------- *)
Definition wire (cont : option bool) (c : cframe) : list Z := xmask (cf_mask c) 0 (cf_wire cont c).

Lemma PS_wpos_bound : forall w cont c cs q, PS w cont c q -> conv_valid cont (c :: cs) = true ->
  6 <= w_wpos w /\ w_wpos w + zlen (w_carry w) <= 140.
Proof.
  intros w cont c cs q HP Hv. unfold PS in HP. cbv zeta in HP.
  destruct HP as (_ & _ & _ & _ & _ & _ & _ & Hq & Hcl & Hclq & _ & _ & _ & Hwp).
  pose proof (hlen_of_range (zlen (cf_wire cont c))) as Hh.
  destruct c as [t f m d | f m d | p m pl]; cbn [cf_isdata] in Hwp; try lia.
  apply conv_valid_cons in Hv. destruct Hv as (_ & _ & _ & _ & _ & Hpl).
  cbn [cf_wire] in *. unfold hlen_of in *. destruct (zlen pl <? 126) eqn:E; lia.
Qed.

Inductive stageA_res (w : ws) (cont : option bool) (c : cframe) (q : Z) (i : io) (tail : list Z) (log : rqlog) (len : Z) : dres -> Prop :=
| SA_again : forall w' i' log',
    PS w' cont c q -> w_readlen w' = 0 -> w_st w' = w_st w -> w_carry w' = w_carry w -> q < zlen (cf_wire cont c) ->
    avail_head i = false ->
    io_stream i' = io_stream i -> sched_live (io_sched i') = true ->
    stageA_res w cont c q i tail log len (DRet (w_st w) (-1) (Some EAGAIN) [] w' i' log')
| SA_data : forall m b2 i' log',
    0 <= m <= zlen (cf_wire cont c) - q -> (m = 0 -> q = zlen (cf_wire cont c)) ->
    w_wpos w + zlen (w_carry w) + m <= ws_buf_size - 1 ->
    zlen b2 = ws_buf_size ->
    buf_read b2 (w_wpos w) (zlen (w_carry w) + m) =
      Some (firstn (Z.to_nat (zlen (w_carry w) + m)) (skipn (Z.to_nat (q - zlen (w_carry w))) (wire cont c))) ->
    io_stream i' = skipn (Z.to_nat (q + m)) (wire cont c) ++ tail -> sched_live (io_sched i') = true ->
    stageA_res w cont c q i tail log len
      (decode_tail (set_wpos (set_nrp (set_buf w b2) (q + m)) (w_wpos w + zlen (w_carry w) + m)) i' log' len m 0
                   (ws_buf_size - (w_wpos w + zlen (w_carry w)) - 1)).

Lemma stall_nonempty : forall i q L tail (M : list Z),
  (avail_head i = true -> io_stream i = []) -> io_stream i = skipn (Z.to_nat q) M ++ tail ->
  zlen M = L -> 0 <= q -> q < L -> avail_head i = false.
Proof.
  intros i q L tail M Hav Hs HM H0 Hq. destruct (avail_head i) eqn:E; [|reflexivity]. exfalso.
  specialize (Hav eq_refl). rewrite Hs in Hav.
  assert (zlen (skipn (Z.to_nat q) M ++ tail) = 0) as Hz by (rewrite Hav; reflexivity).
  rewrite zlen_app, zlen_skipn in Hz by lia. pose proof (zlen_nonneg _ tail). lia.
Qed.

Lemma stageA : forall w cont c cs q i tail log len,
  PS w cont c q -> w_readlen w = 0 -> conv_valid cont (c :: cs) = true ->
  io_stream i = skipn (Z.to_nat q) (wire cont c) ++ tail -> sched_live (io_sched i) = true ->
  stageA_res w cont c q i tail log len (read_and_decode true w i log len 0).
Proof.
  intros w cont c cs q i tail log len HP Hrl Hv Hs Hl.
  pose proof (PS_wpos_bound _ _ _ _ _ HP Hv) as [Hw1 Hw2].
  pose proof (cf_wire_len _ _ _ Hv) as HL.
  pose proof HP as HP0. unfold PS in HP. cbv zeta in HP.
  destruct HP as (Hbuf & Hhl & Hpl & Hm & Hop & Hfin & Hnrp & Hq & Hcl & Hclq & Hal & Hca & Hco & Hwp).
  set (L := zlen (cf_wire cont c)) in *. set (cl := zlen (w_carry w)) in *.
  unfold read_and_decode.
  destruct (buf_write_ok (w_buf w) (w_wpos w) (w_carry w) ltac:(lia) ltac:(fold cl; unfold ws_buf_size in *; lia)) as (b1 & Hb1).
  rewrite Hb1. unfold w_carrylen. fold cl.
  pose proof (buf_write_len _ _ _ _ Hb1) as Hb1l.
  set (w1 := set_wpos (set_buf w b1) (w_wpos w + cl)).
  assert (remaining w1 = L - q) as Hrem.
  { unfold remaining, w1. cbn [w_hd set_wpos set_buf w_nrp]. rewrite Hpl, Hnrp. apply to_u64_id. unfold two64, two32 in *. lia. }
  rewrite Hrem.
  set (bufsize := ws_buf_size - (w_wpos w + cl) - 1).
  assert (0 < bufsize < two31) as Hbs by (subst bufsize; unfold ws_buf_size, two31; lia).
  rewrite (to_u64_id bufsize) by (unfold two64, two31 in *; lia).
  assert (wire cont c = xmask (cf_mask c) 0 (cf_wire cont c)) as Hwire by reflexivity.
  assert (zlen (wire cont c) = L) as HwL by (unfold wire; rewrite xmask_len; reflexivity).
  (* what the region at writePos holds once the carry and m new bytes are there *)
  assert (forall m b2, 0 <= m -> buf_write b1 (w_wpos w + cl) (firstn (Z.to_nat m) (skipn (Z.to_nat q) (wire cont c))) = Some b2 ->
          q + m <= L ->
          buf_read b2 (w_wpos w) (cl + m) = Some (firstn (Z.to_nat (cl + m)) (skipn (Z.to_nat (q - cl)) (wire cont c)))) as Hregion.
  { intros m b2 Hm0 Hb2 Hqm.
    assert (zlen (firstn (Z.to_nat m) (skipn (Z.to_nat q) (wire cont c))) = m) as Hdl.
    { apply zlen_firstn. rewrite zlen_skipn by lia. lia. }
    pose proof (buf_write_len _ _ _ _ Hb2) as Hb2l.
    pose proof (buf_write_inv _ _ _ _ Hb2) as (_ & Hb2b & _). rewrite Hdl in Hb2b.
    pose proof (buf_write_firstn_ext _ _ _ _ Hb2) as E2. rewrite Hdl in E2.
    pose proof (buf_write_firstn_ext _ _ _ _ Hb1) as E1. fold cl in E1.
    rewrite buf_read_ok by (unfold ws_buf_size in *; lia). f_equal.
    rewrite (firstn_skipn_comm_z _ (cl + m) (w_wpos w) b2) by lia.
    replace (w_wpos w + (cl + m)) with (w_wpos w + cl + m) by lia.
    rewrite E2, E1. rewrite <- app_assoc.
    assert (length (firstn (Z.to_nat (w_wpos w)) (w_buf w)) = Z.to_nat (w_wpos w)) as Hlw.
    { rewrite firstn_length. unfold zlen, ws_buf_size in *. lia. }
    rewrite <- Hlw at 1. rewrite skipn_app_exact.
    rewrite Hca. fold (wire cont c).
    rewrite <- (chunk_concat (wire cont c) (q - cl) cl m) by lia.
    replace (q - cl + cl) with q by lia. reflexivity. }
  destruct (L - q >? bufsize) eqn:Egt.
  - (* more than fits into the buffer *)
    destruct (bufsize >? 0) eqn:E0; [|lia].
    destruct (reader_live bufsize i Hl ltac:(lia)) as (r & i' & tag & Hr & Hl' & _ & Hcase).
    rewrite (to_u64_id bufsize) by (unfold two64, two31 in *; lia). rewrite Hr.
    destruct Hcase as [(-> & Hs' & Hav) | (m & Hm0 & Hmn & Hms & -> & Hs')].
    + cbn [w_st set_wpos set_buf]. apply SA_again; try assumption; try reflexivity; try (fold L; lia); try (apply (stall_nonempty i q L tail (wire cont c)); assumption || lia).
      unfold PS, w1. cbn [w_buf set_wpos set_buf w_hd w_nrp w_carry w_contop w_wpos]. cbv zeta. fold L cl.
      rewrite Hb1l. repeat split; try assumption; try lia.
    + assert (firstn (Z.to_nat m) (io_stream i) = firstn (Z.to_nat m) (skipn (Z.to_nat q) (wire cont c))) as Hd.
      { rewrite Hs. apply firstn_app_z. rewrite zlen_skipn by lia. lia. }
      rewrite Hd. set (d := firstn (Z.to_nat m) (skipn (Z.to_nat q) (wire cont c))) in *.
      assert (zlen d = m) as Hdl by (subst d; apply zlen_firstn; rewrite zlen_skipn by lia; lia).
      change (w_buf w1) with b1.
      destruct (buf_write_ok b1 (w_wpos w + cl) d ltac:(lia) ltac:(unfold ws_buf_size in *; subst bufsize; lia)) as (b2 & Hb2).
      rewrite Hb2, Hdl.
      replace (set_wpos (set_nrp (set_buf w1 b2) (w_nrp w1 + m)) (w_wpos w + cl + m))
        with (set_wpos (set_nrp (set_buf w b2) (q + m)) (w_wpos w + cl + m))
        by (unfold w1; cbn [set_wpos set_nrp set_buf w_buf w_wpos w_rpos w_readlen w_st w_carry w_hd w_nrp w_contop]; rewrite Hnrp; reflexivity).
      apply SA_data; try assumption; try lia.
      * rewrite (buf_write_len _ _ _ _ Hb2). lia.
      * apply Hregion; [lia|exact Hb2|lia].
      * rewrite Hs', Hs. rewrite skipn_app_z by (rewrite zlen_skipn by lia; lia).
        rewrite skipn_skipn_z by lia. replace (m + q) with (q + m) by lia. reflexivity.
  - rewrite (to_int_id (L - q)) by (unfold two31 in *; lia).
    destruct (L - q >? 0) eqn:E0.
    + destruct (reader_live (L - q) i Hl ltac:(lia)) as (r & i' & tag & Hr & Hl' & _ & Hcase).
      rewrite (to_u64_id (L - q)) by (unfold two64, two31 in *; lia). rewrite Hr.
      destruct Hcase as [(-> & Hs' & Hav) | (m & Hm0 & Hmn & Hms & -> & Hs')].
      * cbn [w_st set_wpos set_buf]. apply SA_again; try assumption; try reflexivity; try (fold L; lia); try (apply (stall_nonempty i q L tail (wire cont c)); assumption || lia).
        unfold PS, w1. cbn [w_buf set_wpos set_buf w_hd w_nrp w_carry w_contop w_wpos]. cbv zeta. fold L cl.
        rewrite Hb1l. repeat split; try assumption; try lia.
      * assert (firstn (Z.to_nat m) (io_stream i) = firstn (Z.to_nat m) (skipn (Z.to_nat q) (wire cont c))) as Hd.
        { rewrite Hs. apply firstn_app_z. rewrite zlen_skipn by lia. lia. }
        rewrite Hd. set (d := firstn (Z.to_nat m) (skipn (Z.to_nat q) (wire cont c))) in *.
        assert (zlen d = m) as Hdl by (subst d; apply zlen_firstn; rewrite zlen_skipn by lia; lia).
        change (w_buf w1) with b1.
        destruct (buf_write_ok b1 (w_wpos w + cl) d ltac:(lia) ltac:(unfold ws_buf_size in *; subst bufsize; lia)) as (b2 & Hb2).
        rewrite Hb2, Hdl.
        replace (set_wpos (set_nrp (set_buf w1 b2) (w_nrp w1 + m)) (w_wpos w + cl + m))
          with (set_wpos (set_nrp (set_buf w b2) (q + m)) (w_wpos w + cl + m))
          by (unfold w1; cbn [set_wpos set_nrp set_buf w_buf w_wpos w_rpos w_readlen w_st w_carry w_hd w_nrp w_contop]; rewrite Hnrp; reflexivity).
        apply SA_data; try assumption; try lia.
        -- rewrite (buf_write_len _ _ _ _ Hb2). lia.
        -- apply Hregion; [lia|exact Hb2|lia].
        -- rewrite Hs', Hs. rewrite skipn_app_z by (rewrite zlen_skipn by lia; lia).
           rewrite skipn_skipn_z by lia. replace (m + q) with (q + m) by lia. reflexivity.
    + (* nothing left to read: the frame is complete (only possible right after the header) *)
      assert (q = L) as HqL by lia.
      replace w1 with (set_wpos (set_nrp (set_buf w b1) (q + 0)) (w_wpos w + cl + 0)).
      2:{ unfold w1. rewrite !Z.add_0_r. destruct w. cbn in Hnrp. subst. reflexivity. }
      apply SA_data; try assumption; try lia.
      * assert (buf_write b1 (w_wpos w + cl) (firstn (Z.to_nat 0) (skipn (Z.to_nat q) (wire cont c))) = Some b1) as Hb2.
        { cbn [Z.to_nat firstn]. unfold buf_write.
          destruct (0 <=? w_wpos w + cl) eqn:E1; [|lia].
          change (zlen (@nil Z)) with 0. destruct (w_wpos w + cl + 0 <=? zlen b1) eqn:E2; [|unfold ws_buf_size in *; lia].
          cbn [andb app length]. rewrite Nat.add_0_r. rewrite firstn_skipn. reflexivity. }
        apply Hregion; [lia|exact Hb2|lia].
      * rewrite Z.add_0_r. exact Hs.
Qed.
