(* C09 - decoder proofs, part 2: the header phase of the repaired decoder (fx = true). *)
From Coq Require Import ZArith List Bool Lia.
From LV Require Import Ws.WsDefs Ws.Base64Defs Ws.WsSpecDefs Ws.WsDecoderModel Ws.WsTransparency
  Ws.WsListProofs Ws.Base64Proofs Ws.WsDecoderProofs1 Gen.Consts_C09.
Import ListNotations.
Local Open Scope Z_scope.

Ltac natconst := repeat match goal with |- context [Pos.to_nat ?p] =>
  let v := eval vm_compute in (Pos.to_nat p) in change (Pos.to_nat p) with v end.

Definition lb_of (L : Z) : Z := if L <? 126 then L else if L <? 65536 then 126 else 127.

Definition hdr_of (cont : option bool) (c : cframe) : list Z :=
  hdr_bytes (cf_fin c) (cf_op c) (cf_mask c) (zlen (cf_wire cont c)).

(* k header bytes of the current frame are in codeBufDecode[0..k) *)
Definition HB (w : ws) (cont : option bool) (c : cframe) (k : Z) : Prop :=
  zlen (w_buf w) = ws_buf_size /\ h_nread (w_hd w) = k /\ 0 <= k <= zlen (hdr_of cont c) /\
  firstn (Z.to_nat k) (w_buf w) = firstn (Z.to_nat k) (hdr_of cont c) /\
  w_carry w = [] /\ w_readlen w = 0 /\
  (w_contop w = contop_of cont \/ w_contop w = cf_contmid cont c).

Lemma hdr_of_len : forall cont c, zlen (hdr_of cont c) = hlen_of (zlen (cf_wire cont c)).
Proof. intros. unfold hdr_of. apply hdr_bytes_len. Qed.

Lemma hlen_of_range : forall L, 6 <= hlen_of L <= 14.
Proof. intro L. unfold hlen_of. destruct (L <? 126); [lia|]. destruct (L <? 65536); lia. Qed.

(* ---------------- one header read ---------------- *)
Lemma hdr_read_HB : forall w cont c k i tail n log,
  HB w cont c k -> io_stream i = skipn (Z.to_nat k) (hdr_of cont c) ++ tail ->
  sched_live (io_sched i) = true -> 0 < n -> k + n <= zlen (hdr_of cont c) ->
  (exists i' log', hdr_read true w i n log = HRPending i' log' /\ io_stream i' = io_stream i /\
     sched_live (io_sched i') = true /\ avail_head i = false) \/
  (exists m b i' log', 0 < m <= n /\ buf_write (w_buf w) k (firstn (Z.to_nat m) (skipn (Z.to_nat k) (hdr_of cont c))) = Some b /\
     hdr_read true w i n log = HRGot (set_hd (set_buf w b) (hd_set_nread (w_hd w) (k + m))) i' log' /\
     HB (set_hd (set_buf w b) (hd_set_nread (w_hd w) (k + m))) cont c (k + m) /\
     io_stream i' = skipn (Z.to_nat (k + m)) (hdr_of cont c) ++ tail /\ sched_live (io_sched i') = true).
Proof.
  intros w cont c k i tail n log HBw Hs Hl Hn Hk.
  destruct HBw as (Hbuf & Hnr & Hkr & Hpre & Hca & Hrl & Hco).
  pose proof (hlen_of_range (zlen (cf_wire cont c))) as Hhl. rewrite <- hdr_of_len in Hhl.
  assert (to_u64 n = n) as Hu by (apply to_u64_id; unfold two64; lia).
  destruct (reader_live n i Hl Hn) as (r & i' & tag & Hr & Hl' & _ & Hcase).
  unfold hdr_read. rewrite Hu, Hr.
  destruct Hcase as [(-> & Hs' & Hav) | (m & Hm0 & Hmn & Hms & -> & Hs')].
  - left. do 2 eexists. split; [reflexivity|]. split; [assumption|]. split; [assumption|].
    destruct (avail_head i) eqn:Ea; [|reflexivity]. exfalso. specialize (Hav eq_refl). rewrite Hs in Hav.
    assert (zlen (skipn (Z.to_nat k) (hdr_of cont c) ++ tail) = 0) as Hz by (rewrite Hav; reflexivity).
    rewrite zlen_app, zlen_skipn in Hz by lia. pose proof (zlen_nonneg _ tail). lia.
  - right.
    assert (zlen (skipn (Z.to_nat k) (hdr_of cont c)) = zlen (hdr_of cont c) - k) as Hsk by (apply zlen_skipn; lia).
    assert (firstn (Z.to_nat m) (io_stream i) = firstn (Z.to_nat m) (skipn (Z.to_nat k) (hdr_of cont c))) as Hd.
    { rewrite Hs. apply firstn_app_z. lia. }
    set (d := firstn (Z.to_nat m) (skipn (Z.to_nat k) (hdr_of cont c))) in *.
    assert (zlen d = m) as Hdl by (subst d; apply zlen_firstn; lia).
    rewrite Hd. rewrite Hnr.
    destruct (buf_write_ok (w_buf w) k d ltac:(lia) ltac:(unfold ws_buf_size in *; lia)) as (b & Hb).
    rewrite Hb. rewrite Hdl.
    exists m, b, i', (log ++ [(k, n, tag)]). split; [lia|]. split; [exact Hb|]. split; [reflexivity|].
    split; [|split; [|assumption]].
    + unfold HB. cbn [w_buf set_hd set_buf w_hd hd_set_nread h_nread w_carry w_readlen w_contop].
      split; [rewrite (buf_write_len _ _ _ _ Hb); assumption|]. split; [reflexivity|]. split; [lia|].
      split; [|tauto].
      pose proof (buf_write_firstn_ext _ _ _ _ Hb) as E. rewrite Hdl in E. rewrite E, Hpre.
      subst d. symmetry. apply firstn_skipn_split; lia.
    + rewrite Hs', Hs. rewrite skipn_app_z by lia. rewrite skipn_skipn_z by lia.
      replace (m + k) with (k + m) by lia. reflexivity.
Qed.

(* ---------------- the first two bytes ---------------- *)
Lemma b0_facts : forall c,
  let b0 := (if cf_fin c then 128 else 0) + cf_op c in
  Z.land b0 15 = cf_op c /\ Z.shiftr (Z.land b0 128) 7 = (if cf_fin c then 1 else 0) /\
  is_control (cf_op c) = negb (cf_isdata c).
Proof. intros [[|] [|] m d | [|] m d | [|] m d]; repeat split; reflexivity. Qed.

Definition lb_check (lb : Z) : bool := (Z.land (128 + lb) 127 =? lb) && negb (Z.land (128 + lb) 128 =? 0).
Lemma lb_sweep : forallb lb_check (zrange 128) = true.
Proof. vm_compute. reflexivity. Qed.
Lemma b1_facts : forall lb, 0 <= lb < 128 -> Z.land (128 + lb) 127 = lb /\ (Z.land (128 + lb) 128 =? 0) = false.
Proof.
  intros lb H. pose proof (sweep1 _ _ lb_sweep lb H) as E. unfold lb_check in E.
  apply andb_true_iff in E. destruct E as [E1 E2]. apply Z.eqb_eq in E1. apply negb_true_iff in E2. tauto.
Qed.

Lemma lb_of_range : forall L, 0 <= L -> 0 <= lb_of L < 128.
Proof. intros L H. unfold lb_of. destruct (L <? 126) eqn:E; [lia|]. destruct (L <? 65536); lia. Qed.

Lemma hdr_of_head : forall cont c, exists rest,
  hdr_of cont c = ((if cf_fin c then 128 else 0) + cf_op c) :: (128 + lb_of (zlen (cf_wire cont c))) :: rest.
Proof.
  intros cont c. unfold hdr_of, hdr_bytes, lb_of. destruct (cf_mask c) as [[[m0 m1] m2] m3].
  destruct (zlen (cf_wire cont c) <? 126); [eexists; reflexivity|].
  destruct (zlen (cf_wire cont c) <? 65536); eexists; reflexivity.
Qed.

(* header fields after the two-byte interpretation *)
Definition HF (w : ws) (cont : option bool) (c : cframe) : Prop :=
  h_opcode (w_hd w) = cf_eop cont c /\ h_fin (w_hd w) = (if cf_fin c then 1 else 0) /\
  h_plen (w_hd w) = lb_of (zlen (cf_wire cont c)) /\ w_contop w = cf_contmid cont c.

(* the state in which the payload is read: PS w cont c q  (q payload bytes consumed) *)
Definition PS (w : ws) (cont : option bool) (c : cframe) (q : Z) : Prop :=
  let P := cf_wire cont c in
  let L := zlen P in
  let M := xmask (cf_mask c) 0 P in
  let cl := zlen (w_carry w) in
  zlen (w_buf w) = ws_buf_size /\
  h_hlen (w_hd w) = hlen_of L /\ h_plen (w_hd w) = L /\ h_mask (w_hd w) = cf_mask c /\
  h_opcode (w_hd w) = cf_eop cont c /\ h_fin (w_hd w) = (if cf_fin c then 1 else 0) /\
  w_nrp w = q /\ 0 <= q <= L /\ 0 <= cl <= 3 /\ cl <= q /\ (q - cl) mod 4 = 0 /\
  w_carry w = firstn (Z.to_nat cl) (skipn (Z.to_nat (q - cl)) M) /\
  w_contop w = cf_contmid cont c /\
  w_wpos w = (if cf_isdata c then hlen_of L else hlen_of L + (q - cl)).

Definition after_header (w : ws) (cont : option bool) (c : cframe) : ws :=
  let L := zlen (cf_wire cont c) in
  set_nrp (set_rpos (set_wpos (set_hd w (mkHdr (hlen_of L) (cf_mask c) (hlen_of L) L (h_opcode (w_hd w)) (h_fin (w_hd w))))
                              (hlen_of L)) (hlen_of L)) 0.

Lemma after_header_PS : forall w cont c, HB w cont c (hlen_of (zlen (cf_wire cont c))) -> HF w cont c ->
  0 <= zlen (cf_wire cont c) ->
  PS (after_header w cont c) cont c 0 /\ w_readlen (after_header w cont c) = 0.
Proof.
  intros w cont c (Hbuf & Hnr & Hkr & Hpre & Hca & Hrl & Hco) (Fo & Ff & Fp & Fc) HL.
  unfold PS, after_header. cbn [w_buf w_hd w_nrp w_carry w_contop w_wpos w_readlen set_nrp set_rpos set_wpos set_hd
    h_hlen h_plen h_mask h_opcode h_fin].
  rewrite Hca. change (zlen (@nil Z)) with 0. rewrite Z.sub_0_r. cbn [Z.to_nat firstn].
  repeat split; try assumption; try lia; try reflexivity.
  destruct (cf_isdata c); lia.
Qed.

(* ---------------- hdr_finish ---------------- *)
Lemma hdr_finish_ok : forall w cont c k i log,
  HB w cont c k -> HF w cont c -> 0 <= zlen (cf_wire cont c) < two32 ->
  (k < hlen_of (zlen (cf_wire cont c)) -> hdr_finish w i log = h_pending w i log) /\
  (k = hlen_of (zlen (cf_wire cont c)) ->
     hdr_finish w i log = HRet ST_DATA_NEEDED (-1) None 0 (after_header w cont c) i log).
Proof.
  intros w cont c k i log HBw HFw HL.
  destruct HBw as (Hbuf & Hnr & Hkr & Hpre & Hca & Hrl & Hco). destruct HFw as (Fo & Ff & Fp & Fc).
  rewrite hdr_of_len in Hkr.
  set (L := zlen (cf_wire cont c)) in *.
  unfold hdr_finish. rewrite Fp, Hnr. unfold lb_of, hlen_of in *. fold L.
  unfold hdr_of, hdr_bytes in Hpre. fold L in Hpre.
  destruct (cf_mask c) as [[[m0 m1] m2] m3] eqn:Em.
  destruct (L <? 126) eqn:E1.
  - (* short *)
    consts. split; intro Hk.
    + destruct (k >=? 6) eqn:E; [lia|]. rewrite andb_false_r.
      destruct (L =? 126) eqn:E2; [lia|]. destruct (L =? 127) eqn:E3; [lia|]. reflexivity.
    + rewrite Hk in *. change (6 >=? 6) with true. cbn [andb].
      rewrite (buf_read_prefix _ _ 6 2 4 Hpre) by (unfold zlen in *; cbn [length] in *; lia).
      cbn [Z.to_nat]; natconst; cbn [skipn firstn].
      change (6 >? 6) with false. cbn [andb orb]. change (6 - 6) with 0. unfold after_header. fold L. rewrite Em.
      unfold hlen_of. rewrite E1. reflexivity.
  - destruct (L <? 65536) eqn:E2.
    + (* 16-bit *)
      change (126 <? 126) with false. cbn [andb]. change (126 =? 126) with true. cbn [andb].
      consts. split; intro Hk.
      * destruct (8 <=? k) eqn:E; [lia|]. change (126 =? 127) with false. cbn [andb]. reflexivity.
      * rewrite Hk in *. change (8 <=? 8) with true. cbv iota.
        assert (zlen (((if cf_fin c then 128 else 0) + cf_op c) :: 254 :: be_bytes 2 L ++ [m0; m1; m2; m3]) = 8) as HL8.
        { unfold zlen. cbn [length]. rewrite app_length, be_bytes_length. reflexivity. }
        rewrite (buf_read_prefix _ _ 8 2 2 Hpre) by lia.
        rewrite (buf_read_prefix _ _ 8 4 4 Hpre) by lia.
        cbn [be_bytes app Z.to_nat]; natconst; cbn [skipn firstn].
        assert (be_val [L / 256 mod 256; L mod 256] 0 = L) as Hv.
        { pose proof (be_val_2 L ltac:(lia)) as Hv. cbn [be_bytes app] in Hv. exact Hv. }
        rewrite Hv, E1. change (8 >? 6) with true. change (8 >? 8) with false. cbn [andb orb].
        change (8 - 8) with 0.
        unfold after_header. fold L. rewrite Em. unfold hlen_of. rewrite E1, E2. reflexivity.
    + (* 64-bit *)
      change (127 <? 126) with false. cbn [andb]. change (127 =? 126) with false. cbn [andb].
      change (127 =? 127) with true. cbn [andb].
      consts. split; intro Hk.
      * destruct (14 <=? k) eqn:E; [lia|]. reflexivity.
      * rewrite Hk in *. change (14 <=? 14) with true. cbv iota.
        assert (zlen (((if cf_fin c then 128 else 0) + cf_op c) :: 255 :: be_bytes 8 L ++ [m0; m1; m2; m3]) = 14) as HL14.
        { unfold zlen. cbn [length]. rewrite app_length, be_bytes_length. reflexivity. }
        rewrite (buf_read_prefix _ _ 14 2 8 Hpre) by lia.
        rewrite (buf_read_prefix _ _ 14 10 4 Hpre) by lia.
        pose proof (be_val_8 L ltac:(unfold two64; lia)) as Hv.
        cbn [be_bytes app] in Hv |- *. cbn [Z.to_nat]; natconst; cbn [skipn firstn].
        rewrite Hv, E1, E2. rewrite !andb_false_r. cbn [orb]. change (14 - 14) with 0.
        unfold after_header. fold L. rewrite Em. unfold hlen_of. rewrite E1, E2. reflexivity.
Qed.

(* ---------------- outcome of the header phase ---------------- *)
Definition hdr_stall (i0 : io) (cont : option bool) (c : cframe) (k k' : Z) : Prop :=
  k' = k -> avail_head i0 = false \/ (zlen (cf_wire cont c) < 126 /\ k < 6).

Definition hdr_outcome (r : hres) (cont : option bool) (c : cframe) (k : Z) (i0 : io) (tail : list Z) : Prop :=
  (exists w' i' log' k', r = h_pending w' i' log' /\ HB w' cont c k' /\
     k <= k' < hlen_of (zlen (cf_wire cont c)) /\
     io_stream i' = skipn (Z.to_nat k') (hdr_of cont c) ++ tail /\ sched_live (io_sched i') = true /\
     hdr_stall i0 cont c k k') \/
  (exists w' i' log', r = HRet ST_DATA_NEEDED (-1) None 0 w' i' log' /\ PS w' cont c 0 /\ w_readlen w' = 0 /\
     io_stream i' = tail /\ sched_live (io_sched i') = true).

Lemma HB_set_plen : forall w cont c k lb,
  HB w cont c k ->
  HB (set_hd w (mkHdr (h_nread (w_hd w)) (h_mask (w_hd w)) (h_hlen (w_hd w)) lb (h_opcode (w_hd w)) (h_fin (w_hd w)))) cont c k.
Proof. intros w cont c k lb H. exact H. Qed.

Lemma skipn_all_hdr : forall cont c tail,
  skipn (Z.to_nat (hlen_of (zlen (cf_wire cont c)))) (hdr_of cont c) ++ tail = tail.
Proof.
  intros. rewrite skipn_all_z; [reflexivity|]. rewrite hdr_of_len. lia.
Qed.

Lemma hdr_after_ok : forall w cont c cs k i tail log,
  HB w cont c k -> 2 <= k ->
  (zlen (cf_wire cont c) < 126 \/ k < hlen_of (zlen (cf_wire cont c))) ->
  h_opcode (w_hd w) = cf_eop cont c -> h_fin (w_hd w) = (if cf_fin c then 1 else 0) ->
  w_contop w = cf_contmid cont c ->
  conv_valid cont (c :: cs) = true ->
  io_stream i = skipn (Z.to_nat k) (hdr_of cont c) ++ tail -> sched_live (io_sched i) = true ->
  hdr_outcome (hdr_after true (128 + lb_of (zlen (cf_wire cont c))) w i log) cont c k i tail.
Proof.
  intros w cont c cs k i tail log HBw Hk2 Hkl Fo Ff Fc Hv Hs Hl.
  pose proof (cf_wire_len _ _ _ Hv) as HL. set (L := zlen (cf_wire cont c)) in *.
  pose proof (lb_of_range L ltac:(lia)) as Hlb.
  destruct (b1_facts _ Hlb) as [B1 B2].
  unfold hdr_after. rewrite B1, B2.
  set (w3 := set_hd w (mkHdr (h_nread (w_hd w)) (h_mask (w_hd w)) (h_hlen (w_hd w)) (lb_of L) (h_opcode (w_hd w)) (h_fin (w_hd w)))).
  assert (HB w3 cont c k) as HB3 by exact HBw.
  assert (HF w3 cont c) as HF3.
  { unfold HF, w3. cbn [w_hd set_hd h_opcode h_fin h_plen w_contop]. fold L. tauto. }
  assert (h_nread (w_hd w) = k) as Hnr by (destruct HBw as (_ & H & _); exact H).
  pose proof HBw as (_ & _ & Hkr & _). rewrite hdr_of_len in Hkr. fold L in Hkr.
  destruct (hdr_finish_ok w3 cont c k i log HB3 HF3 HL) as [Fin1 Fin2]. fold L in Fin1, Fin2.
  unfold lb_of in *. unfold hlen_of in *.
  destruct (L <? 126) eqn:E1.
  - (* short header: no second read *)
    destruct (L =? 126) eqn:E2; [lia|]. destruct (L =? 127) eqn:E3; [lia|]. cbn [orb].
    destruct (Z.eq_dec k 6) as [K6|K6].
    + right. rewrite (Fin2 K6). do 3 eexists. split; [reflexivity|].
      rewrite K6 in *. destruct (after_header_PS w3 cont c) as [P1 P2]; try assumption.
      { unfold hlen_of. fold L. rewrite E1. exact HB3. } { fold L. lia. }
      split; [exact P1|]. split; [exact P2|]. split; [|assumption].
      rewrite Hs. pose proof (skipn_all_hdr cont c tail) as E. unfold hlen_of in E. fold L in E. rewrite E1 in E. exact E.
    + left. rewrite (Fin1 ltac:(lia)). exists w3, i, log, k. split; [reflexivity|]. split; [exact HB3|].
      unfold hlen_of; fold L; rewrite E1. split; [lia|]. split; [assumption|]. split; [assumption|].
      intros _. right. apply Z.ltb_lt in E1. fold L. lia.
  - (* extended header: second read *)
    destruct Hkl as [Hkl|Hkl]; [lia|].
    assert (((if L <? 65536 then 126 else 127) =? 126) || ((if L <? 65536 then 126 else 127) =? 127) = true) as EE
      by (destruct (L <? 65536); reflexivity).
    rewrite EE. cbn [w_hd set_hd h_nread]. rewrite Hnr.
    set (hl := if L <? 65536 then 8 else 14) in *.
    assert ((if (if L <? 65536 then 126 else 127) =? 126 then HL_EXT else HL_LONG) = hl) as Ehl
      by (subst hl; destruct (L <? 65536); reflexivity).
    rewrite Ehl.
    assert (zlen (hdr_of cont c) = hl) as Hhl.
    { rewrite hdr_of_len. unfold hlen_of. fold L. rewrite E1. reflexivity. }
    destruct (hdr_read_HB w3 cont c k i tail (hl - k) log HB3 Hs Hl ltac:(lia) ltac:(lia))
      as [(i' & log' & Hr & Hs' & Hl' & Hav) | (m & b & i' & log' & Hm & Hb & Hr & HB4 & Hs' & Hl')].
    + rewrite Hr. left. exists w3, i', log', k. split; [reflexivity|]. split; [exact HB3|].
      unfold hlen_of; fold L; rewrite E1; fold hl. split; [lia|]. split; [rewrite Hs'; exact Hs|]. split; [exact Hl'|].
      intros _. left. exact Hav.
    + rewrite Hr. set (w4 := set_hd (set_buf w3 b) (hd_set_nread (w_hd w3) (k + m))) in *.
      assert (HF w4 cont c) as HF4 by exact HF3.
      destruct (hdr_finish_ok w4 cont c (k + m) i' log' HB4 HF4 HL) as [G1 G2]. fold L in G1, G2.
      unfold hlen_of in G1, G2. rewrite E1 in G1, G2. fold hl in G1, G2.
      destruct (Z.eq_dec (k + m) hl) as [K|K].
      * right. rewrite (G2 K). do 3 eexists. split; [reflexivity|].
        destruct (after_header_PS w4 cont c) as [P1 P2]; try assumption.
        { unfold hlen_of. fold L. rewrite E1. fold hl. rewrite <- K. exact HB4. } { fold L. lia. }
        split; [exact P1|]. split; [exact P2|]. split; [|assumption].
        rewrite Hs', K. pose proof (skipn_all_hdr cont c tail) as E. unfold hlen_of in E. fold L in E. rewrite E1 in E. exact E.
      * left. rewrite (G1 ltac:(lia)). exists w4, i', log', (k + m). split; [reflexivity|]. split; [exact HB4|].
        unfold hlen_of; fold L; rewrite E1; fold hl. split; [lia|]. split; [assumption|]. split; [assumption|].
        intro Hc. lia.
Qed.

Lemma hdr_outcome_weaken : forall r cont c k k0 i1 i0 tail, k0 < k -> hdr_outcome r cont c k i1 tail -> hdr_outcome r cont c k0 i0 tail.
Proof.
  intros r cont c k k0 i1 i0 tail Hk [(w' & i' & log' & k' & H1 & H2 & H3 & H4 & H5 & H6) | H].
  - left. exists w', i', log', k'. split; [exact H1|]. split; [exact H2|]. split; [lia|]. split; [assumption|]. split; [assumption|].
    intro Hc. lia.
  - right. exact H.
Qed.

Lemma contop_of_some : forall t, (contop_of (Some t) =? OP_INVALID) = false.
Proof. intros [|]; reflexivity. Qed.

Lemma hdr_parse_ok : forall w cont c cs k i tail log,
  HB w cont c k -> 2 <= k ->
  (zlen (cf_wire cont c) < 126 \/ k < hlen_of (zlen (cf_wire cont c))) ->
  conv_valid cont (c :: cs) = true ->
  io_stream i = skipn (Z.to_nat k) (hdr_of cont c) ++ tail -> sched_live (io_sched i) = true ->
  hdr_outcome (hdr_parse true w i log) cont c k i tail.
Proof.
  intros w cont c cs k i tail log HBw Hk2 Hkl Hv Hs Hl.
  pose proof HBw as (Hbuf & Hnr & Hkr & Hpre & Hca & Hrl & Hco).
  destruct (hdr_of_head cont c) as (rest & Eh).
  pose proof (hlen_of_range (zlen (cf_wire cont c))) as Hhl. rewrite <- hdr_of_len in Hhl.
  assert (buf_get (w_buf w) 0 = Some ((if cf_fin c then 128 else 0) + cf_op c)) as G0.
  { rewrite (buf_get_prefix _ _ k 0 Hpre) by (unfold ws_buf_size in *; lia). rewrite Eh. reflexivity. }
  assert (buf_get (w_buf w) 1 = Some (128 + lb_of (zlen (cf_wire cont c)))) as G1.
  { rewrite (buf_get_prefix _ _ k 1 Hpre) by (unfold ws_buf_size in *; lia). rewrite Eh. reflexivity. }
  unfold hdr_parse. rewrite G0, G1.
  destruct (b0_facts c) as (B0 & B1 & B2). cbv zeta in B0, B1. rewrite B0, B1, B2.
  pose proof (conv_valid_cons _ _ _ Hv) as (_ & _ & _ & _ & Hc).
  destruct c as [t f m d | f m d | p m pl]; cbn [cf_isdata negb].
  - (* first frame of a message *)
    assert ((cf_op (CData t f m d) =? OP_CONT) = false) as E by (destruct t; reflexivity). rewrite E.
    apply (hdr_after_ok _ cont _ cs k i tail log); try assumption; try reflexivity.
    + unfold HB in *. cbn [w_buf set_contop set_hd w_hd h_nread w_carry w_readlen w_contop]. repeat split; try tauto.
      right. cbn [cf_contmid cf_fin cf_op]. destruct f; reflexivity.
    + cbn [w_contop set_contop cf_contmid cf_fin cf_op]. destruct f; reflexivity.
  - (* continuation frame *)
    change (cf_op (CCont f m d) =? OP_CONT) with true. cbv iota.
    destruct cont as [t|]; [|congruence].
    assert (w_contop w = contop_of (Some t)) as Ec by (destruct Hco as [H|H]; exact H).
    cbn [w_contop set_hd]. rewrite Ec, contop_of_some.
    apply (hdr_after_ok _ (Some t) _ cs k i tail log); try assumption; try reflexivity.
  - (* ping / pong *)
    cbn [cf_fin]. change (1 =? 0) with false. cbv iota.
    apply (hdr_after_ok _ cont _ cs k i tail log); try assumption; try reflexivity.
    cbn [w_contop set_hd cf_contmid]. destruct Hco as [H|H]; exact H.
Qed.

Lemma read_header_ok : forall w cont c cs k i tail,
  HB w cont c k -> k < hlen_of (zlen (cf_wire cont c)) ->
  conv_valid cont (c :: cs) = true ->
  io_stream i = skipn (Z.to_nat k) (hdr_of cont c) ++ tail -> sched_live (io_sched i) = true ->
  hdr_outcome (read_header true w i) cont c k i tail.
Proof.
  intros w cont c cs k i tail HBw Hk Hv Hs Hl.
  pose proof HBw as (Hbuf & Hnr & Hkr & Hpre & Hca & Hrl & Hco).
  pose proof (hlen_of_range (zlen (cf_wire cont c))) as Hhl.
  unfold read_header. rewrite Hnr. unfold HL_SHORT.
  destruct (6 - k <=? 0) eqn:E; cbn [andb].
  - (* the short header is already buffered *)
    destruct (k <? 2) eqn:E2; [lia|].
    apply (hdr_parse_ok w cont c cs k i tail []); try assumption; lia.
  - destruct (hdr_read_HB w cont c k i tail (6 - k) [] HBw Hs Hl ltac:(lia) ltac:(rewrite hdr_of_len; lia))
      as [(i' & log' & Hr & Hs' & Hl' & Hav) | (m & b & i' & log' & Hm & Hb & Hr & HB1 & Hs' & Hl')].
    + rewrite Hr. left. exists w, i', log', k. split; [reflexivity|]. split; [exact HBw|].
      split; [lia|]. split; [rewrite Hs'; exact Hs|]. split; [exact Hl'|]. intros _. left. exact Hav.
    + rewrite Hr. cbn [w_hd set_hd hd_set_nread h_nread].
      destruct (k + m <? 2) eqn:E2.
      * left. do 4 eexists. split; [reflexivity|]. split; [exact HB1|]. split; [lia|]. split; [assumption|]. split; [assumption|].
        intro Hc. lia.
      * apply (hdr_outcome_weaken _ _ _ (k + m) k i'); [lia|].
        apply (hdr_parse_ok _ cont c cs (k + m) i' tail log'); try assumption; try lia.
        unfold hlen_of in *. destruct (zlen (cf_wire cont c) <? 126) eqn:E3; [left; lia|].
        right. destruct (zlen (cf_wire cont c) <? 65536); lia.
Qed.

(* a header call that leaves nRead unchanged had nothing to read although it asked *)
Lemma read_header_stall : forall w cont c cs k i tail,
  HB w cont c k -> k < hlen_of (zlen (cf_wire cont c)) ->
  conv_valid cont (c :: cs) = true ->
  io_stream i = skipn (Z.to_nat k) (hdr_of cont c) ++ tail -> sched_live (io_sched i) = true ->
  match read_header true w i with
  | HFault => True
  | HRet s _ _ _ w' _ _ => s = ST_HEADER_PENDING -> h_nread (w_hd w') = k -> avail_head i = false
  end.
Proof.
  intros w cont c cs k i tail HBw Hk Hv Hs Hl.
  pose proof HBw as (Hbuf & Hnr & Hkr & Hpre & Hca & Hrl & Hco).
  pose proof (hlen_of_range (zlen (cf_wire cont c))) as Hhl.
  assert (forall r k1 i1, hdr_outcome r cont c k1 i1 tail ->
            match r with HFault => True | HRet s _ _ _ w' _ _ =>
              s = ST_HEADER_PENDING -> h_nread (w_hd w') = k1 -> avail_head i1 = false \/ k1 < 6 end) as Hout.
  { intros r k1 i1 [(w' & i' & log' & k' & E & HB' & Hk' & _ & _ & Hst) | (w' & i' & log' & E & _)]; subst r.
    - unfold h_pending. intros _ Hn. destruct HB' as (_ & Hn' & _). rewrite Hn' in Hn.
      destruct (Hst Hn) as [H|[_ H]]; [left; assumption|right; assumption].
    - intro Hc. discriminate Hc. }
  unfold read_header. rewrite Hnr. unfold HL_SHORT.
  destruct (6 - k <=? 0) eqn:E; cbn [andb].
  - destruct (k <? 2) eqn:E2; [lia|].
    pose proof (hdr_parse_ok w cont c cs k i tail [] HBw ltac:(lia) ltac:(right; lia) Hv Hs Hl) as Ho.
    specialize (Hout _ _ _ Ho). destruct (hdr_parse true w i []); [exact I|].
    intros H1 H2. destruct (Hout H1 H2) as [H|H]; [assumption|lia].
  - destruct (hdr_read_HB w cont c k i tail (6 - k) [] HBw Hs Hl ltac:(lia) ltac:(rewrite hdr_of_len; lia))
      as [(i' & log' & Hr & Hs' & Hl' & Hav) | (m & b & i' & log' & Hm & Hb & Hr & HB1 & Hs' & Hl')].
    + rewrite Hr. unfold h_pending. intros _ _. exact Hav.
    + rewrite Hr. cbn [w_hd set_hd hd_set_nread h_nread].
      destruct (k + m <? 2) eqn:E2.
      * unfold h_pending. cbn [w_hd set_hd hd_set_nread h_nread]. intros _ Hc. lia.
      * assert (zlen (cf_wire cont c) < 126 \/ k + m < hlen_of (zlen (cf_wire cont c))) as Hcond.
        { unfold hlen_of in *. destruct (zlen (cf_wire cont c) <? 126) eqn:E3; [left; lia|].
          right. destruct (zlen (cf_wire cont c) <? 65536); lia. }
        pose proof (hdr_parse_ok _ cont c cs (k + m) i' tail log' HB1 ltac:(lia) Hcond Hv Hs' Hl') as Ho.
        assert (forall r, hdr_outcome r cont c (k + m) i' tail ->
                  match r with HFault => True | HRet s _ _ _ w' _ _ => s = ST_HEADER_PENDING -> h_nread (w_hd w') = k -> False end) as Hge.
        { intros r [(w' & i'' & log'' & k' & E' & HB' & Hk' & _) | (w' & i'' & log'' & E' & _)]; subst r.
          - unfold h_pending. intros _ Hn. destruct HB' as (_ & Hn' & _). lia.
          - intro Hc. discriminate Hc. }
        specialize (Hge _ Ho). destruct (hdr_parse true _ i' log'); [exact I|]. intros H1 H2. exfalso. exact (Hge H1 H2).
Qed.
