(* C09 - encoder proofs: webSocketsEncodeHybi emits exactly one valid unmasked final frame whose
   payload (base64-decoded in text mode) is the input; rfbWriteExact's chunking concatenates. *)
From Coq Require Import ZArith List Bool Lia.
From LV Require Import Ws.WsDefs Ws.Base64Defs Ws.Sha1Defs Ws.WsSpecDefs Ws.WsEncoderModel
  Ws.WsListProofs Ws.Base64Proofs Ws.WsTextProofs Ws.WsDecoderProofs1 Gen.Consts_C09 Gen.Strs_C09.
Import ListNotations.
Local Open Scope Z_scope.

Definition lbu_check (lb : Z) : bool := (Z.land lb 127 =? lb) && (Z.land lb 128 =? 0) && byte_ok lb.
Lemma lbu_sweep : forallb lbu_check (zrange 128) = true.
Proof. vm_compute. reflexivity. Qed.
Lemma lbu_facts : forall lb, 0 <= lb < 128 -> Z.land lb 127 = lb /\ (Z.land lb 128 =? 0) = true /\ byte_ok lb = true.
Proof.
  intros lb H. pose proof (sweep1 _ _ lbu_sweep lb H) as E. unfold lbu_check in E.
  repeat rewrite andb_true_iff in E. destruct E as [[E1 E2] E3]. apply Z.eqb_eq in E1. tauto.
Qed.

Lemma b64len_enc : forall d, b64len (zlen d) = zlen (b64_enc d).
Proof.
  intro d. unfold b64len. rewrite enc_length. pose proof (zlen_nonneg _ d).
  rewrite (Z.quot_div_nonneg (zlen d + 2) 3) by lia.
  rewrite Z.quot_div_nonneg by (try lia; pose proof (Z.div_pos (zlen d + 2) 3 ltac:(lia) ltac:(lia)); lia).
  Z.div_mod_to_equations. lia.
Qed.

(* parsing an unmasked final data frame with a short or 16-bit length *)
Lemma parse_unmasked_rest : forall op P rest, (op = 1 \/ op = 2) -> 0 < zlen P < 65536 ->
  parse_frame (Z.lor 128 (Z.land op 15) ::
               (if zlen P <=? 125 then [zlen P mod 256] else 126 :: be_bytes 2 (zlen P mod 65536)) ++ P ++ rest) =
  Some (mkFrame true op false mask0 P, rest).
Proof.
  intros op P rest Hop HL. set (L := zlen P) in *. pose proof (zlen_nonneg _ rest) as Hr0.
  assert (Z.lor 128 (Z.land op 15) = 128 + op) as Eb0 by (destruct Hop; subst; reflexivity).
  rewrite Eb0.
  assert (byte_ok (128 + op) = true /\ (Z.land (128 + op) 112 =? 0) = true /\ (Z.land (128 + op) 128 =? 0) = false /\
          Z.land (128 + op) 15 = op) as (A1 & A2 & A3 & A4) by (destruct Hop; subst; repeat split; reflexivity).
  assert (zlen (P ++ rest) = L + zlen rest) as Hpl by (rewrite zlen_app; reflexivity).
  assert (firstn (Z.to_nat L) (P ++ rest) = P /\ skipn (Z.to_nat L) (P ++ rest) = rest) as [Hf Hs]
    by (split; [apply firstn_app_exact_z|apply skipn_app_exact_z]).
  destruct (L <=? 125) eqn:E.
  - apply Z.leb_le in E. rewrite Z.mod_small by lia. destruct (lbu_facts L ltac:(lia)) as (B1 & B2 & B3).
    cbn [app]. unfold parse_frame. unfold bytes_ok. cbn [forallb]. rewrite A1, B3. cbn [andb negb].
    rewrite A2, A3, A4, B2, B1. cbn [negb].
    destruct (L =? 126) eqn:E1; [lia|]. destruct (L =? 127) eqn:E2; [lia|].
    change (0 =? 0) with true. cbv iota. cbn [Z.to_nat firstn skipn].
    rewrite Hpl. destruct (L + zlen rest <? 0) eqn:E3; [lia|]. cbn [andb orb]. change (0 =? 2) with false. change (0 =? 8) with false. cbn [andb orb].
    destruct (L + zlen rest <? L) eqn:E4; [lia|]. rewrite Hf, Hs. reflexivity.
  - apply Z.leb_gt in E. rewrite Z.mod_small by lia.
    assert (be_bytes 2 L = [L / 256 mod 256; L mod 256]) as Eb by reflexivity. rewrite Eb.
    cbn [app]. unfold parse_frame. unfold bytes_ok. cbn [forallb]. rewrite A1. change (byte_ok 126) with true. cbn [andb negb].
    rewrite A2, A3, A4. change (Z.land 126 128 =? 0) with true. change (Z.land 126 127) with 126. cbn [negb].
    change (126 =? 126) with true. cbv iota.
    assert (zlen (L / 256 mod 256 :: L mod 256 :: P ++ rest) = 2 + L + zlen rest) as El by (rewrite !zlen_cons, Hpl; lia).
    rewrite El. destruct (2 + L + zlen rest <? 2) eqn:E3; [lia|].
    change (2 =? 0) with false. cbv iota. change (Z.to_nat 2) with 2%nat. cbn [firstn skipn].
    pose proof (be_val_2 L ltac:(lia)) as Hv. rewrite Eb in Hv. rewrite Hv.
    change (2 =? 2) with true. change (2 =? 8) with false. destruct (L <? 126) eqn:E4; [lia|]. cbn [andb orb].
    rewrite Hpl. destruct (L + zlen rest <? L) eqn:E5; [lia|]. rewrite Hf, Hs. reflexivity.
Qed.

Lemma parse_unmasked : forall op P, (op = 1 \/ op = 2) -> 0 < zlen P < 65536 ->
  parse_frame (Z.lor 128 (Z.land op 15) ::
               (if zlen P <=? 125 then [zlen P mod 256] else 126 :: be_bytes 2 (zlen P mod 65536)) ++ P) =
  Some (mkFrame true op false mask0 P, []).
Proof. intros op P Hop HL. pose proof (parse_unmasked_rest op P [] Hop HL) as H. rewrite app_nil_r in H. exact H. Qed.

Definition enc_frame_ok (b64 : bool) (src out : list Z) : Prop :=
  exists f, parse_stream out = Some [f] /\ f_fin f = true /\ f_masked f = false /\
    f_op f = (if b64 then OP_TEXT else OP_BIN) /\
    (if b64 then b64_pton (f_payload f) (zlen src + 1) = Some src else f_payload f = src).

Lemma encode_valid : forall b64 src, bytes_ok src = true -> 1 <= zlen src <= ws_update_buf_size ->
  fst (ws_encode b64 src) = zlen (snd (ws_encode b64 src)) /\ enc_frame_ok b64 src (snd (ws_encode b64 src)).
Proof.
  intros b64 src Hb Hl. unfold ws_encode.
  destruct (zlen src =? 0) eqn:E0; [lia|]. destruct (zlen src >? ws_update_buf_size) eqn:E1; [lia|].
  set (P := if b64 then b64_enc src else src).
  assert ((if b64 then b64len (zlen src) else zlen src) = zlen P) as EP.
  { subst P. destruct b64; [apply b64len_enc|reflexivity]. }
  rewrite EP.
  assert (0 < zlen P < 65536) as HP.
  { subst P. destruct b64; [|unfold ws_update_buf_size in *; lia].
    rewrite enc_length. unfold ws_update_buf_size in *. Z.div_mod_to_equations. lia. }
  assert (zlen P <= 43692) as HP2.
  { subst P. destruct b64; [|unfold ws_update_buf_size in *; lia].
    rewrite enc_length. unfold ws_update_buf_size in *. Z.div_mod_to_equations. lia. }
  set (op := if b64 then OP_TEXT else OP_BIN).
  assert (op = 1 \/ op = 2) as Hop by (subst op; destruct b64; [left|right]; reflexivity).
  pose proof (parse_unmasked op P Hop HP) as Hparse.
  destruct (zlen P <=? 65536) eqn:E2; [|lia].
  assert (forall hb sz, (hb, sz) = (if zlen P <=? 125 then ([Z.lor 128 (Z.land op 15); zlen P mod 256], 2)
                                    else (Z.lor 128 (Z.land op 15) :: 126 :: be_bytes 2 (zlen P mod 65536), 4)) ->
          sz = zlen hb /\ 2 <= sz <= 4 /\
          hb ++ P = Z.lor 128 (Z.land op 15) :: (if zlen P <=? 125 then [zlen P mod 256] else 126 :: be_bytes 2 (zlen P mod 65536)) ++ P) as Hhb.
  { intros hb sz E. destruct (zlen P <=? 125); injection E as -> ->; repeat split; try reflexivity; try (intro Hc; discriminate Hc). }
  destruct (if zlen P <=? 125 then ([Z.lor 128 (Z.land op 15); zlen P mod 256], 2)
            else (Z.lor 128 (Z.land op 15) :: 126 :: be_bytes 2 (zlen P mod 65536), 4)) as [hb sz] eqn:Ehb.
  destruct (Hhb hb sz eq_refl) as (Esz & Hsz & Eout).
  assert (parse_stream (hb ++ P) = Some [mkFrame true op false mask0 P]) as Hps.
  { unfold parse_stream. rewrite Eout. cbn [length parse_frames]. rewrite <- Eout at 1.
    rewrite Eout. rewrite Hparse. destruct (length _); reflexivity. }
  destruct b64.
  - (* text *)
    rewrite b64_ntop_enc; [|assumption|subst P; unfold ws_encbuf_size; lia].
    cbn [fst snd]. split; [rewrite zlen_app; subst P; lia|].
    exists (mkFrame true op false mask0 P). cbn [f_fin f_masked f_op f_payload].
    repeat split; try assumption; try reflexivity. subst P. apply b64_pton_enc; [assumption|lia].
  - cbn [fst snd]. split; [rewrite zlen_app; subst P; lia|].
    exists (mkFrame true op false mask0 P). cbn [f_fin f_masked f_op f_payload]. repeat split; try assumption; reflexivity.
Qed.

(* ---------------- chunking in rfbWriteExact ---------------- *)
Lemma upd_pos : 0 < ws_update_buf_size.
Proof. reflexivity. Qed.
Local Opaque ws_update_buf_size.
Fixpoint chunks (fuel : nat) (l : list Z) : list (list Z) :=
  match fuel with
  | O => [l]
  | S k => if zlen l >? ws_update_buf_size
           then firstn (Z.to_nat ws_update_buf_size) l :: chunks k (skipn (Z.to_nat ws_update_buf_size) l)
           else [l]
  end.

Lemma chunks_concat : forall fuel l, concat (chunks fuel l) = l.
Proof.
  induction fuel; intro l; cbn [chunks]; [cbn; apply app_nil_r|].
  destruct (zlen l >? ws_update_buf_size); [|cbn; apply app_nil_r].
  cbn [concat]. rewrite IHfuel. apply firstn_skipn.
Qed.

Lemma chunks_sizes : forall fuel l, (length l <= fuel)%nat ->
  Forall (fun ch => zlen ch <= ws_update_buf_size /\ (l <> [] -> 1 <= zlen ch)) (chunks fuel l).
Proof.
  induction fuel; intros l Hf; cbn [chunks].
  - destruct l; [|cbn in Hf; lia]. constructor; [|constructor]. split; [pose proof upd_pos; change (zlen (@nil Z)) with 0; lia|congruence].
  - destruct (zlen l >? ws_update_buf_size) eqn:E.
    + assert (zlen (firstn (Z.to_nat ws_update_buf_size) l) = ws_update_buf_size) as Hl
        by (apply zlen_firstn; pose proof upd_pos; lia).
      constructor; [split; [lia|intros _; pose proof upd_pos; lia]|].
      assert (zlen (skipn (Z.to_nat ws_update_buf_size) l) = zlen l - ws_update_buf_size) as Hs
        by (apply zlen_skipn; pose proof upd_pos; lia).
      specialize (IHfuel (skipn (Z.to_nat ws_update_buf_size) l)).
      assert (length (skipn (Z.to_nat ws_update_buf_size) l) <= fuel)%nat as Hf'.
      { pose proof upd_pos. unfold zlen in *. lia. }
      specialize (IHfuel Hf'). eapply Forall_impl; [|exact IHfuel].
      intros ch [H1 H2]. split; [assumption|]. intros _. apply H2. intro En. rewrite En in Hs.
      change (zlen (@nil Z)) with 0 in Hs. lia.
    + constructor; [|constructor]. split; [lia|]. intro Hn. destruct l; [congruence|]. rewrite zlen_cons. pose proof (zlen_nonneg _ l). lia.
Qed.

Lemma ws_write_go_chunks : forall fuel b64 l, bytes_ok l = true -> (length l < fuel)%nat ->
  ws_write_go fuel b64 l = Some (concat (map (fun ch => snd (ws_encode b64 ch)) (chunks (length l) l))).
Proof.
  induction fuel; intros b64 l Hb Hf; [lia|]. cbn [ws_write_go].
  destruct (zlen l >? ws_update_buf_size) eqn:E.
  - assert (0 < length l)%nat as Hpos by (pose proof upd_pos; unfold zlen in *; lia).
    destruct (length l) as [|n] eqn:En; [lia|]. cbn [chunks]. rewrite E. cbn [map concat].
    set (a := firstn (Z.to_nat ws_update_buf_size) l). set (r := skipn (Z.to_nat ws_update_buf_size) l).
    assert (zlen a = ws_update_buf_size) as Ha by (subst a; apply zlen_firstn; pose proof upd_pos; lia).
    assert (length r <= n)%nat as Hr.
    { subst r. rewrite skipn_length. pose proof upd_pos. lia. }
    (* first chunk: exactly UPDATE_BUF_SIZE bytes, a single frame *)
    assert (ws_write_go fuel b64 a = Some (snd (ws_encode b64 a))) as E1.
    { destruct fuel; [lia|]. cbn [ws_write_go]. rewrite Ha. destruct (ws_update_buf_size >? ws_update_buf_size) eqn:E'; [lia|].
      pose proof (encode_valid b64 a (bytes_ok_firstn _ _ Hb) ltac:(pose proof upd_pos; lia)) as [Hret _].
      destruct (ws_encode b64 a) as [ret out]. cbn [fst snd] in *. pose proof (zlen_nonneg _ out).
      destruct (ret <? 0) eqn:E''; [lia|reflexivity]. }
    rewrite E1.
    rewrite (IHfuel b64 r (bytes_ok_skipn _ _ Hb)) by lia.
    (* chunks with more fuel than needed give the same list *)
    assert (forall f1 f2 x, (length x <= f1)%nat -> (length x <= f2)%nat -> chunks f1 x = chunks f2 x) as Hfu.
    { clear. induction f1; intros f2 x H1 H2.
      - destruct x; [|cbn in H1; lia]. destruct f2; reflexivity.
      - destruct f2.
        + destruct x; [reflexivity|cbn in H2; lia].
        + cbn [chunks]. destruct (zlen x >? ws_update_buf_size) eqn:E; [|reflexivity]. f_equal.
          apply IHf1; rewrite skipn_length; pose proof upd_pos; unfold zlen in *; lia. }
    rewrite (Hfu (length r) n r) by lia. reflexivity.
  - assert (chunks (length l) l = [l]) as Ec.
    { destruct (length l); cbn [chunks]; [reflexivity|]. rewrite E. reflexivity. }
    rewrite Ec. cbn [map concat]. rewrite app_nil_r.
    destruct (zlen l =? 0) eqn:E0.
    + apply Z.eqb_eq in E0. apply zlen_0_nil in E0. subst l. reflexivity.
    + pose proof (zlen_nonneg _ l).
      pose proof (encode_valid b64 l Hb ltac:(lia)) as [Hret _].
      destruct (ws_encode b64 l) as [ret out]. cbn [fst snd] in *. pose proof (zlen_nonneg _ out).
      destruct (ret <? 0) eqn:E''; [lia|reflexivity].
Qed.

Lemma ws_write_chunks : forall b64 l, bytes_ok l = true ->
  ws_write b64 l = Some (concat (map (fun ch => snd (ws_encode b64 ch)) (chunks (length l) l))) /\
  concat (chunks (length l) l) = l /\
  Forall (fun ch => zlen ch <= ws_update_buf_size /\ (l <> [] -> 1 <= zlen ch)) (chunks (length l) l).
Proof.
  intros b64 l Hb. split; [|split].
  - unfold ws_write. apply ws_write_go_chunks; [assumption|lia].
  - apply chunks_concat.
  - apply chunks_sizes. lia.
Qed.

(* ---------------- composite: what rfbWriteExact puts on the wire parses back to the data ---------------- *)
Definition out_payload (b64 : bool) (src : list Z) : list Z := if b64 then b64_enc src else src.
Definition out_op (b64 : bool) : Z := if b64 then OP_TEXT else OP_BIN.
Definition enc_bytes (b64 : bool) (src : list Z) : list Z :=
  let P := out_payload b64 src in
  Z.lor 128 (Z.land (out_op b64) 15) ::
  (if zlen P <=? 125 then [zlen P mod 256] else 126 :: be_bytes 2 (zlen P mod 65536)) ++ P.
Definition out_frame (b64 : bool) (src : list Z) : frame := mkFrame true (out_op b64) false mask0 (out_payload b64 src).

Lemma out_payload_len : forall b64 src, 1 <= zlen src <= 32768 -> 0 < zlen (out_payload b64 src) < 65536.
Proof.
  intros b64 src H. unfold out_payload. destruct b64; [|lia]. rewrite enc_length. Z.div_mod_to_equations. lia.
Qed.

Lemma ws_encode_form : forall b64 src, bytes_ok src = true -> 1 <= zlen src <= 32768 ->
  snd (ws_encode b64 src) = enc_bytes b64 src.
Proof.
  intros b64 src Hb Hl. pose proof (out_payload_len b64 src Hl) as HP.
  assert (zlen (out_payload b64 src) <= 43692) as HP2.
  { unfold out_payload. destruct b64; [|lia]. rewrite enc_length. Z.div_mod_to_equations. lia. }
  unfold ws_encode, enc_bytes.
  destruct (zlen src =? 0) eqn:E0; [lia|].
  assert ((zlen src >? ws_update_buf_size) = false) as E1 by (change ws_update_buf_size with 32768; lia). rewrite E1.
  assert ((if b64 then b64len (zlen src) else zlen src) = zlen (out_payload b64 src)) as EP
    by (unfold out_payload; destruct b64; [apply b64len_enc|reflexivity]).
  rewrite EP. fold (out_op b64). set (P := out_payload b64 src) in *.
  destruct (zlen P <=? 65536) eqn:E2; [|lia].
  destruct (zlen P <=? 125) eqn:E3.
  - destruct b64.
    + rewrite b64_ntop_enc; [|assumption|unfold P, out_payload in *; change ws_encbuf_size with 43706; lia]. reflexivity.
    + reflexivity.
  - destruct b64.
    + rewrite b64_ntop_enc; [|assumption|unfold P, out_payload in *; change ws_encbuf_size with 43706; lia]. reflexivity.
    + reflexivity.
Qed.

Lemma parse_frames_enc : forall b64 chs fuel rest_ok,
  Forall (fun ch => bytes_ok ch = true /\ 1 <= zlen ch <= 32768) chs -> (length chs <= fuel)%nat -> rest_ok = tt ->
  parse_frames fuel (concat (map (enc_bytes b64) chs)) = Some (map (out_frame b64) chs).
Proof.
  intros b64 chs. induction chs as [|ch chs IH]; intros fuel u Hall Hf _.
  - cbn. destruct fuel; reflexivity.
  - inversion Hall as [|? ? [Hb Hl] Hall']. subst. cbn [length] in Hf. destruct fuel as [|k]; [lia|].
    cbn [map concat]. unfold enc_bytes at 1. cbn [app parse_frames].
    assert (out_op b64 = 1 \/ out_op b64 = 2) as Hop by (destruct b64; [left|right]; reflexivity).
    rewrite <- app_assoc.
    rewrite (parse_unmasked_rest (out_op b64) (out_payload b64 ch) _ Hop (out_payload_len b64 ch Hl)).
    rewrite (IH k tt Hall' ltac:(lia) eq_refl). reflexivity.
Qed.

Lemma chunks_bytes_ok : forall fuel l, bytes_ok l = true -> Forall (fun ch => bytes_ok ch = true) (chunks fuel l).
Proof.
  induction fuel; intros l H; cbn [chunks]; [constructor; [assumption|constructor]|].
  destruct (zlen l >? ws_update_buf_size); [|constructor; [assumption|constructor]].
  constructor; [apply bytes_ok_firstn; assumption|apply IHfuel, bytes_ok_skipn; assumption].
Qed.

Theorem write_parses_back : forall b64 l, bytes_ok l = true -> l <> [] ->
  exists out, ws_write b64 l = Some out /\
    parse_stream out = Some (map (out_frame b64) (chunks (length l) l)) /\
    concat (chunks (length l) l) = l /\
    Forall (fun ch => 1 <= zlen ch <= ws_update_buf_size) (chunks (length l) l).
Proof.
  intros b64 l Hb Hne. destruct (ws_write_chunks b64 l Hb) as (Hw & Hc & Hsz).
  set (chs := chunks (length l) l) in *.
  assert (Forall (fun ch => bytes_ok ch = true /\ 1 <= zlen ch <= 32768) chs) as Hall.
  { pose proof (chunks_bytes_ok (length l) l Hb) as Hbo. fold chs in Hbo.
    rewrite Forall_forall in *. intros ch Hin. specialize (Hsz ch Hin). specialize (Hbo ch Hin).
    change ws_update_buf_size with 32768 in Hsz. destruct Hsz as [H1 H2]. specialize (H2 Hne). tauto. }
  assert (map (fun ch => snd (ws_encode b64 ch)) chs = map (enc_bytes b64) chs) as Em.
  { apply map_ext_in. intros ch Hin. rewrite Forall_forall in Hall. destruct (Hall ch Hin) as [H1 H2]. apply ws_encode_form; assumption. }
  exists (concat (map (enc_bytes b64) chs)). rewrite Hw, Em. split; [reflexivity|]. split; [|split; [assumption|]].
  - unfold parse_stream. apply (parse_frames_enc b64 chs _ tt Hall); [|reflexivity].
    (* every encoded chunk has at least one byte *)
    clear. induction chs as [|ch chs IH]; [cbn; lia|]. cbn [map concat length]. rewrite app_length. unfold enc_bytes at 1. cbn [length]. lia.
  - rewrite Forall_forall in *. intros ch Hin. destruct (Hall ch Hin) as [_ H]. change ws_update_buf_size with 32768. lia.
Qed.
