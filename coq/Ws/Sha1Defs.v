(* C09 - executable SHA-1 (FIPS 180-4) on byte lists; used for Sec-WebSocket-Accept.
   The implementation under test uses libgcrypt; the correspondence run compares both. *)
From Coq Require Import ZArith List Bool.
From LV Require Import Ws.WsDefs.
Import ListNotations.
Local Open Scope Z_scope.

Definition w32 (x : Z) : Z := x mod two32.
Definition rotl (n x : Z) : Z := w32 (Z.lor (Z.shiftl x n) (Z.shiftr x (32 - n))).

Definition sha1_pad (msg : list Z) : list Z :=
  let l := zlen msg in
  let k := (55 - l) mod 64 in          (* number of zero bytes after 0x80 *)
  msg ++ [128] ++ repeat 0 (Z.to_nat k) ++ be_bytes 8 (8 * l).

Fixpoint words_of (fuel : nat) (l : list Z) : list Z :=
  match fuel with
  | O => []
  | S f => match l with
           | a :: b :: c :: d :: r => be_val [a; b; c; d] 0 :: words_of f r
           | _ => []
           end
  end.

Fixpoint blocks_of (fuel : nat) (ws : list Z) : list (list Z) :=
  match fuel with
  | O => []
  | S f => match ws with
           | [] => []
           | _ => firstn 16 ws :: blocks_of f (skipn 16 ws)
           end
  end.

(* message schedule: win = the last 16 words, oldest first *)
Fixpoint sched_ext (n : nat) (win : list Z) : list Z :=
  match n with
  | O => []
  | S k =>
    match win with
    | w0 :: w1 :: w2 :: w3 :: w4 :: w5 :: w6 :: w7 :: w8 :: w9 :: w10 :: w11 :: w12 :: w13 :: w14 :: w15 :: nil =>
      let w := rotl 1 (Z.lxor (Z.lxor w13 w8) (Z.lxor w2 w0)) in
      w :: sched_ext k [w1; w2; w3; w4; w5; w6; w7; w8; w9; w10; w11; w12; w13; w14; w15; w]
    | _ => []
    end
  end.
Definition schedule (block : list Z) : list Z := block ++ sched_ext 64 block.

Definition sha_f (t b c d : Z) : Z :=
  if t <? 20 then Z.lor (Z.land b c) (Z.land (w32 (Z.lnot b)) d)
  else if t <? 40 then Z.lxor (Z.lxor b c) d
  else if t <? 60 then Z.lor (Z.lor (Z.land b c) (Z.land b d)) (Z.land c d)
  else Z.lxor (Z.lxor b c) d.
Definition sha_k (t : Z) : Z :=
  if t <? 20 then 1518500249 else if t <? 40 then 1859775393
  else if t <? 60 then 2400959708 else 3395469782.

Definition state5 := (Z * Z * Z * Z * Z)%type.

Fixpoint rounds (ws : list Z) (t : Z) (s : state5) : state5 :=
  match ws with
  | [] => s
  | w :: r =>
    let '(a, b, c, d, e) := s in
    let tmp := w32 (rotl 5 a + sha_f t b c d + e + sha_k t + w) in
    rounds r (t + 1) (tmp, a, rotl 30 b, c, d)
  end.

Definition sha1_block (s : state5) (block : list Z) : state5 :=
  let '(h0, h1, h2, h3, h4) := s in
  let '(a, b, c, d, e) := rounds (schedule block) 0 s in
  (w32 (h0 + a), w32 (h1 + b), w32 (h2 + c), w32 (h3 + d), w32 (h4 + e)).

Definition sha1_init : state5 := (1732584193, 4023233417, 2562383102, 271733878, 3285377520).

Definition sha1 (msg : list Z) : list Z :=
  let p := sha1_pad msg in
  let ws := words_of (length p) p in
  let '(h0, h1, h2, h3, h4) := fold_left sha1_block (blocks_of (length ws) ws) sha1_init in
  be_bytes 4 h0 ++ be_bytes 4 h1 ++ be_bytes 4 h2 ++ be_bytes 4 h3 ++ be_bytes 4 h4.
