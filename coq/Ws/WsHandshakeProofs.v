(* C09 - Sec-WebSocket-Accept: the answer is base64 of the SHA-1 digest of key ++ GUID (for every
   key), the RFC 6455 example and the FIPS 180 vectors are reproduced by the executable model. *)
From Coq Require Import ZArith List Bool Lia.
From LV Require Import Ws.WsDefs Ws.Base64Defs Ws.Sha1Defs Ws.WsSpecDefs Ws.WsDecoderModel Ws.WsTransparency Ws.WsEncoderModel Ws.WsListProofs Ws.Base64Proofs Ws.WsDecoderProofs1
  Gen.Consts_C09 Gen.Strs_C09.
Import ListNotations.
Local Open Scope Z_scope.

Lemma be_bytes_ok : forall n v, bytes_ok (be_bytes n v) = true.
Proof.
  induction n; intro v; [reflexivity|]. cbn [be_bytes]. unfold bytes_ok in *. rewrite forallb_app, IHn. cbn [forallb andb].
  unfold byte_ok. pose proof (Z.mod_pos_bound v 256 ltac:(lia)).
  destruct (0 <=? v mod 256) eqn:E1; [|lia]. destruct (v mod 256 <? 256) eqn:E2; [reflexivity|lia].
Qed.

Lemma sha1_shape : forall msg, bytes_ok (sha1 msg) = true /\ zlen (sha1 msg) = 20.
Proof.
  intro msg. unfold sha1.
  destruct (fold_left sha1_block _ sha1_init) as [[[[h0 h1] h2] h3] h4].
  split.
  - unfold bytes_ok. rewrite !forallb_app. pose proof be_bytes_ok as B. unfold bytes_ok in B. rewrite !B. reflexivity.
  - rewrite !zlen_app. unfold zlen. rewrite !be_bytes_length. reflexivity.
Qed.

Lemma accept_is_b64_sha1 : forall key,
  exists a, ws_accept key = Some a /\ zlen a = 28 /\
            b64_pton a 21 = Some (sha1 (take_nonzero key ++ ws_guid)).
Proof.
  intro key. destruct (sha1_shape (take_nonzero key ++ ws_guid)) as [Hb Hl].
  exists (b64_enc (sha1 (take_nonzero key ++ ws_guid))).
  assert (zlen (b64_enc (sha1 (take_nonzero key ++ ws_guid))) = 28) as Hl28 by (rewrite enc_length, Hl; reflexivity).
  split; [|split].
  - unfold ws_accept. apply b64_ntop_enc; [assumption|]. rewrite Hl28. reflexivity.
  - exact Hl28.
  - apply b64_pton_enc; [assumption|]. rewrite Hl. reflexivity.
Qed.

(* "dGhlIHNhbXBsZSBub25jZQ==" -> "s3pPLMBiTxaQ9kYGzzhZRbK+xOo="  (RFC 6455 section 1.3) *)
Definition rfc_key : list Z :=
  [100; 71; 104; 108; 73; 72; 78; 104; 98; 88; 66; 115; 90; 83; 66; 117; 98; 50; 53; 106; 90; 81; 61; 61].
Definition rfc_accept : list Z :=
  [115; 51; 112; 80; 76; 77; 66; 105; 84; 120; 97; 81; 57; 107; 89; 71; 122; 122; 104; 90; 82; 98; 75; 43; 120; 79; 111; 61].

Lemma accept_rfc_example : ws_accept rfc_key = Some rfc_accept.
Proof. vm_compute. reflexivity. Qed.

(* FIPS 180 examples: "abc", the empty message, the 56-byte two-block message *)
Lemma sha1_abc : sha1 [97; 98; 99] =
  [169; 153; 62; 54; 71; 6; 129; 106; 186; 62; 37; 113; 120; 80; 194; 108; 156; 208; 216; 157].
Proof. vm_compute. reflexivity. Qed.
Lemma sha1_empty : sha1 [] =
  [218; 57; 163; 238; 94; 107; 75; 13; 50; 85; 191; 239; 149; 96; 24; 144; 175; 216; 7; 9].
Proof. vm_compute. reflexivity. Qed.
Definition fips_two_block : list Z := (* abcdbcdecdefdefgefghfghighijhijkijkljklmklmnlmnomnopnopq *)
  [97;98;99;100;98;99;100;101;99;100;101;102;100;101;102;103;101;102;103;104;102;103;104;105;103;104;105;106;
   104;105;106;107;105;106;107;108;106;107;108;109;107;108;109;110;108;109;110;111;109;110;111;112;110;111;112;113].
Lemma sha1_two_block : sha1 fips_two_block =
  [132; 152; 62; 68; 28; 59; 210; 110; 186; 174; 74; 161; 249; 81; 41; 229; 229; 70; 112; 241].
Proof. vm_compute. reflexivity. Qed.

(* ---------------- the answer of webSocketsHandshake once the request lines are parsed ---------------- *)
From LV Require Import Ws.WsHandshakeModel.

Definition chosen_protocol (pr : option (list Z)) : bool * list Z :=
  match pr with
  | Some p => if contains s_base64 p then (true, s_base64) else if contains s_binary p then (false, s_binary) else (false, [])
  | None => (false, [])
  end.

Lemma hs_finish_answer : forall st key,
  hs_version st <> 0 -> hs_field st (hs_key st) = Some key ->
  is_some (hs_path st) = true -> is_some (hs_host st) = true ->
  (is_some (hs_origin st) || is_some (hs_sorigin st)) = true ->
  exists accept, ws_accept key = Some accept /\ zlen accept = 28 /\
    b64_pton accept 21 = Some (sha1 (take_nonzero key ++ ws_guid)) /\
    let '(b64, proto) := chosen_protocol (hs_field st (hs_proto st)) in
    hs_finish st = HsOk (hs_wspath st) b64
      (match proto with
       | [] => hs_noproto_0 ++ accept ++ hs_noproto_1
       | _ => hs_proto_0 ++ accept ++ hs_proto_1 ++ proto ++ hs_proto_2
       end).
Proof.
  intros st key Hv Hk Hp Hh Ho. destruct (accept_is_b64_sha1 key) as (a & Ea & Hl & Hd).
  exists a. split; [assumption|]. split; [assumption|]. split; [assumption|].
  unfold hs_finish. destruct (hs_version st =? 0) eqn:E; [apply Z.eqb_eq in E; contradiction|].
  rewrite Hk, Hp, Hh, Ho. cbn [andb negb]. rewrite Ea.
  unfold chosen_protocol. destruct (hs_field st (hs_proto st)) as [p|]; [|reflexivity].
  destruct (contains s_base64 p); [reflexivity|]. destruct (contains s_binary p); reflexivity.
Qed.

(* a complete, conforming request (RFC 6455 1.3 example key, sub-protocol "binary, base64") *)
Definition ascii_req : list Z := (* GET /ws HTTP/1.1\r\nHost: h\r\nOrigin: o\r\nSec-WebSocket-Key: dGhlIHNhbXBsZSBub25jZQ==\r\n
                                    Sec-WebSocket-Protocol: binary, base64\r\nSec-WebSocket-Version: 13\r\n\r\n *)
  [71;69;84;32;47;119;115;32;72;84;84;80;47;49;46;49;13;10;
   72;111;115;116;58;32;104;13;10; 79;114;105;103;105;110;58;32;111;13;10;
   83;101;99;45;87;101;98;83;111;99;107;101;116;45;75;101;121;58;32] ++ rfc_key ++ [13;10;
   83;101;99;45;87;101;98;83;111;99;107;101;116;45;80;114;111;116;111;99;111;108;58;32;98;105;110;97;114;121;44;32;98;97;115;101;54;52;13;10;
   83;101;99;45;87;101;98;83;111;99;107;101;116;45;86;101;114;115;105;111;110;58;32;49;51;13;10;13;10].

Lemma handshake_example :
  ws_handshake false ascii_req =
  HsOk (Some [47; 119; 115]) true (hs_proto_0 ++ rfc_accept ++ hs_proto_1 ++ s_base64 ++ hs_proto_2).
Proof. vm_compute. reflexivity. Qed.

(* refusal: without a version (or version 0), without a key, or without path / host / origin, whatever else the
   request contained *)
Lemma hs_finish_refuses : forall st,
  hs_version st = 0 \/ hs_key st = None \/ hs_path st = None \/ hs_host st = None \/
  (hs_origin st = None /\ hs_sorigin st = None) ->
  hs_finish st = HsFail (hs_wspath st).
Proof.
  intros st H. unfold hs_finish.
  destruct (hs_version st =? 0) eqn:Ev; [reflexivity|]. apply Z.eqb_neq in Ev.
  destruct H as [H|H]; [contradiction|].
  unfold hs_field. destruct (hs_key st) as [k|] eqn:Ek; [|reflexivity].
  destruct H as [H|H]; [discriminate|].
  destruct H as [H|[H|[H1 H2]]]; rewrite ?H, ?H1, ?H2; cbn [is_some andb orb negb]; try reflexivity.
  - destruct (is_some (hs_path st)); reflexivity.
  - destruct (is_some (hs_path st)); destruct (is_some (hs_host st)); reflexivity.
Qed.
