(* C09 - the snapshot decoder (fx = false) is transparent on every input on which it never takes
   one of the branches repaired by notes/fix_C09_1.diff, i.e. on which its run coincides with the
   run of the repaired decoder. *)
From Coq Require Import ZArith List Bool Lia.
From LV Require Import Ws.WsDefs Ws.Base64Defs Ws.WsSpecDefs Ws.WsDecoderModel Ws.WsTransparency
  Ws.WsRefuted Ws.WsDecoderProofs6 Gen.Consts_C09.
Import ListNotations.
Local Open Scope Z_scope.

Definition defect_free (cs : list cframe) (sched : list rev) (lens : list Z) : Prop :=
  ws_run false ws_init (mkIO (conv_stream cs) sched) lens = ws_run true ws_init (mkIO (conv_stream cs) sched) lens.

Lemma transparent_partial : forall cs sched lens,
  conv_valid None cs = true -> sched_live sched = true -> lens_ok lens = true ->
  defect_free cs sched lens -> transparent_b false cs sched lens = true.
Proof.
  intros cs sched lens Hv Hl Hlens Hd. unfold transparent_b. unfold defect_free in Hd. rewrite Hd.
  exact (transparent_fixed cs sched lens Hv Hl Hlens).
Qed.

(* the hypothesis is satisfiable: the whole frame is available, header 6 + 2 bytes, payload at once *)
Lemma transparent_partial_nonvacuous :
  conv_valid None wit_conv = true /\ sched_live [RAvail 4096; RAvail 4096; RAvail 4096; RAvail 4096] = true /\
  lens_ok [100; 100; 300] = true /\ defect_free wit_conv [RAvail 4096; RAvail 4096; RAvail 4096; RAvail 4096] [100; 100; 300].
Proof. vm_compute. repeat split; reflexivity. Qed.

(* and it fails on the refutation witnesses *)
Lemma witnesses_not_defect_free :
  ~ defect_free wit_conv wit_sched_split wit_lens /\ ~ defect_free wit_conv wit_sched_eagain wit_lens.
Proof. split; intro H; vm_compute in H; discriminate H. Qed.
