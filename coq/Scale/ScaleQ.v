(* C17, the geometry of server-side scaling over exact rationals - the intended meaning of the
   double expressions of src/libvncserver/scale.c (DESIGN.md section 5, C17).  Everything is an
   integer division: for from > 0 and non-negative operands floor(x*to/from) = (x*to)/from. *)
From Coq Require Export ZArith Bool Lia.
Local Open Scope Z_scope.

(* ScaleX / ScaleY: (int)((x / from) * to) *)
Definition scaleQ (from to x : Z) : Z := (x * to) / from.

(* one axis of rfbScaledCorrection: x2 = floor(x*to/from), w2 = ceil(w*to/from + frac(x*to/from)),
   0 -> 1, clip to [to] *)
Definition corr1Q (from to x w : Z) : Z * Z :=
  let x2 := (x * to) / from in
  let num := w * to + (x * to) mod from in
  let w2 := (num + from - 1) / from in
  let w3 := if w2 =? 0 then 1 else w2 in
  let w4 := if x2 + w3 >? to then to - x2 else w3 in
  (x2, w4).

Definition correctionQ (fw fh tw th x y w h : Z) : Z * Z * Z * Z :=
  let '(x', w') := corr1Q fw tw x w in
  let '(y', h') := corr1Q fh th y h in
  (x', y', w', h').
