(* Proofs about the scaling model: exact geometry (ScaleQ), box filter and chain of scaled screens
   (ScaleDefs), refuted statements. *)
From LV Require Import Scale.ScaleQ Scale.ScaleDefs Cursor.CursorProofs Gen.Consts_C17.
From Coq Require Import Lia.
Local Open Scope Z_scope.

(* ------------------------------------------------------------------ rfbScaledCorrection, exact *)
Lemma corr1Q_inside : forall from to x w,
  1 <= from -> 1 <= to -> 0 <= x < from -> 0 <= w ->
  let '(x2, w2) := corr1Q from to x w in
  0 <= x2 /\ 1 <= w2 /\ x2 + w2 <= to.
Proof.
  intros from to x w Hf Ht Hx Hw. unfold corr1Q.
  set (x2 := x * to / from).
  assert (X0 : 0 <= x2) by (apply Z.div_pos; nia).
  assert (X1 : x2 < to).
  { apply Z.div_lt_upper_bound; [lia|]. nia. }
  set (w2 := (w * to + (x * to) mod from + from - 1) / from).
  assert (W0 : 0 <= w2).
  { apply Z.div_pos; [|lia]. pose proof (Z.mod_pos_bound (x * to) from ltac:(lia)). nia. }
  destruct (Z.eqb_spec w2 0); rewrite Z.gtb_ltb.
  - destruct (Z.ltb_spec to (x2 + 1)); lia.
  - destruct (Z.ltb_spec to (x2 + w2)); lia.
Qed.

(* the corrected rectangle covers the exact image [x*to/from, (x+w)*to/from) of the source rectangle *)
Lemma corr1Q_covers : forall from to x w,
  1 <= from -> 1 <= to -> 0 <= x -> 0 <= w -> x + w <= from ->
  let '(x2, w2) := corr1Q from to x w in
  x2 * from <= x * to /\ (x + w) * to <= (x2 + w2) * from.
Proof.
  intros from to x w Hf Ht Hx Hw Hs. unfold corr1Q.
  pose proof (Z.div_mod (x * to) from ltac:(lia)) as D.
  pose proof (Z.mod_pos_bound (x * to) from ltac:(lia)) as M.
  set (x2 := x * to / from) in *. set (r := (x * to) mod from) in *.
  set (num := w * to + r).
  pose proof (Z.div_mod (num + from - 1) from ltac:(lia)) as D2.
  pose proof (Z.mod_pos_bound (num + from - 1) from ltac:(lia)) as M2.
  set (w2 := (num + from - 1) / from) in *.
  assert (C : num <= w2 * from) by nia.
  assert (W0 : 0 <= w2) by (apply Z.div_pos; subst num; nia).
  split; [nia|].
  destruct (Z.eqb_spec w2 0); rewrite Z.gtb_ltb.
  - destruct (Z.ltb_spec to (x2 + 1)); subst num; nia.
  - destruct (Z.ltb_spec to (x2 + w2)); subst num; nia.
Qed.

(* ------------------------------------------------------------------ every source pixel read is inside *)
(* scale-down geometry over exact rationals: destination rectangle (x1,w1) inside the w'-wide scaled
   screen, source origin sx0 = ScaleX(x1), block width ax = ScaleX(1) *)
Lemma block_inside_Q : forall W w' x1 w1 i u,
  1 <= w' -> 0 <= W -> 0 <= x1 -> x1 + w1 <= w' -> 0 <= i < w1 ->
  let sx0 := scaleQ w' W x1 in
  let ax := scaleQ w' W 1 in
  0 <= u < ax -> 0 <= sx0 + i * ax + u < W.
Proof.
  intros W w' x1 w1 i u Hw HW Hx Hs Hi sx0 ax Hu. subst sx0 ax. unfold scaleQ in *.
  pose proof (Z.div_mod (x1 * W) w' ltac:(lia)) as D1.
  pose proof (Z.mod_pos_bound (x1 * W) w' ltac:(lia)) as M1.
  pose proof (Z.div_mod (1 * W) w' ltac:(lia)) as D2.
  pose proof (Z.mod_pos_bound (1 * W) w' ltac:(lia)) as M2.
  set (a := x1 * W / w') in *. set (b := 1 * W / w') in *.
  assert (A0 : 0 <= a) by (apply Z.div_pos; nia).
  assert (B0 : 0 <= b) by (apply Z.div_pos; nia).
  split; [nia|].
  assert (K : (a + (i + 1) * b) * w' <= w' * W) by nia.
  assert (a + (i + 1) * b <= W) by nia. nia.
Qed.

(* pointer: client pixel x of a w'-wide scaled view (w' = W / n) maps into the source block
   [x*ax, x*ax + ax) that the filter averages for it *)
Lemma pointer_in_block_Q : forall W n x,
  1 <= n -> n <= W -> let w' := W / n in 0 <= x < w' ->
  let ax := scaleQ w' W 1 in
  x * ax <= scaleQ w' W x < x * ax + ax.
Proof.
  intros W n x Hn HW w' Hx ax. subst ax. unfold scaleQ.
  assert (W1 : 1 <= w').
  { subst w'. apply Z.div_le_lower_bound; lia. }
  pose proof (Z.div_mod W n ltac:(lia)) as Dn. pose proof (Z.mod_pos_bound W n ltac:(lia)) as Mn.
  fold w' in Dn.
  replace (1 * W) with W by lia.
  pose proof (Z.div_mod W w' ltac:(lia)) as D. pose proof (Z.mod_pos_bound W w' ltac:(lia)) as M.
  set (ax := W / w') in *. set (rho := W mod w') in *.
  (* rho < ax *)
  assert (AX : n <= ax).
  { subst ax. apply Z.div_le_lower_bound; [lia|]. nia. }
  assert (RHO : rho < ax).
  { destruct (Z_lt_le_dec (W mod n) w') as [Lt|Ge].
    - (* W = n*w' + r with r < w' : ax = n, rho = r < n *)
      assert (ax = n /\ rho = W mod n).
      { apply (Z.div_mod_unique w' ax n rho (W mod n)); try lia. }
      lia.
    - assert (rho < w') by lia. assert (w' <= W mod n) by lia. lia. }
  replace (x * W) with (x * ax * w' + x * rho) by nia.
  rewrite Z.div_add_l by lia.
  assert (0 <= x * rho / w') by (apply Z.div_pos; nia).
  assert (x * rho / w' < ax).
  { apply Z.div_lt_upper_bound; [lia|]. nia. }
  lia.
Qed.

(* ------------------------------------------------------------------ the box filter *)
Fixpoint sumZ (n : nat) (k : Z) (f : Z -> Z) : Z :=
  match n with O => 0 | S m => f k + sumZ m (k + 1) f end.

Definition px_or0 (src : fb) (x y : Z) : Z := match fb_get src x y with Some p => p | None => 0 end.

Lemma iter_sum_spec : forall (g : Z -> option Z) (c : Z -> Z) n k acc r,
  iter_n n k (fun v a => match g v with None => None | Some p => Some (a + c p) end) acc = Some r ->
  r = acc + sumZ n k (fun v => c (match g v with Some p => p | None => 0 end)) /\
  forall v, k <= v < k + Z.of_nat n -> g v <> None.
Proof.
  intros g c n. induction n as [|n IH]; intros k acc r H; cbn [iter_n sumZ] in *.
  - inversion H; subst. split; [lia|]. intros; lia.
  - destruct (g k) as [p|] eqn:E; [|discriminate].
    destruct (IH _ _ _ H) as [R N]. split; [rewrite R; lia|].
    intros v Hv. destruct (Z.eq_dec v k); [subst; congruence|]. apply N. lia.
Qed.

(* block_sum = the sum of the channel over the areaX x areaY block, and every pixel of the block exists *)
Lemma block_sum_spec : forall src g sh mx x y s,
  block_sum src g sh mx x y = Some s ->
  s = sumZ (Z.to_nat (gax g)) 0 (fun w => sumZ (Z.to_nat (gay g)) 0 (fun v =>
        Z.land (Z.shiftr (px_or0 src (gsx0 g + x * gax g + w) (gsy0 g + y * gay g + v)) sh) mx)) /\
  forall w v, 0 <= w < gax g -> 0 <= v < gay g ->
    fb_get src (gsx0 g + x * gax g + w) (gsy0 g + y * gay g + v) <> None.
Proof.
  intros src g sh mx x y s H. unfold block_sum in H.
  assert (G : forall n k acc r,
    iter_n n k (fun w acc0 => iter_n (Z.to_nat (gay g)) 0 (fun v acc2 =>
        match fb_get src (gsx0 g + x * gax g + w) (gsy0 g + y * gay g + v) with
        | None => None | Some p => Some (acc2 + Z.land (Z.shiftr p sh) mx) end) acc0) acc = Some r ->
    r = acc + sumZ n k (fun w => sumZ (Z.to_nat (gay g)) 0 (fun v =>
          Z.land (Z.shiftr (px_or0 src (gsx0 g + x * gax g + w) (gsy0 g + y * gay g + v)) sh) mx)) /\
    forall w v, k <= w < k + Z.of_nat n -> 0 <= v < gay g ->
      fb_get src (gsx0 g + x * gax g + w) (gsy0 g + y * gay g + v) <> None).
  { induction n as [|n IH]; intros k acc r Hn; cbn [iter_n sumZ] in *.
    - inversion Hn; subst. split; [lia|]. intros; lia.
    - match type of Hn with (match ?A with Some _ => _ | None => None end) = _ => destruct A as [a1|] eqn:E1; [|discriminate] end.
      destruct (iter_sum_spec (fun v => fb_get src (gsx0 g + x * gax g + k) (gsy0 g + y * gay g + v))
                              (fun p => Z.land (Z.shiftr p sh) mx) _ _ _ _ E1) as [R1 N1].
      destruct (IH _ _ _ Hn) as [R2 N2]. split.
      + rewrite R2, R1. unfold px_or0. lia.
      + intros w v Hw Hv. destruct (Z.eq_dec w k).
        * subst. apply N1. lia.
        * apply N2; lia. }
  destruct (G _ _ _ _ H) as [R N]. split; [rewrite R; lia|].
  intros w v Hw Hv. apply N; lia.
Qed.

Definition avg_px (fmt : pixfmt) (src : fb) (g : geom) (x y : Z) : Z :=
  let area2 := gax g * gay g in
  let tot sh mx := sumZ (Z.to_nat (gax g)) 0 (fun w => sumZ (Z.to_nat (gay g)) 0 (fun v =>
        Z.land (Z.shiftr (px_or0 src (gsx0 g + x * gax g + w) (gsy0 g + y * gay g + v)) sh) mx)) in
  pixmod fmt
    (Z.lor (Z.lor (Z.shiftl (Z.land (tot (rshift fmt) (rmax fmt) / area2) (rmax fmt)) (rshift fmt))
                  (Z.shiftl (Z.land (tot (gshift fmt) (gmax fmt) / area2) (gmax fmt)) (gshift fmt)))
           (Z.shiftl (Z.land (tot (bshift fmt) (bmax fmt) / area2) (bmax fmt)) (bshift fmt))).

Lemma filter_px_spec : forall fmt src g x y v,
  filter_px fmt src g x y = Some v ->
  0 < gax g * gay g /\ v = avg_px fmt src g x y /\
  forall w u, 0 <= w < gax g -> 0 <= u < gay g ->
    fb_get src (gsx0 g + x * gax g + w) (gsy0 g + y * gay g + u) <> None.
Proof.
  intros fmt src g x y v H. unfold filter_px in H.
  destruct (Z.leb_spec (gax g * gay g) 0); [discriminate|].
  destruct (block_sum src g (rshift fmt) (rmax fmt) x y) as [r|] eqn:Er; [|discriminate].
  destruct (block_sum src g (gshift fmt) (gmax fmt) x y) as [gr|] eqn:Eg; [|discriminate].
  destruct (block_sum src g (bshift fmt) (bmax fmt) x y) as [b|] eqn:Eb; [|discriminate].
  destruct (block_sum_spec _ _ _ _ _ _ _ Er) as [Rr Nr].
  destruct (block_sum_spec _ _ _ _ _ _ _ Eg) as [Rg _].
  destruct (block_sum_spec _ _ _ _ _ _ _ Eb) as [Rb _].
  inversion H; subst. split; [lia|]. split; [reflexivity|exact Nr].
Qed.

(* a successful paint evaluated its loop body at every offset *)
Lemma paint_ok_inv : forall (val0 : Z -> Z -> option (option Z)) x1 y1 x2 y2 f f',
  paint (fun i j _ => val0 i j) x1 y1 x2 y2 f = Some f' ->
  forall i j, 0 <= i < x2 -> 0 <= j < y2 -> val0 i j <> None.
Proof.
  intros val0 x1 y1 x2 y2 f f' H i j Hi Hj C. rewrite paint_unfold in H.
  assert (Gen : forall n k g g', iter_n n k (prow (fun i0 j0 _ => val0 i0 j0) x1 y1 x2) g = Some g' ->
                k <= j < k + Z.of_nat n -> False).
  { induction n as [|n IH]; intros k g g' Hn Hk; [lia|]. cbn [iter_n] in Hn.
    match type of Hn with (match ?A with Some _ => _ | None => None end) = _ => destruct A as [g1|] eqn:R; [|discriminate] end.
    destruct (Z.eq_dec j k).
    - subst k. unfold prow in R.
      assert (Gen2 : forall m c h h', iter_n m c (pbody (fun i0 j0 _ => val0 i0 j0) x1 y1 j) h = Some h' ->
                        c <= i < c + Z.of_nat m -> False).
      { induction m as [|m IHm]; intros c h h' Hm Hc; [lia|]. cbn [iter_n] in Hm.
        unfold pbody at 1 in Hm.
        destruct (fb_get h (c + x1) (j + y1)); [|discriminate].
        destruct (Z.eq_dec i c).
        - subst c. rewrite C in Hm. discriminate.
        - destruct (val0 c j) as [[v|]|]; [| |discriminate].
          + destruct (fb_set h (c + x1) (j + y1) v) as [h2|]; [|discriminate]. apply (IHm _ _ _ Hm). lia.
          + apply (IHm _ _ _ Hm). lia. }
      apply (Gen2 _ _ _ _ R). lia.
    - apply (IH _ _ _ Hn). lia. }
  apply (Gen _ _ _ _ H). lia.
Qed.

(* C17_filter_average: after rfbScaledScreenUpdateRect every pixel of the destination rectangle is
   the per-channel floor average of its source block (the top-left pixel of the block for colour
   maps), every other pixel of the scaled screen is unchanged, and no source pixel outside the
   source framebuffer was read *)
Theorem update_rect_spec : forall tc fmt g src dst dst',
  0 <= gw1 g -> 0 <= gh1 g ->
  update_rect tc fmt g src dst = Some dst' ->
  same_shape dst dst' /\
  (forall X Y, fb_get dst' X Y =
    match fb_get dst X Y with
    | None => None
    | Some p =>
      Some (if in_box (gx1 g) (gy1 g) (gw1 g) (gh1 g) X Y
            then if tc then avg_px fmt src g (X - gx1 g) (Y - gy1 g)
                 else px_or0 src (X * gax g) (Y * gay g)
            else p)
    end) /\
  (tc = true -> forall i j w u, 0 <= i < gw1 g -> 0 <= j < gh1 g -> 0 <= w < gax g -> 0 <= u < gay g ->
     fb_get src (gsx0 g + i * gax g + w) (gsy0 g + j * gay g + u) <> None).
Proof.
  intros tc fmt g src dst dst' Hw Hh H. unfold update_rect in H.
  destruct ((gx1 g + gw1 g >? fw dst) || (gy1 g + gh1 g >? fh dst)); [discriminate|].
  destruct tc.
  - destruct (paint_get _ _ _ _ _ _ _ Hw Hh H) as [Sh G].
    pose proof (paint_ok_inv (fun i j => match filter_px fmt src g i j with None => None | Some v => Some (Some v) end)
                             _ _ _ _ _ _ H) as Ok.
    split; [exact Sh|]. split.
    + intros X Y. rewrite G. destruct (fb_get dst X Y) as [p|] eqn:Gp; [|reflexivity]. f_equal.
      destruct (in_box (gx1 g) (gy1 g) (gw1 g) (gh1 g) X Y) eqn:B; [|reflexivity].
      unfold in_box in B. rewrite !andb_true_iff, !Z.leb_le, !Z.ltb_lt in B.
      unfold pv. specialize (Ok (X - gx1 g) (Y - gy1 g) ltac:(lia) ltac:(lia)). cbv beta in Ok.
      destruct (filter_px fmt src g (X - gx1 g) (Y - gy1 g)) as [v|] eqn:F; [|exfalso; apply Ok; rewrite ?F; reflexivity].
      destruct (filter_px_spec _ _ _ _ _ _ F) as (_ & V & _). exact V.
    + intros _ i j w u Hi Hj Hw' Hu. specialize (Ok i j Hi Hj). cbv beta in Ok.
      destruct (filter_px fmt src g i j) as [v|] eqn:F; [|exfalso; apply Ok; rewrite ?F; reflexivity].
      destruct (filter_px_spec _ _ _ _ _ _ F) as (_ & _ & N). apply N; auto.
  - destruct (paint_get _ _ _ _ _ _ _ Hw Hh H) as [Sh G].
    pose proof (paint_ok_inv (fun i j => match fb_get src ((gx1 g + i) * gax g) ((gy1 g + j) * gay g) with
                                         | None => None | Some p => Some (Some p) end) _ _ _ _ _ _ H) as Ok.
    split; [exact Sh|]. split; [|intros; discriminate].
    intros X Y. rewrite G. destruct (fb_get dst X Y) as [p|] eqn:Gp; [|reflexivity]. f_equal.
    destruct (in_box (gx1 g) (gy1 g) (gw1 g) (gh1 g) X Y) eqn:B; [|reflexivity].
    unfold in_box in B. rewrite !andb_true_iff, !Z.leb_le, !Z.ltb_lt in B.
    unfold pv, px_or0. specialize (Ok (X - gx1 g) (Y - gy1 g) ltac:(lia) ltac:(lia)). cbv beta in Ok.
    replace (gx1 g + (X - gx1 g)) with X in * by lia. replace (gy1 g + (Y - gy1 g)) with Y in * by lia.
    destruct (fb_get src (X * gax g) (Y * gay g)) eqn:F2; [reflexivity|exfalso; apply Ok; rewrite ?F2; reflexivity].
Qed.

(* ------------------------------------------------------------------ reference counts *)
Definition screens (st : sstate) : list sscreen := mainscr st :: chain st.

(* sum of the reference counts of the screens of that size / users of that size *)
Fixpoint rc_of (w h : Z) (l : list sscreen) : Z :=
  match l with [] => 0 | s :: t => (if same_size w h s then ssref s else 0) + rc_of w h t end.
Fixpoint users_of (w h : Z) (l : list sclient) : Z :=
  match l with
  | [] => 0
  | c :: t => (if calive c && (ckw c =? w) && (ckh c =? h) then 1 else 0) + users_of w h t
  end.
Definition has_size (w h : Z) (st : sstate) : bool := existsb (same_size w h) (screens st).

(* refCount = number of users, for every size; every connected client's screen exists *)
Definition RefInv (st : sstate) : Prop :=
  (forall w h, rc_of w h (screens st) = users_of w h (clients st)) /\
  (forall c, In c (clients st) -> calive c = true -> has_size (ckw c) (ckh c) st = true).

Lemma same_size_eq : forall w h w' h' s, same_size w h s = true -> same_size w' h' s = true -> w = w' /\ h = h'.
Proof.
  intros w h w' h' s A B. unfold same_size in *. apply andb_prop in A. apply andb_prop in B.
  destruct A as [A1 A2]. destruct B as [B1 B2]. apply Z.eqb_eq in A1, A2, B1, B2. lia.
Qed.

Section BumpList.
  Variables w h d : Z.
  Fixpoint bump_list (l : list sscreen) (done : bool) : list sscreen :=
    match l with
    | [] => []
    | s :: t => if negb done && same_size w h s
                then mkss (ssw s) (ssh s) (ssref s + d) (ssfb s) :: bump_list t true
                else s :: bump_list t done
    end.
End BumpList.

Lemma bump_list_done : forall w h d l, bump_list w h d l true = l.
Proof. intros w h d l. induction l as [|s t IH]; cbn; [reflexivity|]. rewrite IH. reflexivity. Qed.

Lemma rc_bump_list : forall w h d l w' h',
  rc_of w' h' (bump_list w h d l false) =
  rc_of w' h' l + (if existsb (same_size w h) l && (w' =? w) && (h' =? h) then d else 0).
Proof.
  intros w h d l w' h'. induction l as [|s t IH]; cbn [bump_list rc_of existsb]; [cbn; lia|].
  destruct (same_size w h s) eqn:E; cbn [negb andb orb].
  - rewrite bump_list_done. cbn [rc_of].
    assert (S1 : same_size w' h' (mkss (ssw s) (ssh s) (ssref s + d) (ssfb s)) = same_size w' h' s) by reflexivity.
    rewrite S1. cbn [ssref].
    unfold same_size in E. apply andb_prop in E. destruct E as [E1 E2]. apply Z.eqb_eq in E1, E2.
    assert (S2 : same_size w' h' s = (w' =? w) && (h' =? h)).
    { unfold same_size. rewrite E1, E2. rewrite (Z.eqb_sym w w'), (Z.eqb_sym h h'). reflexivity. }
    rewrite S2. destruct ((w' =? w) && (h' =? h)); lia.
  - cbn [rc_of]. rewrite IH. lia.
Qed.

Lemma exists_bump_list : forall w h d l done w' h',
  existsb (same_size w' h') (bump_list w h d l done) = existsb (same_size w' h') l.
Proof.
  intros w h d l. induction l as [|s t IH]; intros done w' h'; cbn [bump_list existsb]; [reflexivity|].
  destruct (negb done && same_size w h s); cbn [existsb]; rewrite IH; reflexivity.
Qed.

Lemma bump_screens : forall w h d st,
  screens (bump w h d st) = bump_list w h d (screens st) false /\ clients (bump w h d st) = clients st.
Proof.
  intros w h d st. unfold bump, screens. cbn [bump_list negb andb].
  destruct (same_size w h (mainscr st)); cbn [mainscr chain clients].
  - rewrite bump_list_done. split; reflexivity.
  - split; reflexivity.
Qed.

Lemma rc_bump : forall w h d st w' h',
  rc_of w' h' (screens (bump w h d st)) =
  rc_of w' h' (screens st) + (if has_size w h st && (w' =? w) && (h' =? h) then d else 0).
Proof. intros. destruct (bump_screens w h d st) as [E _]. rewrite E. apply rc_bump_list. Qed.

Lemma has_bump : forall w h d st w' h', has_size w' h' (bump w h d st) = has_size w' h' st.
Proof. intros. unfold has_size. destruct (bump_screens w h d st) as [E _]. rewrite E. apply exists_bump_list. Qed.

Lemma users_set_client : forall l k c0 c w h, nth_error l k = Some c0 ->
  users_of w h (set_client l k c) =
  users_of w h l - (if calive c0 && (ckw c0 =? w) && (ckh c0 =? h) then 1 else 0)
                 + (if calive c && (ckw c =? w) && (ckh c =? h) then 1 else 0).
Proof.
  induction l as [|a t IH]; intros k c0 c w h H; [destruct k; discriminate|].
  destruct k as [|k]; cbn [set_client users_of nth_error] in *.
  - inversion H; subst. lia.
  - rewrite (IH _ _ _ _ _ H). lia.
Qed.

Lemma in_set_client : forall l k c x, In x (set_client l k c) -> x = c \/ In x l.
Proof.
  induction l as [|a t IH]; intros k c x H; [destruct k; contradiction|].
  destruct k as [|k]; cbn [set_client] in H; destruct H as [H|H]; subst; cbn; auto.
  destruct (IH _ _ _ H); auto.
Qed.

Lemma users_app1 : forall l c w h,
  users_of w h (l ++ [c]) = users_of w h l + (if calive c && (ckw c =? w) && (ckh c =? h) then 1 else 0).
Proof. induction l as [|a t IH]; intros; cbn [app users_of]; [lia|]. rewrite IH. lia. Qed.

Lemma has_main : forall st, has_size (ssw (mainscr st)) (ssh (mainscr st)) st = true.
Proof. intros st. unfold has_size, screens. cbn [existsb]. unfold same_size. rewrite !Z.eqb_refl. reflexivity. Qed.

(* rfbNewClient *)
Theorem refinv_client_new : forall st, RefInv st -> RefInv (client_new st).
Proof.
  intros st [R Hs].
  set (W := ssw (mainscr st)). set (H := ssh (mainscr st)).
  assert (Es : screens (client_new st) = screens (bump W H 1 st)) by reflexivity.
  assert (Ec : clients (client_new st) = clients st ++ [mkscl W H false true]).
  { unfold client_new. cbn [clients]. destruct (bump_screens W H 1 st) as [_ E]. fold W H. rewrite E. reflexivity. }
  split.
  - intros w h. rewrite Es, Ec, rc_bump, users_app1, R. cbn [calive ckw ckh andb]. subst W H. rewrite has_main. cbn [andb].
    rewrite (Z.eqb_sym w), (Z.eqb_sym h). reflexivity.
  - intros c Hin Al. rewrite Ec in Hin. apply in_app_or in Hin.
    unfold has_size. rewrite Es. fold (has_size (ckw c) (ckh c) (bump W H 1 st)). rewrite has_bump.
    destruct Hin as [Hin|[Hin|[]]]; [auto|]. subst c. apply has_main.
Qed.

(* rfbClientConnectionGone *)
Theorem refinv_client_gone : forall st k, RefInv st -> RefInv (client_gone st k).
Proof.
  intros st k [R Hs]. unfold client_gone.
  destruct (nth_error (clients st) k) as [cl|] eqn:E; [|split; auto].
  destruct (calive cl) eqn:Al; [|split; auto].
  assert (Hcl : has_size (ckw cl) (ckh cl) st = true) by (apply Hs; [eapply nth_error_In; eauto|auto]).
  destruct (bump_screens (ckw cl) (ckh cl) (-1) st) as [_ Ec0].
  set (st1 := bump (ckw cl) (ckh cl) (-1) st) in *.
  set (st2 := mkst (mainscr st1) (chain st1) (set_client (clients st1) k (mkscl (ckw cl) (ckh cl) (cpalm cl) false))).
  assert (Es : screens st2 = screens st1) by reflexivity.
  assert (Ec : clients st2 = set_client (clients st) k (mkscl (ckw cl) (ckh cl) (cpalm cl) false)).
  { subst st2. cbn [clients]. rewrite Ec0. reflexivity. }
  split.
  - intros w h. rewrite Es, Ec. subst st1. rewrite rc_bump, (users_set_client _ _ _ _ _ _ E), R, Hcl, Al.
    cbn [calive ckw ckh andb]. rewrite (Z.eqb_sym w), (Z.eqb_sym h). destruct ((ckw cl =? w) && (ckh cl =? h)); lia.
  - intros c Hin Alc. rewrite Ec in Hin. apply in_set_client in Hin.
    unfold has_size. rewrite Es. fold (has_size (ckw c) (ckh c) st1). subst st1. rewrite has_bump.
    destruct Hin as [Hin|Hin]; [subst c; cbn in Alc; discriminate|auto].
Qed.

(* rfbScalingSetup *)
Definition meta (s : sscreen) : Z * Z * Z := (ssw s, ssh s, ssref s).

Lemma rc_of_meta : forall w h l l', map meta l = map meta l' -> rc_of w h l = rc_of w h l'.
Proof.
  intros w h l. induction l as [|a t IH]; intros [|b t'] E; cbn in E; try discriminate; [reflexivity|].
  inversion E as [[A B C D]]. cbn [rc_of]. rewrite (IH _ D). unfold same_size. rewrite A, B, C. reflexivity.
Qed.

Lemma exists_meta : forall w h l l', map meta l = map meta l' ->
  existsb (same_size w h) l = existsb (same_size w h) l'.
Proof.
  intros w h l. induction l as [|a t IH]; intros [|b t'] E; cbn in E; try discriminate; [reflexivity|].
  inversion E as [[A B C D]]. cbn [existsb]. rewrite (IH _ D). unfold same_size. rewrite A, B. reflexivity.
Qed.

Lemma refresh_meta : forall tc fmt g w h st st', refresh tc fmt g w h st = Some st' ->
  map meta (screens st') = map meta (screens st) /\ clients st' = clients st.
Proof.
  intros tc fmt g w h st st' H. unfold refresh in H.
  destruct (same_size w h (mainscr st)); [inversion H; subst; auto|].
  assert (G : forall l pre,
    (fix go (pre l : list sscreen) : option sstate :=
       match l with
       | [] => Some st
       | s :: t => if same_size w h s
                   then match update_rect tc fmt g (ssfb (mainscr st)) (ssfb s) with
                        | None => None
                        | Some f => Some (mkst (mainscr st) (rev_append pre (mkss (ssw s) (ssh s) (ssref s) f :: t)) (clients st))
                        end
                   else go (s :: pre) t
       end) pre l = Some st' ->
    chain st = rev_append pre l ->
    map meta (screens st') = map meta (screens st) /\ clients st' = clients st).
  { induction l as [|s t IH]; intros pre Hg Hc.
    - inversion Hg; subst. auto.
    - destruct (same_size w h s).
      + destruct (update_rect tc fmt g (ssfb (mainscr st)) (ssfb s)) as [f|]; [|discriminate].
        inversion Hg; subst. unfold screens; cbn [mainscr chain clients]. split; [|reflexivity].
        rewrite Hc. cbn [map]. f_equal. rewrite !rev_append_rev. rewrite !map_app. cbn [map]. reflexivity.
      + apply (IH (s :: pre) Hg). exact Hc. }
  apply (G (chain st) [] H). reflexivity.
Qed.

Theorem refinv_scaling_setup : forall zf tc fmt g st k cl w h st',
  RefInv st -> nth_error (clients st) k = Some cl -> calive cl = true ->
  scaling_setup zf tc fmt g st k w h = Some st' ->
  RefInv st' /\
  exists cl', nth_error (clients st') k = Some cl' /\ calive cl' = true /\
    ((ckw cl' = w /\ ckh cl' = h) \/                        (* accepted *)
     (cl' = cl /\ find_scaled w h st = None /\ (h = 0 \/ (zf = true /\ w = 0)))).   (* refused *)
Proof.
  intros zf tc fmt g st k cl w h st' [R Hs] Ek Al H. unfold scaling_setup in H. rewrite Ek in H.
  destruct (find_scaled w h st) as [fs|] eqn:Ef.
  - (* a screen of that size exists *)
    cbn beta iota in H.
    assert (Hw : has_size w h st = true).
    { unfold find_scaled in Ef. unfold has_size, screens. cbn [existsb].
      destruct (same_size w h (mainscr st)); [reflexivity|]. cbn [orb].
      apply existsb_exists. apply find_some in Ef. destruct Ef as [I S]. eauto. }
    match type of H with (match ?A with Some _ => _ | None => None end) = _ => destruct A as [st3|] eqn:E3; [|discriminate] end.
    assert (M3 : map meta (screens st3) = map meta (screens st) /\ clients st3 = clients st).
    { destruct (_ <? 1) in E3; [eapply refresh_meta; eauto|inversion E3; subst; auto]. }
    destruct M3 as [M3 C3]. inversion H; subst st'; clear H.
    set (st4 := bump w h 1 (bump (ckw cl) (ckh cl) (-1) st3)).
    assert (Hold : has_size (ckw cl) (ckh cl) st3 = true).
    { unfold has_size. rewrite (exists_meta _ _ _ _ M3). apply Hs; [eapply nth_error_In; eauto|auto]. }
    assert (Hnew : has_size w h (bump (ckw cl) (ckh cl) (-1) st3) = true).
    { rewrite has_bump. unfold has_size. rewrite (exists_meta _ _ _ _ M3). exact Hw. }
    assert (C4 : clients st4 = clients st).
    { subst st4. destruct (bump_screens w h 1 (bump (ckw cl) (ckh cl) (-1) st3)) as [_ E]. rewrite E.
      destruct (bump_screens (ckw cl) (ckh cl) (-1) st3) as [_ E']. rewrite E'. exact C3. }
    split; [split|].
    + intros w' h'. unfold screens; cbn [mainscr chain clients]. fold (screens st4).
      rewrite C4. subst st4. rewrite rc_bump, rc_bump, Hold, Hnew.
      rewrite (users_set_client _ _ _ _ _ _ Ek), Al. cbn [calive ckw ckh andb].
      rewrite (rc_of_meta _ _ _ _ M3), R.
      rewrite (Z.eqb_sym w' (ckw cl)), (Z.eqb_sym h' (ckh cl)), (Z.eqb_sym w' w), (Z.eqb_sym h' h).
      destruct ((ckw cl =? w') && (ckh cl =? h')); destruct ((w =? w') && (h =? h')); lia.
    + intros c Hin Alc. cbn [clients] in Hin. rewrite C4 in Hin. apply in_set_client in Hin.
      unfold has_size, screens; cbn [mainscr chain]. fold (screens st4). fold (has_size (ckw c) (ckh c) st4).
      subst st4. rewrite !has_bump. unfold has_size. rewrite (exists_meta _ _ _ _ M3).
      destruct Hin as [Hin|Hin]; [subst c; exact Hw | apply Hs; auto].
    + exists (mkscl w h (cpalm cl) (calive cl)). cbn [clients]. rewrite C4. split.
      * clear - Ek. revert k Ek. induction (clients st) as [|a t IH]; intros [|k] Ek; cbn in *; try discriminate; auto.
      * cbn. auto.
  - (* no such screen: allocate *)
    cbn beta iota in H.
    destruct ((h =? 0) || (zf && (w =? 0))) eqn:Refuse.
    + inversion H; subst st'. split; [split; auto|]. exists cl. split; [exact Ek|]. split; [exact Al|]. right.
      split; [reflexivity|]. split; [reflexivity|].
      apply orb_prop in Refuse. destruct Refuse as [E|E]; [left; apply Z.eqb_eq; exact E|].
      apply andb_prop in E. destruct E as [E1 E2]. right. split; [exact E1|apply Z.eqb_eq; exact E2].
    + set (fresh := mkst (mainscr st) (mkss w h 0 (blank_fb w h) :: chain st) (clients st)) in *.
      destruct (refresh tc fmt g w h fresh) as [st2|] eqn:E2; [|discriminate]. cbn beta iota in H.
      destruct (refresh_meta _ _ _ _ _ _ _ E2) as [M2 C2].
      match type of H with (match ?A with Some _ => _ | None => None end) = _ => destruct A as [st3|] eqn:E3; [|discriminate] end.
      assert (M3 : map meta (screens st3) = map meta (screens fresh) /\ clients st3 = clients st).
      { destruct (_ <? 1) in E3.
        - destruct (refresh_meta _ _ _ _ _ _ _ E3) as [A B]. split; [rewrite A; exact M2 | rewrite B; exact C2].
        - inversion E3; subst. split; [exact M2|exact C2]. }
      destruct M3 as [M3 C3]. inversion H; subst st'; clear H.
      set (st4 := bump w h 1 (bump (ckw cl) (ckh cl) (-1) st3)).
      assert (Hfresh : forall w' h', existsb (same_size w' h') (screens fresh) =
                                     existsb (same_size w' h') (screens st) || same_size w' h' (mkss w h 0 (blank_fb w h))).
      { intros. unfold screens, fresh; cbn [mainscr chain existsb].
        destruct (same_size w' h' (mainscr st)); destruct (same_size w' h' (mkss w h 0 (blank_fb w h)));
          destruct (existsb (same_size w' h') (chain st)); reflexivity. }
      assert (Hold : has_size (ckw cl) (ckh cl) st3 = true).
      { unfold has_size. rewrite (exists_meta _ _ _ _ M3), Hfresh.
        assert (has_size (ckw cl) (ckh cl) st = true) by (apply Hs; [eapply nth_error_In; eauto|auto]).
        unfold has_size in H. rewrite H. reflexivity. }
      assert (Hnew : has_size w h (bump (ckw cl) (ckh cl) (-1) st3) = true).
      { rewrite has_bump. unfold has_size. rewrite (exists_meta _ _ _ _ M3), Hfresh.
        unfold same_size at 2; cbn [ssw ssh]. rewrite !Z.eqb_refl. apply orb_true_r. }
      assert (C4 : clients st4 = clients st).
      { subst st4. destruct (bump_screens w h 1 (bump (ckw cl) (ckh cl) (-1) st3)) as [_ E]. rewrite E.
        destruct (bump_screens (ckw cl) (ckh cl) (-1) st3) as [_ E']. rewrite E'. exact C3. }
      assert (Rfresh : forall w' h', rc_of w' h' (screens fresh) = rc_of w' h' (screens st)).
      { intros. unfold screens, fresh; cbn [mainscr chain rc_of ssref]. destruct (same_size w' h' _); destruct (same_size w' h' _); lia. }
      split; [split|].
      * intros w' h'. unfold screens; cbn [mainscr chain clients]. fold (screens st4).
        rewrite C4. subst st4. rewrite rc_bump, rc_bump, Hold, Hnew.
        rewrite (users_set_client _ _ _ _ _ _ Ek), Al. cbn [calive ckw ckh andb].
        rewrite (rc_of_meta _ _ _ _ M3), Rfresh, R.
        rewrite (Z.eqb_sym w' (ckw cl)), (Z.eqb_sym h' (ckh cl)), (Z.eqb_sym w' w), (Z.eqb_sym h' h).
        destruct ((ckw cl =? w') && (ckh cl =? h')); destruct ((w =? w') && (h =? h')); lia.
      * intros c Hin Alc. cbn [clients] in Hin. rewrite C4 in Hin. apply in_set_client in Hin.
        unfold has_size, screens; cbn [mainscr chain]. fold (screens st4). fold (has_size (ckw c) (ckh c) st4).
        subst st4. rewrite !has_bump. unfold has_size. rewrite (exists_meta _ _ _ _ M3), Hfresh.
        destruct Hin as [Hin|Hin].
        -- subst c. cbn [ckw ckh]. unfold same_size at 2; cbn [ssw ssh]. rewrite !Z.eqb_refl. apply orb_true_r.
        -- assert (has_size (ckw c) (ckh c) st = true) by (apply Hs; auto). unfold has_size in H. rewrite H. reflexivity.
      * exists (mkscl w h (cpalm cl) (calive cl)). cbn [clients]. rewrite C4. split.
        -- clear - Ek. revert k Ek. induction (clients st) as [|a t IH]; intros [|k] Ek; cbn in *; try discriminate; auto.
        -- cbn. auto.
Qed.

(* ------------------------------------------------------------------ what the client is told *)
Definition get16 (l : list Z) (k : nat) : Z := nth k l 0 * 256 + nth (S k) l 0.

Lemma be16_get : forall v, 0 <= v < 65536 -> get16 (be16 v) 0 = v.
Proof.
  intros v H. unfold get16, be16, byte. cbn [nth].
  rewrite (Z.mod_small (v / 256) 256) by (split; [apply Z.div_pos; lia | apply Z.div_lt_upper_bound; lia]).
  pose proof (Z.div_mod v 256 ltac:(lia)). lia.
Qed.

(* C17_size_told: factor n > 0: the size is (W/n, H/n); the UltraVNC answer is ResizeFrameBuffer(w, h),
   the PalmVNC answer ReSizeFrameBuffer(desktop W x H, buffer w x h) *)
Theorem size_told : forall palm W H n w h,
  0 < n -> 0 <= W < 65536 -> 0 <= H < 65536 ->
  scaled_size W H n = Some (w, h) ->
  w = W / n /\ h = H / n /\
  let m := resize_msg palm W H w h in
  if palm
  then length m = Z.to_nat sz_palm_resize_fb /\ nth 0 m 0 = msg_palm_resize_fb /\
       get16 m 2 = W /\ get16 m 4 = H /\ get16 m 6 = w /\ get16 m 8 = h
  else length m = Z.to_nat sz_resize_fb /\ nth 0 m 0 = msg_resize_fb /\ get16 m 2 = w /\ get16 m 4 = h.
Proof.
  intros palm W H n w h Hn HW HH S. unfold scaled_size in S.
  destruct (Z.eqb_spec n 0); [lia|]. inversion S; subst; clear S.
  rewrite !Z.quot_div_nonneg by lia.
  assert (Bw : 0 <= W / n < 65536).
  { split; [apply Z.div_pos; lia|]. apply Z.div_lt_upper_bound; nia. }
  assert (Bh : 0 <= H / n < 65536).
  { split; [apply Z.div_pos; lia|]. apply Z.div_lt_upper_bound; nia. }
  split; [reflexivity|]. split; [reflexivity|].
  pose proof (be16_get W HW) as GW. pose proof (be16_get H HH) as GH.
  pose proof (be16_get _ Bw) as Gw. pose proof (be16_get _ Bh) as Gh.
  destruct palm; cbv zeta; unfold resize_msg; cbn [app length nth get16 be16] in *; repeat split; auto.
Qed.

(* factor 1: the client is back on the unscaled screen *)
Lemma factor_one : forall W H, scaled_size W H 1 = Some (W, H).
Proof. intros. unfold scaled_size. cbn. rewrite !Z.quot_1_r. reflexivity. Qed.

(* ------------------------------------------------------------------ F2: zero dimension *)
(* the code as it is: a factor larger than the width (height/factor >= 1) is accepted, the scaled
   screen is 0 pixels wide, and the rectangle count of the Zlib/Ultra encoders divides by zero *)
Lemma zero_dim_refuted :
  exists W H n w h st st',
    1 <= n <= 255 /\ scaled_size W H n = Some (w, h) /\ w = 0 /\ 1 <= h /\
    scaling_setup false true (mkfmt 4 255 255 255 0 8 16) (mkgeom 0 0 0 0 0 0 0 0) (client_new st) 0 w h = Some st' /\
    (exists cl, nth_error (clients st') 0 = Some cl /\ ckw cl = 0 /\ ckh cl = h) /\
    split_rect_count zlib_max_rect_size w h = None /\ split_rect_count ultra_max_rect_size w h = None.
Proof.
  exists 3, 8, 4, 0, 2, (mkst (mkss 3 8 0 (blank_fb 3 8)) [] []). eexists.
  split; [lia|]. split; [reflexivity|]. split; [reflexivity|]. split; [lia|].
  split; [vm_compute; reflexivity|]. split; [eexists; split; [reflexivity|split; reflexivity]|].
  split; reflexivity.
Qed.

(* with repair fix_C17_1: a size with a zero dimension that is not already in the chain is refused,
   nothing changes *)
Lemma zero_dim_fixed : forall tc fmt g st k cl w h,
  nth_error (clients st) k = Some cl -> find_scaled w h st = None -> w = 0 \/ h = 0 ->
  scaling_setup true tc fmt g st k w h = Some st.
Proof.
  intros tc fmt g st k cl w h Ek Ef Z0. unfold scaling_setup. rewrite Ek, Ef.
  replace ((h =? 0) || (true && (w =? 0))) with true; [reflexivity|].
  symmetry. destruct Z0; subst; cbn; [apply orb_true_r|reflexivity].
Qed.

(* and then no screen of the chain ever has a zero dimension, so the rectangle count is defined *)
Lemma split_rect_count_defined : forall mx w h, 0 < mx -> 1 <= w -> exists n, split_rect_count mx w h = Some n.
Proof.
  intros mx w h Hm Hw. unfold split_rect_count.
  destruct (Z.eqb_spec w 0); [lia|].
  set (m := if w * 2 >? mx then w * 2 else mx).
  assert (w <= m).
  { subst m. rewrite Z.gtb_ltb. destruct (Z.ltb_spec mx (w * 2)); lia. }
  assert (1 <= Z.quot m w).
  { rewrite Z.quot_div_nonneg by lia. apply Z.div_le_lower_bound; lia. }
  destruct (Z.eqb_spec (Z.quot m w) 0); [lia|]. eauto.
Qed.

Example refinv_nonvacuous :
  RefInv (client_new (mkst (mkss 3 8 0 (blank_fb 3 8)) [] [])).
Proof.
  apply refinv_client_new. split.
  - intros w h. cbn. destruct (same_size w h _); reflexivity.
  - intros c [].
Qed.

Example update_rect_nonvacuous :
  exists dst', update_rect true (mkfmt 1 7 7 3 0 3 6) (mkgeom 0 0 1 1 0 0 2 2)
                 (mkfb 2 2 [[1; 3]; [5; 7]]) (blank_fb 1 1) = Some dst' /\ fb_get dst' 0 0 = Some 4.
Proof. eexists. split; vm_compute; reflexivity. Qed.
