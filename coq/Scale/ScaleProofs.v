(* Proofs about the scaling model: exact geometry (ScaleQ), box filter and chain of scaled screens
   (ScaleDefs), refuted statements. *)
From LV Require Import Scale.ScaleQ Scale.ScaleDefs Cursor.CursorProofs Gen.Consts_C17.
From Coq Require Import Lia.
Local Open Scope Z_scope.

(* ------------------------------------------------------------------ rfbScaledCorrection, exact *)
Lemma corr1Q_inside : forall from to x w,
  1 <= from -> 1 <= to -> 0 <= x < from -> 0 <= w ->
  let '(x2, w2) := corr1Q from to x w in
  0 <= x2 /\ 1 <= w2 /\ x2 + w2 <= to.
Proof.
  intros from to x w Hf Ht Hx Hw. unfold corr1Q.
  set (x2 := x * to / from).
  assert (X0 : 0 <= x2) by (apply Z.div_pos; nia).
  assert (X1 : x2 < to).
  { apply Z.div_lt_upper_bound; [lia|]. nia. }
  set (w2 := (w * to + (x * to) mod from + from - 1) / from).
  assert (W0 : 0 <= w2).
  { apply Z.div_pos; [|lia]. pose proof (Z.mod_pos_bound (x * to) from ltac:(lia)). nia. }
  destruct (Z.eqb_spec w2 0); rewrite Z.gtb_ltb.
  - destruct (Z.ltb_spec to (x2 + 1)); lia.
  - destruct (Z.ltb_spec to (x2 + w2)); lia.
Qed.

(* the corrected rectangle covers the exact image [x*to/from, (x+w)*to/from) of the source rectangle *)
Lemma corr1Q_covers : forall from to x w,
  1 <= from -> 1 <= to -> 0 <= x -> 0 <= w -> x + w <= from ->
  let '(x2, w2) := corr1Q from to x w in
  x2 * from <= x * to /\ (x + w) * to <= (x2 + w2) * from.
Proof.
  intros from to x w Hf Ht Hx Hw Hs. unfold corr1Q.
  pose proof (Z.div_mod (x * to) from ltac:(lia)) as D.
  pose proof (Z.mod_pos_bound (x * to) from ltac:(lia)) as M.
  set (x2 := x * to / from) in *. set (r := (x * to) mod from) in *.
  set (num := w * to + r).
  pose proof (Z.div_mod (num + from - 1) from ltac:(lia)) as D2.
  pose proof (Z.mod_pos_bound (num + from - 1) from ltac:(lia)) as M2.
  set (w2 := (num + from - 1) / from) in *.
  assert (C : num <= w2 * from) by nia.
  assert (W0 : 0 <= w2) by (apply Z.div_pos; subst num; nia).
  split; [nia|].
  destruct (Z.eqb_spec w2 0); rewrite Z.gtb_ltb.
  - destruct (Z.ltb_spec to (x2 + 1)); subst num; nia.
  - destruct (Z.ltb_spec to (x2 + w2)); subst num; nia.
Qed.

(* ------------------------------------------------------------------ every source pixel read is inside *)
(* scale-down geometry over exact rationals: destination rectangle (x1,w1) inside the w'-wide scaled
   screen, source origin sx0 = ScaleX(x1), block width ax = ScaleX(1) *)
Lemma block_inside_Q : forall W w' x1 w1 i u,
  1 <= w' -> 0 <= W -> 0 <= x1 -> x1 + w1 <= w' -> 0 <= i < w1 ->
  let sx0 := scaleQ w' W x1 in
  let ax := scaleQ w' W 1 in
  0 <= u < ax -> 0 <= sx0 + i * ax + u < W.
Proof.
  intros W w' x1 w1 i u Hw HW Hx Hs Hi sx0 ax Hu. subst sx0 ax. unfold scaleQ in *.
  pose proof (Z.div_mod (x1 * W) w' ltac:(lia)) as D1.
  pose proof (Z.mod_pos_bound (x1 * W) w' ltac:(lia)) as M1.
  pose proof (Z.div_mod (1 * W) w' ltac:(lia)) as D2.
  pose proof (Z.mod_pos_bound (1 * W) w' ltac:(lia)) as M2.
  set (a := x1 * W / w') in *. set (b := 1 * W / w') in *.
  assert (A0 : 0 <= a) by (apply Z.div_pos; nia).
  assert (B0 : 0 <= b) by (apply Z.div_pos; nia).
  split; [nia|].
  assert (K : (a + (i + 1) * b) * w' <= w' * W) by nia.
  assert (a + (i + 1) * b <= W) by nia. nia.
Qed.

(* pointer: client pixel x of a w'-wide scaled view (w' = W / n) maps into the source block
   [x*ax, x*ax + ax) that the filter averages for it *)
Lemma pointer_in_block_Q : forall W n x,
  1 <= n -> n <= W -> let w' := W / n in 0 <= x < w' ->
  let ax := scaleQ w' W 1 in
  x * ax <= scaleQ w' W x < x * ax + ax.
Proof.
  intros W n x Hn HW w' Hx ax. subst ax. unfold scaleQ.
  assert (W1 : 1 <= w').
  { subst w'. apply Z.div_le_lower_bound; lia. }
  pose proof (Z.div_mod W n ltac:(lia)) as Dn. pose proof (Z.mod_pos_bound W n ltac:(lia)) as Mn.
  fold w' in Dn.
  replace (1 * W) with W by lia.
  pose proof (Z.div_mod W w' ltac:(lia)) as D. pose proof (Z.mod_pos_bound W w' ltac:(lia)) as M.
  set (ax := W / w') in *. set (rho := W mod w') in *.
  (* rho < ax *)
  assert (AX : n <= ax).
  { subst ax. apply Z.div_le_lower_bound; [lia|]. nia. }
  assert (RHO : rho < ax).
  { destruct (Z_lt_le_dec (W mod n) w') as [Lt|Ge].
    - (* W = n*w' + r with r < w' : ax = n, rho = r < n *)
      assert (ax = n /\ rho = W mod n).
      { apply (Z.div_mod_unique w' ax n rho (W mod n)); try lia. }
      lia.
    - assert (rho < w') by lia. assert (w' <= W mod n) by lia. lia. }
  replace (x * W) with (x * ax * w' + x * rho) by nia.
  rewrite Z.div_add_l by lia.
  assert (0 <= x * rho / w') by (apply Z.div_pos; nia).
  assert (x * rho / w' < ax).
  { apply Z.div_lt_upper_bound; [lia|]. nia. }
  lia.
Qed.

(* ------------------------------------------------------------------ the box filter *)
Fixpoint sumZ (n : nat) (k : Z) (f : Z -> Z) : Z :=
  match n with O => 0 | S m => f k + sumZ m (k + 1) f end.

Definition px_or0 (src : fb) (x y : Z) : Z := match fb_get src x y with Some p => p | None => 0 end.

Lemma iter_sum_spec : forall (g : Z -> option Z) (c : Z -> Z) n k acc r,
  iter_n n k (fun v a => match g v with None => None | Some p => Some (a + c p) end) acc = Some r ->
  r = acc + sumZ n k (fun v => c (match g v with Some p => p | None => 0 end)) /\
  forall v, k <= v < k + Z.of_nat n -> g v <> None.
Proof.
  intros g c n. induction n as [|n IH]; intros k acc r H; cbn [iter_n sumZ] in *.
  - inversion H; subst. split; [lia|]. intros; lia.
  - destruct (g k) as [p|] eqn:E; [|discriminate].
    destruct (IH _ _ _ H) as [R N]. split; [rewrite R; lia|].
    intros v Hv. destruct (Z.eq_dec v k); [subst; congruence|]. apply N. lia.
Qed.

(* total of one channel over the areaX x areaY block whose top-left pixel is (sx, sy) *)
Definition block_total (src : fb) (ax ay sh mx sx sy : Z) : Z :=
  sumZ (Z.to_nat ax) 0 (fun w => sumZ (Z.to_nat ay) 0 (fun v =>
    Z.land (Z.shiftr (px_or0 src (sx + w) (sy + v)) sh) mx)).

(* block_sum = the sum of the channel over the block, and every pixel of the block exists *)
Lemma block_sum_spec : forall src g sh mx x y s,
  block_sum src g sh mx x y = Some s ->
  exists sx sy, zidx (gsxs g) x = Some sx /\ zidx (gsys g) y = Some sy /\
    s = block_total src (gax g) (gay g) sh mx sx sy /\
    forall w v, 0 <= w < gax g -> 0 <= v < gay g -> fb_get src (sx + w) (sy + v) <> None.
Proof.
  intros src g sh mx x y s H. unfold block_sum in H.
  destruct (zidx (gsxs g) x) as [sx|]; [|discriminate].
  destruct (zidx (gsys g) y) as [sy|]; [|discriminate].
  exists sx, sy. split; [reflexivity|]. split; [reflexivity|].
  assert (G : forall n k acc r,
    iter_n n k (fun w acc0 => iter_n (Z.to_nat (gay g)) 0 (fun v acc2 =>
        match fb_get src (sx + w) (sy + v) with
        | None => None | Some p => Some (acc2 + Z.land (Z.shiftr p sh) mx) end) acc0) acc = Some r ->
    r = acc + sumZ n k (fun w => sumZ (Z.to_nat (gay g)) 0 (fun v =>
          Z.land (Z.shiftr (px_or0 src (sx + w) (sy + v)) sh) mx)) /\
    forall w v, k <= w < k + Z.of_nat n -> 0 <= v < gay g -> fb_get src (sx + w) (sy + v) <> None).
  { induction n as [|n IH]; intros k acc r Hn; cbn [iter_n sumZ] in *.
    - inversion Hn; subst. split; [lia|]. intros; lia.
    - match type of Hn with (match ?A with Some _ => _ | None => None end) = _ => destruct A as [a1|] eqn:E1; [|discriminate] end.
      destruct (iter_sum_spec (fun v => fb_get src (sx + k) (sy + v))
                              (fun p => Z.land (Z.shiftr p sh) mx) _ _ _ _ E1) as [R1 N1].
      destruct (IH _ _ _ Hn) as [R2 N2]. split.
      + rewrite R2, R1. unfold px_or0. lia.
      + intros w v Hw Hv. destruct (Z.eq_dec w k).
        * subst. apply N1. lia.
        * apply N2; lia. }
  destruct (G _ _ _ _ H) as [R N]. split; [unfold block_total; rewrite R; lia|].
  intros w v Hw Hv. apply N; lia.
Qed.

(* the packed per-channel floor average of the block at (sx, sy) *)
Definition avg_at (fmt : pixfmt) (src : fb) (ax ay sx sy : Z) : Z :=
  let area2 := ax * ay in
  pixmod fmt
    (Z.lor (Z.lor (Z.shiftl (Z.land (block_total src ax ay (rshift fmt) (rmax fmt) sx sy / area2) (rmax fmt)) (rshift fmt))
                  (Z.shiftl (Z.land (block_total src ax ay (gshift fmt) (gmax fmt) sx sy / area2) (gmax fmt)) (gshift fmt)))
           (Z.shiftl (Z.land (block_total src ax ay (bshift fmt) (bmax fmt) sx sy / area2) (bmax fmt)) (bshift fmt))).

Definition idx_or0 (l : list Z) (k : Z) : Z := match zidx l k with Some v => v | None => 0 end.

Definition avg_px (fmt : pixfmt) (src : fb) (g : geom) (x y : Z) : Z :=
  avg_at fmt src (gax g) (gay g) (idx_or0 (gsxs g) x) (idx_or0 (gsys g) y).

Lemma filter_px_spec : forall fmt src g x y v,
  filter_px fmt src g x y = Some v ->
  0 < gax g * gay g /\ v = avg_px fmt src g x y /\
  exists sx sy, zidx (gsxs g) x = Some sx /\ zidx (gsys g) y = Some sy /\
    forall w u, 0 <= w < gax g -> 0 <= u < gay g -> fb_get src (sx + w) (sy + u) <> None.
Proof.
  intros fmt src g x y v H. unfold filter_px in H.
  destruct (Z.leb_spec (gax g * gay g) 0); [discriminate|].
  destruct (block_sum src g (rshift fmt) (rmax fmt) x y) as [r|] eqn:Er; [|discriminate].
  destruct (block_sum src g (gshift fmt) (gmax fmt) x y) as [gr|] eqn:Eg; [|discriminate].
  destruct (block_sum src g (bshift fmt) (bmax fmt) x y) as [b|] eqn:Eb; [|discriminate].
  destruct (block_sum_spec _ _ _ _ _ _ _ Er) as (sx & sy & X1 & Y1 & Rr & Nr).
  destruct (block_sum_spec _ _ _ _ _ _ _ Eg) as (sx2 & sy2 & X2 & Y2 & Rg & _).
  destruct (block_sum_spec _ _ _ _ _ _ _ Eb) as (sx3 & sy3 & X3 & Y3 & Rb & _).
  rewrite X1 in X2, X3. rewrite Y1 in Y2, Y3. inversion X2; inversion X3; inversion Y2; inversion Y3; subst.
  inversion H; subst. split; [lia|]. split.
  - unfold avg_px, avg_at, idx_or0. rewrite X1, Y1. reflexivity.
  - exists sx3, sy3. auto.
Qed.

(* a successful paint evaluated its loop body at every offset *)
Lemma paint_ok_inv : forall (val0 : Z -> Z -> option (option Z)) x1 y1 x2 y2 f f',
  paint (fun i j _ => val0 i j) x1 y1 x2 y2 f = Some f' ->
  forall i j, 0 <= i < x2 -> 0 <= j < y2 -> val0 i j <> None.
Proof.
  intros val0 x1 y1 x2 y2 f f' H i j Hi Hj C. rewrite paint_unfold in H.
  assert (Gen : forall n k g g', iter_n n k (prow (fun i0 j0 _ => val0 i0 j0) x1 y1 x2) g = Some g' ->
                k <= j < k + Z.of_nat n -> False).
  { induction n as [|n IH]; intros k g g' Hn Hk; [lia|]. cbn [iter_n] in Hn.
    match type of Hn with (match ?A with Some _ => _ | None => None end) = _ => destruct A as [g1|] eqn:R; [|discriminate] end.
    destruct (Z.eq_dec j k).
    - subst k. unfold prow in R.
      assert (Gen2 : forall m c h h', iter_n m c (pbody (fun i0 j0 _ => val0 i0 j0) x1 y1 j) h = Some h' ->
                        c <= i < c + Z.of_nat m -> False).
      { induction m as [|m IHm]; intros c h h' Hm Hc; [lia|]. cbn [iter_n] in Hm.
        unfold pbody at 1 in Hm.
        destruct (fb_get h (c + x1) (j + y1)); [|discriminate].
        destruct (Z.eq_dec i c).
        - subst c. rewrite C in Hm. discriminate.
        - destruct (val0 c j) as [[v|]|]; [| |discriminate].
          + destruct (fb_set h (c + x1) (j + y1) v) as [h2|]; [|discriminate]. apply (IHm _ _ _ Hm). lia.
          + apply (IHm _ _ _ Hm). lia. }
      apply (Gen2 _ _ _ _ R). lia.
    - apply (IH _ _ _ Hn). lia. }
  apply (Gen _ _ _ _ H). lia.
Qed.

(* C17_filter_average: after rfbScaledScreenUpdateRect every pixel of the destination rectangle is
   the per-channel floor average of its source block (the top-left pixel of the block for colour
   maps), every other pixel of the scaled screen is unchanged, and no source pixel outside the
   source framebuffer was read *)
Theorem update_rect_spec : forall tc fmt g src dst dst',
  0 <= gw1 g -> 0 <= gh1 g ->
  update_rect tc fmt g src dst = Some dst' ->
  same_shape dst dst' /\
  (forall X Y, fb_get dst' X Y =
    match fb_get dst X Y with
    | None => None
    | Some p =>
      Some (if in_box (gx1 g) (gy1 g) (gw1 g) (gh1 g) X Y
            then if tc then avg_px fmt src g (X - gx1 g) (Y - gy1 g)
                 else px_or0 src (idx_or0 (gcxs g) (X - gx1 g)) (idx_or0 (gcys g) (Y - gy1 g))
            else p)
    end) /\
  (tc = true -> forall i j, 0 <= i < gw1 g -> 0 <= j < gh1 g ->
     exists sx sy, zidx (gsxs g) i = Some sx /\ zidx (gsys g) j = Some sy /\
       forall w u, 0 <= w < gax g -> 0 <= u < gay g -> fb_get src (sx + w) (sy + u) <> None).
Proof.
  intros tc fmt g src dst dst' Hw Hh H. unfold update_rect in H.
  destruct ((gx1 g + gw1 g >? fw dst) || (gy1 g + gh1 g >? fh dst)); [discriminate|].
  destruct tc.
  - destruct (paint_get _ _ _ _ _ _ _ Hw Hh H) as [Sh G].
    pose proof (paint_ok_inv (fun i j => match filter_px fmt src g i j with None => None | Some v => Some (Some v) end)
                             _ _ _ _ _ _ H) as Ok.
    split; [exact Sh|]. split.
    + intros X Y. rewrite G. destruct (fb_get dst X Y) as [p|] eqn:Gp; [|reflexivity]. f_equal.
      destruct (in_box (gx1 g) (gy1 g) (gw1 g) (gh1 g) X Y) eqn:B; [|reflexivity].
      unfold in_box in B. rewrite !andb_true_iff, !Z.leb_le, !Z.ltb_lt in B.
      unfold pv. specialize (Ok (X - gx1 g) (Y - gy1 g) ltac:(lia) ltac:(lia)). cbv beta in Ok.
      destruct (filter_px fmt src g (X - gx1 g) (Y - gy1 g)) as [v|] eqn:F; [|exfalso; apply Ok; rewrite ?F; reflexivity].
      destruct (filter_px_spec _ _ _ _ _ _ F) as (_ & V & _). exact V.
    + intros _ i j Hi Hj. specialize (Ok i j Hi Hj). cbv beta in Ok.
      destruct (filter_px fmt src g i j) as [v|] eqn:F; [|exfalso; apply Ok; rewrite ?F; reflexivity].
      destruct (filter_px_spec _ _ _ _ _ _ F) as (_ & _ & N). exact N.
  - destruct (paint_get _ _ _ _ _ _ _ Hw Hh H) as [Sh G].
    pose proof (paint_ok_inv (fun i j => match zidx (gcxs g) i, zidx (gcys g) j with
                                         | Some cx, Some cy => match fb_get src cx cy with
                                                               | None => None | Some p => Some (Some p) end
                                         | _, _ => None end) _ _ _ _ _ _ H) as Ok.
    split; [exact Sh|]. split; [|intros; discriminate].
    intros X Y. rewrite G. destruct (fb_get dst X Y) as [p|] eqn:Gp; [|reflexivity]. f_equal.
    destruct (in_box (gx1 g) (gy1 g) (gw1 g) (gh1 g) X Y) eqn:B; [|reflexivity].
    unfold in_box in B. rewrite !andb_true_iff, !Z.leb_le, !Z.ltb_lt in B.
    unfold pv, px_or0, idx_or0. specialize (Ok (X - gx1 g) (Y - gy1 g) ltac:(lia) ltac:(lia)). cbv beta in Ok.
    destruct (zidx (gcxs g) (X - gx1 g)) as [cx|]; [|exfalso; apply Ok; reflexivity].
    destruct (zidx (gcys g) (Y - gy1 g)) as [cy|]; [|exfalso; apply Ok; reflexivity].
    destruct (fb_get src cx cy) eqn:F2; [reflexivity|exfalso; apply Ok; reflexivity].
Qed.

(* ------------------------------------------------------------------ reference counts *)
Definition screens (st : sstate) : list sscreen := mainscr st :: chain st.

(* sum of the reference counts of the screens of that size / users of that size *)
Fixpoint rc_of (w h : Z) (l : list sscreen) : Z :=
  match l with [] => 0 | s :: t => (if same_size w h s then ssref s else 0) + rc_of w h t end.
Fixpoint users_of (w h : Z) (l : list sclient) : Z :=
  match l with
  | [] => 0
  | c :: t => (if calive c && (ckw c =? w) && (ckh c =? h) then 1 else 0) + users_of w h t
  end.
Definition has_size (w h : Z) (st : sstate) : bool := existsb (same_size w h) (screens st).

(* refCount = number of users, for every size; every connected client's screen exists *)
Definition RefInv (st : sstate) : Prop :=
  (forall w h, rc_of w h (screens st) = users_of w h (clients st)) /\
  (forall c, In c (clients st) -> calive c = true -> has_size (ckw c) (ckh c) st = true).

Lemma same_size_eq : forall w h w' h' s, same_size w h s = true -> same_size w' h' s = true -> w = w' /\ h = h'.
Proof.
  intros w h w' h' s A B. unfold same_size in *. apply andb_prop in A. apply andb_prop in B.
  destruct A as [A1 A2]. destruct B as [B1 B2]. apply Z.eqb_eq in A1, A2, B1, B2. lia.
Qed.

Section BumpList.
  Variables w h d : Z.
  Fixpoint bump_list (l : list sscreen) (done : bool) : list sscreen :=
    match l with
    | [] => []
    | s :: t => if negb done && same_size w h s
                then mkss (ssw s) (ssh s) (ssref s + d) (ssfb s) :: bump_list t true
                else s :: bump_list t done
    end.
End BumpList.

Lemma bump_list_done : forall w h d l, bump_list w h d l true = l.
Proof. intros w h d l. induction l as [|s t IH]; cbn; [reflexivity|]. rewrite IH. reflexivity. Qed.

Lemma rc_bump_list : forall w h d l w' h',
  rc_of w' h' (bump_list w h d l false) =
  rc_of w' h' l + (if existsb (same_size w h) l && (w' =? w) && (h' =? h) then d else 0).
Proof.
  intros w h d l w' h'. induction l as [|s t IH]; cbn [bump_list rc_of existsb]; [cbn; lia|].
  destruct (same_size w h s) eqn:E; cbn [negb andb orb].
  - rewrite bump_list_done. cbn [rc_of].
    assert (S1 : same_size w' h' (mkss (ssw s) (ssh s) (ssref s + d) (ssfb s)) = same_size w' h' s) by reflexivity.
    rewrite S1. cbn [ssref].
    unfold same_size in E. apply andb_prop in E. destruct E as [E1 E2]. apply Z.eqb_eq in E1, E2.
    assert (S2 : same_size w' h' s = (w' =? w) && (h' =? h)).
    { unfold same_size. rewrite E1, E2. rewrite (Z.eqb_sym w w'), (Z.eqb_sym h h'). reflexivity. }
    rewrite S2. destruct ((w' =? w) && (h' =? h)); lia.
  - cbn [rc_of]. rewrite IH. lia.
Qed.

Lemma exists_bump_list : forall w h d l done w' h',
  existsb (same_size w' h') (bump_list w h d l done) = existsb (same_size w' h') l.
Proof.
  intros w h d l. induction l as [|s t IH]; intros done w' h'; cbn [bump_list existsb]; [reflexivity|].
  destruct (negb done && same_size w h s); cbn [existsb]; rewrite IH; reflexivity.
Qed.

Lemma bump_screens : forall w h d st,
  screens (bump w h d st) = bump_list w h d (screens st) false /\ clients (bump w h d st) = clients st.
Proof.
  intros w h d st. unfold bump, screens. cbn [bump_list negb andb].
  destruct (same_size w h (mainscr st)); cbn [mainscr chain clients].
  - rewrite bump_list_done. split; reflexivity.
  - split; reflexivity.
Qed.

Lemma rc_bump : forall w h d st w' h',
  rc_of w' h' (screens (bump w h d st)) =
  rc_of w' h' (screens st) + (if has_size w h st && (w' =? w) && (h' =? h) then d else 0).
Proof. intros. destruct (bump_screens w h d st) as [E _]. rewrite E. apply rc_bump_list. Qed.

Lemma has_bump : forall w h d st w' h', has_size w' h' (bump w h d st) = has_size w' h' st.
Proof. intros. unfold has_size. destruct (bump_screens w h d st) as [E _]. rewrite E. apply exists_bump_list. Qed.

Lemma users_set_client : forall l k c0 c w h, nth_error l k = Some c0 ->
  users_of w h (set_client l k c) =
  users_of w h l - (if calive c0 && (ckw c0 =? w) && (ckh c0 =? h) then 1 else 0)
                 + (if calive c && (ckw c =? w) && (ckh c =? h) then 1 else 0).
Proof.
  induction l as [|a t IH]; intros k c0 c w h H; [destruct k; discriminate|].
  destruct k as [|k]; cbn [set_client users_of nth_error] in *.
  - inversion H; subst. lia.
  - rewrite (IH _ _ _ _ _ H). lia.
Qed.

Lemma in_set_client : forall l k c x, In x (set_client l k c) -> x = c \/ In x l.
Proof.
  induction l as [|a t IH]; intros k c x H; [destruct k; contradiction|].
  destruct k as [|k]; cbn [set_client] in H; destruct H as [H|H]; subst; cbn; auto.
  destruct (IH _ _ _ H); auto.
Qed.

Lemma users_app1 : forall l c w h,
  users_of w h (l ++ [c]) = users_of w h l + (if calive c && (ckw c =? w) && (ckh c =? h) then 1 else 0).
Proof. induction l as [|a t IH]; intros; cbn [app users_of]; [lia|]. rewrite IH. lia. Qed.

Lemma has_main : forall st, has_size (ssw (mainscr st)) (ssh (mainscr st)) st = true.
Proof. intros st. unfold has_size, screens. cbn [existsb]. unfold same_size. rewrite !Z.eqb_refl. reflexivity. Qed.

(* rfbNewClient *)
Theorem refinv_client_new : forall st, RefInv st -> RefInv (client_new st).
Proof.
  intros st [R Hs].
  set (W := ssw (mainscr st)). set (H := ssh (mainscr st)).
  assert (Es : screens (client_new st) = screens (bump W H 1 st)) by reflexivity.
  assert (Ec : clients (client_new st) = clients st ++ [mkscl W H false true]).
  { unfold client_new. cbn [clients]. destruct (bump_screens W H 1 st) as [_ E]. fold W H. rewrite E. reflexivity. }
  split.
  - intros w h. rewrite Es, Ec, rc_bump, users_app1, R. cbn [calive ckw ckh andb]. subst W H. rewrite has_main. cbn [andb].
    rewrite (Z.eqb_sym w), (Z.eqb_sym h). reflexivity.
  - intros c Hin Al. rewrite Ec in Hin. apply in_app_or in Hin.
    unfold has_size. rewrite Es. fold (has_size (ckw c) (ckh c) (bump W H 1 st)). rewrite has_bump.
    destruct Hin as [Hin|[Hin|[]]]; [auto|]. subst c. apply has_main.
Qed.

(* rfbClientConnectionGone *)
Theorem refinv_client_gone : forall st k, RefInv st -> RefInv (client_gone st k).
Proof.
  intros st k [R Hs]. unfold client_gone.
  destruct (nth_error (clients st) k) as [cl|] eqn:E; [|split; auto].
  destruct (calive cl) eqn:Al; [|split; auto].
  assert (Hcl : has_size (ckw cl) (ckh cl) st = true) by (apply Hs; [eapply nth_error_In; eauto|auto]).
  destruct (bump_screens (ckw cl) (ckh cl) (-1) st) as [_ Ec0].
  set (st1 := bump (ckw cl) (ckh cl) (-1) st) in *.
  set (st2 := mkst (mainscr st1) (chain st1) (set_client (clients st1) k (mkscl (ckw cl) (ckh cl) (cpalm cl) false))).
  assert (Es : screens st2 = screens st1) by reflexivity.
  assert (Ec : clients st2 = set_client (clients st) k (mkscl (ckw cl) (ckh cl) (cpalm cl) false)).
  { subst st2. cbn [clients]. rewrite Ec0. reflexivity. }
  split.
  - intros w h. rewrite Es, Ec. subst st1. rewrite rc_bump, (users_set_client _ _ _ _ _ _ E), R, Hcl, Al.
    cbn [calive ckw ckh andb]. rewrite (Z.eqb_sym w), (Z.eqb_sym h). destruct ((ckw cl =? w) && (ckh cl =? h)); lia.
  - intros c Hin Alc. rewrite Ec in Hin. apply in_set_client in Hin.
    unfold has_size. rewrite Es. fold (has_size (ckw c) (ckh c) st1). subst st1. rewrite has_bump.
    destruct Hin as [Hin|Hin]; [subst c; cbn in Alc; discriminate|auto].
Qed.

(* rfbScalingSetup *)
Definition meta (s : sscreen) : Z * Z * Z := (ssw s, ssh s, ssref s).

Lemma rc_of_meta : forall w h l l', map meta l = map meta l' -> rc_of w h l = rc_of w h l'.
Proof.
  intros w h l. induction l as [|a t IH]; intros [|b t'] E; cbn in E; try discriminate; [reflexivity|].
  inversion E as [[A B C D]]. cbn [rc_of]. rewrite (IH _ D). unfold same_size. rewrite A, B, C. reflexivity.
Qed.

Lemma exists_meta : forall w h l l', map meta l = map meta l' ->
  existsb (same_size w h) l = existsb (same_size w h) l'.
Proof.
  intros w h l. induction l as [|a t IH]; intros [|b t'] E; cbn in E; try discriminate; [reflexivity|].
  inversion E as [[A B C D]]. cbn [existsb]. rewrite (IH _ D). unfold same_size. rewrite A, B. reflexivity.
Qed.

Lemma refresh_meta : forall tc fmt g w h st st', refresh tc fmt g w h st = Some st' ->
  map meta (screens st') = map meta (screens st) /\ clients st' = clients st.
Proof.
  intros tc fmt g w h st st' H. unfold refresh in H.
  destruct (same_size w h (mainscr st)); [inversion H; subst; auto|].
  assert (G : forall l pre,
    (fix go (pre l : list sscreen) : option sstate :=
       match l with
       | [] => Some st
       | s :: t => if same_size w h s
                   then match update_rect tc fmt g (ssfb (mainscr st)) (ssfb s) with
                        | None => None
                        | Some f => Some (mkst (mainscr st) (rev_append pre (mkss (ssw s) (ssh s) (ssref s) f :: t)) (clients st))
                        end
                   else go (s :: pre) t
       end) pre l = Some st' ->
    chain st = rev_append pre l ->
    map meta (screens st') = map meta (screens st) /\ clients st' = clients st).
  { induction l as [|s t IH]; intros pre Hg Hc.
    - inversion Hg; subst. auto.
    - destruct (same_size w h s).
      + destruct (update_rect tc fmt g (ssfb (mainscr st)) (ssfb s)) as [f|]; [|discriminate].
        inversion Hg; subst. unfold screens; cbn [mainscr chain clients]. split; [|reflexivity].
        rewrite Hc. cbn [map]. f_equal. rewrite !rev_append_rev. rewrite !map_app. cbn [map]. reflexivity.
      + apply (IH (s :: pre) Hg). exact Hc. }
  apply (G (chain st) [] H). reflexivity.
Qed.

Theorem refinv_scaling_setup : forall zf tc fmt g st k cl w h st',
  RefInv st -> nth_error (clients st) k = Some cl -> calive cl = true ->
  scaling_setup zf tc fmt g st k w h = Some st' ->
  RefInv st' /\
  exists cl', nth_error (clients st') k = Some cl' /\ calive cl' = true /\
    ((ckw cl' = w /\ ckh cl' = h) \/                        (* accepted *)
     (cl' = cl /\ find_scaled w h st = None /\ (h = 0 \/ (zf = true /\ w = 0)))).   (* refused *)
Proof.
  intros zf tc fmt g st k cl w h st' [R Hs] Ek Al H. unfold scaling_setup in H. rewrite Ek in H.
  destruct (find_scaled w h st) as [fs|] eqn:Ef.
  - (* a screen of that size exists *)
    cbn beta iota in H.
    assert (Hw : has_size w h st = true).
    { unfold find_scaled in Ef. unfold has_size, screens. cbn [existsb].
      destruct (same_size w h (mainscr st)); [reflexivity|]. cbn [orb].
      apply existsb_exists. apply find_some in Ef. destruct Ef as [I S]. eauto. }
    match type of H with (match ?A with Some _ => _ | None => None end) = _ => destruct A as [st3|] eqn:E3; [|discriminate] end.
    assert (M3 : map meta (screens st3) = map meta (screens st) /\ clients st3 = clients st).
    { destruct (_ <? 1) in E3; [eapply refresh_meta; eauto|inversion E3; subst; auto]. }
    destruct M3 as [M3 C3]. inversion H; subst st'; clear H.
    set (st4 := bump w h 1 (bump (ckw cl) (ckh cl) (-1) st3)).
    assert (Hold : has_size (ckw cl) (ckh cl) st3 = true).
    { unfold has_size. rewrite (exists_meta _ _ _ _ M3). apply Hs; [eapply nth_error_In; eauto|auto]. }
    assert (Hnew : has_size w h (bump (ckw cl) (ckh cl) (-1) st3) = true).
    { rewrite has_bump. unfold has_size. rewrite (exists_meta _ _ _ _ M3). exact Hw. }
    assert (C4 : clients st4 = clients st).
    { subst st4. destruct (bump_screens w h 1 (bump (ckw cl) (ckh cl) (-1) st3)) as [_ E]. rewrite E.
      destruct (bump_screens (ckw cl) (ckh cl) (-1) st3) as [_ E']. rewrite E'. exact C3. }
    split; [split|].
    + intros w' h'. unfold screens; cbn [mainscr chain clients]. fold (screens st4).
      rewrite C4. subst st4. rewrite rc_bump, rc_bump, Hold, Hnew.
      rewrite (users_set_client _ _ _ _ _ _ Ek), Al. cbn [calive ckw ckh andb].
      rewrite (rc_of_meta _ _ _ _ M3), R.
      rewrite (Z.eqb_sym w' (ckw cl)), (Z.eqb_sym h' (ckh cl)), (Z.eqb_sym w' w), (Z.eqb_sym h' h).
      destruct ((ckw cl =? w') && (ckh cl =? h')); destruct ((w =? w') && (h =? h')); lia.
    + intros c Hin Alc. cbn [clients] in Hin. rewrite C4 in Hin. apply in_set_client in Hin.
      unfold has_size, screens; cbn [mainscr chain]. fold (screens st4). fold (has_size (ckw c) (ckh c) st4).
      subst st4. rewrite !has_bump. unfold has_size. rewrite (exists_meta _ _ _ _ M3).
      destruct Hin as [Hin|Hin]; [subst c; exact Hw | apply Hs; auto].
    + exists (mkscl w h (cpalm cl) (calive cl)). cbn [clients]. rewrite C4. split.
      * clear - Ek. revert k Ek. induction (clients st) as [|a t IH]; intros [|k] Ek; cbn in *; try discriminate; auto.
      * cbn. auto.
  - (* no such screen: allocate *)
    cbn beta iota in H.
    destruct ((h =? 0) || (zf && (w =? 0))) eqn:Refuse.
    + inversion H; subst st'. split; [split; auto|]. exists cl. split; [exact Ek|]. split; [exact Al|]. right.
      split; [reflexivity|]. split; [reflexivity|].
      apply orb_prop in Refuse. destruct Refuse as [E|E]; [left; apply Z.eqb_eq; exact E|].
      apply andb_prop in E. destruct E as [E1 E2]. right. split; [exact E1|apply Z.eqb_eq; exact E2].
    + set (fresh := mkst (mainscr st) (mkss w h 0 (blank_fb w h) :: chain st) (clients st)) in *.
      destruct (refresh tc fmt g w h fresh) as [st2|] eqn:E2; [|discriminate]. cbn beta iota in H.
      destruct (refresh_meta _ _ _ _ _ _ _ E2) as [M2 C2].
      match type of H with (match ?A with Some _ => _ | None => None end) = _ => destruct A as [st3|] eqn:E3; [|discriminate] end.
      assert (M3 : map meta (screens st3) = map meta (screens fresh) /\ clients st3 = clients st).
      { destruct (_ <? 1) in E3.
        - destruct (refresh_meta _ _ _ _ _ _ _ E3) as [A B]. split; [rewrite A; exact M2 | rewrite B; exact C2].
        - inversion E3; subst. split; [exact M2|exact C2]. }
      destruct M3 as [M3 C3]. inversion H; subst st'; clear H.
      set (st4 := bump w h 1 (bump (ckw cl) (ckh cl) (-1) st3)).
      assert (Hfresh : forall w' h', existsb (same_size w' h') (screens fresh) =
                                     existsb (same_size w' h') (screens st) || same_size w' h' (mkss w h 0 (blank_fb w h))).
      { intros. unfold screens, fresh; cbn [mainscr chain existsb].
        destruct (same_size w' h' (mainscr st)); destruct (same_size w' h' (mkss w h 0 (blank_fb w h)));
          destruct (existsb (same_size w' h') (chain st)); reflexivity. }
      assert (Hold : has_size (ckw cl) (ckh cl) st3 = true).
      { unfold has_size. rewrite (exists_meta _ _ _ _ M3), Hfresh.
        assert (has_size (ckw cl) (ckh cl) st = true) by (apply Hs; [eapply nth_error_In; eauto|auto]).
        unfold has_size in H. rewrite H. reflexivity. }
      assert (Hnew : has_size w h (bump (ckw cl) (ckh cl) (-1) st3) = true).
      { rewrite has_bump. unfold has_size. rewrite (exists_meta _ _ _ _ M3), Hfresh.
        unfold same_size at 2; cbn [ssw ssh]. rewrite !Z.eqb_refl. apply orb_true_r. }
      assert (C4 : clients st4 = clients st).
      { subst st4. destruct (bump_screens w h 1 (bump (ckw cl) (ckh cl) (-1) st3)) as [_ E]. rewrite E.
        destruct (bump_screens (ckw cl) (ckh cl) (-1) st3) as [_ E']. rewrite E'. exact C3. }
      assert (Rfresh : forall w' h', rc_of w' h' (screens fresh) = rc_of w' h' (screens st)).
      { intros. unfold screens, fresh; cbn [mainscr chain rc_of ssref]. destruct (same_size w' h' _); destruct (same_size w' h' _); lia. }
      split; [split|].
      * intros w' h'. unfold screens; cbn [mainscr chain clients]. fold (screens st4).
        rewrite C4. subst st4. rewrite rc_bump, rc_bump, Hold, Hnew.
        rewrite (users_set_client _ _ _ _ _ _ Ek), Al. cbn [calive ckw ckh andb].
        rewrite (rc_of_meta _ _ _ _ M3), Rfresh, R.
        rewrite (Z.eqb_sym w' (ckw cl)), (Z.eqb_sym h' (ckh cl)), (Z.eqb_sym w' w), (Z.eqb_sym h' h).
        destruct ((ckw cl =? w') && (ckh cl =? h')); destruct ((w =? w') && (h =? h')); lia.
      * intros c Hin Alc. cbn [clients] in Hin. rewrite C4 in Hin. apply in_set_client in Hin.
        unfold has_size, screens; cbn [mainscr chain]. fold (screens st4). fold (has_size (ckw c) (ckh c) st4).
        subst st4. rewrite !has_bump. unfold has_size. rewrite (exists_meta _ _ _ _ M3), Hfresh.
        destruct Hin as [Hin|Hin].
        -- subst c. cbn [ckw ckh]. unfold same_size at 2; cbn [ssw ssh]. rewrite !Z.eqb_refl. apply orb_true_r.
        -- assert (has_size (ckw c) (ckh c) st = true) by (apply Hs; auto). unfold has_size in H. rewrite H. reflexivity.
      * exists (mkscl w h (cpalm cl) (calive cl)). cbn [clients]. rewrite C4. split.
        -- clear - Ek. revert k Ek. induction (clients st) as [|a t IH]; intros [|k] Ek; cbn in *; try discriminate; auto.
        -- cbn. auto.
Qed.

(* ------------------------------------------------------------------ what the client is told *)
Definition get16 (l : list Z) (k : nat) : Z := nth k l 0 * 256 + nth (S k) l 0.

Lemma be16_get : forall v, 0 <= v < 65536 -> get16 (be16 v) 0 = v.
Proof.
  intros v H. unfold get16, be16, byte. cbn [nth].
  rewrite (Z.mod_small (v / 256) 256) by (split; [apply Z.div_pos; lia | apply Z.div_lt_upper_bound; lia]).
  pose proof (Z.div_mod v 256 ltac:(lia)). lia.
Qed.

(* C17_size_told: factor n > 0: the size is (W/n, H/n); the UltraVNC answer is ResizeFrameBuffer(w, h),
   the PalmVNC answer ReSizeFrameBuffer(desktop W x H, buffer w x h) *)
Theorem size_told : forall palm W H n w h,
  0 < n -> 0 <= W < 65536 -> 0 <= H < 65536 ->
  scaled_size W H n = Some (w, h) ->
  w = W / n /\ h = H / n /\
  let m := resize_msg palm W H w h in
  if palm
  then length m = Z.to_nat sz_palm_resize_fb /\ nth 0 m 0 = msg_palm_resize_fb /\
       get16 m 2 = W /\ get16 m 4 = H /\ get16 m 6 = w /\ get16 m 8 = h
  else length m = Z.to_nat sz_resize_fb /\ nth 0 m 0 = msg_resize_fb /\ get16 m 2 = w /\ get16 m 4 = h.
Proof.
  intros palm W H n w h Hn HW HH S. unfold scaled_size in S.
  destruct (Z.eqb_spec n 0); [lia|]. inversion S; subst; clear S.
  rewrite !Z.quot_div_nonneg by lia.
  assert (Bw : 0 <= W / n < 65536).
  { split; [apply Z.div_pos; lia|]. apply Z.div_lt_upper_bound; nia. }
  assert (Bh : 0 <= H / n < 65536).
  { split; [apply Z.div_pos; lia|]. apply Z.div_lt_upper_bound; nia. }
  split; [reflexivity|]. split; [reflexivity|].
  pose proof (be16_get W HW) as GW. pose proof (be16_get H HH) as GH.
  pose proof (be16_get _ Bw) as Gw. pose proof (be16_get _ Bh) as Gh.
  destruct palm; cbv zeta; unfold resize_msg; cbn [app length nth get16 be16] in *; repeat split; auto.
Qed.

(* factor 1: the client is back on the unscaled screen *)
Lemma factor_one : forall W H, scaled_size W H 1 = Some (W, H).
Proof. intros. unfold scaled_size. cbn. rewrite !Z.quot_1_r. reflexivity. Qed.

(* ------------------------------------------------------------------ F2: zero dimension *)
(* the code as it is: a factor larger than the width (height/factor >= 1) is accepted, the scaled
   screen is 0 pixels wide, and the rectangle count of the Zlib/Ultra encoders divides by zero *)
Lemma zero_dim_refuted :
  exists W H n w h st st',
    1 <= n <= 255 /\ scaled_size W H n = Some (w, h) /\ w = 0 /\ 1 <= h /\
    scaling_setup false true (mkfmt 4 255 255 255 0 8 16) (mkgeom 0 0 0 0 0 0 [] [] [] []) (client_new st) 0 w h = Some st' /\
    (exists cl, nth_error (clients st') 0 = Some cl /\ ckw cl = 0 /\ ckh cl = h) /\
    split_rect_count zlib_max_rect_size w h = None /\ split_rect_count ultra_max_rect_size w h = None.
Proof.
  exists 3, 8, 4, 0, 2, (mkst (mkss 3 8 0 (blank_fb 3 8)) [] []). eexists.
  split; [lia|]. split; [reflexivity|]. split; [reflexivity|]. split; [lia|].
  split; [vm_compute; reflexivity|]. split; [eexists; split; [reflexivity|split; reflexivity]|].
  split; reflexivity.
Qed.

(* with repair fix_C17_1: a size with a zero dimension that is not already in the chain is refused,
   nothing changes *)
Lemma zero_dim_fixed : forall tc fmt g st k cl w h,
  nth_error (clients st) k = Some cl -> find_scaled w h st = None -> w = 0 \/ h = 0 ->
  scaling_setup true tc fmt g st k w h = Some st.
Proof.
  intros tc fmt g st k cl w h Ek Ef Z0. unfold scaling_setup. rewrite Ek, Ef.
  replace ((h =? 0) || (true && (w =? 0))) with true; [reflexivity|].
  symmetry. destruct Z0; subst; cbn; [apply orb_true_r|reflexivity].
Qed.

(* and then no screen of the chain ever has a zero dimension, so the rectangle count is defined *)
Lemma split_rect_count_defined : forall mx w h, 0 < mx -> 1 <= w -> exists n, split_rect_count mx w h = Some n.
Proof.
  intros mx w h Hm Hw. unfold split_rect_count.
  destruct (Z.eqb_spec w 0); [lia|].
  set (m := if w * 2 >? mx then w * 2 else mx).
  assert (w <= m).
  { subst m. rewrite Z.gtb_ltb. destruct (Z.ltb_spec mx (w * 2)); lia. }
  assert (1 <= Z.quot m w).
  { rewrite Z.quot_div_nonneg by lia. apply Z.div_le_lower_bound; lia. }
  destruct (Z.eqb_spec (Z.quot m w) 0); [lia|]. eauto.
Qed.

Example refinv_nonvacuous :
  RefInv (client_new (mkst (mkss 3 8 0 (blank_fb 3 8)) [] [])).
Proof.
  apply refinv_client_new. split.
  - intros w h. cbn. destruct (same_size w h _); reflexivity.
  - intros c [].
Qed.

Example update_rect_nonvacuous :
  exists dst', update_rect true (mkfmt 1 7 7 3 0 3 6) (mkgeom 0 0 1 1 2 2 [0] [0] [0] [0])
                 (mkfb 2 2 [[1; 3]; [5; 7]]) (blank_fb 1 1) = Some dst' /\ fb_get dst' 0 0 = Some 4.
Proof. eexists. split; vm_compute; reflexivity. Qed.

(* ------------------------------------------------------------------ convergence (repaired block grid) *)
(* Since /repo commit d58ea84 the block of destination pixel X starts at ScaleX(X) whatever rectangle
   is being refreshed.  Then the scaled image is a function of the framebuffer alone. *)
Definition ideal_px (fmt : pixfmt) (src : fb) (W H w' h' X Y : Z) : Z :=
  avg_at fmt src (scaleQ w' W 1) (scaleQ h' H 1) (scaleQ w' W X) (scaleQ h' H Y).

Definition Conv (fmt : pixfmt) (src : fb) (W H w' h' : Z) (dst : fb) : Prop :=
  forall X Y, 0 <= X < w' -> 0 <= Y < h' -> fb_get dst X Y = Some (ideal_px fmt src W H w' h' X Y).

(* geometry of a refresh after the rectangle (x,y,w,h) was modified: inside the scaled screen, covering
   the exact image of the rectangle (C17_correction_inside / _covers), origins on the repaired grid *)
Definition geom_ok (g : geom) (W H w' h' x y w h : Z) : Prop :=
  gax g = scaleQ w' W 1 /\ gay g = scaleQ h' H 1 /\
  0 <= gx1 g /\ 0 <= gw1 g /\ gx1 g + gw1 g <= w' /\ 0 <= gy1 g /\ 0 <= gh1 g /\ gy1 g + gh1 g <= h' /\
  gx1 g * W <= x * w' /\ (x + w) * w' <= (gx1 g + gw1 g) * W /\
  gy1 g * H <= y * h' /\ (y + h) * h' <= (gy1 g + gh1 g) * H /\
  (forall i, 0 <= i < gw1 g -> zidx (gsxs g) i = Some (scaleQ w' W (gx1 g + i))) /\
  (forall j, 0 <= j < gh1 g -> zidx (gsys g) j = Some (scaleQ h' H (gy1 g + j))).

(* a destination pixel outside the corrected range: no pixel of its block lies in the modified range *)
Lemma axis_disjoint : forall W w' x w x2 w2 X u,
  1 <= w' -> 0 <= W -> 0 <= X ->
  x2 * W <= x * w' -> (x + w) * w' <= (x2 + w2) * W ->
  ~ (x2 <= X < x2 + w2) -> 0 <= u < scaleQ w' W 1 ->
  ~ (x <= scaleQ w' W X + u < x + w).
Proof.
  intros W w' x w x2 w2 X u Hw HW HX L R Out Hu. unfold scaleQ in *.
  pose proof (Z.div_mod (X * W) w' ltac:(lia)) as D1.
  pose proof (Z.mod_pos_bound (X * W) w' ltac:(lia)) as M1.
  pose proof (Z.div_mod (1 * W) w' ltac:(lia)) as D2.
  pose proof (Z.mod_pos_bound (1 * W) w' ltac:(lia)) as M2.
  set (b := X * W / w') in *. set (a := 1 * W / w') in *.
  intros [A B].
  destruct (Z_lt_le_dec X x2) as [Lt|Ge].
  - (* left of the range *)
    assert ((b + a) * w' <= (X + 1) * W) by nia.
    assert ((X + 1) * W <= x2 * W) by nia.
    assert ((b + u + 1) * w' <= x * w') by nia.
    assert (b + u + 1 <= x) by nia. lia.
  - assert (x2 + w2 <= X) by lia.
    assert ((x2 + w2) * W <= X * W) by nia.
    assert ((x + w) * w' < (b + 1) * w') by nia.
    assert (x + w < b + 1) by nia. lia.
Qed.

Lemma sumZ_ext : forall n k f g, (forall t, k <= t < k + Z.of_nat n -> f t = g t) -> sumZ n k f = sumZ n k g.
Proof.
  induction n as [|n IH]; intros k f g H; cbn [sumZ]; [reflexivity|].
  rewrite (H k) by lia. f_equal. apply IH. intros; apply H; lia.
Qed.

Lemma block_total_ext : forall src src' ax ay sh mx sx sy,
  (forall w v, 0 <= w < ax -> 0 <= v < ay -> fb_get src' (sx + w) (sy + v) = fb_get src (sx + w) (sy + v)) ->
  block_total src' ax ay sh mx sx sy = block_total src ax ay sh mx sx sy.
Proof.
  intros src src' ax ay sh mx sx sy E. unfold block_total. apply sumZ_ext. intros w Hw.
  apply sumZ_ext. intros v Hv. unfold px_or0. rewrite E by lia. reflexivity.
Qed.

(* C17_converges, step: refresh after a modification keeps "scaled image = box filter of the framebuffer" *)
Theorem converges_step : forall fmt g src src' dst dst' W H w' h' x y w h,
  1 <= w' -> 0 <= W -> 1 <= h' -> 0 <= H ->
  geom_ok g W H w' h' x y w h ->
  Conv fmt src W H w' h' dst ->
  (forall s t, ~ (x <= s < x + w /\ y <= t < y + h) -> fb_get src' s t = fb_get src s t) ->
  update_rect true fmt g src' dst = Some dst' ->
  Conv fmt src' W H w' h' dst'.
Proof.
  intros fmt g src src' dst dst' W H w' h' x y w h Hw HW Hh HH
         (Ax & Ay & X0 & W0 & X1 & Y0 & H0 & Y1 & Lx & Rx & Ly & Ry & Ox & Oy) C Same U.
  destruct (update_rect_spec _ _ _ _ _ _ W0 H0 U) as (_ & G & _).
  intros X Y HX HY. rewrite G, (C X Y HX HY). f_equal.
  destruct (in_box (gx1 g) (gy1 g) (gw1 g) (gh1 g) X Y) eqn:B.
  - unfold in_box in B. rewrite !andb_true_iff, !Z.leb_le, !Z.ltb_lt in B.
    unfold avg_px, ideal_px, idx_or0. rewrite (Ox (X - gx1 g)) by lia. rewrite (Oy (Y - gy1 g)) by lia.
    rewrite Ax, Ay. replace (gx1 g + (X - gx1 g)) with X by lia. replace (gy1 g + (Y - gy1 g)) with Y by lia.
    reflexivity.
  - unfold ideal_px, avg_at.
    assert (E : forall sh mx, block_total src' (scaleQ w' W 1) (scaleQ h' H 1) sh mx (scaleQ w' W X) (scaleQ h' H Y) =
                              block_total src (scaleQ w' W 1) (scaleQ h' H 1) sh mx (scaleQ w' W X) (scaleQ h' H Y)).
    { intros sh mx. apply block_total_ext. intros u v Hu Hv. apply Same. intros [Sx Sy].
      unfold in_box in B.
      assert (Out : ~ (gx1 g <= X < gx1 g + gw1 g) \/ ~ (gy1 g <= Y < gy1 g + gh1 g)).
      { destruct (Z_le_dec (gx1 g) X); destruct (Z_lt_dec X (gx1 g + gw1 g));
          destruct (Z_le_dec (gy1 g) Y); destruct (Z_lt_dec Y (gy1 g + gh1 g)); try (left; lia); try (right; lia);
          exfalso; revert B; rewrite !andb_false_iff, !Z.leb_gt, !Z.ltb_ge; lia. }
      destruct Out as [Out|Out].
      - apply (axis_disjoint W w' x w (gx1 g) (gw1 g) X u); auto; lia.
      - apply (axis_disjoint H h' y h (gy1 g) (gh1 g) Y v); auto; lia. }
    rewrite !E. reflexivity.
Qed.

(* record of F17b - the block grid before d58ea84: the same framebuffer gives two different
   scaled images, depending on whether it was refreshed as a whole or after the modification *)
Lemma old_grid_history_dependent :
  exists fmt src src' gfull gpart A B0 B,
    (forall s t, ~ (0 <= s < 3 /\ 9 <= t < 10) -> fb_get src' s t = fb_get src s t) /\
    update_rect true fmt gfull src' (blank_fb 1 3) = Some A /\
    update_rect true fmt gfull src (blank_fb 1 3) = Some B0 /\
    update_rect true fmt gpart src' B0 = Some B /\ A <> B.
Proof.
  exists (mkfmt 1 7 7 3 0 3 6), (blank_fb 3 11),
         (mkfb 3 11 (repeat [0; 0; 0] 9 ++ [[255; 255; 255]; [0; 0; 0]])),
         (mkgeom 0 0 1 3 3 3 [0] [0; 3; 6] [0] [0; 3; 6]),     (* full refresh: blocks at Y*areaY *)
         (mkgeom 0 2 1 1 3 3 [0] [7] [0] [6]).                  (* row 9 modified: y1 = 2, y0 = ScaleY(2) = 7 *)
  do 3 eexists. split; [|split; [vm_compute; reflexivity|split; [vm_compute; reflexivity|split; [vm_compute; reflexivity|]]]].
  - intros s t Hn. unfold fb_get, zidx; cbn [rows].
    destruct (t <? 0) eqn:Et; [reflexivity|].
    assert (Ht : t < 9 \/ t = 9 \/ t = 10 \/ 10 < t) by lia.
    destruct Ht as [Ht|[Ht|[Ht|Ht]]].
    + assert (Z.to_nat t < 9)%nat by lia.
      replace (nth_error (repeat [0; 0; 0] 9 ++ [[255; 255; 255]; [0; 0; 0]]) (Z.to_nat t)) with (Some [0; 0; 0]).
      2:{ symmetry. rewrite nth_error_app1 by (rewrite repeat_length; lia). apply nth_error_repeat. lia. }
      replace (nth_error (rows (blank_fb 3 11)) (Z.to_nat t)) with (Some [0; 0; 0]).
      2:{ symmetry. unfold blank_fb; cbn [rows]. apply nth_error_repeat. lia. }
      reflexivity.
    + subst t. cbn. destruct (s <? 0) eqn:Es; [reflexivity|].
      assert (3 <= s) by lia. assert (3 <= Z.to_nat s)%nat by lia.
      destruct (Z.to_nat s) as [|[|[|n]]]; try lia. cbn. destruct n; reflexivity.
    + subst t. reflexivity.
    + assert (11 <= Z.to_nat t)%nat by lia.
      replace (nth_error (repeat [0; 0; 0] 9 ++ [[255; 255; 255]; [0; 0; 0]]) (Z.to_nat t)) with (@None (list Z)).
      2:{ symmetry. apply nth_error_None. rewrite app_length, repeat_length. cbn. lia. }
      replace (nth_error (rows (blank_fb 3 11)) (Z.to_nat t)) with (@None (list Z)).
      2:{ symmetry. apply nth_error_None. unfold blank_fb; cbn [rows]. rewrite repeat_length. lia. }
      reflexivity.
  - vm_compute. discriminate.
Qed.

(* ------------------------------------------------------------------ ScaleX exact for all 16-bit sizes *)
(* The argument for ScaleX = (int)(((double) x * to) / from) over the standard model of binary64,
   stated over Z.  a = x*to < 2^32 and b = from < 2^16 are integers, so a and b are doubles and the
   product is exact.  The quotient computed is q = RN(a/b), a rational n/d (d > 0).  Of the standard
   model only two facts are used, as Section hypotheses:
     RN_mono_int : rounding is monotone and integers below 2^53 are doubles, hence k <= a/b -> k <= q;
     RN_rel_up   : q <= (a/b) * (1 + 2^-53)                                    (relative error of RN).
   Then (int) q = floor(a/b).  (That primitive floats satisfy the standard model is what Flocq's
   PrimFloat bridge proves; the link is not formalised here - C17_F_agrees_Q_on checks the primitive
   floats themselves on its swept range, the correspondence run on sizes up to 65535.) *)
Section ScaleExact.
  Variables a b n d : Z.
  Hypothesis Ha : 0 <= a < 2 ^ 32.
  Hypothesis Hb : 1 <= b < 2 ^ 16.
  Hypothesis Hd : 0 < d.
  Hypothesis RN_mono_int : forall k, 0 <= k -> k * b <= a -> k * d <= n.
  Hypothesis RN_rel_up : n * b * 2 ^ 53 <= a * d * (2 ^ 53 + 1).

  Theorem trunc_rounded_quotient : n / d = a / b.
  Proof.
    pose proof (Z.div_mod a b ltac:(lia)) as Dab. pose proof (Z.mod_pos_bound a b ltac:(lia)) as Mab.
    set (k := a / b) in *.
    assert (K0 : 0 <= k) by (apply Z.div_pos; lia).
    assert (Klo : k * d <= n) by (apply RN_mono_int; [exact K0|nia]).
    (* a <= (k+1)*b - 1 *)
    assert (Aup : a + 1 <= (k + 1) * b) by nia.
    assert (K32 : k + 1 <= 2 ^ 32).
    { assert (k * b <= a) by nia. assert (k <= a) by nia. lia. }
    (* n * b * 2^53 <= a*d*(2^53+1) <= ((k+1)*b - 1)*d*(2^53+1) < (k+1)*b*d*2^53 *)
    assert (Kup : n < (k + 1) * d).
    { assert (H1 : a * d * (2 ^ 53 + 1) <= ((k + 1) * b - 1) * d * (2 ^ 53 + 1)).
      { apply Z.mul_le_mono_nonneg_r; [lia|]. apply Z.mul_le_mono_nonneg_r; lia. }
      assert (H2 : ((k + 1) * b - 1) * d * (2 ^ 53 + 1) < (k + 1) * b * d * 2 ^ 53).
      { (* (k+1)*b*d < d*(2^53+1)  since (k+1)*b <= 2^48 *)
        assert ((k + 1) * b <= 2 ^ 32 * 2 ^ 16) by (apply Z.mul_le_mono_nonneg; lia).
        assert ((k + 1) * b < 2 ^ 53 + 1) by (change (2 ^ 32 * 2 ^ 16) with (2 ^ 48) in *; lia).
        assert ((k + 1) * b * d < (2 ^ 53 + 1) * d) by (apply Z.mul_lt_mono_pos_r; lia).
        nia. }
      assert (H3 : n * b * 2 ^ 53 < (k + 1) * b * d * 2 ^ 53) by lia.
      assert (H4 : n * (b * 2 ^ 53) < (k + 1) * d * (b * 2 ^ 53)) by nia.
      apply Z.mul_lt_mono_pos_r in H4; [exact H4|]. apply Z.mul_pos_pos; lia. }
    symmetry. apply (Z.div_unique_pos n d k (n - k * d)); lia.
  Qed.
End ScaleExact.

Example trunc_rounded_quotient_nonvacuous : 58 / 1 = (29 * 200) / 100.
Proof.
  apply (trunc_rounded_quotient (29 * 200) 100 58 1); try lia; intros k Hk H; lia.
Qed.

(* ------------------------------------------------------------------ the soft cursor and the scaled copies *)
(* rfbShowCursor paints the cursor box and refreshes it in every scaled copy; rfbHideCursor restores the
   box and refreshes it again (for EVERY client, scaled or not): afterwards each scaled copy is again the
   box filter of the cursor-free framebuffer *)
Theorem scaled_copy_cursor_free : forall fmt g src painted dst d1 d2 W H w' h' x y w h,
  1 <= w' -> 0 <= W -> 1 <= h' -> 0 <= H ->
  geom_ok g W H w' h' x y w h ->
  Conv fmt src W H w' h' dst ->
  (forall s t, ~ (x <= s < x + w /\ y <= t < y + h) -> fb_get painted s t = fb_get src s t) ->
  update_rect true fmt g painted dst = Some d1 ->       (* refresh in rfbShowCursor *)
  update_rect true fmt g src d1 = Some d2 ->            (* refresh in rfbHideCursor *)
  Conv fmt src W H w' h' d2.
Proof.
  intros fmt g src painted dst d1 d2 W H w' h' x y w h Hw HW Hh HH G C Same U1 U2.
  assert (C1 : Conv fmt painted W H w' h' d1) by (eapply converges_step; eauto).
  eapply (converges_step fmt g painted src d1 d2); eauto.
  intros s t Out. symmetry. apply Same. exact Out.
Qed.
