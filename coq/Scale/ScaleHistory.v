(* C17 - the history-level invariant (audit item 1 and 5): in every state reachable by clients joining,
   changing their scale factor, leaving, by modifications of the framebuffer (rfbMarkRectAsModified)
   and by rfbDoCopyRect, every scaled screen that has users is the box filter of the framebuffer
   (Conv), the reference counts are the numbers of users (RefInv) and no two screens have the same
   size.  True-colour screens, the tree (zero_fix = true, repaired block grid, refresh after a copy). *)
Require Import ZArith List Bool Lia.
From LV Require Import Scale.ScaleQ Scale.ScaleDefs Scale.ScaleProofs Scale.ScaleCopy Cursor.CursorProofs.
Import ListNotations.
Local Open Scope Z_scope.

Definition size_of (s : sscreen) : Z * Z := (ssw s, ssh s).
Definition sizes (st : sstate) : list (Z * Z) := map size_of (screens st).
Definition Wm (st : sstate) : Z := ssw (mainscr st).
Definition Hm (st : sstate) : Z := ssh (mainscr st).

(* scaled screen s is the box filter of the framebuffer of st *)
Definition ScrConv (fmt : pixfmt) (st : sstate) (s : sscreen) : Prop :=
  Conv fmt (ssfb (mainscr st)) (Wm st) (Hm st) (ssw s) (ssh s) (ssfb s).

(* every pixel of the scaled screen exists *)
Definition Full (s : sscreen) : Prop :=
  forall X Y, 0 <= X < ssw s -> 0 <= Y < ssh s -> exists p, fb_get (ssfb s) X Y = Some p.

Definition ChainOK (fmt : pixfmt) (st : sstate) : Prop :=
  forall s, In s (chain st) -> 1 <= ssw s /\ 1 <= ssh s /\ Full s /\ (0 < ssref s -> ScrConv fmt st s).

Definition HInv (fmt : pixfmt) (st : sstate) : Prop :=
  RefInv st /\ NoDup (sizes st) /\ ChainOK fmt st /\ 1 <= Wm st /\ 1 <= Hm st.

(* ------------------------------------------------------------------ generalities *)
Lemma nodup_map_inj : forall (A B : Type) (f : A -> B) (l : list A) a b,
  NoDup (map f l) -> In a l -> In b l -> f a = f b -> a = b.
Proof.
  intros A B f l. induction l as [|x t IH]; intros a b N Ia Ib E; [destruct Ia|].
  cbn in N. inversion N as [|? ? Nx Nt]; subst.
  destruct Ia as [Ia|Ia]; destruct Ib as [Ib|Ib]; subst.
  - reflexivity.
  - exfalso. apply Nx. rewrite E. apply in_map. exact Ib.
  - exfalso. apply Nx. rewrite <- E. apply in_map. exact Ia.
  - apply IH; auto.
Qed.

Lemma same_size_iff : forall w h s, same_size w h s = true <-> size_of s = (w, h).
Proof.
  intros w h s. unfold same_size, size_of. rewrite andb_true_iff, !Z.eqb_eq. split.
  - intros [A B]. congruence.
  - intro E. inversion E. auto.
Qed.

Lemma meta_sizes : forall l l', map meta l = map meta l' -> map size_of l = map size_of l'.
Proof.
  induction l as [|a t IH]; intros [|b t'] E; cbn in E; try discriminate; [reflexivity|].
  inversion E as [[A B C D]]. cbn. unfold size_of at 1 3. rewrite A, B. f_equal. apply IH. exact D.
Qed.

Lemma refinv_meta : forall st st', map meta (screens st') = map meta (screens st) -> clients st' = clients st ->
  RefInv st -> RefInv st'.
Proof.
  intros st st' M C [R Hs]. split.
  - intros w h. rewrite (rc_of_meta _ _ _ _ M), C. apply R.
  - intros c Hin Al. unfold has_size. rewrite (exists_meta _ _ _ _ M). rewrite C in Hin. apply Hs; auto.
Qed.

(* ------------------------------------------------------------------ bump *)
Lemma bump_list_sizes : forall w h d l done, map size_of (bump_list w h d l done) = map size_of l.
Proof.
  intros w h d l. induction l as [|s t IH]; intros done; cbn [bump_list map]; [reflexivity|].
  destruct (negb done && same_size w h s); cbn [map]; rewrite IH; reflexivity.
Qed.

Lemma bump_list_In : forall w h d l done s', In s' (bump_list w h d l done) ->
  exists s, In s l /\ ssw s' = ssw s /\ ssh s' = ssh s /\ ssfb s' = ssfb s /\
            (ssref s' = ssref s \/ (ssref s' = ssref s + d /\ same_size w h s = true)).
Proof.
  intros w h d l. induction l as [|s t IH]; intros done s' H; cbn [bump_list] in H; [destruct H|].
  destruct (negb done && same_size w h s) eqn:E.
  - destruct H as [H|H].
    + subst s'. exists s. cbn. apply andb_prop in E. destruct E as [_ E]. repeat split; auto.
    + destruct (IH _ _ H) as (s0 & I & R). exists s0. split; [right; exact I|exact R].
  - destruct H as [H|H].
    + subst s'. exists s. cbn. repeat split; auto.
    + destruct (IH _ _ H) as (s0 & I & R). exists s0. split; [right; exact I|exact R].
Qed.

Lemma bump_main : forall w h d st,
  ssw (mainscr (bump w h d st)) = ssw (mainscr st) /\ ssh (mainscr (bump w h d st)) = ssh (mainscr st) /\
  ssfb (mainscr (bump w h d st)) = ssfb (mainscr st).
Proof. intros. unfold bump. destruct (same_size w h (mainscr st)); cbn; auto. Qed.

Lemma bump_sizes : forall w h d st, sizes (bump w h d st) = sizes st.
Proof. intros. unfold sizes. destruct (bump_screens w h d st) as [E _]. rewrite E. apply bump_list_sizes. Qed.

Lemma bump_chain_In : forall w h d st s', In s' (chain (bump w h d st)) ->
  exists s, In s (chain st) /\ ssw s' = ssw s /\ ssh s' = ssh s /\ ssfb s' = ssfb s /\
            (ssref s' = ssref s \/ (ssref s' = ssref s + d /\ same_size w h s = true)).
Proof.
  intros w h d st s' H. unfold bump in H. destruct (same_size w h (mainscr st)); cbn [chain] in H.
  - exists s'. repeat split; auto.
  - change ((fix go (l : list sscreen) (done : bool) : list sscreen :=
               match l with
               | [] => []
               | s :: t => if negb done && same_size w h s
                           then mkss (ssw s) (ssh s) (ssref s + d) (ssfb s) :: go t true
                           else s :: go t done
               end) (chain st) false) with (bump_list w h d (chain st) false) in H.
    apply (bump_list_In _ _ _ _ _ _ H).
Qed.

Lemma scrconv_transfer : forall fmt st st' s s',
  ssw (mainscr st') = ssw (mainscr st) -> ssh (mainscr st') = ssh (mainscr st) ->
  ssfb (mainscr st') = ssfb (mainscr st) ->
  ssw s' = ssw s -> ssh s' = ssh s -> ssfb s' = ssfb s ->
  ScrConv fmt st s -> ScrConv fmt st' s'.
Proof.
  intros fmt st st' s s' A B C D E F H. unfold ScrConv, Wm, Hm in *. rewrite A, B, C, D, E, F. exact H.
Qed.

(* ------------------------------------------------------------------ refresh *)
Lemma refresh_chain : forall tc fmt g w h st st', refresh tc fmt g w h st = Some st' ->
  mainscr st' = mainscr st /\ clients st' = clients st /\
  ((chain st' = chain st /\
    (same_size w h (mainscr st) = true \/ forall s, In s (chain st) -> same_size w h s = false)) \/
   (same_size w h (mainscr st) = false /\
    exists pre s f t, chain st = pre ++ s :: t /\ same_size w h s = true /\
      update_rect tc fmt g (ssfb (mainscr st)) (ssfb s) = Some f /\
      chain st' = pre ++ mkss (ssw s) (ssh s) (ssref s) f :: t)).
Proof.
  intros tc fmt g w h st st' H. unfold refresh in H.
  destruct (same_size w h (mainscr st)) eqn:Em; [inversion H; subst; auto 6|].
  assert (G : forall l pre,
    (fix go (pre l : list sscreen) : option sstate :=
       match l with
       | [] => Some st
       | s :: t => if same_size w h s
                   then match update_rect tc fmt g (ssfb (mainscr st)) (ssfb s) with
                        | None => None
                        | Some f => Some (mkst (mainscr st) (rev_append pre (mkss (ssw s) (ssh s) (ssref s) f :: t)) (clients st))
                        end
                   else go (s :: pre) t
       end) pre l = Some st' ->
    chain st = rev pre ++ l -> (forall x, In x pre -> same_size w h x = false) ->
    mainscr st' = mainscr st /\ clients st' = clients st /\
    ((chain st' = chain st /\ (false = true \/ forall s, In s (chain st) -> same_size w h s = false)) \/
     (false = false /\
      exists pre s f t, chain st = pre ++ s :: t /\ same_size w h s = true /\
        update_rect tc fmt g (ssfb (mainscr st)) (ssfb s) = Some f /\
        chain st' = pre ++ mkss (ssw s) (ssh s) (ssref s) f :: t))).
  { induction l as [|s t IH]; intros pre Hg Hc Hp.
    - inversion Hg; subst. split; [reflexivity|]. split; [reflexivity|]. left. split; [reflexivity|]. right.
      intros s Hs. rewrite Hc, app_nil_r in Hs. apply Hp. apply in_rev. exact Hs.
    - destruct (same_size w h s) eqn:Es.
      + destruct (update_rect tc fmt g (ssfb (mainscr st)) (ssfb s)) as [f|] eqn:U; [|discriminate].
        inversion Hg; subst. cbn [mainscr chain clients]. split; [reflexivity|]. split; [reflexivity|]. right.
        split; [reflexivity|]. exists (rev pre), s, f, t. rewrite rev_append_rev. auto.
      + apply (IH (s :: pre) Hg).
        * rewrite Hc. cbn [rev]. rewrite <- app_assoc. reflexivity.
        * intros x [Hx|Hx]; [subst; exact Es|apply Hp; exact Hx]. }
  apply (G (chain st) [] H); [reflexivity|intros x []].
Qed.

(* a refresh of the whole screen: the result is the box filter whatever the scaled screen held *)
Lemma full_refresh_conv : forall fmt g src dst dst' W H w' h',
  1 <= w' -> 1 <= W -> 1 <= h' -> 1 <= H ->
  geom_ok g W H w' h' 0 0 W H ->
  update_rect true fmt g src dst = Some dst' ->
  (forall X Y, 0 <= X < w' -> 0 <= Y < h' -> exists p, fb_get dst X Y = Some p) ->
  Conv fmt src W H w' h' dst'.
Proof.
  intros fmt g src dst dst' W H w' h' Hw HW Hh HH
         (Ax & Ay & X0 & W0 & X1 & Y0 & H0 & Y1 & Lx & Rx & Ly & Ry & Ox & Oy) U Fu.
  assert (gx1 g = 0) by nia. assert (gy1 g = 0) by nia.
  assert (gw1 g = w') by nia. assert (gh1 g = h') by nia.
  destruct (update_rect_spec _ _ _ _ _ _ W0 H0 U) as (_ & G & _).
  intros X Y HX HY. rewrite G.
  destruct (Fu X Y HX HY) as [p Ep]. rewrite Ep. f_equal.
  assert (B : in_box (gx1 g) (gy1 g) (gw1 g) (gh1 g) X Y = true).
  { unfold in_box. rewrite !andb_true_iff, !Z.leb_le, !Z.ltb_lt. lia. }
  rewrite B.
  unfold avg_px, ideal_px, idx_or0. rewrite (Ox (X - gx1 g)) by lia. rewrite (Oy (Y - gy1 g)) by lia.
  rewrite Ax, Ay. replace (gx1 g + (X - gx1 g)) with X by lia. replace (gy1 g + (Y - gy1 g)) with Y by lia.
  reflexivity.
Qed.

Lemma update_rect_full : forall tc fmt g src s f,
  0 <= gw1 g -> 0 <= gh1 g -> Full s -> update_rect tc fmt g src (ssfb s) = Some f ->
  Full (mkss (ssw s) (ssh s) (ssref s) f).
Proof.
  intros tc fmt g src s f W0 H0 Fu U. destruct (update_rect_spec _ _ _ _ _ _ W0 H0 U) as (_ & G & _).
  intros X Y HX HY. cbn [ssw ssh ssfb] in *. rewrite G. destruct (Fu X Y HX HY) as [p Ep]. rewrite Ep. eauto.
Qed.

Lemma blank_full : forall w h r, Full (mkss w h r (blank_fb w h)).
Proof.
  intros w h r X Y HX HY. cbn [ssw ssh ssfb] in *. exists 0. unfold fb_get, blank_fb, zidx. cbn [rows].
  destruct (Z.ltb_spec Y 0); [lia|]. rewrite nth_error_repeat by lia.
  destruct (Z.ltb_spec X 0); [lia|]. rewrite nth_error_repeat by lia. reflexivity.
Qed.

(* after rfbScalingSetup's refresh: used screens AND the screens of the requested size converge *)
Definition QOK (fmt : pixfmt) (w h : Z) (st : sstate) : Prop :=
  forall s, In s (chain st) -> 1 <= ssw s /\ 1 <= ssh s /\ Full s /\
                               ((0 < ssref s \/ same_size w h s = true) -> ScrConv fmt st s).

Lemma QOK_ChainOK : forall fmt w h st, QOK fmt w h st -> ChainOK fmt st.
Proof. intros fmt w h st Q s Hs. destruct (Q s Hs) as (A & B & C & D). repeat split; auto. Qed.

Lemma main_not_in_chain : forall st s w h, NoDup (sizes st) -> In s (chain st) ->
  same_size w h (mainscr st) = true -> same_size w h s = true -> False.
Proof.
  intros st s w h N I Em Es. unfold sizes, screens in N. cbn [map] in N. inversion N as [|? ? Nx _]; subst.
  apply Nx. apply same_size_iff in Em. apply same_size_iff in Es. rewrite Em, <- Es. apply in_map. exact I.
Qed.

Lemma refresh_Q : forall fmt g w h st st',
  ChainOK fmt st -> NoDup (sizes st) -> 1 <= Wm st -> 1 <= Hm st ->
  geom_ok g (Wm st) (Hm st) w h 0 0 (Wm st) (Hm st) ->
  refresh true fmt g w h st = Some st' ->
  QOK fmt w h st' /\ map meta (screens st') = map meta (screens st) /\ mainscr st' = mainscr st /\
  clients st' = clients st.
Proof.
  intros fmt g w h st st' Ok N HW HH Gk R.
  destruct (refresh_meta _ _ _ _ _ _ _ R) as [M _].
  destruct (refresh_chain _ _ _ _ _ _ _ R) as (Em & Ec & D).
  split; [|auto].
  assert (T : forall s, ScrConv fmt st s -> ScrConv fmt st' s).
  { intros s. unfold ScrConv, Wm, Hm. rewrite Em. auto. }
  destruct D as [[Eq Why]|[Emf (pre & s0 & f & t & Ech & Es0 & U & Ech')]].
  - intros s Hs. rewrite Eq in Hs. destruct (Ok s Hs) as (A & B & C & D). repeat split; auto.
    intros [Pos|Sz]; [apply T; auto|]. exfalso. destruct Why as [Wm1|Wc].
    + eapply main_not_in_chain; eauto.
    + rewrite (Wc s Hs) in Sz. discriminate.
  - assert (I0 : In s0 (chain st)) by (rewrite Ech; apply in_or_app; right; left; reflexivity).
    destruct (Ok s0 I0) as (A0 & B0 & C0 & _).
    assert (Sz0 : ssw s0 = w /\ ssh s0 = h).
    { apply same_size_iff in Es0. unfold size_of in Es0. inversion Es0. auto. }
    destruct Sz0 as [Sw Sh].
    assert (G0 : 0 <= gw1 g /\ 0 <= gh1 g) by (destruct Gk as (_ & _ & _ & ? & _ & _ & ? & _); auto).
    assert (Uniq : forall s, In s (pre ++ t) -> same_size w h s = true -> False).
    { intros s Hs Es. unfold sizes, screens in N. cbn [map] in N. inversion N as [|? ? _ Nc]; subst.
      rewrite Ech, map_app in Nc. cbn [map] in Nc. apply NoDup_remove_2 in Nc. apply Nc.
      apply same_size_iff in Es. apply same_size_iff in Es0. rewrite Es0, <- Es, <- map_app. apply in_map. exact Hs. }
    intros s Hs. rewrite Ech' in Hs. apply in_app_or in Hs. destruct Hs as [Hs|[Hs|Hs]].
    + assert (I : In s (chain st)) by (rewrite Ech; apply in_or_app; left; exact Hs).
      destruct (Ok s I) as (A & B & C & D). repeat split; auto. intros [Pos|Sz]; [apply T; auto|].
      exfalso. apply (Uniq s); [apply in_or_app; left; exact Hs|exact Sz].
    + subst s. cbn [ssw ssh ssref ssfb]. repeat split; auto.
      * apply (update_rect_full true fmt g (ssfb (mainscr st)) s0 f); tauto.
      * intros _. unfold ScrConv, Wm, Hm. rewrite Em. cbn [ssw ssh ssfb]. rewrite Sw, Sh.
        apply (full_refresh_conv fmt g (ssfb (mainscr st)) (ssfb s0) f); auto; try lia.
        rewrite <- Sw, <- Sh. exact C0.
    + assert (I : In s (chain st)) by (rewrite Ech; apply in_or_app; right; right; exact Hs).
      destruct (Ok s I) as (A & B & C & D). repeat split; auto. intros [Pos|Sz]; [apply T; auto|].
      exfalso. apply (Uniq s); [apply in_or_app; right; exact Hs|exact Sz].
Qed.

(* the two reference-count changes and the client record at the end of rfbScalingSetup *)
Lemma finish_setup : forall fmt w h st3 wo ho k c,
  QOK fmt w h st3 ->
  ChainOK fmt (mkst (mainscr (bump w h 1 (bump wo ho (-1) st3))) (chain (bump w h 1 (bump wo ho (-1) st3)))
                    (set_client (clients (bump w h 1 (bump wo ho (-1) st3))) k c)).
Proof.
  intros fmt w h st3 wo ho k c Q s' Hs'. cbn [chain] in Hs'.
  destruct (bump_chain_In _ _ _ _ _ Hs') as (s1 & I1 & W1 & H1 & F1 & R1).
  destruct (bump_chain_In _ _ _ _ _ I1) as (s & I & W0 & H0 & F0 & R0).
  destruct (Q s I) as (A & B & C & D).
  destruct (bump_main w h 1 (bump wo ho (-1) st3)) as (M1 & M2 & M3).
  destruct (bump_main wo ho (-1) st3) as (N1 & N2 & N3).
  split; [lia|]. split; [lia|]. split.
  - intros X Y HX HY. rewrite F1, F0. apply C; lia.
  - intros Pos. apply (scrconv_transfer fmt st3 _ s s'); cbn [mainscr]; try congruence.
    apply D. destruct R1 as [R1|[R1 S1]].
    + destruct R0 as [R0|[R0 _]]; left; lia.
    + right. unfold same_size in *. rewrite <- W0, <- H0. exact S1.
Qed.

Lemma finish_sizes : forall w h st3 wo ho k c,
  sizes (mkst (mainscr (bump w h 1 (bump wo ho (-1) st3))) (chain (bump w h 1 (bump wo ho (-1) st3)))
              (set_client (clients (bump w h 1 (bump wo ho (-1) st3))) k c)) = sizes st3.
Proof.
  intros. unfold sizes at 1, screens. cbn [mainscr chain]. fold (screens (bump w h 1 (bump wo ho (-1) st3))).
  fold (sizes (bump w h 1 (bump wo ho (-1) st3))). rewrite !bump_sizes. reflexivity.
Qed.

(* a screen in use found by rfbScalingFind is already converged *)
Lemma found_in_use_Q : forall fmt w h st fs,
  ChainOK fmt st -> NoDup (sizes st) -> find_scaled w h st = Some fs -> 1 <= ssref fs -> QOK fmt w h st.
Proof.
  intros fmt w h st fs Ok N Ef Rc s Hs. destruct (Ok s Hs) as (A & B & C & D). repeat split; auto.
  intros [Pos|Sz]; [auto|]. unfold find_scaled in Ef.
  destruct (same_size w h (mainscr st)) eqn:Em; [exfalso; eapply main_not_in_chain; eauto|].
  apply find_some in Ef. destruct Ef as [If Sf].
  assert (s = fs).
  { unfold sizes, screens in N. cbn [map] in N. inversion N as [|? ? _ Nc]; subst.
    apply (nodup_map_inj _ _ size_of (chain st)); auto.
    apply same_size_iff in Sz. apply same_size_iff in Sf. congruence. }
  subst s. apply D. lia.
Qed.

Theorem hinv_scaling_setup : forall fmt g st k cl w h st',
  HInv fmt st -> nth_error (clients st) k = Some cl -> calive cl = true -> 0 <= w -> 0 <= h ->
  geom_ok g (Wm st) (Hm st) w h 0 0 (Wm st) (Hm st) ->
  scaling_setup true true fmt g st k w h = Some st' -> HInv fmt st'.
Proof.
  intros fmt g st k cl w h st' (R & N & Ok & HW & HH) Ek Al W0 H0 Gk H.
  destruct (refinv_scaling_setup true true fmt g st k cl w h st' R Ek Al H) as (R' & _).
  split; [exact R'|]. clear R'.
  unfold scaling_setup in H. rewrite Ek in H.
  destruct (find_scaled w h st) as [fs|] eqn:Ef.
  - cbn beta iota in H. rewrite Ef in H.
    assert (S3 : exists st3, (if ssref fs <? 1 then refresh true fmt g w h st else Some st) = Some st3 /\
                 QOK fmt w h st3 /\ sizes st3 = sizes st /\ mainscr st3 = mainscr st).
    { destruct (ssref fs <? 1) eqn:Rc.
      - destruct (refresh true fmt g w h st) as [st3|] eqn:E3; [|discriminate].
        destruct (refresh_Q fmt g w h st st3 Ok N HW HH Gk E3) as (Q & M & Em & _).
        exists st3. split; [reflexivity|]. split; [exact Q|]. split; [apply meta_sizes; exact M|exact Em].
      - exists st. split; [reflexivity|]. split; [|auto]. apply Z.ltb_ge in Rc. eapply found_in_use_Q; eauto. }
    destruct S3 as (st3 & E3 & Q & Sz & Em). rewrite E3 in H. inversion H; subst st'; clear H.
    split; [rewrite finish_sizes, Sz; exact N|]. split; [apply finish_setup; exact Q|].
    unfold Wm, Hm in *. cbn [mainscr].
    destruct (bump_main w h 1 (bump (ckw cl) (ckh cl) (-1) st3)) as (M1 & M2 & _).
    destruct (bump_main (ckw cl) (ckh cl) (-1) st3) as (N1 & N2 & _). rewrite M1, M2, N1, N2, Em. auto.
  - cbn beta iota in H.
    destruct ((h =? 0) || (true && (w =? 0))) eqn:Refuse.
    + inversion H; subst st'. auto.
    + apply orb_false_elim in Refuse. destruct Refuse as [Rh Rw]. cbn [andb] in Rw.
      apply Z.eqb_neq in Rh, Rw.
      set (fresh := mkst (mainscr st) (mkss w h 0 (blank_fb w h) :: chain st) (clients st)) in *.
      assert (Nf : NoDup (sizes fresh)).
      { unfold sizes, screens, fresh. cbn [mainscr chain map]. unfold sizes, screens in N. cbn [map] in N.
        inversion N as [|? ? Nx Nc]; subst. unfold find_scaled in Ef.
        destruct (same_size w h (mainscr st)) eqn:Em; [discriminate|].
        assert (Nin : ~ In (w, h) (map size_of (chain st))).
        { intro I. apply in_map_iff in I. destruct I as (s & Es & Is).
          apply (find_none _ _ Ef) in Is. apply same_size_iff in Es. congruence. }
        constructor.
        - intros [I|I]; [|exact (Nx I)]. unfold size_of at 1 in I. cbn [ssw ssh] in I.
          symmetry in I. apply same_size_iff in I. congruence.
        - constructor; [exact Nin|exact Nc]. }
      assert (Okf : ChainOK fmt fresh).
      { intros s [Hs|Hs].
        - subst s. cbn [ssw ssh ssref]. split; [lia|]. split; [lia|]. split; [apply blank_full|lia].
        - apply (Ok s Hs). }
      destruct (refresh true fmt g w h fresh) as [st2|] eqn:E2; [|discriminate]. cbn beta iota in H.
      destruct (refresh_Q fmt g w h fresh st2 Okf Nf HW HH Gk E2) as (Q2 & M2 & Em2 & _).
      assert (S3 : exists st3,
                 (if (match find_scaled w h st2 with Some s => ssref s | None => 0 end) <? 1
                  then refresh true fmt g w h st2 else Some st2) = Some st3 /\
                 QOK fmt w h st3 /\ sizes st3 = sizes fresh /\ mainscr st3 = mainscr st).
      { destruct ((match find_scaled w h st2 with Some s => ssref s | None => 0 end) <? 1).
        - destruct (refresh true fmt g w h st2) as [st3|] eqn:E3; [|discriminate].
          assert (N2 : NoDup (sizes st2)) by (unfold sizes; rewrite (meta_sizes _ _ M2); exact Nf).
          assert (G2 : geom_ok g (Wm st2) (Hm st2) w h 0 0 (Wm st2) (Hm st2)) by (unfold Wm, Hm; rewrite Em2; exact Gk).
          assert (HW2 : 1 <= Wm st2) by (unfold Wm; rewrite Em2; exact HW).
          assert (HH2 : 1 <= Hm st2) by (unfold Hm; rewrite Em2; exact HH).
          destruct (refresh_Q fmt g w h st2 st3 (QOK_ChainOK _ _ _ _ Q2) N2 HW2 HH2 G2 E3) as (Q3 & M3 & Em3 & _).
          exists st3. split; [reflexivity|]. split; [exact Q3|]. split.
          + unfold sizes. rewrite (meta_sizes _ _ M3), (meta_sizes _ _ M2). reflexivity.
          + rewrite Em3, Em2. reflexivity.
        - exists st2. split; [reflexivity|]. split; [exact Q2|]. split.
          + unfold sizes. rewrite (meta_sizes _ _ M2). reflexivity.
          + rewrite Em2. reflexivity. }
      destruct S3 as (st3 & E3 & Q & Sz & Em). rewrite E3 in H. inversion H; subst st'; clear H.
      split; [rewrite finish_sizes, Sz; exact Nf|]. split; [apply finish_setup; exact Q|].
      unfold Wm, Hm in *. cbn [mainscr].
      destruct (bump_main w h 1 (bump (ckw cl) (ckh cl) (-1) st3)) as (M1 & M2' & _).
      destruct (bump_main (ckw cl) (ckh cl) (-1) st3) as (N1 & N2 & _). rewrite M1, M2', N1, N2, Em. auto.
Qed.

(* ------------------------------------------------------------------ join, leave, initial state *)
Theorem hinv_init : forall fmt W H f, 1 <= W -> 1 <= H -> HInv fmt (mkst (mkss W H 0 f) [] []).
Proof.
  intros fmt W H f HW HH. split; [|split; [|split; [|split]]].
  - split.
    + intros w h. cbn. destruct (same_size w h _); reflexivity.
    + intros c [].
  - unfold sizes, screens. cbn. constructor; [intros []|constructor].
  - intros s [].
  - exact HW.
  - exact HH.
Qed.

Lemma chainok_after_bump : forall fmt w h d st cls,
  d = 1 /\ same_size w h (mainscr st) = true \/ d = -1 ->
  ChainOK fmt st -> ChainOK fmt (mkst (mainscr (bump w h d st)) (chain (bump w h d st)) cls).
Proof.
  intros fmt w h d st cls Hd Ok s' Hs'. cbn [chain] in Hs'.
  destruct (bump_main w h d st) as (M1 & M2 & M3).
  destruct Hd as [[Hd Em]|Hd].
  - unfold bump in *. rewrite Em in *. cbn [chain mainscr] in *. destruct (Ok s' Hs') as (A & B & C & D).
    repeat split; auto.
    all: try (intros Pos; apply (scrconv_transfer fmt st _ s' s'); cbn [mainscr]; auto).
  - destruct (bump_chain_In _ _ _ _ _ Hs') as (s & I & W0 & H0 & F0 & R0).
    destruct (Ok s I) as (A & B & C & D). split; [lia|]. split; [lia|]. split.
    + intros X Y HX HY. rewrite F0. apply C; lia.
    + intros Pos. apply (scrconv_transfer fmt st _ s s'); cbn [mainscr]; try congruence.
      apply D. destruct R0 as [R0|[R0 _]]; lia.
Qed.

Theorem hinv_client_new : forall fmt st, HInv fmt st -> HInv fmt (client_new st).
Proof.
  intros fmt st (R & N & Ok & HW & HH). split; [apply refinv_client_new; exact R|].
  unfold client_new. set (w := ssw (mainscr st)). set (h := ssh (mainscr st)).
  destruct (bump_main w h 1 st) as (M1 & M2 & M3).
  split; [|split; [|split]].
  - unfold sizes at 1, screens. cbn [mainscr chain]. fold (screens (bump w h 1 st)). fold (sizes (bump w h 1 st)).
    rewrite bump_sizes. exact N.
  - apply chainok_after_bump; [|exact Ok]. left. split; [reflexivity|]. unfold same_size, w, h. rewrite !Z.eqb_refl. reflexivity.
  - unfold Wm. cbn [mainscr]. rewrite M1. exact HW.
  - unfold Hm. cbn [mainscr]. rewrite M2. exact HH.
Qed.

Theorem hinv_client_gone : forall fmt st k, HInv fmt st -> HInv fmt (client_gone st k).
Proof.
  intros fmt st k (R & N & Ok & HW & HH). split; [apply refinv_client_gone; exact R|].
  unfold client_gone. destruct (nth_error (clients st) k) as [cl|]; [|auto].
  destruct (calive cl); [|auto].
  destruct (bump_main (ckw cl) (ckh cl) (-1) st) as (M1 & M2 & M3).
  split; [|split; [|split]].
  - unfold sizes at 1, screens. cbn [mainscr chain]. fold (screens (bump (ckw cl) (ckh cl) (-1) st)).
    fold (sizes (bump (ckw cl) (ckh cl) (-1) st)). rewrite bump_sizes. exact N.
  - apply chainok_after_bump; [right; reflexivity|exact Ok].
  - unfold Wm. cbn [mainscr]. rewrite M1. exact HW.
  - unfold Hm. cbn [mainscr]. rewrite M2. exact HH.
Qed.

(* ------------------------------------------------------------------ modification of the framebuffer *)
(* the application (or rfbDoCopyRect) changes pixels inside [x,x+w) x [y,y+h), then
   rfbMarkRectAsModified / rfbScheduleCopyRegion -> rfbScaledScreenUpdate *)
Definition set_main_fb (st : sstate) (f : fb) : sstate :=
  mkst (mkss (ssw (mainscr st)) (ssh (mainscr st)) (ssref (mainscr st)) f) (chain st) (clients st).

Definition only_in_rect (src src' : fb) (x y w h : Z) : Prop :=
  forall s t, ~ (x <= s < x + w /\ y <= t < y + h) -> fb_get src' s t = fb_get src s t.

Lemma refresh_all_conv : forall fmt src src' W H x y w h l geoms c,
  0 <= W -> 0 <= H ->
  Forall2 (fun s g => 0 < ssref s -> geom_ok g W H (ssw s) (ssh s) x y w h) l geoms ->
  (forall s, In s l -> 1 <= ssw s /\ 1 <= ssh s /\ Full s /\
                       (0 < ssref s -> Conv fmt src W H (ssw s) (ssh s) (ssfb s))) ->
  only_in_rect src src' x y w h ->
  refresh_all true fmt src' l geoms = Some c ->
  map meta c = map meta l /\
  forall s', In s' c -> 1 <= ssw s' /\ 1 <= ssh s' /\ Full s' /\
                        (0 < ssref s' -> Conv fmt src' W H (ssw s') (ssh s') (ssfb s')).
Proof.
  intros fmt src src' W H x y w h l geoms c HW HH F. revert c.
  induction F as [|s g t gt Pg Ft IH]; intros c Ok Same R; cbn [refresh_all] in R.
  - inversion R; subst. split; [reflexivity|intros s' []].
  - destruct (if 0 <? ssref s then update_rect true fmt g src' (ssfb s) else Some (ssfb s)) as [f|] eqn:E; [|discriminate].
    destruct (refresh_all true fmt src' t gt) as [t'|] eqn:Et; [|discriminate]. inversion R; subst c; clear R.
    destruct (IH t' (fun s0 Hs0 => Ok s0 (or_intror Hs0)) Same eq_refl) as [Mt Ct].
    split; [cbn [map]; rewrite Mt; reflexivity|].
    destruct (Ok s (or_introl eq_refl)) as (A & B & C & D).
    intros s' [Hs'|Hs']; [|apply Ct; exact Hs'].
    subst s'. cbn [ssw ssh ssref ssfb]. split; [exact A|]. split; [exact B|].
    destruct (Z.ltb_spec 0 (ssref s)) as [Pos|Neg].
    + specialize (Pg Pos).
      assert (G0 : 0 <= gw1 g /\ 0 <= gh1 g) by (destruct Pg as (_ & _ & _ & ? & _ & _ & ? & _); auto).
      split.
      * apply (update_rect_full true fmt g src' s f); tauto.
      * intros _. apply (converges_step fmt g src src' (ssfb s) f W H (ssw s) (ssh s) x y w h); auto.
    + inversion E; subst f. split; [destruct s; exact C|]. intros P. lia.
Qed.

(* rfbMarkRectAsModified after the pixels inside the rectangle were changed (fill, or the moved pixels of
   rfbDoCopyRect: notes/fix_C17_3.diff = /repo b141ef8 refreshes the destination the same way) *)
Theorem hinv_modify : forall fmt st src' x y w h geoms st',
  HInv fmt st ->
  only_in_rect (ssfb (mainscr st)) src' x y w h ->
  Forall2 (fun s g => 0 < ssref s -> geom_ok g (Wm st) (Hm st) (ssw s) (ssh s) x y w h) (chain st) geoms ->
  mark_modified true fmt geoms (set_main_fb st src') = Some st' ->
  HInv fmt st' /\ ssfb (mainscr st') = src'.
Proof.
  intros fmt st src' x y w h geoms st' (R & N & Ok & HW & HH) Same F M.
  unfold mark_modified, set_main_fb in M. cbn [mainscr chain clients ssfb] in M.
  destruct (refresh_all true fmt src' (chain st) geoms) as [c|] eqn:E; [|discriminate].
  inversion M; subst st'; clear M.
  destruct (refresh_all_conv fmt (ssfb (mainscr st)) src' (Wm st) (Hm st) x y w h (chain st) geoms c
              ltac:(lia) ltac:(lia) F Ok Same E) as [Mc Cc].
  split; [|reflexivity].
  assert (Ms : map meta (screens (mkst (mkss (ssw (mainscr st)) (ssh (mainscr st)) (ssref (mainscr st)) src') c (clients st)))
               = map meta (screens st)).
  { unfold screens. cbn [mainscr chain map]. rewrite Mc. reflexivity. }
  split; [apply (refinv_meta st); auto|].
  split; [unfold sizes; rewrite (meta_sizes _ _ Ms); exact N|].
  split; [|unfold Wm, Hm; cbn [mainscr ssw ssh]; auto].
  intros s' Hs'. cbn [chain] in Hs'. apply Cc. exact Hs'.
Qed.

(* ------------------------------------------------------------------ rfbDoCopyRect *)
(* the pixels after the copy (ScaleCopy.copy_pixels, row by row): pixel (s,t) of a W-wide framebuffer is
   entry t*W+s; outside the destination rectangle nothing changes, inside it is the old pixel (s-dx,t-dy) *)
Theorem copy_pixels_spec : forall f x1 y1 x2 y2 dx dy pix,
  0 <= fw f -> 0 <= fh f -> copy_pixels f x1 y1 x2 y2 dx dy = Some pix ->
  Z.of_nat (length pix) = fh f * fw f /\
  forall s t, 0 <= s < fw f -> 0 <= t < fh f ->
    zidx pix (t * fw f + s) = if in_rect x1 y1 x2 y2 s t then fb_get f (s - dx) (t - dy) else fb_get f s t.
Proof.
  intros f x1 y1 x2 y2 dx dy pix Hw Hh C. unfold copy_pixels in C.
  destruct (collect2_zidx _ _ _ _ Hh Hw C) as [L N]. split; [exact L|].
  intros s t Hs Ht. rewrite (N s t Hs Ht). reflexivity.
Qed.

(* a framebuffer f' that holds these pixels differs from f only inside the destination rectangle *)
Theorem copy_only_in_rect : forall f f' x1 y1 x2 y2 dx dy pix,
  0 <= fw f -> 0 <= fh f -> copy_pixels f x1 y1 x2 y2 dx dy = Some pix ->
  (forall s t, fb_get f' s t = if (0 <=? s) && (s <? fw f) && (0 <=? t) && (t <? fh f)
                               then zidx pix (t * fw f + s) else fb_get f s t) ->
  only_in_rect f f' x1 y1 (x2 - x1) (y2 - y1).
Proof.
  intros f f' x1 y1 x2 y2 dx dy pix Hw Hh C Hf s t Out. rewrite Hf.
  destruct ((0 <=? s) && (s <? fw f) && (0 <=? t) && (t <? fh f)) eqn:In; [|reflexivity].
  rewrite !andb_true_iff, !Z.leb_le, !Z.ltb_lt in In.
  destruct (copy_pixels_spec _ _ _ _ _ _ _ _ Hw Hh C) as [_ N]. rewrite N by lia.
  destruct (in_rect x1 y1 x2 y2 s t) eqn:R; [|reflexivity].
  exfalso. apply Out. unfold in_rect in R. rewrite !andb_true_iff, !Z.leb_le, !Z.ltb_lt in R. lia.
Qed.

(* ------------------------------------------------------------------ every reachable state *)
(* one operation of the library on a true-colour screen; the geometries are those the correction and
   ScaleX/ScaleY must deliver (geom_ok: C17_correction_inside/_covers, origins on the block grid) *)
Inductive step (fmt : pixfmt) : sstate -> sstate -> Prop :=
| step_join : forall st, step fmt st (client_new st)
| step_leave : forall st k, step fmt st (client_gone st k)
| step_scale : forall st k cl w h g st',
    nth_error (clients st) k = Some cl -> calive cl = true -> 0 <= w -> 0 <= h ->
    geom_ok g (Wm st) (Hm st) w h 0 0 (Wm st) (Hm st) ->
    scaling_setup true true fmt g st k w h = Some st' -> step fmt st st'
| step_modify : forall st src' x y w h geoms st',     (* rfbMarkRectAsModified; rfbDoCopyRect (copy_only_in_rect) *)
    only_in_rect (ssfb (mainscr st)) src' x y w h ->
    Forall2 (fun s g => 0 < ssref s -> geom_ok g (Wm st) (Hm st) (ssw s) (ssh s) x y w h) (chain st) geoms ->
    mark_modified true fmt geoms (set_main_fb st src') = Some st' -> step fmt st st'.

Inductive reachable (fmt : pixfmt) : sstate -> Prop :=
| reach_init : forall W H f, 1 <= W -> 1 <= H -> reachable fmt (mkst (mkss W H 0 f) [] [])
| reach_step : forall st st', reachable fmt st -> step fmt st st' -> reachable fmt st'.

Theorem hinv_step : forall fmt st st', HInv fmt st -> step fmt st st' -> HInv fmt st'.
Proof.
  intros fmt st st' I S. destruct S as [st|st k|st k cl w h g st' Ek Al W0 H0 Gk U|st src' x y w h geoms st' Same F M].
  - apply hinv_client_new; exact I.
  - apply hinv_client_gone; exact I.
  - exact (hinv_scaling_setup fmt g st k cl w h st' I Ek Al W0 H0 Gk U).
  - exact (proj1 (hinv_modify fmt st src' x y w h geoms st' I Same F M)).
Qed.

Theorem hinv_reachable : forall fmt st, reachable fmt st -> HInv fmt st.
Proof.
  intros fmt st Rch. induction Rch as [W H f HW HH|st st' _ IH S].
  - apply hinv_init; assumption.
  - eapply hinv_step; eauto.
Qed.

(* C17_converges for every reachable state: every scaled screen that has users holds, pixel by pixel, the
   box filter of the framebuffer as it is NOW; the counts are the numbers of users; sizes are unique *)
Theorem converges_reachable : forall fmt st, reachable fmt st ->
  RefInv st /\ NoDup (sizes st) /\
  forall s, In s (chain st) -> 0 < ssref s ->
    forall X Y, 0 <= X < ssw s -> 0 <= Y < ssh s ->
      fb_get (ssfb s) X Y = Some (ideal_px fmt (ssfb (mainscr st)) (Wm st) (Hm st) (ssw s) (ssh s) X Y).
Proof.
  intros fmt st Rch. destruct (hinv_reachable fmt st Rch) as (R & N & Ok & _).
  split; [exact R|]. split; [exact N|]. intros s Hs Pos. destruct (Ok s Hs) as (_ & _ & _ & C). exact (C Pos).
Qed.

(* not vacuous: 4x2 screen, a client joins and asks for factor 2 (2x1): the scaled screen is reachable, in use
   and holds the averages *)
Definition ex_fmt : pixfmt := mkfmt 1 7 7 3 0 3 6.
Definition ex_st0 : sstate := mkst (mkss 4 2 0 (mkfb 4 2 [[0; 0; 255; 255]; [0; 0; 255; 255]])) [] [].
Definition ex_g : geom := mkgeom 0 0 2 1 2 2 [0; 2] [0] [0; 2] [0].

Example reachable_nonvacuous :
  exists st', scaling_setup true true ex_fmt ex_g (client_new ex_st0) 0 2 1 = Some st' /\ reachable ex_fmt st' /\
              exists s, chain st' = [s] /\ ssref s = 1 /\ rows (ssfb s) = [[0; 255]].
Proof.
  eexists. split; [vm_compute; reflexivity|]. split.
  - apply (reach_step ex_fmt (client_new ex_st0)).
    + apply (reach_step ex_fmt ex_st0); [apply reach_init; lia|apply step_join].
    + apply (step_scale ex_fmt (client_new ex_st0) 0%nat (mkscl 4 2 false true) 2 1 ex_g);
        try (vm_compute; reflexivity); try lia.
      unfold geom_ok. repeat split; try (vm_compute; reflexivity); try (vm_compute; intro; discriminate).
      * intros i Hi. cbn [ex_g gw1] in Hi. assert (Ei : i = 0 \/ i = 1) by lia. destruct Ei as [-> | ->]; vm_compute; reflexivity.
      * intros j Hj. cbn [ex_g gh1] in Hj. assert (j = 0) by lia. subst. vm_compute. reflexivity.
  - eexists. repeat split; vm_compute; reflexivity.
Qed.
