(* C17, the integer part of the mirror model of src/libvncserver/scale.c and of the SetScale /
   PalmVNCSetScaleFactor handlers of rfbserver.c: box filter of rfbScaledScreenUpdateRect, the chain
   of scaled screens with its reference counts (rfbScalingFind / rfbScaledScreenAllocate /
   rfbScalingSetup / rfbClientConnectionGone), the resize notification (rfbSendNewScaleSize), the
   rectangle count of the Zlib/Ultra encoders on the corrected width.  The floating-point geometry
   (ScaleF.v, or its exact meaning ScaleQ.v) enters as a [geom] value.  Only definitions here. *)
From LV Require Export Cursor.CursorDefs.
From LV Require Import Gen.Consts_C17.
Local Open Scope Z_scope.

(* what rfbScaledScreenUpdateRect computes with rfbScaledCorrection and ScaleX/ScaleY before and in
   its loops: destination rectangle (x1,y1,w1,h1), block size (areaX, areaY), and for every
   destination offset i < w1 (j < h1) the source column (row) where its block starts [gsxs, gsys]
   resp. of the pixel that is copied for colour maps [gcxs, gcys].
   The tree (since /repo commit d58ea84): both = [ScaleX(x1+i)];
   before it: gsxs = [ScaleX(x1) + i*areaX], gcxs = [(x1+i)*areaX] (ScaleF.upd_geomF, F17b). *)
Record geom : Type := mkgeom { gx1 : Z; gy1 : Z; gw1 : Z; gh1 : Z; gax : Z; gay : Z;
                               gsxs : list Z; gsys : list Z; gcxs : list Z; gcys : list Z }.

(* `for (w < areaX) for (v < areaY) total += (pixel >> shift) & max` for destination offset (x,y) *)
Definition block_sum (src : fb) (g : geom) (sh mx x y : Z) : option Z :=
  match zidx (gsxs g) x, zidx (gsys g) y with
  | Some sx, Some sy =>
    iter_n (Z.to_nat (gax g)) 0 (fun w acc =>
      iter_n (Z.to_nat (gay g)) 0 (fun v acc2 =>
        match fb_get src (sx + w) (sy + v) with
        | None => None
        | Some p => Some (acc2 + Z.land (Z.shiftr p sh) mx)
        end) acc) 0
  | _, _ => None
  end.

(* one destination pixel: per-channel totals / area2, packed *)
Definition filter_px (fmt : pixfmt) (src : fb) (g : geom) (x y : Z) : option Z :=
  let area2 := gax g * gay g in
  if area2 <=? 0 then None            (* `red /= area2` with area2 = 0: SIGFPE; negative: not modelled *)
  else
    match block_sum src g (rshift fmt) (rmax fmt) x y,
          block_sum src g (gshift fmt) (gmax fmt) x y,
          block_sum src g (bshift fmt) (bmax fmt) x y with
    | Some r, Some gr, Some b =>
        Some (pixmod fmt
                (Z.lor (Z.lor (Z.shiftl (Z.land (r / area2) (rmax fmt)) (rshift fmt))
                              (Z.shiftl (Z.land (gr / area2) (gmax fmt)) (gshift fmt)))
                       (Z.shiftl (Z.land (b / area2) (bmax fmt)) (bshift fmt))))
    | _, _, _ => None
    end.

(* rfbScaledScreenUpdateRect(screen, ptr, ...) after the geometry has been computed *)
Definition update_rect (truecolour : bool) (fmt : pixfmt) (g : geom) (src dst : fb) : option fb :=
  if (gx1 g + gw1 g >? fw dst) || (gy1 g + gh1 g >? fh dst) then None   (* "ensure that we do not go out
       of bounds" would move the rectangle while dstptr stays: cannot happen after the correction's
       own clip (ScaleProofs.corr1Q_inside); error value if it ever does *)
  else if truecolour
  then paint (fun i j _ => match filter_px fmt src g i j with None => None | Some v => Some (Some v) end)
             (gx1 g) (gy1 g) (gw1 g) (gh1 g) dst
  else paint (fun i j _ => match zidx (gcxs g) i, zidx (gcys g) j with
                           | Some cx, Some cy => match fb_get src cx cy with
                                                 | None => None
                                                 | Some p => Some (Some p)
                                                 end
                           | _, _ => None
                           end)
             (gx1 g) (gy1 g) (gw1 g) (gh1 g) dst.

(* ------------------------------------------------------------------ chain of scaled screens *)
Record sscreen : Type := mkss { ssw : Z; ssh : Z; ssref : Z; ssfb : fb }.
Record sclient : Type := mkscl { ckw : Z; ckh : Z;     (* size of cl->scaledScreen *)
                                 cpalm : bool; calive : bool }.
(* mainscr = the unscaled screen (its ssref = screen->scaledScreenRefCount);
   chain = screen->scaledScreenNext ... (newest first) *)
Record sstate : Type := mkst { mainscr : sscreen; chain : list sscreen; clients : list sclient }.

Definition same_size (w h : Z) (s : sscreen) : bool := (ssw s =? w) && (ssh s =? h).

(* add d to the reference count of the screen of that size (main screen included) *)
Definition bump (w h d : Z) (st : sstate) : sstate :=
  if same_size w h (mainscr st)
  then mkst (mkss (ssw (mainscr st)) (ssh (mainscr st)) (ssref (mainscr st) + d) (ssfb (mainscr st)))
            (chain st) (clients st)
  else mkst (mainscr st)
            ((fix go (l : list sscreen) (done : bool) : list sscreen :=
                match l with
                | [] => []
                | s :: t => if negb done && same_size w h s
                            then mkss (ssw s) (ssh s) (ssref s + d) (ssfb s) :: go t true
                            else s :: go t done
                end) (chain st) false)
            (clients st).

Definition find_scaled (w h : Z) (st : sstate) : option sscreen :=
  if same_size w h (mainscr st) then Some (mainscr st) else find (same_size w h) (chain st).

Definition blank_fb (w h : Z) : fb := mkfb w h (repeat (repeat 0 (Z.to_nat w)) (Z.to_nat h)).

Fixpoint set_client (l : list sclient) (k : nat) (c : sclient) : list sclient :=
  match l, k with
  | [], _ => []
  | _ :: t, O => c :: t
  | a :: t, S m => a :: set_client t m c
  end.

(* refresh the scaled screen of that size from the main framebuffer with geometry g *)
Definition refresh (tc : bool) (fmt : pixfmt) (g : geom) (w h : Z) (st : sstate) : option sstate :=
  if same_size w h (mainscr st) then Some st       (* screen == ptr: "Nothing to do!!!" *)
  else
    (fix go (pre l : list sscreen) : option sstate :=
       match l with
       | [] => Some st
       | s :: t => if same_size w h s
                   then match update_rect tc fmt g (ssfb (mainscr st)) (ssfb s) with
                        | None => None
                        | Some f => Some (mkst (mainscr st) (rev_append pre (mkss (ssw s) (ssh s) (ssref s) f :: t))
                                               (clients st))
                        end
                   else go (s :: pre) t
       end) [] (chain st).

(* rfbScalingSetup(cl, w, h).  zero_fix = true: the tree since /repo commit 8e7b6f1 (width 0 and
   height 0 refused); false: before that commit (only height 0 refused, F2).
   gfull = geometry of the full-screen refresh of a w x h scaled screen. *)
Definition scaling_setup (zero_fix tc : bool) (fmt : pixfmt) (gfull : geom) (st : sstate) (k : nat) (w h : Z)
  : option sstate :=
  match nth_error (clients st) k with
  | None => Some st
  | Some cl =>
    let found := find_scaled w h st in
    (* rfbScaledScreenAllocate *)
    let st1 :=
      match found with
      | Some _ => Some (st, true)
      | None =>
        if (h =? 0) || (zero_fix && (w =? 0)) then Some (st, false)       (* "leaving things alone" *)
        else
          let fresh := mkst (mainscr st) (mkss w h 0 (blank_fb w h) :: chain st) (clients st) in
          match refresh tc fmt gfull w h fresh with None => None | Some s => Some (s, true) end
      end in
    match st1 with
    | None => None
    | Some (st2, false) => Some st2
    | Some (st2, true) =>
      let rc := match find_scaled w h st2 with Some s => ssref s | None => 0 end in
      match (if rc <? 1 then refresh tc fmt gfull w h st2 else Some st2) with
      | None => None
      | Some st3 =>
        let st4 := bump w h 1 (bump (ckw cl) (ckh cl) (-1) st3) in
        Some (mkst (mainscr st4) (chain st4) (set_client (clients st4) k (mkscl w h (cpalm cl) (calive cl))))
      end
    end
  end.

(* rfbNewClient / rfbClientConnectionGone *)
Definition client_new (st : sstate) : sstate :=
  let st1 := bump (ssw (mainscr st)) (ssh (mainscr st)) 1 st in
  mkst (mainscr st1) (chain st1) (clients st1 ++ [mkscl (ssw (mainscr st)) (ssh (mainscr st)) false true]).

Definition client_gone (st : sstate) (k : nat) : sstate :=
  match nth_error (clients st) k with
  | Some cl => if calive cl
               then let st1 := bump (ckw cl) (ckh cl) (-1) st in
                    mkst (mainscr st1) (chain st1) (set_client (clients st1) k (mkscl (ckw cl) (ckh cl) (cpalm cl) false))
               else st
  | None => st
  end.

(* rfbMarkRectAsModified -> rfbScaledScreenUpdate: every scaled screen with users is refreshed;
   geoms = geometry of the rectangle for each element of the chain, in chain order *)
Fixpoint refresh_all (tc : bool) (fmt : pixfmt) (src : fb) (l : list sscreen) (geoms : list geom)
  : option (list sscreen) :=
  match l, geoms with
  | [], _ => Some []
  | s :: t, g :: gt =>
    match (if 0 <? ssref s then update_rect tc fmt g src (ssfb s) else Some (ssfb s)) with
    | None => None
    | Some f => match refresh_all tc fmt src t gt with
                | None => None
                | Some t' => Some (mkss (ssw s) (ssh s) (ssref s) f :: t')
                end
    end
  | _ :: _, [] => None
  end.

Definition mark_modified (tc : bool) (fmt : pixfmt) (geoms : list geom) (st : sstate) : option sstate :=
  match refresh_all tc fmt (ssfb (mainscr st)) (chain st) geoms with
  | None => None
  | Some c => Some (mkst (mainscr st) c (clients st))
  end.

(* ------------------------------------------------------------------ wire *)
Definition byte (v : Z) : Z := v mod 256.
Definition be16 (v : Z) : list Z := [byte (v / 256); byte v].

(* rfbSendNewScaleSize *)
Definition resize_msg (palm : bool) (W H w h : Z) : list Z :=
  if palm then [msg_palm_resize_fb; 0] ++ be16 W ++ be16 H ++ be16 w ++ be16 h ++ [0; 0]
  else [msg_resize_fb; 0] ++ be16 w ++ be16 h.

(* SetScale / PalmVNCSetScaleFactor with factor n: None = the client is closed (factor 0) *)
Definition scaled_size (W H n : Z) : option (Z * Z) :=
  if n =? 0 then None else Some (Z.quot W n, Z.quot H n).

(* rectangles the Zlib / Ultra encoders announce for a w x h rectangle:
   ((h-1) / (MAX_SIZE(w) / w)) + 1, C division: None = division by zero (SIGFPE) *)
Definition split_rect_count (max_rect_size w h : Z) : option Z :=
  let mx := if w * 2 >? max_rect_size then w * 2 else max_rect_size in
  if w =? 0 then None
  else let lines := Z.quot mx w in
       if lines =? 0 then None else Some (Z.quot (h - 1) lines + 1).
