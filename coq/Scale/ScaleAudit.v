(* C17 - statements added after the independent audit (notes/audit_B.md):
   what the client is told, stated on the state AFTER rfbScalingSetup; factor 1 puts the client back
   on the unscaled screen; the block size areaX = ScaleX(1) over the doubles also where the scaled
   dimension is 1 (outside the range of C17_F_agrees_Q_on). *)
Require Import ZArith List Bool Lia.
From LV Require Import Scale.ScaleQ Scale.ScaleF Scale.ScaleDefs Scale.ScaleProofs Scale.ScaleFProofs Gen.Consts_C17.
Import ListNotations.
Local Open Scope Z_scope.

(* the resize message carries exactly the size it is built from *)
Lemma resize_msg_fields : forall palm W H w h,
  0 <= W < 65536 -> 0 <= H < 65536 -> 0 <= w < 65536 -> 0 <= h < 65536 ->
  let m := resize_msg palm W H w h in
  if palm
  then length m = Z.to_nat sz_palm_resize_fb /\ nth 0 m 0 = msg_palm_resize_fb /\
       get16 m 2 = W /\ get16 m 4 = H /\ get16 m 6 = w /\ get16 m 8 = h
  else length m = Z.to_nat sz_resize_fb /\ nth 0 m 0 = msg_resize_fb /\ get16 m 2 = w /\ get16 m 4 = h.
Proof.
  intros palm W H w h HW HH Hw Hh.
  pose proof (be16_get W HW) as GW. pose proof (be16_get H HH) as GH.
  pose proof (be16_get w Hw) as Gw. pose proof (be16_get h Hh) as Gh.
  destruct palm; cbv zeta; unfold resize_msg; cbn [app length nth get16 be16] in *; repeat split; auto.
Qed.

(* SetScale(n) / PalmVNCSetScaleFactor(n), n > 0, on the tree (zero_fix = true): rfbScalingSetup, then
   rfbSendNewScaleSize built from the client's state AFTER it (cl->scaledScreen, cl->PalmVNC).
   The client is told (W/n, H/n) and is on a screen of that size - or, when that size has a zero
   dimension, the request is refused and it is told the size it already had. *)
Theorem size_told_after_setup : forall tc fmt g st k cl W H n w h st',
  RefInv st -> nth_error (clients st) k = Some cl -> calive cl = true ->
  0 < n -> 0 <= W < 65536 -> 0 <= H < 65536 -> 0 <= ckw cl < 65536 -> 0 <= ckh cl < 65536 ->
  scaled_size W H n = Some (w, h) ->
  scaling_setup true tc fmt g st k w h = Some st' ->
  exists cl', nth_error (clients st') k = Some cl' /\ calive cl' = true /\
    ((ckw cl' = W / n /\ ckh cl' = H / n) \/ (cl' = cl /\ (W / n = 0 \/ H / n = 0))) /\
    let m := resize_msg (cpalm cl') W H (ckw cl') (ckh cl') in
    if cpalm cl'
    then length m = Z.to_nat sz_palm_resize_fb /\ nth 0 m 0 = msg_palm_resize_fb /\
         get16 m 2 = W /\ get16 m 4 = H /\ get16 m 6 = ckw cl' /\ get16 m 8 = ckh cl'
    else length m = Z.to_nat sz_resize_fb /\ nth 0 m 0 = msg_resize_fb /\
         get16 m 2 = ckw cl' /\ get16 m 4 = ckh cl'.
Proof.
  intros tc fmt g st k cl W H n w h st' R Ek Al Hn HW HH Bw Bh S U.
  destruct (size_told false W H n w h Hn HW HH S) as (Ew & Eh & _).
  assert (Rw : 0 <= W / n < 65536) by (split; [apply Z.div_pos; lia | apply Z.div_lt_upper_bound; nia]).
  assert (Rh : 0 <= H / n < 65536) by (split; [apply Z.div_pos; lia | apply Z.div_lt_upper_bound; nia]).
  destruct (refinv_scaling_setup true tc fmt g st k cl w h st' R Ek Al U) as (_ & cl' & Ek' & Al' & D).
  exists cl'. split; [exact Ek'|]. split; [exact Al'|].
  assert (Rg : 0 <= ckw cl' < 65536 /\ 0 <= ckh cl' < 65536).
  { destruct D as [[A B]|[A _]]; [rewrite A, B, Ew, Eh; auto | subst cl'; auto]. }
  split.
  - destruct D as [[A B]|[A (_ & Z0)]]; [left; lia|]. right. split; [exact A|]. destruct Z0 as [Z0|[_ Z0]]; lia.
  - apply resize_msg_fields; tauto.
Qed.

(* factor 1: the size asked for is the unscaled one, the request is never refused, the client is back
   on the unscaled screen (and the reference counts are again the numbers of users) *)
Theorem factor_one_back_on_main : forall zf tc fmt g st k cl st',
  RefInv st -> nth_error (clients st) k = Some cl -> calive cl = true ->
  scaled_size (ssw (mainscr st)) (ssh (mainscr st)) 1 = Some (ssw (mainscr st), ssh (mainscr st)) /\
  (scaling_setup zf tc fmt g st k (ssw (mainscr st)) (ssh (mainscr st)) = Some st' ->
   RefInv st' /\ exists cl', nth_error (clients st') k = Some cl' /\ calive cl' = true /\
                             ckw cl' = ssw (mainscr st) /\ ckh cl' = ssh (mainscr st)).
Proof.
  intros zf tc fmt g st k cl st' R Ek Al. split; [apply factor_one|]. intro U.
  destruct (refinv_scaling_setup zf tc fmt g st k cl _ _ st' R Ek Al U) as (R' & cl' & Ek' & Al' & D).
  split; [exact R'|]. exists cl'. split; [exact Ek'|]. split; [exact Al'|].
  destruct D as [[A B]|[_ (F & _)]]; [auto|].
  exfalso. unfold find_scaled, same_size in F. rewrite !Z.eqb_refl in F. discriminate F.
Qed.

(* areaX / areaY = ScaleX(ptr, screen, 1) over the doubles, every width up to NS and every factor -
   also when the scaled dimension is 1 (x = 1 is then outside the range of scaleF_is_Q) *)
Definition chk_area (W n : Z) : bool :=
  match scaleF (W / n) W 1 with Some v => v =? scaleQ (W / n) W 1 | None => false end.

Lemma sweep_area_ok : forallb (fun W => forallb (fun n => chk_area W n) (range1 W)) (range1 NS) = true.
Proof. vm_compute. reflexivity. Qed.

Theorem area_F_is_Q : forall W n, 1 <= W <= NS -> 1 <= n <= W ->
  scaleF (W / n) W 1 = Some (scaleQ (W / n) W 1).
Proof.
  intros W n HW Hn. pose proof sweep_area_ok as S. rewrite forallb_forall in S.
  specialize (S W (In_range1 _ _ HW)). rewrite forallb_forall in S.
  specialize (S n (In_range1 _ _ Hn)). unfold chk_area in S.
  destruct (scaleF (W / n) W 1) as [v|]; [|discriminate]. apply Z.eqb_eq in S. congruence.
Qed.
