(* C17 - pointer events of scaled clients: whichever way a pointer event reaches the application
   (at once, or remembered for motion coalescing and delivered later by rfbUpdateClient) it carries
   the position mapped with the width ratio for x and the height ratio for y. *)
Require Import ZArith List Bool Lia.
From LV Require Import Scale.ScaleQ Scale.ScaleF Scale.ScalePtr Scale.ScaleFProofs.
Import ListNotations.
Local Open Scope Z_scope.

Lemma nth_set_pc_same : forall l k c c0, nth_error l k = Some c0 -> nth_error (set_pc l k c) k = Some c.
Proof.
  induction l as [|a t IH]; intros [|k] c c0 H; simpl in *; try discriminate; auto.
  eapply IH; eauto.
Qed.

Lemma nth_set_pc_other : forall l k j c, j <> k -> nth_error (set_pc l k c) j = nth_error l j.
Proof.
  induction l as [|a t IH]; intros [|k] [|j] c H; simpl; auto; try congruence.
Qed.

(* an event of a client that may use the pointer is delivered now or remembered, never both, and the
   flush delivers exactly what was remembered last *)
Lemma ptr_msg_cases : forall ps k c b mx my,
  nth_error (pcls ps) k = Some c -> owner_ok ps k = true ->
  let '(ps1, e1) := ptr_msg ps k b mx my in
  (negb (b =? pbuttons c) || (pdefer ps =? 0) = true /\
     e1 = Some (b, mx, my) /\ snd (ptr_flush ps1 k) = None) \/
  (negb (b =? pbuttons c) || (pdefer ps =? 0) = false /\ e1 = None /\
     snd (ptr_flush ps1 k) = match remember mx my with Some (x, y) => Some (b, Some x, y) | None => None end).
Proof.
  intros ps k c b mx my Hk Ho. unfold ptr_msg. rewrite Hk, Ho. cbn [negb].
  destruct (negb (b =? pbuttons c) || (pdefer ps =? 0)) eqn:D.
  - left. repeat split; auto. unfold ptr_flush. cbn [pcls]. rewrite (nth_set_pc_same _ _ _ _ Hk). reflexivity.
  - right. repeat split; auto. unfold ptr_flush. cbn [pcls]. rewrite (nth_set_pc_same _ _ _ _ Hk). cbn [plast pbuttons].
    destruct (remember mx my) as [[x y]|]; reflexivity.
Qed.

(* events of another client are ignored while one client holds a button down *)
Lemma ptr_msg_not_owner : forall ps k j b mx my,
  powner ps = Some j -> j <> k -> ptr_msg ps k b mx my = (ps, None).
Proof.
  intros ps k j b mx my Ho Hj. unfold ptr_msg, owner_ok. rewrite Ho.
  destruct (nth_error (pcls ps) k); [|reflexivity].
  destruct (Nat.eqb j k) eqn:E; [apply Nat.eqb_eq in E; contradiction | reflexivity].
Qed.

(* other clients' remembered positions are not touched *)
Lemma ptr_msg_other_client : forall ps k j b mx my, j <> k ->
  nth_error (pcls (fst (ptr_msg ps k b mx my))) j = nth_error (pcls ps) j.
Proof.
  intros ps k j b mx my Hj. unfold ptr_msg.
  destruct (nth_error (pcls ps) k); [|reflexivity].
  destruct (negb (owner_ok ps k)); [reflexivity|].
  destruct (negb (b =? pbuttons p) || (pdefer ps =? 0)); cbn [fst pcls]; apply nth_set_pc_other; exact Hj.
Qed.

(* the flush delivers once *)
Lemma ptr_flush_once : forall ps k, snd (ptr_flush (fst (ptr_flush ps k)) k) = None.
Proof.
  intros ps k. unfold ptr_flush at 2. destruct (nth_error (pcls ps) k) as [c|] eqn:Hk.
  - destruct (plast c) as [[x y]|] eqn:L; cbn [fst].
    + unfold ptr_flush. cbn [pcls]. rewrite (nth_set_pc_same _ _ _ _ Hk). reflexivity.
    + unfold ptr_flush. rewrite Hk, L. reflexivity.
  - cbn [fst]. unfold ptr_flush. rewrite Hk. reflexivity.
Qed.

(* C17_pointer_unscale for both ways of delivery, over the doubles (swept range of ScaleFProofs):
   the event that reaches the application - at once or after the deferral - is the origin
   (floor(x*W/w'), floor(y*H/h')) of the source block the filter averages for the client pixel:
   x measured with the width ratio, y with the height ratio *)
Theorem pointer_event_block_origin : forall ps k c b W H n x y,
  1 <= W <= NS -> 1 <= H <= NS -> 1 <= n <= W -> n <= H ->
  let w' := W / n in let h' := H / n in
  0 <= x < w' -> 0 <= y < h' ->
  nth_error (pcls ps) k = Some c -> owner_ok ps k = true ->
  let '(ps1, e1) := ptr_msg ps k b (scaleF w' W x) (scaleF h' H y) in
  let e := (b, Some (scaleQ w' W x), Some (scaleQ h' H y)) in
  (e1 = Some e /\ snd (ptr_flush ps1 k) = None) \/ (e1 = None /\ snd (ptr_flush ps1 k) = Some e).
Proof.
  intros ps k c b W H n x y HW HH Hn HnH w' h' Hx Hy Hk Ho.
  destruct (scaleF_is_Q W n HW Hn) as [_ Ex]. specialize (Ex x Hx). fold w' in Ex.
  destruct (scaleF_is_Q H n HH (conj (proj1 Hn) HnH)) as [_ Ey]. specialize (Ey y Hy). fold h' in Ey.
  pose proof (ptr_msg_cases ps k c b (scaleF w' W x) (scaleF h' H y) Hk Ho) as Cs.
  destruct (ptr_msg ps k b (scaleF w' W x) (scaleF h' H y)) as [ps1 e1].
  destruct Cs as [[_ [E F]]|[_ [E F]]].
  - left. rewrite E, Ex, Ey. auto.
  - right. split; [exact E|]. rewrite F, Ex, Ey. unfold remember.
    assert (0 <= scaleQ w' W x).
    { unfold scaleQ. apply Z.div_pos; [|subst w'; lia]. nia. }
    destruct (0 <=? scaleQ w' W x) eqn:Z0; [reflexivity|]. apply Z.leb_gt in Z0. lia.
Qed.

(* not vacuous, and the refuted variant "remembered y mapped with the width ratio": 100x77 / 3 -> 33x25,
   client pixel (32,24): the block of row 24 starts at 73, the width ratio gives 72 *)
Example pointer_event_nonvacuous :
  let ps := mkps 1 None [mkpc 0 None] in
  let '(ps1, e1) := ptr_msg ps 0%nat 0 (scaleF 33 100 32) (scaleF 25 77 24) in
  e1 = None /\ snd (ptr_flush ps1 0%nat) = Some (0, Some 96, Some 73).
Proof. vm_compute. split; reflexivity. Qed.

Lemma pointer_deferred_width_ratio_refuted :
  scaleF 33 100 24 = Some 72 /\ scaleQ 25 77 24 = 73.
Proof. vm_compute. split; reflexivity. Qed.
