(* C17 - pointer events of (scaled) clients: rfbProcessClientNormalMessage, case rfbPointerEvent, and the
   delivery of a remembered motion by rfbUpdateClient (main.c).

     if (screen->pointerClient && screen->pointerClient != cl) return;
     screen->pointerClient = buttonMask == 0 ? NULL : cl;
     if (buttonMask != cl->lastPtrButtons || screen->deferPtrUpdateTime == 0) {
         ptrAddEvent(buttonMask, ScaleX(..x), ScaleY(..y), cl); lastPtrButtons = buttonMask; lastPtrX = -1;
     } else { lastPtrX = ScaleX(..x); lastPtrY = ScaleY(..y); lastPtrButtons = buttonMask; }

     rfbUpdateClient, once deferPtrUpdateTime has passed:  if (lastPtrX >= 0) { ptrAddEvent(lastPtrButtons,
         lastPtrX, lastPtrY, cl); lastPtrX = -1; }

   The mapped coordinates (ScaleX / ScaleY over the doubles, ScaleF.scaleF) are computed outside and
   handed in as [option Z] (None = the integer-indefinite value), so that this part is extractable;
   ScalePtrProofs ties it to scaleF. *)
Require Import ZArith List Bool Lia.
Import ListNotations.
Local Open Scope Z_scope.

Record pclient : Type := mkpc { pbuttons : Z;                      (* cl->lastPtrButtons *)
                                plast : option (Z * option Z) }.    (* lastPtrX >= 0: (lastPtrX, lastPtrY) *)
Record pscreen : Type := mkps { pdefer : Z;                        (* screen->deferPtrUpdateTime *)
                                powner : option nat;               (* screen->pointerClient *)
                                pcls : list pclient }.
(* what the application's ptrAddEvent hook is called with *)
Definition pevent : Type := (Z * option Z * option Z)%type.

Fixpoint set_pc (l : list pclient) (k : nat) (c : pclient) : list pclient :=
  match l, k with
  | [], _ => []
  | _ :: t, O => c :: t
  | a :: t, S k' => a :: set_pc t k' c
  end.

Definition ptr_new (ps : pscreen) : pscreen :=
  mkps (pdefer ps) (powner ps) (pcls ps ++ [mkpc 0 None]).

Definition ptr_gone (ps : pscreen) (k : nat) : pscreen :=
  mkps (pdefer ps)
       (match powner ps with Some j => if Nat.eqb j k then None else Some j | None => None end)
       (pcls ps).

Definition owner_ok (ps : pscreen) (k : nat) : bool :=
  match powner ps with Some j => Nat.eqb j k | None => true end.

(* a remembered position counts only while lastPtrX >= 0 (the indefinite value is negative) *)
Definition remember (mx my : option Z) : option (Z * option Z) :=
  match mx with
  | Some x => if 0 <=? x then Some (x, my) else None
  | None => None
  end.

Definition ptr_msg (ps : pscreen) (k : nat) (b : Z) (mx my : option Z) : pscreen * option pevent :=
  match nth_error (pcls ps) k with
  | None => (ps, None)
  | Some c =>
      if negb (owner_ok ps k) then (ps, None)
      else
        let ow := if b =? 0 then None else Some k in
        if negb (b =? pbuttons c) || (pdefer ps =? 0)
        then (mkps (pdefer ps) ow (set_pc (pcls ps) k (mkpc b None)), Some (b, mx, my))
        else (mkps (pdefer ps) ow (set_pc (pcls ps) k (mkpc b (remember mx my))), None)
  end.

(* rfbUpdateClient after the deferral time *)
Definition ptr_flush (ps : pscreen) (k : nat) : pscreen * option pevent :=
  match nth_error (pcls ps) k with
  | Some c =>
      match plast c with
      | Some (x, my) => (mkps (pdefer ps) (powner ps) (set_pc (pcls ps) k (mkpc (pbuttons c) None)),
                         Some (pbuttons c, Some x, my))
      | None => (ps, None)
      end
  | None => (ps, None)
  end.
