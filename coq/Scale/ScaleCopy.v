(* C17 - rfbDoCopyRegion / rfbDoCopyRect (main.c): pixels are moved inside the framebuffer,
   destination rectangle [x1,x2) x [y1,y2), every pixel taken from (x-dx, y-dy) of the OLD contents
   (memmove per row, rows in the order that keeps the old contents readable).
   Reading outside the framebuffer is the error value. *)
Require Import ZArith List Bool Lia.
From LV Require Import Scale.ScaleQ Scale.ScaleDefs Scale.ScaleProofs Scale.ScaleF.
Import ListNotations.
Local Open Scope Z_scope.

Definition in_rect (x1 y1 x2 y2 x y : Z) : bool := (x1 <=? x) && (x <? x2) && (y1 <=? y) && (y <? y2).

(* all pixels of the framebuffer after the copy, row by row *)
Definition copy_pixels (f : fb) (x1 y1 x2 y2 dx dy : Z) : option (list Z) :=
  collect2 (Z.to_nat (fh f)) 0 (Z.to_nat (fw f))
           (fun i j => if in_rect x1 y1 x2 y2 i j then fb_get f (i - dx) (j - dy) else fb_get f i j).

(* F17c, part 1 - rfbDoCopyRegion moves the pixels and schedules the CopyRect, but no scaled copy is
   refreshed (rfbMarkRectAsModified would call rfbScaledScreenUpdate; this path does not): a scaled
   screen that was the box filter of the framebuffer before the copy is not afterwards.
   2x2 screen, 1 bpp 3/3/2, rows [0 0] [255 255], scaled 1x1; the lower row is copied onto the upper. *)
Lemma copy_leaves_scaled_stale :
  exists fmt src pix' src' g dst dst',
    update_rect true fmt g src (blank_fb 1 1) = Some dst /\
    copy_pixels src 0 0 2 1 0 (-1) = Some pix' /\ src' = mkfb 2 2 [[255; 255]; [255; 255]] /\ pix' = [255; 255; 255; 255] /\
    update_rect true fmt g src' dst = Some dst' /\ dst' <> dst.
Proof.
  exists (mkfmt 1 7 7 3 0 3 6), (mkfb 2 2 [[0; 0]; [255; 255]]).
  eexists. exists (mkfb 2 2 [[255; 255]; [255; 255]]), (mkgeom 0 0 1 1 2 2 [0] [0] [0] [0]).
  do 2 eexists.
  split; [vm_compute; reflexivity|]. split; [vm_compute; reflexivity|]. split; [reflexivity|].
  split; [reflexivity|]. split; [vm_compute; reflexivity|]. intro E. vm_compute in E. discriminate E.
Qed.

(* F17c, part 2 - rfbSendCopyRegion for a scaled client: `dy = ScaleX(cl->screen, cl->scaledScreen, dy)`
   maps the vertical displacement with the WIDTH ratio (100x77 / 3 -> 33x25: dy = 70 becomes 23, the
   height ratio gives 22), and a negative displacement is truncated towards zero where the rectangle
   origins are rounded down (10 -> 3 wide: -5 becomes -1, floor(-5*3/10) = -2): source and destination
   of the CopyRect drift apart.  Apart from that a displacement that is not a multiple of the block size
   has no exact CopyRect in the scaled picture at all. *)
Lemma copyrect_delta_refuted :
  scaleF 100 33 70 = Some 23 /\ scaleF 77 25 70 = Some 22 /\
  scaleF 10 3 (-5) = Some (-1) /\ scaleQ 10 3 (-5) = -2.
Proof. vm_compute. repeat split; reflexivity. Qed.
