(* The IEEE-double model (ScaleF) against the exact geometry (ScaleQ): finite sweeps evaluated by
   vm_compute with the bounds written in the statements, and the refuting witness of the pointer
   mapping (F17). *)
From LV Require Import Scale.ScaleQ Scale.ScaleF Scale.ScaleProofs.
From Coq Require Import ZArith List Bool Lia.
Import ListNotations.
Local Open Scope Z_scope.

Definition range1 (n : Z) : list Z := map (fun k => k + 1) (zrange n).

Lemma In_zrange : forall n v, 0 <= v < n -> In v (zrange n).
Proof.
  intros n v H. unfold zrange. apply in_map_iff. exists (Z.to_nat v). split; [lia|].
  apply in_seq. lia.
Qed.

Lemma In_range1 : forall n v, 1 <= v <= n -> In v (range1 n).
Proof.
  intros n v H. unfold range1. apply in_map_iff. exists (v - 1). split; [lia|]. apply In_zrange. lia.
Qed.

(* ------------------------------------------------------------------ ScaleX / ScaleY *)
Definition exactly (o : option Z) (q : Z) : bool :=
  match o with Some v => v =? q | None => false end.

Definition chk_scale (W n : Z) : bool :=
  let w' := W / n in
  forallb (fun x => exactly (scaleF W w' x) (scaleQ W w' x)) (zrange W) &&
  forallb (fun x => exactly (scaleF w' W x) (scaleQ w' W x)) (zrange w').

Definition NS : Z := 240.

Lemma sweep_scale_ok : forallb (fun W => forallb (fun n => chk_scale W n) (range1 W)) (range1 NS) = true.
Proof. vm_compute. reflexivity. Qed.

(* C17_F_agrees_Q_on: for every screen width up to 240 and every factor, the double expression of
   ScaleX (both directions, formula of commit c7c2b1b: multiply, then divide) is defined and equals
   the exact value floor(x*to/from) *)
Theorem scaleF_is_Q : forall W n,
  1 <= W <= NS -> 1 <= n <= W ->
  let w' := W / n in
  (forall x, 0 <= x < W -> scaleF W w' x = Some (scaleQ W w' x)) /\
  (forall x, 0 <= x < w' -> scaleF w' W x = Some (scaleQ w' W x)).
Proof.
  intros W n HW Hn w'.
  pose proof sweep_scale_ok as S. rewrite forallb_forall in S.
  specialize (S W (In_range1 _ _ HW)). rewrite forallb_forall in S.
  specialize (S n (In_range1 _ _ Hn)). unfold chk_scale in S. fold w' in S.
  apply andb_prop in S. destruct S as [S1 S2]. rewrite forallb_forall in S1, S2.
  split; intros x Hx.
  - specialize (S1 x (In_zrange _ _ Hx)). unfold exactly in S1.
    destruct (scaleF W w' x) as [v|]; [|discriminate]. apply Z.eqb_eq in S1. congruence.
  - specialize (S2 x (In_zrange _ _ Hx)). unfold exactly in S2.
    destruct (scaleF w' W x) as [v|]; [|discriminate]. apply Z.eqb_eq in S2. congruence.
Qed.

(* C17_pointer_unscale over the doubles, swept range: the pointer of client pixel x lands in the
   source block [x*ax, x*ax + ax) that the filter averages for it *)
Theorem pointer_in_block_F : forall W n x,
  1 <= W <= NS -> 1 <= n <= W -> let w' := W / n in 0 <= x < w' ->
  exists v, scaleF w' W x = Some v /\ x * scaleQ w' W 1 <= v < x * scaleQ w' W 1 + scaleQ w' W 1.
Proof.
  intros W n x HW Hn w' Hx.
  destruct (scaleF_is_Q W n HW Hn) as [_ S]. fold w' in S. exists (scaleQ w' W x). split; [apply S; exact Hx|].
  apply (LV.Scale.ScaleProofs.pointer_in_block_Q W n x); lia.
Qed.

(* ------------------------------------------------------------------ rfbScaledCorrection *)
(* inside [to], at least one pixel, and covering the exact image of the source rectangle *)
Definition good_corr (from to x w : Z) (o : option (Z * Z)) : bool :=
  match o with
  | Some (a, b) => (0 <=? a) && (1 <=? b) && (a + b <=? to) && (a * from <=? x * to) && ((x + w) * to <=? (a + b) * from)
  | None => false
  end.

Definition chk_corr (W n : Z) : bool :=
  let w' := W / n in
  forallb (fun x => forallb (fun w => good_corr W w' x w (corr1F W w' x w)) (range1 (W - x))) (zrange W) &&
  forallb (fun x => good_corr w' W x 1 (corr1F w' W x 1)) (zrange w').

Definition NC : Z := 60.

Lemma sweep_corr_ok : forallb (fun W => forallb (fun n => chk_corr W n) (range1 W)) (range1 NC) = true.
Proof. vm_compute. reflexivity. Qed.

(* C17_correction_inside over the doubles, swept range: every rectangle inside a screen up to 60
   wide, every factor: the corrected rectangle is non-empty, inside the scaled screen and covers the
   exact image; the same for one-pixel rectangles in the other direction *)
Theorem corr1F_inside : forall W n,
  1 <= W <= NC -> 1 <= n <= W ->
  let w' := W / n in
  (forall x w, 0 <= x -> 1 <= w -> x + w <= W ->
     exists a b, corr1F W w' x w = Some (a, b) /\ 0 <= a /\ 1 <= b /\ a + b <= w' /\
                 a * W <= x * w' /\ (x + w) * w' <= (a + b) * W) /\
  (forall x, 0 <= x < w' ->
     exists a b, corr1F w' W x 1 = Some (a, b) /\ 0 <= a /\ 1 <= b /\ a + b <= W /\
                 a * w' <= x * W /\ (x + 1) * W <= (a + b) * w').
Proof.
  intros W n HW Hn w'.
  pose proof sweep_corr_ok as S. rewrite forallb_forall in S.
  specialize (S W (In_range1 _ _ HW)). rewrite forallb_forall in S.
  specialize (S n (In_range1 _ _ Hn)). unfold chk_corr in S. fold w' in S.
  apply andb_prop in S. destruct S as [S1 S2]. rewrite forallb_forall in S1, S2.
  split.
  - intros x w Hx Hw Hs. assert (Ix : 0 <= x < W) by lia. assert (Iw : 1 <= w <= W - x) by lia.
    specialize (S1 x (In_zrange _ _ Ix)). rewrite forallb_forall in S1.
    specialize (S1 w (In_range1 _ _ Iw)). unfold good_corr in S1.
    destruct (corr1F W w' x w) as [[a b]|]; [|discriminate]. exists a, b. split; [reflexivity|].
    rewrite !andb_true_iff, !Z.leb_le in S1. lia.
  - intros x Hx. specialize (S2 x (In_zrange _ _ Hx)). unfold good_corr in S2.
    destruct (corr1F w' W x 1) as [[a b]|]; [|discriminate]. exists a, b. split; [reflexivity|].
    rewrite !andb_true_iff, !Z.leb_le in S2. lia.
Qed.

(* ------------------------------------------------------------------ F17 (fixed by c7c2b1b) *)
(* for the record: the formula before the fix, (int)((x/from)*to), sent pixel 29 of a half-size
   client to 57, outside its source block [58,60); the formula in the tree sends it to 58 *)
Lemma pointer_old_formula_refuted :
  exists W n x v, 1 <= n /\ n <= W /\ 0 <= x < W / n /\ scaleF_old (W / n) W x = Some v /\
                  ~ (x * scaleQ (W / n) W 1 <= v).
Proof.
  exists 200, 2, 29, 57. split; [lia|]. split; [lia|]. split; [cbn; lia|]. split; [vm_compute; reflexivity|].
  vm_compute. intros C. apply C. reflexivity.
Qed.

Example pointer_in_block_F_nonvacuous : scaleF 100 200 29 = Some 58 /\ scaleF 960 1920 123 = Some 246.
Proof. vm_compute. auto. Qed.

(* a zero-wide scaled screen: the pointer mapping and the correction are the integer indefinite *)
Lemma zero_width_indefinite : scaleF 0 10 5 = None /\ scaleF 0 10 0 = None /\ corr1F 0 10 0 1 = None.
Proof. vm_compute. auto. Qed.

Example scaleF_is_Q_nonvacuous : scaleF 100 50 57 = Some 28 /\ scaleF 29 87 28 = Some 84.
Proof. vm_compute. auto. Qed.
