(* C17, the same geometry over IEEE-754 binary64 with Coq's primitive floats: the formulas of
   ScaleX/ScaleY/rfbScaledCorrection/rfbScaledScreenUpdateRect exactly as the C code computes them
   on this platform (SSE2 doubles, round to nearest even).  `(int) d` is truncation; the x86
   "integer indefinite" result for NaN / infinity / |d| >= 2^31 is the explicit error value None.
   Primitive floats compute under vm_compute but do not extract with ExtrOcamlBasic: this module is
   evaluated by coqc on generated case lists (props/C17.py), the integer part of the model
   (ScaleDefs.v) is extracted and receives these results as a table. *)
From Coq Require Import ZArith Bool Floats Uint63 List.
Import ListNotations.
Local Open Scope Z_scope.

(* (double) i for a C int *)
Definition z2f (x : Z) : float :=
  if x <? 0 then PrimFloat.opp (of_uint63 (Uint63.of_Z (- x))) else of_uint63 (Uint63.of_Z x).

(* (int) d, by the SpecFloat view of the double (slow: kept as the reference for f2z) *)
Definition f2z_sf (f : float) : option Z :=
  match Prim2SF f with
  | S754_zero _ => Some 0
  | S754_finite s m e =>
      let v := if 0 <=? e then Z.shiftl (Z.pos m) e else Z.shiftr (Z.pos m) (- e) in
      if v <? 2147483648 then Some (if s then - v else v)
      else if s && (v =? 2147483648) then Some (- v) else None
  | _ => None
  end.

(* (int) d with primitive operations only: |d| = m * 2^e, m in [0.5,1) (frshiftexp), integer
   mantissa M = m * 2^53 (normfr_mantissa), trunc |d| = M >> (53 - e) for 1 <= e <= 31 *)
Definition f2z (f : float) : option Z :=
  if PrimFloat.is_nan f || PrimFloat.is_infinity f then None
  else
    let a := PrimFloat.abs f in
    if PrimFloat.ltb a 1%float then Some 0
    else if PrimFloat.leb 2147483648%float a
    then (if PrimFloat.eqb f (-2147483648)%float then Some (-2147483648) else None)
    else
      let '(m, e) := PrimFloat.frshiftexp a in
      let et := Uint63.sub e 2101%uint63 in                 (* 1 .. 31 *)
      let v := Uint63.to_Z (Uint63.lsr (PrimFloat.normfr_mantissa m) (Uint63.sub 53%uint63 et)) in
      Some (if PrimFloat.ltb f 0%float then - v else v).

(* ScaleX(from, to, x) = (int)(((double) x * (double) to->width) / (double) from->width)
   (since /repo commit c7c2b1b "ScaleX/ScaleY multiply before dividing") *)
Definition scaleF (from to x : Z) : option Z :=
  f2z (PrimFloat.div (PrimFloat.mul (z2f x) (z2f to)) (z2f from)).

(* the formula before that commit, (int)(((double) x / from) * to): kept for the record of F17 *)
Definition scaleF_old (from to x : Z) : option Z :=
  f2z (PrimFloat.mul (PrimFloat.div (z2f x) (z2f from)) (z2f to)).

(* one axis of rfbScaledCorrection *)
Definition corr1F (from to x w : Z) : option (Z * Z) :=
  let scale := PrimFloat.div (z2f to) (z2f from) in
  let x1 := PrimFloat.mul (z2f x) scale in
  let w1 := PrimFloat.mul (z2f w) scale in
  match f2z x1 with                                   (* FLOOR(x1) = (double)(int) x1 *)
  | None => None
  | Some xi =>
    let x2 := z2f xi in
    let t := PrimFloat.add w1 (PrimFloat.sub x1 x2) in
    match f2z t with                                  (* CEIL(t) *)
    | None => None
    | Some ti =>
      let w2 := if PrimFloat.eqb (z2f ti) t then z2f ti else z2f (ti + 1) in
      match f2z x2, f2z w2 with
      | Some xo, Some wo =>
        let wo := if wo =? 0 then wo + 1 else wo in
        let wo := if xo + wo >? to then to - xo else wo in
        Some (xo, wo)
      | _, _ => None
      end
    end
  end.

Definition correctionF (fw fh tw th x y w h : Z) : option (Z * Z * Z * Z) :=
  match corr1F fw tw x w, corr1F fh th y h with
  | Some (x', w'), Some (y', h') => Some (x', y', w', h')
  | _, _ => None
  end.

(* the geometry rfbScaledScreenUpdateRect(screen W x H, ptr w' x h', x0,y0,w0,h0) works with, as a
   flat list [x1; y1; w1; h1; areaX; areaY] ++ sxs ++ sys ++ cxs ++ cys (see ScaleDefs.geom).
   grid_fix = true: the tree since /repo commit d58ea84 (block of destination offset i, and the colour
   map sample, at ScaleX(x1+i)); false: before it (block at ScaleX(x1) + i*areaX, sample at (x1+i)*areaX). *)
Fixpoint seqZ (n : nat) (k : Z) : list Z := match n with O => [] | S m => k :: seqZ m (k + 1) end.

Fixpoint all_some (l : list (option Z)) : option (list Z) :=
  match l with
  | [] => Some []
  | Some v :: t => match all_some t with Some r => Some (v :: r) | None => None end
  | None :: _ => None
  end.

Definition origins (grid_fix : bool) (from to x1 w1 ax : Z) : option (list Z * list Z) :=
  if grid_fix
  then match all_some (map (fun i => scaleF from to (x1 + i)) (seqZ (Z.to_nat w1) 0)) with
       | Some l => Some (l, l)
       | None => None
       end
  else match scaleF from to x1 with
       | Some sx0 => Some (map (fun i => sx0 + i * ax) (seqZ (Z.to_nat w1) 0),
                           map (fun i => (x1 + i) * ax) (seqZ (Z.to_nat w1) 0))
       | None => None
       end.

Definition upd_geomF (grid_fix : bool) (W H w' h' x0 y0 w0 h0 : Z) : option (list Z) :=
  match correctionF W H w' h' x0 y0 w0 h0 with
  | None => None
  | Some (x1, y1, w1, h1) =>
    if (w1 <=? 0) || (h1 <=? 0) then Some [x1; y1; w1; h1; 0; 0]   (* no destination pixel: the values
         of x0, y0, areaX, areaY (possibly indefinite) are never used *)
    else
    match scaleF w' W 1, scaleF h' H 1 with
    | Some ax, Some ay =>
      match origins grid_fix w' W x1 w1 ax, origins grid_fix h' H y1 h1 ay with
      | Some (sxs, cxs), Some (sys, cys) => Some ([x1; y1; w1; h1; ax; ay] ++ sxs ++ sys ++ cxs ++ cys)
      | _, _ => None
      end
    | _, _ => None
    end
  end.

(* printing helpers for the generated case files *)
Definition show_oz (o : option Z) : list Z := match o with Some v => [1; v] | None => [0] end.
Definition show_o4 (o : option (Z * Z * Z * Z)) : list Z :=
  match o with Some (a, b, c, d) => [1; a; b; c; d] | None => [0] end.
Definition show_ol (o : option (list Z)) : list Z := match o with Some l => 1 :: l | None => [0] end.

(* ------------------------------------------------------------------ self-describing sweeps *)
(* exhaustive agreement sweep for a W-wide screen and factor n (props/C17.py, geom_case exhaustive):
   every entry carries its own query: [0; from; to; x; ok; v] for ScaleX,
   [1; fw; fh; tw; th; x; y; w; h; ok; x'; y'; w'; h'] for rfbScaledCorrection *)
Definition zrange (n : Z) : list Z := map Z.of_nat (seq 0 (Z.to_nat n)).
Definition entS (a b x : Z) : list Z := [0; a; b; x] ++ show_oz (scaleF a b x).
Definition entC (a b c d x y w h : Z) : list Z := [1; a; b; c; d; x; y; w; h] ++ show_o4 (correctionF a b c d x y w h).
Definition sweep1 (Wn : Z * Z) : list (list Z) :=
  let '(W, n) := Wn in
  let w2 := W / n in
  flat_map (fun x => entS W w2 x ::
                     map (fun w => entC W W w2 w2 x x w w)
                         (filter (fun w => (1 <=? w) && (x + w <=? W)) [1; 2; W - x])) (zrange W)
  ++ flat_map (fun x => [entS w2 W x; entC w2 w2 W W x x 1 1]) (zrange w2).
Definition sweep (l : list (Z * Z)) : list (list Z) := flat_map sweep1 l.

(* one number per (W, n): props/C17.py computes the same hash (arithmetic modulo 2^63, native
   integers) over the implementation's answers *)
Definition hash_list (l : list Z) : Z :=
  Uint63.to_Z (fold_left (fun h v => Uint63.add (Uint63.add (Uint63.mul h 1000003%uint63) (Uint63.of_Z v)) 7%uint63) l 0%uint63).
Definition sweep_hash (Wn : Z * Z) : Z := hash_list (concat (sweep1 Wn)).
