(* C03, F22 follow-up: the update flow WITH the proposed repair notes/fix_C03_8.diff (rfbSendFramebufferUpdate keeps
   the part of the cursor-redraw area that lies outside requestedRegion as modified instead of sending it).
   Parallel to UpdateModel.plan_regions / model_update (which mirror the flow WITHOUT the repair and stay as they
   are); props/C03.py reads from the source text which of the two the library has and the driver runs that one.
   Proved here: with the repair every pixel rectangle of an update lies inside the region the client requested --
   hence inside whatever size the client knows, across rfbNewFramebuffer, with or without NewFBSize. *)
From Coq Require Import List ZArith Bool Lia ZifyBool.
From LV Require Import Gen.Consts_C03 Gen.Funs_C03 Region.RegionDefs Region.RegionProofs0 Region.RegionProofs
     Wire.CountsModel Wire.CountsProofs Wire.CapsModel Wire.CapsProofs Wire.UpdateModel Wire.InsideProofs Wire.ModelProofs.
Import ListNotations.
Local Open Scope Z_scope.

(* tmp = updateRegion - requested; if non-empty: modifiedRegion |= tmp (bookkeeping, C02), updateRegion &= requested *)
Definition clip_to_requested (upd req : region) : region :=
  if snd (rgn_sub upd req) then fst (rgn_and upd req) else upd.

Definition plan_regions_clip (c1 : caps) (s : sends) (sn : snap) : plan :=
  let copy1 := fst (rgn_sub (sn_copy sn) (sn_mod sn)) in
  let upd0 := rgn_or (sn_mod sn) copy1 in
  let '(upd1, ne) := rgn_and upd0 (sn_req sn) in
  let same_cursor := (sn_clx sn =? sn_scx sn) && (sn_cly sn =? sn_scy sn) in
  let nothing := negb ne && rgn_is_empty upd1 && (c_cursorshape c1 || same_cursor) && negb (any_send s) in
  let ucopy0 := fst (rgn_and copy1 (sn_req sn)) in
  let ucopy := fst (rgn_and ucopy0 (rgn_offset (sn_req sn) (sn_dx sn) (sn_dy sn))) in
  let upd2 := fst (rgn_sub upd1 ucopy) in
  let upd3 :=
    if c_cursorshape c1 then upd2
    else clip_to_requested
           (if same_cursor then upd2
            else redraw_cursor (sn_cursor sn) (sn_scx sn) (sn_scy sn) (sn_fbw sn) (sn_fbh sn)
                   (redraw_cursor (sn_cursor sn) (sn_clx sn) (sn_cly sn) (sn_fbw sn) (sn_fbh sn) upd2))
           (sn_req sn) in
  mkPlan nothing (map to_xywh (rgn_iter false false upd3))
         (rgn_iter (sn_dx sn >? 0) (sn_dy sn >? 0) ucopy).

Definition model_update_core_clip (g : cfg) (c : caps) (sn : snap) : caps * upd_out :=
  if c_newfbsize c && c_fbpending c then newfb_update c sn
  else
    let sc := decide_sends g c (sn_ledval sn) in
    let pl := plan_regions_clip (snd sc) (fst sc) sn in
    if pl_nothing pl then (snd sc, UNone) else render_update g (snd sc) (fst sc) sn pl.

Definition model_update_clip (g : cfg) (c : caps) (sn : snap) : caps * upd_out :=
  model_update_core_clip g (bpp24_prelude g c sn) sn.

(* what the driver runs *)
Definition model_update_sel (clip : bool) (g : cfg) (c : caps) (sn : snap) : caps * upd_out :=
  if clip then model_update_clip g c sn else model_update g c sn.

(* ---- proofs *)
Lemma clip_ok upd req : WF upd -> WF req ->
  WF (clip_to_requested upd req) /\
  forall x y, rgn_mem (clip_to_requested upd req) x y = rgn_mem upd x y && rgn_mem req x y.
Proof.
  intros Wu Wq. unfold clip_to_requested.
  pose proof (rgn_sub_bool upd req Wu Wq) as B. pose proof (rgn_sub_mem upd req Wu Wq) as M.
  pose proof (rgn_sub_wf upd req Wu Wq) as Ws.
  destruct (snd (rgn_sub upd req)).
  - split; [apply rgn_and_wf; assumption|apply rgn_and_mem; assumption].
  - split; [assumption|]. intros x y.
    assert (E : rgn_is_empty (fst (rgn_sub upd req)) = true) by (destruct (rgn_is_empty (fst (rgn_sub upd req))); [reflexivity|discriminate B]).
    pose proof (proj1 (is_empty_sem _ Ws) E x y) as Z0. rewrite M in Z0.
    destruct (rgn_mem upd x y); [|reflexivity]. destruct (rgn_mem req x y); [reflexivity|discriminate Z0].
Qed.

Lemma redraw_cursor_wf cur cx cy W H upd : 1 <= W -> 1 <= H -> WF upd -> WF (redraw_cursor cur cx cy W H upd).
Proof.
  intros HW HH Wu. unfold redraw_cursor. destruct cur as [c|]; [|assumption].
  pose proof (clip2_inside (cx - cu_xhot c) (cy - cu_yhot c) (cx - cu_xhot c + cu_w c) (cy - cu_yhot c + cu_h c)
                           0 0 W H ltac:(lia) ltac:(lia)) as C.
  destruct (sraClipRect2 (cx - cu_xhot c) (cy - cu_yhot c) (cx - cu_xhot c + cu_w c)
                         (cy - cu_yhot c + cu_h c) 0 0 W H) as [[[[b x1] y1] x2] y2].
  destruct C as (C1 & C2 & C3 & C4 & C5). destruct b; [|assumption].
  destruct (proj1 C5 eq_refl) as [Lx Ly]. apply rgn_or_wf; [assumption|apply create_rect_wf; assumption].
Qed.

(* with the repair: every pixel rectangle of an update lies inside the requested region, hence inside any box
   (W', H') that contains the requests -- no hypothesis on modifiedRegion / copyRegion / the screen size *)
Theorem plan_clip_requested : forall c1 s sn W' H',
  1 <= sn_fbw sn -> 1 <= sn_fbh sn ->
  WF (sn_mod sn) -> WF (sn_req sn) -> WF (sn_copy sn) ->
  within W' H' (sn_req sn) ->
  Forall (rect_in_screen W' H') (pl_region (plan_regions_clip c1 s sn)) /\
  Forall (fun rc => let '(x1, y1, x2, y2) := rc in 0 <= x1 /\ x1 < x2 /\ x2 <= W' /\ 0 <= y1 /\ y1 < y2 /\ y2 <= H')
         (pl_copy (plan_regions_clip c1 s sn)).
Proof.
  intros c1 s sn W' H' HW HH Wm Wq Wc Iq. unfold plan_regions_clip.
  set (copy1 := fst (rgn_sub (sn_copy sn) (sn_mod sn))).
  assert (Wc1 : WF copy1) by (apply rgn_sub_wf; assumption).
  set (upd0 := rgn_or (sn_mod sn) copy1).
  assert (Wu0 : WF upd0) by (apply rgn_or_wf; assumption).
  pose proof (rgn_and_wf upd0 (sn_req sn) Wu0 Wq) as Wu1.
  pose proof (rgn_and_mem upd0 (sn_req sn) Wu0 Wq) as Mu1.
  destruct (rgn_and upd0 (sn_req sn)) as [upd1 ne] eqn:Eu1. cbn [fst] in Wu1, Mu1.
  set (ucopy0 := fst (rgn_and copy1 (sn_req sn))).
  assert (Wuc0 : WF ucopy0) by (apply rgn_and_wf; assumption).
  set (oreq := rgn_offset (sn_req sn) (sn_dx sn) (sn_dy sn)).
  assert (Wo : WF oreq) by (apply offset_wf; assumption).
  set (ucopy := fst (rgn_and ucopy0 oreq)).
  assert (Wuc : WF ucopy) by (apply rgn_and_wf; assumption).
  set (upd2 := fst (rgn_sub upd1 ucopy)).
  assert (Wu2 : WF upd2) by (apply rgn_sub_wf; assumption).
  assert (Iu2 : within W' H' upd2).
  { intros x y Hm. unfold upd2 in Hm. rewrite (rgn_sub_mem upd1 ucopy Wu1 Wuc) in Hm.
    apply andb_true_iff in Hm. destruct Hm as [Hm _]. rewrite Mu1 in Hm.
    apply andb_true_iff in Hm. destruct Hm as [_ Hm]. apply Iq. exact Hm. }
  cbn [pl_region pl_copy]. split.
  - set (pre := if (sn_clx sn =? sn_scx sn) && (sn_cly sn =? sn_scy sn) then upd2
                else redraw_cursor (sn_cursor sn) (sn_scx sn) (sn_scy sn) (sn_fbw sn) (sn_fbh sn)
                       (redraw_cursor (sn_cursor sn) (sn_clx sn) (sn_cly sn) (sn_fbw sn) (sn_fbh sn) upd2)).
    assert (Wp : WF pre).
    { unfold pre. destruct ((sn_clx sn =? sn_scx sn) && (sn_cly sn =? sn_scy sn)); [assumption|].
      apply redraw_cursor_wf; try assumption. apply redraw_cursor_wf; assumption. }
    set (upd3 := if c_cursorshape c1 then upd2 else clip_to_requested pre (sn_req sn)).
    assert (K : WF upd3 /\ within W' H' upd3).
    { unfold upd3. destruct (c_cursorshape c1); [split; assumption|].
      destruct (clip_ok pre (sn_req sn) Wp Wq) as [Wk Mk]. split; [assumption|].
      intros x y Hm. rewrite Mk in Hm. apply andb_true_iff in Hm. apply Iq. tauto. }
    destruct K as [Wu3 Iu3].
    apply Forall_forall. intros r Hin. apply in_map_iff in Hin. destruct Hin as (rc & <- & Hin).
    pose proof (iter_rect_inside false false upd3 W' H' rc Wu3 Iu3 Hin) as Hr.
    destruct rc as [[[x1 y1] x2] y2]. cbn [to_xywh rect_in_screen]. lia.
  - apply Forall_forall. intros rc Hin.
    assert (Iuc : within W' H' ucopy).
    { intros x y Hm. unfold ucopy in Hm. rewrite (rgn_and_mem ucopy0 oreq Wuc0 Wo) in Hm.
      apply andb_true_iff in Hm. destruct Hm as [Hm _]. unfold ucopy0 in Hm.
      rewrite (rgn_and_mem copy1 (sn_req sn) Wc1 Wq) in Hm. apply andb_true_iff in Hm. apply Iq. tauto. }
    pose proof (iter_rect_inside _ _ ucopy W' H' rc Wuc Iuc Hin) as Hr.
    destruct rc as [[[x1 y1] x2] y2]. lia.
Qed.

(* the witness of F22 (80x70 client, screen grown to 84x70, cursor moved to x = 83): without the repair a
   rectangle reaching x = 84 is planned, with it none does; a cursor inside the request is sent either way *)
Definition f22_snap (scx : Z) : snap :=
  mkSnap rgn_empty (rgn_create_rect 0 0 80 70) rgn_empty 0 0 10 6 scx 6 (Some (mkCursor 0 0 2 2 false)) 0
         84 70 50 48 48 1 32 0 0.

Lemma f22_witness :
  pl_region (plan_regions caps_init (mkSends false false false false false false) (f22_snap 83)) = [(10, 6, 2, 2); (83, 6, 1, 2)] /\
  pl_region (plan_regions_clip caps_init (mkSends false false false false false false) (f22_snap 83)) = [(10, 6, 2, 2)] /\
  pl_region (plan_regions_clip caps_init (mkSends false false false false false false) (f22_snap 40)) = [(10, 6, 2, 2); (40, 6, 2, 2)].
Proof. repeat split; vm_compute; reflexivity. Qed.

(* ---- the count theorems hold for the repaired flow as well (same proofs as Wire/ModelProofs.v, over plan_regions_clip) *)
Lemma plan_nondeg_clip : forall c1 s sn, snap_ok sn ->
  Forall nondeg (pl_region (plan_regions_clip c1 s sn)) /\ Forall nondeg (map to_xywh (pl_copy (plan_regions_clip c1 s sn))).
Proof.
  intros c1 s sn (Hcw & Hch & HW & HH & Wm & Wq & Wc & Iq).
  destruct (plan_clip_requested c1 s sn (sn_fbw sn) (sn_fbh sn) HW HH Wm Wq Wc Iq) as [P Q]. split.
  - eapply in_screen_nondeg. exact P.
  - apply Forall_forall. intros r Hin. apply in_map_iff in Hin. destruct Hin as (rc & <- & Hin).
    rewrite Forall_forall in Q. specialize (Q rc Hin). clear - Q. destruct rc as [[[x1 y1] x2] y2].
    unfold copy_in_screen in Q. cbn [to_xywh nondeg]. lia.
Qed.

Theorem model_update_count_clip : forall g c sn c' n hs ovf,
  g_wrap_coalesce g = true -> g_wrap_copy g = true -> snap_ok sn ->
  (let c0 := bpp24_prelude g c sn in let sc := decide_sends g c0 (sn_ledval sn) in
   bbox_fits g (snd sc) sn (plan_regions_clip (snd sc) (fst sc) sn)) ->
  model_update_clip g c sn = (c', USent n hs false ovf) ->
  phdr_count hs = Some n /\ n < 65535.
Proof.
  intros g c sn c' n hs ovf G1 G2 Hs Hbb Hm. cbv zeta in Hbb.
  unfold model_update_clip, model_update_core_clip in Hm. set (c0 := bpp24_prelude g c sn) in *.
  destruct (c_newfbsize c0 && c_fbpending c0).
  { unfold newfb_update in Hm. injection Hm as _ Hn Hh _. subst n hs. split; [reflexivity|lia]. }
  set (sc := decide_sends g c0 (sn_ledval sn)) in *.
  destruct (pl_nothing (plan_regions_clip (snd sc) (fst sc) sn)); [inversion Hm|].
  destruct (plan_nondeg_clip (snd sc) (fst sc) sn Hs) as [N1 N2].
  destruct Hs as (Hcw & Hch & _).
  destruct (render_count g (snd sc) (fst sc) sn _ c' n hs false ovf G1 G2 Hcw Hch N1 N2 Hbb Hm) as [A _].
  apply A. reflexivity.
Qed.

Theorem model_update_total_clip : forall g c sn,
  g_wrap_coalesce g = true -> snap_ok sn ->
  forall why, snd (model_update_clip g c sn) <> UTrap why.
Proof.
  intros g c sn G1 Hs why. unfold model_update_clip, model_update_core_clip. set (c0 := bpp24_prelude g c sn).
  destruct (c_newfbsize c0 && c_fbpending c0); [unfold newfb_update; cbv beta iota zeta; cbn [snd]; discriminate|].
  set (sc := decide_sends g c0 (sn_ledval sn)).
  destruct (pl_nothing (plan_regions_clip (snd sc) (fst sc) sn)); [cbn [snd]; discriminate|].
  destruct (plan_nondeg_clip (snd sc) (fst sc) sn Hs) as [N1 N2]. destruct Hs as (Hcw & Hch & _).
  unfold render_update, announce_sel. rewrite G1.
  pose proof (announce_fixed_total (g_wrap_copy g) (c_pref (snd sc)) (c_lastrect (snd sc)) (sn_cmw sn) (sn_cmh sn) (sn_maxrects sn)
                (pl_region (plan_regions_clip (snd sc) (fst sc) sn)) (map to_xywh (pl_copy (plan_regions_clip (snd sc) (fst sc) sn)))
                (n_pseudo (fst sc)) Hcw Hch N1 N2) as T.
  destruct (announce_fixed _ _ _ _ _ _ _ _ _) as [[[[n region'] lm] keep]|] eqn:Ea; [|contradiction].
  (* the emission of region' cannot trap: region' is non-degenerate *)
  assert (R' : Forall nondeg region').
  { clear T. unfold announce_fixed in Ea.
    assert (F : forall r n1 l nc k, Forall nondeg r -> finish_count (c_pref (snd sc)) (sn_maxrects sn) (n_pseudo (fst sc)) r n1 l nc k
                                      = Some (n, region', lm, keep) -> Forall nondeg region').
    { intros r n1 l nc k Hr Hf. unfold finish_count in Hf. destruct l; [inversion Hf; subst; exact Hr|].
      destruct ((sn_maxrects sn >? 0) && negb (exempt_from_coalescing (c_pref (snd sc))) && (n1 >? sn_maxrects sn));
        inversion Hf; subst; [apply bbox_region_nondeg|]; exact Hr. }
    destruct (count_stage _ _ _ _ (pl_region _)) as [[n0 l0]|]; [|discriminate]. cbn [obind] in Ea.
    destruct (l0 || _); [exact (F _ _ _ _ _ N1 Ea)|].
    destruct (count_stage _ _ _ _ (bbox_region (pl_region _))) as [[n1 l1]|]; [|discriminate]. cbn [obind] in Ea.
    destruct (l1 || _ || _); [exact (F _ _ _ _ _ (bbox_region_nondeg _ N1) Ea)|].
    destruct (count_stage _ _ _ _ (bbox_region (_ ++ _))) as [[n2 l2]|]; [|discriminate]. cbn [obind] in Ea.
    refine (F _ _ _ _ _ _ Ea). apply bbox_region_nondeg. apply Forall_app. split; [apply bbox_region_nondeg|]; assumption. }
  assert (Erh : exists rh, region_hdrs (c_pref (snd sc)) (emit_region (c_pref (snd sc)) (c_lastrect (snd sc)) (sn_cmw sn) (sn_cmh sn) region') = Some rh).
  { clear Ea T. induction region' as [|r t IH]; [eexists; reflexivity|]. inversion R' as [|? ? Hr Ht]; subst.
    cbn [emit_region region_hdrs]. destruct (IH Ht) as [rh Erh]. rewrite Erh.
    pose proof (emit_rect_count (c_pref (snd sc)) (c_lastrect (snd sc)) (sn_cmw sn) (sn_cmh sn) r Hcw Hch Hr) as Hrc.
    destruct (emit_rect _ _ _ _ r); [eexists; reflexivity|eexists; reflexivity|contradiction]. }
  destruct Erh as [rh Erh]. rewrite Erh. cbv beta iota zeta. cbn [snd]. discriminate.
Qed.
