(* C03, F22 and its repair 0013b67 (= notes/fix_C03_8.diff): rfbSendFramebufferUpdate keeps the part of the
   cursor-redraw area that lies outside requestedRegion as modified instead of sending it.  UpdateModel.plan_regions /
   model_update mirror the flow WITH the repair (the library's), plan_regions_old / model_update_old the flow before
   it; props/C03.py reads from the source text which one the library has and the driver runs that one.
   Proved here: every pixel rectangle of an update lies inside the region the client requested -- hence inside
   whatever size the client knows, across rfbNewFramebuffer, with or without NewFBSize; and the witness of F22 on
   the old flow. *)
From Coq Require Import List ZArith Bool Lia ZifyBool.
From LV Require Import Gen.Consts_C03 Gen.Funs_C03 Region.RegionDefs Region.RegionProofs0 Region.RegionProofs
     Wire.CountsModel Wire.CountsProofs Wire.CapsModel Wire.CapsProofs Wire.UpdateModel Wire.InsideProofs.
Import ListNotations.
Local Open Scope Z_scope.

(* every pixel rectangle of an update lies inside the requested region, hence inside any box
   (W', H') that contains the requests -- no hypothesis on modifiedRegion / copyRegion / the screen size *)
Theorem plan_inside_requested : forall c1 s sn W' H',
  1 <= sn_fbw sn -> 1 <= sn_fbh sn ->
  WF (sn_mod sn) -> WF (sn_req sn) -> WF (sn_copy sn) ->
  within W' H' (sn_req sn) ->
  Forall (rect_in_screen W' H') (pl_region (plan_regions c1 s sn)) /\
  Forall (fun rc => let '(x1, y1, x2, y2) := rc in 0 <= x1 /\ x1 < x2 /\ x2 <= W' /\ 0 <= y1 /\ y1 < y2 /\ y2 <= H')
         (pl_copy (plan_regions c1 s sn)).
Proof.
  intros c1 s sn W' H' HW HH Wm Wq Wc Iq. unfold plan_regions.
  set (copy1 := fst (rgn_sub (sn_copy sn) (sn_mod sn))).
  assert (Wc1 : WF copy1) by (apply rgn_sub_wf; assumption).
  set (upd0 := rgn_or (sn_mod sn) copy1).
  assert (Wu0 : WF upd0) by (apply rgn_or_wf; assumption).
  pose proof (rgn_and_wf upd0 (sn_req sn) Wu0 Wq) as Wu1.
  pose proof (rgn_and_mem upd0 (sn_req sn) Wu0 Wq) as Mu1.
  destruct (rgn_and upd0 (sn_req sn)) as [upd1 ne] eqn:Eu1. cbn [fst] in Wu1, Mu1.
  set (ucopy0 := fst (rgn_and copy1 (sn_req sn))).
  assert (Wuc0 : WF ucopy0) by (apply rgn_and_wf; assumption).
  set (oreq := rgn_offset (sn_req sn) (sn_dx sn) (sn_dy sn)).
  assert (Wo : WF oreq) by (apply offset_wf; assumption).
  set (ucopy := fst (rgn_and ucopy0 oreq)).
  assert (Wuc : WF ucopy) by (apply rgn_and_wf; assumption).
  set (upd2 := fst (rgn_sub upd1 ucopy)).
  assert (Wu2 : WF upd2) by (apply rgn_sub_wf; assumption).
  assert (Iu2 : within W' H' upd2).
  { intros x y Hm. unfold upd2 in Hm. rewrite (rgn_sub_mem upd1 ucopy Wu1 Wuc) in Hm.
    apply andb_true_iff in Hm. destruct Hm as [Hm _]. rewrite Mu1 in Hm.
    apply andb_true_iff in Hm. destruct Hm as [_ Hm]. apply Iq. exact Hm. }
  cbn [pl_region pl_copy]. split.
  - destruct (c_cursorshape c1).
    + apply Forall_forall. intros r Hin. apply in_map_iff in Hin. destruct Hin as (rc & <- & Hin).
      pose proof (iter_rect_inside false false upd2 W' H' rc Wu2 Iu2 Hin) as Hr.
      destruct rc as [[[x1 y1] x2] y2]. cbn [to_xywh rect_in_screen]. lia.
    + set (pre := if (sn_clx sn =? sn_scx sn) && (sn_cly sn =? sn_scy sn) then upd2
                  else redraw_cursor (sn_cursor sn) (sn_scx sn) (sn_scy sn) (sn_fbw sn) (sn_fbh sn)
                         (redraw_cursor (sn_cursor sn) (sn_clx sn) (sn_cly sn) (sn_fbw sn) (sn_fbh sn) upd2)).
      assert (Wp : WF pre).
      { unfold pre. destruct ((sn_clx sn =? sn_scx sn) && (sn_cly sn =? sn_scy sn)); [assumption|].
        apply redraw_cursor_wf; try assumption. apply redraw_cursor_wf; assumption. }
      destruct (clip_ok pre (sn_req sn) Wp Wq) as [Wk Mk].
      assert (Ik : within W' H' (clip_to_requested pre (sn_req sn))).
      { intros x y Hm. rewrite Mk in Hm. apply andb_true_iff in Hm. apply Iq. tauto. }
      apply Forall_forall. intros r Hin. apply in_map_iff in Hin. destruct Hin as (rc & <- & Hin).
      pose proof (iter_rect_inside false false _ W' H' rc Wk Ik Hin) as Hr.
      destruct rc as [[[x1 y1] x2] y2]. cbn [to_xywh rect_in_screen]. lia.
  - apply Forall_forall. intros rc Hin.
    assert (Iuc : within W' H' ucopy).
    { intros x y Hm. unfold ucopy in Hm. rewrite (rgn_and_mem ucopy0 oreq Wuc0 Wo) in Hm.
      apply andb_true_iff in Hm. destruct Hm as [Hm _]. unfold ucopy0 in Hm.
      rewrite (rgn_and_mem copy1 (sn_req sn) Wc1 Wq) in Hm. apply andb_true_iff in Hm. apply Iq. tauto. }
    pose proof (iter_rect_inside _ _ ucopy W' H' rc Wuc Iuc Hin) as Hr.
    destruct rc as [[[x1 y1] x2] y2]. lia.
Qed.

(* the witness of F22 (80x70 client, screen grown to 84x70, cursor moved to x = 83): the flow before 0013b67 plans
   a rectangle reaching x = 84, the repaired flow does not; a cursor inside the request is sent either way *)
Definition f22_snap (scx : Z) : snap :=
  mkSnap rgn_empty (rgn_create_rect 0 0 80 70) rgn_empty 0 0 10 6 scx 6 (Some (mkCursor 0 0 2 2 false)) 0
         84 70 50 48 48 1 32 0 0.

Lemma f22_witness :
  pl_region (plan_regions_old caps_init (mkSends false false false false false false) (f22_snap 83)) = [(10, 6, 2, 2); (83, 6, 1, 2)] /\
  ~ Forall (rect_in_screen 80 70) (pl_region (plan_regions_old caps_init (mkSends false false false false false false) (f22_snap 83))) /\
  within 80 70 (sn_req (f22_snap 83)) /\
  pl_region (plan_regions caps_init (mkSends false false false false false false) (f22_snap 83)) = [(10, 6, 2, 2)] /\
  pl_region (plan_regions caps_init (mkSends false false false false false false) (f22_snap 40)) = [(10, 6, 2, 2); (40, 6, 2, 2)].
Proof.
  assert (E : pl_region (plan_regions_old caps_init (mkSends false false false false false false) (f22_snap 83)) = [(10, 6, 2, 2); (83, 6, 1, 2)])
    by (vm_compute; reflexivity).
  split; [exact E|]. split.
  { rewrite E. intro F. inversion F as [|? ? _ F2]; subst. inversion F2 as [|? ? B _]; subst. cbn in B. lia. }
  split.
  { intros x y Hm. cbn [f22_snap sn_req] in Hm. rewrite create_rect_mem in Hm. unfold rect_mem in Hm. lia. }
  split; vm_compute; reflexivity.
Qed.

Lemma f22_after_fix :
  within 80 70 (sn_req (f22_snap 83)) /\
  pl_region (plan_regions caps_init (mkSends false false false false false false) (f22_snap 83)) = [(10, 6, 2, 2)] /\
  pl_region (plan_regions caps_init (mkSends false false false false false false) (f22_snap 40)) = [(10, 6, 2, 2); (40, 6, 2, 2)].
Proof. destruct f22_witness as (_ & _ & A & B & C). split; [exact A|split; [exact B|exact C]]. Qed.

Lemma f22_before_fix :
  within 80 70 (sn_req (f22_snap 83)) /\
  ~ Forall (rect_in_screen 80 70)
           (pl_region (plan_regions_old caps_init (mkSends false false false false false false) (f22_snap 83))).
Proof. destruct f22_witness as (_ & A & B & _). split; [exact B|exact A]. Qed.

(* ---- F26: rfbScheduleCopyRegion (soft-cursor branch) ORs the cursor rectangle into modifiedRegion without looking at
   its size; with a cursor of height 0 that is a rectangle of height 0.  The snapshot below is the one observed on
   the implementation (corpus/C03/F26_zero_height_cursor_copy.script): modifiedRegion "not empty" but without a
   pixel.  The update flow then announces 8 rectangles and sends 4, two of them with height 0.  (snap_ok, the
   hypothesis of the count theorem, fails: modifiedRegion is not well-formed.) *)
Definition f26_cfg : cfg := mkCfg false false false false true true true true.
Definition f26_caps : caps := fst (set_encodings f26_cfg caps_init [enc_Raw; enc_CopyRect]).
Definition f26_snap : snap :=
  mkSnap (region_of_rects [(3, 2, 4, 2); (2, 2, 3, 2)]) (rgn_create_rect 0 0 8 4) (rgn_create_rect 1 0 7 4) 1 0 2 2 2 2
         (Some (mkCursor 0 0 1 0 false)) 0 8 4 50 48 48 1 32 0 0.

Lemma f26_witness :
  rgn_is_empty (sn_mod f26_snap) = false /\
  (forall x y, rgn_mem (sn_mod f26_snap) x y = false) /\
  exists hs, snd (model_update f26_cfg f26_caps f26_snap) = USent 8 hs false false /\
             phdr_count hs = Some 4 /\
             hs = [PH (1, 0, 6, 2, enc_CopyRect); PH (4, 2, 3, 0, enc_CopyRect); PH (1, 2, 2, 0, enc_CopyRect); PH (1, 2, 6, 2, enc_CopyRect)].
Proof.
  split; [reflexivity|]. split.
  - intros x y. change (sn_mod f26_snap) with [(2, 2, [(3, 4, tt); (2, 3, tt)])].
    unfold rgn_mem. cbn [lookup]. destruct ((2 <=? y) && (y <? 2)) eqn:E; [lia|reflexivity].
  - eexists. split; [vm_compute; reflexivity|]. split; reflexivity.
Qed.
