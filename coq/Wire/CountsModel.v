(* C03 - rectangle counting vs. rectangle emission (DESIGN.md section 5, C03).
   Mirror of: the per-encoding count computation in rfbSendFramebufferUpdate
   (rfbserver.c, "Now send the update"), rfbSendRectEncodingCoRRE (corre.c, recursion),
   rfbSendRectEncodingZlib / rfbSendRectEncodingUltra (row loops), SendRectSimple (tight.c,
   nested loops), rfbSendRectEncodingRaw's early return for empty rectangles.
   rfbNumCodedRectsTight is NOT written here: it is re-translated from tight.c on every run
   (Gen/Funs_C03.v); all numeric constants come from Gen/Consts_C03.v.
   Only definitions in this file. *)
From Coq Require Import List ZArith Bool Lia.
From LV Require Import Gen.Consts_C03 Gen.Funs_C03.
Import ListNotations.
Local Open Scope Z_scope.

Definition xywh : Type := (Z * Z * Z * Z)%type.      (* x, y, w, h as put on the wire *)

(* C integer division: truncating; division by zero is a trap (SIGFPE), made explicit *)
Definition cdiv (a b : Z) : option Z := if b =? 0 then None else Some (Z.quot a b).

Definition obind {A B} (o : option A) (f : A -> option B) : option B :=
  match o with Some a => f a | None => None end.

(* ------------------------------------------------------------------ CoRRE *)
(* rfbSendRectEncodingCoRRE: split off rows of correMaxHeight first, then columns *)
Fixpoint emit_corre (fuel : nat) (mw mh x y w h : Z) : option (list xywh) :=
  match fuel with
  | O => None
  | S f =>
    if h >? mh then
      match emit_corre f mw mh x y w mh, emit_corre f mw mh x (y + mh) w (h - mh) with
      | Some a, Some b => Some (a ++ b)
      | _, _ => None
      end
    else if w >? mw then
      match emit_corre f mw mh x y mw h, emit_corre f mw mh (x + mw) y (w - mw) h with
      | Some a, Some b => Some (a ++ b)
      | _, _ => None
      end
    else Some [(x, y, w, h)]
  end.

Definition corre_fuel (w h : Z) : nat := S (Z.to_nat (Z.max 0 w + Z.max 0 h)).

(* rectsPerRow = (w-1)/correMaxWidth+1; rows = (h-1)/correMaxHeight+1 *)
Definition count_corre (mw mh w h : Z) : option Z :=
  obind (cdiv (w - 1) mw) (fun a => obind (cdiv (h - 1) mh) (fun b => Some ((a + 1) * (b + 1)))).

(* ------------------------------------------------------------------ Zlib / Ultra *)
(* the macros ZLIB_MAX_SIZE(min) / ULTRA_MAX_SIZE(min) of rfb.h, hand-mirrored; sample points
   of the real macros are regenerated into Consts_C03 and compared in CountsProofs *)
Definition max_size (max_rect_size w : Z) : Z :=
  if w * 2 >? max_rect_size then w * 2 else max_rect_size.

(* while (linesRemaining > 0) { linesToComp = min(maxLines, linesRemaining); send; ... } *)
Fixpoint emit_rows (fuel : nat) (maxLines x y w rem : Z) : option (list xywh) :=
  match fuel with
  | O => None
  | S f =>
    if rem >? 0 then
      let l := if maxLines <? rem then maxLines else rem in
      match emit_rows f maxLines x (y + l) w (rem - l) with
      | Some r => Some ((x, y, w, l) :: r)
      | None => None
      end
    else Some []
  end.

Definition rows_fuel (h : Z) : nat := S (Z.to_nat (Z.max 0 h)).

Definition max_lines (max_rect_size w : Z) : option Z := cdiv (max_size max_rect_size w) w.

Definition emit_split_rows (max_rect_size x y w h : Z) : option (list xywh) :=
  obind (max_lines max_rect_size w) (fun ml => emit_rows (rows_fuel h) ml x y w h).

(* nUpdateRegionRects += (((h-1) / (ZLIB_MAX_SIZE( w ) / w)) + 1) *)
Definition count_split_rows (max_rect_size w h : Z) : option Z :=
  obind (max_lines max_rect_size w) (fun ml => obind (cdiv (h - 1) ml) (fun q => Some (q + 1))).

Definition emit_zlib := emit_split_rows ZLIB_MAX_RECT_SIZE.
Definition count_zlib := count_split_rows ZLIB_MAX_RECT_SIZE.
Definition emit_ultra := emit_split_rows ULTRA_MAX_RECT_SIZE.
Definition count_ultra := count_split_rows ULTRA_MAX_RECT_SIZE.

(* ------------------------------------------------------------------ Tight (SendRectSimple) *)
(* for (dx = 0; dx < w; dx += TIGHT_MAX_RECT_WIDTH) *)
Fixpoint tight_cols (fuel : nat) (x y w dy rh dx : Z) : option (list xywh) :=
  match fuel with
  | O => None
  | S f =>
    if dx <? w then
      let rw := if dx + TIGHT_MAX_RECT_WIDTH <? w then TIGHT_MAX_RECT_WIDTH else w - dx in
      match tight_cols f x y w dy rh (dx + TIGHT_MAX_RECT_WIDTH) with
      | Some r => Some ((x + dx, y + dy, rw, rh) :: r)
      | None => None
      end
    else Some []
  end.

(* for (dy = 0; dy < h; dy += subrectMaxHeight) *)
Fixpoint tight_rows (fuel : nat) (smh x y w h dy : Z) : option (list xywh) :=
  match fuel with
  | O => None
  | S f =>
    if dy <? h then
      let rh := if dy + smh <? h then smh else h - dy in
      match tight_cols (rows_fuel w) x y w dy rh 0, tight_rows f smh x y w h (dy + smh) with
      | Some a, Some b => Some (a ++ b)
      | _, _ => None
      end
    else Some []
  end.

Definition emit_tight_simple (x y w h : Z) : option (list xywh) :=
  if (w >? TIGHT_MAX_RECT_WIDTH) || (w * h >? TIGHT_MAX_RECT_SIZE) then
    let smw := if w >? TIGHT_MAX_RECT_WIDTH then TIGHT_MAX_RECT_WIDTH else w in
    obind (cdiv TIGHT_MAX_RECT_SIZE smw) (fun smh => tight_rows (rows_fuel h) smh x y w h 0)
  else Some [(x, y, w, h)].

(* SendRectEncodingTight: the data-independent path is taken iff this holds *)
Definition tight_uses_simple (lastrect : bool) (w h : Z) : bool :=
  negb lastrect || (w * h <? MIN_SPLIT_RECT_SIZE).

Definition b2z (b : bool) : Z := if b then 1 else 0.

(* the translated function, with the struct field as a boolean *)
Definition count_tight (lastrect : bool) (x y w h : Z) : Z :=
  rfbNumCodedRectsTight (b2z lastrect) x y w h.

(* ------------------------------------------------------------------ per-encoding dispatch *)
Inductive enc_class := EcCoRRE | EcUltra | EcZlib | EcTight | EcTightPng | EcOther.

Definition classify (pref : Z) : enc_class :=
  if pref =? enc_CoRRE then EcCoRRE
  else if pref =? enc_Ultra then EcUltra
  else if pref =? enc_Zlib then EcZlib
  else if pref =? enc_Tight then EcTight
  else if pref =? enc_TightPng then EcTightPng
  else EcOther.

(* what one region rectangle becomes on the wire *)
Inductive emitted :=
| EmKnown (rs : list xywh)            (* exactly these rectangle headers, in this order *)
| EmData (r : xywh)                   (* Tight, data-dependent split of r (LastRect mode) *)
| EmTrap.                             (* the C code divides by zero / recursion does not end *)

(* rfbSendRectEncodingRaw: "if(!h || !w) return TRUE;" -- no header at all *)
Definition emit_raw (x y w h : Z) : list xywh :=
  if (h =? 0) || (w =? 0) then [] else [(x, y, w, h)].

Definition of_opt (o : option (list xywh)) : emitted :=
  match o with Some l => EmKnown l | None => EmTrap end.

Definition emit_rect (pref : Z) (lastrect : bool) (cmw cmh : Z) (r : xywh) : emitted :=
  let '(x, y, w, h) := r in
  match classify pref with
  | EcCoRRE => of_opt (emit_corre (corre_fuel w h) cmw cmh x y w h)
  | EcUltra => of_opt (emit_ultra x y w h)
  | EcZlib => of_opt (emit_zlib x y w h)
  | EcTight | EcTightPng =>
      if tight_uses_simple lastrect w h then of_opt (emit_tight_simple x y w h) else EmData r
  | EcOther =>
      if (pref =? enc_Raw) || (pref =? -1) then EmKnown (emit_raw x y w h)
      else EmKnown [(x, y, w, h)]
  end.

(* the counting loops before "fu->type = rfbFramebufferUpdate" *)
Fixpoint sum_counts (f : xywh -> option Z) (l : list xywh) (acc : Z) : option Z :=
  match l with
  | [] => Some acc
  | r :: t => obind (f r) (fun n => sum_counts f t (acc + n))
  end.

(* Tight: n == 0 -> nUpdateRegionRects = 0xFFFF; break *)
Fixpoint sum_tight (lastrect : bool) (l : list xywh) (acc : Z) : Z :=
  match l with
  | [] => acc
  | (x, y, w, h) :: t =>
      let n := count_tight lastrect x y w h in
      if n =? 0 then 65535 else sum_tight lastrect t (acc + n)
  end.

Definition n_region_rects (pref : Z) (lastrect : bool) (cmw cmh : Z) (region : list xywh) : option Z :=
  match classify pref with
  | EcCoRRE => sum_counts (fun '(_, _, w, h) => count_corre cmw cmh w h) region 0
  | EcUltra => sum_counts (fun '(_, _, w, h) => count_ultra w h) region 0
  | EcZlib => sum_counts (fun '(_, _, w, h) => count_zlib w h) region 0
  | EcTight | EcTightPng => Some (sum_tight lastrect region 0)
  | EcOther => Some (Z.of_nat (length region))
  end.

Definition exempt_from_coalescing (pref : Z) : bool :=
  match classify pref with EcOther => false | _ => true end.

(* bounding box of a non-empty rectangle list (sraRgnBBox; x,y,w,h form) *)
Definition bbox_step (acc : Z * Z * Z * Z) (r : xywh) : Z * Z * Z * Z :=
  let '(x1, y1, x2, y2) := acc in
  let '(x, y, w, h) := r in
  (Z.min x1 x, Z.min y1 y, Z.max x2 (x + w), Z.max y2 (y + h)).

Definition bbox_of (l : list xywh) : xywh :=
  match l with
  | [] => (0, 0, 0, 0)
  | (x, y, w, h) :: t =>
      let '(x1, y1, x2, y2) := fold_left bbox_step t (x, y, x + w, y + h) in
      (x1, y1, x2 - x1, y2 - y1)
  end.

(* sraRgnBBox: the bounding box of the empty region is the empty region *)
Definition bbox_region (l : list xywh) : list xywh := match l with [] => [] | _ => [bbox_of l] end.

Definition wrap16 (n : Z) : Z := n mod 65536.            (* the (uint16_t) cast *)

(* Result of the count stage: announced nRects field, the (possibly coalesced) region that
   will be iterated for emission, and whether a LastRect marker terminates the update. *)
Definition announce (pref : Z) (lastrect : bool) (cmw cmh maxrects : Z) (region : list xywh)
           (ncopy npseudo : Z) : option (Z * list xywh * bool) :=
  obind (n_region_rects pref lastrect cmw cmh region) (fun n =>
    if n =? 65535 then Some (65535, region, true)
    else
      let '(region', n') :=
        if (maxrects >? 0) && negb (exempt_from_coalescing pref) && (n >? maxrects)
        then (bbox_region region, 1) else (region, n) in
      Some (wrap16 (ncopy + n' + npseudo), region', false)).

Fixpoint emit_region (pref : Z) (lastrect : bool) (cmw cmh : Z) (region : list xywh) : list emitted :=
  match region with
  | [] => []
  | r :: t => emit_rect pref lastrect cmw cmh r :: emit_region pref lastrect cmw cmh t
  end.

(* number of rectangle headers of an emission, when it is data independent *)
Fixpoint emitted_len (l : list emitted) : option Z :=
  match l with
  | [] => Some 0
  | EmKnown rs :: t => obind (emitted_len t) (fun n => Some (Z.of_nat (length rs) + n))
  | _ :: _ => None
  end.

(* rfbSendCopyRegion after the repair of F6 (commit e68aae9): before each rectangle
     if (cl->ublen + sz_rfbFramebufferUpdateRectHeader + sz_rfbCopyRect > UPDATE_BUF_SIZE) flush;
   then 16 bytes are appended.  [copy_ublen n u] = cl->ublen after n rectangles, starting at u;
   [copy_peak n u] = the largest offset ever written to. *)
Definition copy_rect_bytes : Z := sz_FramebufferUpdateRectHeader + sz_CopyRect.

Fixpoint copy_ublen (n : nat) (ublen : Z) : Z :=
  match n with
  | O => ublen
  | S k => copy_ublen k ((if ublen + copy_rect_bytes >? UPDATE_BUF_SIZE then 0 else ublen) + copy_rect_bytes)
  end.

Fixpoint copy_peak (n : nat) (ublen : Z) : Z :=
  match n with
  | O => ublen
  | S k => let u := (if ublen + copy_rect_bytes >? UPDATE_BUF_SIZE then 0 else ublen) + copy_rect_bytes in
           Z.max u (copy_peak k u)
  end.

(* ------------------------------------------------------------------ the count stage with the repair of F5
   (notes/fix_C03_5.diff): an explicit lastRectMode flag instead of the 0xFFFF sentinel, and an update
   that would announce 65535 or more rectangles is coalesced to its bounding box and counted again *)
Definition is_tight_class (pref : Z) : bool :=
  match classify pref with EcTight | EcTightPng => true | _ => false end.

Definition tight_unknown (pref : Z) (lastrect : bool) (region : list xywh) : bool :=
  is_tight_class pref && existsb (fun '(x, y, w, h) => count_tight lastrect x y w h =? 0) region.

(* Some (nUpdateRegionRects, lastRectMode) *)
Definition count_stage (pref : Z) (lastrect : bool) (cmw cmh : Z) (region : list xywh) : option (Z * bool) :=
  if tight_unknown pref lastrect region then Some (65535, true)
  else obind (n_region_rects pref lastrect cmw cmh region) (fun n => Some (n, false)).

(* [two_stage] = the second repair (notes/fix_C03_6.diff) is present: when the bounding box of the update
   region is not enough because the COPY rectangles alone reach the field size, they are sent as pixels
   too (merged into the update region, bounding box again).  Result: announced count, region to emit,
   LastRect mode, "the copy rectangles are still sent as CopyRect". *)
Definition finish_count (pref : Z) (maxrects npseudo : Z) (region1 : list xywh) (n1 : Z) (lrm1 : bool) (nc : Z) (keep : bool)
  : option (Z * list xywh * bool * bool) :=
  if lrm1 then Some (65535, region1, true, keep)
  else
    let '(region2, n2) :=
      if (maxrects >? 0) && negb (exempt_from_coalescing pref) && (n1 >? maxrects)
      then (bbox_region region1, 1) else (region1, n1) in
    Some (wrap16 (nc + n2 + npseudo), region2, false, keep).

Definition announce_fixed (two_stage : bool) (pref : Z) (lastrect : bool) (cmw cmh maxrects : Z) (region copyl : list xywh)
           (npseudo : Z) : option (Z * list xywh * bool * bool) :=
  let ncopy := Z.of_nat (length copyl) in
  obind (count_stage pref lastrect cmw cmh region) (fun '(n0, lrm0) =>
    if lrm0 || (ncopy + n0 + 6 <? 65535) then finish_count pref maxrects npseudo region n0 lrm0 ncopy true
    else
      let r1 := bbox_region region in
      obind (count_stage pref lastrect cmw cmh r1) (fun '(n1, lrm1) =>
        if lrm1 || negb two_stage || (ncopy + n1 + 6 <? 65535) then finish_count pref maxrects npseudo r1 n1 lrm1 ncopy true
        else
          let r2 := bbox_region (r1 ++ copyl) in
          obind (count_stage pref lastrect cmw cmh r2) (fun '(n2, lrm2) =>
            finish_count pref maxrects npseudo r2 n2 lrm2 0 false))).
