(* C03_parse_sound: soundness of the strict parser.  Whatever byte string [parse_msg] ACCEPTS as a
   FramebufferUpdate satisfies the property predicate: the announced count is the number of rectangles (or
   65535 + LastRect termination, only if the client enabled LastRect), every pixel rectangle uses an advertised
   encoding, a pixel size the encoding can carry, and lies inside the framebuffer size announced at that point
   of the stream; every pseudo-rectangle was enabled by the latest SetEncodings.  Together with the
   correspondence run (which feeds every byte of the real server to this parser) acceptance is therefore
   meaningful, not just "some parse exists". *)
From Coq Require Import List ZArith Bool Lia ZifyBool.
From LV Require Import Gen.Consts_C03 Wire.S2CModel.
Import ListNotations.
Local Open Scope Z_scope.

Definition is_size_enc (e : Z) : bool := (e =? enc_NewFBSize) || (e =? enc_ExtDesktopSize).

Definition pst_after (s : pst) (hd : hdr) : pst :=
  let '(x, y, w, h, e) := hd in if negb (is_pixel_enc e) && is_size_enc e then pst_set_fb s w h else s.

Definition hdr_sound (s : pst) (hd : hdr) : Prop :=
  let '(x, y, w, h, e) := hd in
  if is_pixel_enc e
  then bpp_allowed s e = true /\ enc_advertised s e = true /\ x + w <= p_fbw s /\ y + h <= p_fbh s
  else pseudo_enabled s e = true.

Fixpoint rects_sound (s : pst) (rs : list hdr) : Prop :=
  match rs with
  | [] => True
  | hd :: t => hdr_sound s hd /\ (let '(_, _, _, _, e) := hd in e <> enc_LastRect) /\ rects_sound (pst_after s hd) t
  end.

Ltac pb H :=
  repeat match type of H with
         | pbind ?r _ = POk _ _ => let E := fresh "E" in destruct r eqn:E; cbn [pbind] in H; [|discriminate H]
         | (if ?b then _ else _) = POk _ _ => let E := fresh "C" in destruct b eqn:E; try discriminate H
         | PFail _ = POk _ _ => discriminate H
         end.

Lemma parse_rect_sound : forall hf s l hd k s' rest,
  parse_rect hf s l = POk (hd, k, s') rest ->
  hdr_sound s hd /\ s' = pst_after s hd /\
  (k = RkLast <-> (let '(_, _, _, _, e) := hd in e = enc_LastRect)).
Proof.
  intros hf s l hd k s' rest H. unfold parse_rect in H.
  destruct (parse_hdr l) as [[[[[x y] w] h] e] l5|] eqn:Eh; [|discriminate H]. cbn [pbind] in H.
  unfold rect_payload in H.
  destruct (is_pixel_enc e) eqn:Ep.
  - (* pixel encodings *)
    destruct (negb (bpp_allowed s e)) eqn:C1; [discriminate H|].
    destruct (negb (enc_advertised s e)) eqn:C2; [discriminate H|].
    destruct ((x + w >? p_fbw s) || (y + h >? p_fbh s)) eqn:C3; [discriminate H|].
    assert (Hnl : e <> enc_LastRect) by (intro Q; subst e; discriminate Ep).
    assert (R : hd = (x, y, w, h, e) /\ k = RkPixel /\ s' = s).
    { repeat match type of H with
             | (if ?b then _ else _) = POk _ _ => destruct b
             end; pb H; inversion H; auto. }
    destruct R as (-> & -> & ->). unfold hdr_sound, pst_after. rewrite Ep. cbn [negb andb].
    split; [repeat split; try lia; destruct (bpp_allowed s e); destruct (enc_advertised s e); try reflexivity; discriminate|].
    split; [reflexivity|]. split; [discriminate|intro Q; contradiction].
  - destruct (e =? enc_LastRect) eqn:El.
    + destruct (pseudo_enabled s e) eqn:Pe; [|discriminate H]. inversion H; subst.
      unfold hdr_sound, pst_after. rewrite Ep. cbn [negb andb].
      assert (Ee : e = enc_LastRect) by lia. subst e. change (is_size_enc enc_LastRect) with false. cbv iota.
      split; [exact Pe|]. split; [reflexivity|]. split; auto.
    + destruct (negb (pseudo_enabled s e)) eqn:Pn.
      { destruct ((e =? enc_XCursor) || (e =? enc_RichCursor) || (e =? enc_PointerPos) || (e =? enc_NewFBSize) ||
                  (e =? enc_ExtDesktopSize) || (e =? enc_KeyboardLedState) || (e =? enc_SupportedMessages) ||
                  (e =? enc_SupportedEncodings) || (e =? enc_ServerIdentity)); discriminate H. }
      assert (Pe : pseudo_enabled s e = true) by (destruct (pseudo_enabled s e); [reflexivity|discriminate Pn]).
      assert (Hnl : e <> enc_LastRect) by lia.
      assert (R : hd = (x, y, w, h, e) /\ k = RkPseudo /\ s' = pst_after s (x, y, w, h, e)).
      { unfold pst_after. rewrite Ep. cbn [negb andb]. unfold is_size_enc.
        destruct (e =? enc_XCursor) eqn:X1; [assert (e = enc_XCursor) by lia; subst e; pb H; inversion H; auto|].
        destruct (e =? enc_RichCursor) eqn:X2; [assert (e = enc_RichCursor) by lia; subst e; pb H; inversion H; auto|].
        destruct (e =? enc_PointerPos) eqn:X3; [assert (e = enc_PointerPos) by lia; subst e; pb H; inversion H; auto|].
        destruct (e =? enc_KeyboardLedState) eqn:X4; [assert (e = enc_KeyboardLedState) by lia; subst e; pb H; inversion H; auto|].
        destruct (e =? enc_NewFBSize) eqn:X5; [pb H; inversion H; auto|].
        destruct (e =? enc_ExtDesktopSize) eqn:X6; [pb H; inversion H; auto|]. cbn [orb].
        destruct (e =? enc_SupportedMessages) eqn:X7; [pb H; inversion H; auto|].
        destruct (e =? enc_SupportedEncodings) eqn:X8; [pb H; inversion H; auto|].
        destruct (e =? enc_ServerIdentity) eqn:X9; [pb H; inversion H; auto|]. discriminate H. }
      destruct R as (-> & -> & ->). unfold hdr_sound. rewrite Ep.
      split; [exact Pe|]. split; [reflexivity|]. split; [discriminate|intro Q; contradiction].
Qed.

Lemma pst_after_caps : forall s hd, p_latest (pst_after s hd) = p_latest s /\ p_named (pst_after s hd) = p_named s.
Proof. intros s [[[[x y] w] h] e]. unfold pst_after. destruct (negb (is_pixel_enc e) && is_size_enc e); split; reflexivity. Qed.

Lemma parse_rects_n_sound : forall n hf s l acc rs s' rest,
  parse_rects_n n hf s l acc = POk (rs, s') rest ->
  exists new, rs = rev acc ++ new /\ length new = n /\ rects_sound s new.
Proof.
  induction n as [|n IH]; intros hf s l acc rs s' rest H; cbn [parse_rects_n] in H.
  - inversion H; subst. exists []. rewrite app_nil_r. repeat split; reflexivity.
  - destruct (parse_rect hf s l) as [[[hd k] s1] r1|] eqn:Ep; [|discriminate H]. cbn [pbind] in H.
    destruct (parse_rect_sound _ _ _ _ _ _ _ Ep) as (Hs & -> & Hk).
    assert (Hnl : let '(_, _, _, _, e) := hd in e <> enc_LastRect).
    { destruct hd as [[[[x y] w] h] e]. intro Q. rewrite (proj2 Hk Q) in H. discriminate H. }
    assert (H' : parse_rects_n n hf (pst_after s hd) r1 (hd :: acc) = POk (rs, s') rest) by (destruct k; [exact H|exact H|discriminate H]).
    destruct (IH _ _ _ _ _ _ _ H') as (new & -> & Hl & Hsnd).
    exists (hd :: new). cbn [rev]. rewrite <- app_assoc. cbn [app length rects_sound]. repeat split; auto.
Qed.

Lemma parse_rects_last_sound : forall fuel hf s l acc rs s' rest,
  parse_rects_last fuel hf s l acc = POk (rs, s') rest ->
  exists new, rs = rev acc ++ new /\ rects_sound s new.
Proof.
  induction fuel as [|f IH]; intros hf s l acc rs s' rest H; cbn [parse_rects_last] in H; [discriminate H|].
  destruct (parse_rect hf s l) as [[[hd k] s1] r1|] eqn:Ep; [|discriminate H]. cbn [pbind] in H.
  destruct (parse_rect_sound _ _ _ _ _ _ _ Ep) as (Hs & -> & Hk).
  destruct k.
  - destruct (IH _ _ _ _ _ _ _ H) as (new & -> & Hsnd). exists (hd :: new). cbn [rev]. rewrite <- app_assoc.
    cbn [app rects_sound]. repeat split; auto. destruct hd as [[[[x y] w] h] e]. intro Q. pose proof (proj2 Hk Q) as Z0. discriminate Z0.
  - destruct (IH _ _ _ _ _ _ _ H) as (new & -> & Hsnd). exists (hd :: new). cbn [rev]. rewrite <- app_assoc.
    cbn [app rects_sound]. repeat split; auto. destruct hd as [[[[x y] w] h] e]. intro Q. pose proof (proj2 Hk Q) as Z0. discriminate Z0.
  - inversion H; subst. exists []. rewrite app_nil_r. split; [reflexivity|exact I].
Qed.

Theorem parse_msg_sound : forall hf s l m s' rest, parse_msg hf s l = POk (m, s') rest ->
  match m with
  | MFbu n rs lm =>
      rects_sound s rs /\
      (if lm then n = 65535 /\ pseudo_enabled s enc_LastRect = true else length rs = Z.to_nat n /\ n <> 65535)
  | MCMap _ _ => p_truecolour s = false
  | MCutText _ true => mem enc_ExtendedClipboard (p_latest s) = true
  | MResize _ _ | MPalmResize _ _ => p_scale_requested s = true
  | MXvp _ _ => mem enc_Xvp (p_named s) = true
  | _ => True
  end.
Proof.
  intros hf s l m s' rest H. unfold parse_msg in H.
  set (K1 := 2147483648) in H. set (K2 := 4294967296) in H. clearbody K1 K2.
  destruct (u8 l) as [t l1|] eqn:Et; [|discriminate H]. cbn [pbind] in H.
  destruct (t =? s2c_FramebufferUpdate).
  { destruct (u8 l1) as [pad l2|]; [|discriminate H]. cbn [pbind] in H.
    destruct (u16 l2) as [n l3|]; [|discriminate H]. cbn [pbind] in H.
    destruct (n =? 65535) eqn:En.
    - destruct (negb (pseudo_enabled s enc_LastRect)) eqn:Pl; [discriminate H|].
      destruct (parse_rects_last hf hf s l3 []) as [[rs s1] r1|] eqn:Ep; [|discriminate H]. cbn [pbind] in H.
      inversion H; subst. destruct (parse_rects_last_sound _ _ _ _ _ _ _ _ Ep) as (new & -> & Hs). cbn [rev app].
      split; [exact Hs|]. split; [lia|]. destruct (pseudo_enabled s enc_LastRect); [reflexivity|discriminate Pl].
    - destruct (parse_rects_n (Z.to_nat n) hf s l3 []) as [[rs s1] r1|] eqn:Ep; [|discriminate H]. cbn [pbind] in H.
      inversion H; subst. destruct (parse_rects_n_sound _ _ _ _ _ _ _ _ Ep) as (new & -> & Hl & Hs). cbn [rev app].
      split; [exact Hs|]. split; [exact Hl|lia]. }
  destruct (t =? s2c_SetColourMapEntries).
  { pb H. inversion H; subst. reflexivity. }
  destruct (t =? s2c_Bell); [inversion H; subst; exact I|].
  destruct (t =? s2c_ServerCutText).
  { pb H; try (cbv zeta in H; pb H); injection H as Hm _ _; subst m; try exact I.
    destruct (mem enc_ExtendedClipboard (p_latest s)); [reflexivity|discriminate]. }
  destruct (t =? s2c_ResizeFrameBuffer); [pb H; inversion H; subst; reflexivity|].
  destruct (t =? s2c_PalmVNCReSizeFrameBuffer); [pb H; inversion H; subst; reflexivity|].
  destruct (t =? s2c_Xvp); [pb H; inversion H; subst; reflexivity|].
  discriminate H.
Qed.

(* the handshake check is strict: accepted bytes are exactly as long as the expected shape and agree with every
   literal byte of it (only the challenge and reason-text positions are free) *)
Lemma match_shape_strict : forall sh l rest, match_shape sh l = Some rest ->
  exists pre, l = pre ++ rest /\ length pre = length sh /\
              Forall2 (fun o b => match o with Some v => b = v | None => True end) sh pre.
Proof.
  induction sh as [|o sh IH]; intros l rest H; cbn [match_shape] in H.
  - inversion H; subst. exists []. repeat split. constructor.
  - destruct o as [v|]; destruct l as [|a t]; try discriminate H.
    + destruct (a =? v) eqn:E; [|discriminate H]. destruct (IH _ _ H) as (pre & -> & Hl & Hf).
      exists (a :: pre). cbn [app length]. repeat split; [lia|]. constructor; [lia|exact Hf].
    + destruct (IH _ _ H) as (pre & -> & Hl & Hf). exists (a :: pre). cbn [app length]. repeat split; [lia|].
      constructor; [exact I|exact Hf].
Qed.

Theorem handshake_strict : forall sc h l, check_handshake sc h l = true ->
  length l = length (fst (handshake_shape sc h)) /\
  Forall2 (fun o b => match o with Some v => b = v | None => True end) (fst (handshake_shape sc h)) l.
Proof.
  intros sc h l H. unfold check_handshake in H.
  destruct (match_shape (fst (handshake_shape sc h)) l) as [[|a r]|] eqn:E; try discriminate H.
  destruct (match_shape_strict _ _ _ E) as (pre & -> & Hl & Hf). rewrite app_nil_r. split; assumption.
Qed.
