(* C03, final round: (b) inside-ness for SCALED clients -- the update rectangles are mapped by
   rfbScaledCorrection (exact geometry Scale/ScaleQ.v, containment lemma corr1Q_inside of C17's
   Scale/ScaleProofs.v, not re-proved here) and then split by the encoders; (c) the resize clause as a RUN-level
   theorem: for a client that enabled NewFBSize / ExtDesktopSize, along any run of application resizes and updates,
   an update is either the size message carrying the current screen size or consists of rectangles inside the
   size last told to the client. *)
From Coq Require Import List ZArith Bool Lia ZifyBool.
From LV Require Import Gen.Consts_C03 Gen.Funs_C03 Region.RegionDefs Region.RegionProofs0 Region.RegionProofs
     Scale.ScaleQ Scale.ScaleProofs
     Wire.CountsModel Wire.CountsProofs Wire.CapsModel Wire.CapsProofs Wire.UpdateModel Wire.InsideProofs Wire.ModelProofs.
Import ListNotations.
Local Open Scope Z_scope.

(* ------------------------------------------------------------------ (b) scaled clients *)
(* what rfbSendFramebufferUpdate does to every region rectangle of a scaled client before counting / encoding it *)
Definition scale_rect (fw fh tw th : Z) (r : xywh) : xywh :=
  let '(x, y, w, h) := r in correctionQ fw fh tw th x y w h.

Lemma scale_rect_inside : forall fw fh tw th r, 1 <= fw -> 1 <= fh -> 1 <= tw -> 1 <= th ->
  rect_in_screen fw fh r -> rect_in_screen tw th (scale_rect fw fh tw th r).
Proof.
  intros fw fh tw th [[[x y] w] h] Hfw Hfh Htw Hth Hr. cbn in Hr. unfold scale_rect, correctionQ.
  pose proof (corr1Q_inside fw tw x w Hfw Htw ltac:(lia) ltac:(lia)) as Cx.
  pose proof (corr1Q_inside fh th y h Hfh Hth ltac:(lia) ltac:(lia)) as Cy.
  destruct (corr1Q fw tw x w) as [x' w']. destruct (corr1Q fh th y h) as [y' h']. cbn. lia.
Qed.

(* every rectangle emitted for a scaled client lies inside the scaled screen = the size told to that client
   (ResizeFrameBuffer / NewFBSize, C17 size_told): region stage inside the full screen (C03_rects_inside), mapped
   rectangle by rectangle, then counted / coalesced / split as for any client *)
Theorem rects_inside_scaled : forall g c1 s sn tw th pref lastrect cmw cmh maxrects npseudo n region' lm keep,
  1 <= sn_fbw sn -> 1 <= sn_fbh sn -> 1 <= tw -> 1 <= th -> 1 <= cmw -> 1 <= cmh ->
  WF (sn_mod sn) -> WF (sn_req sn) -> WF (sn_copy sn) -> within (sn_fbw sn) (sn_fbh sn) (sn_req sn) ->
  announce_sel g pref lastrect cmw cmh maxrects
               (map (scale_rect (sn_fbw sn) (sn_fbh sn) tw th) (pl_region (plan_regions c1 s sn))) [] npseudo
    = Some (n, region', lm, keep) ->
  Forall (rect_in_screen tw th) region' /\
  Forall (fun e => match e with
                   | EmKnown l => Forall (rect_in_screen tw th) l
                   | EmData r => rect_in_screen tw th r
                   | EmTrap => False end)
         (emit_region pref lastrect cmw cmh region').
Proof.
  intros g c1 s sn tw th pref lastrect cmw cmh maxrects npseudo n region' lm keep HW HH Htw Hth Hcw Hch Wm Wq Wc Iq Ha.
  destruct (plan_inside c1 s sn HW HH Wm Wq Wc Iq) as [P _].
  eapply emitted_inside_screen_sel; [exact Hcw|exact Hch| |constructor|exact Ha].
  apply Forall_forall. intros r Hin. apply in_map_iff in Hin. destruct Hin as (r0 & <- & Hin).
  rewrite Forall_forall in P. apply scale_rect_inside; auto.
Qed.

(* ------------------------------------------------------------------ (c) resizes, run level *)
(* region stage inside the screen from "modifiedRegion and copyRegion lie inside the screen" (what rfbNewFramebuffer
   establishes: modifiedRegion := the whole new screen, copyRegion := empty) -- requestedRegion may still
   contain rectangles of the OLD geometry *)
Lemma plan_inside_mod : forall c1 s sn,
  1 <= sn_fbw sn -> 1 <= sn_fbh sn ->
  WF (sn_mod sn) -> WF (sn_req sn) -> WF (sn_copy sn) ->
  within (sn_fbw sn) (sn_fbh sn) (sn_mod sn) -> within (sn_fbw sn) (sn_fbh sn) (sn_copy sn) ->
  Forall (rect_in_screen (sn_fbw sn) (sn_fbh sn)) (pl_region (plan_regions c1 s sn)) /\
  Forall (fun rc => let '(x1, y1, x2, y2) := rc in 0 <= x1 /\ x1 < x2 /\ x2 <= sn_fbw sn /\ 0 <= y1 /\ y1 < y2 /\ y2 <= sn_fbh sn)
         (pl_copy (plan_regions c1 s sn)).
Proof.
  intros c1 s sn HW HH Wm Wq Wc Im Ic. unfold plan_regions.
  set (W := sn_fbw sn) in *. set (H := sn_fbh sn) in *.
  set (copy1 := fst (rgn_sub (sn_copy sn) (sn_mod sn))).
  assert (Wc1 : WF copy1) by (apply rgn_sub_wf; assumption).
  assert (Ic1 : within W H copy1).
  { intros x y Hm. unfold copy1 in Hm. rewrite (rgn_sub_mem _ _ Wc Wm) in Hm. apply andb_true_iff in Hm. apply Ic. tauto. }
  set (upd0 := rgn_or (sn_mod sn) copy1).
  assert (Wu0 : WF upd0) by (apply rgn_or_wf; assumption).
  pose proof (rgn_and_wf upd0 (sn_req sn) Wu0 Wq) as Wu1.
  pose proof (rgn_and_mem upd0 (sn_req sn) Wu0 Wq) as Mu1.
  destruct (rgn_and upd0 (sn_req sn)) as [upd1 ne] eqn:Eu1. cbn [fst] in Wu1, Mu1.
  set (ucopy0 := fst (rgn_and copy1 (sn_req sn))).
  assert (Wuc0 : WF ucopy0) by (apply rgn_and_wf; assumption).
  set (oreq := rgn_offset (sn_req sn) (sn_dx sn) (sn_dy sn)).
  assert (Wo : WF oreq) by (apply offset_wf; assumption).
  set (ucopy := fst (rgn_and ucopy0 oreq)).
  assert (Wuc : WF ucopy) by (apply rgn_and_wf; assumption).
  set (upd2 := fst (rgn_sub upd1 ucopy)).
  assert (Wu2 : WF upd2) by (apply rgn_sub_wf; assumption).
  assert (Iu2 : within W H upd2).
  { intros x y Hm. unfold upd2 in Hm. rewrite (rgn_sub_mem upd1 ucopy Wu1 Wuc) in Hm.
    apply andb_true_iff in Hm. destruct Hm as [Hm _]. rewrite Mu1 in Hm.
    apply andb_true_iff in Hm. destruct Hm as [Hm _]. unfold upd0 in Hm. rewrite (rgn_or_mem _ _ Wm Wc1) in Hm.
    apply orb_true_iff in Hm. destruct Hm; [apply Im|apply Ic1]; assumption. }
  cbn [pl_region pl_copy]. split.
  - set (upd3 := if c_cursorshape c1 then upd2
                 else if (sn_clx sn =? sn_scx sn) && (sn_cly sn =? sn_scy sn) then upd2
                 else redraw_cursor (sn_cursor sn) (sn_scx sn) (sn_scy sn) W H
                        (redraw_cursor (sn_cursor sn) (sn_clx sn) (sn_cly sn) W H upd2)).
    assert (K : WF upd3 /\ within W H upd3).
    { unfold upd3. destruct (c_cursorshape c1); [split; assumption|].
      destruct ((sn_clx sn =? sn_scx sn) && (sn_cly sn =? sn_scy sn)); [split; assumption|].
      destruct (redraw_cursor_ok (sn_cursor sn) (sn_clx sn) (sn_cly sn) W H upd2 HW HH Wu2 Iu2) as [Wa Ia].
      apply redraw_cursor_ok; assumption. }
    destruct K as [Wu3 Iu3].
    set (upd4 := if c_cursorshape c1 then upd3 else clip_to_requested upd3 (sn_req sn)).
    assert (K4 : WF upd4 /\ within W H upd4).
    { unfold upd4. destruct (c_cursorshape c1); [split; assumption|].
      destruct (clip_ok upd3 (sn_req sn) Wu3 Wq) as [Wk Mk]. split; [assumption|].
      intros x y Hm. rewrite Mk in Hm. apply andb_true_iff in Hm. apply Iu3. tauto. }
    clear Wu3 Iu3. destruct K4 as [Wu3 Iu3].
    apply Forall_forall. intros r Hin. apply in_map_iff in Hin. destruct Hin as (rc & <- & Hin).
    pose proof (iter_rect_inside false false upd4 W H rc Wu3 Iu3 Hin) as Hr.
    destruct rc as [[[x1 y1] x2] y2]. cbn [to_xywh rect_in_screen]. lia.
  - apply Forall_forall. intros rc Hin.
    assert (Iuc : within W H ucopy).
    { intros x y Hm. unfold ucopy in Hm. rewrite (rgn_and_mem ucopy0 oreq Wuc0 Wo) in Hm.
      apply andb_true_iff in Hm. destruct Hm as [Hm _]. unfold ucopy0 in Hm.
      rewrite (rgn_and_mem copy1 (sn_req sn) Wc1 Wq) in Hm. apply andb_true_iff in Hm. apply Ic1. tauto. }
    pose proof (iter_rect_inside _ _ ucopy W H rc Wuc Iuc Hin) as Hr.
    destruct rc as [[[x1 y1] x2] y2]. lia.
Qed.

(* the run: screen size, size last told to the client, capability state *)
Record rstate := mkR { r_caps : caps; r_W : Z; r_H : Z; r_aw : Z; r_ah : Z }.

Inductive revent :=
| EvResize (W H : Z)            (* the application calls rfbNewFramebuffer *)
| EvUpdate (sn : snap).         (* rfbSendFramebufferUpdate runs with this bookkeeping state *)

(* an update event is admissible in a state: it is about the current screen and its regions are sane *)
Definition ev_ok (st : rstate) (ev : revent) : Prop :=
  match ev with
  | EvResize W H => 1 <= W < 65536 /\ 1 <= H < 65536
  | EvUpdate sn =>
      sn_fbw sn = r_W st /\ sn_fbh sn = r_H st /\ WF (sn_mod sn) /\ WF (sn_req sn) /\ WF (sn_copy sn) /\
      within (sn_fbw sn) (sn_fbh sn) (sn_mod sn) /\ within (sn_fbw sn) (sn_fbh sn) (sn_copy sn)
  end.

Definition is_size_hdr (W H : Z) (p : phdr) : Prop :=
  match p with
  | PH (_, _, w, h, e) => w = W /\ h = H /\ (e = enc_NewFBSize \/ e = enc_ExtDesktopSize)
  | PData _ _ => False
  end.

Definition rstep (g : cfg) (st : rstate) (ev : revent) : rstate :=
  match ev with
  | EvResize W H => mkR (on_newfb (r_caps st)) W H (r_aw st) (r_ah st)
  | EvUpdate sn =>
      let c := r_caps st in
      let c0 := bpp24_prelude g c sn in
      if c_newfbsize c0 && c_fbpending c0
      then mkR (fst (model_update g c sn)) (r_W st) (r_H st) (r_W st) (r_H st)     (* the size message is sent *)
      else mkR (fst (model_update g c sn)) (r_W st) (r_H st) (r_aw st) (r_ah st)
  end.

(* what one update puts on the wire, as far as geometry is concerned *)
Definition update_ok (g : cfg) (st : rstate) (sn : snap) : Prop :=
  let c0 := bpp24_prelude g (r_caps st) sn in
  if c_newfbsize c0 && c_fbpending c0
  then (* exactly one rectangle: the size message with the CURRENT screen size *)
       exists c' h, model_update g (r_caps st) sn = (c', USent 1 [PH h] false false) /\ is_size_hdr (r_W st) (r_H st) (PH h)
  else (* pixel and copy rectangles of the region stage lie inside the size last TOLD to the client *)
       let sc := decide_sends g c0 (sn_ledval sn) in
       let pl := plan_regions (snd sc) (fst sc) sn in
       Forall (rect_in_screen (r_aw st) (r_ah st)) (pl_region pl) /\
       Forall (fun rc => let '(x1, y1, x2, y2) := rc in 0 <= x1 /\ x1 < x2 /\ x2 <= r_aw st /\ 0 <= y1 /\ y1 < y2 /\ y2 <= r_ah st)
              (pl_copy pl).

(* invariant: the client that enabled NewFBSize knows the screen size, or the size message is pending *)
Definition rinv (st : rstate) : Prop :=
  1 <= r_W st < 65536 /\ 1 <= r_H st < 65536 /\ c_newfbsize (r_caps st) = true /\
  (c_fbpending (r_caps st) = true \/ (r_aw st = r_W st /\ r_ah st = r_H st)).

Lemma prelude_flags : forall g c sn, c_newfbsize (bpp24_prelude g c sn) = c_newfbsize c /\
  c_fbpending (bpp24_prelude g c sn) = c_fbpending c /\ c_extdesktop (bpp24_prelude g c sn) = c_extdesktop c.
Proof. intros g c sn. unfold bpp24_prelude. match goal with |- context [if ?b then _ else _] => destruct b end; repeat split. Qed.

Lemma model_update_newfb_flags : forall g c sn,
  c_newfbsize (fst (model_update g c sn)) = c_newfbsize c /\
  (c_newfbsize c && c_fbpending c = false -> c_fbpending (fst (model_update g c sn)) = c_fbpending c) /\
  (c_newfbsize c && c_fbpending c = true -> c_fbpending (fst (model_update g c sn)) = false).
Proof.
  intros g c sn. pose proof (model_update_no_gain g c sn) as D. destruct D as (_ & _ & _ & N & _). split; [exact N|].
  destruct (prelude_flags g c sn) as (P1 & P2 & P3).
  unfold model_update, model_update_core. rewrite P1, P2.
  destruct (c_newfbsize c && c_fbpending c) eqn:E; split; intro Q; try discriminate Q.
  - unfold newfb_update. reflexivity.
  - (* decide_sends and render_update never touch the pending flag *)
    cbv zeta. set (c0 := bpp24_prelude g c sn).
    assert (F0 : c_fbpending (snd (decide_sends g c0 (sn_ledval sn))) = c_fbpending c0).
    { unfold decide_sends. cbn [snd]. destruct (c_led c0 && g_ledhook g); reflexivity. }
    destruct (pl_nothing _); cbn [fst]; [rewrite F0; exact P2|].
    unfold render_update.
    destruct (announce_sel _ _ _ _ _ _ _ _ _) as [[[[n r] l] k]|]; cbn [fst]; [|rewrite F0; exact P2].
    destruct (region_hdrs _ _); cbn [fst];
      destruct (s_shape _), (s_pos _); unfold set_cursor_changed, set_cursor_moved; cbn [c_fbpending]; rewrite F0; exact P2.
Qed.

(* every admissible event of the run keeps the invariant, and every update is geometrically right *)
Fixpoint run_ok (g : cfg) (st : rstate) (evs : list revent) : Prop :=
  match evs with
  | [] => True
  | ev :: t =>
      ev_ok st ev ->
      (match ev with EvUpdate sn => update_ok g st sn | EvResize _ _ => True end) /\
      rinv (rstep g st ev) /\ run_ok g (rstep g st ev) t
  end.

Theorem run_resize_inside : forall g evs st, rinv st -> run_ok g st evs.
Proof.
  intros g evs. induction evs as [|ev t IH]; intros st Hi; [exact I|].
  cbn [run_ok]. intros Hev. destruct Hi as (HW & HH & Hn & Hp).
  destruct ev as [W H|sn].
  - (* resize: the pending flag is raised because the client has NewFBSize *)
    cbn [ev_ok] in Hev. split; [exact I|].
    assert (Hi' : rinv (rstep g st (EvResize W H))).
    { unfold rinv, rstep. cbn [r_W r_H r_caps r_aw r_ah]. unfold on_newfb. rewrite Hn. cbn. repeat split; try lia; try (left; reflexivity). }
    split; [exact Hi'|]. apply IH; exact Hi'.
  - cbn [ev_ok] in Hev. destruct Hev as (EW & EH & Wm & Wq & Wc & Im & Ic).
    destruct (prelude_flags g (r_caps st) sn) as (P1 & P2 & P3).
    destruct (model_update_newfb_flags g (r_caps st) sn) as (F1 & F2 & F3).
    assert (Hi' : rinv (rstep g st (EvUpdate sn))).
    { unfold rinv, rstep. cbv zeta. rewrite P1, P2.
      destruct (c_newfbsize (r_caps st) && c_fbpending (r_caps st)) eqn:E; cbn [r_W r_H r_caps r_aw r_ah];
        repeat split; try lia; try (rewrite F1; exact Hn);
        try (right; split; reflexivity);
        try (rewrite (F2 eq_refl); destruct Hp as [Hp|Hp]; [rewrite Hn, Hp in E; discriminate E|right; exact Hp]). }
    split; [|split; [exact Hi'|apply IH; exact Hi']].
    unfold update_ok. cbv zeta. rewrite P1, P2.
    destruct (c_newfbsize (r_caps st) && c_fbpending (r_caps st)) eqn:E.
    + unfold model_update, model_update_core. rewrite P1, P2, E. unfold newfb_update. rewrite P3.
      eexists. eexists. split; [reflexivity|].
      assert (Ww : wire16 (sn_fbw sn) = r_W st) by (unfold wire16; rewrite EW; apply Z.mod_small; lia).
      assert (Wh : wire16 (sn_fbh sn) = r_H st) by (unfold wire16; rewrite EH; apply Z.mod_small; lia).
      destruct (c_extdesktop (r_caps st)); cbn [is_size_hdr]; rewrite Ww, Wh; auto.
    + (* no size message pending: the client knows the current size *)
      destruct Hp as [Hp|[Ha1 Ha2]]; [rewrite Hn, Hp in E; discriminate E|].
      rewrite Ha1, Ha2, <- EW, <- EH.
      apply plan_inside_mod; try assumption; lia.
Qed.

(* a concrete run: client with NewFBSize, 20x10 screen, resize to 24x12, the size message, then pixels *)
Definition ex_run_state : rstate :=
  mkR (fst (set_encodings (mkCfg false false false false true true true true) caps_init [enc_Raw; enc_NewFBSize])) 20 10 20 10.
Definition ex_run_snap : snap :=
  mkSnap (rgn_create_rect 0 0 24 12) (rgn_create_rect 0 0 20 10) rgn_empty 0 0 0 0 0 0 None 0 24 12 50 48 48 1 32 0 0.

Lemma ex_run :
  rinv ex_run_state /\ ev_ok ex_run_state (EvResize 24 12) /\
  ev_ok (rstep (mkCfg false false false false true true true true) ex_run_state (EvResize 24 12)) (EvUpdate ex_run_snap) /\
  snd (model_update (mkCfg false false false false true true true true)
         (r_caps (rstep (mkCfg false false false false true true true true) ex_run_state (EvResize 24 12))) ex_run_snap)
  = USent 1 [PH (0, 0, 24, 12, enc_NewFBSize)] false false.
Proof.
  split; [unfold rinv; cbn; repeat split; try lia; right; split; reflexivity|].
  split; [cbn; lia|]. split; [|reflexivity].
  cbn [ev_ok rstep r_W r_H ex_run_snap sn_fbw sn_fbh sn_mod sn_req sn_copy].
  split; [reflexivity|]. split; [reflexivity|].
  split; [apply create_rect_wf; lia|]. split; [apply create_rect_wf; lia|]. split; [apply WF_empty|].
  split; intros x y Hm; [rewrite create_rect_mem in Hm; unfold rect_mem in Hm; lia|discriminate Hm].
Qed.
